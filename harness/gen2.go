package main

// Generators for the operations of run3.go.

import (
	"github.com/pion/rtcp"
)

// ---- dec2: fixed-width units decoded into a receiver that already holds another unit ----
func genDec2(e *emitter, r *rng, n int) {
	hdr := func() []byte {
		b := []byte{r.u8(), r.u8(), r.u8(), r.u8()}
		if r.chance(7, 8) {
			b[0] = b[0]&0x3F | 0x80
		}
		if r.chance(1, 10) {
			b = b[:r.intn(4)]
		}
		return b
	}
	op := func(name string, b1, b2 []byte) *Sx { return sl(sy("dec2"), sy(name), sb(b1), sb(b2)) }
	for i := 0; i < n; i++ {
		h1, h2 := hdr(), hdr()
		if len(h1) == 4 && len(h2) == 4 && r.chance(1, 2) { // complementary flag/count bits
			h2[0] = 0x80 | (^h1[0] & 0x3F)
		}
		e.emit("dec2-hdr", op("Header", h1, h2))
		e.emit("dec2-rlc", op("RunLengthChunk", []byte{r.u8() & 0x7F, r.u8()}, []byte{r.u8() & 0x7F, r.u8()}))
		e.emit("dec2-svc", op("StatusVectorChunk", []byte{r.u8() | 0x80, r.u8()}, []byte{r.u8() | 0x80, r.u8()}))
		e.emit("dec2-delta", op("RecvDelta", r.bytesN(r.pick(1, 2, 1, 2, 0)), r.bytesN(r.pick(1, 2, 2, 1, 3))))
		e.emit("dec2-rrep", op("ReceptionReport", r.bytesN(r.pick(24, 24, 24, 20)), r.bytesN(r.pick(24, 24, 24, 25, 0))))
		if hooksAvailable {
			e.emit("dec2-metric", op("CCFeedbackMetricBlock", r.bytesN(2), r.bytesN(r.pick(2, 2, 2, 1))))
		}
	}
}

// ---- scribble: the caller reuses its buffer after decoding; only for types whose decoder keeps no reference ----
func copiesInput(p rtcp.Packet) bool {
	switch p.(type) {
	case *rtcp.RawPacket, *rtcp.ApplicationDefined, *rtcp.SenderReport, *rtcp.ReceiverReport, *rtcp.CompoundPacket:
		return false
	}
	return true
}

func genScribble(e *emitter, r *rng, n int, onlyXR bool) {
	pool := collectVariants(r, n/2+1)
	for i := 0; i < n; i++ {
		var p rtcp.Packet
		if onlyXR {
			p = genXR(r, false)
		} else {
			p = genPacket(r, false)
		}
		if !copiesInput(p) {
			continue
		}
		b := encOf(p)
		if b == nil {
			continue
		}
		if r.chance(1, 4) {
			b = mutate(r, b)
		}
		e.emit("scribble-"+typeName(p), sl(sy("scribble"), sy(typeName(p)), sb(b)))
	}
	for _, v := range pool {
		if v.name == "ApplicationDefined" || v.name == "ReceiverReport" || (onlyXR && v.name != "ExtendedReport") {
			continue
		}
		e.emit("scribble-v-"+v.name, sl(sy("scribble"), sy(v.name), sb(v.b)))
	}
}

// ---- dhist: histories on the packets a datagram decodes to ----
type variantFrame struct {
	name string
	b    []byte
}

var collected []variantFrame

func collectVariants(r *rng, n int) []variantFrame {
	collected = nil
	genVariantsAs(nil, r, n, "collect")
	out := collected
	collected = nil
	return out
}

var dhistOps = []string{"marshal", "marshalrev", "each", "size", "dest", "string", "marshal", "marshalrev"}

func genDhist(e *emitter, r *rng, n int) {
	pool := collectVariants(r, n)
	aliasing := func() []byte { // frames whose decoded form keeps a sub-slice of the datagram
		for {
			var p rtcp.Packet
			switch r.intn(4) {
			case 0:
				p = genRaw(r, false)
			case 1:
				p = genAPP(r, false)
			case 2:
				p = genSR(r, false)
			default:
				p = genRR(r, false)
			}
			if b := encOf(p); b != nil && len(b)%4 == 0 {
				return b
			}
		}
	}
	for i := 0; i < n; i++ {
		k := 2 + r.intn(4)
		var dg []byte
		for j := 0; j < k; j++ {
			var b []byte
			switch {
			case j == 0 && r.chance(1, 2):
				b = encOf(genRaw(r, false))
			case r.chance(1, 3):
				b = aliasing()
			case r.chance(1, 2) && len(pool) > 0:
				b = pool[r.intn(len(pool))].b
			default:
				b = encOf(genPacket(r, false))
			}
			if len(b)%4 != 0 { // would make the datagram undecodable; unaligned encodings are the subject of F10
				continue
			}
			dg = append(dg, b...)
		}
		if r.chance(1, 12) {
			dg = mutate(r, dg)
		}
		m := 2 + r.intn(5)
		var ops []*Sx
		for j := 0; j < m; j++ {
			ops = append(ops, sy(dhistOps[r.intn(len(dhistOps))]))
		}
		e.emit("dhist", sl(sy("dhist"), sb(dg), sl(ops...)))
	}
}
