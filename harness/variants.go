package main

// RFC-valid encodings that the library's own encoder never produces, built by an
// independent byte-level encoder, each with the value the specification assigns to it.
// op: (variant <TypeName> xbytes <expected packet>)

import (
	"encoding/binary"
	"math"

	"github.com/pion/rtcp"
)

func hdrBytes(pad bool, count int, pt int, total int) []byte {
	b := make([]byte, 4)
	b[0] = 0x80 | byte(count&31)
	if pad {
		b[0] |= 0x20
	}
	b[1] = byte(pt)
	binary.BigEndian.PutUint16(b[2:], uint16(total/4-1))
	return b
}

func be32(x uint32) []byte { b := make([]byte, 4); binary.BigEndian.PutUint32(b, x); return b }
func be16(x uint16) []byte { b := make([]byte, 2); binary.BigEndian.PutUint16(b, x); return b }

func opVariant(name string, b []byte, expected rtcp.Packet) *Sx {
	return sl(sy("variant"), sy(name), sb(b), packetSx(expected))
}

func genVariants(e *emitter, r *rng, n int) { genVariantsAs(e, r, n, "variant") }

// as = "variant" (C04: compare with the expected value) or "redec" (C09: feed the bytes to the re-encode pipeline)
func genVariantsAs(e *emitter, r *rng, n int, as string) {
	out := func(kind, name string, b []byte, exp rtcp.Packet) {
		if as == "collect" {
			collected = append(collected, variantFrame{name, b})
		} else if as == "redec" {
			e.emit("v-"+kind, op1("redec", sb(b)))
		} else {
			e.emit("v-"+kind, opVariant(name, b, exp))
		}
	}
	for i := 0; i < n; i++ {
		switch r.intn(10) {
		case 0: // FIR with non-zero reserved bits
			p := genFIR(r, false)
			body := append(be32(p.SenderSSRC), be32(p.MediaSSRC)...)
			for _, f := range p.FIR {
				body = append(body, be32(f.SSRC)...)
				body = append(body, f.SequenceNumber, r.u8(), r.u8(), r.u8())
			}
			out("fir-reserved", "FullIntraRequest", append(hdrBytes(false, 4, 206, 4+len(body)), body...), p)
		case 1: // APP with P-bit padding of 4k octets
			p := genAPP(r, false)
			for len(p.Data)%4 != 0 {
				p.Data = append(p.Data, r.u8())
			}
			k := 4 * (1 + r.intn(3))
			body := append(be32(p.SSRC), []byte(p.Name)...)
			body = append(body, p.Data...)
			padding := make([]byte, k)
			copy(padding, r.bytesN(k))
			padding[k-1] = byte(k)
			body = append(body, padding...)
			out("app-padded", "ApplicationDefined", append(hdrBytes(true, int(p.SubType), 204, 4+len(body)), body...), p)
		case 2: // BYE: without reason, with an empty reason (length octet 0), with reason
			p := genBYE(r, false)
			var body []byte
			for _, s := range p.Sources {
				body = append(body, be32(s)...)
			}
			switch r.intn(3) {
			case 0:
				p.Reason = ""
			case 1:
				p.Reason = ""
				body = append(body, 0, 0, 0, 0)
			default:
				if p.Reason == "" {
					p.Reason = "x"
				}
				body = append(body, byte(len(p.Reason)))
				body = append(body, p.Reason...)
				for len(body)%4 != 0 {
					body = append(body, 0)
				}
				if r.chance(1, 3) { // extra null padding word
					body = append(body, 0, 0, 0, 0)
				}
			}
			out("bye", "Goodbye", append(hdrBytes(false, len(p.Sources), 203, 4+len(body)), body...), p)
		case 3: // SDES: chunks terminated by 1..4 nulls (next multiple of four), PRIV items
			p := genSDES(r, false)
			var body []byte
			for ci := range p.Chunks {
				if r.chance(1, 3) {
					p.Chunks[ci].Items = append(p.Chunks[ci].Items, rtcp.SourceDescriptionItem{Type: rtcp.SDESPrivate, Text: string(append([]byte{3, 'a', 'b', 'c'}, r.bytesN(r.intn(5))...))})
				}
				c := p.Chunks[ci]
				body = append(body, be32(c.Source)...)
				for _, it := range c.Items {
					body = append(body, byte(it.Type), byte(len(it.Text)))
					body = append(body, it.Text...)
				}
				body = append(body, 0)
				for len(body)%4 != 0 {
					body = append(body, 0)
				}
			}
			out("sdes", "SourceDescription", append(hdrBytes(false, len(p.Chunks), 202, 4+len(body)), body...), p)
		case 4: // CCFB: not-received metric blocks with stray bits
			p := genCCFB(r, false)
			body := be32(p.SenderSSRC)
			ok := true
			for _, blk := range p.ReportBlocks {
				nb := len(blk.MetricBlocks)
				if nb == 1 { // unrepresentable under pion's reading (finding F6)
					ok = false
				}
				body = append(body, be32(blk.MediaSSRC)...)
				body = append(body, be16(blk.BeginSequence)...)
				field := 0
				if nb > 0 {
					field = nb - 1
				}
				body = append(body, be16(uint16(field))...)
				for _, m := range blk.MetricBlocks {
					w := uint16(0)
					if m.Received {
						w = 0x8000 | uint16(m.ECN&3)<<13 | m.ArrivalTimeOffset&0x1FFF
					} else {
						w = uint16(r.bits(15))
					}
					body = append(body, be16(w)...)
				}
				if nb%2 == 1 {
					body = append(body, 0, 0)
				}
			}
			body = append(body, be32(p.ReportTimestamp)...)
			if ok {
				out("ccfb-stray", "CCFeedbackReport", append(hdrBytes(false, 11, 205, 4+len(body)), body...), p)
			}
		case 5: // XR: reserved bits set, unknown block types
			x := genXR(r, false)
			body := be32(x.SenderSSRC)
			for _, blk := range x.Reports {
				body = append(body, xrBlockBytes(r, blk)...)
			}
			out("xr-reserved", "ExtendedReport", append(hdrBytes(false, 0, 207, 4+len(body)), body...), x)
		case 6: // RR / SR plain (reference encoding of the fixed layouts)
			p := genRR(r, false)
			for len(p.ProfileExtensions)%4 != 0 {
				p.ProfileExtensions = append(p.ProfileExtensions, 0)
			}
			body := be32(p.SSRC)
			for _, rp := range p.Reports {
				body = append(body, reportBytes(rp)...)
			}
			body = append(body, p.ProfileExtensions...)
			out("rr", "ReceiverReport", append(hdrBytes(false, len(p.Reports), 201, 4+len(body)), body...), p)
		case 8: // REMB written out by hand: every SSRC count up to the 8-bit limit, any exponent, a non-zero mantissa
			n := r.pick(0, 1, 2, 3, 250, 251, 252, 253, 254, 255, r.intn(256))
			exp, mant := r.intn(64), 1+r.intn(1<<18-1)
			p := &rtcp.ReceiverEstimatedMaximumBitrate{SenderSSRC: r.u32(), Bitrate: float32(math.Ldexp(float64(mant), exp))}
			body := append(be32(p.SenderSSRC), 0, 0, 0, 0, 'R', 'E', 'M', 'B', byte(n), byte(exp<<2|mant>>16), byte(mant>>8), byte(mant))
			for i := 0; i < n; i++ {
				v := r.u32()
				p.SSRCs = append(p.SSRCs, v)
				body = append(body, be32(v)...)
			}
			out("remb", "ReceiverEstimatedMaximumBitrate", append(hdrBytes(false, 15, 206, 4+len(body)), body...), p)
		case 9: // NACK written out by hand, from one pair to several hundred
			n := r.pick(1, 2, 3, 17, 64, 253, 254, 300, 1+r.intn(400))
			p := &rtcp.TransportLayerNack{SenderSSRC: r.u32(), MediaSSRC: r.u32()}
			body := append(be32(p.SenderSSRC), be32(p.MediaSSRC)...)
			for i := 0; i < n; i++ {
				np := rtcp.NackPair{PacketID: r.u16(), LostPackets: rtcp.PacketBitmap(r.u16())}
				p.Nacks = append(p.Nacks, np)
				body = append(body, be16(np.PacketID)...)
				body = append(body, be16(uint16(np.LostPackets))...)
			}
			out("nack", "TransportLayerNack", append(hdrBytes(false, 1, 205, 4+len(body)), body...), p)
		default: // TWCC: a different chunking of the same statuses is produced by genTWCC itself
			t := genTWCC(r, false)
			if b := twccBytes(t); b != nil {
				out("twcc", "TransportLayerCC", b, t)
			}
		}
	}
}

// hugeXRVariant: an RFC-valid ExtendedReport with one report block of 64 KiB or more, encoded by xrBlockBytes (not by the
// library), with the value the specification assigns to it
func hugeXRVariant(r *rng, kind int) ([]byte, *rtcp.ExtendedReport) {
	x := genHugeXR(r, kind)
	body := be32(x.SenderSSRC)
	for _, blk := range x.Reports {
		body = append(body, xrBlockBytes(r, blk)...)
	}
	return append(hdrBytes(false, 0, 207, 4+len(body)), body...), x
}

func reportBytes(rp rtcp.ReceptionReport) []byte {
	b := be32(rp.SSRC)
	b = append(b, rp.FractionLost, byte(rp.TotalLost>>16), byte(rp.TotalLost>>8), byte(rp.TotalLost))
	b = append(b, be32(rp.LastSequenceNumber)...)
	b = append(b, be32(rp.Jitter)...)
	b = append(b, be32(rp.LastSenderReport)...)
	b = append(b, be32(rp.Delay)...)
	return b
}

// independent XR block encoder; reserved bits are filled with random values, and the
// expected value's header bookkeeping is not compared for known kinds
func xrBlockBytes(r *rng, blk rtcp.ReportBlock) []byte {
	var bt, ts byte
	var body []byte
	switch b := blk.(type) {
	case *rtcp.LossRLEReportBlock, *rtcp.DuplicateRLEReportBlock:
		var t uint8
		var ssrc uint32
		var bs, es uint16
		var chunks []rtcp.Chunk
		if l, ok := b.(*rtcp.LossRLEReportBlock); ok {
			bt, t, ssrc, bs, es, chunks = 1, l.T, l.SSRC, l.BeginSeq, l.EndSeq, l.Chunks
		} else {
			d := b.(*rtcp.DuplicateRLEReportBlock)
			bt, t, ssrc, bs, es, chunks = 2, d.T, d.SSRC, d.BeginSeq, d.EndSeq, d.Chunks
		}
		ts = byte(r.intn(16))<<4 | t&15
		body = append(be32(ssrc), be16(bs)...)
		body = append(body, be16(es)...)
		for _, c := range chunks {
			body = append(body, be16(uint16(c))...)
		}
	case *rtcp.PacketReceiptTimesReportBlock:
		bt, ts = 3, byte(r.intn(16))<<4|b.T&15
		body = append(be32(b.SSRC), be16(b.BeginSeq)...)
		body = append(body, be16(b.EndSeq)...)
		for _, t := range b.ReceiptTime {
			body = append(body, be32(t)...)
		}
	case *rtcp.ReceiverReferenceTimeReportBlock:
		bt, ts = 4, r.u8()
		body = make([]byte, 8)
		binary.BigEndian.PutUint64(body, b.NTPTimestamp)
	case *rtcp.DLRRReportBlock:
		bt, ts = 5, r.u8()
		for _, d := range b.Reports {
			body = append(body, be32(d.SSRC)...)
			body = append(body, be32(d.LastRR)...)
			body = append(body, be32(d.DLRR)...)
		}
	case *rtcp.StatisticsSummaryReportBlock:
		bt = 6
		if b.LossReports {
			ts |= 0x80
		}
		if b.DuplicateReports {
			ts |= 0x40
		}
		if b.JitterReports {
			ts |= 0x20
		}
		ts |= byte(b.TTLorHopLimit&3)<<3 | byte(r.intn(8))
		body = append(be32(b.SSRC), be16(b.BeginSeq)...)
		body = append(body, be16(b.EndSeq)...)
		for _, v := range []uint32{b.LostPackets, b.DupPackets, b.MinJitter, b.MaxJitter, b.MeanJitter, b.DevJitter} {
			body = append(body, be32(v)...)
		}
		body = append(body, b.MinTTLOrHL, b.MaxTTLOrHL, b.MeanTTLOrHL, b.DevTTLOrHL)
	case *rtcp.VoIPMetricsReportBlock:
		bt, ts = 7, r.u8()
		body = append(be32(b.SSRC), b.LossRate, b.DiscardRate, b.BurstDensity, b.GapDensity)
		for _, v := range []uint16{b.BurstDuration, b.GapDuration, b.RoundTripDelay, b.EndSystemDelay} {
			body = append(body, be16(v)...)
		}
		body = append(body, b.SignalLevel, b.NoiseLevel, b.RERL, b.Gmin, b.RFactor, b.ExtRFactor, b.MOSLQ, b.MOSCQ, b.RXConfig, r.u8())
		for _, v := range []uint16{b.JBNominal, b.JBMaximum, b.JBAbsMax} {
			body = append(body, be16(v)...)
		}
	case *rtcp.UnknownReportBlock:
		bt, ts = byte(b.BlockType), byte(b.TypeSpecific)
		body = append(body, b.Bytes...)
	}
	out := []byte{bt, ts}
	out = append(out, be16(uint16(len(body)/4))...)
	return append(out, body...)
}

// independent TWCC encoder (chunk words and deltas from the value)
func twccBytes(t *rtcp.TransportLayerCC) []byte {
	body := append(be32(t.SenderSSRC), be32(t.MediaSSRC)...)
	body = append(body, be16(t.BaseSequenceNumber)...)
	body = append(body, be16(t.PacketStatusCount)...)
	body = append(body, byte(t.ReferenceTime>>16), byte(t.ReferenceTime>>8), byte(t.ReferenceTime), t.FbPktCount)
	for _, c := range t.PacketChunks {
		var w uint16
		switch x := c.(type) {
		case *rtcp.RunLengthChunk:
			w = x.PacketStatusSymbol&3<<13 | x.RunLength&0x1FFF
		case *rtcp.StatusVectorChunk:
			w = 0x8000
			if x.SymbolSize == 1 {
				w |= 0x4000
				for i, s := range x.SymbolList {
					w |= (s & 3) << uint(12-2*i)
				}
			} else {
				for i, s := range x.SymbolList {
					w |= (s & 1) << uint(13-i)
				}
			}
		}
		body = append(body, be16(w)...)
	}
	for _, d := range t.RecvDeltas {
		v := d.Delta / 250
		if d.Type == 1 {
			body = append(body, byte(v))
		} else {
			body = append(body, be16(uint16(int16(v)))...)
		}
	}
	pad := 0
	for (len(body)+pad)%4 != 0 {
		pad++
	}
	for i := 0; i < pad; i++ {
		if i == pad-1 && t.Header.Padding {
			body = append(body, byte(pad))
		} else {
			body = append(body, 0)
		}
	}
	return append(hdrBytes(t.Header.Padding, 15, 205, 4+len(body)), body...)
}

// all chunkings of short status sequences: (decs TransportLayerCC (x1 x2 ...)) with the same statuses and deltas
func genTwccChunkings(e *emitter, r *rng, tier string) {
	maxLen := 5
	seqs := 150
	if tier == "thorough" {
		maxLen, seqs = 8, 3000
	}
	for s := 0; s < seqs; s++ {
		n := 1 + r.intn(maxLen)
		st := make([]uint16, n)
		for i := range st {
			st[i] = uint16(r.intn(3))
		}
		var deltas []*rtcp.RecvDelta
		for _, x := range st {
			if x == 1 {
				deltas = append(deltas, &rtcp.RecvDelta{Type: 1, Delta: 250 * int64(r.intn(256))})
			} else if x == 2 {
				deltas = append(deltas, &rtcp.RecvDelta{Type: 2, Delta: 250 * int64(r.intn(65536)-32768)})
			}
		}
		var all [][]rtcp.PacketStatusChunk
		var rec func(i int, acc []rtcp.PacketStatusChunk)
		rec = func(i int, acc []rtcp.PacketStatusChunk) {
			if len(all) > 400 {
				return
			}
			if i >= n {
				all = append(all, append([]rtcp.PacketStatusChunk(nil), acc...))
				return
			}
			// run-length of every admissible length, also overshooting the remaining count when it is the last chunk
			run := 1
			for i+run < n && st[i+run] == st[i] {
				run++
			}
			for k := 1; k <= run; k++ {
				rl := uint16(k)
				if i+k == n && k == run {
					rec(i+k, append(acc, &rtcp.RunLengthChunk{PacketStatusSymbol: st[i], RunLength: rl + uint16(r.pick(0, 1, 100, 8191-k))}))
				}
				rec(i+k, append(acc, &rtcp.RunLengthChunk{PacketStatusSymbol: st[i], RunLength: rl}))
			}
			// vector chunks are only valid as the last chunk when fewer than 14/7 remain (trailing symbols "not received")
			if n-i <= 14 {
				one := true
				syms := make([]uint16, 14)
				for k := i; k < n; k++ {
					if st[k] > 1 {
						one = false
					}
					syms[k-i] = st[k]
				}
				if one {
					rec(n, append(acc, &rtcp.StatusVectorChunk{Type: 1, SymbolSize: 0, SymbolList: syms}))
				}
			}
			if n-i <= 7 {
				syms := make([]uint16, 7)
				for k := i; k < n; k++ {
					syms[k-i] = st[k]
				}
				rec(n, append(acc, &rtcp.StatusVectorChunk{Type: 1, SymbolSize: 1, SymbolList: syms}))
			}
		}
		rec(0, nil)
		base := &rtcp.TransportLayerCC{SenderSSRC: r.u32(), MediaSSRC: r.u32(), BaseSequenceNumber: r.u16(), PacketStatusCount: uint16(n),
			ReferenceTime: uint32(r.bits(24)), FbPktCount: r.u8(), RecvDeltas: deltas}
		var encs []*Sx
		for _, cs := range all {
			t := *base
			t.PacketChunks = cs
			if b := twccBytes(&t); b != nil {
				encs = append(encs, sb(b))
			}
		}
		e.emit("chunkings", sl(sy("decs"), sy("TransportLayerCC"), sl(encs...)))
	}
}
