package main

// harness race <seed> <rounds>: goroutines run encode/decode/format operations on DISTINCT packets and
// read-only operations on SHARED packets; every result must equal the sequential run's. Built with -race by
// bin/check, so the Go race detector reports any unsynchronised access (exit status 66).

import (
	"bytes"
	"fmt"
	"os"
	"runtime"
	"sync"

	"github.com/pion/rtcp"
)

type raceResult struct {
	marshal []byte
	ok      bool
	size    int
	dest    []uint32
	str     string
}

func readOnlyOps(p rtcp.Packet) (r raceResult) {
	defer func() { _ = recover() }()
	r.size = p.MarshalSize()
	r.dest = append([]uint32(nil), p.DestinationSSRC()...)
	if s, ok := p.(fmt.Stringer); ok {
		r.str = s.String()
	}
	return r
}

func allOps(p rtcp.Packet) (r raceResult) {
	defer func() { _ = recover() }()
	b, err := p.Marshal()
	r.ok = err == nil
	r.marshal = append([]byte(nil), b...)
	ro := readOnlyOps(p)
	r.size, r.dest, r.str = ro.size, ro.dest, ro.str
	if r.ok {
		if ps, err := rtcp.Unmarshal(append([]byte(nil), b...)); err == nil && len(ps) > 0 {
			r.str += fmt.Sprint(len(ps))
		}
	}
	return r
}

func sameResult(a, b raceResult) bool {
	if a.ok != b.ok || a.size != b.size || a.str != b.str || !bytes.Equal(a.marshal, b.marshal) || len(a.dest) != len(b.dest) {
		return false
	}
	for i := range a.dest {
		if a.dest[i] != b.dest[i] {
			return false
		}
	}
	return true
}

func hasXR(p rtcp.Packet) bool { return containsXR(p) }

func raceMain(seed uint64, rounds int) int {
	const workers = 16
	bad := 0
	for round := 0; round < rounds; round++ {
		r := &rng{s: seed*1000003 + uint64(round)}
		// distinct packets: two equal copies per worker (one for the sequential reference)
		own := make([]rtcp.Packet, workers)
		ref := make([]rtcp.Packet, workers)
		for i := range own {
			compound := r.chance(1, 8)
			r2 := *r
			if compound {
				own[i] = genCompound(r)
				ref[i] = genCompound(&r2)
			} else {
				own[i] = genPacket(r, false)
				ref[i] = genPacket(&r2, false)
			}
		}
		// shared packets: read-only operations only (Marshal too, unless the packet holds an ExtendedReport,
		// whose Marshal fills in block headers as documented)
		shared := make([]rtcp.Packet, 4)
		for i := range shared {
			shared[i] = genPacket(r, false)
		}
		want := make([]raceResult, workers)
		for i := range ref {
			want[i] = allOps(ref[i])
			want[i] = allOps(ref[i]) // repeated calls: identical results
		}
		wantShared := make([]raceResult, len(shared))
		for i, p := range shared {
			if hasXR(p) {
				wantShared[i] = readOnlyOps(p)
			} else {
				wantShared[i] = allOps(p)
			}
		}
		got := make([]raceResult, workers)
		gotShared := make([][]raceResult, workers)
		var wg sync.WaitGroup
		for w := 0; w < workers; w++ {
			w := w
			wg.Add(1)
			go func() {
				defer wg.Done()
				got[w] = allOps(own[w])
				runtime.Gosched()
				got[w] = allOps(own[w])
				gotShared[w] = make([]raceResult, len(shared))
				for i, p := range shared {
					if hasXR(p) {
						gotShared[w][i] = readOnlyOps(p)
					} else {
						gotShared[w][i] = allOps(p)
					}
					if i%2 == 0 {
						runtime.Gosched()
					}
				}
			}()
		}
		wg.Wait()
		for w := 0; w < workers; w++ {
			if !sameResult(got[w], want[w]) {
				fmt.Printf("(race-mismatch own %d %d %s)\n", round, w, packetSx(ref[w]))
				bad++
			}
			for i := range shared {
				if !sameResult(gotShared[w][i], wantShared[i]) {
					fmt.Printf("(race-mismatch shared %d %d %s)\n", round, i, packetSx(shared[i]))
					bad++
				}
			}
		}
	}
	fmt.Printf("(race-summary rounds %d workers %d mismatches %d)\n", rounds, workers, bad)
	if bad > 0 {
		return 1
	}
	return 0
}

func init() {
	if len(os.Args) > 1 && os.Args[1] == "race" {
		var seed uint64 = 1
		rounds := 50
		if len(os.Args) > 2 {
			fmt.Sscan(os.Args[2], &seed)
		}
		if len(os.Args) > 3 {
			fmt.Sscan(os.Args[3], &rounds)
		}
		os.Exit(raceMain(seed, rounds))
	}
}
