package main

// splitmix64: every random choice in the harness derives from one state seeded by VERIF_SEED.
type rng struct{ s uint64 }

func (r *rng) next() uint64 {
	r.s += 0x9E3779B97F4A7C15
	z := r.s
	z = (z ^ (z >> 30)) * 0xBF58476D1CE4E5B9
	z = (z ^ (z >> 27)) * 0x94D049BB133111EB
	return z ^ (z >> 31)
}
func (r *rng) intn(n int) int {
	if n <= 0 {
		return 0
	}
	return int(r.next() % uint64(n))
}
func (r *rng) chance(num, den int) bool { return r.intn(den) < num }
func (r *rng) pick(xs ...int) int       { return xs[r.intn(len(xs))] }

// boundary-biased unsigned value of the given bit width
func (r *rng) bits(w uint) uint64 {
	max := uint64(1)<<w - 1
	if w == 64 {
		max = ^uint64(0)
	}
	switch r.intn(10) {
	case 0:
		return 0
	case 1:
		return max
	case 2:
		return 1
	case 3:
		return max - 1
	case 4:
		return uint64(1) << (w - 1)
	case 5:
		return (uint64(1) << (w - 1)) - 1
	case 6:
		return 0xAAAAAAAAAAAAAAAA & max
	case 7:
		return 0x5555555555555555 & max
	}
	return r.next() & max
}
func (r *rng) u8() uint8   { return uint8(r.bits(8)) }
func (r *rng) u16() uint16 { return uint16(r.bits(16)) }
func (r *rng) u32() uint32 { return uint32(r.bits(32)) }
func (r *rng) u64() uint64 { return r.bits(64) }
func (r *rng) bytesN(n int) []byte {
	if n == 0 {
		return nil
	}
	b := make([]byte, n)
	mode := r.intn(4)
	for i := range b {
		switch mode {
		case 0:
			b[i] = 0
		case 1:
			b[i] = 0xFF
		default:
			b[i] = byte(r.next())
		}
	}
	return b
}

// a small length with bias to 0, 1 and the given maximum
func (r *rng) length(max int) int {
	switch r.intn(8) {
	case 0:
		return 0
	case 1:
		return 1
	case 2:
		return max
	case 3:
		if max > 0 {
			return max - 1
		}
		return 0
	}
	if max < 6 {
		return r.intn(max + 1)
	}
	if r.chance(3, 4) {
		return r.intn(6)
	}
	return r.intn(max + 1)
}
