package main

// harness: correspondence driver for pion/rtcp.
//
//	harness gen <property> <tier> <seed>      writes (case id prop op) lines to stdout, a summary to stderr
//	harness run                               reads case lines, writes (chk id prop op implobs meta) lines
//	harness info                              prints build facts (hooks, go version)

import (
	"bufio"
	"bytes"
	"fmt"
	"os"
	"runtime"
	"sort"
	"strconv"
)

func main() {
	if len(os.Args) < 2 {
		fmt.Fprintln(os.Stderr, "usage: harness gen|run|info ...")
		os.Exit(2)
	}
	switch os.Args[1] {
	case "info":
		fmt.Printf("{\"hooks\": %v, \"go\": %q}\n", hooksAvailable, runtime.Version())
	case "gen":
		if len(os.Args) < 5 {
			fmt.Fprintln(os.Stderr, "usage: harness gen <property> <tier> <seed>")
			os.Exit(2)
		}
		seed, _ := strconv.ParseUint(os.Args[4], 10, 64)
		w := bufio.NewWriterSize(os.Stdout, 1<<20)
		defer w.Flush()
		generate(os.Args[2], os.Args[3], seed, w)
	case "run":
		runAll()
	case "corpus":
		// harness corpus <dir> <property>: cases from a go-fuzz corpus directory
		if len(os.Args) < 4 {
			fmt.Fprintln(os.Stderr, "usage: harness corpus <dir> <property>")
			os.Exit(2)
		}
		w := bufio.NewWriterSize(os.Stdout, 1<<20)
		defer w.Flush()
		corpusCases(os.Args[2], os.Args[3], w)
	default:
		fmt.Fprintln(os.Stderr, "unknown mode")
		os.Exit(2)
	}
}

func runAll() {
	startWatchdog()
	flushEach := os.Getenv("VERIF_FLUSH") != ""
	in := bufio.NewReaderSize(os.Stdin, 1<<20)
	out := bufio.NewWriterSize(os.Stdout, 1<<20)
	defer out.Flush()
	sc := bufio.NewScanner(in)
	sc.Buffer(make([]byte, 1<<20), 1<<28)
	for sc.Scan() {
		line := sc.Text()
		if len(line) == 0 || line[0] == ';' {
			continue
		}
		c, err := parseSx(line)
		if err != nil || c.K != 'l' || len(c.L) != 4 || !c.L[0].isSym("case") {
			fmt.Fprintf(out, "(bad-case)\n")
			continue
		}
		id, prop, op := c.L[1], c.L[2], c.L[3]
		currentCase.Store(line)
		exactFirst = prop.isSym("C01")
		o := measure(op)
		fmt.Fprintf(out, "(chk %s %s %s %s %s)\n", id, prop, op, o.obs, o.meta())
		if flushEach {
			out.Flush()
		}
		if prop.isSym("C01") {
			if isOk(o.obs) {
				noteAmplifier(op, o.alloc)
			}
		}
	}
	// C01, second pass: the well-framed single frames that allocated most per input octet are repeated to fill a
	// 8 KiB datagram; the allocation bound must hold for the datagram as a whole (a decoder that reserves
	// memory from a count field stays under the fixed part of the bound for one packet but not for hundreds)
	for i, c := range amplifiers {
		rep := bytes.Repeat(c.frame, 8192/len(c.frame))
		op := opDgram(rep)
		line := fmt.Sprintf("(case %d C01 %s)", 90000000+i, op)
		currentCase.Store(line)
		o := measure(op)
		fmt.Fprintf(out, "(chk %d C01 %s %s %s)\n", 90000000+i, op, o.obs, o.meta())
	}
}

type amplifier struct {
	frame []byte
	score uint64
}

var amplifiers []amplifier

const maxAmplifiers = 24

func noteAmplifier(op *Sx, alloc uint64) {
	if op.K != 'l' || len(op.L) < 2 {
		return
	}
	last := op.L[len(op.L)-1]
	if last.K != 'b' || !(op.L[0].isSym("dec") || op.L[0].isSym("dgram")) {
		return
	}
	b := last.B
	if len(b) < 4 || len(b) > 512 || len(b)%4 != 0 || b[0]>>6 != 2 || 4*(int(b[2])<<8+int(b[3])+1) != len(b) {
		return
	}
	score := alloc * 1024 / uint64(len(b))
	if len(amplifiers) == maxAmplifiers && score <= amplifiers[len(amplifiers)-1].score {
		return
	}
	for _, a := range amplifiers {
		if bytes.Equal(a.frame, b) {
			return
		}
	}
	amplifiers = append(amplifiers, amplifier{append([]byte(nil), b...), score})
	sort.SliceStable(amplifiers, func(i, j int) bool { return amplifiers[i].score > amplifiers[j].score })
	if len(amplifiers) > maxAmplifiers {
		amplifiers = amplifiers[:maxAmplifiers]
	}
}
