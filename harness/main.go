package main

// harness: correspondence driver for pion/rtcp.
//
//	harness gen <property> <tier> <seed>      writes (case id prop op) lines to stdout, a summary to stderr
//	harness run                               reads case lines, writes (chk id prop op implobs meta) lines
//	harness info                              prints build facts (hooks, go version)

import (
	"bufio"
	"fmt"
	"os"
	"runtime"
	"strconv"
)

func main() {
	if len(os.Args) < 2 {
		fmt.Fprintln(os.Stderr, "usage: harness gen|run|info ...")
		os.Exit(2)
	}
	switch os.Args[1] {
	case "info":
		fmt.Printf("{\"hooks\": %v, \"go\": %q}\n", hooksAvailable, runtime.Version())
	case "gen":
		if len(os.Args) < 5 {
			fmt.Fprintln(os.Stderr, "usage: harness gen <property> <tier> <seed>")
			os.Exit(2)
		}
		seed, _ := strconv.ParseUint(os.Args[4], 10, 64)
		w := bufio.NewWriterSize(os.Stdout, 1<<20)
		defer w.Flush()
		generate(os.Args[2], os.Args[3], seed, w)
	case "run":
		runAll()
	case "corpus":
		// harness corpus <dir> <property>: cases from a go-fuzz corpus directory
		if len(os.Args) < 4 {
			fmt.Fprintln(os.Stderr, "usage: harness corpus <dir> <property>")
			os.Exit(2)
		}
		w := bufio.NewWriterSize(os.Stdout, 1<<20)
		defer w.Flush()
		corpusCases(os.Args[2], os.Args[3], w)
	default:
		fmt.Fprintln(os.Stderr, "unknown mode")
		os.Exit(2)
	}
}

func runAll() {
	startWatchdog()
	in := bufio.NewReaderSize(os.Stdin, 1<<20)
	out := bufio.NewWriterSize(os.Stdout, 1<<20)
	defer out.Flush()
	sc := bufio.NewScanner(in)
	sc.Buffer(make([]byte, 1<<20), 1<<28)
	for sc.Scan() {
		line := sc.Text()
		if len(line) == 0 || line[0] == ';' {
			continue
		}
		c, err := parseSx(line)
		if err != nil || c.K != 'l' || len(c.L) != 4 || !c.L[0].isSym("case") {
			fmt.Fprintf(out, "(bad-case)\n")
			continue
		}
		id, prop, op := c.L[1], c.L[2], c.L[3]
		currentCase.Store(line)
		o := measure(op)
		fmt.Fprintf(out, "(chk %s %s %s %s %s)\n", id, prop, op, o.obs, o.meta())
	}
}
