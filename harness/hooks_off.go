//go:build !verif

package main

const hooksAvailable = false

func hookUnmarshal(p interface{}, b []byte) (bool, error) { return false, nil }
func hookMarshal(p interface{}) ([]byte, error, bool)     { return nil, nil, false }
func utilOp(a []*Sx) *Sx                                  { return unsupported }
