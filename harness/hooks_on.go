//go:build verif

package main

import (
	"math"

	"github.com/pion/rtcp"
)

const hooksAvailable = true

func hookUnmarshal(p interface{}, b []byte) (bool, error) {
	switch x := p.(type) {
	case *rtcp.CCFeedbackReportBlock:
		return true, x.VerifUnmarshal(b)
	case *rtcp.CCFeedbackMetricBlock:
		return true, x.VerifUnmarshal(b)
	}
	return false, nil
}

func hookMarshal(p interface{}) ([]byte, error, bool) {
	switch x := p.(type) {
	case *rtcp.CCFeedbackReportBlock:
		b, err := x.VerifMarshal()
		return b, err, true
	case *rtcp.CCFeedbackMetricBlock:
		b, err := x.VerifMarshal()
		return b, err, true
	}
	return nil, nil, false
}

func utilOp(a []*Sx) *Sx {
	if len(a) < 2 || a[0].K != 'y' {
		return unsupported
	}
	arg := func(i int, max uint64) (uint64, bool) {
		if i >= len(a) {
			return 0, false
		}
		return num(a[i], max)
	}
	switch a[0].Y {
	case "setNBitsOfUint16":
		s, o1 := arg(1, math.MaxUint16)
		z, o2 := arg(2, math.MaxUint16)
		st, o3 := arg(3, math.MaxUint16)
		v, o4 := arg(4, math.MaxUint16)
		if o1 && o2 && o3 && o4 && len(a) == 5 {
			return guard(func() *Sx {
				r, err := rtcp.VerifSetNBitsOfUint16(uint16(s), uint16(z), uint16(st), uint16(v))
				if err != nil {
					return resErr()
				}
				return resOk(sn(uint64(r)))
			})
		}
	case "appendNBitsToUint32":
		s, o1 := arg(1, math.MaxUint32)
		n, o2 := arg(2, math.MaxUint32)
		v, o3 := arg(3, math.MaxUint32)
		if o1 && o2 && o3 && len(a) == 4 {
			return guard(func() *Sx { return sn(uint64(rtcp.VerifAppendNBitsToUint32(uint32(s), uint32(n), uint32(v)))) })
		}
	case "getNBitsFromByte":
		b, o1 := arg(1, math.MaxUint8)
		bg, o2 := arg(2, math.MaxUint16)
		n, o3 := arg(3, math.MaxUint16)
		if o1 && o2 && o3 && len(a) == 4 {
			return guard(func() *Sx { return sn(uint64(rtcp.VerifGetNBitsFromByte(byte(b), uint16(bg), uint16(n)))) })
		}
	case "get24BitsFromBytes":
		if len(a) == 2 && a[1].K == 'b' {
			return guard(func() *Sx { return resOk(sn(uint64(rtcp.VerifGet24BitsFromBytes(a[1].B)))) })
		}
	case "getPadding":
		n, o1 := arg(1, math.MaxInt32)
		if o1 && len(a) == 2 {
			return guard(func() *Sx { return sn(uint64(rtcp.VerifGetPadding(int(n)))) })
		}
	}
	return unsupported
}
