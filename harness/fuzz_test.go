package main

// Coverage-guided input mining (thorough tier only).  The fuzz engine only FINDS inputs: it keeps every input that
// reaches new code in the library under $GOCACHE/fuzz; `harness corpus` then turns that corpus into ordinary cases,
// and the verdict on each of them is, as for every other case, model = implementation and the property's statement.

import (
	"testing"

	"github.com/pion/rtcp"
)

func FuzzDecode(f *testing.F) {
	r := &rng{s: 424242}
	for i := 0; i < 300; i++ {
		if b := encOf(genPacket(r, false)); b != nil {
			f.Add(b)
			f.Add(mutate(r, b))
		}
	}
	f.Fuzz(func(t *testing.T, data []byte) {
		defer func() { _ = recover() }()
		ps, err := rtcp.Unmarshal(data)
		if err == nil {
			if out, err := rtcp.Marshal(ps); err == nil {
				_, _ = rtcp.Unmarshal(out)
			}
			for _, p := range ps {
				_ = stringOf(p)
				_ = p.DestinationSSRC()
			}
		}
		for _, name := range decoderNames[:16] {
			if p, ok := newByName(name); ok {
				if x, ok := p.Interface().(rtcp.Packet); ok {
					func() {
						defer func() { _ = recover() }()
						_ = x.Unmarshal(data)
					}()
				}
			}
		}
	})
}
