package main

// Structured value generators: well-formed ("dom") and unconstrained ("wild") packet values,
// boundary-biased.  Every choice comes from the single rng.

import (
	"math"

	"github.com/pion/rtcp"
)

func genReport(r *rng, wild bool) rtcp.ReceptionReport {
	lost := uint32(r.bits(24))
	if wild && r.chance(1, 4) {
		lost = []uint32{1<<24 - 1, 1 << 24, 1<<24 + 1, 1<<25 - 1, 1 << 25, 1<<25 + 1, math.MaxUint32}[r.intn(7)]
	}
	return rtcp.ReceptionReport{SSRC: r.u32(), FractionLost: r.u8(), TotalLost: lost, LastSequenceNumber: r.u32(),
		Jitter: r.u32(), LastSenderReport: r.u32(), Delay: r.u32()}
}

func countFor(r *rng, wild bool, max int) int {
	if wild && r.chance(1, 6) {
		return []int{max + 1, max + 2, 2 * max, 255, 256, 257, 256 + max - 1, 256 + max, 256 + max + 1}[r.intn(9)]
	}
	return r.length(max)
}

func genReports(r *rng, wild bool) []rtcp.ReceptionReport {
	n := countFor(r, wild, 31)
	if n == 0 {
		return nil
	}
	out := make([]rtcp.ReceptionReport, n)
	for i := range out {
		// an over-limit count is only interesting when nothing else is wrong with the value
		out[i] = genReport(r, wild && n <= 31 && r.chance(1, 8))
	}
	return out
}

func genExt(r *rng, aligned bool) []byte {
	n := r.pick(0, 0, 0, 4, 8, 12, 1, 2, 3, 5, 6, 7, 9, 40)
	if aligned {
		n = n / 4 * 4
	}
	return r.bytesN(n)
}

func genSR(r *rng, wild bool) *rtcp.SenderReport {
	return &rtcp.SenderReport{SSRC: r.u32(), NTPTime: r.u64(), RTPTime: r.u32(), PacketCount: r.u32(), OctetCount: r.u32(),
		Reports: genReports(r, wild), ProfileExtensions: genExt(r, !wild)}
}

func genRR(r *rng, wild bool) *rtcp.ReceiverReport {
	return &rtcp.ReceiverReport{SSRC: r.u32(), Reports: genReports(r, wild), ProfileExtensions: genExt(r, false)}
}

func genText(r *rng, wild bool, max int) string {
	n := r.pick(0, 1, 2, 3, 4, 5, 6, 7, 8, 9, 13, 31, max-1, max)
	if wild && r.chance(1, 5) {
		n = r.pick(max+1, max+2, 2*max, 300)
	}
	return string(r.bytesN(n))
}

func genItem(r *rng, wild bool) rtcp.SourceDescriptionItem {
	t := rtcp.SDESType(1 + r.intn(8))
	if r.chance(1, 8) {
		t = rtcp.SDESType(1 + r.intn(255))
	}
	if wild && r.chance(1, 8) {
		t = 0
	}
	return rtcp.SourceDescriptionItem{Type: t, Text: genText(r, wild, 255)}
}

func genChunk(r *rng, wild bool) rtcp.SourceDescriptionChunk {
	n := r.length(4)
	c := rtcp.SourceDescriptionChunk{Source: r.u32()}
	for i := 0; i < n; i++ {
		c.Items = append(c.Items, genItem(r, wild && r.chance(1, 4)))
	}
	return c
}

func genSDES(r *rng, wild bool) *rtcp.SourceDescription {
	n := countFor(r, wild, 31)
	s := &rtcp.SourceDescription{}
	for i := 0; i < n; i++ {
		s.Chunks = append(s.Chunks, genChunk(r, wild && n <= 31 && r.chance(1, 4)))
	}
	return s
}

func genBYE(r *rng, wild bool) *rtcp.Goodbye {
	n := countFor(r, wild, 31)
	g := &rtcp.Goodbye{Reason: genText(r, wild && n <= 31, 255)}
	for i := 0; i < n; i++ {
		g.Sources = append(g.Sources, r.u32())
	}
	return g
}

func genAPP(r *rng, wild bool) *rtcp.ApplicationDefined {
	a := &rtcp.ApplicationDefined{SubType: uint8(r.intn(32)), SSRC: r.u32(), Name: string(r.bytesN(4))}
	n := r.pick(0, 1, 2, 3, 4, 5, 6, 7, 8, 16, 17, 100)
	if r.chance(1, 40) {
		n = r.pick(65520, 65521, 65522, 65523)
	}
	if wild {
		switch r.intn(8) {
		case 0:
			a.SubType = uint8(r.pick(32, 33, 63, 64, 128, 255))
		case 1:
			a.Name = string(r.bytesN(r.pick(0, 1, 3, 5, 8)))
		case 2:
			n = r.pick(65523, 65524, 65525, 65536, 70000)
		}
	}
	a.Data = r.bytesN(n)
	return a
}

func genNACK(r *rng, wild bool) *rtcp.TransportLayerNack {
	n := 1 + r.length(8)
	if r.chance(1, 20) {
		n = r.pick(252, 253)
	}
	if wild && r.chance(1, 4) {
		n = r.pick(0, 253, 254, 255, 256, 300)
	}
	p := &rtcp.TransportLayerNack{SenderSSRC: r.u32(), MediaSSRC: r.u32()}
	for i := 0; i < n; i++ {
		p.Nacks = append(p.Nacks, rtcp.NackPair{PacketID: r.u16(), LostPackets: rtcp.PacketBitmap(r.u16())})
	}
	return p
}

func genPLI(r *rng) *rtcp.PictureLossIndication {
	return &rtcp.PictureLossIndication{SenderSSRC: r.u32(), MediaSSRC: r.u32()}
}
func genRRR(r *rng) *rtcp.RapidResynchronizationRequest {
	return &rtcp.RapidResynchronizationRequest{SenderSSRC: r.u32(), MediaSSRC: r.u32()}
}

func genSLI(r *rng, wild bool) *rtcp.SliceLossIndication {
	n := r.length(8)
	if r.chance(1, 20) {
		n = r.pick(252, 253)
	}
	if wild && r.chance(1, 4) {
		n = r.pick(253, 254, 255, 256, 300)
	}
	p := &rtcp.SliceLossIndication{SenderSSRC: r.u32(), MediaSSRC: r.u32()}
	for i := 0; i < n; i++ {
		e := rtcp.SLIEntry{First: uint16(r.bits(13)), Number: uint16(r.bits(13)), Picture: uint8(r.bits(6))}
		if wild && r.chance(1, 4) {
			e = rtcp.SLIEntry{First: r.u16(), Number: r.u16(), Picture: r.u8()}
		}
		p.SLI = append(p.SLI, e)
	}
	return p
}

func genFIR(r *rng, wild bool) *rtcp.FullIntraRequest {
	n := 1 + r.length(6)
	if wild && r.chance(1, 4) {
		n = 0
	}
	p := &rtcp.FullIntraRequest{SenderSSRC: r.u32(), MediaSSRC: r.u32()}
	for i := 0; i < n; i++ {
		p.FIR = append(p.FIR, rtcp.FIREntry{SSRC: r.u32(), SequenceNumber: r.u8()})
	}
	return p
}

// float32 bit patterns: finite non-negative unless wild
func genBitrateBits(r *rng, wild bool) uint32 {
	var bits uint32
	switch r.intn(8) {
	case 0: // around powers of two
		e := uint32(r.intn(254) + 1)
		bits = e<<23 | uint32(r.pick(0, 1, 2, 0x7FFFFF, 0x7FFFFE, 0x400000, 0x3FFFFF, 0x20, 0x1F, 0x3F, 0x40))
	case 1: // 18-bit mantissa carries: 0x3FFFF * 2^k +- ulp
		k := r.intn(64)
		f := float32(math.Ldexp(0x3FFFF, k))
		bits = math.Float32bits(f) + uint32(r.pick(0, 1, 2, 31, 32, 33, 63, 64, 65)) - uint32(r.pick(0, 0, 1))
	case 2: // saturation
		bits = math.Float32bits(float32(math.Ldexp(0x3FFFF, 63))) + uint32(r.pick(0, 1, 2, 100)) - uint32(r.pick(0, 1, 2))
	case 3: // small values
		bits = math.Float32bits(float32(r.intn(1<<19)) + float32(r.pick(0, 0, 1))/2)
	case 4:
		bits = uint32(r.pick(0, 1, 0x007FFFFF, 0x00800000, 0x3F800000, 0x7F7FFFFF)) // 0, subnormals, 1.0, max
	default:
		bits = uint32(r.next()) & 0x7FFFFFFF
		if bits>>23 == 255 {
			bits = 0x7F7FFFFF
		}
	}
	if bits>>23&0xFF == 255 && !wild {
		bits = 0x7F7FFFFF
	}
	if wild && r.chance(1, 4) {
		bits = []uint32{0x80000000, 0x80000001, 0xBF800000, 0xFF7FFFFF, 0x7F800000, 0xFF800000, 0x7FC00000, 0xC7000000}[r.intn(8)]
	}
	return bits
}

func genREMB(r *rng, wild bool) *rtcp.ReceiverEstimatedMaximumBitrate {
	n := r.length(6)
	if r.chance(1, 30) {
		n = r.pick(254, 255)
	}
	if wild && r.chance(1, 5) {
		n = r.pick(255, 256, 257, 300, 511, 512)
	}
	p := &rtcp.ReceiverEstimatedMaximumBitrate{SenderSSRC: r.u32(), Bitrate: math.Float32frombits(genBitrateBits(r, wild))}
	for i := 0; i < n; i++ {
		p.SSRCs = append(p.SSRCs, r.u32())
	}
	return p
}

func genCCBlock(r *rng, wild bool) rtcp.CCFeedbackReportBlock {
	n := r.pick(0, 2, 3, 4, 5, 6, 7, 8, 2, 3)
	if r.chance(1, 60) {
		n = r.pick(16383, 16384)
	}
	begin := r.u16()
	if wild {
		switch r.intn(6) {
		case 0:
			n = 1
		case 1:
			n = r.pick(16384, 16385, 16386)
		case 2:
			begin = uint16(r.pick(65534, 65535, 65533))
		}
	} else if n > 0 && int(begin)+n-1 > 65535 {
		begin = uint16(65536 - n)
	}
	b := rtcp.CCFeedbackReportBlock{MediaSSRC: r.u32(), BeginSequence: begin}
	for i := 0; i < n; i++ {
		m := rtcp.CCFeedbackMetricBlock{}
		if r.chance(2, 3) {
			m = rtcp.CCFeedbackMetricBlock{Received: true, ECN: rtcp.ECN(r.intn(4)), ArrivalTimeOffset: uint16(r.bits(13))}
		} else if wild && r.chance(1, 4) {
			m = rtcp.CCFeedbackMetricBlock{Received: false, ECN: rtcp.ECN(r.intn(4)), ArrivalTimeOffset: uint16(r.bits(13))}
		}
		if wild && r.chance(1, 10) {
			m.ECN = rtcp.ECN(r.u8())
			m.ArrivalTimeOffset = r.u16()
		}
		b.MetricBlocks = append(b.MetricBlocks, m)
	}
	return b
}

func genCCFB(r *rng, wild bool) *rtcp.CCFeedbackReport {
	p := &rtcp.CCFeedbackReport{SenderSSRC: r.u32(), ReportTimestamp: r.u32()}
	n := r.length(4)
	for i := 0; i < n; i++ {
		p.ReportBlocks = append(p.ReportBlocks, genCCBlock(r, wild && r.chance(1, 3)))
	}
	return p
}

// ---- TWCC: a consistent packet from a status sequence ----

func genStatuses(r *rng) []uint16 {
	n := r.pick(0, 1, 2, 3, 6, 7, 8, 13, 14, 15, 20, 28, 29, 40)
	if r.chance(1, 30) {
		n = r.pick(8191, 8192, 8200)
	}
	mode := r.intn(4)
	if r.chance(1, 12) { // long runs of one status: run lengths that need the high bits of the 13-bit field
		n = r.pick(4095, 4096, 4097, 5000, 8190, 8191)
		mode = 4
	}
	out := make([]uint16, n)
	fill := uint16(r.pick(0, 0, 1, 2))
	for i := range out {
		switch mode {
		case 0:
			out[i] = uint16(r.intn(2))
		case 1:
			out[i] = uint16(r.intn(3))
		case 4:
			out[i] = fill
		case 2: // long runs
			if i > 0 && r.chance(9, 10) {
				out[i] = out[i-1]
			} else {
				out[i] = uint16(r.intn(3))
			}
		default:
			out[i] = uint16(r.intn(3))
		}
	}
	return out
}

// chunkStatuses encodes the sequence with a random mix of chunk kinds; the last vector chunk is
// padded with "not received".
func chunkStatuses(r *rng, st []uint16) []rtcp.PacketStatusChunk {
	var out []rtcp.PacketStatusChunk
	i := 0
	for i < len(st) {
		run := 1
		for i+run < len(st) && st[i+run] == st[i] && run < 8191 {
			run++
		}
		oneBitOK := true
		for k := i; k < i+14 && k < len(st); k++ {
			if st[k] > 1 {
				oneBitOK = false
			}
		}
		choice := r.intn(3)
		if run >= 4095 && r.chance(3, 4) {
			choice = 3 // one run-length chunk for the whole run
		}
		if choice == 1 && !oneBitOK {
			choice = 2
		}
		switch choice {
		case 3:
			out = append(out, &rtcp.RunLengthChunk{Type: rtcp.TypeTCCRunLengthChunk, PacketStatusSymbol: st[i], RunLength: uint16(run)})
			i += run
		case 0:
			if r.chance(1, 2) && run > 1 {
				run = 1 + r.intn(run)
			}
			out = append(out, &rtcp.RunLengthChunk{Type: rtcp.TypeTCCRunLengthChunk, PacketStatusSymbol: st[i], RunLength: uint16(run)})
			i += run
		case 1:
			syms := make([]uint16, 14)
			for k := 0; k < 14 && i+k < len(st); k++ {
				syms[k] = st[i+k]
			}
			out = append(out, &rtcp.StatusVectorChunk{Type: rtcp.TypeTCCStatusVectorChunk, SymbolSize: rtcp.TypeTCCSymbolSizeOneBit, SymbolList: syms})
			i += 14
		default:
			syms := make([]uint16, 7)
			for k := 0; k < 7 && i+k < len(st); k++ {
				syms[k] = st[i+k]
			}
			out = append(out, &rtcp.StatusVectorChunk{Type: rtcp.TypeTCCStatusVectorChunk, SymbolSize: rtcp.TypeTCCSymbolSizeTwoBit, SymbolList: syms})
			i += 7
		}
	}
	return out
}

func genTWCC(r *rng, wild bool) *rtcp.TransportLayerCC {
	st := genStatuses(r)
	t := &rtcp.TransportLayerCC{SenderSSRC: r.u32(), MediaSSRC: r.u32(), BaseSequenceNumber: r.u16(),
		PacketStatusCount: uint16(len(st)), ReferenceTime: uint32(r.bits(24)), FbPktCount: r.u8()}
	t.PacketChunks = chunkStatuses(r, st)
	for _, s := range st {
		switch s {
		case 1:
			t.RecvDeltas = append(t.RecvDeltas, &rtcp.RecvDelta{Type: 1, Delta: 250 * int64(r.pick(0, 1, 2, 100, 254, 255, r.intn(256)))})
		case 2:
			t.RecvDeltas = append(t.RecvDeltas, &rtcp.RecvDelta{Type: 2, Delta: 250 * int64(r.pick(-32768, -32767, -1, 0, 1, 256, 32766, 32767, r.intn(65536)-32768))})
		}
	}
	if wild {
		switch r.intn(6) {
		case 0: // delta out of its class's range
			if len(t.RecvDeltas) > 0 {
				d := t.RecvDeltas[r.intn(len(t.RecvDeltas))]
				if d.Type == 1 {
					d.Delta = 250 * int64(r.pick(256, 257, -1, 1000))
				} else {
					d.Delta = 250 * int64(r.pick(32768, -32769, 100000))
				}
			}
		case 1: // delta not a multiple of 250
			if len(t.RecvDeltas) > 0 {
				t.RecvDeltas[r.intn(len(t.RecvDeltas))].Delta += int64(r.pick(1, 124, 125, 249))
			}
		case 2:
			t.ReferenceTime = r.u32()
		}
	}
	size := t.MarshalSize()
	padLen := size - twccPacketLen(t)
	t.Header = rtcp.Header{Padding: padLen > 0 && r.chance(1, 2), Count: rtcp.FormatTCC, Type: rtcp.TypeTransportSpecificFeedback, Length: uint16(size/4 - 1)}
	if wild && r.chance(1, 6) {
		t.Header.Count = uint8(r.pick(15, 31, 32, 0))
		t.Header.Padding = r.chance(1, 2)
	}
	return t
}

func twccPacketLen(t *rtcp.TransportLayerCC) int {
	n := 20 + 2*len(t.PacketChunks)
	for _, d := range t.RecvDeltas {
		if d.Type == rtcp.TypeTCCPacketReceivedSmallDelta {
			n++
		} else {
			n += 2
		}
	}
	return n
}

// ---- XR ----

func genXRBlock(r *rng, wild bool) rtcp.ReportBlock {
	chunks := func() []rtcp.Chunk {
		n := 2 * r.intn(4)
		if wild && r.chance(1, 3) {
			n = r.pick(1, 3, 5)
		}
		var out []rtcp.Chunk
		for i := 0; i < n; i++ {
			out = append(out, rtcp.Chunk(r.u16()))
		}
		return out
	}
	t := uint8(r.bits(4))
	if wild && r.chance(1, 2) {
		t = r.u8()
	}
	switch r.intn(9) {
	case 0:
		return &rtcp.LossRLEReportBlock{T: t, SSRC: r.u32(), BeginSeq: r.u16(), EndSeq: r.u16(), Chunks: chunks()}
	case 1:
		return &rtcp.DuplicateRLEReportBlock{T: t, SSRC: r.u32(), BeginSeq: r.u16(), EndSeq: r.u16(), Chunks: chunks()}
	case 2:
		b := &rtcp.PacketReceiptTimesReportBlock{T: t, SSRC: r.u32(), BeginSeq: r.u16(), EndSeq: r.u16()}
		for i, n := 0, r.length(5); i < n; i++ {
			b.ReceiptTime = append(b.ReceiptTime, r.u32())
		}
		return b
	case 3:
		return &rtcp.ReceiverReferenceTimeReportBlock{NTPTimestamp: r.u64()}
	case 4:
		b := &rtcp.DLRRReportBlock{}
		for i, n := 0, r.length(5); i < n; i++ {
			b.Reports = append(b.Reports, rtcp.DLRRReport{SSRC: r.u32(), LastRR: r.u32(), DLRR: r.u32()})
		}
		return b
	case 5:
		toh := rtcp.TTLorHopLimitType(r.intn(4))
		if wild && r.chance(1, 4) {
			toh = rtcp.TTLorHopLimitType(r.u8())
		}
		return &rtcp.StatisticsSummaryReportBlock{LossReports: r.chance(1, 2), DuplicateReports: r.chance(1, 2), JitterReports: r.chance(1, 2),
			TTLorHopLimit: toh, SSRC: r.u32(), BeginSeq: r.u16(), EndSeq: r.u16(), LostPackets: r.u32(), DupPackets: r.u32(),
			MinJitter: r.u32(), MaxJitter: r.u32(), MeanJitter: r.u32(), DevJitter: r.u32(),
			MinTTLOrHL: r.u8(), MaxTTLOrHL: r.u8(), MeanTTLOrHL: r.u8(), DevTTLOrHL: r.u8()}
	case 6:
		return &rtcp.VoIPMetricsReportBlock{SSRC: r.u32(), LossRate: r.u8(), DiscardRate: r.u8(), BurstDensity: r.u8(), GapDensity: r.u8(),
			BurstDuration: r.u16(), GapDuration: r.u16(), RoundTripDelay: r.u16(), EndSystemDelay: r.u16(), SignalLevel: r.u8(), NoiseLevel: r.u8(),
			RERL: r.u8(), Gmin: r.u8(), RFactor: r.u8(), ExtRFactor: r.u8(), MOSLQ: r.u8(), MOSCQ: r.u8(), RXConfig: r.u8(),
			JBNominal: r.u16(), JBMaximum: r.u16(), JBAbsMax: r.u16()}
	default:
		bt := rtcp.BlockTypeType(r.pick(0, 8, 9, 100, 254, 255, 8+r.intn(248)))
		n := 4 * r.intn(4)
		if wild && r.chance(1, 3) {
			n = r.pick(1, 2, 3, 5, 7)
		}
		return &rtcp.UnknownReportBlock{XRHeader: rtcp.XRHeader{BlockType: bt, TypeSpecific: rtcp.TypeSpecificField(r.u8())}, Bytes: r.bytesN(n)}
	}
}

func genXR(r *rng, wild bool) *rtcp.ExtendedReport {
	x := &rtcp.ExtendedReport{SenderSSRC: r.u32()}
	for i, n := 0, r.length(5); i < n; i++ {
		b := genXRBlock(r, wild && r.chance(1, 3))
		if r.chance(1, 4) {
			junkXRHeader(r, b)
		}
		x.Reports = append(x.Reports, b)
	}
	return x
}

// genHugeXR: an ExtendedReport with one report block of 64 KiB or more (block length field >= 16383; legal inside a
// 256 KiB packet): the place where 16-bit arithmetic on block sizes would show. A handful per run (each costs the model
// about a second).
func genHugeXR(r *rng, kind int) *rtcp.ExtendedReport {
	x := &rtcp.ExtendedReport{SenderSSRC: r.u32()}
	for i, n := 0, r.intn(3); i < n; i++ {
		x.Reports = append(x.Reports, genXRBlock(r, false))
	}
	at := r.intn(len(x.Reports) + 1)
	x.Reports = append(x.Reports[:at], append([]rtcp.ReportBlock{hugeXRBlock(r, kind)}, x.Reports[at:]...)...)
	return x
}

// hugeXRBytes: the wire form of an ExtendedReport with one block of 64 KiB or more, written here byte by byte (NOT with
// the library's encoder, whose output would carry whatever the encoder gets wrong): a small receiver reference time
// block, the big block (packet receipt times, or an unknown type for odd kinds), and a small DLRR block.
func hugeXRBytes(r *rng, kind int) []byte {
	be32 := func(b []byte, v uint32) []byte { return append(b, byte(v>>24), byte(v>>16), byte(v>>8), byte(v)) }
	body := be32(nil, r.u32())      // sender SSRC
	body = append(body, 4, 0, 0, 2) // receiver reference time, 2 words
	body = be32(be32(body, r.u32()), r.u32())
	words := 16383 + r.intn(30) // block length field: the block is 4*(words+1) >= 65536 octets
	if kind%2 == 0 {
		body = append(body, 3, byte(r.bits(4)), byte(words>>8), byte(words)) // packet receipt times
		body = be32(body, r.u32())
		body = append(body, byte(r.u8()), byte(r.u8()), byte(r.u8()), byte(r.u8()))
		for i := 0; i < words-2; i++ {
			body = be32(body, uint32(i)*2654435761)
		}
	} else {
		body = append(body, byte(r.pick(9, 100, 255)), r.u8(), byte(words>>8), byte(words))
		for i := 0; i < 4*words; i++ {
			body = append(body, byte(i*31))
		}
	}
	body = append(body, 5, 0, 0, 3) // DLRR with one sub-block
	body = be32(be32(be32(body, r.u32()), r.u32()), r.u32())
	n := len(body) / 4 // header length field = total/4 - 1 = (4+len(body))/4 - 1
	return append([]byte{0x80, 207, byte(n >> 8), byte(n)}, body...)
}

func hugeXRBlock(r *rng, kind int) rtcp.ReportBlock {
	switch kind % 4 {
	case 0:
		b := &rtcp.PacketReceiptTimesReportBlock{T: uint8(r.bits(4)), SSRC: r.u32(), BeginSeq: r.u16(), EndSeq: r.u16()}
		for i, n := 0, 16381+r.intn(40); i < n; i++ {
			b.ReceiptTime = append(b.ReceiptTime, uint32(i)*2654435761)
		}
		return b
	case 1:
		b := &rtcp.LossRLEReportBlock{T: uint8(r.bits(4)), SSRC: r.u32(), BeginSeq: r.u16(), EndSeq: r.u16()}
		for i, n := 0, 32762+2*r.intn(40); i < n; i++ {
			b.Chunks = append(b.Chunks, rtcp.Chunk(uint16(i*40503)))
		}
		return b
	case 2:
		b := &rtcp.DLRRReportBlock{}
		for i, n := 0, 5462+r.intn(20); i < n; i++ {
			b.Reports = append(b.Reports, rtcp.DLRRReport{SSRC: uint32(i), LastRR: uint32(i) * 7, DLRR: uint32(i) * 13})
		}
		return b
	default:
		n := 65532 + 4*r.intn(40)
		bs := make([]byte, n)
		for i := range bs {
			bs[i] = byte(i * 31)
		}
		return &rtcp.UnknownReportBlock{XRHeader: rtcp.XRHeader{BlockType: rtcp.BlockTypeType(r.pick(8, 9, 100, 255)), TypeSpecific: rtcp.TypeSpecificField(r.u8())}, Bytes: bs}
	}
}

// junkXRHeader: the block header of the known block kinds is filled in by Marshal (documented); whatever a value
// carries there beforehand (a block that was marshalled or decoded before and edited since) must not reach the wire.
func junkXRHeader(r *rng, b rtcp.ReportBlock) {
	h := rtcp.XRHeader{BlockType: rtcp.BlockTypeType(r.u8()), TypeSpecific: rtcp.TypeSpecificField(r.u8()), BlockLength: r.u16()}
	switch x := b.(type) {
	case *rtcp.LossRLEReportBlock:
		x.XRHeader = h
	case *rtcp.DuplicateRLEReportBlock:
		x.XRHeader = h
	case *rtcp.PacketReceiptTimesReportBlock:
		x.XRHeader = h
	case *rtcp.ReceiverReferenceTimeReportBlock:
		x.XRHeader = h
	case *rtcp.DLRRReportBlock:
		x.XRHeader = h
	case *rtcp.StatisticsSummaryReportBlock:
		x.XRHeader = h
	case *rtcp.VoIPMetricsReportBlock:
		x.XRHeader = h
	}
}

// ---- Raw: a well-framed frame with an unregistered (PT, FMT) ----
func registered(pt, cnt uint8) bool {
	switch pt {
	case 200, 201, 202, 203, 204, 207:
		return true
	case 205:
		return cnt == 1 || cnt == 5 || cnt == 11 || cnt == 15
	case 206:
		return cnt == 1 || cnt == 2 || cnt == 4 || cnt == 15
	}
	return false
}

func genRaw(r *rng, wild bool) *rtcp.RawPacket {
	var pt, cnt uint8
	for {
		pt, cnt = r.u8(), uint8(r.intn(32))
		if r.chance(1, 2) {
			pt = uint8(r.pick(205, 206, 192, 193, 199, 208, 0, 255))
		}
		if !registered(pt, cnt) {
			break
		}
	}
	words := r.pick(0, 1, 2, 3, 5, 10)
	b := make([]byte, 4+4*words)
	b[0] = 0x80 | cnt
	if r.chance(1, 4) {
		b[0] |= 0x20
	}
	b[1] = pt
	b[2] = byte(words >> 8)
	b[3] = byte(words)
	copy(b[4:], r.bytesN(4*words))
	if wild && r.chance(1, 3) {
		switch r.intn(3) {
		case 0:
			b[0] = b[0]&0x3F | byte(r.pick(0, 0x40, 0xC0))
		case 1:
			b = b[:r.intn(len(b))]
		case 2:
			b[3]++
		}
	}
	raw := rtcp.RawPacket(b)
	return &raw
}

// any non-compound packet
func genPacket(r *rng, wild bool) rtcp.Packet {
	switch r.intn(15) {
	case 0:
		return genSR(r, wild)
	case 1:
		return genRR(r, wild)
	case 2:
		return genSDES(r, wild)
	case 3:
		return genBYE(r, wild)
	case 4:
		return genAPP(r, wild)
	case 5:
		return genNACK(r, wild)
	case 6:
		return genPLI(r)
	case 7:
		return genRRR(r)
	case 8:
		return genSLI(r, wild)
	case 9:
		return genFIR(r, wild)
	case 10:
		return genREMB(r, wild)
	case 11:
		return genCCFB(r, wild)
	case 12:
		return genTWCC(r, wild)
	case 13:
		return genXR(r, wild)
	}
	return genRaw(r, wild)
}

func genCNAMESdes(r *rng) *rtcp.SourceDescription {
	s := genSDES(r, false)
	if len(s.Chunks) == 0 {
		s.Chunks = []rtcp.SourceDescriptionChunk{{Source: r.u32()}}
	}
	if len(s.Chunks) > 31 {
		s.Chunks = s.Chunks[:31]
	}
	ci := r.intn(len(s.Chunks))
	it := rtcp.SourceDescriptionItem{Type: rtcp.SDESCNAME, Text: genText(r, false, 255)}
	items := s.Chunks[ci].Items
	pos := r.intn(len(items) + 1)
	items = append(items[:pos:pos], append([]rtcp.SourceDescriptionItem{it}, items[pos:]...)...)
	s.Chunks[ci].Items = items
	return s
}

func genCompound(r *rng) *rtcp.CompoundPacket {
	var c rtcp.CompoundPacket
	if r.chance(1, 2) {
		c = append(c, genSR(r, false))
	} else {
		c = append(c, genRR(r, false))
	}
	for i, n := 0, r.intn(3); i < n; i++ {
		c = append(c, genRR(r, false))
	}
	c = append(c, genCNAMESdes(r))
	for i, n := 0, r.intn(4); i < n; i++ {
		c = append(c, genPacket(r, false))
	}
	return &c
}
