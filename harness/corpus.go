package main

import (
	"bufio"
	"fmt"
	"os"
	"path/filepath"
	"strconv"
	"strings"
)

// corpusCases reads the files the Go fuzz engine keeps ("go test fuzz v1" + one []byte("...") line each) and emits
// one case per input: through the datagram decoder, through every packet type's own decoder (C01) or through the
// re-encode pipeline (C09).
func corpusCases(dir, prop string, w *bufio.Writer) {
	files, _ := filepath.Glob(filepath.Join(dir, "*"))
	n := 0
	for _, f := range files {
		raw, err := os.ReadFile(f)
		if err != nil {
			continue
		}
		lines := strings.Split(string(raw), "\n")
		if len(lines) < 2 || !strings.HasPrefix(lines[0], "go test fuzz v1") {
			continue
		}
		l := strings.TrimSpace(lines[1])
		if !strings.HasPrefix(l, "[]byte(") || !strings.HasSuffix(l, ")") {
			continue
		}
		s, err := strconv.Unquote(l[len("[]byte(") : len(l)-1])
		if err != nil {
			continue
		}
		b := []byte(s)
		if len(b) > 70000 {
			continue
		}
		emit := func(op *Sx) {
			n++
			fmt.Fprintf(w, "(case %d %s %s)\n", 9000000+n, prop, op)
		}
		switch prop {
		case "C09":
			emit(op1("redec", sb(b)))
		case "C17":
			emit(op1("strdec", sb(b)))
		case "C06", "C07":
			emit(opDgram(b))
		default:
			emit(opDgram(b))
			for _, name := range decoderNames {
				emit(opDec(name, b))
			}
		}
	}
	fmt.Fprintf(os.Stderr, "{\"corpus_inputs\": %d}\n", n)
}
