package main

// Executes one case against the real pion/rtcp and renders the observation in
// the same S-expression shape the extracted model prints (coq/Check/Ops.v).

import (
	"fmt"
	"math"
	"reflect"
	"runtime/metrics"
	"time"

	"github.com/pion/rtcp"
)

type outcome struct {
	obs   *Sx
	alloc uint64
	ns    int64
}

// exactFirst is set while the cases of C01 run (see runOp).
var exactFirst bool

// exactcap copies b into a slice whose capacity equals its length.
func exactcap(b []byte) []byte {
	x := make([]byte, len(b))
	copy(x, b)
	return x[:len(b):len(b)]
}

// padcap copies b into a slice with spare capacity filled with a sentinel, so that a decoder that
// re-slices past len (into cap) reads 0xA5 octets instead of silently seeing zeros or neighbours.
func padcap(b []byte) []byte {
	buf := make([]byte, len(b)+32)
	for i := range buf {
		buf[i] = 0xA5
	}
	copy(buf, b)
	return buf[:len(b)]
}

func resOk(v *Sx) *Sx { return sl(sy("ok"), v) }
func resErr() *Sx     { return sl(sy("err")) }
func resPanic() *Sx   { return sl(sy("panic")) }

// guard runs f, mapping a panic to (panic).
func guard(f func() *Sx) (out *Sx) {
	defer func() {
		if r := recover(); r != nil {
			out = resPanic()
		}
	}()
	return f()
}

func bytesRes(b []byte, err error) *Sx {
	if err != nil {
		return resErr()
	}
	return resOk(sb(append([]byte(nil), b...)))
}

func packetsRes(ps []rtcp.Packet, err error) *Sx {
	if err != nil {
		return resErr()
	}
	return resOk(packetsSx(ps))
}

// newByName returns a pointer to a fresh zero value of the named type.
func newByName(name string) (reflect.Value, bool) {
	t, ok := ifaceTypes[name]
	if !ok {
		return reflect.Value{}, false
	}
	return reflect.New(t), true
}

func decByName(name string, b []byte) *Sx {
	p, ok := newByName(name)
	if !ok {
		return sl(sy("unsupported"))
	}
	return guard(func() *Sx {
		var err error
		switch x := p.Interface().(type) {
		case rtcp.Packet:
			err = x.Unmarshal(b)
		case *rtcp.Header:
			err = x.Unmarshal(b)
		case *rtcp.ReceptionReport:
			err = x.Unmarshal(b)
		case *rtcp.SourceDescriptionChunk:
			err = x.Unmarshal(b)
		case *rtcp.SourceDescriptionItem:
			err = x.Unmarshal(b)
		case *rtcp.RunLengthChunk:
			err = x.Unmarshal(b)
		case *rtcp.StatusVectorChunk:
			err = x.Unmarshal(b)
		case *rtcp.RecvDelta:
			err = x.Unmarshal(b)
		default:
			var handled bool
			handled, err = hookUnmarshal(p.Interface(), b)
			if !handled {
				return sl(sy("unsupported"))
			}
		}
		if err != nil {
			return resErr()
		}
		return resOk(toTagged(p))
	})
}

func encUnit(s *Sx) *Sx {
	p, err := fromTagged(s)
	if err != nil {
		return sl(sy("unsupported"))
	}
	return guard(func() *Sx {
		switch x := p.Interface().(type) {
		case *rtcp.Header:
			return bytesRes(x.Marshal())
		case *rtcp.ReceptionReport:
			return bytesRes(x.Marshal())
		case *rtcp.SourceDescriptionChunk:
			return bytesRes(x.Marshal())
		case *rtcp.SourceDescriptionItem:
			return bytesRes(x.Marshal())
		case *rtcp.RunLengthChunk:
			return bytesRes(x.Marshal())
		case *rtcp.StatusVectorChunk:
			return bytesRes(x.Marshal())
		case *rtcp.RecvDelta:
			return bytesRes(x.Marshal())
		}
		if b, err, handled := hookMarshal(p.Interface()); handled {
			return bytesRes(b, err)
		}
		return sl(sy("unsupported"))
	})
}

func destSx(d []uint32) *Sx {
	items := make([]*Sx, len(d))
	for i, x := range d {
		items[i] = sn(uint64(x))
	}
	return sl(items...)
}

func headerSx(h rtcp.Header) *Sx {
	return sl(sbool(h.Padding), sn(uint64(h.Count)), sn(uint64(h.Type)), sn(uint64(h.Length)))
}

func encObs(p rtcp.Packet) *Sx {
	size := guard(func() *Sx { return sn(uint64(int64(p.MarshalSize()))) })
	dest := guard(func() *Sx { return destSx(p.DestinationSSRC()) })
	hdr := guard(func() *Sx {
		if h, ok := p.(interface{ Header() rtcp.Header }); ok {
			return headerSx(h.Header())
		}
		return sy("none")
	})
	ln := guard(func() *Sx {
		switch x := p.(type) {
		case *rtcp.TransportLayerCC:
			return sn(uint64(x.Len()))
		case *rtcp.CCFeedbackReport:
			return sn(uint64(int64(x.Len())))
		}
		return sy("none")
	})
	m := guard(func() *Sx { return bytesRes(p.Marshal()) })
	out := []*Sx{sl(sy("marshal"), m), sl(sy("size"), size), sl(sy("dest"), dest), sl(sy("hdr"), hdr), sl(sy("len"), ln)}
	// a type that also offers MarshalTo (REMB): into a buffer of exactly MarshalSize octets it must do what Marshal does
	if mt, ok := p.(interface{ MarshalTo([]byte) (int, error) }); ok {
		out = append(out, sl(sy("marshalto"), guard(func() *Sx {
			n := p.MarshalSize()
			if n < 0 || n > 1<<24 {
				return sy("none")
			}
			buf := make([]byte, n)
			k, err := mt.MarshalTo(buf)
			if err != nil {
				return resErr()
			}
			if k < 0 || k > len(buf) {
				return sl(sy("ok"), sy("bad-count"))
			}
			return resOk(sb(buf[:k]))
		})))
	}
	return sl(out...)
}

func isOk(s *Sx) bool { return s.K == 'l' && len(s.L) == 2 && s.L[0].isSym("ok") }

func rtObs(p rtcp.Packet) *Sx {
	var raw []byte
	m := guard(func() *Sx {
		b, err := p.Marshal()
		if err == nil {
			raw = append([]byte(nil), b...)
		}
		return bytesRes(b, err)
	})
	none := sy("none")
	if !isOk(m) {
		return sl(sl(sy("marshal"), m), sl(sy("own"), none), sl(sy("dgram"), none), sl(sy("remarshal"), none))
	}
	own := guard(func() *Sx {
		fresh := reflect.New(reflect.TypeOf(p).Elem()).Interface().(rtcp.Packet)
		if err := fresh.Unmarshal(append([]byte(nil), raw...)); err != nil {
			return resErr()
		}
		return resOk(packetSx(fresh))
	})
	var decoded []rtcp.Packet
	var decErr error
	dg := guard(func() *Sx {
		decoded, decErr = rtcp.Unmarshal(append([]byte(nil), raw...))
		return packetsRes(decoded, decErr)
	})
	re := none
	if isOk(dg) {
		re = guard(func() *Sx { return bytesRes(rtcp.Marshal(decoded)) })
	}
	return sl(sl(sy("marshal"), m), sl(sy("own"), own), sl(sy("dgram"), dg), sl(sy("remarshal"), re))
}

func rtsObs(ps []rtcp.Packet) *Sx {
	var raw []byte
	m := guard(func() *Sx {
		b, err := rtcp.Marshal(ps)
		if err == nil {
			raw = append([]byte(nil), b...)
		}
		return bytesRes(b, err)
	})
	none := sy("none")
	if !isOk(m) {
		return sl(sl(sy("marshal"), m), sl(sy("dgram"), none), sl(sy("remarshal"), none))
	}
	var decoded []rtcp.Packet
	dg := guard(func() *Sx {
		var err error
		decoded, err = rtcp.Unmarshal(append([]byte(nil), raw...))
		return packetsRes(decoded, err)
	})
	re := none
	if isOk(dg) {
		re = guard(func() *Sx { return bytesRes(rtcp.Marshal(decoded)) })
	}
	return sl(sl(sy("marshal"), m), sl(sy("dgram"), dg), sl(sy("remarshal"), re))
}

func redecObs(b []byte) *Sx {
	none := sy("none")
	var ps []rtcp.Packet
	d1 := guard(func() *Sx {
		var err error
		ps, err = rtcp.Unmarshal(padcap(b))
		return packetsRes(ps, err)
	})
	if !isOk(d1) {
		return sl(sl(sy("dec1"), d1), sl(sy("marshal"), none), sl(sy("dec2"), none))
	}
	var raw []byte
	m := guard(func() *Sx {
		out, err := rtcp.Marshal(ps)
		if err == nil {
			raw = append([]byte(nil), out...)
		}
		return bytesRes(out, err)
	})
	d2 := none
	if isOk(m) {
		d2 = guard(func() *Sx { return packetsRes(rtcp.Unmarshal(raw)) })
	}
	return sl(sl(sy("dec1"), d1), sl(sy("marshal"), m), sl(sy("dec2"), d2))
}

func cpObs(ps []rtcp.Packet) *Sx {
	c := rtcp.CompoundPacket(ps)
	val := guard(func() *Sx {
		if err := c.Validate(); err != nil {
			return resErr()
		}
		return resOk(sy("unit"))
	})
	cn := guard(func() *Sx {
		// Go returns the text together with a possibly non-nil error; both are observed
		t, err := c.CNAME()
		return sl(sb([]byte(t)), sbool(err != nil))
	})
	m := guard(func() *Sx { return bytesRes(c.Marshal()) })
	size := guard(func() *Sx { return sn(uint64(int64(c.MarshalSize()))) })
	dest := guard(func() *Sx { return destSx(c.DestinationSSRC()) })
	return sl(sl(sy("validate"), val), sl(sy("cname"), cn), sl(sy("marshal"), m), sl(sy("size"), size), sl(sy("dest"), dest))
}

func splitObs(frames [][]byte) *Sx {
	var whole []byte
	for _, f := range frames {
		whole = append(whole, f...)
	}
	whole = padcap(whole)
	w := guard(func() *Sx { return packetsRes(rtcp.Unmarshal(whole)) })
	parts := make([]*Sx, len(frames))
	for i, f := range frames {
		f := f
		parts[i] = guard(func() *Sx { return packetsRes(rtcp.Unmarshal(padcap(f))) })
	}
	return sl(sl(sy("whole"), w), sl(sy("parts"), sl(parts...)))
}

func u16s(s *Sx) ([]uint16, bool) {
	if s.K != 'l' {
		return nil, false
	}
	out := make([]uint16, len(s.L))
	for i, x := range s.L {
		if x.K != 'n' || !x.N.IsUint64() || x.N.Uint64() > math.MaxUint16 {
			return nil, false
		}
		out[i] = uint16(x.N.Uint64())
	}
	return out, true
}

func u16list(l []uint16) *Sx {
	items := make([]*Sx, len(l))
	for i, x := range l {
		items[i] = sn(uint64(x))
	}
	return sl(items...)
}

func num(s *Sx, max uint64) (uint64, bool) {
	if s.K != 'n' || !s.N.IsUint64() || s.N.Uint64() > max {
		return 0, false
	}
	return s.N.Uint64(), true
}

func xrChunkObs(c rtcp.Chunk) *Sx {
	return guard(func() *Sx {
		rt, err := c.RunType()
		var r *Sx
		if err != nil {
			r = resErr()
		} else {
			r = resOk(sn(uint64(rt)))
		}
		return sl(sn(uint64(c.Type())), r, sn(uint64(c.Value())))
	})
}

var unsupported = sl(sy("unsupported"))

// runOp evaluates one op expression.
func runOp(op *Sx) *Sx {
	if op.K != 'l' || len(op.L) < 2 || op.L[0].K != 'y' {
		return unsupported
	}
	a := op.L[1:]
	switch op.L[0].Y {
	case "dec", "inflated":
		if len(a) == 2 && a[0].K == 'y' && a[1].K == 'b' {
			if exactFirst {
				// C01: Go checks slice bounds against the CAPACITY, so a decoder that re-slices a few octets past
				// len only panics when the buffer has no spare room; with spare room it reads what lies behind.
				// Both situations are tried: exact capacity first (panics), then sentinel-filled spare capacity.
				if o := decByName(a[0].Y, exactcap(a[1].B)); !isOk(o) && o.K == 'l' && len(o.L) == 1 && o.L[0].isSym("panic") {
					return o
				}
			}
			return decByName(a[0].Y, padcap(a[1].B))
		}
	case "dgram":
		if len(a) == 1 && a[0].K == 'b' {
			if exactFirst {
				x := exactcap(a[0].B)
				if o := guard(func() *Sx { return packetsRes(rtcp.Unmarshal(x)) }); o.K == 'l' && len(o.L) == 1 && o.L[0].isSym("panic") {
					return o
				}
			}
			b := padcap(a[0].B)
			return guard(func() *Sx { return packetsRes(rtcp.Unmarshal(b)) })
		}
	case "enc":
		if p, err := packetFrom(a[0]); err == nil && len(a) == 1 {
			return encObs(p)
		}
	case "encu":
		if len(a) == 1 {
			return encUnit(a[0])
		}
	case "encs":
		if ps, err := packetsFrom(a[0]); err == nil && len(a) == 1 {
			return guard(func() *Sx { return bytesRes(rtcp.Marshal(ps)) })
		}
	case "rt":
		if p, err := packetFrom(a[0]); err == nil && len(a) == 1 {
			return rtObs(p)
		}
	case "rts":
		if ps, err := packetsFrom(a[0]); err == nil && len(a) == 1 {
			return rtsObs(ps)
		}
	case "redec":
		if len(a) == 1 && a[0].K == 'b' {
			return redecObs(a[0].B)
		}
	case "cp":
		if ps, err := packetsFrom(a[0]); err == nil && len(a) == 1 {
			return cpObs(ps)
		}
	case "split":
		if len(a) == 1 && a[0].K == 'l' {
			var frames [][]byte
			for _, f := range a[0].L {
				if f.K != 'b' {
					return unsupported
				}
				frames = append(frames, f.B)
			}
			return splitObs(frames)
		}
	case "nackpairs":
		if l, ok := u16s(a[0]); ok && len(a) == 1 {
			return guard(func() *Sx {
				pairs := rtcp.NackPairsFromSequenceNumbers(l)
				items := make([]*Sx, len(pairs))
				for i, p := range pairs {
					items[i] = sl(sn(uint64(p.PacketID)), sn(uint64(p.LostPackets)))
				}
				return sl(items...)
			})
		}
	case "plist":
		if len(a) == 2 {
			id, ok1 := num(a[0], math.MaxUint16)
			bm, ok2 := num(a[1], math.MaxUint16)
			if ok1 && ok2 {
				return guard(func() *Sx {
					p := rtcp.NackPair{PacketID: uint16(id), LostPackets: rtcp.PacketBitmap(bm)}
					return u16list(p.PacketList())
				})
			}
		}
	case "range":
		if len(a) == 3 {
			id, ok1 := num(a[0], math.MaxUint16)
			bm, ok2 := num(a[1], math.MaxUint16)
			stop := -1
			if k, ok := num(a[2], 1000); ok {
				stop = int(k)
			}
			if ok1 && ok2 {
				return guard(func() *Sx {
					p := rtcp.NackPair{PacketID: uint16(id), LostPackets: rtcp.PacketBitmap(bm)}
					var seen []uint16
					calls := 0
					p.Range(func(s uint16) bool {
						seen = append(seen, s)
						more := calls != stop
						calls++
						return more
					})
					return u16list(seen)
				})
			}
		}
	case "xrchunk":
		if c, ok := num(a[0], math.MaxUint16); ok && len(a) == 1 {
			return xrChunkObs(rtcp.Chunk(c))
		}
	case "util":
		return utilOp(a)
	default:
		return runOp2(op.L[0].Y, a)
	}
	return unsupported
}

var allocSample = []metrics.Sample{{Name: "/gc/heap/allocs:bytes"}}

func heapAllocs() uint64 {
	metrics.Read(allocSample)
	return allocSample[0].Value.Uint64()
}

func measure(op *Sx) outcome {
	spareTracked = spareTracked[:0]
	a0 := heapAllocs()
	t0 := time.Now()
	obs := runOp(op)
	ns := time.Since(t0).Nanoseconds()
	a1 := heapAllocs()
	return outcome{obs: obs, alloc: a1 - a0, ns: ns}
}

func (o outcome) meta() *Sx {
	return sl(sy("meta"), sl(sy("alloc"), sn(o.alloc)), sl(sy("ns"), sn(uint64(o.ns))))
}

var _ = fmt.Sprint
