package main

// Case generators, one per property.  The case file is the replay: every line is
// self-contained.  Budgets are per tier.

import (
	"bufio"
	"fmt"
	"os"
	"reflect"

	"github.com/pion/rtcp"
)

type emitter struct {
	w     *bufio.Writer
	prop  string
	n     int
	kinds map[string]int
}

func (e *emitter) emit(kind string, op *Sx) {
	e.n++
	e.kinds[kind]++
	fmt.Fprintf(e.w, "(case %d %s %s)\n", e.n, e.prop, op)
}

func opDec(name string, b []byte) *Sx { return sl(sy("dec"), sy(name), sb(b)) }
func opDgram(b []byte) *Sx            { return sl(sy("dgram"), sb(b)) }
func op1(name string, a *Sx) *Sx      { return sl(sy(name), a) }

var decoderNames = []string{
	"SenderReport", "ReceiverReport", "SourceDescription", "Goodbye", "ApplicationDefined", "TransportLayerNack",
	"RapidResynchronizationRequest", "TransportLayerCC", "CCFeedbackReport", "PictureLossIndication", "SliceLossIndication",
	"ReceiverEstimatedMaximumBitrate", "FullIntraRequest", "ExtendedReport", "RawPacket", "CompoundPacket",
	"Header", "ReceptionReport", "SourceDescriptionChunk", "SourceDescriptionItem", "RunLengthChunk", "StatusVectorChunk", "RecvDelta",
}

func typeName(p rtcp.Packet) string {
	t := reflect.TypeOf(p)
	for t.Kind() == reflect.Ptr {
		t = t.Elem()
	}
	return t.Name()
}

// safe marshal through the implementation (seed source for byte-level generators)
func encOf(p rtcp.Packet) (out []byte) {
	defer func() {
		if recover() != nil {
			out = nil
		}
	}()
	b, err := p.Marshal()
	if err != nil {
		return nil
	}
	return append([]byte(nil), b...)
}

// ---- byte-level mutation of a valid encoding ----
func mutate(r *rng, b []byte) []byte {
	out := append([]byte(nil), b...)
	if len(out) == 0 {
		return r.bytesN(r.intn(8))
	}
	switch r.intn(12) {
	case 0: // truncate
		return out[:r.intn(len(out)+1)]
	case 1: // length field +-
		if len(out) >= 4 {
			l := int(out[2])<<8 | int(out[3])
			l += r.pick(-2, -1, 1, 2)
			out[2], out[3] = byte(l>>8), byte(l)
		}
	case 2: // length field wrap points
		if len(out) >= 4 {
			l := r.pick(0, 1, 2, 0x3FFF, 0x4000, 0x4001, 0x4002, 0x4003, 0x4004, 0x4005, 0x7FFF, 0x8000, 0xFFFE, 0xFFFF)
			out[2], out[3] = byte(l>>8), byte(l)
		}
	case 3: // count +-
		out[0] = out[0]&0xE0 | byte((int(out[0]&0x1F)+r.pick(-1, 1, 2, 31))&0x1F)
	case 4: // version / padding bits
		out[0] ^= byte(r.pick(0x20, 0x40, 0x80, 0xC0))
	case 5: // packet type
		if len(out) >= 2 {
			out[1] = byte(r.pick(200, 201, 202, 203, 204, 205, 206, 207, 192, 208, int(r.u8())))
		}
	case 6: // flip a bit
		i := r.intn(len(out))
		out[i] ^= 1 << uint(r.intn(8))
	case 7: // set a byte to a boundary value
		i := r.intn(len(out))
		out[i] = byte(r.pick(0, 1, 0x7F, 0x80, 0xFF))
	case 8: // append surplus
		out = append(out, r.bytesN(1+r.intn(8))...)
	case 9: // extend and fix length
		out = append(out, r.bytesN(4*(1+r.intn(3)))...)
		if len(out) >= 4 && len(out)%4 == 0 {
			l := len(out)/4 - 1
			out[2], out[3] = byte(l>>8), byte(l)
		}
	case 10: // truncate to a multiple of four and fix length
		n := r.intn(len(out)/4+1) * 4
		out = out[:n]
		if n >= 4 {
			l := n/4 - 1
			out[2], out[3] = byte(l>>8), byte(l)
		}
	case 11: // splice a window from elsewhere
		if len(out) > 8 {
			i, j := r.intn(len(out)), r.intn(len(out))
			n := r.intn(8)
			for k := 0; k < n && i+k < len(out) && j+k < len(out); k++ {
				out[i+k] = out[j+k]
			}
		}
	}
	return out
}

func budget(tier string, quick, thorough int) int {
	if tier == "thorough" {
		return thorough
	}
	return quick
}

func generate(prop, tier string, seed uint64, w *bufio.Writer) {
	r := &rng{s: seed*0x9E3779B97F4A7C15 + 0x1234567}
	e := &emitter{w: w, prop: prop, kinds: map[string]int{}}
	corpus(e)
	switch prop {
	case "C01":
		genC01(e, r, tier)
	case "C02":
		genC02(e, r, tier)
		genDhist(e, r, budget(tier, 1500, 30000))
	case "C03":
		genEnc(e, r, budget(tier, 6000, 120000), false, "enc")
	case "C04":
		genC04(e, r, tier)
	case "C05":
		genEnc(e, r, budget(tier, 6000, 120000), true, "enc")
	case "C06":
		genC06(e, r, tier)
	case "C07":
		genC07(e, r, tier)
	case "C08":
		genEnc(e, r, budget(tier, 6000, 120000), true, "enc")
		genOversize(e, r)
	case "C09":
		genC09(e, r, tier)
		genDhist(e, r, budget(tier, 2500, 40000))
	case "C10":
		genC10(e, r, tier)
	case "C11":
		genC11(e, r, tier)
	case "C12":
		genC12(e, r, tier)
	case "C13":
		genC13(e, r, tier)
	case "C14":
		genC14(e, r, tier)
	case "C15":
		genC15(e, r, tier)
		genScribble(e, r, budget(tier, 1500, 30000), true)
	case "C16":
		genC16(e, r, tier)
		genDec2(e, r, budget(tier, 800, 30000))
	case "C17":
		genC17(e, r, tier)
	case "C18":
		genC18(e, r, tier)
		genDhist(e, r, budget(tier, 1500, 30000))
		genScribble(e, r, budget(tier, 1500, 30000), false)
	default:
		fmt.Fprintf(os.Stderr, "unknown property %s\n", prop)
		os.Exit(2)
	}
	// report blocks of 64 KiB and more (block length field >= 16383), for the properties that encode, re-encode or decode
	// XR packets: all four block kinds, as values to encode, as datagrams written byte by byte (not with the library's
	// encoder, whose output would carry whatever the encoder gets wrong), and as RFC-valid variants with their expected value
	switch prop {
	case "C15", "C02":
		for k := 0; k < 4; k++ {
			e.emit("xr-huge-block", op1("rt", packetSx(genHugeXR(r, k))))
		}
	case "C09":
		for k := 0; k < 4; k++ {
			e.emit("xr-huge-block", op1("redec", sb(hugeXRBytes(r, k))))
		}
	case "C03", "C05", "C08", "C10":
		for k := 0; k < 4; k++ {
			e.emit("xr-huge-block", op1("enc", packetSx(genHugeXR(r, k))))
		}
	case "C04":
		for k := 0; k < 4; k++ {
			b, x := hugeXRVariant(r, k)
			e.emit("xr-huge-variant", opVariant("ExtendedReport", b, x))
		}
	case "C01":
		for k := 0; k < 4; k++ {
			e.emit("xr-huge-block", opDec("ExtendedReport", hugeXRBytes(r, k)))
		}
	}
	fmt.Fprintf(os.Stderr, "{\"generated\": %d, \"kinds\": {", e.n)
	first := true
	for k, v := range e.kinds {
		if !first {
			fmt.Fprint(os.Stderr, ", ")
		}
		first = false
		fmt.Fprintf(os.Stderr, "%q: %d", k, v)
	}
	fmt.Fprintln(os.Stderr, "}}")
}

// corpus: minimised regression inputs, run first (corpus/<prop>.sexp holds op expressions, one per line)
func corpus(e *emitter) {
	f, err := os.Open("corpus/" + e.prop + ".sexp")
	if err != nil {
		return
	}
	defer f.Close()
	sc := bufio.NewScanner(f)
	sc.Buffer(make([]byte, 1<<20), 1<<26)
	for sc.Scan() {
		line := sc.Text()
		if len(line) == 0 || line[0] == ';' {
			continue
		}
		if op, err := parseSx(line); err == nil {
			e.emit("corpus", op)
		}
	}
}

// ---- C12 ----
func genC12(e *emitter, r *rng, tier string) {
	n := budget(tier, 6000, 200000)
	for i := 0; i < n; i++ {
		var l []*Sx
		k := r.length(40)
		base := r.u16()
		mode := r.intn(6)
		cur := base
		for j := 0; j < k; j++ {
			var v uint16
			switch mode {
			case 0:
				v = r.u16()
			case 1: // ascending with gaps around 16
				cur += uint16(r.pick(1, 1, 1, 2, 3, 15, 16, 17, 18, 0))
				v = cur
			case 2: // descending / unordered near base
				v = base + uint16(r.intn(40)) - 20
			case 3: // near wrap
				v = uint16(65519 + r.intn(34))
			case 4: // duplicates
				v = base + uint16(r.intn(3))
			default:
				cur += uint16(r.intn(20))
				v = cur
			}
			l = append(l, sn(uint64(v)))
		}
		e.emit("nackpairs", op1("nackpairs", sl(l...)))
	}
	for i := 0; i < n; i++ {
		id, bm := r.u16(), r.u16()
		if r.chance(1, 3) {
			id = uint16(65519 + r.intn(34))
		}
		if r.chance(1, 4) {
			bm = uint16(1) << uint(r.intn(16))
		}
		e.emit("plist", sl(sy("plist"), sn(uint64(id)), sn(uint64(bm))))
		if i%2 == 0 {
			stop := r.intn(19)
			e.emit("range", sl(sy("range"), sn(uint64(id)), sn(uint64(bm)), sn(uint64(stop))))
		}
	}
}

// ---- C16 ----
func genC16(e *emitter, r *rng, tier string) {
	n := budget(tier, 1500, 60000)
	for i := 0; i < n; i++ {
		// header values and raw words
		h := sl(sy("Header"), sbool(r.chance(1, 2)), sn(uint64(r.pick(0, 1, 15, 30, 31, 32, 33, 255, r.intn(32)))), sn(uint64(r.u8())), sn(uint64(r.u16())))
		e.emit("hdr-enc", op1("encu", h))
		hb := []byte{r.u8(), r.u8(), r.u8(), r.u8()}
		if r.chance(3, 4) {
			hb[0] = hb[0]&0x3F | 0x80
		}
		e.emit("hdr-dec", opDec("Header", hb[:r.pick(4, 4, 4, 4, 4, 3, 2, 0, 4)]))
		// chunk words
		w := []byte{r.u8(), r.u8()}
		e.emit("rlc-dec", opDec("RunLengthChunk", w))
		e.emit("svc-dec", opDec("StatusVectorChunk", w))
		e.emit("rlc-enc", op1("encu", sl(sy("RunLengthChunk"), sn(0), sn(uint64(r.pick(0, 1, 2, 3, 4, 0xFFFF))), sn(uint64(r.pick(0, 1, 8190, 8191, 8192, 0xFFFF, int(r.bits(13))))))))
		{
			ss := r.intn(2)
			cnt := 14
			if ss == 1 {
				cnt = 7
			}
			if r.chance(1, 5) {
				cnt = r.pick(0, 1, cnt-1, cnt+1, 16)
			}
			var syms []*Sx
			for k := 0; k < cnt; k++ {
				syms = append(syms, sn(uint64(r.intn(2+2*ss))))
			}
			e.emit("svc-enc", op1("encu", sl(sy("StatusVectorChunk"), sn(1), sn(uint64(ss)), sl(syms...))))
		}
		// deltas
		e.emit("delta-dec", opDec("RecvDelta", r.bytesN(r.pick(1, 1, 2, 2, 0, 3))))
		{
			ty := r.pick(1, 2, 1, 2, 0, 3)
			d := int64(250) * int64(r.pick(0, 1, 255, 256, -1, 32767, 32768, -32768, -32769, r.intn(70000)-35000))
			if r.chance(1, 4) {
				d += int64(r.pick(1, 124, 249, -1, -249))
			}
			e.emit("delta-enc", op1("encu", sl(sy("RecvDelta"), sn(uint64(ty)), sz(d))))
		}
		// reception report (24-bit loss)
		{
			rep := genReport(r, r.chance(1, 3))
			e.emit("rrep-enc", op1("encu", toTagged(reflect.ValueOf(rep))))
			e.emit("rrep-dec", opDec("ReceptionReport", r.bytesN(r.pick(24, 24, 24, 23, 25, 0))))
		}
		// metric block
		e.emit("metric-dec", opDec("CCFeedbackMetricBlock", r.bytesN(r.pick(2, 2, 2, 2, 1, 3))))
		e.emit("metric-enc", op1("encu", sl(sy("CCFeedbackMetricBlock"), sbool(r.chance(2, 3)), sn(uint64(r.pick(0, 1, 2, 3, 4, 255))), sn(uint64(r.pick(0, 1, 8191, 8192, 0xFFFF, int(r.bits(13))))))))
		// XR chunk accessors
		e.emit("xrchunk", op1("xrchunk", sn(uint64(r.u16()))))
		// single-entry packets
		e.emit("nack1", op1("rt", packetSx(&rtcp.TransportLayerNack{SenderSSRC: r.u32(), MediaSSRC: r.u32(), Nacks: []rtcp.NackPair{{PacketID: r.u16(), LostPackets: rtcp.PacketBitmap(r.u16())}}})))
		e.emit("sli1", op1("rt", packetSx(&rtcp.SliceLossIndication{SenderSSRC: r.u32(), MediaSSRC: r.u32(), SLI: []rtcp.SLIEntry{{First: uint16(r.bits(13)), Number: uint16(r.bits(13)), Picture: uint8(r.bits(6))}}})))
		e.emit("fir1", op1("rt", packetSx(&rtcp.FullIntraRequest{SenderSSRC: r.u32(), MediaSSRC: r.u32(), FIR: []rtcp.FIREntry{{SSRC: r.u32(), SequenceNumber: r.u8()}}})))
		// util.go through the hooks
		if hooksAvailable {
			size := r.pick(1, 2, 13, 1, 2, 16, 0)
			start := r.intn(17 - size)
			if r.chance(1, 8) {
				start = r.pick(16, 17, 15)
			}
			e.emit("util", sl(sy("util"), sy("setNBitsOfUint16"), sn(uint64(r.u16())), sn(uint64(size)), sn(uint64(start)), sn(uint64(r.u16()))))
			e.emit("util", sl(sy("util"), sy("getNBitsFromByte"), sn(uint64(r.u8())), sn(uint64(r.intn(8))), sn(uint64(1+r.intn(2)))))
			e.emit("util", sl(sy("util"), sy("appendNBitsToUint32"), sn(uint64(r.u32())), sn(uint64(r.pick(8, 24, 1, 16, 31))), sn(uint64(r.u32()))))
			e.emit("util", sl(sy("util"), sy("getPadding"), sn(uint64(r.intn(1000)))))
			e.emit("util", sl(sy("util"), sy("get24BitsFromBytes"), sb(r.bytesN(3))))
		}
	}
	// complete sweeps of the small domains on the implementation side
	// (every tier since the sixth round of seeded changes: a change that differs on a single word is otherwise reported
	// by the sweep lemma of the translated function alone, without an input)
	for wv := 0; wv < 65536; wv++ {
		b := []byte{byte(wv >> 8), byte(wv)}
		e.emit("rlc-dec-all", opDec("RunLengthChunk", b))
		e.emit("svc-dec-all", opDec("StatusVectorChunk", b))
		e.emit("metric-dec-all", opDec("CCFeedbackMetricBlock", b))
		e.emit("delta2-all", opDec("RecvDelta", b))
	}
	// the XR chunk accessors are cheap enough for a complete sweep in every tier (seed C16-4 differs on the single
	// word 0x4000, which a sample of 1 500 random words misses)
	for wv := 0; wv < 65536; wv++ {
		e.emit("xrchunk-all", op1("xrchunk", sn(uint64(wv))))
	}
	for v := 0; v < 256; v++ {
		e.emit("delta1-all", opDec("RecvDelta", []byte{byte(v)}))
	}
}

// ---- encoders: C03 (dom), C05/C08 (wild) ----
func genEnc(e *emitter, r *rng, n int, wild bool, op string) {
	for i := 0; i < n; i++ {
		w := wild && r.chance(1, 2)
		var p rtcp.Packet
		if r.chance(1, 12) {
			p = genCompound(r)
		} else {
			p = genPacket(r, w)
		}
		e.emit(typeName(p), op1(op, packetSx(p)))
	}
}

// encodings longer than the 16-bit length field can express (262140 octets): finding F18
func genOversize(e *emitter, r *rng) {
	big := &rtcp.SourceDescription{}
	for c := 0; c < 31; c++ {
		ch := rtcp.SourceDescriptionChunk{Source: r.u32()}
		for i := 0; i < 34; i++ {
			ch.Items = append(ch.Items, rtcp.SourceDescriptionItem{Type: rtcp.SDESNote, Text: string(r.bytesN(255))})
		}
		big.Chunks = append(big.Chunks, ch)
	}
	e.emit("oversize-sdes", op1("enc", packetSx(big)))
	cc := &rtcp.CCFeedbackReport{SenderSSRC: 1}
	for b := 0; b < 9; b++ {
		blk := rtcp.CCFeedbackReportBlock{MediaSSRC: uint32(b), BeginSequence: 0, MetricBlocks: make([]rtcp.CCFeedbackMetricBlock, 16384)}
		cc.ReportBlocks = append(cc.ReportBlocks, blk)
	}
	e.emit("oversize-ccfb", op1("enc", packetSx(cc)))
}

// ---- C02 ----
func genC02(e *emitter, r *rng, tier string) {
	n := budget(tier, 5000, 150000)
	for i := 0; i < n; i++ {
		var p rtcp.Packet
		if r.chance(1, 12) {
			p = genCompound(r)
		} else {
			p = genPacket(r, false)
		}
		e.emit(typeName(p), op1("rt", packetSx(p)))
	}
	for i := 0; i < n/5; i++ {
		k := 1 + r.intn(8)
		var ps []rtcp.Packet
		for j := 0; j < k; j++ {
			ps = append(ps, genPacket(r, false))
		}
		e.emit("list", op1("rts", packetsSx(ps)))
	}
}

// ---- C01 ----
func genC01(e *emitter, r *rng, tier string) {
	n := budget(tier, 4000, 150000)
	// every header x small body lengths, each entry point, frames NOT pre-sliced by the datagram layer
	lens := []int{0, 1, 2, 3, 4, 5, 6, 0x3FFF, 0x4000, 0x4001, 0xFFFF}
	pts := []int{200, 201, 202, 203, 204, 205, 206, 207, 199, 208}
	maxBody := 24
	if tier == "thorough" {
		maxBody = 40
	}
	for _, name := range decoderNames {
		for _, pt := range pts {
			fmts := []int{0, 1, 2, 4, 5, 11, 15, 31}
			for _, f := range fmts {
				for _, l := range lens {
					step := 4
					if tier == "thorough" {
						step = 1
					}
					for body := 0; body <= maxBody; body += step {
						b := make([]byte, 4+body)
						b[0], b[1], b[2], b[3] = 0x80|byte(f), byte(pt), byte(l>>8), byte(l)
						if body > 0 && r.chance(1, 2) {
							copy(b[4:], r.bytesN(body))
						}
						e.emit("sweep-"+name, opDec(name, b))
					}
				}
			}
		}
	}
	for i := 0; i < n; i++ {
		p := genPacket(r, false)
		b := encOf(p)
		if b == nil {
			continue
		}
		m := mutate(r, b)
		if r.chance(1, 3) {
			m = mutate(r, m)
		}
		name := typeName(p)
		switch r.intn(4) {
		case 0:
			e.emit("dgram", opDgram(m))
		case 1:
			e.emit("own-"+name, opDec(name, m))
		case 2:
			e.emit("other", opDec(decoderNames[r.intn(len(decoderNames))], m))
		default: // all truncations of one encoding through its own decoder
			if len(b) <= 64 {
				for k := 0; k <= len(b); k++ {
					e.emit("trunc-"+name, opDec(name, b[:k]))
				}
			} else {
				e.emit("own-"+name, opDec(name, m))
			}
		}
	}
	for i := 0; i < n/4; i++ {
		e.emit("random", opDec(decoderNames[r.intn(len(decoderNames))], r.bytesN(r.intn(64))))
		e.emit("random-dgram", opDgram(r.bytesN(r.intn(64))))
	}
	// TWCC status-count extremes (F3 family): small packets claiming huge status counts
	for i := 0; i < n/8; i++ {
		chunks := r.pick(1, 2, 9, 10, 20, 40, 90)
		b := make([]byte, 20+2*chunks+r.pick(0, 2, 4))
		for len(b)%4 != 0 {
			b = append(b, 0)
		}
		b[0], b[1] = 0x8F, 205
		l := len(b)/4 - 1
		b[2], b[3] = byte(l>>8), byte(l)
		cnt := r.pick(65535, 65534, 65523, 65522, 65521, 60000, 8191, 8192, 16382)
		b[14], b[15] = byte(cnt>>8), byte(cnt)
		for k := 0; k < chunks; k++ {
			var wv int
			switch r.intn(4) {
			case 0:
				wv = 0x2000 | r.pick(8191, 8190, 1, 0, 5000) // run-length, small delta
			case 1:
				wv = 0x8000 | int(r.bits(14))
			case 2:
				wv = 0xC000 | int(r.bits(14))
			default:
				wv = int(r.bits(13)) // run-length not received
			}
			b[20+2*k], b[21+2*k] = byte(wv>>8), byte(wv)
		}
		e.emit("twcc-count", opDec("TransportLayerCC", b))
	}
	// the F3 family: status count 65535, eight run-length chunks of 8191 "small delta", a vector chunk, repeated.
	// A 16-bit status counter that wraps keeps appending ~65 000 deltas per repetition from 18 octets of input.
	for _, reps := range []int{1, 2, 6, 12} {
		var body []byte
		for k := 0; k < reps; k++ {
			for c := 0; c < 8; c++ {
				body = append(body, 0x3F, 0xFF) // run-length, symbol 1, run 8191
			}
			body = append(body, 0x80, 0x00) // one-bit vector chunk, all not received
		}
		b := make([]byte, 20, 20+len(body)+4)
		b[0], b[1] = 0x8F, 205
		b[14], b[15] = 0xFF, 0xFF
		b = append(b, body...)
		for len(b)%4 != 0 {
			b = append(b, 0)
		}
		l := len(b)/4 - 1
		b[2], b[3] = byte(l>>8), byte(l)
		e.emit("twcc-wrap", opDec("TransportLayerCC", b))
		e.emit("twcc-wrap-dgram", opDgram(b))
	}
}

// ---- C04: RFC-valid encodings the library's encoder never produces ----
func genC04(e *emitter, r *rng, tier string) {
	n := budget(tier, 4000, 100000)
	for i := 0; i < n; i++ {
		p := genPacket(r, false)
		b := encOf(p)
		if b == nil {
			continue
		}
		name := typeName(p)
		e.emit("own-"+name, opDec(name, b))
		e.emit("dgram-"+name, opDgram(b))
		// count-inflated SR/RR/SDES/BYE
		switch name {
		case "SenderReport", "ReceiverReport", "SourceDescription", "Goodbye":
			c := int(b[0] & 0x1F)
			if c < 31 {
				m := append([]byte(nil), b...)
				m[0] = m[0]&0xE0 | byte(c+1+r.intn(31-c))
				e.emit("inflated-"+name, sl(sy("inflated"), sy(name), sb(m)))
			}
		}
	}
	genVariants(e, r, n)
}

// ---- C06 ----
func genC06(e *emitter, r *rng, tier string) {
	n := budget(tier, 4000, 100000)
	frame := func() []byte {
		for {
			if b := encOf(genPacket(r, false)); b != nil && len(b)%4 == 0 {
				return b
			}
		}
	}
	for i := 0; i < n; i++ {
		k := 1 + r.intn(6)
		var fs []*Sx
		for j := 0; j < k; j++ {
			fs = append(fs, sb(frame()))
		}
		if r.chance(1, 2) { // damage: malformed frame / truncated tail / surplus bytes at some position
			pos := r.intn(k)
			b := fs[pos].B
			switch r.intn(6) {
			case 0:
				b = mutate(r, b)
			case 1:
				b = b[:r.intn(len(b))]
			case 2:
				b = append(append([]byte(nil), b...), r.bytesN(1+r.intn(3))...)
			case 3:
				b = nil
			default:
				// still well-framed, but one or two words shorter than its content needs: a decoder that
				// reads past its frame would find the next frame's octets there
				w := 1 + r.intn(2)
				if len(b) >= 4+4*w {
					b = append([]byte(nil), b[:len(b)-4*w]...)
					l := len(b)/4 - 1
					b[2], b[3] = byte(l>>8), byte(l)
				}
			}
			fs[pos] = sb(b)
		}
		e.emit("split", op1("split", sl(fs...)))
	}
	e.emit("empty", opDgram(nil))
}

// registeredHeaders: (packet type, count/FMT) of the registered feedback formats and the count-free types
var registeredHeaders = [][2]byte{{200, 0}, {201, 0}, {202, 0}, {203, 0}, {204, 0}, {207, 0},
	{205, 1}, {205, 5}, {205, 11}, {205, 15}, {206, 1}, {206, 2}, {206, 4}, {206, 15}}

// ---- C07 ----
func genC07(e *emitter, r *rng, tier string) {
	bodies := []int{0, 4, 8, 16, 20, 24}
	for pt := 0; pt < 256; pt++ {
		for f := 0; f < 32; f++ {
			for _, body := range bodies {
				if tier != "thorough" && pt < 192 && body != 8 && !(pt%16 == 0) {
					continue
				}
				b := make([]byte, 4+body)
				b[0], b[1] = 0x80|byte(f), byte(pt)
				l := body / 4
				b[2], b[3] = byte(l>>8), byte(l)
				copy(b[4:], r.bytesN(body))
				e.emit("table", opDgram(b))
			}
		}
	}
	// unregistered types in frames whose octet count does not fit 16 bits (length field 0x3ffe..0xfffe):
	// the RawPacket must still hold the frame verbatim
	for _, l := range []int{0x3ffe, 0x3fff, 0x4000, 0x4001, 0x7fff, 0x8000, 0xfffe} {
		if tier != "thorough" && l > 0x4001 {
			continue
		}
		for _, pt := range []byte{192, 205, 206, 208} {
			b := make([]byte, 4*(l+1))
			b[0], b[1], b[2], b[3] = 0x80|byte(16+r.intn(14)), pt, byte(l>>8), byte(l)
			for i := 4; i < len(b); i += 1 + r.intn(97) {
				b[i] = r.u8()
			}
			e.emit("table-64k", opDgram(b))
			e.emit("table-64k", opDgram(append(append([]byte(nil), b...), 0x80, 203, 0, 0)))
		}
	}
	n := budget(tier, 3000, 60000)
	for i := 0; i < n; i++ {
		p := genPacket(r, false)
		b := encOf(p)
		if b == nil {
			continue
		}
		name := typeName(p)
		e.emit("own-dispatch", opDgram(b))
		other := decoderNames[r.intn(14)]
		if other != name {
			e.emit("foreign-"+other, opDec(other, b))
		}
		// header transplant: this type's valid encoding under the type/count of ANOTHER registered type, handed to
		// this type's own decoder: only the header guard can tell that it is not its packet
		if len(b) >= 4 && name != "RawPacket" && name != "CompoundPacket" {
			reg := registeredHeaders[r.intn(len(registeredHeaders))]
			t := append([]byte(nil), b...)
			if t[1] != reg[0] || t[0]&0x1F != reg[1] {
				if reg[0] >= 205 && reg[0] <= 206 {
					t[0] = t[0]&0xE0 | reg[1]
				}
				t[1] = reg[0]
				e.emit("transplant-"+name, opDec(name, t))
			}
		}
	}
}

// ---- C09 ----
func genC09(e *emitter, r *rng, tier string) {
	n := budget(tier, 8000, 60000)
	for i := 0; i < n; i++ {
		k := 1 + r.intn(3)
		var dg []byte
		for j := 0; j < k; j++ {
			b := encOf(genPacket(r, false))
			if b == nil {
				continue
			}
			if r.chance(2, 3) {
				b = mutate(r, b)
			}
			dg = append(dg, b...)
		}
		e.emit("redec", op1("redec", sb(dg)))
	}
	genVariantsAs(e, r, n/2, "redec")
}

// ---- C10 ----
func genC10(e *emitter, r *rng, tier string) {
	n := budget(tier, 4000, 80000)
	for i := 0; i < n; i++ {
		var p rtcp.Packet
		if r.chance(1, 10) {
			p = genCompound(r)
		} else {
			p = genPacket(r, r.chance(1, 4))
		}
		e.emit(typeName(p), op1("enc", packetSx(p)))
		if i%2 == 0 {
			e.emit("rt-"+typeName(p), op1("rt", packetSx(p)))
		}
	}
	var empty rtcp.CompoundPacket
	e.emit("empty-compound", op1("enc", packetSx(&empty)))
}

// ---- C11 ----
func kindPacket(r *rng, k int) rtcp.Packet {
	switch k {
	case 0:
		return &rtcp.SenderReport{SSRC: r.u32()}
	case 1:
		return &rtcp.ReceiverReport{SSRC: r.u32(), Reports: []rtcp.ReceptionReport{{SSRC: r.u32()}}}
	case 2: // SDES with CNAME (possibly in a later chunk / item)
		s := &rtcp.SourceDescription{}
		nc := 1 + r.intn(2)
		ci := r.intn(nc)
		for c := 0; c < nc; c++ {
			ch := rtcp.SourceDescriptionChunk{Source: r.u32()}
			if r.chance(1, 2) {
				ch.Items = append(ch.Items, rtcp.SourceDescriptionItem{Type: rtcp.SDESName, Text: "n"})
			}
			if c == ci {
				ch.Items = append(ch.Items, rtcp.SourceDescriptionItem{Type: rtcp.SDESCNAME, Text: string(r.bytesN(r.intn(4)))})
				if r.chance(1, 3) {
					ch.Items = append(ch.Items, rtcp.SourceDescriptionItem{Type: rtcp.SDESCNAME, Text: "second"})
				}
			}
			s.Chunks = append(s.Chunks, ch)
		}
		return s
	case 3: // SDES without CNAME
		return &rtcp.SourceDescription{Chunks: []rtcp.SourceDescriptionChunk{{Source: r.u32(), Items: []rtcp.SourceDescriptionItem{{Type: rtcp.SDESTool, Text: "t"}}}}}
	case 4: // SDES with no chunks
		return &rtcp.SourceDescription{}
	case 5:
		return &rtcp.Goodbye{Sources: []uint32{r.u32()}}
	case 6:
		return &rtcp.PictureLossIndication{SenderSSRC: r.u32(), MediaSSRC: r.u32()}
	case 7:
		return &rtcp.ApplicationDefined{Name: "abcd", SSRC: r.u32()}
	case 8:
		return &rtcp.ExtendedReport{SenderSSRC: r.u32()}
	default:
		raw := rtcp.RawPacket([]byte{0x80, 192, 0, 0})
		return &raw
	}
}

func genC11(e *emitter, r *rng, tier string) {
	maxLen := 4
	if tier == "thorough" {
		maxLen = 5
	}
	var rec func(prefix []int)
	rec = func(prefix []int) {
		ps := make([]rtcp.Packet, len(prefix))
		for i, k := range prefix {
			ps[i] = kindPacket(r, k)
		}
		e.emit("exhaustive", op1("cp", packetsSx(ps)))
		if len(prefix) < maxLen {
			for k := 0; k < 10; k++ {
				rec(append(append([]int(nil), prefix...), k))
			}
		}
	}
	rec(nil)
	n := budget(tier, 2000, 40000)
	for i := 0; i < n; i++ {
		k := r.intn(12)
		var ps []rtcp.Packet
		for j := 0; j < k; j++ {
			switch {
			case j == 0 && r.chance(4, 5):
				ps = append(ps, kindPacket(r, r.intn(2)))
			case r.chance(1, 2):
				ps = append(ps, kindPacket(r, 1+r.intn(2)))
			default:
				ps = append(ps, kindPacket(r, r.intn(10)))
			}
		}
		if r.chance(1, 6) && len(ps) > 0 {
			// a member that cannot be marshalled (too many reports, SDES text over 255 octets, SDES item of type 0),
			// somewhere after the packets that make the compound valid
			var bad rtcp.Packet
			switch r.intn(3) {
			case 0:
				rr := &rtcp.ReceiverReport{SSRC: r.u32()}
				for k := 0; k < 32; k++ {
					rr.Reports = append(rr.Reports, rtcp.ReceptionReport{SSRC: r.u32()})
				}
				bad = rr
			case 1:
				bad = &rtcp.SourceDescription{Chunks: []rtcp.SourceDescriptionChunk{{Source: r.u32(), Items: []rtcp.SourceDescriptionItem{{Type: rtcp.SDESCNAME, Text: string(make([]byte, 256))}}}}}
			default:
				bad = &rtcp.SourceDescription{Chunks: []rtcp.SourceDescriptionChunk{{Source: r.u32(), Items: []rtcp.SourceDescriptionItem{{Type: rtcp.SDESEnd, Text: "x"}}}}}
			}
			pos := len(ps)
			if r.chance(1, 2) {
				pos = 1 + r.intn(len(ps))
			}
			ps = append(ps[:pos:pos], append([]rtcp.Packet{bad}, ps[pos:]...)...)
		}
		e.emit("random", op1("cp", packetsSx(ps)))
		if b := encOf(&rtcp.CompoundPacket{}); b == nil {
			var dg []byte
			for _, p := range ps {
				dg = append(dg, encOf(p)...)
			}
			e.emit("cpdec", opDec("CompoundPacket", dg))
			// the same datagram with something after the last complete packet: 1-3 stray octets, a bare
			// header announcing more than follows, a cut inside the last packet
			if len(dg) > 0 {
				switch r.intn(4) {
				case 0:
					e.emit("cpdec-tail", opDec("CompoundPacket", append(append([]byte(nil), dg...), r.bytesN(1+r.intn(3))...)))
				case 1:
					e.emit("cpdec-tail", opDec("CompoundPacket", append(append([]byte(nil), dg...), 0x80, 203, 0, byte(1+r.intn(3)))))
				case 2:
					e.emit("cpdec-tail", opDec("CompoundPacket", dg[:len(dg)-1-r.intn(3)]))
				}
			}
		}
	}
}

// ---- C13 ----
func genC13(e *emitter, r *rng, tier string) {
	n := budget(tier, 6000, 150000)
	for i := 0; i < n; i++ {
		t := genTWCC(r, false)
		b := encOf(t)
		if b == nil {
			continue
		}
		e.emit("valid", opDec("TransportLayerCC", b))
		m := append([]byte(nil), b...)
		switch r.intn(5) {
		case 0: // status count under/overshoot
			c := int(m[14])<<8 | int(m[15])
			c += r.pick(-2, -1, 1, 2, 7, 14)
			m[14], m[15] = byte(c>>8), byte(c)
		case 1: // total length from chunks-end-2 to +6
			m = append(m, r.bytesN(4*r.intn(3))...)
			l := len(m)/4 - 1
			m[2], m[3] = byte(l>>8), byte(l)
		case 2:
			m = mutate(r, m)
		case 3: // chunk word change
			if len(m) > 22 {
				k := 20 + 2*r.intn((len(m)-20)/2)
				m[k] ^= byte(r.pick(0x80, 0x40, 0x20, 0x01))
			}
		default:
			if len(m) >= 24 {
				m = m[:len(m)-4]
				l := len(m)/4 - 1
				m[2], m[3] = byte(l>>8), byte(l)
			}
		}
		e.emit("mutant", opDec("TransportLayerCC", m))
	}
	genTwccChunkings(e, r, tier)
	genTwccHugeCounts(e, r, tier)
}

// status counts next to 65535: eight run-length chunks of 8191 "not received", then the last few statuses
// either as a vector chunk or as run-length chunks; both chunkings must decode to the same statuses and deltas.
func genTwccHugeCounts(e *emitter, r *rng, tier string) {
	n := budget(tier, 60, 2000)
	for i := 0; i < n; i++ {
		tail := 1 + r.intn(14) // statuses after the 65528 not-received ones
		if 65528+tail > 65535 {
			tail = 7
		}
		count := 65528 + tail
		st := make([]uint16, tail)
		twoBit := tail <= 7 && r.chance(1, 2)
		for k := range st {
			if twoBit {
				st[k] = uint16(r.intn(3))
			} else {
				st[k] = uint16(r.intn(2))
			}
		}
		var deltas []*rtcp.RecvDelta
		for _, x := range st {
			if x == 1 {
				deltas = append(deltas, &rtcp.RecvDelta{Type: 1, Delta: 250 * int64(1+r.intn(255))})
			} else if x == 2 {
				deltas = append(deltas, &rtcp.RecvDelta{Type: 2, Delta: 250 * int64(r.intn(65536)-32768)})
			}
		}
		var head []rtcp.PacketStatusChunk
		for k := 0; k < 8; k++ {
			head = append(head, &rtcp.RunLengthChunk{PacketStatusSymbol: 0, RunLength: 8191})
		}
		// chunking A: one vector chunk
		var a []rtcp.PacketStatusChunk
		if twoBit {
			syms := make([]uint16, 7)
			copy(syms, st)
			a = append(append(a, head...), &rtcp.StatusVectorChunk{Type: 1, SymbolSize: 1, SymbolList: syms})
		} else {
			syms := make([]uint16, 14)
			copy(syms, st)
			a = append(append(a, head...), &rtcp.StatusVectorChunk{Type: 1, SymbolSize: 0, SymbolList: syms})
		}
		// chunking B: run-length chunks only
		b := append([]rtcp.PacketStatusChunk(nil), head...)
		for k := 0; k < tail; {
			run := 1
			for k+run < tail && st[k+run] == st[k] {
				run++
			}
			b = append(b, &rtcp.RunLengthChunk{PacketStatusSymbol: st[k], RunLength: uint16(run)})
			k += run
		}
		base := rtcp.TransportLayerCC{SenderSSRC: r.u32(), MediaSSRC: r.u32(), BaseSequenceNumber: r.u16(), PacketStatusCount: uint16(count),
			ReferenceTime: uint32(r.bits(24)), FbPktCount: r.u8(), RecvDeltas: deltas}
		var encs []*Sx
		for _, cs := range [][]rtcp.PacketStatusChunk{a, b} {
			t := base
			t.PacketChunks = cs
			if r.chance(1, 2) {
				t.Header.Padding = true
			}
			if bb := twccBytes(&t); bb != nil {
				// a few spare words after the deltas: the declared length may exceed the content
				if r.chance(1, 2) {
					bb = append(bb, make([]byte, 4*(1+r.intn(5)))...)
					l := len(bb)/4 - 1
					bb[0] &^= 0x20
					bb[2], bb[3] = byte(l>>8), byte(l)
				}
				encs = append(encs, sb(bb))
				e.emit("huge-count", opDec("TransportLayerCC", bb))
			}
		}
		e.emit("huge-count-chunkings", sl(sy("decs"), sy("TransportLayerCC"), sl(encs...)))
	}
}

// ---- C14 ----
func genC14(e *emitter, r *rng, tier string) {
	n := budget(tier, 4000, 200000)
	mk := func(exp, mant int, ssrcs int) []byte {
		b := make([]byte, 20+4*ssrcs)
		b[0], b[1] = 0x8F, 206
		l := len(b)/4 - 1
		b[2], b[3] = byte(l>>8), byte(l)
		copy(b[12:], "REMB")
		b[16] = byte(ssrcs)
		b[17] = byte(exp<<2) | byte(mant>>16)
		b[18], b[19] = byte(mant>>8), byte(mant)
		return b
	}
	for exp := 0; exp < 64; exp++ {
		for _, mant := range []int{0, 1, 2, 3, 0x1FFFF, 0x20000, 0x20001, 0x3FFFE, 0x3FFFF, 0x2AAAA, 0x15555, 1 << 10, 1<<10 - 1} {
			e.emit("wire", opDec("ReceiverEstimatedMaximumBitrate", mk(exp, mant, 0)))
		}
	}
	for i := 0; i < n; i++ {
		e.emit("wire", opDec("ReceiverEstimatedMaximumBitrate", mk(r.intn(64), int(r.bits(18)), r.pick(0, 0, 1, 2))))
		p := genREMB(r, r.chance(1, 5))
		e.emit("enc", op1("enc", packetSx(p)))
	}
	for k := 0; k <= 257; k++ {
		p := &rtcp.ReceiverEstimatedMaximumBitrate{SenderSSRC: 1, Bitrate: 1000, SSRCs: make([]uint32, k)}
		e.emit("count", op1("rt", packetSx(p)))
	}
}

// ---- C15 ----
func genC15(e *emitter, r *rng, tier string) {
	n := budget(tier, 5000, 120000)
	for i := 0; i < n; i++ {
		x := genXR(r, r.chance(1, 4))
		e.emit("xr", op1("rt", packetSx(x)))
	}
}

// ---- C17 ----
func genC17(e *emitter, r *rng, tier string) {
	n := budget(tier, 5000, 120000)
	for i := 0; i < n; i++ {
		var p rtcp.Packet
		if r.chance(1, 10) {
			p = genCompound(r)
		} else {
			p = genPacket(r, r.chance(1, 3))
		}
		// the library's String methods build their text by repeated concatenation (quadratic); packets with
		// thousands of elements are formatted only occasionally so that the quick tier stays quick
		if sx := packetSx(p); len(sx.String()) < 20000 || r.chance(1, 40) {
			e.emit("str-"+typeName(p), op1("str", sx))
		}
		if b := encOf(genPacket(r, false)); b != nil && (len(b) < 2000 || r.chance(1, 40)) {
			e.emit("strdec", op1("strdec", sb(mutate(r, b))))
		}
	}
	for exp := 0; exp < 64; exp++ {
		b := make([]byte, 20)
		b[0], b[1], b[3] = 0x8F, 206, 4
		copy(b[12:], "REMB")
		b[17], b[18], b[19] = byte(exp<<2)|3, 0xFF, 0xFF
		e.emit("remb-exp", op1("strdec", sb(b)))
	}
	for v := 0; v < 256; v++ {
		for _, k := range []string{"PacketType", "SDESType", "BlockTypeType", "TTLorHopLimitType", "ChunkType"} {
			e.emit("enum", sl(sy("strenum"), sy(k), sn(uint64(v))))
		}
	}
	for i := 0; i < 2000; i++ {
		e.emit("enum", sl(sy("strenum"), sy("Chunk"), sn(uint64(r.u16()))))
	}
}

// ---- C18 ----
var histOps = []string{"marshal", "size", "dest", "string", "header", "len"}

func genC18(e *emitter, r *rng, tier string) {
	n := budget(tier, 2500, 60000)
	for i := 0; i < n; i++ {
		var p rtcp.Packet
		if r.chance(1, 10) {
			p = genCompound(r)
		} else {
			p = genPacket(r, r.chance(1, 3))
		}
		if i%8 == 0 {
			// extended reports with every block out of range somewhere (T above 15, odd chunk counts, ...)
			x := &rtcp.ExtendedReport{SenderSSRC: r.u32()}
			for j, m := 0, 1+r.intn(4); j < m; j++ {
				x.Reports = append(x.Reports, genXRBlock(r, true))
			}
			p = x
		}
		k := 2 + r.intn(12)
		var ops []*Sx
		for j := 0; j < k; j++ {
			ops = append(ops, sy(histOps[r.intn(len(histOps))]))
		}
		e.emit("hist-"+typeName(p), sl(sy("hist"), packetSx(p), sl(ops...)))
		if b := encOf(p); b != nil && i%3 == 0 {
			e.emit("inbuf", op1("inbuf", sb(mutate(r, b))))
		}
	}
}
