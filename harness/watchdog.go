package main

import (
	"fmt"
	"os"
	"runtime/metrics"
	"sync/atomic"
	"time"
)

var currentCase atomic.Value

// startWatchdog: a hang or a runaway allocation inside the implementation must end the
// run with the running case named, instead of taking the machine down (DESIGN.md C01).
func startWatchdog() {
	go func() {
		s := []metrics.Sample{{Name: "/memory/classes/heap/objects:bytes"}}
		last := ""
		lastChange := time.Now()
		for {
			time.Sleep(5 * time.Millisecond)
			metrics.Read(s)
			cur, _ := currentCase.Load().(string)
			if cur != last {
				last = cur
				lastChange = time.Now()
			}
			if s[0].Value.Uint64() > 2<<30 {
				fmt.Printf("(watchdog alloc %d %s)\n", s[0].Value.Uint64(), cur)
				os.Stdout.Sync()
				os.Exit(3)
			}
			if time.Since(lastChange) > 20*time.Second {
				fmt.Printf("(watchdog hang %s)\n", cur)
				os.Stdout.Sync()
				os.Exit(4)
			}
		}
	}()
}
