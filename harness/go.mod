module verif/harness

go 1.20

require github.com/pion/rtcp v0.0.0

replace github.com/pion/rtcp => /repo
