package main

// Reflection-based conversion between Go values of pion/rtcp and S-expressions.
// Field order is the Go declaration order; unexported fields and embedded interface
// fields are skipped; values whose static type is an interface are tagged with the
// dynamic type's name.

import (
	"fmt"
	"hash/fnv"
	"math"
	"reflect"

	"github.com/pion/rtcp"
)

var byteSliceType = reflect.TypeOf([]byte(nil))

// every []byte built from a case is allocated with spare capacity holding a sentinel and remembered here,
// so that a call that writes past len into the caller's backing array can be seen afterwards (C18)
var spareTracked [][]byte

const spareSentinel = 0x5A

// capSalt: derived from the text of the packet being built (packetFrom); it decides how much spare capacity the slices of
// the value get, so that a case always gets the same shape (replays included). Go code must not let capacity reach the
// wire (a size computed from cap() instead of len()): byte slices get 8..11 spare octets, other slices 0..3 spare elements.
var capSalt uint64

func trackedBytes(b []byte) []byte {
	buf := make([]byte, len(b)+8+int(capSalt%4))
	copy(buf, b)
	for i := len(b); i < len(buf); i++ {
		buf[i] = spareSentinel
	}
	spareTracked = append(spareTracked, buf)
	return buf[:len(b)]
}

func spareUntouched() bool {
	for _, buf := range spareTracked {
		for i := len(buf) - 8; i < len(buf); i++ {
			if buf[i] != spareSentinel {
				return false
			}
		}
	}
	return true
}

// ifaceTypes: dynamic types that may sit behind the package's interfaces, by name.
var ifaceTypes = map[string]reflect.Type{}

func reg(v interface{}) {
	t := reflect.TypeOf(v)
	for t.Kind() == reflect.Ptr {
		t = t.Elem()
	}
	ifaceTypes[t.Name()] = t
}

func init() {
	for _, v := range []interface{}{
		rtcp.SenderReport{}, rtcp.ReceiverReport{}, rtcp.SourceDescription{}, rtcp.Goodbye{}, rtcp.ApplicationDefined{},
		rtcp.TransportLayerNack{}, rtcp.RapidResynchronizationRequest{}, rtcp.TransportLayerCC{}, rtcp.CCFeedbackReport{},
		rtcp.PictureLossIndication{}, rtcp.SliceLossIndication{}, rtcp.ReceiverEstimatedMaximumBitrate{}, rtcp.FullIntraRequest{},
		rtcp.ExtendedReport{}, rtcp.RawPacket{}, rtcp.CompoundPacket{},
		rtcp.RunLengthChunk{}, rtcp.StatusVectorChunk{},
		rtcp.LossRLEReportBlock{}, rtcp.DuplicateRLEReportBlock{}, rtcp.PacketReceiptTimesReportBlock{},
		rtcp.ReceiverReferenceTimeReportBlock{}, rtcp.DLRRReportBlock{}, rtcp.StatisticsSummaryReportBlock{},
		rtcp.VoIPMetricsReportBlock{}, rtcp.UnknownReportBlock{},
		rtcp.Header{}, rtcp.ReceptionReport{}, rtcp.SourceDescriptionChunk{}, rtcp.SourceDescriptionItem{}, rtcp.RecvDelta{},
		rtcp.CCFeedbackReportBlock{}, rtcp.CCFeedbackMetricBlock{}, rtcp.NackPair{},
	} {
		reg(v)
	}
}

// fields of a struct value as a list (without tag)
func structFields(v reflect.Value) []*Sx {
	var out []*Sx
	t := v.Type()
	for i := 0; i < v.NumField(); i++ {
		f := t.Field(i)
		if !f.IsExported() {
			continue
		}
		if f.Anonymous && f.Type.Kind() == reflect.Interface {
			continue // RunLengthChunk / StatusVectorChunk embed the PacketStatusChunk interface
		}
		out = append(out, toSx(v.Field(i)))
	}
	return out
}

// tagged rendering of a value reached through an interface (or asked for explicitly)
func toTagged(v reflect.Value) *Sx {
	for v.Kind() == reflect.Ptr || v.Kind() == reflect.Interface {
		if v.IsNil() {
			return sy("nil")
		}
		v = v.Elem()
	}
	name := v.Type().Name()
	switch v.Kind() {
	case reflect.Struct:
		return sl(append([]*Sx{sy(name)}, structFields(v)...)...)
	case reflect.Slice:
		if v.Type().Elem().Kind() == reflect.Uint8 { // RawPacket
			return sl(sy(name), sb(append([]byte(nil), v.Bytes()...)))
		}
		items := make([]*Sx, v.Len()) // CompoundPacket
		for i := range items {
			items[i] = toSx(v.Index(i))
		}
		return sl(sy(name), sl(items...))
	}
	return sl(sy(name), toSx(v))
}

func toSx(v reflect.Value) *Sx {
	switch v.Kind() {
	case reflect.Bool:
		return sbool(v.Bool())
	case reflect.Uint8, reflect.Uint16, reflect.Uint32, reflect.Uint64, reflect.Uint:
		return sn(v.Uint())
	case reflect.Int8, reflect.Int16, reflect.Int32, reflect.Int64, reflect.Int:
		return sz(v.Int())
	case reflect.Float32:
		return sn(uint64(math.Float32bits(float32(v.Float()))))
	case reflect.String:
		return sb([]byte(v.String()))
	case reflect.Slice:
		if v.Type().Elem().Kind() == reflect.Uint8 {
			return sb(append([]byte(nil), v.Bytes()...))
		}
		items := make([]*Sx, v.Len())
		for i := range items {
			items[i] = toSx(v.Index(i))
		}
		return sl(items...)
	case reflect.Struct:
		return sl(structFields(v)...)
	case reflect.Ptr:
		if v.IsNil() {
			return sy("nil")
		}
		return toSx(v.Elem())
	case reflect.Interface:
		if v.IsNil() {
			return sy("nil")
		}
		return toTagged(v.Elem())
	}
	return sy("unsupported-kind-" + v.Kind().String())
}

func packetSx(p rtcp.Packet) *Sx { return toTagged(reflect.ValueOf(p)) }

func packetsSx(ps []rtcp.Packet) *Sx {
	items := make([]*Sx, len(ps))
	for i, p := range ps {
		items[i] = packetSx(p)
	}
	return sl(items...)
}

// ---- the reverse direction ----

func fillStruct(v reflect.Value, items []*Sx) error {
	t := v.Type()
	k := 0
	for i := 0; i < v.NumField(); i++ {
		f := t.Field(i)
		if !f.IsExported() || (f.Anonymous && f.Type.Kind() == reflect.Interface) {
			continue
		}
		if k >= len(items) {
			return fmt.Errorf("%s: too few fields", t.Name())
		}
		if err := fromSx(v.Field(i), items[k]); err != nil {
			return fmt.Errorf("%s.%s: %w", t.Name(), f.Name, err)
		}
		k++
	}
	if k != len(items) {
		return fmt.Errorf("%s: too many fields", t.Name())
	}
	return nil
}

// fromTagged builds a pointer to a fresh value of the named type.
func fromTagged(s *Sx) (reflect.Value, error) {
	if s.K != 'l' || len(s.L) == 0 || s.L[0].K != 'y' {
		return reflect.Value{}, fmt.Errorf("expected (TypeName ...)")
	}
	t, ok := ifaceTypes[s.L[0].Y]
	if !ok {
		return reflect.Value{}, fmt.Errorf("unknown type %s", s.L[0].Y)
	}
	p := reflect.New(t)
	switch t.Kind() {
	case reflect.Struct:
		if err := fillStruct(p.Elem(), s.L[1:]); err != nil {
			return reflect.Value{}, err
		}
	case reflect.Slice:
		if len(s.L) != 2 {
			return reflect.Value{}, fmt.Errorf("%s: expected one field", t.Name())
		}
		if err := fromSx(p.Elem(), s.L[1]); err != nil {
			return reflect.Value{}, err
		}
	default:
		return reflect.Value{}, fmt.Errorf("unsupported tagged kind")
	}
	return p, nil
}

func fromSx(v reflect.Value, s *Sx) error {
	switch v.Kind() {
	case reflect.Bool:
		if s.isSym("#t") {
			v.SetBool(true)
		} else if s.isSym("#f") {
			v.SetBool(false)
		} else {
			return fmt.Errorf("expected bool")
		}
	case reflect.Uint8, reflect.Uint16, reflect.Uint32, reflect.Uint64, reflect.Uint:
		if s.K != 'n' || !s.N.IsUint64() || v.OverflowUint(s.N.Uint64()) {
			return fmt.Errorf("expected uint of %d bits", v.Type().Bits())
		}
		v.SetUint(s.N.Uint64())
	case reflect.Int8, reflect.Int16, reflect.Int32, reflect.Int64, reflect.Int:
		if (s.K != 'z' && s.K != 'n') || !s.N.IsInt64() || v.OverflowInt(s.N.Int64()) {
			return fmt.Errorf("expected int")
		}
		v.SetInt(s.N.Int64())
	case reflect.Float32:
		if s.K != 'n' || !s.N.IsUint64() || s.N.Uint64() > math.MaxUint32 {
			return fmt.Errorf("expected float32 bits")
		}
		v.SetFloat(float64(math.Float32frombits(uint32(s.N.Uint64()))))
	case reflect.String:
		if s.K != 'b' {
			return fmt.Errorf("expected bytes for string")
		}
		v.SetString(string(s.B))
	case reflect.Slice:
		if v.Type().Elem().Kind() == reflect.Uint8 {
			if s.K != 'b' {
				return fmt.Errorf("expected bytes")
			}
			if len(s.B) == 0 {
				v.Set(reflect.Zero(v.Type()))
			} else {
				v.SetBytes(trackedBytes(s.B))
			}
			return nil
		}
		if s.K != 'l' {
			return fmt.Errorf("expected list")
		}
		if len(s.L) == 0 {
			v.Set(reflect.Zero(v.Type()))
			return nil
		}
		out := reflect.MakeSlice(v.Type(), len(s.L), len(s.L)+int((capSalt>>2)%4))
		for i, x := range s.L {
			if err := fromSx(out.Index(i), x); err != nil {
				return err
			}
		}
		v.Set(out)
	case reflect.Struct:
		if s.K != 'l' {
			return fmt.Errorf("expected list for struct")
		}
		return fillStruct(v, s.L)
	case reflect.Ptr:
		p := reflect.New(v.Type().Elem())
		if err := fromSx(p.Elem(), s); err != nil {
			return err
		}
		v.Set(p)
	case reflect.Interface:
		p, err := fromTagged(s)
		if err != nil {
			return err
		}
		// use the pointer when it implements the interface (all packet and block types do),
		// otherwise the value
		if p.Type().Implements(v.Type()) {
			v.Set(p)
		} else if p.Elem().Type().Implements(v.Type()) {
			v.Set(p.Elem())
		} else {
			return fmt.Errorf("%s does not implement %s", p.Type(), v.Type())
		}
	default:
		return fmt.Errorf("unsupported kind %s", v.Kind())
	}
	return nil
}

// packetFrom parses (TypeName ...) into a rtcp.Packet (pointer receiver form).
func packetFrom(s *Sx) (rtcp.Packet, error) {
	h := fnv.New64a()
	h.Write([]byte(s.String()))
	capSalt = h.Sum64() >> 7
	p, err := fromTagged(s)
	if err != nil {
		return nil, err
	}
	pk, ok := p.Interface().(rtcp.Packet)
	if !ok {
		return nil, fmt.Errorf("%s is not a Packet", p.Type())
	}
	return pk, nil
}

func packetsFrom(s *Sx) ([]rtcp.Packet, error) {
	if s.K != 'l' {
		return nil, fmt.Errorf("expected list of packets")
	}
	out := make([]rtcp.Packet, 0, len(s.L))
	for _, x := range s.L {
		p, err := packetFrom(x)
		if err != nil {
			return nil, err
		}
		out = append(out, p)
	}
	return out, nil
}
