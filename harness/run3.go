package main

// Operations on decoded values and reused memory: dec2 (a receiver that already holds a value), scribble (the caller
// reuses its buffer after decoding), dhist (histories of operations on the packets a datagram decodes to).

import (
	"bytes"
	"fmt"
	"reflect"

	"github.com/pion/rtcp"
)

// unmarshalInto runs the Unmarshal of whatever p points to (packet types, exported sub-structures, hooked units).
func unmarshalInto(p reflect.Value, b []byte) (err error, handled bool) {
	switch x := p.Interface().(type) {
	case rtcp.Packet:
		return x.Unmarshal(b), true
	case *rtcp.Header:
		return x.Unmarshal(b), true
	case *rtcp.ReceptionReport:
		return x.Unmarshal(b), true
	case *rtcp.SourceDescriptionChunk:
		return x.Unmarshal(b), true
	case *rtcp.SourceDescriptionItem:
		return x.Unmarshal(b), true
	case *rtcp.RunLengthChunk:
		return x.Unmarshal(b), true
	case *rtcp.StatusVectorChunk:
		return x.Unmarshal(b), true
	case *rtcp.RecvDelta:
		return x.Unmarshal(b), true
	}
	handled, err = hookUnmarshal(p.Interface(), b)
	return err, handled
}

// dec2Obs decodes b1 and then b2 into the same receiver.
func dec2Obs(name string, b1, b2 []byte) *Sx {
	p, ok := newByName(name)
	if !ok {
		return unsupported
	}
	class := func(f func() *Sx) *Sx { return guard(f) }
	first := class(func() *Sx {
		err, handled := unmarshalInto(p, padcap(b1))
		if !handled {
			return sy("unsupported")
		}
		if err != nil {
			return sy("err")
		}
		return sy("ok")
	})
	if first.K == 'l' { // (panic)
		first = sy("panic")
	}
	second := guard(func() *Sx {
		err, handled := unmarshalInto(p, padcap(b2))
		if !handled {
			return unsupported
		}
		if err != nil {
			return resErr()
		}
		return resOk(toTagged(p))
	})
	return sl(sl(sy("first"), first), sl(sy("second"), second))
}

// scribbleObs decodes from a private buffer, overwrites the buffer, and then looks at the value.
func scribbleObs(name string, b []byte) *Sx {
	p, ok := newByName(name)
	if !ok {
		return unsupported
	}
	x, isPacket := p.Interface().(rtcp.Packet)
	if !isPacket {
		return unsupported
	}
	buf := padcap(b)
	none := sy("none")
	d := guard(func() *Sx {
		if err := x.Unmarshal(buf); err != nil {
			return resErr()
		}
		return resOk(packetSx(x))
	})
	if !isOk(d) {
		return sl(sl(sy("dec"), d), sl(sy("after"), none), sl(sy("marshal"), none))
	}
	full := buf[:cap(buf)]
	for i := range full {
		full[i] = 0x5A
	}
	after := guard(func() *Sx { return packetSx(x) })
	m := guard(func() *Sx { return bytesRes(x.Marshal()) })
	return sl(sl(sy("dec"), d), sl(sy("after"), after), sl(sy("marshal"), m))
}

// dhistObs: a datagram is decoded inside a sentinel-framed buffer and a history of operations runs on the packets.
func dhistObs(b []byte, ops []*Sx) *Sx {
	back := make([]byte, len(b)+48)
	for i := range back {
		back[i] = 0xA5
	}
	copy(back[8:], b)
	before := append([]byte(nil), back...)
	in := back[8 : 8+len(b) : 8+len(b)+40] // spare capacity: an append through an aliasing slice lands in the sentinel
	var ps []rtcp.Packet
	d := guard(func() *Sx {
		var err error
		ps, err = rtcp.Unmarshal(in)
		return packetsRes(ps, err)
	})
	if !isOk(d) {
		return sl(sl(sy("dec"), d))
	}
	results := make([]*Sx, 0, len(ops))
	var kept []keptSlice
	for _, o := range ops {
		var res *Sx
		switch o.Y {
		case "marshal":
			res = guard(func() *Sx {
				out, err := rtcp.Marshal(ps)
				if err == nil {
					kept = append(kept, keptSlice{out, append([]byte(nil), out...)})
				}
				return bytesRes(append([]byte(nil), out...), err)
			})
		case "marshalrev":
			res = guard(func() *Sx {
				rev := make([]rtcp.Packet, len(ps))
				for i, p := range ps {
					rev[len(ps)-1-i] = p
				}
				out, err := rtcp.Marshal(rev)
				if err == nil {
					kept = append(kept, keptSlice{out, append([]byte(nil), out...)})
				}
				return bytesRes(append([]byte(nil), out...), err)
			})
		case "each":
			rs := make([]*Sx, len(ps))
			for i, p := range ps {
				p := p
				rs[i] = guard(func() *Sx {
					out, err := p.Marshal()
					return bytesRes(append([]byte(nil), out...), err)
				})
			}
			res = sl(rs...)
		case "size":
			res = guard(func() *Sx {
				rs := make([]*Sx, len(ps))
				for i, p := range ps {
					rs[i] = sn(uint64(int64(p.MarshalSize())))
				}
				return sl(rs...)
			})
		case "dest":
			res = guard(func() *Sx {
				rs := make([]*Sx, len(ps))
				for i, p := range ps {
					rs[i] = destSx(p.DestinationSSRC())
				}
				return sl(rs...)
			})
		case "string":
			res = guard(func() *Sx {
				for _, p := range ps {
					if s, ok := p.(fmt.Stringer); ok {
						_ = s.String()
					} else {
						_ = fmt.Sprintf("%v", p)
					}
				}
				return sl(sy("ok"))
			})
		default:
			res = unsupported
		}
		results = append(results, res)
	}
	final := guard(func() *Sx { return packetsSx(ps) })
	return sl(sl(sy("dec"), d), sl(sy("results"), sl(results...)), sl(sy("final"), final),
		sl(sy("input"), sbool(bytes.Equal(before, back))), sl(sy("stable"), sbool(keptStable(kept))))
}
