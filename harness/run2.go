package main

import (
	"bytes"
	"fmt"
	"strings"

	"github.com/pion/rtcp"
)

func variantObs(name string, b []byte) *Sx {
	own := decByName(name, append([]byte(nil), b...))
	dg := guard(func() *Sx { return packetsRes(rtcp.Unmarshal(append([]byte(nil), b...))) })
	return sl(sl(sy("own"), own), sl(sy("dgram"), dg))
}

func stringOf(p interface{}) (out *Sx) {
	defer func() {
		if r := recover(); r != nil {
			out = resPanic()
		}
	}()
	if s, ok := p.(fmt.Stringer); ok {
		_ = s.String()
	}
	for _, f := range []string{"%v", "%+v", "%s"} {
		if strings.Contains(fmt.Sprintf(f, p), "(PANIC=") {
			return resPanic()
		}
	}
	return sl(sy("ok"))
}

func strEnum(kind string, n uint64) *Sx {
	switch kind {
	case "PacketType":
		return stringOf(rtcp.PacketType(n))
	case "SDESType":
		return stringOf(rtcp.SDESType(n))
	case "BlockTypeType":
		return stringOf(rtcp.BlockTypeType(n))
	case "TTLorHopLimitType":
		return stringOf(rtcp.TTLorHopLimitType(n))
	case "ChunkType":
		return stringOf(rtcp.ChunkType(n))
	case "Chunk":
		return stringOf(rtcp.Chunk(n))
	}
	return unsupported
}

func strDec(b []byte) *Sx {
	var ps []rtcp.Packet
	d := guard(func() *Sx {
		var err error
		ps, err = rtcp.Unmarshal(b)
		if err != nil {
			return resErr()
		}
		return sl(sy("ok"))
	})
	if !d.L[0].isSym("ok") {
		return d
	}
	for _, p := range ps {
		if r := stringOf(p); !r.L[0].isSym("ok") {
			return r
		}
	}
	if r := stringOf(rtcp.CompoundPacket(ps)); !r.L[0].isSym("ok") {
		return r
	}
	return sl(sy("ok"))
}

// histObs runs a sequence of read-only operations on one packet value.
func histObs(p rtcp.Packet, ops []*Sx) *Sx {
	isXR := containsXR(p)
	results := make([]*Sx, 0, len(ops))
	seen := map[string]string{}
	consistent := true
	marshalled := false
	var kept []keptSlice
	for _, o := range ops {
		var res *Sx
		full := ""
		switch o.Y {
		case "marshal":
			res = guard(func() *Sx {
				out, err := p.Marshal()
				if err == nil {
					kept = append(kept, keptSlice{out, append([]byte(nil), out...)})
				}
				return bytesRes(out, err)
			})
			marshalled = true
		case "size":
			res = guard(func() *Sx { return sn(uint64(int64(p.MarshalSize()))) })
		case "dest":
			res = guard(func() *Sx { return destSx(p.DestinationSSRC()) })
		case "string":
			res = guard(func() *Sx {
				if s, ok := p.(fmt.Stringer); ok {
					full = s.String()
				} else {
					full = fmt.Sprintf("%v", p)
				}
				return sl(sy("ok"))
			})
		case "header":
			res = guard(func() *Sx {
				if h, ok := p.(interface{ Header() rtcp.Header }); ok {
					return headerSx(h.Header())
				}
				return sy("none")
			})
		case "len":
			res = guard(func() *Sx {
				switch x := p.(type) {
				case *rtcp.TransportLayerCC:
					return sn(uint64(x.Len()))
				case *rtcp.CCFeedbackReport:
					return sn(uint64(int64(x.Len())))
				}
				return sy("none")
			})
		default:
			res = unsupported
		}
		key := o.Y
		if isXR && o.Y == "string" && !marshalled {
			key = "string-before-marshal" // the documented exception: Marshal fills in the block headers
		}
		cur := res.String() + "|" + full
		if prev, ok := seen[key]; ok && prev != cur {
			consistent = false
		}
		seen[key] = cur
		results = append(results, res)
	}
	return sl(sl(sy("results"), sl(results...)), sl(sy("consistent"), sbool(consistent)), sl(sy("final"), packetSx(p)),
		sl(sy("backing"), sbool(spareUntouched())), sl(sy("stable"), sbool(keptStable(kept))))
}

// keptSlice: a slice a Marshal call returned, held on to (not copied) while later calls run, and its content at the time.
// A result that changes afterwards shares memory with something a later call writes to (a pooled or cached buffer).
type keptSlice struct{ raw, snap []byte }

func keptStable(k []keptSlice) bool {
	for _, x := range k {
		if !bytes.Equal(x.raw, x.snap) {
			return false
		}
	}
	return true
}

// containsXR: ExtendedReport.Marshal fills in its blocks' header fields (documented), so String() of a
// packet holding an XR may legitimately differ before and after the first Marshal.
func containsXR(p rtcp.Packet) bool {
	switch x := p.(type) {
	case *rtcp.ExtendedReport:
		return true
	case *rtcp.CompoundPacket:
		for _, q := range *x {
			if containsXR(q) {
				return true
			}
		}
	}
	return false
}

func inbufObs(b []byte) *Sx {
	// the buffer sits inside a larger array so that writes past len are seen too
	back := make([]byte, len(b)+16)
	for i := range back {
		back[i] = 0xA5
	}
	copy(back[8:], b)
	before := append([]byte(nil), back...)
	in := back[8 : 8+len(b) : 8+len(b)+8]
	guard(func() *Sx {
		// decode, then use the decoded packets (they may alias the input): none of it may write to the buffer
		ps, err := rtcp.Unmarshal(in)
		if err == nil {
			for _, p := range ps {
				p := p
				guard(func() *Sx {
					_, _ = p.Marshal()
					_ = p.MarshalSize()
					_ = p.DestinationSSRC()
					_ = stringOf(p)
					return nil
				})
			}
			guard(func() *Sx { _, _ = rtcp.Marshal(ps); return nil })
		}
		return nil
	})
	for _, name := range []string{"CompoundPacket"} {
		decByNameNoCopy(name, in)
	}
	return sl(sy("unchanged"), sbool(bytes.Equal(before, back)))
}

func decByNameNoCopy(name string, b []byte) {
	p, ok := newByName(name)
	if !ok {
		return
	}
	guard(func() *Sx {
		if x, ok := p.Interface().(rtcp.Packet); ok {
			_ = x.Unmarshal(b)
		}
		return nil
	})
}

func runOp2(name string, a []*Sx) *Sx {
	switch name {
	case "variant":
		if len(a) == 3 && a[0].K == 'y' && a[1].K == 'b' {
			return variantObs(a[0].Y, a[1].B)
		}
	case "decs":
		if len(a) == 2 && a[0].K == 'y' && a[1].K == 'l' {
			out := make([]*Sx, len(a[1].L))
			for i, x := range a[1].L {
				if x.K != 'b' {
					return unsupported
				}
				out[i] = decByName(a[0].Y, append([]byte(nil), x.B...))
			}
			return sl(out...)
		}
	case "str":
		if p, err := packetFrom(a[0]); err == nil && len(a) == 1 {
			return stringOf(p)
		}
	case "strdec":
		if len(a) == 1 && a[0].K == 'b' {
			return strDec(append([]byte(nil), a[0].B...))
		}
	case "strenum":
		if len(a) == 2 && a[0].K == 'y' {
			if n, ok := num(a[1], 65535); ok {
				return strEnum(a[0].Y, n)
			}
		}
	case "hist":
		if len(a) == 2 && a[1].K == 'l' {
			if p, err := packetFrom(a[0]); err == nil {
				return histObs(p, a[1].L)
			}
		}
	case "inbuf":
		if len(a) == 1 && a[0].K == 'b' {
			return inbufObs(a[0].B)
		}
	case "dec2":
		if len(a) == 3 && a[0].K == 'y' && a[1].K == 'b' && a[2].K == 'b' {
			return dec2Obs(a[0].Y, a[1].B, a[2].B)
		}
	case "scribble":
		if len(a) == 2 && a[0].K == 'y' && a[1].K == 'b' {
			return scribbleObs(a[0].Y, a[1].B)
		}
	case "dhist":
		if len(a) == 2 && a[0].K == 'b' && a[1].K == 'l' {
			return dhistObs(a[0].B, a[1].L)
		}
	}
	return unsupported
}
