package main

import (
	"fmt"
	"math/big"
	"strings"
)

// Sx is an S-expression: exactly one of the fields is meaningful, selected by K.
type Sx struct {
	K byte // 'n' natural, 'z' signed, 'b' bytes, 'y' symbol, 'l' list
	N *big.Int
	B []byte
	Y string
	L []*Sx
}

func sn(x uint64) *Sx     { return &Sx{K: 'n', N: new(big.Int).SetUint64(x)} }
func sz(x int64) *Sx      { return &Sx{K: 'z', N: big.NewInt(x)} }
func sb(b []byte) *Sx     { return &Sx{K: 'b', B: b} }
func sy(s string) *Sx     { return &Sx{K: 'y', Y: s} }
func sl(items ...*Sx) *Sx { return &Sx{K: 'l', L: items} }
func sbool(b bool) *Sx {
	if b {
		return sy("#t")
	}
	return sy("#f")
}

const hexdigits = "0123456789abcdef"

func (s *Sx) write(w *strings.Builder) {
	switch s.K {
	case 'n':
		w.WriteString(s.N.String())
	case 'z':
		if s.N.Sign() >= 0 {
			w.WriteByte('+')
		}
		w.WriteString(s.N.String())
	case 'b':
		w.WriteByte('x')
		for _, c := range s.B {
			w.WriteByte(hexdigits[c>>4])
			w.WriteByte(hexdigits[c&15])
		}
	case 'y':
		w.WriteString(s.Y)
	case 'l':
		w.WriteByte('(')
		for i, x := range s.L {
			if i > 0 {
				w.WriteByte(' ')
			}
			x.write(w)
		}
		w.WriteByte(')')
	}
}

func (s *Sx) String() string {
	var w strings.Builder
	s.write(&w)
	return w.String()
}

func isDigits(s string) bool {
	if len(s) == 0 {
		return false
	}
	for i := 0; i < len(s); i++ {
		if s[i] < '0' || s[i] > '9' {
			return false
		}
	}
	return true
}

func hexv(c byte) int {
	switch {
	case c >= '0' && c <= '9':
		return int(c - '0')
	case c >= 'a' && c <= 'f':
		return int(c-'a') + 10
	case c >= 'A' && c <= 'F':
		return int(c-'A') + 10
	}
	return -1
}

func atom(tok string) *Sx {
	if isDigits(tok) {
		n, _ := new(big.Int).SetString(tok, 10)
		return &Sx{K: 'n', N: n}
	}
	if (tok[0] == '-' || tok[0] == '+') && isDigits(tok[1:]) {
		n, _ := new(big.Int).SetString(tok, 10)
		return &Sx{K: 'z', N: n}
	}
	if tok[0] == 'x' && (len(tok)-1)%2 == 0 {
		ok := true
		out := make([]byte, 0, (len(tok)-1)/2)
		for i := 1; i+1 < len(tok); i += 2 {
			a, b := hexv(tok[i]), hexv(tok[i+1])
			if a < 0 || b < 0 {
				ok = false
				break
			}
			out = append(out, byte(a*16+b))
		}
		if ok {
			return sb(out)
		}
	}
	return sy(tok)
}

// parseSx parses one expression from a line.
func parseSx(line string) (*Sx, error) {
	pos := 0
	var value func() (*Sx, error)
	skip := func() {
		for pos < len(line) && (line[pos] == ' ' || line[pos] == '\t' || line[pos] == '\r' || line[pos] == '\n') {
			pos++
		}
	}
	value = func() (*Sx, error) {
		skip()
		if pos >= len(line) {
			return nil, fmt.Errorf("eof")
		}
		if line[pos] == '(' {
			pos++
			out := &Sx{K: 'l'}
			for {
				skip()
				if pos >= len(line) {
					return nil, fmt.Errorf("unclosed")
				}
				if line[pos] == ')' {
					pos++
					return out, nil
				}
				v, err := value()
				if err != nil {
					return nil, err
				}
				out.L = append(out.L, v)
			}
		}
		start := pos
		for pos < len(line) && line[pos] != ' ' && line[pos] != '(' && line[pos] != ')' && line[pos] != '\t' && line[pos] != '\n' && line[pos] != '\r' {
			pos++
		}
		return atom(line[start:pos]), nil
	}
	v, err := value()
	if err != nil {
		return nil, err
	}
	skip()
	if pos < len(line) {
		return nil, fmt.Errorf("trailing input")
	}
	return v, nil
}

func (s *Sx) isSym(y string) bool { return s != nil && s.K == 'y' && s.Y == y }
