# developer helper: after tools/corr.sh or tools/seedrun.sh, count the failing cases of a property that no open known finding covers.  usage: kfcheck.py C05 [C15 ...]
import json,re,sys
kf=json.load(open('/verif/known_findings.json')); fs=[]
def walk(x,acc):
    if isinstance(x,dict):
        if 'signature' in x: acc.append(x)
        for v in x.values(): walk(v,acc)
    elif isinstance(x,list):
        for v in x: walk(v,acc)
walk(kf,fs)
def atoms(s): return re.findall(r'[^\s()]+',s)
for prop in sys.argv[1:]:
    chk={}
    for l in open('/verif/.work/det/chk_%s.sexp'%prop):
        m=re.match(r'\(chk (\d+) ',l)
        if m: chk[m.group(1)]=l
    un=0; tot=0
    for l in open('/verif/.work/det/ver_%s.sexp'%prop):
        m=re.match(r'\(verdict (\d+) \(fail (.*)\)\)\s*$',l)
        if not m: continue
        tot+=1
        sig=atoms(m.group(2)); op=chk[m.group(1)]
        ok=any(f['property']==prop and f.get('status')=='open' and all(a in sig for a in f['signature']) and (not f.get('input_predicate') or re.search(f['input_predicate'],op)) for f in fs)
        if not ok:
            un+=1
            if un<=2: print(prop,'UNMATCHED',sig, re.sub(r'x[0-9a-f]{100,}','xBIG',op)[:400])
    print(prop,'fails',tot,'unmatched',un)
