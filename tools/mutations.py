#!/usr/bin/env python3
"""Sensitivity self-test (DESIGN.md Appendix C): single-edit mutations of /repo, each expected to be reported by
the named property's check ("must") or to stay green ("harmless").
usage: mutations.py verify            apply each in a scratch worktree: compiles? suite passes? (drops the ones that do not)
       mutations.py run [ids...]      apply to /repo one at a time, run the property's check (correspondence part unless --full), undo"""
import json, os, subprocess, sys
ENV=dict(os.environ, GOFLAGS="-mod=mod", GOPROXY="off", GOSUMDB="off", GOTOOLCHAIN="local")
M=[
 # id, file, old, new, expected properties, kind
 (1,'header.go','countMask    = 0x1f','countMask    = 0x0f',['C16','C04'],'must'),
 (2,'header.go','if h.Count > 31 {','if h.Count > 32 {',['C16','C08'],'must'),
 (3,'header.go','versionShift = 6','versionShift = 5',['C03','C16'],'must'),
 (4,'packet.go','if bytesprocessed > len(rawData) {','if bytesprocessed >= len(rawData) {',['C06','C02'],'must'),
 (5,'packet.go','''		case FormatPLI:
			packet = new(PictureLossIndication)''','''		case FormatFIR:
			packet = new(PictureLossIndication)''',['C07'],'must-skip'),
 (7,'sender_report.go','srHeaderLength      = 24','srHeaderLength      = 20',['C03'],'must'),
 (8,'sender_report.go','if rrEnd > len(packetBody) {','if rrEnd >= len(packetBody) {',['C04','C02'],'must'),
 (9,'sender_report.go','''	if len(r.Reports) > countMax {
		return nil, errTooManyReports
	}

	copy(packetBody[offset:], r.ProfileExtensions)''','''	copy(packetBody[offset:], r.ProfileExtensions)''',['C08'],'must'),
 (10,'reception_report.go','tlBytes[0] = byte(r.TotalLost >> 16)','tlBytes[0] = byte(r.TotalLost >> 15)',['C03','C16'],'must'),
 (11,'reception_report.go','''	jitterOffset          = 12
	lastSROffset          = 16''','''	jitterOffset          = 16
	lastSROffset          = 12''',['C03'],'must'),
 (12,'receiver_report.go','len(r.Reports) < int(h.Count); i += receptionReportLength','len(r.Reports) <= int(h.Count); i += receptionReportLength',['C04','C02'],'must'),
 (13,'source_description.go','sdesMaxOctetCount    = (1 << 8) - 1','sdesMaxOctetCount    = (1 << 8)',['C08'],'must'),
 (15,'source_description.go','''	if s.Type == SDESEnd {
		return nil, errSDESMissingType
	}
''','',['C08'],'must'),
 (16,'goodbye.go','if reasonOffset > len(rawPacket) {','if reasonOffset >= len(rawPacket) {',['C04','C02'],'must'),
 (18,'application_defined.go','if paddingSize > len(rawPacket)-12 {','if paddingSize >= len(rawPacket)-12 {',['C04'],'must'),
 (19,'application_defined.go','Padding: paddingSize != 0,','Padding: false,',['C03','C02'],'must'),
 (20,'transport_layer_nack.go','if m-nackPair.PacketID > 16 {','if m-nackPair.PacketID > 17 {',['C12'],'must'),
 (21,'transport_layer_nack.go','nackPair.LostPackets |= 1 << (m - nackPair.PacketID - 1)','nackPair.LostPackets |= 1 << (m - nackPair.PacketID)',['C12'],'must'),
 (22,'transport_layer_nack.go','more = f(n.PacketID + i + 1)','more = f(n.PacketID + i)',['C12'],'must'),
 (23,'transport_layer_nack.go','''			more = f(n.PacketID + i + 1)
			if !more {
				return
			}''','''			more = f(n.PacketID + i + 1)''',['C12'],'must'),
 (24,'picture_loss_indication.go','if h.Type != TypePayloadSpecificFeedback || h.Count != FormatPLI {','if h.Type != TypePayloadSpecificFeedback {',['C07'],'must'),
 (25,'slice_loss_indication.go','sli := ((uint32(s.First) & 0x1FFF) << 19) |','sli := ((uint32(s.First) & 0x1FFF) << 18) |',['C16','C02'],'must'),
 (27,'transport_layer_cc.go','packetNumberToProcess := localMin(t.PacketStatusCount-processedPacketNum, packetStatus.RunLength)','packetNumberToProcess := packetStatus.RunLength',['C13','C04'],'must'),
 (28,'transport_layer_cc.go','if recvDeltasPos+2 > totalLength {','if recvDeltasPos+2 >= totalLength {',['C02','C13'],'must'),
 (29,'transport_layer_cc.go','TypeTCCDeltaScaleFactor = 250','TypeTCCDeltaScaleFactor = 256',['C13'],'must'),
 (30,'transport_layer_cc.go','r.Delta = TypeTCCDeltaScaleFactor * int64(int16(binary.BigEndian.Uint16(rawPacket)))','r.Delta = TypeTCCDeltaScaleFactor * int64(binary.BigEndian.Uint16(rawPacket))',['C13','C16'],'must'),
 (32,'rfc8888.go','maxMetricBlocks = 16384','maxMetricBlocks = 16383',['C08'],'must'),
 (34,'rfc8888.go','b.Received = rawPacket[0]&0x80 != 0','b.Received = rawPacket[0]&0x40 != 0',['C16','C04'],'must'),
 (35,'receiver_estimated_maximum_bitrate.go','exp += 127 // bias for IEEE754','exp += 126 // bias for IEEE754',['C14'],'must'),
 (36,'receiver_estimated_maximum_bitrate.go','for bitrate >= (1 << 18) {','for bitrate > (1 << 18) {',['C14'],'must'),
 (37,'receiver_estimated_maximum_bitrate.go','''	if size != 20+4*num {
		return errSSRCNumAndLengthMismatch
	}
''','',['C14','C01'],'must'),
 (38,'extended_report.go','''func (b *LossRLEReportBlock) setupBlockHeader() {
	b.XRHeader.BlockType = LossRLEReportBlockType
	b.XRHeader.TypeSpecific = TypeSpecificField(b.T & 0x0F)''','''func (b *LossRLEReportBlock) setupBlockHeader() {
	b.XRHeader.BlockType = LossRLEReportBlockType
	b.XRHeader.TypeSpecific = TypeSpecificField(b.T & 0x07)''',['C15'],'must'),
 (39,'extended_report.go','''	SSRC     uint32 `fmt:"0x%X"`
	BeginSeq uint16
	EndSeq   uint16
	Chunks   []Chunk''','''	SSRC     uint32 `fmt:"0x%X"`
	EndSeq   uint16
	BeginSeq uint16
	Chunks   []Chunk''',['C15','C03'],'must'),
 (42,'packet_buffer.go','''	if size > len(b.bytes) {
		size = len(b.bytes)
	}
''','',['C01'],'must'),
 (43,'compound_packet.go','''		case *ReceiverReport:
			continue
''','''		case *ReceiverReport, *SenderReport:
			continue
''',['C11'],'must'),
 (45,'full_intra_request.go','ssrcs = append(ssrcs, entry.SSRC)','ssrcs = append(ssrcs, p.MediaSSRC)',['C10'],'must'),
 (47,'receiver_report.go','''	rawPacket := make([]byte, r.MarshalSize())
	packetBody := rawPacket[headerLength:]

	binary.BigEndian.PutUint32(packetBody, r.SSRC)
''','''	rawPacket := make([]byte, r.MarshalSize())
	packetBody := rawPacket[headerLength:]

	if len(r.Reports) > 1 && r.Reports[0].SSRC > r.Reports[1].SSRC {
		r.Reports[0], r.Reports[1] = r.Reports[1], r.Reports[0]
	}
	binary.BigEndian.PutUint32(packetBody, r.SSRC)
''',['C18'],'must'),
 (49,'receiver_estimated_maximum_bitrate.go','powers < len(bitUnits)-1 {','powers < len(bitUnits) {',['C17'],'must'),
 # reverting the repairs must be reported as well
 (61,'slice_loss_indication.go','if len(rawPacket) < (headerLength + sliOffset) {','if len(rawPacket) < (headerLength + ssrcLength) {',['C01'],'must'),
 (62,'transport_layer_cc.go','processedPacketNum += localMin(t.PacketStatusCount-processedPacketNum, uint16(len(packetStatus.SymbolList)))','processedPacketNum += uint16(len(packetStatus.SymbolList))',['C01','C13'],'must'),
 (63,'transport_layer_cc.go','if packetStatusPos+packetStatusChunkLength > totalLength {','if packetStatusPos+packetStatusChunkLength >= totalLength {',['C13','C02'],'must'),
 (64,'extended_report.go','return headerLength + wireSize(x)','return wireSize(x)',['C05'],'must'),
 (65,'application_defined.go','''	if header.Type != TypeApplicationDefined {
		return errWrongType
	}

''','',['C07'],'must'),
 # harmless rewrites: every property still holds
 (101,'picture_loss_indication.go','return errPacketTooShort','return errBadLength',['C01','C07'],'harmless'),
 (105,'transport_layer_nack.go','if m-nackPair.PacketID > 16 {','if m-nackPair.PacketID >= 16 {',['C12'],'harmless'),
 (106,'goodbye.go','''	out := make([]uint32, len(g.Sources))
	copy(out, g.Sources)
	return out''','''	return g.Sources''',['C10','C18'],'harmless'),
 (108,'raw_packet.go','*r = b','*r = append([]byte(nil), b...)',['C06','C18'],'harmless'),
 (112,'transport_layer_nack.go','if 4*h.Length <= nackOffset {','if 4*h.Length < nackOffset {',['C01','C02'],'harmless'),
]
def sh(c,cwd=None,timeout=1200):
    return subprocess.run(c,cwd=cwd,shell=True,capture_output=True,text=True,env=ENV,timeout=timeout)
def apply(root,m):
    p=os.path.join(root,m[1]); s=open(p).read()
    if m[2] not in s: return False
    open(p,'w').write(s.replace(m[2],m[3],1)); return True
if __name__=='__main__':
    mode=sys.argv[1] if len(sys.argv)>1 else 'verify'
    if mode=='verify':
        wt='/tmp/mutwt'
        sh('git -C /repo worktree add -q %s HEAD'%wt)
        ok=[]
        for m in M:
            if not apply(wt,m): print(m[0],'NO-MATCH'); continue
            b=sh('go build ./... && go build -tags verif ./...',cwd=wt)
            t=sh('go test -vet=off -count=1 ./... 2>&1 | tail -1',cwd=wt) if b.returncode==0 else None
            print(m[0], m[5], 'build', b.returncode==0, 'suite', (t.stdout.strip()[:40] if t else '-'))
            if b.returncode==0 and t and t.stdout.startswith('ok'): ok.append(m[0])
            sh('git checkout -q -- .',cwd=wt)
        sh('git -C /repo worktree remove --force %s'%wt)
        json.dump(ok,open('/verif/tools/mutations_ok.json','w')); print('usable:',ok)
    else:
        ids=[int(x) for x in sys.argv[2:] if x.isdigit()] or json.load(open('/verif/tools/mutations_ok.json'))
        full='--full' in sys.argv
        res={}
        for m in M:
            if m[0] not in ids: continue
            assert apply('/repo',m)
            sh('go build -tags verif -o harness . || go build -o harness .',cwd='/verif/harness')
            out=[]
            for pr in m[4]:
                if full:
                    r=sh('bin/check %s --tier quick'%pr,cwd='/verif',timeout=3000)
                    red = r.returncode!=0
                    det=[l for l in r.stdout.splitlines() if l.startswith('VIOLATION')][:1]
                else:
                    r=sh('HEAD=0 tools/corr.sh %s quick 1'%pr,cwd='/verif',timeout=3000)
                    line=r.stdout.splitlines()[0] if r.stdout else ''
                    import re
                    mm=re.search(r'diff=(\d+) fail=(\d+)',line)
                    # known findings produce fails on the clean tree too: compare with the baseline counts
                    base=json.load(open('/verif/tools/baseline_counts.json')).get(pr,[0,0]) if os.path.exists('/verif/tools/baseline_counts.json') else [0,0]
                    d,f=(int(mm.group(1)),int(mm.group(2))) if mm else (-1,-1)
                    red = d>base[0] or f>base[1] or d<0
                    det=[line[:160]]
                out.append((pr,red,det))
            sh('git -C /repo checkout -- .')
            res[m[0]]=out
            verdict = any(o[1] for o in out)
            good = verdict if m[5].startswith('must') else not verdict
            print(m[0], m[5], 'OK' if good else 'MISSED' if m[5].startswith('must') else 'FALSE-ALARM', [(o[0],o[1]) for o in out], flush=True)
        sh('go build -tags verif -o harness .',cwd='/verif/harness')
