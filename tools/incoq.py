#!/usr/bin/env python3
"""Cross-check of extraction: evaluates sampled (chk ...) lines with vm_compute INSIDE Coq (Check.Verdict.check_case) and compares the
verdict kinds with what the extracted OCaml runner answered.  usage: incoq.py <chk-file> <verdict-file> <n> -> prints JSON"""
import sys, re, json, subprocess, os, random
sys.path.insert(0, '/verif/bin')
def parse_sx(s):
    pos=0; n=len(s)
    def val():
        nonlocal pos
        while pos<n and s[pos] in " \t\r\n": pos+=1
        if s[pos]=="(":
            pos+=1; out=[]
            while True:
                while pos<n and s[pos] in " \t\r\n": pos+=1
                if s[pos]==")": pos+=1; return out
                out.append(val())
        st=pos
        while pos<n and s[pos] not in " ()\t\r\n": pos+=1
        return s[st:pos]
    return val()
def coq(x):
    if isinstance(x,list): return "SL ["+"; ".join(coq(i) for i in x)+"]"
    if re.fullmatch(r"\d+",x): return "SN %s"%x
    if re.fullmatch(r"[+-]\d+",x): return "SZ (%s)%%Z"%x.lstrip('+')
    if re.fullmatch(r"x([0-9a-f]{2})*",x): return "SB ["+"; ".join('"%s"%%byte'%('\\x'+x[i:i+2]) if False else "x"+x[i:i+2] for i in range(1,len(x),2))+"]"
    return 'SY "%s"'%x
def main():
    chkf,verf,n=sys.argv[1],sys.argv[2],int(sys.argv[3])
    kinds={}
    for l in open(verf):
        m=re.match(r"\(verdict (\d+) (\(?\w+)",l)
        if m:
            k=m.group(2).lstrip('(')
            kinds[m.group(1)]={'pass':0,'trivial':1,'diff':2,'fail':3,'unsupported':4}.get(k,5)
    lines=[l for l in open(chkf) if l.startswith('(chk ') and len(l)<1500]
    random.Random(1).shuffle(lines)
    lines=lines[:n]
    ids=[re.match(r"\(chk (\d+) ",l).group(1) for l in lines]
    terms=[coq(parse_sx(l)) for l in lines]
    work=os.environ.get('INCOQ_DIR','/verif/.work')
    os.makedirs(work,exist_ok=True)
    v=os.path.join(work,'cases_%d.v'%os.getpid())
    with open(v,'w') as f:
        f.write("From Coq Require Import List NArith ZArith String.\nFrom Coq.Strings Require Import Byte.\nFrom RTCP Require Import Lib.Base Lib.Sval Check.Verdict.\nImport ListNotations.\nLocal Open Scope string_scope.\nLocal Open Scope N_scope.\n")
        f.write("Definition cases : list sval := [\n"+";\n".join(terms)+"\n].\n")
        f.write("Definition K := Eval vm_compute in check_kinds cases.\nPrint K.\n")
    r=subprocess.run(["timeout","1200","coqc","-Q","/verif/coq","RTCP",v],capture_output=True,text=True)
    for ext in ('.v','.vo','.glob','.vok','.vos'):
        try: os.remove(v[:-2]+ext)
        except OSError: pass
    try: os.remove(os.path.join(work,'.cases_%d.aux'%os.getpid()))
    except OSError: pass
    if r.returncode!=0:
        print(json.dumps({"ok":False,"error":(r.stdout+r.stderr)[-800:]})); return
    got=[int(x) for x in re.findall(r"(\d+)%?N?",r.stdout[r.stdout.index('['):r.stdout.rindex(']')])] if '[' in r.stdout else []
    want=[kinds.get(i,-1) for i in ids]
    mism=[(ids[k],want[k],got[k] if k<len(got) else None) for k in range(len(ids)) if k>=len(got) or want[k]!=got[k]]
    print(json.dumps({"ok":not mism and len(got)==len(ids),"evaluated_in_coq":len(got),"mismatches":mism[:5]}))
main()
