#!/usr/bin/env python3
# summarise diff verdicts: usage diffsum.py chk.sexp ver.sexp
import sys, re, collections
chk={}
for l in open(sys.argv[1]):
    m=re.match(r"\(chk (\d+) (\S+) \((\S+) \(?(\S+)", l)
    if m: chk[m.group(1)]=(m.group(3), m.group(4).rstrip(')'), l)
def cls(s):
    return re.sub(r"x[0-9a-f]+","x..",re.sub(r"\d+","N",s))[:160]
groups=collections.defaultdict(list)
for l in open(sys.argv[2]):
    m=re.match(r"\(verdict (\d+) \((diff|fail) (\S+) (.*)\)\)$", l)
    if not m: continue
    op,ty,line=chk.get(m.group(1),("?","?",""))
    groups[(m.group(2),op,ty)].append((m.group(1),l,line))
for k,v in sorted(groups.items(), key=lambda kv:-len(kv[1])):
    print(k, len(v))
    vid,l,line=v[0]
    print("   case:", line[:400].rstrip())
    print("   verd:", l[:600].rstrip())
