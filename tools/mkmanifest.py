#!/usr/bin/env python3
"""Regenerates MANIFEST.json from properties.jsonl and the per-property notes below."""
import json, os, subprocess
V='/verif'
props=[json.loads(l) for l in open(V+'/properties.jsonl')]
notes={
'C01':("Theorems: every decode entry point (datagram, 16 packet types, compound, 7 sub-decoders, 2 CCFB block decoders) is total on ALL byte strings in the model (never Panic, never out of fuel = every loop advances), with linear element-count bounds (TransportLayerCC also on error outcomes). Correspondence: panic/no-panic agreement + measured allocation and time bounds on malformed streams, truncations, header sweeps.",
       "model of slice/index semantics is hand-written (len-bounded: conservative w.r.t. Go's cap-bounded reslicing); allocation in bytes and wall time are measured, not proved"),
'C06':("Theorems: Unmarshal of a concatenation of well-framed frames = mapM of a per-frame function that sees only its frame; concatenation law; empty datagram, incomplete tail and a bad frame anywhere are errors; converse (success implies framed split). Correspondence: frame sequences with damage at every position, inputs handed over inside larger sentinel-filled buffers.",
       "frames longer than 262143 octets excluded (length field 65535 wraps in Go; refutation theorem included)"),
'C10':("Theorems: the model's DestinationSSRC equals the documented list for every packet value (no hypothesis), is independent of XR header bookkeeping; round-trip corollaries for SR/RR. Correspondence: constructed and decoded packets vs the documented list.", "round-trip corollary proved per type where the decode-of-encode lemma exists"),
'C11':("Theorems: Validate <-> RFC 3550 grammar (written independently), Marshal/Unmarshal iff statements, CNAME of a valid compound, DestinationSSRC of first member, size = sum. Correspondence: exhaustive sequences over 10 packet kinds up to length 4 (5 thorough) plus random.", "-"),
'C12':("Theorems: covered set of the built pairs = input set for every list of uint16 (any order, duplicates, wrap); PacketList spec for all bitmaps and IDs; Range prefix property for stop positions 0..17 (complete enumeration of 2^16 bitmaps inside Coq). Correspondence compares covered sets, not pair lists.", "-"),
'C15':("Theorems: generated struct layouts = RFC 3611 layouts; Marshal = header ++ SSRC ++ concatenated RFC block encodings for well-formed blocks; block header facts (type, length, T/LDJ/ToH bit positions); unknown blocks round-trip verbatim; F10 exhibited (_refuted). Known-kind read-back: see level note. Correspondence: block sequences parsed by an independent walker.",
       "read-back of the seven known kinds is proved in Proofs/XrRead.v when present, otherwise only exercised by the correspondence run"),
'C17':("PARTIAL. Theorem: the only index computation in the package's formatters (REMB unit table) is in range for every behaviour of the float comparison after the F17 repair; the unrepaired guard is refuted. Everything else (fmt, reflect-driven stringify) is exercised, not proved: String/%v/%+v on constructed and decoded packets, all 256 values of each enum type.", "fmt and reflect are assumed total on the exercised domains; produced text is not specified"),
'C18':("PARTIAL. Theorems: (a) re-derived from the source every run: no mutable package-level state; SSA write-effect summary of every exported operation within the documented allowance (Unmarshal writes its receiver only, never its input; only XR/compound/list Marshal write through the receiver); (b) operation-granularity model: packets unchanged up to XR bookkeeping, results history-independent, frame property, every interleaving of owned packets equivalent to the sequential run. Harness: histories with deep snapshots and backing-array sentinels, input-buffer snapshots.",
       "the SSA effect pass (srcgen) is trusted; Go memory-model data-race freedom is argued from (a), not proved; below operation granularity nothing is modelled"),
}
default_note=("theorems in coq/Props/{id}.v (see file header) + extracted-model correspondence run with the property's executable statement evaluated on the implementation's observations","see DESIGN.md section 8")
claimed=[p['id'] for p in props if os.path.exists(V+'/coq/Props/%s.v'%p['id'])]
hook=subprocess.run(['git','-C','/repo','log','--format=%h','--grep=^verif:'],capture_output=True,text=True).stdout.split()
m={"version":1,"setup_cmd":"bin/setup",
 "hooks":{"guard":"verif","enable":"go build -tags verif (single add-only file /repo/verif_export.go); checks fall back to the public API when the hook file no longer compiles","baseline_off_cmd":"cd /repo && go test -vet=off -count=1 -json ./...","source_commits":hook,"add_only":True},
 "engines":[{"name":"rocq-model","path":"/verif/coq","serves_properties":claimed,"kind_free_text":"Coq 8.16.1: hand-written executable model of pion/rtcp + RFC reference spec + theorems (Props/); srcgen regenerates constants, XR struct layouts, dispatch table, globals and SSA write-effects from /repo on every run; extracted OCaml runner + Go differential harness tie the imperative part to the code"}],
 "checks":[],"notes":"bin/check <id> [--tier quick|thorough] [--replay file]; known_findings.json lists recorded defects; seeded/ holds the confirmed seeded changes; DESIGN.md explains everything","not_applicable":[]}
for p in props:
    i=p['id']
    if i in claimed:
        text,lnote=notes.get(i,(default_note[0].format(id=i),default_note[1]))
        m["checks"].append({"property_id":i,"quick_cmd":"bin/check %s --tier quick"%i,"thorough_cmd":"bin/check %s --tier thorough"%i,
          "evidence_file":"/verif/evidence/%s.json"%i,"replay_cmd_template":"bin/check %s --replay {path}"%i,"engine":"rocq-model",
          "level_claimed":{"category":"proof","text":text,"design_ref":"DESIGN.md section 7, "+i},
          "level_note":"Trusted base: Coq 8.16.1 kernel + vm_compute, no axioms (Print Assumptions: Closed under the global context for every theorem); srcgen; ExtrOcamlBasic extraction + 100-line OCaml tokeniser; Go harness. "+lnote,
          "technique":"machine-checked proof in Coq (Rocq) over a model tied to the source by a translator (declarative part) and an extracted-model correspondence check (imperative part)"})
    else:
        m["not_applicable"].append({"property_id":i,"reason":"not claimed yet: its theorem file coq/Props/%s.v is still being assembled in this session (the correspondence run for it already exists)"%i})
json.dump(m,open(V+'/MANIFEST.json','w'),indent=1)
print("claimed:",claimed)
