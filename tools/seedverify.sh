#!/bin/sh
# verify a seeded change: usage seedverify.sh <dir-with-patch.diff+seeded_demo_test.go>
# (scratch worktree under /tmp, removed afterwards)
export GOFLAGS=-mod=mod GOPROXY=off GOSUMDB=off GOTOOLCHAIN=local
d=$1; wt=/tmp/seedwt.$$
git -C /repo worktree add -q $wt HEAD || exit 2
cd $wt
r=0
git apply $d/patch.diff || { echo "APPLY-FAILED"; r=1; }
if [ $r = 0 ]; then
  go build ./... || { echo "BUILD-FAILED"; r=1; }
  go build -tags verif ./... || { echo "BUILD-VERIF-FAILED"; r=1; }
  go test -vet=off -count=1 ./... > /tmp/seed.$$.log 2>&1 && echo "suite-with-change: PASS" || { echo "suite-with-change: FAIL"; tail -5 /tmp/seed.$$.log; r=1; }
  cp $d/seeded_demo_test.go .
  go test -vet=off -count=1 -run 'TestSeededDemo' ./... > /tmp/seed.$$.log 2>&1 && { echo "demo-with-change: PASS (bad)"; r=1; } || echo "demo-with-change: FAIL (expected)"
  git checkout -q -- . 
  go test -vet=off -count=1 -run 'TestSeededDemo' ./... > /tmp/seed.$$.log 2>&1 && echo "demo-without-change: PASS (expected)" || { echo "demo-without-change: FAIL (bad)"; tail -5 /tmp/seed.$$.log; r=1; }
fi
cd /; git -C /repo worktree remove --force $wt; rm -f /tmp/seed.$$.log
exit $r
