#!/bin/sh
# apply a seeded change to /repo, run the full check of one or more properties on it (evidence goes to .work/seed-evidence,
# not to evidence/), undo the change.   usage: seedcheck.sh <seed-dir-name> <Cxx>...
export GOFLAGS=-mod=mod GOPROXY=off GOSUMDB=off GOTOOLCHAIN=local
s=$1; shift
git -C /repo apply /verif/seeded/$s/patch.diff || exit 2
export VERIF_EVIDENCE_DIR=/verif/.work/seed-evidence
for c in "$@"; do
  VERIF_SEED=${SEED:-1} timeout 3000 /verif/bin/check $c --tier ${TIER:-quick} 2>&1 | grep -v conda | grep "VIOLATION\|KNOWN-FINDING\|cases=" | cut -c1-300
  rp=$(ls -t /verif/replays/$c-* 2>/dev/null | head -1)
  [ -n "$rp" ] && [ "$(find $rp -mmin -2 2>/dev/null)" ] && head -${HEAD:-6} $rp | cut -c1-${CUT:-400}
done
git -C /repo checkout -- . ; git -C /repo status --short | grep -v '^??'
