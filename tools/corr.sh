#!/bin/sh
# developer helper: correspondence only (no proofs), summary of non-pass verdicts.  usage: corr.sh <prop> [tier] [seed]
p=$1; tier=${2:-quick}; seed=${3:-1}
d=/verif/.work/det; mkdir -p $d
cd /verif
./harness/harness gen $p $tier $seed 2>$d/gen_$p.json > $d/cases_$p.sexp
timeout 1200 ./harness/harness run < $d/cases_$p.sexp > $d/chk_$p.sexp 2> $d/err_$p.txt; rc=$?
rm -f $d/ver_$p.in.*
split -n l/16 $d/chk_$p.sexp $d/ver_$p.in.
ulimit -s unlimited 2>/dev/null || ulimit -s 1000000
for x in $d/ver_$p.in.*; do ( timeout 900 /verif/runner/runner check < $x > $x.out ) & done
wait
cat $d/ver_$p.in.*.out > $d/ver_$p.sexp; rm -f $d/ver_$p.in.*
echo "$p run-rc=$rc cases=$(wc -l < $d/chk_$p.sexp) pass=$(grep -c ' pass)' $d/ver_$p.sexp) trivial=$(grep -c '(trivial)' $d/ver_$p.sexp) diff=$(grep -c '(diff ' $d/ver_$p.sexp) fail=$(grep -c '(fail ' $d/ver_$p.sexp) unsup=$(grep -c unsupported $d/ver_$p.sexp) other=$(grep -vc '^(verdict' $d/ver_$p.sexp)"
python3 /verif/tools/diffsum.py $d/chk_$p.sexp $d/ver_$p.sexp | cut -c1-${CUT:-500} | head -${HEAD:-30}
