#!/bin/sh
# apply a seeded change to /repo, run the correspondence part of a property's check, undo. usage: seedrun.sh <Cxx-seed> [<Cyy-check>...]
export GOFLAGS=-mod=mod GOPROXY=off GOSUMDB=off GOTOOLCHAIN=local
s=$1; shift; checks=${@:-$s}
git -C /repo apply /verif/seeded/$s/patch.diff || exit 2
(cd /verif/harness && go build -tags verif -o harness . ) || echo "HARNESS BUILD FAILED"
for c in $checks; do HEAD=${HEAD:-4} CUT=${CUT:-260} /verif/tools/corr.sh $c ${TIER:-quick} ${SEED:-1}; done
git -C /repo checkout -- . ; git -C /repo status --short | grep -v '^??' 
(cd /verif/harness && go build -tags verif -o harness . )
