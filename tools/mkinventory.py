#!/usr/bin/env python3
"""Rewrites section 0.6 (theorem inventory) of DESIGN.md from coq/Props/*.v."""
import re,glob
rows=[]
for f in sorted(glob.glob('/verif/coq/Props/C*.v')):
    t=open(f).read()
    rows.append((f.split('/')[-1][:-2], re.findall(r'^Theorem\s+(\w+)',t,flags=re.M)))
inv="### 0.6 Theorem inventory (generated from coq/Props by tools/mkinventory.py; every one `Closed under the global context`)\n\n"
inv+="Statements that are false of the faithful model carry `_refuted` and a witness; partial statements say so in their name or\ncarry their side condition in the statement. Non-vacuity `Example`s sit beside the theorems in the same files.\n\n"
total=0
for pid,names in rows:
    total+=len(names)
    inv+="* **%s** (%d): %s\n"%(pid,len(names),", ".join("`%s`"%n for n in names))
inv+="\nTotal: %d theorems in %d property files.\n\n"%(total,len(rows))
p='/verif/DESIGN.md'
s=open(p).read()
a=s.index('### 0.6 Theorem inventory'); b=s.index('### 0.7 Trusted base as built')
s=s[:a]+inv+s[b:]
open(p,'w').write(s)
print(total,'theorems')
