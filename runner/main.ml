(* Driver for the extracted model: tokenises one S-expression per line into Model.sval,
   calls the extracted function selected by argv.(1), prints the resulting sval.
   All typed parsing/printing is Gallina (coq/Check/Codec.v); this file only handles text. *)
type sval = Model.sval
let n_zero = Model.n_zero and n_succ = Model.n_succ and small_to_nat = Model.small_to_nat
let decimal_to_N = Model.decimal_to_N
let mk_SN = Model.mk_SN and mk_SZ = Model.mk_SZ and mk_SB = Model.mk_SB and mk_SY = Model.mk_SY and mk_SL = Model.mk_SL
let view = Model.view and run_case = Model.run_case and check_case = Model.check_case
type n = Model.n

let small = Array.make 256 n_zero
let () = for i = 1 to 255 do small.(i) <- n_succ small.(i-1) done

let rec int_of_nat = function Model.O -> 0 | Model.S k -> 1 + int_of_nat k
let int_of_small (x : n) : int = int_of_nat (small_to_nat x)

let n_of_decimal (s : string) (from : int) : n =
  let ds = ref [] in
  for i = String.length s - 1 downto from do
    ds := small.(Char.code s.[i] - 48) :: !ds
  done;
  decimal_to_N !ds

let hexval c = match c with
  | '0'..'9' -> Char.code c - 48 | 'a'..'f' -> Char.code c - 87 | 'A'..'F' -> Char.code c - 55
  | _ -> failwith "bad hex"

exception Parse_error of string

let is_digits s from =
  let ok = ref (String.length s > from) in
  String.iteri (fun i c -> if i >= from && (c < '0' || c > '9') then ok := false) s; !ok

let atom (tok : string) : sval =
  let len = String.length tok in
  if len = 0 then raise (Parse_error "empty atom")
  else if is_digits tok 0 then mk_SN (n_of_decimal tok 0)
  else if (tok.[0] = '-' || tok.[0] = '+') && is_digits tok 1 then mk_SZ (tok.[0] = '-') (n_of_decimal tok 1)
  else if tok.[0] = 'x' && (len - 1) mod 2 = 0 &&
          (let ok = ref true in String.iteri (fun i c -> if i > 0 then match c with '0'..'9'|'a'..'f'|'A'..'F' -> () | _ -> ok := false) tok; !ok) then begin
    let l = ref [] in
    let i = ref (len - 2) in
    while !i >= 1 do
      l := small.(hexval tok.[!i] * 16 + hexval tok.[!i + 1]) :: !l;
      i := !i - 2
    done;
    mk_SB !l
  end else begin
    let l = ref [] in
    for i = len - 1 downto 0 do l := small.(Char.code tok.[i]) :: !l done;
    mk_SY !l
  end

let parse (line : string) : sval =
  let n = String.length line in
  let pos = ref 0 in
  let rec skip () = if !pos < n && (line.[!pos] = ' ' || line.[!pos] = '\t' || line.[!pos] = '\r') then (incr pos; skip ()) in
  let rec value () : sval =
    skip ();
    if !pos >= n then raise (Parse_error "eof");
    if line.[!pos] = '(' then begin
      incr pos;
      let items = ref [] in
      let fin = ref false in
      while not !fin do
        skip ();
        if !pos >= n then raise (Parse_error "unclosed");
        if line.[!pos] = ')' then (incr pos; fin := true)
        else items := value () :: !items
      done;
      mk_SL (List.rev !items)
    end else begin
      let start = !pos in
      while !pos < n && line.[!pos] <> ' ' && line.[!pos] <> '(' && line.[!pos] <> ')' && line.[!pos] <> '\t' do incr pos done;
      atom (String.sub line start (!pos - start))
    end in
  let v = value () in
  skip ();
  if !pos < n then raise (Parse_error "trailing") else v

let buf = Buffer.create 65536
let hexd = "0123456789abcdef"
let rec print (v : sval) : unit =
  match view v with
  | Model.VN ds -> List.iter (fun d -> Buffer.add_char buf (Char.chr (48 + int_of_small d))) ds
  | Model.VZ (neg, ds) -> Buffer.add_char buf (if neg then '-' else '+');
      List.iter (fun d -> Buffer.add_char buf (Char.chr (48 + int_of_small d))) ds
  | Model.VB l -> Buffer.add_char buf 'x';
      List.iter (fun b -> let i = int_of_small b in Buffer.add_char buf hexd.[i / 16]; Buffer.add_char buf hexd.[i mod 16]) l
  | Model.VY l -> List.iter (fun c -> Buffer.add_char buf (Char.chr (int_of_small c))) l
  | Model.VL l -> Buffer.add_char buf '(';
      List.iteri (fun i x -> if i > 0 then Buffer.add_char buf ' '; print x) l;
      Buffer.add_char buf ')'

let () =
  let mode = if Array.length Sys.argv > 1 then Sys.argv.(1) else "run" in
  let f = match mode with
    | "run" -> run_case
    | "check" -> check_case
    | _ -> prerr_endline "usage: runner run|check < lines"; exit 2 in
  (try
    while true do
      let line = input_line stdin in
      if String.length line > 0 && line.[0] <> ';' then begin
        Buffer.clear buf;
        (try print (f (parse line)) with
         | Parse_error m -> Buffer.add_string buf ("(parse-error " ^ m ^ ")")
         | Stack_overflow -> Buffer.add_string buf "(model-stack-overflow)");
        Buffer.add_char buf '\n';
        print_string (Buffer.contents buf)
      end
    done
  with End_of_file -> ());
  flush stdout
