(* C15 - XR report blocks are self-delimiting; unknown blocks survive verbatim.  Statements only (proofs: Proofs/EncXr.v).
   The reflection walker (Lib/Reflect.v) is applied to the struct layouts that srcgen regenerates from extended_report.go;
   GenFacts ties each of them to the RFC 3611 layout written out literally, so a changed Go struct breaks a named theorem.
   [wf_block b]: b is built from a typed RFC block sb (Spec/XrSpec.v) with D_sblock sb = true. *)
From Coq Require Import String.
From RTCP Require Import Proofs.Tactics Lib.Reflect Gen.Layouts Model.Header Model.Xr Spec.Enc Spec.XrSpec Proofs.EncXr.
Local Open Scope N_scope.

Theorem C15_layouts_are_rfc3611 : forall k, layout_of k = rfc_layout_of k.
Proof. exact GenFacts. Qed.
Print Assumptions C15_layouts_are_rfc3611.

Theorem C15_extended_report_fields :
  ly_ExtendedReport_fields = [("SenderSSRC", "TU32", false, true); ("Reports", "TBlocks", false, true)]%string%list.
Proof. exact gen_ExtendedReport_fields. Qed.
Print Assumptions C15_extended_report_fields.

(* Marshal emits the header, the sender SSRC and then every block's RFC encoding, in order *)
Theorem C15_marshal_is_block_concatenation : forall x, Forall wf_block (xr_blocks x) -> XR_marshal x = Ok (enc_XR x).
Proof. exact XR_marshal_spec. Qed.
Print Assumptions C15_marshal_is_block_concatenation.

(* every block: registered type, type-specific octet, block length = size in 32-bit words minus one *)
Theorem C15_block_header : forall sb, D_sblock sb = true -> len (enc_sblock sb) <= 262144 ->
  b2n (nth 0 (enc_sblock sb) x00) = sb_bt sb /\ b2n (nth 1 (enc_sblock sb) x00) = sb_ts sb /\
  (unbe (firstn 2 (skipn 2 (enc_sblock sb))) + 1) * 4 = len (enc_sblock sb).
Proof. exact enc_sblock_header. Qed.
Print Assumptions C15_block_header.

Theorem C15_block_type_registered : forall sb, D_sblock sb = true ->
  sb_bt sb < 256 /\ match sb with SUnknown _ _ _ => ~ (1 <= sb_bt sb <= 7) | _ => 1 <= sb_bt sb <= 7 end.
Proof. exact sb_bt_range. Qed.
Print Assumptions C15_block_type_registered.

(* thinning T, the L/D/J flags and the TTL/hop-limit kind sit in the RFC 3611 bit positions *)
Theorem C15_type_specific_bits : forall sb, D_sblock sb = true ->
  sb_ts sb < 256 /\
  match sb with
  | SRLE _ t _ _ _ _ | SPRT t _ _ _ _ => sb_ts sb mod 16 = t /\ sb_ts sb / 16 = 0
  | SRRT _ | SDLRR _ | SVoIP _ => sb_ts sb = 0
  | SSS l d j toh _ => sb_ts sb / 128 = (if l then 1 else 0) /\ (sb_ts sb / 64) mod 2 = (if d then 1 else 0)
                       /\ (sb_ts sb / 32) mod 2 = (if j then 1 else 0) /\ (sb_ts sb / 8) mod 4 = toh /\ sb_ts sb mod 8 = 0
  | SUnknown _ ts _ => sb_ts sb = ts
  end.
Proof. exact sb_ts_bits. Qed.
Print Assumptions C15_type_specific_bits.

(* a block is decoded to the Go type of its block type *)
Theorem C15_block_kind_by_type : forall a b c sb, D_sblock sb = true -> kind_of_block_type (sb_bt sb) = xb_kind (blk_of a b c sb).
Proof. exact kind_dispatch. Qed.
Print Assumptions C15_block_kind_by_type.

Theorem C15_aligned : forall x b, Forall wf_block (xr_blocks x) -> XR_marshal x = Ok b -> len b mod 4 = 0.
Proof. exact XR_marshal_aligned. Qed.
Print Assumptions C15_aligned.

(* blocks of unrecognised type come back as opaque blocks; type, type-specific octet and content survive re-encoding *)
Theorem C15_unknown_blocks_preserved : forall s sbs, fits 32 s = true ->
  Forall (fun sb => is_unknown sb = true /\ D_sblock sb = true) sbs ->
  len (List.concat (map enc_sblock sbs)) <= 262132 ->
  let wire := frame false 0 207 (be 4 s ++ List.concat (map enc_sblock sbs)) in
  exists x, XR_unmarshal wire = Ok x /\ xr_sender x = s /\ map abs_block (xr_blocks x) = sbs /\ XR_marshal x = Ok wire.
Proof. exact XR_unknown_roundtrip. Qed.
Print Assumptions C15_unknown_blocks_preserved.

(* finding F10: outside the domain (odd number of RLE chunks) the packet is emitted unaligned *)
Theorem C15_odd_chunks_unaligned_refuted : exists x, exists b, XR_marshal x = Ok b /\ len b mod 4 <> 0.
Proof. exact xr_odd_chunks_unaligned_refuted. Qed.
Print Assumptions C15_odd_chunks_unaligned_refuted.
