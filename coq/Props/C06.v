(* C06 - Datagram decoding splits at length fields, is local, and is all-or-nothing.
   Statements only; proofs in Proofs/Dgram.v.  [framed16 f]: at least 4 octets, version 2, length equal to
   4*(length field + 1), below 262144 octets (a frame with length field 65535 cannot be carried: Go's
   uint16(h.Length+1) wraps to 0 — exhibited by C06_length_field_65535_refuted; it exceeds any UDP datagram). *)
From RTCP Require Import Proofs.Tactics Model.Header Model.Packet Spec.Enc Proofs.Dgram Proofs.Assemble.
Local Open Scope N_scope.

(* one packet per frame, in order; each packet is computed from the octets of its own frame only
   (decode_frame f mentions nothing but f); any frame that fails makes the whole datagram fail *)
Theorem C06_one_packet_per_frame : forall fs : list bytes, Forall framed16 fs -> fs <> [] ->
  Unmarshal (List.concat fs) = mapM decode_frame fs.
Proof. exact Unmarshal_frames. Qed.
Print Assumptions C06_one_packet_per_frame.

Theorem C06_locality : forall f rest, framed16 f ->
  unmarshal_one (f ++ rest) = (let* p := decode_frame f in Ok (p, len f)).
Proof. exact unmarshal_one_framed. Qed.
Print Assumptions C06_locality.

Theorem C06_concatenation : forall a b pa pb, Unmarshal a = Ok pa -> Unmarshal b = Ok pb -> Unmarshal (a ++ b) = Ok (pa ++ pb).
Proof. exact Unmarshal_app. Qed.
Print Assumptions C06_concatenation.

(* a successful decode did split its input into well-framed frames *)
Theorem C06_success_means_framed : forall raw ps, Unmarshal raw = Ok ps ->
  exists fs, raw = List.concat fs /\ Forall framed16 fs /\ fs <> [] /\ mapM decode_frame fs = Ok ps.
Proof. exact Unmarshal_ok_split. Qed.
Print Assumptions C06_success_means_framed.

Theorem C06_empty_datagram : Unmarshal [] = Err.
Proof. exact Unmarshal_nil. Qed.
Print Assumptions C06_empty_datagram.

(* trailing octets that do not form a complete packet (fewer than 4, wrong version, or shorter than declared) *)
Theorem C06_incomplete_tail : forall fs t, Forall framed16 fs -> incomplete t -> Unmarshal (List.concat fs ++ t) = Err.
Proof. exact (Unmarshal_trailing_err decode_as_total). Qed.
Print Assumptions C06_incomplete_tail.

(* a malformed frame at any position *)
Theorem C06_bad_frame_anywhere : forall fs1 f fs2 ps1, Forall framed16 (fs1 ++ f :: fs2) ->
  mapM decode_frame fs1 = Ok ps1 -> decode_frame f = Err -> Unmarshal (List.concat (fs1 ++ f :: fs2)) = Err.
Proof. exact Unmarshal_frame_err. Qed.
Print Assumptions C06_bad_frame_anywhere.

Theorem C06_length_field_65535_refuted :
  exists f, framed f /\ decode_frame f = Ok (PRaw f) /\
            unmarshal_one (f ++ []) <> (let* p := decode_frame f in Ok (p, len f)) /\ Unmarshal f = Err.
Proof. exact unmarshal_one_framed_refuted. Qed.
Print Assumptions C06_length_field_65535_refuted.

Example C06_example : framed16 [x80; xc9; x00; x01; x00; x00; x00; x01].
Proof. unfold framed16, framed, len. cbn. lia. Qed.
