(* C16 - Fixed-width wire units encode/decode bijectively over their whole domain.  Statements only
   (proofs: Proofs/HeaderProofs.v, Units.v, EncReports.v, EncFeedback.v).  Domains up to 2^16 are enumerated completely
   inside Coq (vm_compute, bound in the statement); the header, the 24-bit loss count, NACK pairs, SLI words and FIR
   entries are general bit-field proofs. *)
From RTCP Require Import Proofs.Tactics Model.Header Model.Reports Model.Feedback Model.Twcc Model.Ccfb Spec.Enc
  Proofs.HeaderProofs Proofs.Units Proofs.EncReports Proofs.EncFeedback Proofs.Extras.
Local Open Scope N_scope.

(* common header: every padding flag, 5-bit count, type and 16-bit length *)
Theorem C16_header_encode : forall p c t l, c < 32 -> Header_marshal (mkHeader p c t l) = Ok (hdr p c t l).
Proof. exact Header_marshal_spec. Qed.
Print Assumptions C16_header_encode.
Theorem C16_header_decode_of_encode : forall p c t l rest, c < 32 -> t < 256 -> l < 65536 ->
  Header_unmarshal (hdr p c t l ++ rest) = Ok (mkHeader p c t l).
Proof. exact Header_unmarshal_hdr. Qed.
Print Assumptions C16_header_decode_of_encode.
Theorem C16_header_count_above_31_cannot_be_encoded : forall h, 31 < h_count h -> Header_marshal h = Err.
Proof. exact Header_marshal_err. Qed.
Print Assumptions C16_header_count_above_31_cannot_be_encoded.
Theorem C16_header_short_rejected : forall b, len b < 4 -> Header_unmarshal b = Err.
Proof. exact Header_unmarshal_short. Qed.
Print Assumptions C16_header_short_rejected.
(* every raw word: accepted exactly when the version is 2, and then the fields are the RFC bit fields of the first four octets *)
Theorem C16_header_decode_fields : forall b h, Header_unmarshal b = Ok h ->
  4 <= len b /\ b2n (nth 0 b x00) / 64 = 2 /\
  h_pad h = (0 <? (b2n (nth 0 b x00) / 32) mod 2) /\ h_count h = b2n (nth 0 b x00) mod 32 /\
  h_type h = b2n (nth 1 b x00) /\ h_len h = unbe (firstn 2 (skipn 2 b)).
Proof. exact Header_unmarshal_ok. Qed.
Print Assumptions C16_header_decode_fields.

(* TWCC run-length chunks: all 2^15 words, and all (symbol, run) values *)
Theorem C16_run_length_words : forall w, w < 32768 ->
  exists c, RLC_unmarshal (be 2 w) = Ok c /\ chunk_ok c = true /\ chunk_word c = w /\ TChunk_marshal c = Ok (be 2 w).
Proof. exact RLC_word_roundtrip. Qed.
Print Assumptions C16_run_length_words.
Theorem C16_run_length_values : forall t sym run, sym < 4 -> run < 8192 ->
  TChunk_marshal (RLC t sym run) = Ok (be 2 (chunk_word (RLC t sym run))) /\
  RLC_unmarshal (be 2 (chunk_word (RLC t sym run))) = Ok (RLC 0 sym run).
Proof. exact RLC_value_roundtrip. Qed.
Print Assumptions C16_run_length_values.
(* status-vector chunks: all 2^15 words with the top bit set, and all well-formed symbol lists *)
Theorem C16_status_vector_words : forall w, 32768 <= w < 65536 ->
  exists c, SVC_unmarshal (be 2 w) = Ok c /\ chunk_ok c = true /\ chunk_word c = w /\ TChunk_marshal c = Ok (be 2 w).
Proof. exact SVC_word_roundtrip. Qed.
Print Assumptions C16_status_vector_words.
Theorem C16_status_vector_values : forall c, chunk_ok c = true -> (match c with SVC _ _ _ => True | _ => False end) ->
  TChunk_marshal c = Ok (be 2 (chunk_word c)) /\ SVC_unmarshal (be 2 (chunk_word c)) = Ok c.
Proof. exact SVC_value_roundtrip. Qed.
Print Assumptions C16_status_vector_values.

(* receive deltas: all 2^8 one-octet and all 2^16 two-octet wire values, and all in-range multiples of 250 us *)
Theorem C16_small_deltas : forall v, v < 256 ->
  RecvDelta_unmarshal [n2b v] = Ok (mkRecvDelta 1 (250 * Z.of_N v)) /\ RecvDelta_marshal (mkRecvDelta 1 (250 * Z.of_N v)) = Ok [n2b v].
Proof. exact RecvDelta_small. Qed.
Print Assumptions C16_small_deltas.
Theorem C16_large_deltas : forall w, w < 65536 ->
  RecvDelta_unmarshal (be 2 w) = Ok (mkRecvDelta 2 (250 * int16_of w)) /\ RecvDelta_marshal (mkRecvDelta 2 (250 * int16_of w)) = Ok (be 2 w).
Proof. exact RecvDelta_large. Qed.
Print Assumptions C16_large_deltas.
Theorem C16_delta_values : forall d, delta_ok d = true -> RecvDelta_marshal d = Ok (enc_delta d) /\ RecvDelta_unmarshal (enc_delta d) = Ok d.
Proof. exact RecvDelta_value_roundtrip. Qed.
Print Assumptions C16_delta_values.

(* RFC 8888 metric blocks: all 2^16 words *)
Theorem C16_metric_words : forall w, w < 65536 ->
  CCMetric_unmarshal (be 2 w) = Ok (ccm_of_word w) /\ D_metric (ccm_of_word w) = true /\
  (32768 <= w \/ w = 0 -> CCMetric_marshal (ccm_of_word w) = Ok (be 2 w) /\ enc_metric (ccm_of_word w) = be 2 w).
Proof. exact CCMetric_word. Qed.
Print Assumptions C16_metric_words.
Theorem C16_metric_values : forall m, D_metric m = true -> CCMetric_marshal m = Ok (enc_metric m) /\ CCMetric_unmarshal (enc_metric m) = Ok m.
Proof. exact CCMetric_value_roundtrip. Qed.
Print Assumptions C16_metric_values.

(* 24-bit cumulative loss inside a reception report *)
Theorem C16_reception_report : forall r rest, D_rrep r = true -> RRep_marshal r = Ok (enc_rrep r) /\ RRep_unmarshal (enc_rrep r ++ rest) = Ok r.
Proof. intros r rest H. split; [apply RRep_marshal_spec|apply RRep_unmarshal_enc; exact H].
  unfold D_rrep in H. repeat (apply andb_true_iff in H as [H ?]).
  match goal with H : fits 24 (rr_lost r) = true |- _ => unfold fits in H; apply N.ltb_lt in H; exact H end. Qed.
Print Assumptions C16_reception_report.
Theorem C16_loss_2_24_rejected : forall r, 2 ^ 24 <= rr_lost r -> RRep_marshal r = Err.
Proof. exact RRep_marshal_limit. Qed.
Print Assumptions C16_loss_2_24_rejected.

(* NACK pairs, SLI words, FIR entries: through packets with arbitrary entry lists *)
Theorem C16_nack_entries : forall p, D_NACK p = true -> NACK_marshal p = Ok (enc_NACK p) /\ NACK_unmarshal (enc_NACK p) = Ok p.
Proof. intros p H. split; [apply NACK_marshal_spec|apply NACK_unmarshal_enc]; exact H. Qed.
Print Assumptions C16_nack_entries.
Theorem C16_fir_entries : forall p, D_FIR p = true -> FIR_marshal p = Ok (enc_FIR p) /\ FIR_unmarshal (enc_FIR p) = Ok p.
Proof. intros p H. split; [apply FIR_marshal_spec|apply FIR_unmarshal_enc]; exact H. Qed.
Print Assumptions C16_fir_entries.
Theorem C16_sli_word : forall e, D_slie e = true ->
  sli_word e = sli_first e * 2 ^ 19 + sli_number e * 2 ^ 6 + sli_picture e /\ sli_of_word (sli_word e) = e.
Proof. intros e H. split; [apply sli_word_spec|apply sli_of_word_word]; exact H. Qed.
Print Assumptions C16_sli_word.

(* util.go bit helpers *)
Theorem C16_getNBitsFromByte : forall b bg n, b < 256 -> 1 <= n -> bg + n <= 8 -> getNBitsFromByte b bg n = (b / 2 ^ (8 - bg - n)) mod 2 ^ n.
Proof. exact getNBitsFromByte_spec. Qed.
Print Assumptions C16_getNBitsFromByte.
Theorem C16_setNBitsOfUint16 : forall src size start val, start + size <= 16 ->
  setNBitsOfUint16 src size start val = Ok (N.lor src ((val mod 2 ^ size) * 2 ^ (16 - size - start))).
Proof. exact setNBitsOfUint16_spec. Qed.
Print Assumptions C16_setNBitsOfUint16.

(* XR RLE chunk accessors (Type / RunType / Value): they decompose every one of the 2^16 chunk values uniquely *)
Theorem C16_xr_chunk_run_length : forall c, c < 65536 -> chunk_type c = Gen.Consts.c_RunLengthChunkType ->
  exists rt, chunk_run_type c = Ok rt /\ rt < 2 /\ chunk_value c < 16384 /\ c = rt * 16384 + chunk_value c.
Proof. exact chunk_run_length. Qed.
Print Assumptions C16_xr_chunk_run_length.
Theorem C16_xr_chunk_bit_vector : forall c, c < 65536 -> chunk_type c = Gen.Consts.c_BitVectorChunkType ->
  chunk_run_type c = Err /\ chunk_value c < 32768 /\ c = 32768 + chunk_value c.
Proof. exact chunk_bit_vector. Qed.
Print Assumptions C16_xr_chunk_bit_vector.
Theorem C16_xr_chunk_null : forall c, c < 65536 -> (chunk_type c = Gen.Consts.c_TerminatingNullChunkType <-> c = 0).
Proof. exact chunk_null_iff. Qed.
Print Assumptions C16_xr_chunk_null.
Theorem C16_xr_chunk_accessors_injective : forall c d, c < 65536 -> d < 65536 ->
  chunk_type c = chunk_type d -> chunk_run_type c = chunk_run_type d -> chunk_value c = chunk_value d -> c = d.
Proof. exact chunk_accessors_injective. Qed.
Print Assumptions C16_xr_chunk_accessors_injective.

(* ---------------------------------------------------------------------------------------------------------------
   The same units as TRANSLATED FROM THE GO SOURCE TEXT on this run (Gen/Funcs.v, module GoSrc, written by srcgen/trans.go
   over the semantics of Lib/GoSem.v).  First: each translated function computes what the model function above computes
   (for decoders: whatever the receiver held before); then round trips phrased in terms of the translated functions only.
   A change to one of these Go functions changes Gen/Funcs.v and these obligations are re-checked against it. *)
From RTCP Require Import Lib.GoSem Gen.Funcs Proofs.SourceEquiv Proofs.SourceCorollaries.
Theorem C16_source_header_unmarshal : forall h0 b, GoSrc.Header_Unmarshal h0 b = res_map src_header (Header_unmarshal b).
Proof. exact src_Header_Unmarshal. Qed.
Print Assumptions C16_source_header_unmarshal.
Theorem C16_source_header_marshal : forall h, GoSrc.Header_Marshal (src_header h) = Header_marshal h.
Proof. exact src_Header_Marshal. Qed.
Print Assumptions C16_source_header_marshal.
Theorem C16_source_reception_report_unmarshal : forall r0 b, GoSrc.ReceptionReport_Unmarshal r0 b = res_map src_rrep (RRep_unmarshal b).
Proof. exact src_ReceptionReport_Unmarshal. Qed.
Print Assumptions C16_source_reception_report_unmarshal.
Theorem C16_source_reception_report_marshal : forall r, GoSrc.ReceptionReport_Marshal (src_rrep r) = RRep_marshal r.
Proof. exact src_ReceptionReport_Marshal. Qed.
Print Assumptions C16_source_reception_report_marshal.
Theorem C16_source_run_length_chunk_unmarshal : forall r0 b, GoSrc.RunLengthChunk_Unmarshal r0 b = res_map src_rlc (RLC_unmarshal b).
Proof. exact src_RunLengthChunk_Unmarshal. Qed.
Print Assumptions C16_source_run_length_chunk_unmarshal.
Theorem C16_source_run_length_chunk_marshal : forall ty sym run,
  GoSrc.RunLengthChunk_Marshal (src_rlc (RLC ty sym run)) = TChunk_marshal (RLC ty sym run).
Proof. exact src_RunLengthChunk_Marshal. Qed.
Print Assumptions C16_source_run_length_chunk_marshal.
Theorem C16_source_recv_delta_unmarshal : forall r0 b, GoSrc.RecvDelta_Unmarshal r0 b = res_map src_delta (RecvDelta_unmarshal b).
Proof. exact src_RecvDelta_Unmarshal. Qed.
Print Assumptions C16_source_recv_delta_unmarshal.
Theorem C16_source_recv_delta_marshal : forall d, delta_fits d -> GoSrc.RecvDelta_Marshal (src_delta d) = RecvDelta_marshal d.
Proof. exact src_RecvDelta_Marshal. Qed.
Print Assumptions C16_source_recv_delta_marshal.
Theorem C16_source_metric_unmarshal : forall m0 b, GoSrc.CCFeedbackMetricBlock_unmarshal m0 b = res_map src_metric (CCMetric_unmarshal b).
Proof. exact src_CCFeedbackMetricBlock_unmarshal. Qed.
Print Assumptions C16_source_metric_unmarshal.
Theorem C16_source_metric_marshal : forall m, GoSrc.CCFeedbackMetricBlock_marshal (src_metric m) = CCMetric_marshal m.
Proof. exact src_CCFeedbackMetricBlock_marshal. Qed.
Print Assumptions C16_source_metric_marshal.
Theorem C16_source_xr_chunk_accessors : forall c, c < 65536 ->
  GoSrc.Chunk_Type (Z.of_N c) = Z.of_N (chunk_type c) /\
  GoSrc.Chunk_RunType (Z.of_N c) = res_map Z.of_N (chunk_run_type c) /\
  GoSrc.Chunk_Value (Z.of_N c) = Z.of_N (chunk_value c).
Proof. intros c H. repeat split; [apply src_Chunk_Type | apply src_Chunk_RunType | apply src_Chunk_Value]; exact H. Qed.
Print Assumptions C16_source_xr_chunk_accessors.
Theorem C16_source_setNBitsOfUint16 : forall s z st v,
  GoSrc.setNBitsOfUint16 (Z.of_N s) (Z.of_N z) (Z.of_N st) (Z.of_N v) = res_map Z.of_N (setNBitsOfUint16 s z st v).
Proof. exact src_setNBitsOfUint16. Qed.
Print Assumptions C16_source_setNBitsOfUint16.
Theorem C16_source_getNBitsFromByte : forall b s n, b < 2 ^ 64 ->
  GoSrc.getNBitsFromByte (Z.of_N b) (Z.of_N s) (Z.of_N n) = Z.of_N (getNBitsFromByte b s n).
Proof. exact src_getNBitsFromByte_gen. Qed.
Print Assumptions C16_source_getNBitsFromByte.
Theorem C16_source_get24BitsFromBytes : forall b, GoSrc.get24BitsFromBytes b = res_map Z.of_N (get24BitsFromBytes b).
Proof. exact src_get24BitsFromBytes. Qed.
Print Assumptions C16_source_get24BitsFromBytes.
(* round trips on the translated functions alone *)
Theorem C16_source_header_roundtrip : forall p c t l rest h0, c < 32 -> t < 256 -> l < 65536 ->
  exists b, GoSrc.Header_Marshal (src_header (mkHeader p c t l)) = Ok b /\
            GoSrc.Header_Unmarshal h0 (b ++ rest) = Ok (src_header (mkHeader p c t l)).
Proof. exact source_header_roundtrip. Qed.
Print Assumptions C16_source_header_roundtrip.
Theorem C16_source_header_limits : forall h h0 b,
  (31 < h_count h -> GoSrc.Header_Marshal (src_header h) = Err) /\ (len b < 4 -> GoSrc.Header_Unmarshal h0 b = Err).
Proof. exact source_header_limits. Qed.
Print Assumptions C16_source_header_limits.
Theorem C16_source_recv_delta_roundtrip : forall d r0, delta_ok d = true -> delta_fits d ->
  exists b, GoSrc.RecvDelta_Marshal (src_delta d) = Ok b /\ GoSrc.RecvDelta_Unmarshal r0 b = Ok (src_delta d).
Proof. exact source_recv_delta_roundtrip. Qed.
Print Assumptions C16_source_recv_delta_roundtrip.
Theorem C16_source_metric_roundtrip : forall m m0, D_metric m = true ->
  exists b, GoSrc.CCFeedbackMetricBlock_marshal (src_metric m) = Ok b /\ GoSrc.CCFeedbackMetricBlock_unmarshal m0 b = Ok (src_metric m).
Proof. exact source_metric_roundtrip. Qed.
Print Assumptions C16_source_metric_roundtrip.
Theorem C16_source_reception_report_roundtrip : forall r rest r0, D_rrep r = true ->
  exists b, GoSrc.ReceptionReport_Marshal (src_rrep r) = Ok b /\ GoSrc.ReceptionReport_Unmarshal r0 (b ++ rest) = Ok (src_rrep r).
Proof. exact source_reception_report_roundtrip. Qed.
Print Assumptions C16_source_reception_report_roundtrip.

(* BEGIN source-translation (generated by tools/mksourceprops.py; do not edit by hand) *)
(* the unit round trips above restated on the functions translated from the Go source text on this run.
   Gen/Funcs.v (module GoSrc) is written by srcgen/trans.go from /repo on every run; Lib/GoSem.v gives the meaning of its primitives. *)
From RTCP Require Import Proofs.Tactics Lib.GoSem Gen.Funcs Check.GoOpaque Proofs.GoSemFacts Proofs.HeaderProofs
  Model.Header Model.Reports Model.Sdes Model.ByeApp Model.Feedback Model.Twcc Model.Ccfb Model.Remb Model.Xr Model.Packet
  Spec.Enc Spec.XrSpec Spec.Laws Proofs.Dgram Proofs.Assemble Proofs.Guards Proofs.PacketLevel Proofs.Reencode
  Proofs.Misc Proofs.Extras Proofs.EncFeedback Proofs.Image1 Proofs.Image2 Proofs.Image3 Proofs.EncTwcc Proofs.TwccCorollaries Proofs.Total1 Proofs.Total2 Proofs.Total3
  Proofs.SourceEquiv Proofs.SrcConv Proofs.SourceSR Proofs.SourceRR Proofs.SourceSdes Proofs.SourceByeApp
  Proofs.SourceFeedback1 Proofs.SourceFeedback2 Proofs.SourceCcfb Proofs.SourceTwccEnc Proofs.SourceTwccDec
  Proofs.SourcePacket Proofs.SourceCompound Proofs.SourceCompoundClosed.
From RTCP Require Import Proofs.Tactics Lib.GoSem Gen.Funcs Check.GoOpaque Proofs.GoSemFacts Proofs.HeaderProofs
  Model.Header Model.Reports Model.Sdes Model.ByeApp Model.Feedback Model.Twcc Model.Ccfb Model.Remb Model.Xr Model.Packet
  Spec.Enc Spec.XrSpec Spec.Laws Spec.NackSpec Proofs.NackEnum Proofs.NackProofs
  Proofs.Units Proofs.EncReports Proofs.EncSdesByeApp Proofs.EncFeedback Proofs.EncCcfbRemb Proofs.EncTwcc Proofs.TwccCorollaries
  Proofs.Variants Proofs.PacketLevel Proofs.Extras
  Proofs.SourceEquiv Proofs.SrcConv Proofs.SourceCorollaries Proofs.SourceSR Proofs.SourceRR Proofs.SourceSdes Proofs.SourceByeApp
  Proofs.SourceFeedback1 Proofs.SourceFeedback2 Proofs.SourceCcfb Proofs.SourceTwccEnc Proofs.SourceTwccDec
  Proofs.SourcePacket Proofs.SourceCompound Proofs.SourceCompoundClosed Proofs.SourceTheorems.
From RTCP Require Import Lib.Base Lib.GoSem Gen.Consts Gen.Funcs Model.Header Model.Reports Model.Sdes Model.ByeApp Model.Feedback Model.Twcc Model.Ccfb Model.Packet Proofs.SourceEquiv Proofs.SrcConv Proofs.SourceSR Proofs.SourceRR Proofs.SourceSdes Proofs.SourceByeApp Proofs.SourceFeedback1 Proofs.SourceFeedback2 Proofs.SourceCcfb Proofs.SourceTwccEnc Proofs.SourceTwccDec Proofs.SourcePacket Proofs.SourceCompound Proofs.SourceCompoundClosed Proofs.SourceTheorems Proofs.SourceTheorems2.
Module C16_SourceTheorems2.
Import Proofs.SourceTheorems2.
Local Open Scope N_scope.
Theorem C16_src_run_length_words : forall w, w < 32768 ->
  exists sym run, let c := RLC 0 sym run in
    (forall r0, GoSrc.RunLengthChunk_Unmarshal r0 (be 2 w) = Ok (src_rlc c)) /\ Enc.chunk_ok c = true /\ Enc.chunk_word c = w /\
    GoSrc.RunLengthChunk_Marshal (src_rlc c) = Ok (be 2 w).
Proof. exact source_C16_run_length_words. Qed.
Print Assumptions C16_src_run_length_words.
Theorem C16_src_run_length_values : forall t sym run, sym < 4 -> run < 8192 ->
  GoSrc.RunLengthChunk_Marshal (src_rlc (RLC t sym run)) = Ok (be 2 (Enc.chunk_word (RLC t sym run))) /\
  forall r0, GoSrc.RunLengthChunk_Unmarshal r0 (be 2 (Enc.chunk_word (RLC t sym run))) = Ok (src_rlc (RLC 0 sym run)).
Proof. exact source_C16_run_length_values. Qed.
Print Assumptions C16_src_run_length_values.
Theorem C16_src_status_vector_words : forall w, 32768 <= w < 65536 ->
  exists t ss l, let c := SVC t ss l in
    GoSrc.StatusVectorChunk_Unmarshal GoSrc.zero_StatusVectorChunk (be 2 w) = Ok (src_svc c) /\ Enc.chunk_ok c = true /\
    Enc.chunk_word c = w /\ GoSrc.StatusVectorChunk_Marshal (src_svc c) = Ok (be 2 w).
Proof. exact source_C16_status_vector_words. Qed.
Print Assumptions C16_src_status_vector_words.
Theorem C16_src_status_vector_values : forall t ss l, Enc.chunk_ok (SVC t ss l) = true ->
  GoSrc.StatusVectorChunk_Marshal (src_svc (SVC t ss l)) = Ok (be 2 (Enc.chunk_word (SVC t ss l))) /\
  GoSrc.StatusVectorChunk_Unmarshal GoSrc.zero_StatusVectorChunk (be 2 (Enc.chunk_word (SVC t ss l))) = Ok (src_svc (SVC t ss l)).
Proof. exact source_C16_status_vector_values. Qed.
Print Assumptions C16_src_status_vector_values.
Theorem C16_src_small_deltas : forall v, v < 256 ->
  (forall r0, GoSrc.RecvDelta_Unmarshal r0 [n2b v] = Ok (GoSrc.mkRecvDelta 1 (250 * Z.of_N v))) /\
  GoSrc.RecvDelta_Marshal (GoSrc.mkRecvDelta 1 (250 * Z.of_N v)) = Ok [n2b v].
Proof. exact source_C16_small_deltas. Qed.
Print Assumptions C16_src_small_deltas.
Theorem C16_src_large_deltas : forall w, w < 65536 ->
  (forall r0, GoSrc.RecvDelta_Unmarshal r0 (be 2 w) = Ok (GoSrc.mkRecvDelta 2 (250 * int16_of w))) /\
  GoSrc.RecvDelta_Marshal (GoSrc.mkRecvDelta 2 (250 * int16_of w)) = Ok (be 2 w).
Proof. exact source_C16_large_deltas. Qed.
Print Assumptions C16_src_large_deltas.
Theorem C16_src_delta_values : forall d, delta_ok d = true ->
  GoSrc.RecvDelta_Marshal (src_delta d) = Ok (enc_delta d) /\
  forall r0, GoSrc.RecvDelta_Unmarshal r0 (enc_delta d) = Ok (src_delta d).
Proof. exact source_C16_delta_values. Qed.
Print Assumptions C16_src_delta_values.
Theorem C16_src_metric_words : forall w, w < 65536 ->
  (forall m0, GoSrc.CCFeedbackMetricBlock_unmarshal m0 (be 2 w) = Ok (src_metric (ccm_of_word w))) /\
  D_metric (ccm_of_word w) = true /\
  (32768 <= w \/ w = 0 -> GoSrc.CCFeedbackMetricBlock_marshal (src_metric (ccm_of_word w)) = Ok (be 2 w) /\
                          enc_metric (ccm_of_word w) = be 2 w).
Proof. exact source_C16_metric_words. Qed.
Print Assumptions C16_src_metric_words.
Theorem C16_src_metric_values : forall m, D_metric m = true ->
  GoSrc.CCFeedbackMetricBlock_marshal (src_metric m) = Ok (enc_metric m) /\
  forall m0, GoSrc.CCFeedbackMetricBlock_unmarshal m0 (enc_metric m) = Ok (src_metric m).
Proof. exact source_C16_metric_values. Qed.
Print Assumptions C16_src_metric_values.
Theorem C16_src_reception_report : forall r rest, D_rrep r = true ->
  GoSrc.ReceptionReport_Marshal (src_rrep r) = Ok (enc_rrep r) /\
  forall r0, GoSrc.ReceptionReport_Unmarshal r0 (enc_rrep r ++ rest) = Ok (src_rrep r).
Proof. exact source_C16_reception_report. Qed.
Print Assumptions C16_src_reception_report.
Theorem C16_src_loss_2_24_rejected : forall r, 2 ^ 24 <= rr_lost r -> GoSrc.ReceptionReport_Marshal (src_rrep r) = Err.
Proof. exact source_C16_loss_2_24_rejected. Qed.
Print Assumptions C16_src_loss_2_24_rejected.
Theorem C16_src_nack_entries : forall p, D_NACK p = true ->
  GoSrc.TransportLayerNack_Marshal (src_nack p) = Ok (enc_NACK p) /\
  GoSrc.TransportLayerNack_Unmarshal GoSrc.zero_TransportLayerNack (enc_NACK p) = Ok (src_nack p).
Proof. exact source_C16_nack_entries. Qed.
Print Assumptions C16_src_nack_entries.
Theorem C16_src_fir_entries : forall p, D_FIR p = true ->
  GoSrc.FullIntraRequest_Marshal (src_fir p) = Ok (enc_FIR p) /\
  GoSrc.FullIntraRequest_Unmarshal GoSrc.zero_FullIntraRequest (enc_FIR p) = Ok (src_fir p).
Proof. exact source_C16_fir_entries. Qed.
Print Assumptions C16_src_fir_entries.
Theorem C16_src_sli_word : forall p, D_SLI p = true ->
  GoSrc.SliceLossIndication_Marshal (src_sli p) =
    Ok (frame false 2 205 (be 4 (sli_sender p) ++ be 4 (sli_media p) ++
          List.concat (map (fun e => be 4 (sli_first e * 2 ^ 19 + sli_number e * 2 ^ 6 + sli_picture e)) (sli_entries p)))) /\
  GoSrc.SliceLossIndication_Unmarshal GoSrc.zero_SliceLossIndication (enc_SLI_pion p) = Ok (src_sli p).
Proof. exact source_C16_sli_word. Qed.
Print Assumptions C16_src_sli_word.
Theorem C16_src_sli_word_bits : forall e, D_slie e = true ->
  Z.lor (Z.lor (uwrap 32 (gshl (Z.land (Z.of_N (sli_first e)) 8191) 19))
               (uwrap 32 (gshl (Z.land (Z.of_N (sli_number e)) 8191) 6)))
        (Z.land (Z.of_N (sli_picture e)) 63) = Z.of_N (sli_first e * 2 ^ 19 + sli_number e * 2 ^ 6 + sli_picture e) /\
  forall w, w = sli_first e * 2 ^ 19 + sli_number e * 2 ^ 6 + sli_picture e ->
  GoSrc.mkSLIEntry (uwrap 16 (Z.land (gshr (Z.of_N w) 19) 8191)) (uwrap 16 (Z.land (gshr (Z.of_N w) 6) 8191))
                   (uwrap 8 (Z.land (Z.of_N w) 63)) = src_slie e.
Proof. exact source_C16_sli_word_bits. Qed.
Print Assumptions C16_src_sli_word_bits.
End C16_SourceTheorems2.
(* END source-translation *)
