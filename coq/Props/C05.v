(* C05 - Marshal output is well-framed and its length equals MarshalSize.  Statements only (proofs: Proofs/PacketLevel.v).
   framing_any b size pt cnt := len b = size /\ len b mod 4 = 0 /\ framed16 b (version 2, length field = words - 1)
                                /\ the header carries packet type pt and count cnt. *)
From RTCP Require Import Proofs.Tactics Model.Header Model.Reports Model.Sdes Model.ByeApp Model.Xr Model.Packet Spec.Enc Spec.Laws
  Model.Feedback Proofs.Dgram Proofs.EncXr Proofs.PacketLevel Proofs.Extras.
Local Open Scope N_scope.

(* EVERY value on which Marshal succeeds (unaligned extensions, texts, data included), no domain hypothesis *)
Theorem C05_SenderReport : forall s b, SR_marshal s = Ok b -> len b < 262144 -> framing_any b (SR_size s) 200 (nl (sr_reports s)).
Proof. exact SR_framing_any_value. Qed.
Print Assumptions C05_SenderReport.
Theorem C05_ReceiverReport : forall r b, RR_marshal r = Ok b -> len b < 262144 -> framing_any b (RR_size r) 201 (nl (rcv_reports r)).
Proof. exact RR_framing_any_value. Qed.
Print Assumptions C05_ReceiverReport.
Theorem C05_SourceDescription : forall s b, SDES_marshal s = Ok b -> len b < 262144 -> framing_any b (SDES_size s) 202 (nl (sd_chunks s)).
Proof. exact SDES_framing_any_value. Qed.
Print Assumptions C05_SourceDescription.
Theorem C05_Goodbye : forall g b, BYE_marshal g = Ok b -> len b < 262144 -> framing_any b (BYE_size g) 203 (nl (bye_sources g)).
Proof. exact BYE_framing_any_value. Qed.
Print Assumptions C05_Goodbye.
Theorem C05_ApplicationDefined : forall a b, APP_marshal a = Ok b -> framing_any b (APP_size a) 204 (app_subtype a).
Proof. exact APP_framing_any_value. Qed.
Print Assumptions C05_ApplicationDefined.

(* every supported packet type, on the well-formed domain (TransportLayerCC: header consistent with the content is part of D_TWCC) *)
Theorem C05_framed : forall p b, supported_enc p -> in_D p = true -> len (enc_spec p) < 262144 -> marshal_packet p = Ok b ->
  len b = size_packet p /\ len b mod 4 = 0 /\ framed16 b /\
  exists h, Header_unmarshal b = Ok h /\ h_len h = len b / 4 - 1 /\
            (forall pt c, expected_pt_count p = Some (pt, c) -> h_type h = pt /\ h_count h = c).
Proof. exact marshal_framed_enc. Qed.
Print Assumptions C05_framed.

(* CompoundPacket.MarshalSize is the sum over its members *)
Theorem C05_compound_size : forall c, size_packet (PCompound c) = fold_right N.add 0 (map size_packet c).
Proof. exact compound_size. Qed.
Print Assumptions C05_compound_size.

(* finding F10: an XR with an odd number of RLE chunks is emitted unaligned *)
Theorem C05_xr_odd_chunks_refuted : exists x, exists b, XR_marshal x = Ok b /\ len b mod 4 <> 0.
Proof. exact xr_odd_chunks_unaligned_refuted. Qed.
Print Assumptions C05_xr_odd_chunks_refuted.

(* the feedback types, again for EVERY value on which Marshal succeeds; Header() is the header found in the bytes *)
Theorem C05_PictureLossIndication : forall p b, PLI_marshal p = Ok b -> len b = PLI_size p /\ len b mod 4 = 0 /\ Header_unmarshal b = Ok (PLI_header p).
Proof. exact PLI_framing_any_value. Qed.
Print Assumptions C05_PictureLossIndication.
Theorem C05_RapidResynchronizationRequest : forall p b, RRR_marshal p = Ok b -> len b = RRR_size p /\ len b mod 4 = 0 /\ Header_unmarshal b = Ok (RRR_header p).
Proof. exact RRR_framing_any_value. Qed.
Print Assumptions C05_RapidResynchronizationRequest.
Theorem C05_TransportLayerNack : forall p b, NACK_marshal p = Ok b -> len b = NACK_size p /\ len b mod 4 = 0 /\ Header_unmarshal b = Ok (NACK_header p).
Proof. exact NACK_framing_any_value. Qed.
Print Assumptions C05_TransportLayerNack.
Theorem C05_FullIntraRequest : forall p b, FIR_marshal p = Ok b -> len b = FIR_size p /\ len b mod 4 = 0 /\ Header_unmarshal b = Ok (FIR_header p).
Proof. exact FIR_framing_any_value. Qed.
Print Assumptions C05_FullIntraRequest.
(* SliceLossIndication: well-framed, but its header carries packet type 205 (finding F5) *)
Theorem C05_SliceLossIndication_partial : forall p b, SLI_marshal p = Ok b -> len b = SLI_size p /\ len b mod 4 = 0 /\ Header_unmarshal b = Ok (SLI_header p).
Proof. exact SLI_framing_any_value. Qed.
Print Assumptions C05_SliceLossIndication_partial.
