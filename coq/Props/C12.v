(* C12 — NACK pair helpers cover exactly the requested sequence numbers.
   Only statements; proofs live in Proofs/NackProofs.v. *)
From Coq Require Import List NArith.
From RTCP Require Import Lib.Base Model.Feedback Spec.NackSpec Proofs.NackEnum Proofs.NackProofs.
Import ListNotations.
Local Open Scope N_scope.

(* every list of 16-bit sequence numbers (any order, duplicates, across the wrap): none missing, none extra *)
Theorem C12_pairs_cover : forall (l : list N) (s : N), Forall (fun x => x < 65536) l ->
  (In s (flat_map packet_list (nack_pairs_from l)) <-> In s l).
Proof. exact pairs_cover. Qed.
Print Assumptions C12_pairs_cover.

(* every NackPair: the ID, then ID+i+1 mod 65536 for each set bit i, ascending (all 2^16 bitmaps, any ID) *)
Theorem C12_packet_list_spec : forall p : NackPair, np_bm p < 65536 ->
  packet_list p = np_id p :: map (fun i => (np_id p + i + 1) mod 65536)
                               (filter (fun i => N.testbit (np_bm p) i) [0;1;2;3;4;5;6;7;8;9;10;11;12;13;14;15]).
Proof. exact packet_list_is_spec. Qed.
Print Assumptions C12_packet_list_spec.

(* Range: when the k-th call of the callback (k = 0..17) is the first to return false, exactly the first
   k+1 numbers of PacketList have been visited, in order; when it never does, all of them *)
Theorem C12_range_stops : forall (p : NackPair) (k : nat), np_bm p < 65536 -> (k <= 17)%nat ->
  nack_range p (Some k) = firstn (S k) (packet_list p).
Proof. exact range_stops. Qed.
Print Assumptions C12_range_stops.

Theorem C12_range_all : forall p : NackPair, nack_range p None = packet_list p.
Proof. exact range_never_stops. Qed.
Print Assumptions C12_range_all.

(* non-vacuity: a concrete list across the wrap with a duplicate *)
Example C12_example : map (fun p => (np_id p, np_bm p)) (nack_pairs_from [65534; 65535; 0; 17; 17; 3]) = [(65534, 3); (17, 0); (3, 0)]
  /\ packet_list {| np_id := 65530; np_bm := 32769 |} = [65530; 65531; 10].
Proof. split; vm_compute; reflexivity. Qed.
