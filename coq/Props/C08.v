(* C08 - Marshal never silently truncates: out-of-range values are errors.  Statements only
   (proofs: Proofs/Units.v, EncReports.v, EncSdesByeApp.v, EncFeedback.v).
   [in_limits p] (Spec/Laws.v) is the conjunction of the wire limits the property enumerates: at most 31 reports / chunks /
   sources, header count or subtype at most 31, SDES text and BYE reason at most 255 octets, cumulative lost below 2^24,
   at most 255 REMB SSRCs, at most 16384 CCFB metric blocks per block, a 4-octet APP name, a non-negative REMB bitrate,
   every TWCC delta inside its class's range, no SDES item of type 0, at most 253 NACK / SLI entries.
   It is a boolean: "exactly at the limit accepted, one above rejected" is its definition, not a sample. *)
From RTCP Require Import Proofs.Tactics Model.Header Model.Reports Model.Sdes Model.ByeApp Model.Feedback Model.Twcc Model.Ccfb Model.Remb
  Model.Packet Spec.Enc Spec.Laws Proofs.Units Proofs.EncReports Proofs.EncSdesByeApp Proofs.EncFeedback.
Local Open Scope N_scope.

(* above a limit: never bytes (every packet value, compounds included) *)
Theorem C08_over_limit_never_succeeds : forall p b, in_limits p = false -> marshal_packet p <> Ok b.
Proof. exact in_limits_marshal_not_ok. Qed.
Print Assumptions C08_over_limit_never_succeeds.

(* ... and the outcome is the error, per packet type; for TWCC and CCFB provided the 16-bit size arithmetic does not wrap first *)
Theorem C08_over_limit_is_error : forall p, in_limits p = false ->
  match p with
  | PCompound _ => True
  | PTWCC t => twcc_exact_len t <= 65532 -> marshal_packet p = Err
  | PCCFB c => CCFB_size c / 4 - 1 < 65536 -> marshal_packet p = Err
  | _ => marshal_packet p = Err
  end.
Proof. exact in_limits_marshal_err. Qed.
Print Assumptions C08_over_limit_is_error.

(* finding F18 (oversize): with more content than a 16-bit length field can express the model panics instead (as the code does) *)
Theorem C08_oversize_panics_refuted : exists p, in_limits (PCCFB p) = false /\ CCFB_marshal p = Panic.
Proof. exact CCFB_limits_Err_refuted. Qed.
Print Assumptions C08_oversize_panics_refuted.
Theorem C08_oversize_twcc_panics_refuted : exists t, in_limits (PTWCC t) = false /\ TWCC_marshal t = Panic.
Proof. exact TWCC_limits_Err_refuted. Qed.
Print Assumptions C08_oversize_twcc_panics_refuted.

(* exact characterisations: when Marshal succeeds the bytes are the RFC encoding of the value (nothing truncated,
   wrapped or dropped: every count and length octet is the one of the reference encoder), otherwise an error *)
Theorem C08_SenderReport : forall s, SR_marshal s =
  if forallb lost_ok (sr_reports s) && (nl (sr_reports s) <=? 31) then Ok (frame false (nl (sr_reports s)) 200 (sr_body s)) else Err.
Proof. exact SR_marshal_char. Qed.
Print Assumptions C08_SenderReport.
Theorem C08_ReceiverReport : forall r, RR_marshal r =
  if forallb lost_ok (rcv_reports r) && (nl (rcv_reports r) <=? 31) then Ok (enc_RR r) else Err.
Proof. exact RR_marshal_char. Qed.
Print Assumptions C08_ReceiverReport.
Theorem C08_SourceDescription : forall s, SDES_marshal s =
  if forallb chunk_ok (sd_chunks s) then (if 31 <? nl (sd_chunks s) then Err else Ok (enc_SDES s)) else Err.
Proof. exact SDES_marshal_char. Qed.
Print Assumptions C08_SourceDescription.
Theorem C08_Goodbye : forall g, BYE_marshal g =
  if 31 <? nl (bye_sources g) then Err else if 255 <? len (bye_reason g) then Err else Ok (enc_BYE g).
Proof. exact BYE_marshal_char. Qed.
Print Assumptions C08_Goodbye.
Theorem C08_ApplicationDefined : forall a, APP_marshal a =
  if 65523 <? len (app_data a) then Err else if negb (len (app_name a) =? 4) then Err else
  if 31 <? app_subtype a then Err else Ok (enc_APP a).
Proof. exact APP_marshal_char. Qed.
Print Assumptions C08_ApplicationDefined.
Theorem C08_cumulative_lost : forall r, (rr_lost r < 2 ^ 24 -> RRep_marshal r = Ok (enc_rrep r)) /\ (2 ^ 24 <= rr_lost r -> RRep_marshal r = Err).
Proof. intros r. split; [apply RRep_marshal_spec|apply RRep_marshal_limit]. Qed.
Print Assumptions C08_cumulative_lost.
Theorem C08_nack_limit : forall p, 253 < nl (nack_pairs p) -> NACK_marshal p = Err.
Proof. exact NACK_marshal_limit. Qed.
Print Assumptions C08_nack_limit.
Theorem C08_sli_limit : forall p, 253 < nl (sli_entries p) -> SLI_marshal p = Err.
Proof. exact SLI_marshal_limit. Qed.
Print Assumptions C08_sli_limit.

(* values exactly at the limits are accepted: non-vacuity of the positive side *)
Example C08_at_the_limit :
  is_ok (RRep_marshal (mkRRep 1 2 16777215 0 0 0 0)) = true /\ RRep_marshal (mkRRep 1 2 16777216 0 0 0 0) = Err /\
  is_ok (BYE_marshal (mkBYE (repeat 7 31) (repeat x61 255))) = true /\ BYE_marshal (mkBYE (repeat 7 32) []) = Err /\
  BYE_marshal (mkBYE [] (repeat x61 256)) = Err.
Proof. vm_compute. repeat split; reflexivity. Qed.
