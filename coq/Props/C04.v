(* C04 - Unmarshal extracts the RFC-specified fields from any valid encoding.  Statements only
   (proofs: Proofs/PacketLevel.v, Variants.v, XrRead.v, EncSdesByeApp.v, EncCcfbRemb.v, EncTwcc.v, TwccCorollaries.v).
   Canonical encodings: the reference encoder enc_spec; then, one theorem per family of encodings this library's own
   encoder never produces. *)
From RTCP Require Import Proofs.Tactics Model.Header Model.Reports Model.Sdes Model.ByeApp Model.Feedback Model.Twcc Model.Ccfb Model.Remb Model.Xr
  Model.Packet Spec.Enc Spec.XrSpec Spec.Laws Proofs.EncSdesByeApp Proofs.EncCcfbRemb Proofs.EncTwcc Proofs.TwccCorollaries Proofs.EncXr
  Proofs.XrRead Proofs.Variants Proofs.PacketLevel.
Local Open Scope N_scope.

(* the reference encoding of every well-formed value is accepted and yields exactly the value (up to the documented quantisation) *)
Theorem C04_reference_encoding : forall p, supported p = true -> in_D p = true -> decode_as (tag_of_packet p) (enc_spec p) = Ok (q p).
Proof. exact own_roundtrip. Qed.
Print Assumptions C04_reference_encoding.

(* alternative TWCC chunkings of the same status sequence (run-length / 1-bit / 2-bit vector chunks in any valid mix) *)
Theorem C04_twcc_any_valid_chunking : forall t, D_TWCC t = true -> TWCC_unmarshal (enc_TWCC t) = Ok t.
Proof. exact TWCC_unmarshal_enc. Qed.
Print Assumptions C04_twcc_any_valid_chunking.
Theorem C04_twcc_chunkings_agree : forall t1 t2, D_TWCC t1 = true -> D_TWCC t2 = true -> statuses t1 = statuses t2 -> tw_deltas t1 = tw_deltas t2 ->
  exists d1 d2, TWCC_unmarshal (enc_TWCC t1) = Ok d1 /\ TWCC_unmarshal (enc_TWCC t2) = Ok d2 /\ statuses d1 = statuses d2 /\ tw_deltas d1 = tw_deltas d2.
Proof. exact twcc_chunking_invariant. Qed.
Print Assumptions C04_twcc_chunkings_agree.

(* unnormalised REMB mantissa/exponent pairs: every pair with a non-zero mantissa decodes to mantissa * 2^exponent exactly *)
Theorem C04_remb_any_pair : forall e m, (0 <= e < 64)%Z -> (0 < m < 2 ^ 18)%Z ->
  exists m' e', remb_value (Z.to_N (remb_dec e m)) = Some (m', e') /\ (m' * 2 ^ (e' + 149) = m * 2 ^ (e + 149))%Z
                /\ remb_floor (Z.to_N (remb_dec e m)) = Some (m * 2 ^ e)%Z.
Proof. exact remb_decode_exact. Qed.
Print Assumptions C04_remb_any_pair.

(* padded APP packets: P bit set, 4k padding octets whose last one holds 4k, the others arbitrary *)
Theorem C04_app_padded : forall a k fill, D_APP a = true -> len (app_data a) mod 4 = 0 -> 1 <= k <= 63 -> len fill = 4 * k - 1 ->
  APP_unmarshal (frame true (app_subtype a) 204 (be 4 (app_ssrc a) ++ app_name a ++ app_data a ++ fill ++ [n2b (4 * k)])) = Ok a.
Proof. exact APP_unmarshal_padded. Qed.
Print Assumptions C04_app_padded.

(* non-zero reserved bits: FIR entries, and every XR block kind (upper type-specific bits of RLE / receipt times, low bits of the
   statistics summary, the type-specific octet of RRT / DLRR / VoIP, the VoIP reserved octet); unknown XR block types *)
Theorem C04_fir_reserved_bits : forall p rs, D_FIR p = true -> length rs = length (fir_entries p) -> FIR_unmarshal (enc_FIR_res p rs) = Ok p.
Proof. exact FIR_unmarshal_reserved. Qed.
Print Assumptions C04_fir_reserved_bits.
Theorem C04_xr_reserved_bits_and_unknown_blocks : forall s xs, fits 32 s = true -> Forall rblock_ok xs -> len (List.concat (map enc_res xs)) <= 262132 ->
  exists x, XR_unmarshal (frame false 0 207 (be 4 s ++ List.concat (map enc_res xs))) = Ok x
            /\ xr_sender x = s /\ map abs_block (xr_blocks x) = map rsb xs /\ Forall wf_block (xr_blocks x)
            /\ XR_marshal x = Ok (frame false 0 207 (be 4 s ++ List.concat (map enc_sblock (map rsb xs)))).
Proof. exact XR_unmarshal_reserved. Qed.
Print Assumptions C04_xr_reserved_bits_and_unknown_blocks.

(* not-received CCFB metric blocks with stray bits *)
Theorem C04_ccfb_not_received_stray_bits : forall b0 b1, b2n b0 < 128 ->
  CCMetric_unmarshal [b0; b1] = Ok {| mb_received := false; mb_ecn := 0; mb_offset := 0 |}.
Proof. exact CCMetric_unmarshal_not_received. Qed.
Print Assumptions C04_ccfb_not_received_stray_bits.

(* BYE with a reason, without one (reference encoding), and with an empty reason / extra null padding *)
Theorem C04_bye_empty_reason : forall g, D_BYE g = true -> bye_reason g = [] ->
  BYE_unmarshal (frame false (nl (bye_sources g)) 203 (List.concat (map (be 4) (bye_sources g)) ++ [x00; x00; x00; x00])) = Ok g.
Proof. exact BYE_unmarshal_empty_reason. Qed.
Print Assumptions C04_bye_empty_reason.
Theorem C04_bye_extra_padding : forall g, D_BYE g = true ->
  BYE_unmarshal (frame false (nl (bye_sources g)) 203 (pad4 (bye_body g) ++ [x00; x00; x00; x00])) = Ok g.
Proof. exact BYE_unmarshal_extra_padding. Qed.
Print Assumptions C04_bye_extra_padding.

(* an SR, RR, SDES or BYE whose header count claims more elements than the packet holds is rejected: ALL byte strings *)
Theorem C04_sr_count_exceeds : forall b, (len b - 28) / 24 < cnt b -> SR_unmarshal b = Err.
Proof. exact SR_count_exceeds_rejected. Qed.
Print Assumptions C04_sr_count_exceeds.
Theorem C04_rr_count_exceeds : forall b, (len b - 8) / 24 < cnt b -> RR_unmarshal b = Err.
Proof. exact RR_count_exceeds_rejected. Qed.
Print Assumptions C04_rr_count_exceeds.
Theorem C04_bye_count_exceeds : forall b, (len b - 4) / 4 < cnt b -> BYE_unmarshal b = Err.
Proof. exact BYE_count_exceeds_rejected. Qed.
Print Assumptions C04_bye_count_exceeds.
Theorem C04_sdes_count_exceeds : forall b, len b mod 4 = 0 -> (len b - 4) / 8 < cnt b -> SDES_unmarshal b = Err.
Proof. exact SDES_count_exceeds_rejected_aligned. Qed.
Print Assumptions C04_sdes_count_exceeds.
Theorem C04_sdes_count_exceeds_any_length : forall b, (len b - 4 + 3) / 8 < cnt b -> SDES_unmarshal b = Err.
Proof. exact SDES_count_exceeds_rejected. Qed.
Print Assumptions C04_sdes_count_exceeds_any_length.

(* BEGIN source-translation (generated by tools/mksourceprops.py; do not edit by hand) *)
(* Unmarshal of each type, as translated from the Go source text on this run, is the model function the theorems above are about (zero-valued receiver; the _gen/_any forms say what a receiver that already holds data contributes).
   Gen/Funcs.v (module GoSrc) is written by srcgen/trans.go from /repo on every run; Lib/GoSem.v gives the meaning of its primitives. *)
From RTCP Require Import Proofs.Tactics Lib.GoSem Lib.GoFloat Gen.FuncsRemb Proofs.GoSemFacts
  Model.Header Model.Reports Model.Remb Model.Packet Proofs.HeaderProofs Proofs.SourceEquiv Proofs.SrcConv Proofs.EncCcfbRemb
  Spec.Enc Spec.Laws Check.GoOpaque.
From RTCP Require Import Proofs.Tactics Lib.GoSem Gen.Funcs Check.GoOpaque Proofs.GoSemFacts Proofs.HeaderProofs
  Model.Header Model.Reports Model.Sdes Model.ByeApp Model.Feedback Model.Twcc Model.Ccfb Model.Remb Model.Xr Model.Packet
  Spec.Enc Spec.XrSpec Spec.Laws Proofs.Dgram Proofs.Assemble Proofs.Guards Proofs.PacketLevel Proofs.Reencode
  Proofs.Misc Proofs.Extras Proofs.EncFeedback Proofs.Image1 Proofs.Image2 Proofs.Image3 Proofs.EncTwcc Proofs.TwccCorollaries Proofs.Total1 Proofs.Total2 Proofs.Total3
  Proofs.SourceEquiv Proofs.SrcConv Proofs.SourceSR Proofs.SourceRR Proofs.SourceSdes Proofs.SourceByeApp
  Proofs.SourceFeedback1 Proofs.SourceFeedback2 Proofs.SourceCcfb Proofs.SourceTwccEnc Proofs.SourceTwccDec
  Proofs.SourcePacket Proofs.SourceCompound Proofs.SourceCompoundClosed.
From RTCP Require Import Proofs.Tactics Lib.GoSem Gen.Funcs Check.GoOpaque Proofs.GoSemFacts Proofs.HeaderProofs
  Model.Header Model.Reports Model.Sdes Model.ByeApp Model.Feedback Model.Twcc Model.Ccfb Model.Remb Model.Xr Model.Packet
  Spec.Enc Spec.XrSpec Spec.Laws Spec.NackSpec Proofs.NackEnum Proofs.NackProofs
  Proofs.Units Proofs.EncReports Proofs.EncSdesByeApp Proofs.EncFeedback Proofs.EncCcfbRemb Proofs.EncTwcc Proofs.TwccCorollaries
  Proofs.Variants Proofs.PacketLevel Proofs.Extras
  Proofs.SourceEquiv Proofs.SrcConv Proofs.SourceCorollaries Proofs.SourceSR Proofs.SourceRR Proofs.SourceSdes Proofs.SourceByeApp
  Proofs.SourceFeedback1 Proofs.SourceFeedback2 Proofs.SourceCcfb Proofs.SourceTwccEnc Proofs.SourceTwccDec
  Proofs.SourcePacket Proofs.SourceCompound Proofs.SourceCompoundClosed Proofs.SourceTheorems.
From Coq Require Import String.
From RTCP Require Import Proofs.Tactics Lib.GoSem Lib.Reflect Gen.Layouts Gen.Funcs Model.Xr Proofs.GoSemFacts Proofs.SrcConv.
From RTCP Require Import Proofs.Tactics Lib.GoSem Lib.Reflect Gen.Layouts Gen.Funcs Gen.FuncsXr Model.Header Model.Xr
  Proofs.GoSemFacts Proofs.SrcConv Proofs.HeaderProofs Proofs.EncXr Proofs.SourceEquiv Proofs.SourceXr Check.GoOpaque Check.XrOracles.
From RTCP Require Import Spec.Enc Spec.XrSpec Proofs.XrRead Proofs.Total3.
From RTCP Require Import Lib.Base Lib.GoSem Gen.Consts Gen.Funcs Model.Header Model.Reports Model.Sdes Model.ByeApp Model.Feedback Model.Twcc Model.Ccfb Model.Packet Proofs.SourceEquiv Proofs.SrcConv Proofs.SourceByeApp Proofs.SourceCcfb Proofs.SourceFeedback1 Proofs.SourceFeedback2 Proofs.SourceRR Proofs.SourceRemb Proofs.SourceSR Proofs.SourceSdes Proofs.SourceTwccEnc Proofs.SourceTwccDec Proofs.SourcePacket Proofs.SourceCompound Proofs.SourceCompoundClosed Proofs.SourceTheorems Proofs.SourceTheorems2 Proofs.SourceXr Proofs.SourceXrCodec.
Module C04_SourceByeApp.
Import Proofs.SourceByeApp.
Local Open Scope Z_scope.
Theorem C04_source_Goodbye_Unmarshal_gen : forall g0 b, GoSrc.Goodbye_Reason g0 = [] ->
  GoSrc.Goodbye_Unmarshal g0 b = res_map src_bye (BYE_unmarshal b).
Proof. exact src_Goodbye_Unmarshal_gen. Qed.
Print Assumptions C04_source_Goodbye_Unmarshal_gen.
Theorem C04_source_Goodbye_Unmarshal : forall b,
  GoSrc.Goodbye_Unmarshal GoSrc.zero_Goodbye b = res_map src_bye (BYE_unmarshal b).
Proof. exact src_Goodbye_Unmarshal. Qed.
Print Assumptions C04_source_Goodbye_Unmarshal.
Theorem C04_source_ApplicationDefined_Unmarshal_gen : forall a0 b,
  GoSrc.ApplicationDefined_Unmarshal a0 b = res_map src_app (APP_unmarshal b).
Proof. exact src_ApplicationDefined_Unmarshal_gen. Qed.
Print Assumptions C04_source_ApplicationDefined_Unmarshal_gen.
Theorem C04_source_ApplicationDefined_Unmarshal : forall b,
  GoSrc.ApplicationDefined_Unmarshal GoSrc.zero_ApplicationDefined b = res_map src_app (APP_unmarshal b).
Proof. exact src_ApplicationDefined_Unmarshal. Qed.
Print Assumptions C04_source_ApplicationDefined_Unmarshal.
End C04_SourceByeApp.
Module C04_SourceCcfb.
Import Proofs.SourceCcfb.
Local Open Scope Z_scope.
Theorem C04_source_CCFeedbackReportBlock_unmarshal_gen : forall b0 raw, GoSrc.CCFeedbackReportBlock_MetricBlocks b0 = [] ->
  GoSrc.CCFeedbackReportBlock_unmarshal b0 raw = res_map src_ccblock (CCBlock_unmarshal raw).
Proof. exact src_CCFeedbackReportBlock_unmarshal_gen. Qed.
Print Assumptions C04_source_CCFeedbackReportBlock_unmarshal_gen.
Theorem C04_source_CCFeedbackReportBlock_unmarshal : forall raw,
  GoSrc.CCFeedbackReportBlock_unmarshal GoSrc.zero_CCFeedbackReportBlock raw = res_map src_ccblock (CCBlock_unmarshal raw).
Proof. exact src_CCFeedbackReportBlock_unmarshal. Qed.
Print Assumptions C04_source_CCFeedbackReportBlock_unmarshal.
Theorem C04_source_CCFeedbackReport_Unmarshal_gen : forall b0 raw,
  GoSrc.CCFeedbackReport_Unmarshal b0 raw = res_map src_ccfb (CCFB_unmarshal raw).
Proof. exact src_CCFeedbackReport_Unmarshal_gen. Qed.
Print Assumptions C04_source_CCFeedbackReport_Unmarshal_gen.
Theorem C04_source_CCFeedbackReport_Unmarshal : forall raw,
  GoSrc.CCFeedbackReport_Unmarshal GoSrc.zero_CCFeedbackReport raw = res_map src_ccfb (CCFB_unmarshal raw).
Proof. exact src_CCFeedbackReport_Unmarshal. Qed.
Print Assumptions C04_source_CCFeedbackReport_Unmarshal.
Theorem C04_source_StatusVectorChunk_Unmarshal : forall b,
  GoSrc.StatusVectorChunk_Unmarshal GoSrc.zero_StatusVectorChunk b = res_map src_svc (SVC_unmarshal b).
Proof. exact src_StatusVectorChunk_Unmarshal. Qed.
Print Assumptions C04_source_StatusVectorChunk_Unmarshal.
Theorem C04_source_StatusVectorChunk_Unmarshal_gen : forall r0 b,
  GoSrc.StatusVectorChunk_Unmarshal r0 b =
  res_map (fun c => svc_prepend (GoSrc.StatusVectorChunk_SymbolList r0) (src_svc c)) (SVC_unmarshal b).
Proof. exact src_StatusVectorChunk_Unmarshal_gen. Qed.
Print Assumptions C04_source_StatusVectorChunk_Unmarshal_gen.
End C04_SourceCcfb.
Module C04_SourceFeedback1.
Import Proofs.SourceFeedback1.
Local Open Scope Z_scope.
Theorem C04_source_PictureLossIndication_Unmarshal_gen : forall p0 b,
  GoSrc.PictureLossIndication_Unmarshal p0 b = res_map src_pli (PLI_unmarshal b).
Proof. exact src_PictureLossIndication_Unmarshal_gen. Qed.
Print Assumptions C04_source_PictureLossIndication_Unmarshal_gen.
Theorem C04_source_PictureLossIndication_Unmarshal : forall b,
  GoSrc.PictureLossIndication_Unmarshal GoSrc.zero_PictureLossIndication b = res_map src_pli (PLI_unmarshal b).
Proof. exact src_PictureLossIndication_Unmarshal. Qed.
Print Assumptions C04_source_PictureLossIndication_Unmarshal.
Theorem C04_source_RapidResynchronizationRequest_Unmarshal_gen : forall p0 b,
  GoSrc.RapidResynchronizationRequest_Unmarshal p0 b = res_map src_rrr (RRR_unmarshal b).
Proof. exact src_RapidResynchronizationRequest_Unmarshal_gen. Qed.
Print Assumptions C04_source_RapidResynchronizationRequest_Unmarshal_gen.
Theorem C04_source_RapidResynchronizationRequest_Unmarshal : forall b,
  GoSrc.RapidResynchronizationRequest_Unmarshal GoSrc.zero_RapidResynchronizationRequest b = res_map src_rrr (RRR_unmarshal b).
Proof. exact src_RapidResynchronizationRequest_Unmarshal. Qed.
Print Assumptions C04_source_RapidResynchronizationRequest_Unmarshal.
Theorem C04_source_TransportLayerNack_Unmarshal_gen : forall p0 b,
  GoSrc.TransportLayerNack_Unmarshal p0 b = res_map (src_nack_onto p0) (NACK_unmarshal b).
Proof. exact src_TransportLayerNack_Unmarshal_gen. Qed.
Print Assumptions C04_source_TransportLayerNack_Unmarshal_gen.
Theorem C04_source_TransportLayerNack_Unmarshal : forall b,
  GoSrc.TransportLayerNack_Unmarshal GoSrc.zero_TransportLayerNack b = res_map src_nack (NACK_unmarshal b).
Proof. exact src_TransportLayerNack_Unmarshal. Qed.
Print Assumptions C04_source_TransportLayerNack_Unmarshal.
End C04_SourceFeedback1.
Module C04_SourceFeedback2.
Import Proofs.SourceFeedback2.
Local Open Scope Z_scope.
Theorem C04_source_FullIntraRequest_Unmarshal_gen : forall p0 b,
  GoSrc.FullIntraRequest_Unmarshal p0 b = res_map (fir_recv p0) (FIR_unmarshal b).
Proof. exact src_FullIntraRequest_Unmarshal_gen. Qed.
Print Assumptions C04_source_FullIntraRequest_Unmarshal_gen.
Theorem C04_source_FullIntraRequest_Unmarshal : forall b,
  GoSrc.FullIntraRequest_Unmarshal GoSrc.zero_FullIntraRequest b = res_map src_fir (FIR_unmarshal b).
Proof. exact src_FullIntraRequest_Unmarshal. Qed.
Print Assumptions C04_source_FullIntraRequest_Unmarshal.
Theorem C04_source_SliceLossIndication_Unmarshal_gen : forall p0 b,
  GoSrc.SliceLossIndication_Unmarshal p0 b = res_map (sli_recv p0) (SLI_unmarshal b).
Proof. exact src_SliceLossIndication_Unmarshal_gen. Qed.
Print Assumptions C04_source_SliceLossIndication_Unmarshal_gen.
Theorem C04_source_SliceLossIndication_Unmarshal : forall b,
  GoSrc.SliceLossIndication_Unmarshal GoSrc.zero_SliceLossIndication b = res_map src_sli (SLI_unmarshal b).
Proof. exact src_SliceLossIndication_Unmarshal. Qed.
Print Assumptions C04_source_SliceLossIndication_Unmarshal.
End C04_SourceFeedback2.
Module C04_SourceRR.
Import Proofs.SourceRR.
Local Open Scope Z_scope.
Theorem C04_source_ReceiverReport_Unmarshal_any : forall r0 b,
  GoSrc.ReceiverReport_Unmarshal r0 b =
  if (len b <? 8)%N then Err else
  let* h := Header_unmarshal b in
  if negb (h_type h =? c_TypeReceiverReport)%N then Err else
  let* ssrc := get_be_at 4 b c_rrSSRCOffset in
  let* rs := rr_reports_loop (N.to_nat (h_count h) - length (GoSrc.ReceiverReport_Reports r0)) b c_rrReportOffset in
  let n := (nlen (GoSrc.ReceiverReport_Reports r0) + nlen rs)%N in
  let* ext := slice_from b (c_rrReportOffset + n * c_receptionReportLength) in
  if negb (u8 n =? h_count h)%N then Err else
  Ok (GoSrc.mkReceiverReport (Z.of_N ssrc) (GoSrc.ReceiverReport_Reports r0 ++ map src_rrep rs) ext).
Proof. exact src_ReceiverReport_Unmarshal_any. Qed.
Print Assumptions C04_source_ReceiverReport_Unmarshal_any.
Theorem C04_source_ReceiverReport_Unmarshal_gen : forall r0 b, GoSrc.ReceiverReport_Reports r0 = [] ->
  GoSrc.ReceiverReport_Unmarshal r0 b = res_map src_rr (RR_unmarshal b).
Proof. exact src_ReceiverReport_Unmarshal_gen. Qed.
Print Assumptions C04_source_ReceiverReport_Unmarshal_gen.
Theorem C04_source_ReceiverReport_Unmarshal : forall b,
  GoSrc.ReceiverReport_Unmarshal GoSrc.zero_ReceiverReport b = res_map src_rr (RR_unmarshal b).
Proof. exact src_ReceiverReport_Unmarshal. Qed.
Print Assumptions C04_source_ReceiverReport_Unmarshal.
End C04_SourceRR.
Module C04_SourceRemb.
Import Proofs.SourceRemb.
Local Open Scope Z_scope.
Theorem C04_source_REMB_Unmarshal : forall r buf,
  GoSrcRemb.ReceiverEstimatedMaximumBitrate_Unmarshal r buf = res_map src_remb (REMB_unmarshal buf).
Proof. exact src_REMB_Unmarshal. Qed.
Print Assumptions C04_source_REMB_Unmarshal.
Theorem C04_src_remb_any_pair : forall r s e m, (s < 4294967296)%N -> 0 <= e < 64 -> 0 < m < 2 ^ 18 ->
  exists bits,
    GoSrcRemb.ReceiverEstimatedMaximumBitrate_Unmarshal r
      ([n2b 143; n2b 206] ++ be 2 4 ++ be 4 s ++ [x00; x00; x00; x00] ++ [n2b 82; n2b 69; n2b 77; n2b 66]
       ++ [n2b 0] ++ be 3 (Z.to_N (e * 2 ^ 18 + m)))
    = Ok (GoSrcRemb.mkReceiverEstimatedMaximumBitrate (Z.of_N s) (Z.of_N bits) [])
    /\ remb_floor bits = Some (m * 2 ^ e).
Proof. exact source_C04_remb_any_pair. Qed.
Print Assumptions C04_src_remb_any_pair.
End C04_SourceRemb.
Module C04_SourceSR.
Import Proofs.SourceSR.
Local Open Scope Z_scope.
Theorem C04_source_SenderReport_Unmarshal_any : forall r0 b,
  GoSrc.SenderReport_Unmarshal r0 b
  = SR_unmarshal_onto (GoSrc.SenderReport_Reports r0) (GoSrc.SenderReport_ProfileExtensions r0) b.
Proof. exact src_SenderReport_Unmarshal_any. Qed.
Print Assumptions C04_source_SenderReport_Unmarshal_any.
Theorem C04_source_SenderReport_Unmarshal_gen : forall r0 b,
  GoSrc.SenderReport_Reports r0 = [] -> GoSrc.SenderReport_ProfileExtensions r0 = [] ->
  GoSrc.SenderReport_Unmarshal r0 b = res_map src_sr (SR_unmarshal b).
Proof. exact src_SenderReport_Unmarshal_gen. Qed.
Print Assumptions C04_source_SenderReport_Unmarshal_gen.
Theorem C04_source_SenderReport_Unmarshal : forall b,
  GoSrc.SenderReport_Unmarshal GoSrc.zero_SenderReport b = res_map src_sr (SR_unmarshal b).
Proof. exact src_SenderReport_Unmarshal. Qed.
Print Assumptions C04_source_SenderReport_Unmarshal.
End C04_SourceSR.
Module C04_SourceSdes.
Import Proofs.SourceSdes.
Local Open Scope Z_scope.
Theorem C04_source_RawPacket_Unmarshal_gen : forall r0 b, GoSrc.RawPacket_Unmarshal r0 b = Raw_unmarshal b.
Proof. exact src_RawPacket_Unmarshal_gen. Qed.
Print Assumptions C04_source_RawPacket_Unmarshal_gen.
Theorem C04_source_RawPacket_Unmarshal : forall b, GoSrc.RawPacket_Unmarshal [] b = Raw_unmarshal b.
Proof. exact src_RawPacket_Unmarshal. Qed.
Print Assumptions C04_source_RawPacket_Unmarshal.
Theorem C04_source_SourceDescriptionItem_Unmarshal_gen : forall s0 b,
  GoSrc.SourceDescriptionItem_Unmarshal s0 b = res_map src_item (SItem_unmarshal b).
Proof. exact src_SourceDescriptionItem_Unmarshal_gen. Qed.
Print Assumptions C04_source_SourceDescriptionItem_Unmarshal_gen.
Theorem C04_source_SourceDescriptionItem_Unmarshal : forall b,
  GoSrc.SourceDescriptionItem_Unmarshal GoSrc.zero_SourceDescriptionItem b = res_map src_item (SItem_unmarshal b).
Proof. exact src_SourceDescriptionItem_Unmarshal. Qed.
Print Assumptions C04_source_SourceDescriptionItem_Unmarshal.
Theorem C04_source_SourceDescriptionChunk_Unmarshal_any : forall s0 b,
  GoSrc.SourceDescriptionChunk_Unmarshal s0 b = res_map (src_chunk_onto s0) (SChunk_unmarshal b).
Proof. exact src_SourceDescriptionChunk_Unmarshal_any. Qed.
Print Assumptions C04_source_SourceDescriptionChunk_Unmarshal_any.
Theorem C04_source_SourceDescriptionChunk_Unmarshal_gen : forall s0 b, GoSrc.SourceDescriptionChunk_Items s0 = [] ->
  GoSrc.SourceDescriptionChunk_Unmarshal s0 b = res_map src_chunk (SChunk_unmarshal b).
Proof. exact src_SourceDescriptionChunk_Unmarshal_gen. Qed.
Print Assumptions C04_source_SourceDescriptionChunk_Unmarshal_gen.
Theorem C04_source_SourceDescriptionChunk_Unmarshal : forall b,
  GoSrc.SourceDescriptionChunk_Unmarshal GoSrc.zero_SourceDescriptionChunk b = res_map src_chunk (SChunk_unmarshal b).
Proof. exact src_SourceDescriptionChunk_Unmarshal. Qed.
Print Assumptions C04_source_SourceDescriptionChunk_Unmarshal.
Theorem C04_source_SourceDescription_Unmarshal_any : forall s0 b,
  GoSrc.SourceDescription_Unmarshal s0 b = SDES_unmarshal_onto (GoSrc.SourceDescription_Chunks s0) b.
Proof. exact src_SourceDescription_Unmarshal_any. Qed.
Print Assumptions C04_source_SourceDescription_Unmarshal_any.
Theorem C04_source_SourceDescription_Unmarshal_gen : forall s0 b, GoSrc.SourceDescription_Chunks s0 = [] ->
  GoSrc.SourceDescription_Unmarshal s0 b = res_map src_sdes (SDES_unmarshal b).
Proof. exact src_SourceDescription_Unmarshal_gen. Qed.
Print Assumptions C04_source_SourceDescription_Unmarshal_gen.
Theorem C04_source_SourceDescription_Unmarshal : forall b,
  GoSrc.SourceDescription_Unmarshal GoSrc.zero_SourceDescription b = res_map src_sdes (SDES_unmarshal b).
Proof. exact src_SourceDescription_Unmarshal. Qed.
Print Assumptions C04_source_SourceDescription_Unmarshal.
End C04_SourceSdes.
Module C04_SourceTheorems2.
Import Proofs.SourceTheorems2.
Local Open Scope N_scope.
Theorem C04_src_reference_encoding : forall p, supported p = true -> in_D p = true ->
  GoSrc.Packet_Unmarshal (zero_packet (tag_of_packet p)) (enc_spec p) = Ok (src_packet (q p)).
Proof. exact source_C04_reference_encoding. Qed.
Print Assumptions C04_src_reference_encoding.
Theorem C04_src_reference_encoding_SenderReport : forall x, D_SR x = true ->
  GoSrc.SenderReport_Unmarshal GoSrc.zero_SenderReport (enc_SR x) = Ok (src_sr x).
Proof. exact source_C04_reference_encoding_SenderReport. Qed.
Print Assumptions C04_src_reference_encoding_SenderReport.
Theorem C04_src_reference_encoding_ReceiverReport : forall x, D_RR x = true ->
  GoSrc.ReceiverReport_Unmarshal GoSrc.zero_ReceiverReport (enc_RR x) = Ok (src_rr (q_RR x)).
Proof. exact source_C04_reference_encoding_ReceiverReport. Qed.
Print Assumptions C04_src_reference_encoding_ReceiverReport.
Theorem C04_src_reference_encoding_SourceDescription : forall x, D_SDES x = true ->
  GoSrc.SourceDescription_Unmarshal GoSrc.zero_SourceDescription (enc_SDES x) = Ok (src_sdes x).
Proof. exact source_C04_reference_encoding_SourceDescription. Qed.
Print Assumptions C04_src_reference_encoding_SourceDescription.
Theorem C04_src_reference_encoding_Goodbye : forall x, D_BYE x = true ->
  GoSrc.Goodbye_Unmarshal GoSrc.zero_Goodbye (enc_BYE x) = Ok (src_bye x).
Proof. exact source_C04_reference_encoding_Goodbye. Qed.
Print Assumptions C04_src_reference_encoding_Goodbye.
Theorem C04_src_reference_encoding_ApplicationDefined : forall x a0, D_APP x = true ->
  GoSrc.ApplicationDefined_Unmarshal a0 (enc_APP x) = Ok (src_app x).
Proof. exact source_C04_reference_encoding_ApplicationDefined. Qed.
Print Assumptions C04_src_reference_encoding_ApplicationDefined.
Theorem C04_src_reference_encoding_TransportLayerNack : forall x, D_NACK x = true ->
  GoSrc.TransportLayerNack_Unmarshal GoSrc.zero_TransportLayerNack (enc_NACK x) = Ok (src_nack x).
Proof. exact source_C04_reference_encoding_TransportLayerNack. Qed.
Print Assumptions C04_src_reference_encoding_TransportLayerNack.
Theorem C04_src_reference_encoding_RapidResynchronizationRequest : forall x p0, D_RRR x = true ->
  GoSrc.RapidResynchronizationRequest_Unmarshal p0 (enc_RRR x) = Ok (src_rrr x).
Proof. exact source_C04_reference_encoding_RapidResynchronizationRequest. Qed.
Print Assumptions C04_src_reference_encoding_RapidResynchronizationRequest.
Theorem C04_src_reference_encoding_PictureLossIndication : forall x p0, D_PLI x = true ->
  GoSrc.PictureLossIndication_Unmarshal p0 (enc_PLI x) = Ok (src_pli x).
Proof. exact source_C04_reference_encoding_PictureLossIndication. Qed.
Print Assumptions C04_src_reference_encoding_PictureLossIndication.
Theorem C04_src_reference_encoding_FullIntraRequest : forall x, D_FIR x = true ->
  GoSrc.FullIntraRequest_Unmarshal GoSrc.zero_FullIntraRequest (enc_FIR x) = Ok (src_fir x).
Proof. exact source_C04_reference_encoding_FullIntraRequest. Qed.
Print Assumptions C04_src_reference_encoding_FullIntraRequest.
Theorem C04_src_reference_encoding_CCFeedbackReport : forall x p0, D_CCFB x = true ->
  (GoSrc.CCFeedbackReport_Len (src_ccfb x) <= 262140)%Z ->
  GoSrc.CCFeedbackReport_Unmarshal p0 (enc_CCFB x) = Ok (src_ccfb x).
Proof. exact source_C04_reference_encoding_CCFeedbackReport. Qed.
Print Assumptions C04_src_reference_encoding_CCFeedbackReport.
Theorem C04_src_twcc_any_valid_chunking : forall t, D_TWCC t = true ->
  GoSrc.TransportLayerCC_Unmarshal GoSrc.zero_TransportLayerCC (enc_TWCC t) = Ok (src_twcc t).
Proof. exact source_C04_twcc_any_valid_chunking. Qed.
Print Assumptions C04_src_twcc_any_valid_chunking.
Theorem C04_src_twcc_chunkings_agree : forall t1 t2, D_TWCC t1 = true -> D_TWCC t2 = true ->
  statuses t1 = statuses t2 -> tw_deltas t1 = tw_deltas t2 ->
  exists d1 d2,
    GoSrc.TransportLayerCC_Unmarshal GoSrc.zero_TransportLayerCC (enc_TWCC t1) = Ok (src_twcc d1) /\
    GoSrc.TransportLayerCC_Unmarshal GoSrc.zero_TransportLayerCC (enc_TWCC t2) = Ok (src_twcc d2) /\
    statuses d1 = statuses d2 /\ tw_deltas d1 = tw_deltas d2 /\
    GoSrc.TransportLayerCC_RecvDeltas (src_twcc d1) = GoSrc.TransportLayerCC_RecvDeltas (src_twcc d2).
Proof. exact source_C04_twcc_chunkings_agree. Qed.
Print Assumptions C04_src_twcc_chunkings_agree.
Theorem C04_src_app_padded : forall a k fill a0, D_APP a = true -> len (app_data a) mod 4 = 0 -> 1 <= k <= 63 ->
  len fill = 4 * k - 1 ->
  GoSrc.ApplicationDefined_Unmarshal a0
    (frame true (app_subtype a) 204 (be 4 (app_ssrc a) ++ app_name a ++ app_data a ++ fill ++ [n2b (4 * k)])) = Ok (src_app a).
Proof. exact source_C04_app_padded. Qed.
Print Assumptions C04_src_app_padded.
Theorem C04_src_fir_reserved_bits : forall p rs, D_FIR p = true -> length rs = length (fir_entries p) ->
  GoSrc.FullIntraRequest_Unmarshal GoSrc.zero_FullIntraRequest (enc_FIR_res p rs) = Ok (src_fir p).
Proof. exact source_C04_fir_reserved_bits. Qed.
Print Assumptions C04_src_fir_reserved_bits.
Theorem C04_src_ccfb_not_received_stray_bits : forall b0 b1 m0, b2n b0 < 128 ->
  GoSrc.CCFeedbackMetricBlock_unmarshal m0 [b0; b1] = Ok (src_metric {| mb_received := false; mb_ecn := 0; mb_offset := 0 |}).
Proof. exact source_C04_ccfb_not_received_stray_bits. Qed.
Print Assumptions C04_src_ccfb_not_received_stray_bits.
Theorem C04_src_bye_empty_reason : forall g, D_BYE g = true -> bye_reason g = [] ->
  GoSrc.Goodbye_Unmarshal GoSrc.zero_Goodbye
    (frame false (nl (bye_sources g)) 203 (List.concat (map (be 4) (bye_sources g)) ++ [x00; x00; x00; x00])) = Ok (src_bye g).
Proof. exact source_C04_bye_empty_reason. Qed.
Print Assumptions C04_src_bye_empty_reason.
Theorem C04_src_bye_extra_padding : forall g, D_BYE g = true ->
  GoSrc.Goodbye_Unmarshal GoSrc.zero_Goodbye
    (frame false (nl (bye_sources g)) 203 (pad4 (bye_body g) ++ [x00; x00; x00; x00])) = Ok (src_bye g).
Proof. exact source_C04_bye_extra_padding. Qed.
Print Assumptions C04_src_bye_extra_padding.
Theorem C04_src_sr_count_exceeds : forall b, (len b - 28) / 24 < b2n (nth 0 b x00) mod 32 ->
  GoSrc.SenderReport_Unmarshal GoSrc.zero_SenderReport b = Err.
Proof. exact source_C04_sr_count_exceeds. Qed.
Print Assumptions C04_src_sr_count_exceeds.
Theorem C04_src_rr_count_exceeds : forall b, (len b - 8) / 24 < b2n (nth 0 b x00) mod 32 ->
  GoSrc.ReceiverReport_Unmarshal GoSrc.zero_ReceiverReport b = Err.
Proof. exact source_C04_rr_count_exceeds. Qed.
Print Assumptions C04_src_rr_count_exceeds.
Theorem C04_src_bye_count_exceeds : forall b, (len b - 4) / 4 < b2n (nth 0 b x00) mod 32 ->
  GoSrc.Goodbye_Unmarshal GoSrc.zero_Goodbye b = Err.
Proof. exact source_C04_bye_count_exceeds. Qed.
Print Assumptions C04_src_bye_count_exceeds.
Theorem C04_src_sdes_count_exceeds : forall b, len b mod 4 = 0 -> (len b - 4) / 8 < b2n (nth 0 b x00) mod 32 ->
  GoSrc.SourceDescription_Unmarshal GoSrc.zero_SourceDescription b = Err.
Proof. exact source_C04_sdes_count_exceeds. Qed.
Print Assumptions C04_src_sdes_count_exceeds.
Theorem C04_src_sdes_count_exceeds_any_length : forall b, (len b - 4 + 3) / 8 < b2n (nth 0 b x00) mod 32 ->
  GoSrc.SourceDescription_Unmarshal GoSrc.zero_SourceDescription b = Err.
Proof. exact source_C04_sdes_count_exceeds_any_length. Qed.
Print Assumptions C04_src_sdes_count_exceeds_any_length.
Theorem C04_src_sdes_count_exceeds_refuted : exists b s, (len b - 4) / 8 < b2n (nth 0 b x00) mod 32 /\
  GoSrc.SourceDescription_Unmarshal GoSrc.zero_SourceDescription b = Ok s.
Proof. exact source_C04_sdes_count_exceeds_refuted. Qed.
Print Assumptions C04_src_sdes_count_exceeds_refuted.
End C04_SourceTheorems2.
Module C04_SourceTwccDec.
Import Proofs.SourceTwccDec.
Local Open Scope Z_scope.
Theorem C04_source_TransportLayerCC_Unmarshal_gen : forall t0 raw, GoSrc.TransportLayerCC_RecvDeltas t0 = [] ->
  GoSrc.TransportLayerCC_Unmarshal t0 raw =
  res_map (fun t => twcc_prepend (GoSrc.TransportLayerCC_PacketChunks t0) (src_twcc t)) (TWCC_unmarshal raw).
Proof. exact src_TransportLayerCC_Unmarshal_gen. Qed.
Print Assumptions C04_source_TransportLayerCC_Unmarshal_gen.
Theorem C04_source_TransportLayerCC_Unmarshal : forall b,
  GoSrc.TransportLayerCC_Unmarshal GoSrc.zero_TransportLayerCC b = res_map src_twcc (TWCC_unmarshal b).
Proof. exact src_TransportLayerCC_Unmarshal. Qed.
Print Assumptions C04_source_TransportLayerCC_Unmarshal.
End C04_SourceTwccDec.
Module C04_SourceXrCodec.
Import Proofs.SourceXrCodec.
Local Open Scope Z_scope.
Theorem C04_source_ExtendedReport_Unmarshal : forall b,
  X.ExtendedReport_Unmarshal m_read_uint32 m_read_XRHeader m_read_ReportBlock zero_xr b = res_map src_xr (XR_unmarshal b).
Proof. exact src_ExtendedReport_Unmarshal. Qed.
Print Assumptions C04_source_ExtendedReport_Unmarshal.
End C04_SourceXrCodec.
(* END source-translation *)
