(* C04 - Unmarshal extracts the RFC-specified fields from any valid encoding.  Statements only
   (proofs: Proofs/PacketLevel.v, Variants.v, XrRead.v, EncSdesByeApp.v, EncCcfbRemb.v, EncTwcc.v, TwccCorollaries.v).
   Canonical encodings: the reference encoder enc_spec; then, one theorem per family of encodings this library's own
   encoder never produces. *)
From RTCP Require Import Proofs.Tactics Model.Header Model.Reports Model.Sdes Model.ByeApp Model.Feedback Model.Twcc Model.Ccfb Model.Remb Model.Xr
  Model.Packet Spec.Enc Spec.XrSpec Spec.Laws Proofs.EncSdesByeApp Proofs.EncCcfbRemb Proofs.EncTwcc Proofs.TwccCorollaries Proofs.EncXr
  Proofs.XrRead Proofs.Variants Proofs.PacketLevel.
Local Open Scope N_scope.

(* the reference encoding of every well-formed value is accepted and yields exactly the value (up to the documented quantisation) *)
Theorem C04_reference_encoding : forall p, supported p = true -> in_D p = true -> decode_as (tag_of_packet p) (enc_spec p) = Ok (q p).
Proof. exact own_roundtrip. Qed.
Print Assumptions C04_reference_encoding.

(* alternative TWCC chunkings of the same status sequence (run-length / 1-bit / 2-bit vector chunks in any valid mix) *)
Theorem C04_twcc_any_valid_chunking : forall t, D_TWCC t = true -> TWCC_unmarshal (enc_TWCC t) = Ok t.
Proof. exact TWCC_unmarshal_enc. Qed.
Print Assumptions C04_twcc_any_valid_chunking.
Theorem C04_twcc_chunkings_agree : forall t1 t2, D_TWCC t1 = true -> D_TWCC t2 = true -> statuses t1 = statuses t2 -> tw_deltas t1 = tw_deltas t2 ->
  exists d1 d2, TWCC_unmarshal (enc_TWCC t1) = Ok d1 /\ TWCC_unmarshal (enc_TWCC t2) = Ok d2 /\ statuses d1 = statuses d2 /\ tw_deltas d1 = tw_deltas d2.
Proof. exact twcc_chunking_invariant. Qed.
Print Assumptions C04_twcc_chunkings_agree.

(* unnormalised REMB mantissa/exponent pairs: every pair with a non-zero mantissa decodes to mantissa * 2^exponent exactly *)
Theorem C04_remb_any_pair : forall e m, (0 <= e < 64)%Z -> (0 < m < 2 ^ 18)%Z ->
  exists m' e', remb_value (Z.to_N (remb_dec e m)) = Some (m', e') /\ (m' * 2 ^ (e' + 149) = m * 2 ^ (e + 149))%Z
                /\ remb_floor (Z.to_N (remb_dec e m)) = Some (m * 2 ^ e)%Z.
Proof. exact remb_decode_exact. Qed.
Print Assumptions C04_remb_any_pair.

(* padded APP packets: P bit set, 4k padding octets whose last one holds 4k, the others arbitrary *)
Theorem C04_app_padded : forall a k fill, D_APP a = true -> len (app_data a) mod 4 = 0 -> 1 <= k <= 63 -> len fill = 4 * k - 1 ->
  APP_unmarshal (frame true (app_subtype a) 204 (be 4 (app_ssrc a) ++ app_name a ++ app_data a ++ fill ++ [n2b (4 * k)])) = Ok a.
Proof. exact APP_unmarshal_padded. Qed.
Print Assumptions C04_app_padded.

(* non-zero reserved bits: FIR entries, and every XR block kind (upper type-specific bits of RLE / receipt times, low bits of the
   statistics summary, the type-specific octet of RRT / DLRR / VoIP, the VoIP reserved octet); unknown XR block types *)
Theorem C04_fir_reserved_bits : forall p rs, D_FIR p = true -> length rs = length (fir_entries p) -> FIR_unmarshal (enc_FIR_res p rs) = Ok p.
Proof. exact FIR_unmarshal_reserved. Qed.
Print Assumptions C04_fir_reserved_bits.
Theorem C04_xr_reserved_bits_and_unknown_blocks : forall s xs, fits 32 s = true -> Forall rblock_ok xs -> len (List.concat (map enc_res xs)) <= 262132 ->
  exists x, XR_unmarshal (frame false 0 207 (be 4 s ++ List.concat (map enc_res xs))) = Ok x
            /\ xr_sender x = s /\ map abs_block (xr_blocks x) = map rsb xs /\ Forall wf_block (xr_blocks x)
            /\ XR_marshal x = Ok (frame false 0 207 (be 4 s ++ List.concat (map enc_sblock (map rsb xs)))).
Proof. exact XR_unmarshal_reserved. Qed.
Print Assumptions C04_xr_reserved_bits_and_unknown_blocks.

(* not-received CCFB metric blocks with stray bits *)
Theorem C04_ccfb_not_received_stray_bits : forall b0 b1, b2n b0 < 128 ->
  CCMetric_unmarshal [b0; b1] = Ok {| mb_received := false; mb_ecn := 0; mb_offset := 0 |}.
Proof. exact CCMetric_unmarshal_not_received. Qed.
Print Assumptions C04_ccfb_not_received_stray_bits.

(* BYE with a reason, without one (reference encoding), and with an empty reason / extra null padding *)
Theorem C04_bye_empty_reason : forall g, D_BYE g = true -> bye_reason g = [] ->
  BYE_unmarshal (frame false (nl (bye_sources g)) 203 (List.concat (map (be 4) (bye_sources g)) ++ [x00; x00; x00; x00])) = Ok g.
Proof. exact BYE_unmarshal_empty_reason. Qed.
Print Assumptions C04_bye_empty_reason.
Theorem C04_bye_extra_padding : forall g, D_BYE g = true ->
  BYE_unmarshal (frame false (nl (bye_sources g)) 203 (pad4 (bye_body g) ++ [x00; x00; x00; x00])) = Ok g.
Proof. exact BYE_unmarshal_extra_padding. Qed.
Print Assumptions C04_bye_extra_padding.

(* an SR, RR, SDES or BYE whose header count claims more elements than the packet holds is rejected: ALL byte strings *)
Theorem C04_sr_count_exceeds : forall b, (len b - 28) / 24 < cnt b -> SR_unmarshal b = Err.
Proof. exact SR_count_exceeds_rejected. Qed.
Print Assumptions C04_sr_count_exceeds.
Theorem C04_rr_count_exceeds : forall b, (len b - 8) / 24 < cnt b -> RR_unmarshal b = Err.
Proof. exact RR_count_exceeds_rejected. Qed.
Print Assumptions C04_rr_count_exceeds.
Theorem C04_bye_count_exceeds : forall b, (len b - 4) / 4 < cnt b -> BYE_unmarshal b = Err.
Proof. exact BYE_count_exceeds_rejected. Qed.
Print Assumptions C04_bye_count_exceeds.
Theorem C04_sdes_count_exceeds : forall b, len b mod 4 = 0 -> (len b - 4) / 8 < cnt b -> SDES_unmarshal b = Err.
Proof. exact SDES_count_exceeds_rejected_aligned. Qed.
Print Assumptions C04_sdes_count_exceeds.
Theorem C04_sdes_count_exceeds_any_length : forall b, (len b - 4 + 3) / 8 < cnt b -> SDES_unmarshal b = Err.
Proof. exact SDES_count_exceeds_rejected. Qed.
Print Assumptions C04_sdes_count_exceeds_any_length.
