(* C01 - Decoding arbitrary bytes never panics, hangs or over-allocates.
   For EVERY byte string b (bytes := list byte: no side condition) and every decode entry point, the model's
   outcome is neither Panic (an index / slice expression out of range) nor Fuel (a loop that did not finish
   within S (length b) iterations); and the number of list elements a decoder creates is bounded linearly
   in the input length (TransportLayerCC: by the 16-bit status count plus 13, also on error outcomes).
   Only statements here; proofs in Proofs/Total1-3.v, Dgram.v, Assemble.v. *)
From RTCP Require Import Proofs.Tactics Model.Header Model.Reports Model.Sdes Model.ByeApp Model.Feedback Model.Twcc
  Model.Ccfb Model.Remb Model.Xr Model.Packet Proofs.HeaderProofs Proofs.Total1 Proofs.Total2 Proofs.Total3 Proofs.Dgram Proofs.Assemble Proofs.Extras.
Local Open Scope N_scope.

Theorem C01_Unmarshal_total : forall b : bytes, Unmarshal b <> Panic /\ Unmarshal b <> Fuel.
Proof. exact Unmarshal_never_panics. Qed.
Print Assumptions C01_Unmarshal_total.

Theorem C01_CompoundPacket_total : forall b : bytes, Compound_unmarshal b <> Panic /\ Compound_unmarshal b <> Fuel.
Proof. exact Compound_unmarshal_never_panics. Qed.
Print Assumptions C01_CompoundPacket_total.

Theorem C01_Header_total : forall b : bytes, Header_unmarshal b <> Panic /\ Header_unmarshal b <> Fuel.
Proof. exact Header_unmarshal_total. Qed.
Print Assumptions C01_Header_total.

Theorem C01_SenderReport_total : forall b : bytes, SR_unmarshal b <> Panic /\ SR_unmarshal b <> Fuel.
Proof. exact SR_unmarshal_total. Qed.
Print Assumptions C01_SenderReport_total.

Theorem C01_ReceiverReport_total : forall b : bytes, RR_unmarshal b <> Panic /\ RR_unmarshal b <> Fuel.
Proof. exact RR_unmarshal_total. Qed.
Print Assumptions C01_ReceiverReport_total.

Theorem C01_SourceDescription_total : forall b : bytes, SDES_unmarshal b <> Panic /\ SDES_unmarshal b <> Fuel.
Proof. exact SDES_unmarshal_total. Qed.
Print Assumptions C01_SourceDescription_total.

Theorem C01_Goodbye_total : forall b : bytes, BYE_unmarshal b <> Panic /\ BYE_unmarshal b <> Fuel.
Proof. exact BYE_unmarshal_total. Qed.
Print Assumptions C01_Goodbye_total.

Theorem C01_ApplicationDefined_total : forall b : bytes, APP_unmarshal b <> Panic /\ APP_unmarshal b <> Fuel.
Proof. exact APP_unmarshal_total. Qed.
Print Assumptions C01_ApplicationDefined_total.

Theorem C01_TransportLayerNack_total : forall b : bytes, NACK_unmarshal b <> Panic /\ NACK_unmarshal b <> Fuel.
Proof. exact NACK_unmarshal_total. Qed.
Print Assumptions C01_TransportLayerNack_total.

Theorem C01_RapidResynchronizationRequest_total : forall b : bytes, RRR_unmarshal b <> Panic /\ RRR_unmarshal b <> Fuel.
Proof. exact RRR_unmarshal_total. Qed.
Print Assumptions C01_RapidResynchronizationRequest_total.

Theorem C01_TransportLayerCC_total : forall b : bytes, TWCC_unmarshal b <> Panic /\ TWCC_unmarshal b <> Fuel.
Proof. exact TWCC_unmarshal_total. Qed.
Print Assumptions C01_TransportLayerCC_total.

Theorem C01_CCFeedbackReport_total : forall b : bytes, CCFB_unmarshal b <> Panic /\ CCFB_unmarshal b <> Fuel.
Proof. exact CCFB_unmarshal_total. Qed.
Print Assumptions C01_CCFeedbackReport_total.

Theorem C01_PictureLossIndication_total : forall b : bytes, PLI_unmarshal b <> Panic /\ PLI_unmarshal b <> Fuel.
Proof. exact PLI_unmarshal_total. Qed.
Print Assumptions C01_PictureLossIndication_total.

Theorem C01_SliceLossIndication_total : forall b : bytes, SLI_unmarshal b <> Panic /\ SLI_unmarshal b <> Fuel.
Proof. exact SLI_unmarshal_total. Qed.
Print Assumptions C01_SliceLossIndication_total.

Theorem C01_ReceiverEstimatedMaximumBitrate_total : forall b : bytes, REMB_unmarshal b <> Panic /\ REMB_unmarshal b <> Fuel.
Proof. exact REMB_unmarshal_total. Qed.
Print Assumptions C01_ReceiverEstimatedMaximumBitrate_total.

Theorem C01_FullIntraRequest_total : forall b : bytes, FIR_unmarshal b <> Panic /\ FIR_unmarshal b <> Fuel.
Proof. exact FIR_unmarshal_total. Qed.
Print Assumptions C01_FullIntraRequest_total.

Theorem C01_ExtendedReport_total : forall b : bytes, XR_unmarshal b <> Panic /\ XR_unmarshal b <> Fuel.
Proof. exact XR_unmarshal_total. Qed.
Print Assumptions C01_ExtendedReport_total.

Theorem C01_RawPacket_total : forall b : bytes, Raw_unmarshal b <> Panic /\ Raw_unmarshal b <> Fuel.
Proof. exact Raw_unmarshal_total. Qed.
Print Assumptions C01_RawPacket_total.

Theorem C01_ReceptionReport_total : forall b : bytes, RRep_unmarshal b <> Panic /\ RRep_unmarshal b <> Fuel.
Proof. exact RRep_unmarshal_total. Qed.
Print Assumptions C01_ReceptionReport_total.

Theorem C01_SourceDescriptionChunk_total : forall b : bytes, SChunk_unmarshal b <> Panic /\ SChunk_unmarshal b <> Fuel.
Proof. exact SChunk_unmarshal_total. Qed.
Print Assumptions C01_SourceDescriptionChunk_total.

Theorem C01_SourceDescriptionItem_total : forall b : bytes, SItem_unmarshal b <> Panic /\ SItem_unmarshal b <> Fuel.
Proof. exact SItem_unmarshal_total. Qed.
Print Assumptions C01_SourceDescriptionItem_total.

Theorem C01_RunLengthChunk_total : forall b : bytes, RLC_unmarshal b <> Panic /\ RLC_unmarshal b <> Fuel.
Proof. exact RLC_unmarshal_total. Qed.
Print Assumptions C01_RunLengthChunk_total.

Theorem C01_StatusVectorChunk_total : forall b : bytes, SVC_unmarshal b <> Panic /\ SVC_unmarshal b <> Fuel.
Proof. exact SVC_unmarshal_total. Qed.
Print Assumptions C01_StatusVectorChunk_total.

Theorem C01_RecvDelta_total : forall b : bytes, RecvDelta_unmarshal b <> Panic /\ RecvDelta_unmarshal b <> Fuel.
Proof. exact RecvDelta_unmarshal_total. Qed.
Print Assumptions C01_RecvDelta_total.

Theorem C01_CCFeedbackReportBlock_total : forall b : bytes, CCBlock_unmarshal b <> Panic /\ CCBlock_unmarshal b <> Fuel.
Proof. exact CCBlock_unmarshal_total. Qed.
Print Assumptions C01_CCFeedbackReportBlock_total.

Theorem C01_CCFeedbackMetricBlock_total : forall b : bytes, CCMetric_unmarshal b <> Panic /\ CCMetric_unmarshal b <> Fuel.
Proof. exact CCMetric_unmarshal_total. Qed.
Print Assumptions C01_CCFeedbackMetricBlock_total.

(* ---- allocation: elements created are bounded by the input length ---- *)
Theorem C01_SenderReport_alloc : forall b s, SR_unmarshal b = Ok s -> (24 * length (sr_reports s) + length (sr_ext s) <= length b)%nat.
Proof. exact SR_unmarshal_alloc. Qed.
Print Assumptions C01_SenderReport_alloc.
Theorem C01_ReceiverReport_alloc : forall b r, RR_unmarshal b = Ok r -> (24 * length (rcv_reports r) + length (rcv_ext r) <= length b)%nat.
Proof. exact RR_unmarshal_alloc. Qed.
Print Assumptions C01_ReceiverReport_alloc.
Theorem C01_Goodbye_alloc : forall b g, BYE_unmarshal b = Ok g -> (4 * length (bye_sources g) + length (bye_reason g) <= length b)%nat.
Proof. exact BYE_unmarshal_alloc. Qed.
Print Assumptions C01_Goodbye_alloc.
Theorem C01_SourceDescription_alloc : forall b s, SDES_unmarshal b = Ok s ->
  4 + 5 * nlen (sd_chunks s) + 2 * chunks_items (sd_chunks s) + chunks_text (sd_chunks s) <= len b.
Proof. exact SDES_unmarshal_alloc. Qed.
Print Assumptions C01_SourceDescription_alloc.
Theorem C01_TransportLayerNack_alloc : forall b p, NACK_unmarshal b = Ok p -> 4 * nlen (nack_pairs p) <= len b.
Proof. exact NACK_unmarshal_alloc. Qed.
Print Assumptions C01_TransportLayerNack_alloc.
Theorem C01_SliceLossIndication_alloc : forall b p, SLI_unmarshal b = Ok p -> 4 * nlen (sli_entries p) <= len b.
Proof. exact SLI_unmarshal_alloc. Qed.
Print Assumptions C01_SliceLossIndication_alloc.
Theorem C01_FullIntraRequest_alloc : forall b p, FIR_unmarshal b = Ok p -> 8 * nlen (fir_entries p) <= len b.
Proof. exact FIR_unmarshal_alloc. Qed.
Print Assumptions C01_FullIntraRequest_alloc.
Theorem C01_REMB_alloc : forall b p, REMB_unmarshal b = Ok p -> 4 * nlen (remb_ssrcs p) <= len b.
Proof. exact REMB_unmarshal_alloc. Qed.
Print Assumptions C01_REMB_alloc.
Theorem C01_CCFeedbackReport_alloc : forall b p, CCFB_unmarshal b = Ok p -> 8 * nlen (cc_blocks p) + 2 * metric_count (cc_blocks p) <= len b.
Proof. exact CCFB_unmarshal_alloc. Qed.
Print Assumptions C01_CCFeedbackReport_alloc.
(* TransportLayerCC: chunks bounded by the input, deltas by the 16-bit status count plus one vector chunk's surplus *)
Theorem C01_TransportLayerCC_alloc : forall b t, TWCC_unmarshal b = Ok t ->
  20 + 2 * N.of_nat (length (tw_chunks t)) <= len b /\ N.of_nat (length (tw_deltas t)) <= tw_count t + 13 /\ tw_count t <= 65535.
Proof. exact TWCC_unmarshal_alloc_bound_sharp. Qed.
Print Assumptions C01_TransportLayerCC_alloc.
(* ... and whatever the outcome (Go allocates before it fails): what the status loop has appended when it stops *)
Theorem C01_TransportLayerCC_alloc_any_outcome : forall raw nc nd, TWCC_alloc raw = Some (nc, nd) -> 20 + 2 * nc <= len raw /\ nd <= 65535 + 13.
Proof. exact TWCC_alloc_bound. Qed.
Print Assumptions C01_TransportLayerCC_alloc_any_outcome.
Theorem C01_TransportLayerCC_alloc_counts_the_model : forall raw t, TWCC_unmarshal raw = Ok t -> TWCC_alloc raw = Some (nlen (tw_chunks t), nlen (tw_deltas t)).
Proof. exact TWCC_alloc_agrees. Qed.
Print Assumptions C01_TransportLayerCC_alloc_counts_the_model.

(* non-vacuity: decoders do return values on some inputs, and errors on others *)
Example C01_example : is_ok (Unmarshal [x80; xc9; x00; x01; x00; x00; x00; x01]) = true /\ Unmarshal [x80] = Err /\ SLI_unmarshal [x82; xcd; x00; x00; x00; x00; x00; x00] = Err.
Proof. vm_compute. repeat split; reflexivity. Qed.

(* ---- memory at the datagram level: the elements all returned packets hold (elems: Proofs/Extras.v), for EVERY accepted byte string ---- *)
Theorem C01_frame_alloc : forall f p, decode_frame f = Ok p -> elems p <= 65535 + 13 + 2 * len f.
Proof. exact decode_frame_alloc. Qed.
Print Assumptions C01_frame_alloc.
Theorem C01_datagram_alloc : forall b ps, Unmarshal b = Ok ps ->
  fold_right (fun p acc => elems p + acc) 0 ps <= (65535 + 13) * N.of_nat (List.length ps) + 2 * len b /\
  4 * N.of_nat (List.length ps) <= len b.
Proof. exact Unmarshal_alloc. Qed.
Print Assumptions C01_datagram_alloc.
Theorem C01_datagram_alloc_linear : forall b ps, Unmarshal b = Ok ps -> fold_right (fun p acc => elems p + acc) 0 ps <= 16388 * len b.
Proof. exact Unmarshal_alloc_linear. Qed.
Print Assumptions C01_datagram_alloc_linear.
Theorem C01_ExtendedReport_alloc : forall b x, XR_unmarshal b = Ok x -> 8 + blocks_wire (xr_blocks x) <= len b.
Proof. exact XR_unmarshal_alloc. Qed.
Print Assumptions C01_ExtendedReport_alloc.

(* BEGIN source-translation (generated by tools/mksourceprops.py; do not edit by hand) *)
(* the decoders as translated from the Go source text on this run never panic and never run out of fuel (from the model-level totality theorems above through the equivalences).
   Gen/Funcs.v (module GoSrc) is written by srcgen/trans.go from /repo on every run; Lib/GoSem.v gives the meaning of its primitives. *)
From RTCP Require Import Proofs.Tactics Lib.GoSem Gen.Funcs Check.GoOpaque Proofs.GoSemFacts Proofs.HeaderProofs
  Model.Header Model.Reports Model.Sdes Model.ByeApp Model.Feedback Model.Twcc Model.Ccfb Model.Remb Model.Xr Model.Packet
  Spec.Enc Spec.XrSpec Spec.Laws Proofs.Dgram Proofs.Assemble Proofs.Guards Proofs.PacketLevel Proofs.Reencode
  Proofs.Misc Proofs.Extras Proofs.EncFeedback Proofs.Image1 Proofs.Image2 Proofs.Image3 Proofs.EncTwcc Proofs.TwccCorollaries Proofs.Total1 Proofs.Total2 Proofs.Total3
  Proofs.SourceEquiv Proofs.SrcConv Proofs.SourceSR Proofs.SourceRR Proofs.SourceSdes Proofs.SourceByeApp
  Proofs.SourceFeedback1 Proofs.SourceFeedback2 Proofs.SourceCcfb Proofs.SourceTwccEnc Proofs.SourceTwccDec
  Proofs.SourcePacket Proofs.SourceCompound Proofs.SourceCompoundClosed.
From Coq Require Import String.
From RTCP Require Import Proofs.Tactics Lib.GoSem Lib.Reflect Gen.Layouts Gen.Funcs Model.Xr Proofs.GoSemFacts Proofs.SrcConv.
From RTCP Require Import Proofs.Tactics Lib.GoSem Lib.Reflect Gen.Layouts Gen.Funcs Gen.FuncsXr Model.Header Model.Xr
  Proofs.GoSemFacts Proofs.SrcConv Proofs.HeaderProofs Proofs.EncXr Proofs.SourceEquiv Proofs.SourceXr Check.GoOpaque Check.XrOracles.
From RTCP Require Import Spec.Enc Spec.XrSpec Proofs.XrRead Proofs.Total3.
From RTCP Require Import Lib.Base Lib.GoSem Gen.Consts Gen.Funcs Model.Header Model.Reports Model.Sdes Model.ByeApp Model.Feedback Model.Twcc Model.Ccfb Model.Packet Proofs.SourceEquiv Proofs.SrcConv Proofs.SourceFeedback2 Proofs.SourceSR Proofs.SourceRR Proofs.SourceSdes Proofs.SourceByeApp Proofs.SourceFeedback1 Proofs.SourceCcfb Proofs.SourceTwccEnc Proofs.SourceTwccDec Proofs.SourcePacket Proofs.SourceCompound Proofs.SourceCompoundClosed Proofs.SourceTheorems Proofs.SourceXr Proofs.SourceXrCodec.
Module C01_SourceFeedback2.
Import Proofs.SourceFeedback2.
Local Open Scope Z_scope.
Theorem C01_source_FullIntraRequest_Unmarshal_total : forall p0 b,
  GoSrc.FullIntraRequest_Unmarshal p0 b <> Panic /\ GoSrc.FullIntraRequest_Unmarshal p0 b <> Fuel.
Proof. exact src_FullIntraRequest_Unmarshal_total. Qed.
Print Assumptions C01_source_FullIntraRequest_Unmarshal_total.
Theorem C01_source_SliceLossIndication_Unmarshal_total : forall p0 b,
  GoSrc.SliceLossIndication_Unmarshal p0 b <> Panic /\ GoSrc.SliceLossIndication_Unmarshal p0 b <> Fuel.
Proof. exact src_SliceLossIndication_Unmarshal_total. Qed.
Print Assumptions C01_source_SliceLossIndication_Unmarshal_total.
End C01_SourceFeedback2.
Module C01_SourcePacket.
Import Proofs.SourcePacket.
Local Open Scope Z_scope.
Theorem C01_source_Unmarshal_total : forall b, GoSrc.Unmarshal b <> Panic /\ GoSrc.Unmarshal b <> Fuel.
Proof. exact src_Unmarshal_total. Qed.
Print Assumptions C01_source_Unmarshal_total.
End C01_SourcePacket.
Module C01_SourceSdes.
Import Proofs.SourceSdes.
Local Open Scope Z_scope.
Theorem C01_source_SourceDescriptionItem_Unmarshal_total : forall s0 b,
  GoSrc.SourceDescriptionItem_Unmarshal s0 b <> Panic /\ GoSrc.SourceDescriptionItem_Unmarshal s0 b <> Fuel.
Proof. exact src_SourceDescriptionItem_Unmarshal_total. Qed.
Print Assumptions C01_source_SourceDescriptionItem_Unmarshal_total.
Theorem C01_source_SourceDescriptionChunk_Unmarshal_total : forall s0 b,
  GoSrc.SourceDescriptionChunk_Unmarshal s0 b <> Panic /\ GoSrc.SourceDescriptionChunk_Unmarshal s0 b <> Fuel.
Proof. exact src_SourceDescriptionChunk_Unmarshal_total. Qed.
Print Assumptions C01_source_SourceDescriptionChunk_Unmarshal_total.
Theorem C01_source_SourceDescription_Unmarshal_total : forall b,
  GoSrc.SourceDescription_Unmarshal GoSrc.zero_SourceDescription b <> Panic /\
  GoSrc.SourceDescription_Unmarshal GoSrc.zero_SourceDescription b <> Fuel.
Proof. exact src_SourceDescription_Unmarshal_total. Qed.
Print Assumptions C01_source_SourceDescription_Unmarshal_total.
Theorem C01_source_RawPacket_Unmarshal_total : forall r0 b,
  GoSrc.RawPacket_Unmarshal r0 b <> Panic /\ GoSrc.RawPacket_Unmarshal r0 b <> Fuel.
Proof. exact src_RawPacket_Unmarshal_total. Qed.
Print Assumptions C01_source_RawPacket_Unmarshal_total.
End C01_SourceSdes.
Module C01_SourceTheorems.
Import Proofs.SourceTheorems.
Local Open Scope N_scope.
Theorem C01_src_Unmarshal_total : forall b : bytes, GoSrc.Unmarshal b <> Panic /\ GoSrc.Unmarshal b <> Fuel.
Proof. exact source_C01_Unmarshal_total. Qed.
Print Assumptions C01_src_Unmarshal_total.
Theorem C01_src_unmarshal_total : forall b : bytes, GoSrc.unmarshal b <> Panic /\ GoSrc.unmarshal b <> Fuel.
Proof. exact source_C01_unmarshal_total. Qed.
Print Assumptions C01_src_unmarshal_total.
Theorem C01_src_CompoundPacket_total : forall c0 (b : bytes),
  GoSrc.CompoundPacket_Unmarshal c0 b <> Panic /\ GoSrc.CompoundPacket_Unmarshal c0 b <> Fuel.
Proof. exact source_C01_CompoundPacket_total. Qed.
Print Assumptions C01_src_CompoundPacket_total.
Theorem C01_src_Header_total : forall h0 (b : bytes),
  GoSrc.Header_Unmarshal h0 b <> Panic /\ GoSrc.Header_Unmarshal h0 b <> Fuel.
Proof. exact source_C01_Header_total. Qed.
Print Assumptions C01_src_Header_total.
Theorem C01_src_ReceptionReport_total : forall r0 (b : bytes),
  GoSrc.ReceptionReport_Unmarshal r0 b <> Panic /\ GoSrc.ReceptionReport_Unmarshal r0 b <> Fuel.
Proof. exact source_C01_ReceptionReport_total. Qed.
Print Assumptions C01_src_ReceptionReport_total.
Theorem C01_src_SenderReport_total : forall b : bytes,
  GoSrc.SenderReport_Unmarshal GoSrc.zero_SenderReport b <> Panic /\
  GoSrc.SenderReport_Unmarshal GoSrc.zero_SenderReport b <> Fuel.
Proof. exact source_C01_SenderReport_total. Qed.
Print Assumptions C01_src_SenderReport_total.
Theorem C01_src_ReceiverReport_total : forall b : bytes,
  GoSrc.ReceiverReport_Unmarshal GoSrc.zero_ReceiverReport b <> Panic /\
  GoSrc.ReceiverReport_Unmarshal GoSrc.zero_ReceiverReport b <> Fuel.
Proof. exact source_C01_ReceiverReport_total. Qed.
Print Assumptions C01_src_ReceiverReport_total.
Theorem C01_src_SourceDescription_total : forall b : bytes,
  GoSrc.SourceDescription_Unmarshal GoSrc.zero_SourceDescription b <> Panic /\
  GoSrc.SourceDescription_Unmarshal GoSrc.zero_SourceDescription b <> Fuel.
Proof. exact source_C01_SourceDescription_total. Qed.
Print Assumptions C01_src_SourceDescription_total.
Theorem C01_src_SourceDescriptionChunk_total : forall s0 (b : bytes),
  GoSrc.SourceDescriptionChunk_Unmarshal s0 b <> Panic /\ GoSrc.SourceDescriptionChunk_Unmarshal s0 b <> Fuel.
Proof. exact source_C01_SourceDescriptionChunk_total. Qed.
Print Assumptions C01_src_SourceDescriptionChunk_total.
Theorem C01_src_SourceDescriptionItem_total : forall s0 (b : bytes),
  GoSrc.SourceDescriptionItem_Unmarshal s0 b <> Panic /\ GoSrc.SourceDescriptionItem_Unmarshal s0 b <> Fuel.
Proof. exact source_C01_SourceDescriptionItem_total. Qed.
Print Assumptions C01_src_SourceDescriptionItem_total.
Theorem C01_src_Goodbye_total : forall b : bytes,
  GoSrc.Goodbye_Unmarshal GoSrc.zero_Goodbye b <> Panic /\ GoSrc.Goodbye_Unmarshal GoSrc.zero_Goodbye b <> Fuel.
Proof. exact source_C01_Goodbye_total. Qed.
Print Assumptions C01_src_Goodbye_total.
Theorem C01_src_ApplicationDefined_total : forall a0 (b : bytes),
  GoSrc.ApplicationDefined_Unmarshal a0 b <> Panic /\ GoSrc.ApplicationDefined_Unmarshal a0 b <> Fuel.
Proof. exact source_C01_ApplicationDefined_total. Qed.
Print Assumptions C01_src_ApplicationDefined_total.
Theorem C01_src_TransportLayerNack_total : forall p0 (b : bytes),
  GoSrc.TransportLayerNack_Unmarshal p0 b <> Panic /\ GoSrc.TransportLayerNack_Unmarshal p0 b <> Fuel.
Proof. exact source_C01_TransportLayerNack_total. Qed.
Print Assumptions C01_src_TransportLayerNack_total.
Theorem C01_src_RapidResynchronizationRequest_total : forall p0 (b : bytes),
  GoSrc.RapidResynchronizationRequest_Unmarshal p0 b <> Panic /\ GoSrc.RapidResynchronizationRequest_Unmarshal p0 b <> Fuel.
Proof. exact source_C01_RapidResynchronizationRequest_total. Qed.
Print Assumptions C01_src_RapidResynchronizationRequest_total.
Theorem C01_src_PictureLossIndication_total : forall p0 (b : bytes),
  GoSrc.PictureLossIndication_Unmarshal p0 b <> Panic /\ GoSrc.PictureLossIndication_Unmarshal p0 b <> Fuel.
Proof. exact source_C01_PictureLossIndication_total. Qed.
Print Assumptions C01_src_PictureLossIndication_total.
Theorem C01_src_SliceLossIndication_total : forall p0 (b : bytes),
  GoSrc.SliceLossIndication_Unmarshal p0 b <> Panic /\ GoSrc.SliceLossIndication_Unmarshal p0 b <> Fuel.
Proof. exact source_C01_SliceLossIndication_total. Qed.
Print Assumptions C01_src_SliceLossIndication_total.
Theorem C01_src_FullIntraRequest_total : forall p0 (b : bytes),
  GoSrc.FullIntraRequest_Unmarshal p0 b <> Panic /\ GoSrc.FullIntraRequest_Unmarshal p0 b <> Fuel.
Proof. exact source_C01_FullIntraRequest_total. Qed.
Print Assumptions C01_src_FullIntraRequest_total.
Theorem C01_src_TransportLayerCC_total : forall b : bytes,
  GoSrc.TransportLayerCC_Unmarshal GoSrc.zero_TransportLayerCC b <> Panic /\
  GoSrc.TransportLayerCC_Unmarshal GoSrc.zero_TransportLayerCC b <> Fuel.
Proof. exact source_C01_TransportLayerCC_total. Qed.
Print Assumptions C01_src_TransportLayerCC_total.
Theorem C01_src_RunLengthChunk_total : forall r0 (b : bytes),
  GoSrc.RunLengthChunk_Unmarshal r0 b <> Panic /\ GoSrc.RunLengthChunk_Unmarshal r0 b <> Fuel.
Proof. exact source_C01_RunLengthChunk_total. Qed.
Print Assumptions C01_src_RunLengthChunk_total.
Theorem C01_src_StatusVectorChunk_total : forall r0 (b : bytes),
  GoSrc.StatusVectorChunk_Unmarshal r0 b <> Panic /\ GoSrc.StatusVectorChunk_Unmarshal r0 b <> Fuel.
Proof. exact source_C01_StatusVectorChunk_total. Qed.
Print Assumptions C01_src_StatusVectorChunk_total.
Theorem C01_src_RecvDelta_total : forall r0 (b : bytes),
  GoSrc.RecvDelta_Unmarshal r0 b <> Panic /\ GoSrc.RecvDelta_Unmarshal r0 b <> Fuel.
Proof. exact source_C01_RecvDelta_total. Qed.
Print Assumptions C01_src_RecvDelta_total.
Theorem C01_src_CCFeedbackReport_total : forall p0 (b : bytes),
  GoSrc.CCFeedbackReport_Unmarshal p0 b <> Panic /\ GoSrc.CCFeedbackReport_Unmarshal p0 b <> Fuel.
Proof. exact source_C01_CCFeedbackReport_total. Qed.
Print Assumptions C01_src_CCFeedbackReport_total.
Theorem C01_src_CCFeedbackReportBlock_total : forall b : bytes,
  GoSrc.CCFeedbackReportBlock_unmarshal GoSrc.zero_CCFeedbackReportBlock b <> Panic /\
  GoSrc.CCFeedbackReportBlock_unmarshal GoSrc.zero_CCFeedbackReportBlock b <> Fuel.
Proof. exact source_C01_CCFeedbackReportBlock_total. Qed.
Print Assumptions C01_src_CCFeedbackReportBlock_total.
Theorem C01_src_CCFeedbackMetricBlock_total : forall m0 (b : bytes),
  GoSrc.CCFeedbackMetricBlock_unmarshal m0 b <> Panic /\ GoSrc.CCFeedbackMetricBlock_unmarshal m0 b <> Fuel.
Proof. exact source_C01_CCFeedbackMetricBlock_total. Qed.
Print Assumptions C01_src_CCFeedbackMetricBlock_total.
Theorem C01_src_RawPacket_total : forall r0 (b : bytes),
  GoSrc.RawPacket_Unmarshal r0 b <> Panic /\ GoSrc.RawPacket_Unmarshal r0 b <> Fuel.
Proof. exact source_C01_RawPacket_total. Qed.
Print Assumptions C01_src_RawPacket_total.
Theorem C01_src_Packet_Unmarshal_total : forall t (b : bytes), t <> TCompound ->
  GoSrc.Packet_Unmarshal (zero_packet t) b <> Panic /\ GoSrc.Packet_Unmarshal (zero_packet t) b <> Fuel.
Proof. exact source_C01_Packet_Unmarshal_total. Qed.
Print Assumptions C01_src_Packet_Unmarshal_total.
Theorem C01_src_datagram_alloc : forall b l, GoSrc.Unmarshal b = Ok l ->
  exists ps, l = map src_packet ps /\
    fold_right (fun p acc => elems p + acc) 0 ps <= (65535 + 13) * N.of_nat (List.length l) + 2 * len b /\
    (4 * glenl l <= glen b)%Z /\
    fold_right (fun p acc => elems p + acc) 0 ps <= 16388 * len b.
Proof. exact source_C01_datagram_alloc. Qed.
Print Assumptions C01_src_datagram_alloc.
Theorem C01_src_TransportLayerCC_alloc : forall b t, GoSrc.TransportLayerCC_Unmarshal GoSrc.zero_TransportLayerCC b = Ok t ->
  (20 + 2 * glenl (GoSrc.TransportLayerCC_PacketChunks t) <= glen b /\
   glenl (GoSrc.TransportLayerCC_RecvDeltas t) <= GoSrc.TransportLayerCC_PacketStatusCount t + 13 /\
   GoSrc.TransportLayerCC_PacketStatusCount t <= 65535)%Z.
Proof. exact source_C01_TransportLayerCC_alloc. Qed.
Print Assumptions C01_src_TransportLayerCC_alloc.
End C01_SourceTheorems.
Module C01_SourceXrCodec.
Import Proofs.SourceXrCodec.
Local Open Scope Z_scope.
Theorem C01_src_xr_unmarshal_total : forall x0 b,
  X.ExtendedReport_Unmarshal m_read_uint32 m_read_XRHeader m_read_ReportBlock x0 b <> Panic /\
  X.ExtendedReport_Unmarshal m_read_uint32 m_read_XRHeader m_read_ReportBlock x0 b <> Fuel.
Proof. exact source_C01_xr_unmarshal_total. Qed.
Print Assumptions C01_src_xr_unmarshal_total.
End C01_SourceXrCodec.
(* END source-translation *)
