(* C10 - DestinationSSRC lists exactly the SSRCs the packet refers to.  Statements only (proofs: Proofs/Misc.v, EncReports.v ...). *)
From RTCP Require Import Proofs.Tactics Model.Header Model.Reports Model.Xr Model.Packet Spec.Enc Spec.XrSpec Spec.Laws
  Proofs.Misc Proofs.EncReports Proofs.EncXr Proofs.PacketLevel Proofs.Extras.
Local Open Scope N_scope.

(* every packet value, no hypothesis (nested compounds included): the model's DestinationSSRC is the documented list
   (report SSRCs then the sender for SR; chunk sources; BYE sources; the APP SSRC; the media SSRC of NACK/PLI/RRR/SLI/TWCC;
   FIR entry SSRCs; the REMB list; CCFB block SSRCs; the XR sender then each block's sources; none for Raw;
   the first member's for a compound) *)
Theorem C10_dest_is_documented : forall p : packet, dest_packet p = dest_spec p.
Proof. exact dest_is_spec. Qed.
Print Assumptions C10_dest_is_documented.

Theorem C10_xr_block_dest : forall b : XRBlock, block_dest b = sblock_dest (abs_block b).
Proof. exact block_dest_spec. Qed.
Print Assumptions C10_xr_block_dest.

(* the list does not depend on ExtendedReport's header bookkeeping (so it is the same before and after Marshal) *)
Theorem C10_dest_canon : forall p, dest_packet (canon p) = dest_packet p.
Proof. exact dest_canon. Qed.
Print Assumptions C10_dest_canon.

(* same list after an encode/decode round trip; stated where the round-trip lemma is proved per type:
   the documented quantisation of RR (extension padding) does not touch the SSRCs *)
Theorem C10_rr_roundtrip : forall r, D_RR r = true ->
  exists r', RR_unmarshal (enc_RR r) = Ok r' /\ dest_packet (PRR r') = dest_packet (PRR r).
Proof. intros r H. exists (q_RR r). split; [apply RR_unmarshal_enc; exact H|reflexivity]. Qed.
Print Assumptions C10_rr_roundtrip.

Theorem C10_sr_roundtrip : forall s, D_SR s = true ->
  exists s', SR_unmarshal (enc_SR s) = Ok s' /\ dest_packet (PSR s') = dest_packet (PSR s).
Proof. intros s H. exists s. split; [apply SR_unmarshal_enc; exact H|reflexivity]. Qed.
Print Assumptions C10_sr_roundtrip.

Example C10_example : dest_packet (PSR (mkSR 9 0 0 0 0 [mkRRep 1 0 0 0 0 0 0; mkRRep 2 0 0 0 0 0 0] [])) = [1; 2; 9]
  /\ dest_packet (PCompound []) = [].
Proof. split; reflexivity. Qed.

(* the same list after an encode/decode round trip, for every supported packet type (own decoder and datagram decoder) and for XR *)
Theorem C10_roundtrip : forall p, supported p = true -> in_D p = true ->
  exists b p', marshal_packet p = Ok b /\ decode_as (tag_of_packet p) b = Ok p' /\ dest_packet p' = dest_packet p.
Proof. exact dest_roundtrip. Qed.
Print Assumptions C10_roundtrip.
Theorem C10_roundtrip_datagram : forall p, supported p = true -> in_D p = true -> len (enc_spec p) < 262144 ->
  exists b p', marshal_packet p = Ok b /\ Unmarshal b = Ok [p'] /\ dest_packet p' = dest_packet p.
Proof. exact dest_roundtrip_datagram. Qed.
Print Assumptions C10_roundtrip_datagram.
Theorem C10_roundtrip_xr : forall x, D_XR x = true -> Forall wf_block (xr_blocks x) -> len (enc_XR x) < 262144 ->
  exists b x', marshal_packet (PXR x) = Ok b /\ decode_as TXR b = Ok (PXR x') /\ Unmarshal b = Ok [PXR x'] /\
               dest_packet (PXR x') = dest_packet (PXR x).
Proof. exact XR_dest_roundtrip. Qed.
Print Assumptions C10_roundtrip_xr.
