(* C14 - REMB bitrate coding is exact, monotone and saturating.  Statements only (proofs: Proofs/EncCcfbRemb.v).
   float32 is modelled exactly: a bit pattern denotes the dyadic m * 2^e (Model/Remb.v f32_of_bits); every float operation
   of MarshalTo / Unmarshal (compare, halve a value >= 2^18, floor) is exact on dyadics, so there is no rounding to model.
   remb_floor bits = Some x : bits is a finite non-negative float32 and x is the floor of its value.
   remb_ref x (Spec/Enc.v)  : the reference quantiser, (exponent, mantissa) written with Z.log2, independently of the loop.
   All theorems are general (no enumeration); the decoder statement covers all 64 x (2^18 - 1) pairs with a non-zero mantissa,
   the zero mantissa is finding F16. *)
From RTCP Require Import Proofs.Tactics Model.Header Model.Remb Spec.Enc Spec.Laws Proofs.EncCcfbRemb.
Local Open Scope Z_scope.

(* decoding yields exactly mantissa * 2^exponent *)
Theorem C14_decode_exact : forall e m, 0 <= e < 64 -> 0 < m < 2 ^ 18 ->
  exists m' e', remb_value (Z.to_N (remb_dec e m)) = Some (m', e') /\ m' * 2 ^ (e' + 149) = m * 2 ^ (e + 149)
                /\ remb_floor (Z.to_N (remb_dec e m)) = Some (m * 2 ^ e).
Proof. exact remb_decode_exact. Qed.
Print Assumptions C14_decode_exact.

(* encoding: the halving loop computes the reference quantiser, for every finite non-negative float32 *)
Theorem C14_encode_is_reference : forall bits x, remb_floor bits = Some x -> remb_enc (Z.of_N bits) = Some (remb_ref x).
Proof. exact remb_encode_floor. Qed.
Print Assumptions C14_encode_is_reference.

(* ... which is the largest representable value not exceeding x: below, within one unit in the last place, minimal exponent *)
Theorem C14_encode_le : forall bits x, remb_floor bits = Some x ->
  exists e m, remb_enc (Z.of_N bits) = Some (e, m) /\ 0 <= e < 64 /\ 0 <= m < 2 ^ 18 /\ m * 2 ^ e <= x.
Proof. exact remb_encode_le. Qed.
Print Assumptions C14_encode_le.
Theorem C14_encode_ulp_and_minimal_exponent : forall bits x e m, remb_floor bits = Some x -> x < remb_max ->
  remb_enc (Z.of_N bits) = Some (e, m) -> 0 <= x - m * 2 ^ e < 2 ^ e /\ (m < 2 ^ 17 -> e = 0).
Proof. exact remb_ulp. Qed.
Print Assumptions C14_encode_ulp_and_minimal_exponent.
Theorem C14_encode_saturates : forall bits x, remb_floor bits = Some x -> remb_max <= x -> remb_enc (Z.of_N bits) = Some (63, 0x3FFFF).
Proof. exact remb_encode_saturates. Qed.
Print Assumptions C14_encode_saturates.
Theorem C14_encode_exact_on_representable : forall bits m e, 0 <= m < 2 ^ 18 -> 0 <= e < 64 ->
  remb_floor bits = Some (m * 2 ^ e) ->
  exists p, remb_enc (Z.of_N bits) = Some p /\ rval p = m * 2 ^ e /\ ((2 ^ 17 <= m \/ e = 0) -> p = (e, m)).
Proof. exact remb_encode_exact_on_representable. Qed.
Print Assumptions C14_encode_exact_on_representable.
Theorem C14_encode_monotone : forall b1 b2 x y p q, remb_floor b1 = Some x -> remb_floor b2 = Some y -> x <= y ->
  remb_enc (Z.of_N b1) = Some p -> remb_enc (Z.of_N b2) = Some q -> rval p <= rval q.
Proof. exact remb_encode_mono. Qed.
Print Assumptions C14_encode_monotone.
Theorem C14_negative_rejected : forall b, 2 ^ 31 < b < 2 ^ 32 -> ((b / 2 ^ 23) mod 256 <> 255 \/ b mod 2 ^ 23 = 0) -> remb_enc b = None.
Proof. exact remb_negative_rejected. Qed.
Print Assumptions C14_negative_rejected.
Theorem C14_decode_then_encode : forall e m, 0 <= e < 64 -> 0 < m < 2 ^ 18 -> (2 ^ 17 <= m \/ e = 0) -> remb_enc (remb_dec e m) = Some (e, m).
Proof. exact remb_enc_dec. Qed.
Print Assumptions C14_decode_then_encode.

(* packet level: the wire layout (count octet = number of SSRC entries, exponent/mantissa word), more than 255 SSRCs rejected *)
Theorem C14_packet_layout : forall p, D_REMB p = true -> REMB_marshal p = Ok (enc_REMB p).
Proof. exact REMB_marshal_spec. Qed.
Print Assumptions C14_packet_layout.
Theorem C14_count_octet_limit : forall p, (255 < nl (remb_ssrcs p))%N -> REMB_marshal p = Err.
Proof. exact REMB_marshal_limit. Qed.
Print Assumptions C14_count_octet_limit.
Theorem C14_packet_roundtrip : forall p, D_REMB p = true -> (forall x, remb_floor (remb_bitrate p) = Some x -> 1 <= x) ->
  REMB_unmarshal (enc_REMB p) = Ok (q_REMB p).
Proof. exact REMB_unmarshal_enc. Qed.
Print Assumptions C14_packet_roundtrip.

(* finding F16: a zero mantissa decodes to 2^(exp+23), not 0 *)
Theorem C14_decode_mantissa_zero_refuted :
  exists e, 0 <= e < 64 /\ forall m' e', remb_value (Z.to_N (remb_dec e 0)) = Some (m', e') -> m' * 2 ^ (e' + 149) <> 0 * 2 ^ (e + 149).
Proof. exact remb_decode_zero_refuted. Qed.
Print Assumptions C14_decode_mantissa_zero_refuted.
Theorem C14_zero_bitrate_roundtrip_refuted : exists p, D_REMB p = true /\ remb_bitrate p = 0%N /\ REMB_unmarshal (enc_REMB p) <> Ok (q_REMB p).
Proof. exact remb_zero_roundtrip_refuted. Qed.
Print Assumptions C14_zero_bitrate_roundtrip_refuted.
