(* C11 - CompoundPacket enforces the RFC 3550 compound rules exactly.  Statements only (proofs: Proofs/Dgram.v). *)
From RTCP Require Import Proofs.Tactics Model.Header Model.Sdes Model.Packet Spec.Enc Proofs.Dgram.
Local Open Scope N_scope.

(* compound_ok c (Spec/Enc.v): the first packet is an SR or RR, and the first later packet that is not an RR is an SDES
   containing a CNAME item - the grammar of the statement, written independently of Validate's loop *)
Theorem C11_validate_iff_grammar : forall c, Compound_validate c = Ok tt <-> compound_ok c = true.
Proof. exact validate_grammar. Qed.
Print Assumptions C11_validate_iff_grammar.

Theorem C11_validate_total : forall c, Compound_validate c <> Panic /\ Compound_validate c <> Fuel.
Proof. exact validate_not_panic. Qed.
Print Assumptions C11_validate_total.

(* Marshal succeeds exactly when Validate does and every member marshals *)
Theorem C11_marshal_iff : forall c, (exists b, marshal_packet (PCompound c) = Ok b) <-> compound_ok c = true /\ (exists b, Marshal c = Ok b).
Proof. exact compound_marshal_iff. Qed.
Print Assumptions C11_marshal_iff.

(* Unmarshal succeeds exactly when the datagram decodes and the result validates *)
Theorem C11_unmarshal_iff : forall b, (exists c, Compound_unmarshal b = Ok c) <->
  exists ps, unmarshal_loop (S (length b)) b = Ok ps /\ compound_ok ps = true.
Proof. exact compound_unmarshal_iff. Qed.
Print Assumptions C11_unmarshal_iff.

(* whenever Validate succeeds CNAME() returns the text of the first CNAME item, without error *)
Theorem C11_cname : forall c, compound_ok c = true -> exists t, first_cname c = Some t /\ Compound_cname c = Ok (t, false).
Proof. exact cname_of_valid. Qed.
Print Assumptions C11_cname.

Theorem C11_dest_is_first_members : forall c, dest_packet (PCompound c) = match c with [] => [] | f :: _ => dest_packet f end.
Proof. exact compound_dest. Qed.
Print Assumptions C11_dest_is_first_members.

Theorem C11_size_is_sum : forall c, size_packet (PCompound c) = fold_right N.add 0 (map size_packet c).
Proof. exact compound_size. Qed.
Print Assumptions C11_size_is_sum.

Example C11_example :
  compound_ok [PRR (Model.Reports.mkRR 1 [] []); PSDES (mkSDES [mkSChunk 1 [mkSItem 1 [x61]]])] = true
  /\ compound_ok [PRR (Model.Reports.mkRR 1 [] []); PSDES (mkSDES [])] = false.
Proof. split; reflexivity. Qed.
