(* C17 - String() is total.  PARTIAL by nature (DESIGN.md section 7): what can panic in a Go formatter is index
   arithmetic, nil dereference and reflect calls outside their domain; fmt itself does not panic.  The one index
   computation in the package's formatters is ReceiverEstimatedMaximumBitrate.String's unit table; it is modelled with the
   float comparison abstracted (any behaviour), and proved in range after the repair of F17.  Everything else is
   exercised by the correspondence run only (the model predicts "no panic" for every value). *)
From Coq Require Import String.
From RTCP Require Import Proofs.Tactics Gen.StringShapes Model.Remb Proofs.Misc Proofs.StringFacts.

(* for EVERY behaviour of the float comparison "bitrate >= 1000 after k divisions" the index stays inside the 7-entry table *)
Theorem C17_remb_unit_index_in_range : forall (ge1000 : nat -> bool) (fuel : nat), (remb_unit_index ge1000 fuel 0 < 7)%nat.
Proof. exact remb_unit_index_bound. Qed.
Print Assumptions C17_remb_unit_index_in_range.

(* the loop guard before the repair (powers < len(bitUnits)) reaches index 7 = len(bitUnits): the defect that was fixed *)
Theorem C17_unrepaired_guard_refuted : exists ge fuel, remb_unit_index_old ge fuel 0 = 7%nat.
Proof. exact remb_unit_index_old_refuted. Qed.
Print Assumptions C17_unrepaired_guard_refuted.

Theorem C17_unrepaired_guard_any_large_bitrate : forall ge fuel,
  (forall k, (k < 7)%nat -> ge k = true) -> (7 <= fuel)%nat -> remb_unit_index_old ge fuel 0 = 7%nat.
Proof. exact remb_unit_index_old_reaches_7. Qed.
Print Assumptions C17_unrepaired_guard_any_large_bitrate.

(* re-derived from the source on every run: every String() method, stringify and formatField are free of constructs that can
   panic on non-nil well-typed values (the REMB table index excepted, bounded above) ... *)
Theorem C17_no_panicking_construct_in_any_formatter : forallb shape_ok string_shapes = true.
Proof. exact string_shapes_ok. Qed.
Print Assumptions C17_no_panicking_construct_in_any_formatter.
(* ... and the REMB loop guard in the source is the one the model has (7 entries, powers < 7 - 1) *)
Theorem C17_remb_guard_in_source_matches_model : remb_units = 7 /\ remb_units - remb_guard_slack = 6.
Proof. exact remb_guard_matches_model. Qed.
Print Assumptions C17_remb_guard_in_source_matches_model.
