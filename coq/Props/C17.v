(* C17 - String() is total.  PARTIAL by nature (DESIGN.md section 7): what can panic in a Go formatter is index
   arithmetic, nil dereference and reflect calls outside their domain; fmt itself does not panic.  The one index
   computation in the package's formatters is ReceiverEstimatedMaximumBitrate.String's unit table; it is modelled with the
   float comparison abstracted (any behaviour), and proved in range after the repair of F17.  Everything else is
   exercised by the correspondence run only (the model predicts "no panic" for every value). *)
From RTCP Require Import Proofs.Tactics Model.Remb Proofs.Misc.

(* for EVERY behaviour of the float comparison "bitrate >= 1000 after k divisions" the index stays inside the 7-entry table *)
Theorem C17_remb_unit_index_in_range : forall (ge1000 : nat -> bool) (fuel : nat), (remb_unit_index ge1000 fuel 0 < 7)%nat.
Proof. exact remb_unit_index_bound. Qed.
Print Assumptions C17_remb_unit_index_in_range.

(* the loop guard before the repair (powers < len(bitUnits)) reaches index 7 = len(bitUnits): the defect that was fixed *)
Theorem C17_unrepaired_guard_refuted : exists ge fuel, remb_unit_index_old ge fuel 0 = 7%nat.
Proof. exact remb_unit_index_old_refuted. Qed.
Print Assumptions C17_unrepaired_guard_refuted.

Theorem C17_unrepaired_guard_any_large_bitrate : forall ge fuel,
  (forall k, (k < 7)%nat -> ge k = true) -> (7 <= fuel)%nat -> remb_unit_index_old ge fuel 0 = 7%nat.
Proof. exact remb_unit_index_old_reaches_7. Qed.
Print Assumptions C17_unrepaired_guard_any_large_bitrate.
