(* C02 - Encode-then-decode returns the original packet for every well-formed value.  Statements only
   (proofs: Proofs/PacketLevel.v, per-type Enc*.v).  q (Spec/Laws.v) is the identity except the documented quantisations:
   RR profile extensions zero-padded to 32 bits, REMB bitrate rounded down to 18 significant bits (TWCC deltas are
   multiples of 250 us inside the domain).  Open findings carve out exactly: SLI through the datagram decoder (F5),
   REMB bitrates below 1 (F16), CCFB report blocks with one metric block or crossing the sequence wrap (F6: outside D_CCFB). *)
From RTCP Require Import Proofs.Tactics Model.Header Model.Feedback Model.Ccfb Model.Remb Model.Xr Model.Packet Spec.Enc Spec.XrSpec Spec.Laws
  Proofs.Dgram Proofs.EncFeedback Proofs.EncCcfbRemb Proofs.EncXr Proofs.Guards Proofs.PacketLevel.
Local Open Scope N_scope.

(* through the type's own decoder *)
Theorem C02_own_decoder : forall p, supported p = true -> in_D p = true ->
  exists b, marshal_packet p = Ok b /\ decode_as (tag_of_packet p) b = Ok (q p).
Proof. exact marshal_then_unmarshal. Qed.
Print Assumptions C02_own_decoder.

(* through the datagram decoder: one packet, of the same concrete type (decode_as (tag_of_packet p)), equal to q p;
   re-marshalling the decoded packet reproduces the same bytes; the quantisation is idempotent *)
Theorem C02_datagram_decoder : forall p, supported p = true -> in_D p = true -> len (enc_spec p) < 262144 ->
  exists b, marshal_packet p = Ok b /\ Unmarshal b = Ok [q p] /\ marshal_packet (q p) = Ok b /\ q (q p) = q p.
Proof. exact marshal_unmarshal_marshal. Qed.
Print Assumptions C02_datagram_decoder.

(* lists: Unmarshal(Marshal(list)) returns an equal list in order, re-marshalling reproduces the bytes *)
Theorem C02_lists : forall ps, ps <> [] ->
  Forall (fun p => supported p = true /\ in_D p = true /\ len (enc_spec p) < 262144) ps ->
  exists b, Marshal ps = Ok b /\ Unmarshal b = Ok (map q ps) /\ Marshal (map q ps) = Ok b.
Proof. exact list_roundtrip. Qed.
Print Assumptions C02_lists.

(* ExtendedReport, all 8 block kinds in any order: equal up to the blocks' header bookkeeping that Marshal rewrites *)
Theorem C02_extended_report : forall x, D_XR x = true -> Forall wf_block (xr_blocks x) -> len (enc_XR x) < 262144 ->
  exists x', XR_unmarshal (enc_XR x) = Ok x' /\ canon (PXR x') = canon (PXR x) /\
             Forall wf_block (xr_blocks x') /\ D_XR x' = true /\ enc_XR x' = enc_XR x /\
             XR_marshal x' = Ok (enc_XR x) /\ Unmarshal (enc_XR x) = Ok [PXR x'].
Proof. exact XR_roundtrip_canon. Qed.
Print Assumptions C02_extended_report.

(* findings *)
Theorem C02_sli_datagram_refuted : forall v, D_SLI v = true ->
  exists b, SLI_marshal v = Ok b /\ wire_tag b = TRaw /\ decode_frame b = res_map PRaw (Raw_unmarshal b).
Proof. exact SLI_own_output_is_raw. Qed.
Print Assumptions C02_sli_datagram_refuted.
Theorem C02_sli_own_decoder : forall p, D_SLI p = true -> SLI_marshal p = Ok (enc_SLI_pion p) /\ SLI_unmarshal (enc_SLI_pion p) = Ok p.
Proof. intros p H. split; [apply SLI_marshal_pion|apply SLI_unmarshal_pion]; exact H. Qed.
Print Assumptions C02_sli_own_decoder.
Theorem C02_ccfb_one_metric_refuted :
  exists b, nl (cb_metrics b) = 1 /\ (exists raw, CCBlock_marshal b = Ok raw /\ CCBlock_unmarshal raw <> Ok b).
Proof. exact ccfb_one_metric_refuted. Qed.
Print Assumptions C02_ccfb_one_metric_refuted.
Theorem C02_remb_zero_bitrate_refuted : exists p, D_REMB p = true /\ remb_bitrate p = 0 /\ REMB_unmarshal (enc_REMB p) <> Ok (q_REMB p).
Proof. exact remb_zero_roundtrip_refuted. Qed.
Print Assumptions C02_remb_zero_bitrate_refuted.
