(* C13 - Decoded TWCC feedback is internally consistent and chunking-invariant.  Statements only
   (proofs: Proofs/EncTwcc.v, TwccCorollaries.v).  The model carries the 16-bit counters of the Go code (after the
   repairs of F3: counter wrap, and F4: a status chunk flush with the packet end). *)
From RTCP Require Import Proofs.Tactics Model.Header Model.Twcc Spec.Enc Proofs.EncTwcc Proofs.TwccCorollaries.
Local Open Scope N_scope.

(* for EVERY accepted byte string: the deltas correspond one-to-one and in order to the statuses marked received in the
   chunks (run lengths clipped to the status count), each with the size class its symbol announces *)
Theorem C13_deltas_match_statuses : forall b t, TWCC_unmarshal b = Ok t ->
  map rd_type (tw_deltas t) = filter is_recv (expand (tw_chunks t) (tw_count t)).
Proof. exact TWCC_unmarshal_delta_types. Qed.
Print Assumptions C13_deltas_match_statuses.

(* the chunk words sit right after the 20 fixed octets, the deltas follow them; every delta is the decoding of its
   own 1 or 2 wire octets, i.e. 250 us times the (signed) wire value (next two theorems) *)
Theorem C13_deltas_follow_chunks_on_the_wire : forall b t, TWCC_unmarshal b = Ok t ->
  forallb chunk_ok (tw_chunks t) = true /\
  exists ws tail, skipn 20 b = enc_chunks (tw_chunks t) ++ List.concat ws ++ tail /\
    Forall2 (fun w d => RecvDelta_unmarshal w = Ok d /\ enc_delta d = w /\ delta_ok d = true) ws (tw_deltas t).
Proof. exact TWCC_unmarshal_wire. Qed.
Print Assumptions C13_deltas_follow_chunks_on_the_wire.

Theorem C13_small_delta_value : forall b0, RecvDelta_unmarshal [b0] = Ok (mkRecvDelta 1 (250 * Z.of_N (b2n b0))).
Proof. exact RecvDelta_unmarshal_small. Qed.
Print Assumptions C13_small_delta_value.
Theorem C13_large_delta_value : forall b0 b1, RecvDelta_unmarshal [b0; b1] = Ok (mkRecvDelta 2 (250 * int16_of (b2n b0 * 256 + b2n b1))).
Proof. exact RecvDelta_unmarshal_large. Qed.
Print Assumptions C13_large_delta_value.

(* all chunks and deltas lie inside the packet's declared length, which lies inside the input *)
Theorem C13_inside_declared_length : forall b t, TWCC_unmarshal b = Ok t -> h_len (tw_hdr t) < 16383 ->
  20 + 2 * nl (tw_chunks t) + deltas_octets (tw_deltas t) <= 4 * (h_len (tw_hdr t) + 1) <= len b.
Proof. exact TWCC_unmarshal_bound_nowrap. Qed.
Print Assumptions C13_inside_declared_length.
(* ... and for length fields >= 16383, where Go's uint16 product 4*(Length+1) wraps, inside the wrapped total *)
Theorem C13_inside_declared_length_u16 : forall b t, TWCC_unmarshal b = Ok t ->
  twcc_exact_len t <= u16 (4 * u16 (h_len (tw_hdr t) + 1)) /\ u16 (4 * u16 (h_len (tw_hdr t) + 1)) <= len b.
Proof. exact TWCC_unmarshal_bound. Qed.
Print Assumptions C13_inside_declared_length_u16.

(* any two valid chunkings of the same status sequence (with the same deltas) decode to the same statuses and deltas *)
Theorem C13_chunking_invariant : forall t1 t2, D_TWCC t1 = true -> D_TWCC t2 = true ->
  statuses t1 = statuses t2 -> tw_deltas t1 = tw_deltas t2 ->
  exists d1 d2, TWCC_unmarshal (enc_TWCC t1) = Ok d1 /\ TWCC_unmarshal (enc_TWCC t2) = Ok d2 /\
                statuses d1 = statuses d2 /\ tw_deltas d1 = tw_deltas d2.
Proof. exact twcc_chunking_invariant. Qed.
Print Assumptions C13_chunking_invariant.

Example C13_example : D_TWCC ex_a = true /\ D_TWCC ex_b = true /\ statuses ex_a = statuses ex_b /\ tw_chunks ex_a <> tw_chunks ex_b.
Proof. exact twcc_chunking_example. Qed.
