(* C07 - Packets are dispatched to the right Go type; decoders reject foreign types.  Statements only
   (proofs: Proofs/Dgram.v, Guards.v).  The dispatch table is GENERATED from the switch in packet.go on every run
   (Gen/Dispatch.v); `registry` (Spec/Enc.v) is the RFC registry written by hand. *)
From RTCP Require Import Proofs.Tactics Model.Header Model.Feedback Model.Packet Spec.Enc Proofs.EncFeedback Proofs.Dgram Proofs.Guards.
Local Open Scope N_scope.

(* all 256 packet types x 32 count/FMT values (complete enumeration inside Coq): the generated table is the registry *)
Theorem C07_dispatch_table : forall pt cnt, pt < 256 -> cnt < 32 -> dispatch pt cnt = registry pt cnt.
Proof. exact dispatch_table. Qed.
Print Assumptions C07_dispatch_table.

(* every other combination comes back as a RawPacket holding the frame's bytes verbatim *)
Theorem C07_unregistered_is_raw_verbatim : forall f, framed f ->
  registry (b2n (nth 1 f x00)) (b2n (nth 0 f x00) mod 32) = TRaw -> decode_frame f = Ok (PRaw f).
Proof. exact dispatch_raw_verbatim. Qed.
Print Assumptions C07_unregistered_is_raw_verbatim.

(* a type's own decoder returns an error on a packet whose (packet type, count) its guard does not let through ... *)
Theorem C07_foreign_rejected : forall t b h, Header_unmarshal b = Ok h -> t <> TRaw -> t <> TCompound ->
  accepts t (h_type h) (h_count h) = false -> decode_as t b = Err.
Proof. exact foreign_rejected. Qed.
Print Assumptions C07_foreign_rejected.
(* ... and, except for CCFB and SLI, the guard lets through exactly the registered combination of that type *)
Theorem C07_guards_are_the_registry : forall t pt cnt, t <> TRaw -> t <> TCompound -> t <> TCCFB -> t <> TSLI ->
  (accepts t pt cnt = true <-> registry pt cnt = t).
Proof. exact accepts_vs_registry_all. Qed.
Print Assumptions C07_guards_are_the_registry.
Theorem C07_foreign_rejected_by_registry : forall t u b h, Header_unmarshal b = Ok h -> registry (h_type h) (h_count h) = u -> u <> t ->
  t <> TRaw -> t <> TCompound -> t <> TCCFB -> t <> TSLI -> decode_as t b = Err.
Proof. exact foreign_rejected_registry. Qed.
Print Assumptions C07_foreign_rejected_by_registry.

(* every type's Marshal output is dispatched back to that same type (types whose encoder is characterised) *)
Theorem C07_own_output_dispatch :
  (forall v, D_PLI v = true -> dispatches_to (enc_PLI v) TPLI) /\ (forall v, D_RRR v = true -> dispatches_to (enc_RRR v) TRRR) /\
  (forall v, D_NACK v = true -> dispatches_to (enc_NACK v) TNACK) /\ (forall v, D_FIR v = true -> dispatches_to (enc_FIR v) TFIR) /\
  (forall v, D_SR v = true -> dispatches_to (enc_SR v) TSR) /\ (forall v, D_RR v = true -> dispatches_to (enc_RR v) TRR) /\
  (forall v, D_SDES v = true -> dispatches_to (enc_SDES v) TSDES) /\ (forall v, D_BYE v = true -> dispatches_to (enc_BYE v) TBYE) /\
  (forall v, D_APP v = true -> dispatches_to (enc_APP v) TAPP).
Proof. exact own_output_dispatch. Qed.
Print Assumptions C07_own_output_dispatch.

(* finding F12: CCFeedbackReport checks the packet type only *)
Theorem C07_ccfb_accepts_any_fmt_refuted : exists b h, Header_unmarshal b = Ok h /\ h_count h <> 11 /\ exists p, Model.Ccfb.CCFB_unmarshal b = Ok p.
Proof. exact CCFB_accepts_any_fmt_refuted. Qed.
Print Assumptions C07_ccfb_accepts_any_fmt_refuted.
Theorem C07_ccfb_guard : forall pt cnt, accepts TCCFB pt cnt = true <-> pt = 205.
Proof. exact accepts_CCFB. Qed.
Print Assumptions C07_ccfb_guard.
(* finding F5: SliceLossIndication expects (and emits) 205/2 while the registry says 206/2: its own output comes back raw *)
Theorem C07_sli_own_output_is_raw : forall v, D_SLI v = true ->
  exists b, SLI_marshal v = Ok b /\ wire_tag b = TRaw /\ decode_frame b = res_map PRaw (Raw_unmarshal b).
Proof. exact SLI_own_output_is_raw. Qed.
Print Assumptions C07_sli_own_output_is_raw.
Theorem C07_sli_rejects_registered : forall b h, Header_unmarshal b = Ok h -> registry (h_type h) (h_count h) = TSLI -> decode_as TSLI b = Err.
Proof. exact SLI_rejects_registered. Qed.
Print Assumptions C07_sli_rejects_registered.
