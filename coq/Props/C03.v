(* C03 - Marshal emits exactly the RFC wire layout of each packet type.  Statements only
   (proofs: Proofs/PacketLevel.v and the per-type Enc*.v files).
   enc_spec (Spec/Laws.v, Spec/Enc.v, Spec/XrSpec.v) is the reference encoder, written from the RFC diagrams as plain
   concatenations with the RFC's literal numbers (version 2, registered packet type and count/FMT, every field at its
   offset, width and byte order, reserved and padding bits zero) - independently of the code-shaped model.
   supported p: SR RR SDES BYE APP NACK PLI RRR FIR TWCC, CCFB up to 262140 octets, REMB with a bitrate of at least 1;
   ExtendedReport under supported_enc (blocks built from typed RFC 3611 blocks).  SliceLossIndication: finding F5. *)
From RTCP Require Import Proofs.Tactics Model.Header Model.Feedback Model.Xr Model.Packet Spec.Enc Spec.XrSpec Spec.Laws
  Proofs.EncFeedback Proofs.EncXr Proofs.PacketLevel.
Local Open Scope N_scope.

Theorem C03_marshal_is_rfc_layout : forall p, supported p = true -> in_D p = true -> marshal_packet p = Ok (enc_spec p).
Proof. exact marshal_is_rfc. Qed.
Print Assumptions C03_marshal_is_rfc_layout.

Theorem C03_marshal_is_rfc_layout_xr : forall p, supported_enc p -> in_D p = true -> marshal_packet p = Ok (enc_spec p).
Proof. exact marshal_is_rfc_enc. Qed.
Print Assumptions C03_marshal_is_rfc_layout_xr.

(* a list of packets is the concatenation of the members' encodings (compound packets and rtcp.Marshal) *)
Theorem C03_list_is_concatenation : forall ps, ps <> [] ->
  Forall (fun p => supported p = true /\ in_D p = true /\ len (enc_spec p) < 262144) ps ->
  exists b, Marshal ps = Ok b /\ Unmarshal b = Ok (map q ps) /\ Marshal (map q ps) = Ok b.
Proof. exact list_roundtrip. Qed.
Print Assumptions C03_list_is_concatenation.

(* finding F5: SliceLossIndication is written with packet type 205; RFC 4585 6.3.2 prescribes 206 *)
Theorem C03_sli_packet_type_refuted : exists p, D_SLI p = true /\ SLI_marshal p <> Ok (enc_SLI p).
Proof. exact SLI_marshal_spec_refuted. Qed.
Print Assumptions C03_sli_packet_type_refuted.
Theorem C03_sli_never_rfc : forall p, D_SLI p = true -> SLI_marshal p <> Ok (enc_SLI p).
Proof. exact SLI_marshal_never_rfc. Qed.
Print Assumptions C03_sli_never_rfc.
(* ... everything but the packet type octet is as prescribed *)
Theorem C03_sli_partial : forall p, D_SLI p = true -> SLI_marshal p = Ok (enc_SLI_pion p).
Proof. exact SLI_marshal_pion. Qed.
Print Assumptions C03_sli_partial.
