(* C18 - Codec operations are pure and safe to run concurrently.  PARTIAL (DESIGN.md section 7): the theorems are
   (a) facts about the SOURCE re-derived by srcgen on every run (no mutable package state; per-method write effects
   within the documented allowance), and (b) a model at whole-operation granularity in which results are functions
   of the value and interleavings are equivalent to sequential runs.  The step from (a) to Go's memory model
   (data-race freedom) and everything below operation granularity is argued, not proved; the harness adds deep
   snapshots, backing-array sentinels and the race detector. *)
From Coq Require Import List String.
From RTCP Require Import Proofs.Tactics Gen.Globals Gen.Effects Model.Xr Model.Packet Spec.Laws Check.Ops Proofs.Purity Proofs.Misc.
Import ListNotations.

Theorem C18_no_mutable_package_state : mutable_globals = [].
Proof. exact no_mutable_globals. Qed.
Print Assumptions C18_no_mutable_package_state.

Theorem C18_write_effects_within_allowance : forallb effect_ok effects = true.
Proof. exact effects_allowed. Qed.
Print Assumptions C18_write_effects_within_allowance.

Theorem C18_all_operations_analysed :
  forallb (fun t => analysed t "Marshal" && analysed t "Unmarshal" && analysed t "MarshalSize" && analysed t "DestinationSSRC")%bool packet_types = true.
Proof. exact all_operations_analysed. Qed.
Print Assumptions C18_all_operations_analysed.

(* an operation leaves the packet unchanged up to ExtendedReport's header bookkeeping (canon), and unchanged outright
   unless it is Marshal on a packet that contains an ExtendedReport *)
Theorem C18_operations_preserve_packet : forall p o, canon (fst (step p o)) = canon p.
Proof. exact step_sem. Qed.
Print Assumptions C18_operations_preserve_packet.
Theorem C18_read_only : forall p o, o <> OMarshal \/ has_xr p = false -> fst (step p o) = p.
Proof. exact step_readonly. Qed.
Print Assumptions C18_read_only.

(* repeated calls return identical results regardless of what was called before *)
Theorem C18_history_independent : forall h p o,
  snd (step (fst (run_hist p h)) o) = result_of p o /\ result_of p o = result_of (canon p) o.
Proof. exact result_history_independent. Qed.
Print Assumptions C18_history_independent.

Theorem C18_marshal_idempotent_bookkeeping : forall b, setup_block (setup_block b) = setup_block b.
Proof. exact setup_block_idem. Qed.
Print Assumptions C18_marshal_idempotent_bookkeeping.

(* an operation on packet i touches no other packet *)
Theorem C18_frame : forall w i o j, j <> i -> fst (wstep w i o) j = w j.
Proof. exact step_frame. Qed.
Print Assumptions C18_frame.

(* any interleaving of threads whose packets are owned by one thread (or shared and never Marshal-ed) gives every thread
   the results of the sequential run and the same final packets *)
Theorem C18_interleaving_sequential : forall own progs s w,
  progs_owned own progs -> interleaving_of progs s ->
  (forall t, results_of t (snd (run w s)) = results_of t (snd (run w (sequential progs)))) /\
  (forall j, fst (run w s) j = fst (run w (sequential progs)) j) /\
  (forall t, results_of t (snd (run w s)) = map (fun io => result_of (w (fst io)) (snd io)) (nth t progs [])).
Proof. exact interleaving_sequential. Qed.
Print Assumptions C18_interleaving_sequential.

(* The translator's own reading of the source (Gen/Funcs.v, regenerated on every run): of the 111 translated functions,
   the only methods that write through their receiver are decoders (Unmarshal / unmarshal) and the XR blocks' setupBlockHeader / unpackBlockHeader.  Every translated Marshal,
   MarshalSize, Header, DestinationSSRC, Len, Validate and CNAME is therefore, as Go text, a function of the packet's
   value that leaves it unchanged (its rendering takes the receiver by value and returns no new receiver).  A change that
   makes one of them assign through its receiver moves it into this list and the obligation fails. *)
From RTCP Require Import Gen.Funcs.
Definition is_decoder_name (k : string) : bool :=
  let n := String.length k in
  String.eqb (String.substring (n - 9) 9 k) "Unmarshal" || String.eqb (String.substring (n - 9) 9 k) "unmarshal"
  (* the XR blocks' header bookkeeping: setupBlockHeader is the documented exception (called by ExtendedReport.Marshal),
     unpackBlockHeader is called by ExtendedReport.Unmarshal *)
  || String.eqb (String.substring (n - 11) 11 k) "BlockHeader".
Theorem C18_source_only_decoders_write_their_receiver : forallb is_decoder_name receiver_writing_methods = true.
Proof. vm_compute. reflexivity. Qed.
Print Assumptions C18_source_only_decoders_write_their_receiver.
