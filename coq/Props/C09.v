(* C09 - Re-encoding a decoded datagram is stable.  Statements only (proofs: Proofs/Image1-3.v, PacketLevel.v, Reencode.v).
   The theorems are about the IMAGE of each decoder on ARBITRARY byte strings (not only the library's own output):
   whatever a decoder returns, if Marshal succeeds on it the new bytes decode to the same value. *)
From RTCP Require Import Proofs.Tactics Model.Header Model.Reports Model.Sdes Model.ByeApp Model.Feedback Model.Twcc Model.Ccfb Model.Remb Model.Xr
  Model.Packet Spec.Enc Spec.XrSpec Spec.Laws Proofs.Dgram Proofs.Image1 Proofs.Image2 Proofs.Image3 Proofs.Reencode.
Local Open Scope N_scope.

Theorem C09_SenderReport : forall b s, SR_unmarshal b = Ok s -> len b mod 4 = 0 -> forall b', SR_marshal s = Ok b' -> SR_unmarshal b' = Ok s.
Proof. exact SR_dec_enc_dec. Qed.
Print Assumptions C09_SenderReport.
Theorem C09_ReceiverReport : forall b r, RR_unmarshal b = Ok r -> len b mod 4 = 0 -> forall b', RR_marshal r = Ok b' -> RR_unmarshal b' = Ok r.
Proof. exact RR_dec_enc_dec. Qed.
Print Assumptions C09_ReceiverReport.
Theorem C09_SourceDescription : forall b s, SDES_unmarshal b = Ok s -> forall b', SDES_marshal s = Ok b' -> SDES_unmarshal b' = Ok s.
Proof. exact SDES_dec_enc_dec. Qed.
Print Assumptions C09_SourceDescription.
Theorem C09_Goodbye : forall b g, BYE_unmarshal b = Ok g -> forall b', BYE_marshal g = Ok b' -> BYE_unmarshal b' = Ok g.
Proof. exact BYE_dec_enc_dec. Qed.
Print Assumptions C09_Goodbye.
Theorem C09_ApplicationDefined : forall b a, APP_unmarshal b = Ok a -> forall b', APP_marshal a = Ok b' -> APP_unmarshal b' = Ok a.
Proof. exact APP_dec_enc_dec. Qed.
Print Assumptions C09_ApplicationDefined.
Theorem C09_PictureLossIndication : forall b p, PLI_unmarshal b = Ok p -> forall b', PLI_marshal p = Ok b' -> PLI_unmarshal b' = Ok p.
Proof. exact PLI_dec_enc_dec. Qed.
Print Assumptions C09_PictureLossIndication.
Theorem C09_RapidResynchronizationRequest : forall b p, RRR_unmarshal b = Ok p -> forall b', RRR_marshal p = Ok b' -> RRR_unmarshal b' = Ok p.
Proof. exact RRR_dec_enc_dec. Qed.
Print Assumptions C09_RapidResynchronizationRequest.
Theorem C09_TransportLayerNack : forall b p, NACK_unmarshal b = Ok p -> forall b', NACK_marshal p = Ok b' -> NACK_unmarshal b' = Ok p.
Proof. exact NACK_dec_enc_dec. Qed.
Print Assumptions C09_TransportLayerNack.
Theorem C09_SliceLossIndication : forall b p, SLI_unmarshal b = Ok p -> forall b', SLI_marshal p = Ok b' -> SLI_unmarshal b' = Ok p.
Proof. exact SLI_dec_enc_dec. Qed.
Print Assumptions C09_SliceLossIndication.
(* FIR: a zero-entry FIR is decodable only from a length field of 0 (a 4-octet frame, which the datagram layer never hands over
   with 12 octets) or of 16384 (a 65540-octet frame: uint16 wrap of 4*Length, finding F20); with at least one entry: *)
Theorem C09_FullIntraRequest : forall b p, FIR_unmarshal b = Ok p -> 1 <= nl (fir_entries p) -> forall b', FIR_marshal p = Ok b' -> FIR_unmarshal b' = Ok p.
Proof. exact FIR_dec_enc_dec. Qed.
Print Assumptions C09_FullIntraRequest.
Theorem C09_fir_zero_entries_refuted : exists b p b', FIR_unmarshal b = Ok p /\ FIR_marshal p = Ok b' /\ FIR_unmarshal b' = Err.
Proof. exact FIR_dec_enc_dec_refuted. Qed.
Print Assumptions C09_fir_zero_entries_refuted.
Theorem C09_CCFeedbackReport : forall b p, CCFB_unmarshal b = Ok p -> len b <= 262137 -> forall b', CCFB_marshal p = Ok b' -> CCFB_unmarshal b' = Ok p.
Proof. exact CCFB_dec_enc_dec. Qed.
Print Assumptions C09_CCFeedbackReport.
(* REMB: stable unless the mantissa field is 0 and the exponent field at least 58 (finding F16: mantissa 0 decodes to 2^(exp+23),
   which saturates when re-encoded) *)
Theorem C09_REMB : forall b p, REMB_unmarshal b = Ok p -> (remb_mant_field b <> 0 \/ remb_exp_field b < 58) ->
  forall b', REMB_marshal p = Ok b' -> REMB_unmarshal b' = Ok p.
Proof. exact REMB_dec_enc_dec. Qed.
Print Assumptions C09_REMB.
Theorem C09_remb_mantissa_zero_refuted : exists b p b' p', len b = 20 /\ remb_exp_field b = 58 /\ remb_mant_field b = 0 /\
  REMB_unmarshal b = Ok p /\ REMB_marshal p = Ok b' /\ REMB_unmarshal b' = Ok p' /\ remb_bitrate p' <> remb_bitrate p.
Proof. exact REMB_dec_enc_dec_zero_refuted. Qed.
Print Assumptions C09_remb_mantissa_zero_refuted.
(* TransportLayerCC: whenever the decoded header is consistent with the content; and Marshal of a decoded packet never panics *)
Theorem C09_TransportLayerCC : forall b t, TWCC_unmarshal b = Ok t -> twcc_hdr_consistent t = true ->
  forall b', TWCC_marshal t = Ok b' -> TWCC_unmarshal b' = Ok t.
Proof. exact TWCC_dec_enc_dec. Qed.
Print Assumptions C09_TransportLayerCC.
Theorem C09_TransportLayerCC_marshal_never_panics : forall b t, TWCC_unmarshal b = Ok t -> TWCC_marshal t <> Panic.
Proof. exact TWCC_reencode_no_panic. Qed.
Print Assumptions C09_TransportLayerCC_marshal_never_panics.
(* ExtendedReport: equal typed blocks (header bookkeeping and reserved bits are canonicalised by the first re-encoding) *)
Theorem C09_ExtendedReport : forall b x, XR_unmarshal b = Ok x -> len b mod 4 = 0 -> len b < 262144 ->
  forall b', XR_marshal x = Ok b' ->
  exists x', XR_unmarshal b' = Ok x' /\ map abs_block (xr_blocks x') = map abs_block (xr_blocks x) /\ xr_sender x' = xr_sender x.
Proof. exact XR_dec_enc_dec. Qed.
Print Assumptions C09_ExtendedReport.

(* ---- the statement of the property, at datagram level, for EVERY byte string accepted by Unmarshal ---- *)
(* marshalling the returned packets never panics (and never runs out of fuel) *)
Theorem C09_marshal_of_decoded_never_panics : forall b ps, Unmarshal b = Ok ps -> Marshal ps <> Panic /\ Marshal ps <> Fuel.
Proof. exact datagram_reencode_no_panic. Qed.
Print Assumptions C09_marshal_of_decoded_never_panics.

(* whenever it succeeds the new bytes are accepted again and decode to an equal packet list (ExtendedReport: same sender, same typed
   blocks, same canonical form), under the side conditions stable_pkt names per frame: TransportLayerCC with a consistent header
   (the property's own hypothesis), REMB unless mantissa 0 with exponent >= 58 (F16), FIR with at least one entry (F20),
   CCFB frames up to 262137 octets (F18); each of them is shown necessary by a witness in Proofs/Reencode.v *)
Theorem C09_decode_encode_decode : forall b ps, Unmarshal b = Ok ps -> stable_dgram b ps ->
  forall b', Marshal ps = Ok b' -> exists ps', Unmarshal b' = Ok ps' /\ Forall2 pkt_equiv ps ps'.
Proof. exact datagram_reencode. Qed.
Print Assumptions C09_decode_encode_decode.

Theorem C09_one_frame : forall f p, framed16 f -> decode_frame f = Ok p -> stable_pkt f p ->
  forall b', marshal_packet p = Ok b' -> exists p', decode_frame b' = Ok p' /\ framed16 b' /\ pkt_equiv p p'.
Proof. exact frame_reencode. Qed.
Print Assumptions C09_one_frame.

(* SliceLossIndication never comes out of the datagram decoder (finding F5), so it needs no clause here *)
Theorem C09_datagram_never_yields_sli : forall f x, decode_frame f <> Ok (PSLI x).
Proof. exact decode_frame_never_sli. Qed.
Print Assumptions C09_datagram_never_yields_sli.

(* BEGIN source-translation (generated by tools/mksourceprops.py; do not edit by hand) *)
(* the re-encoding theorems above restated on the functions translated from the Go source text on this run.
   Gen/Funcs.v (module GoSrc) is written by srcgen/trans.go from /repo on every run; Lib/GoSem.v gives the meaning of its primitives. *)
From RTCP Require Import Proofs.Tactics Lib.GoSem Gen.Funcs Check.GoOpaque Proofs.GoSemFacts Proofs.HeaderProofs
  Model.Header Model.Reports Model.Sdes Model.ByeApp Model.Feedback Model.Twcc Model.Ccfb Model.Remb Model.Xr Model.Packet
  Spec.Enc Spec.XrSpec Spec.Laws Proofs.Dgram Proofs.Assemble Proofs.Guards Proofs.PacketLevel Proofs.Reencode
  Proofs.Misc Proofs.Extras Proofs.EncFeedback Proofs.Image1 Proofs.Image2 Proofs.Image3 Proofs.EncTwcc Proofs.TwccCorollaries Proofs.Total1 Proofs.Total2 Proofs.Total3
  Proofs.SourceEquiv Proofs.SrcConv Proofs.SourceSR Proofs.SourceRR Proofs.SourceSdes Proofs.SourceByeApp
  Proofs.SourceFeedback1 Proofs.SourceFeedback2 Proofs.SourceCcfb Proofs.SourceTwccEnc Proofs.SourceTwccDec
  Proofs.SourcePacket Proofs.SourceCompound Proofs.SourceCompoundClosed.
From RTCP Require Import Lib.Base Lib.GoSem Gen.Consts Gen.Funcs Model.Header Model.Reports Model.Sdes Model.ByeApp Model.Feedback Model.Twcc Model.Ccfb Model.Packet Proofs.SourceEquiv Proofs.SrcConv Proofs.SourceSR Proofs.SourceRR Proofs.SourceSdes Proofs.SourceByeApp Proofs.SourceFeedback1 Proofs.SourceFeedback2 Proofs.SourceCcfb Proofs.SourceTwccEnc Proofs.SourceTwccDec Proofs.SourcePacket Proofs.SourceCompound Proofs.SourceCompoundClosed Proofs.SourceTheorems.
Module C09_SourceTheorems.
Import Proofs.SourceTheorems.
Local Open Scope N_scope.
Theorem C09_src_marshal_of_decoded_never_panics : forall b l, GoSrc.Unmarshal b = Ok l ->
  GoSrc.Marshal l <> Panic /\ GoSrc.Marshal l <> Fuel.
Proof. exact source_C09_marshal_of_decoded_never_panics. Qed.
Print Assumptions C09_src_marshal_of_decoded_never_panics.
Theorem C09_src_decode_encode_decode : forall b l, GoSrc.Unmarshal b = Ok l ->
  exists ps, l = map src_packet ps /\
    (src_stable_dgram b ps -> forall b', GoSrc.Marshal l = Ok b' ->
     exists ps', GoSrc.Unmarshal b' = Ok (map src_packet ps') /\ Forall2 pkt_equiv ps ps').
Proof. exact source_C09_decode_encode_decode. Qed.
Print Assumptions C09_src_decode_encode_decode.
Theorem C09_src_decode_encode_decode_eq : forall b l, GoSrc.Unmarshal b = Ok l ->
  exists ps, l = map src_packet ps /\
    (src_stable_dgram b ps -> Forall (fun p => forall x, p <> PXR x) ps ->
     forall b', GoSrc.Marshal l = Ok b' -> GoSrc.Unmarshal b' = Ok l).
Proof. exact source_C09_decode_encode_decode_eq. Qed.
Print Assumptions C09_src_decode_encode_decode_eq.
Theorem C09_src_datagram_never_yields_sli : forall b l x, GoSrc.Unmarshal b = Ok l ->
  ~ In (GoSrc.Packet_SliceLossIndication x) l.
Proof. exact source_C09_datagram_never_yields_sli. Qed.
Print Assumptions C09_src_datagram_never_yields_sli.
Theorem C09_src_SenderReport : forall b s, GoSrc.SenderReport_Unmarshal GoSrc.zero_SenderReport b = Ok s ->
  (glen b mod 4 = 0)%Z -> forall b', GoSrc.SenderReport_Marshal s = Ok b' ->
  GoSrc.SenderReport_Unmarshal GoSrc.zero_SenderReport b' = Ok s.
Proof. exact source_C09_SenderReport. Qed.
Print Assumptions C09_src_SenderReport.
Theorem C09_src_ReceiverReport : forall b s, GoSrc.ReceiverReport_Unmarshal GoSrc.zero_ReceiverReport b = Ok s ->
  (glen b mod 4 = 0)%Z -> forall b', GoSrc.ReceiverReport_Marshal s = Ok b' ->
  GoSrc.ReceiverReport_Unmarshal GoSrc.zero_ReceiverReport b' = Ok s.
Proof. exact source_C09_ReceiverReport. Qed.
Print Assumptions C09_src_ReceiverReport.
Theorem C09_src_SourceDescription : forall b s, GoSrc.SourceDescription_Unmarshal GoSrc.zero_SourceDescription b = Ok s ->
  forall b', GoSrc.SourceDescription_Marshal s = Ok b' ->
  GoSrc.SourceDescription_Unmarshal GoSrc.zero_SourceDescription b' = Ok s.
Proof. exact source_C09_SourceDescription. Qed.
Print Assumptions C09_src_SourceDescription.
Theorem C09_src_Goodbye : forall b s, GoSrc.Goodbye_Unmarshal GoSrc.zero_Goodbye b = Ok s ->
  forall b', GoSrc.Goodbye_Marshal s = Ok b' -> GoSrc.Goodbye_Unmarshal GoSrc.zero_Goodbye b' = Ok s.
Proof. exact source_C09_Goodbye. Qed.
Print Assumptions C09_src_Goodbye.
Theorem C09_src_ApplicationDefined : forall b s,
  GoSrc.ApplicationDefined_Unmarshal GoSrc.zero_ApplicationDefined b = Ok s ->
  forall b', GoSrc.ApplicationDefined_Marshal s = Ok b' ->
  GoSrc.ApplicationDefined_Unmarshal GoSrc.zero_ApplicationDefined b' = Ok s.
Proof. exact source_C09_ApplicationDefined. Qed.
Print Assumptions C09_src_ApplicationDefined.
Theorem C09_src_PictureLossIndication : forall b s,
  GoSrc.PictureLossIndication_Unmarshal GoSrc.zero_PictureLossIndication b = Ok s ->
  forall b', GoSrc.PictureLossIndication_Marshal s = Ok b' ->
  GoSrc.PictureLossIndication_Unmarshal GoSrc.zero_PictureLossIndication b' = Ok s.
Proof. exact source_C09_PictureLossIndication. Qed.
Print Assumptions C09_src_PictureLossIndication.
Theorem C09_src_RapidResynchronizationRequest : forall b s,
  GoSrc.RapidResynchronizationRequest_Unmarshal GoSrc.zero_RapidResynchronizationRequest b = Ok s ->
  forall b', GoSrc.RapidResynchronizationRequest_Marshal s = Ok b' ->
  GoSrc.RapidResynchronizationRequest_Unmarshal GoSrc.zero_RapidResynchronizationRequest b' = Ok s.
Proof. exact source_C09_RapidResynchronizationRequest. Qed.
Print Assumptions C09_src_RapidResynchronizationRequest.
Theorem C09_src_TransportLayerNack : forall b s,
  GoSrc.TransportLayerNack_Unmarshal GoSrc.zero_TransportLayerNack b = Ok s ->
  forall b', GoSrc.TransportLayerNack_Marshal s = Ok b' ->
  GoSrc.TransportLayerNack_Unmarshal GoSrc.zero_TransportLayerNack b' = Ok s.
Proof. exact source_C09_TransportLayerNack. Qed.
Print Assumptions C09_src_TransportLayerNack.
Theorem C09_src_SliceLossIndication : forall b s,
  GoSrc.SliceLossIndication_Unmarshal GoSrc.zero_SliceLossIndication b = Ok s ->
  forall b', GoSrc.SliceLossIndication_Marshal s = Ok b' ->
  GoSrc.SliceLossIndication_Unmarshal GoSrc.zero_SliceLossIndication b' = Ok s.
Proof. exact source_C09_SliceLossIndication. Qed.
Print Assumptions C09_src_SliceLossIndication.
Theorem C09_src_FullIntraRequest : forall b s,
  GoSrc.FullIntraRequest_Unmarshal GoSrc.zero_FullIntraRequest b = Ok s -> (1 <= glenl (GoSrc.FullIntraRequest_FIR s))%Z ->
  forall b', GoSrc.FullIntraRequest_Marshal s = Ok b' ->
  GoSrc.FullIntraRequest_Unmarshal GoSrc.zero_FullIntraRequest b' = Ok s.
Proof. exact source_C09_FullIntraRequest. Qed.
Print Assumptions C09_src_FullIntraRequest.
Theorem C09_src_fir_zero_entries_refuted : exists b s b',
  GoSrc.FullIntraRequest_Unmarshal GoSrc.zero_FullIntraRequest b = Ok s /\ GoSrc.FullIntraRequest_Marshal s = Ok b' /\
  GoSrc.FullIntraRequest_Unmarshal GoSrc.zero_FullIntraRequest b' = Err.
Proof. exact source_C09_fir_zero_entries_refuted. Qed.
Print Assumptions C09_src_fir_zero_entries_refuted.
Theorem C09_src_CCFeedbackReport : forall b s,
  GoSrc.CCFeedbackReport_Unmarshal GoSrc.zero_CCFeedbackReport b = Ok s -> (glen b <= 262137)%Z ->
  forall b', GoSrc.CCFeedbackReport_Marshal s = Ok b' ->
  GoSrc.CCFeedbackReport_Unmarshal GoSrc.zero_CCFeedbackReport b' = Ok s.
Proof. exact source_C09_CCFeedbackReport. Qed.
Print Assumptions C09_src_CCFeedbackReport.
Theorem C09_src_TransportLayerCC : forall b s,
  GoSrc.TransportLayerCC_Unmarshal GoSrc.zero_TransportLayerCC b = Ok s ->
  exists t, s = src_twcc t /\
    (twcc_hdr_consistent t = true -> forall b', GoSrc.TransportLayerCC_Marshal s = Ok b' ->
     GoSrc.TransportLayerCC_Unmarshal GoSrc.zero_TransportLayerCC b' = Ok s).
Proof. exact source_C09_TransportLayerCC. Qed.
Print Assumptions C09_src_TransportLayerCC.
Theorem C09_src_TransportLayerCC_marshal_never_panics : forall b s,
  GoSrc.TransportLayerCC_Unmarshal GoSrc.zero_TransportLayerCC b = Ok s -> GoSrc.TransportLayerCC_Marshal s <> Panic.
Proof. exact source_C09_TransportLayerCC_marshal_never_panics. Qed.
Print Assumptions C09_src_TransportLayerCC_marshal_never_panics.
End C09_SourceTheorems.
(* END source-translation *)

(* BEGIN reflection-generic (proofs: Proofs/ReflectWrite.v).  The reflective writer (the part of re-encoding an extended
   report that is not translated from the source) returns bytes or an error for every descriptor, value and room. *)
From RTCP Require Lib.Reflect Proofs.ReflectWrite.
Module C09_ReflectGeneric.
Import RTCP.Lib.Reflect.
Theorem C09_reflect_write_never_panics : forall t v room, write t v room <> Panic /\ write t v room <> Fuel.
Proof. exact ReflectWrite.write_never_panics. Qed.
Print Assumptions C09_reflect_write_never_panics.
End C09_ReflectGeneric.
(* END reflection-generic *)
