(* Model of rfc8888.go (after the fix: of the 64 KiB buffer-size overflow in Marshal).  Reproduces finding F6 (num_reports off by one) and F12 (FMT not checked) faithfully. *)
From Coq Require Import List NArith ZArith Bool.
From Coq.Strings Require Import Byte.
From RTCP Require Import Lib.Base Gen.Consts Model.Header Model.Reports.
Import ListNotations.
Local Open Scope N_scope.

Record CCMetric := mkCCMetric { mb_received : bool; mb_ecn : N; mb_offset : N }.
Record CCBlock := mkCCBlock { cb_ssrc : N; cb_begin : N; cb_metrics : list CCMetric }.
Record CCFB := mkCCFB { cc_sender : N; cc_blocks : list CCBlock; cc_timestamp : N }.

(* func (b CCFeedbackMetricBlock) marshal *)
Definition CCMetric_marshal (m : CCMetric) : res bytes :=
  let r := if mb_received m then 1 else 0 in
  let* dst := setNBitsOfUint16 0 1 0 r in
  let* dst := setNBitsOfUint16 dst 2 1 (mb_ecn m) in
  let* dst := setNBitsOfUint16 dst 13 3 (mb_offset m) in
  Ok (be 2 dst).

(* func (b *CCFeedbackMetricBlock) unmarshal *)
Definition CCMetric_unmarshal (raw : bytes) : res CCMetric :=
  if negb (len raw =? c_metricBlockLength) then Err else
  let* b0 := idx raw 0 in
  let received := negb (N.land (b2n b0) 128 =? 0) in
  if negb received then Ok {| mb_received := false; mb_ecn := c_ECNNonECT; mb_offset := 0 |} else
  let* w := get_be_at 2 raw 0 in
  Ok {| mb_received := true; mb_ecn := N.land (b2n b0 / 32) 3; mb_offset := N.land w 8191 |}.

(* func (b *CCFeedbackReportBlock) len *)
Definition CCBlock_len (b : CCBlock) : N :=
  let n := nlen (cb_metrics b) in
  let n := if negb (n mod 2 =? 0) then n + 1 else n in
  c_reportsOffset + 2 * n.

(* the metric loop writes block i at reportsOffset+2i of a buffer of exactly 8+2*roundup2(n) octets:
   always in range, so the result is the concatenation (quadratic per-element copying avoided on purpose:
   a block may hold 16384 metric blocks) *)
Fixpoint metrics_marshal (ms : list CCMetric) : res bytes :=
  match ms with
  | [] => Ok []
  | m :: r => let* b := CCMetric_marshal m in let* bs := metrics_marshal r in Ok (b ++ bs)
  end.

(* func (b CCFeedbackReportBlock) marshal *)
Definition CCBlock_marshal (b : CCBlock) : res bytes :=
  if c_maxMetricBlocks <? nlen (cb_metrics b) then Err else
  let length := u16 (nlen (cb_metrics b)) in
  let length := if 0 <? length then length - 1 else length in
  let* ms := metrics_marshal (cb_metrics b) in
  Ok (be 4 (cb_ssrc b) ++ be 2 (cb_begin b) ++ be 2 length ++ ms
      ++ zeros (CCBlock_len b - c_reportsOffset - len ms)).

(* metric blocks are read from a shrinking window (rawPacket[offset:offset+2] with offset = 8+2i) *)
Fixpoint get_metrics (k : nat) (rest : bytes) : res (list CCMetric) :=
  match k with
  | O => Ok []
  | S k' =>
      match rest with
      | b0 :: b1 :: rest' =>
          let* m := CCMetric_unmarshal [b0; b1] in
          let* r := get_metrics k' rest' in
          Ok (m :: r)
      | _ => Panic
      end
  end.

(* func (b *CCFeedbackReportBlock) unmarshal *)
Definition CCBlock_unmarshal (raw : bytes) : res CCBlock :=
  if len raw <? c_reportsOffset then Err else
  let* ssrc := get_be_at 4 raw 0 in
  let* bs := get_be_at 2 raw c_beginSequenceOffset in
  let* nrf := get_be_at 2 raw c_numReportsOffset in
  if nrf =? 0 then Ok {| cb_ssrc := ssrc; cb_begin := bs; cb_metrics := [] |} else
  if 65535 <? bs + nrf then Err else
  let endSeq := u16 (bs + nrf) in
  let numReports := u16 (u16 (sub16 endSeq bs) + 1) in
  if len raw <? c_reportsOffset + numReports * 2 then Err else
  let* ms := get_metrics (N.to_nat numReports) (skipn (N.to_nat c_reportsOffset) raw) in
  Ok {| cb_ssrc := ssrc; cb_begin := bs; cb_metrics := ms |}.

(* func (b *CCFeedbackReport) MarshalSize *)
Definition CCFB_size (p : CCFB) : N :=
  c_reportBlockOffset + fold_right (fun b acc => CCBlock_len b + acc) 0 (cc_blocks p) + c_reportTimestampLength.
Definition CCFB_header (p : CCFB) : Header :=
  {| h_pad := false; h_count := c_FormatCCFB; h_type := c_TypeTransportSpecificFeedback;
     h_len := u16 (CCFB_size p / 4 - 1) |}.

Fixpoint put_blocks (buf : bytes) (off : N) (bs : list CCBlock) : res (bytes * N) :=
  match bs with
  | [] => Ok (buf, off)
  | b :: r =>
      let* d := CCBlock_marshal b in
      let* buf := copy_at buf off d in
      put_blocks buf (off + CCBlock_len b) r
  end.

(* func (b CCFeedbackReport) Marshal *)
Definition CCFB_marshal (p : CCFB) : res bytes :=
  let header := CCFB_header p in
  let* hb := Header_marshal header in
  let length := 4 * (h_len header + 1) in
  let buf := zeros length in
  let* hdst := slice buf 0 c_headerLength in     (* buf[:headerLength] panics when length < 4 *)
  let* buf := copy_at buf 0 hb in
  let* buf := put_be_at 4 buf c_headerLength (cc_sender p) in
  let* (buf, off) := put_blocks buf c_reportBlockOffset (cc_blocks p) in
  put_be_at 4 buf off (cc_timestamp p).

Fixpoint blocks_loop (fuel : nat) (raw : bytes) (off stop : N) : res (list CCBlock) :=
  match fuel with
  | O => Fuel
  | S f =>
      if off <? stop then
        let* sub := slice_from raw off in
        let* b := CCBlock_unmarshal sub in
        let* r := blocks_loop f raw (off + CCBlock_len b) stop in
        Ok (b :: r)
      else Ok []
  end.

(* func (b *CCFeedbackReport) Unmarshal *)
Definition CCFB_unmarshal (raw : bytes) : res CCFB :=
  if len raw <? c_headerLength + c_ssrcLength + c_reportTimestampLength then Err else
  let* h := Header_unmarshal raw in
  if negb (h_type h =? c_TypeTransportSpecificFeedback) then Err else
  let* sender := get_be_at 4 raw c_headerLength in
  let tsOff := len raw - c_reportTimestampLength in
  let* ts := get_be_at 4 raw tsOff in
  let* bs := blocks_loop (S (length raw)) raw c_reportBlockOffset tsOff in
  Ok {| cc_sender := sender; cc_blocks := bs; cc_timestamp := ts |}.

Definition CCFB_dest (p : CCFB) : list N := map cb_ssrc (cc_blocks p).
