(* Model of source_description.go *)
From Coq Require Import List NArith ZArith Bool.
From Coq.Strings Require Import Byte.
From RTCP Require Import Lib.Base Gen.Consts Model.Header Model.Reports.
Import ListNotations.
Local Open Scope N_scope.

Record SItem := mkSItem { it_type : N; it_text : bytes }.
Record SChunk := mkSChunk { ch_src : N; ch_items : list SItem }.
Record SDES := mkSDES { sd_chunks : list SChunk }.

(* func (s SourceDescriptionItem) Len *)
Definition SItem_len (it : SItem) : N := c_sdesTypeLen + c_sdesOctetCountLen + len (it_text it).

(* func (s SourceDescriptionItem) Marshal *)
Definition SItem_marshal (it : SItem) : res bytes :=
  if it_type it =? c_SDESEnd then Err else
  if c_sdesMaxOctetCount <? len (it_text it) then Err else
  Ok ([n2b (it_type it); n2b (len (it_text it))] ++ it_text it).

(* func (s *SourceDescriptionItem) Unmarshal *)
Definition SItem_unmarshal (b : bytes) : res SItem :=
  if len b <? c_sdesTypeLen + c_sdesOctetCountLen then Err else
  let* t := idx b c_sdesTypeOffset in
  let* n := idx b c_sdesOctetCountOffset in
  if len b <? c_sdesTextOffset + b2n n then Err else
  let* txt := slice b c_sdesTextOffset (c_sdesTextOffset + b2n n) in
  Ok {| it_type := b2n t; it_text := txt |}.

(* func (s SourceDescriptionChunk) len *)
Definition SChunk_len (c : SChunk) : N :=
  let l := c_sdesSourceLen + fold_right (fun it acc => SItem_len it + acc) 0 (ch_items c) + c_sdesTypeLen in
  l + get_padding l.

(* func (s SourceDescriptionChunk) Marshal *)
Fixpoint items_marshal (its : list SItem) : res bytes :=
  match its with
  | [] => Ok []
  | it :: r => let* d := SItem_marshal it in let* ds := items_marshal r in Ok (d ++ ds)
  end.
Definition SChunk_marshal (c : SChunk) : res bytes :=
  let* its := items_marshal (ch_items c) in
  let raw := be 4 (ch_src c) ++ its ++ [n2b c_SDESEnd] in
  Ok (raw ++ zeros (get_padding (len raw))).

(* the item loop of SourceDescriptionChunk.Unmarshal: for i := 4; i < len(raw); *)
Fixpoint items_loop (fuel : nat) (b : bytes) (i : N) : res (list SItem) :=
  match fuel with
  | O => Fuel
  | S f =>
      if i <? len b then
        let* t := idx b i in
        if b2n t =? c_SDESEnd then Ok [] else
        let* sub := slice_from b i in
        let* it := SItem_unmarshal sub in
        let* its := items_loop f b (i + SItem_len it) in
        Ok (it :: its)
      else Err
  end.

(* func (s *SourceDescriptionChunk) Unmarshal *)
Definition SChunk_unmarshal (b : bytes) : res SChunk :=
  if len b <? c_sdesSourceLen + c_sdesTypeLen then Err else
  let* s := get_be_at 4 b 0 in
  let* its := items_loop (S (length b)) b 4 in
  Ok {| ch_src := s; ch_items := its |}.

Definition SDES_size (s : SDES) : N :=
  c_headerLength + fold_right (fun c acc => SChunk_len c + acc) 0 (sd_chunks s).

Definition SDES_header (s : SDES) : Header :=
  {| h_pad := false; h_count := u8 (nlen (sd_chunks s)); h_type := c_TypeSourceDescription;
     h_len := u16 (SDES_size s / 4 - 1) |}.

Fixpoint put_chunks (raw : bytes) (off : N) (cs : list SChunk) : res bytes :=
  match cs with
  | [] => Ok raw
  | c :: cs' =>
      let* d := SChunk_marshal c in
      let* raw := copy_at raw off d in
      put_chunks raw (off + len d) cs'
  end.

(* func (s SourceDescription) Marshal *)
Definition SDES_marshal (s : SDES) : res bytes :=
  let raw := zeros (SDES_size s) in
  let* raw := put_chunks raw c_headerLength (sd_chunks s) in
  if c_countMax <? nlen (sd_chunks s) then Err else
  let* h := Header_marshal (SDES_header s) in
  copy_at raw 0 h.

(* for i := headerLength; i < len(rawPacket); { chunk.Unmarshal(rawPacket[i:]); i += chunk.len() } *)
Fixpoint chunks_loop (fuel : nat) (raw : bytes) (i : N) : res (list SChunk) :=
  match fuel with
  | O => Fuel
  | S f =>
      if i <? len raw then
        let* sub := slice_from raw i in
        let* c := SChunk_unmarshal sub in
        let* cs := chunks_loop f raw (i + SChunk_len c) in
        Ok (c :: cs)
      else Ok []
  end.

(* func (s *SourceDescription) Unmarshal *)
Definition SDES_unmarshal (raw : bytes) : res SDES :=
  let* h := Header_unmarshal raw in
  if negb (h_type h =? c_TypeSourceDescription) then Err else
  let* cs := chunks_loop (S (length raw)) raw c_headerLength in
  if negb (nlen cs =? h_count h) then Err else
  Ok {| sd_chunks := cs |}.

Definition SDES_dest (s : SDES) : list N := map ch_src (sd_chunks s).
