(* Model of receiver_estimated_maximum_bitrate.go (repaired F14, F17).
   float32 is modelled exactly: Bitrate is carried as its IEEE-754 bit pattern; every
   float operation in MarshalTo/Unmarshal (compare, halve a value >= 2^18, floor) is exact
   on dyadics, so no rounding is modelled because none happens (DESIGN.md C14). *)
From Coq Require Import List NArith ZArith Bool.
From Coq.Strings Require Import Byte.
From RTCP Require Import Lib.Base Gen.Consts Model.Header Model.Reports.
Import ListNotations.

Record REMB := mkREMB { remb_sender : N; remb_bitrate : N (* float32 bits *); remb_ssrcs : list N }.

Local Open Scope Z_scope.
Inductive f32 := Fin (neg : bool) (m e : Z) | Inf (neg : bool) | NaN.
Definition f32_of_bits (b : Z) : f32 :=
  let s := Z.odd (b / 2^31) in let E := (b / 2^23) mod 256 in let frac := b mod 2^23 in
  if E =? 255 then (if frac =? 0 then Inf s else NaN)
  else if E =? 0 then Fin s frac (-149) else Fin s (2^23 + frac) (E - 150).
(* floor of m * 2^e, m >= 0 *)
Definition ifloor (m e : Z) : Z := if 0 <=? e then m * 2 ^ e else m / 2 ^ (- e).
Definition bitratemax_int : Z := 0x3FFFF * 2 ^ 63.

(* for bitrate >= (1 << 18) { bitrate /= 2.0; exp++ } *)
Fixpoint halve (fuel : nat) (m e exp : Z) : Z * Z :=      (* returns (exp, e) *)
  match fuel with
  | O => (exp, e)
  | S f => if 2^18 <=? ifloor m e then halve f m (e - 1) (exp + 1) else (exp, e)
  end.
(* the bitrate part of MarshalTo: None = errInvalidBitrate, Some (exp, mantissa) *)
Definition remb_enc (bits : Z) : option (Z * Z) :=
  match f32_of_bits bits with
  | NaN => Some (0, 0)   (* every comparison false; uint(Floor(NaN)) has zero low bits on the supported targets.
                            Outside C14's domain ("finite"); kept so that model and code agree on it. *)
  | Inf true => None
  | Inf false => Some (63, 0x3FFFF)
  | Fin s m e =>
      if s && (0 <? m) then None else
      let '(m, e) := if bitratemax_int <=? ifloor m e then (0xFFFFC0, 57) else (m, e) in
      let '(exp, e') := halve 200 m e 0 in
      if 64 <=? exp then None else Some (exp, ifloor m e')
  end.

(* if mantissa != 0 { for (mantissa & 0x800000) == 0 { exp--; mantissa *= 2 } } *)
Fixpoint norm (fuel : nat) (exp mant : Z) : Z * Z :=
  match fuel with
  | O => (exp, mant)
  | S f => if (mant / 2^23) mod 2 =? 0 then norm f ((exp - 1) mod 256) ((mant * 2) mod 2^32) else (exp, mant)
  end.
Definition remb_dec (e m : Z) : Z :=
  let exp := (e + 127 + 23) mod 256 in
  let '(exp, mant) := if m =? 0 then (exp, m) else norm 32 exp m in
  (exp * 2^23) mod 2^32 + mant mod 2^23.
Local Open Scope N_scope.

Definition REMB_size (p : REMB) : N := 20 + 4 * nlen (remb_ssrcs p).
Definition REMB_header (p : REMB) : Header :=
  {| h_pad := false; h_count := c_FormatREMB; h_type := c_TypePayloadSpecificFeedback;
     h_len := u16 (REMB_size p / 4 - 1) |}.

Definition REMB_marshal (p : REMB) : res bytes :=
  let n := nlen (remb_ssrcs p) in
  if 255 <? n then Err else
  match remb_enc (Z.of_N (remb_bitrate p)) with
  | None => Err
  | Some (exp, mant) =>
      let exp := Z.to_N exp in let mant := Z.to_N mant in
      Ok ([n2b 143; n2b 206] ++ be 2 (u16 (REMB_size p / 4 - 1)) ++ be 4 (remb_sender p) ++ be 4 0
          ++ [n2b 82; n2b 69; n2b 77; n2b 66]
          ++ [n2b n; n2b (N.lor (u8 (exp * 4)) (u8 (mant / 65536))); n2b (mant / 256); n2b mant]
          ++ concat (map (be 4) (remb_ssrcs p)))
  end.

Fixpoint remb_ssrcs_read (fuel : nat) (raw : bytes) (n size : N) : res (list N) :=
  match fuel with
  | O => Fuel
  | S f =>
      if n <? size then
        let* sb := slice raw n (n + 4) in
        let* s := get_be_at 4 sb 0 in
        let* r := remb_ssrcs_read f raw (n + 4) size in
        Ok (s :: r)
      else Ok []
  end.

Definition REMB_unmarshal (buf : bytes) : res REMB :=
  if len buf <? 20 then Err else
  let* b0 := idx buf 0 in
  if negb (b2n b0 / 64 =? 2) then Err else
  if negb (N.land (b2n b0 / 32) 1 =? 0) then Err else
  if negb (N.land (b2n b0) 31 =? 15) then Err else
  let* b1 := idx buf 1 in
  if negb (b2n b1 =? 206) then Err else
  let* lfield := get_be_at 2 buf 2 in
  let size := u16 (u16 (lfield + 1) * 4) in
  if size <? 20 then Err else
  if len buf <? size then Err else
  let* sender := get_be_at 4 buf 4 in
  let* media := get_be_at 4 buf 8 in
  if negb (media =? 0) then Err else
  let* id := slice buf 12 16 in
  if negb (bytes_eqb id [n2b 82; n2b 69; n2b 77; n2b 66]) then Err else
  let* nb := idx buf 16 in
  let num := b2n nb in
  if negb (size =? 20 + 4 * num) then Err else
  let* b17 := idx buf 17 in let* b18 := idx buf 18 in let* b19 := idx buf 19 in
  let e := b2n b17 / 4 in
  let m := N.lor (N.lor (N.land (b2n b17) 3 * 65536) (b2n b18 * 256)) (b2n b19) in
  let bits := Z.to_N (remb_dec (Z.of_N e) (Z.of_N m)) in
  let* ssrcs := remb_ssrcs_read (S (length buf)) buf 20 size in
  Ok {| remb_sender := sender; remb_bitrate := bits; remb_ssrcs := ssrcs |}.

Definition REMB_dest (p : REMB) : list N := remb_ssrcs p.

(* String(): index into bitUnits (7 entries); the float comparison/division are abstracted:
   [ge1000 k] says whether the value is still >= 1000 after k divisions.  (repaired F17: powers < len-1) *)
Fixpoint remb_unit_index (ge1000 : nat -> bool) (fuel powers : nat) : nat :=
  match fuel with
  | O => powers
  | S f => if ge1000 powers && Nat.ltb powers 6 then remb_unit_index ge1000 f (S powers) else powers
  end.
