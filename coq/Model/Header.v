(* Model of header.go and util.go.  Code-shaped: same guards in the same order,
   8/16-bit wrap-around where Go's static types apply it. *)
From Coq Require Import List NArith ZArith Bool.
From Coq.Strings Require Import Byte.
From RTCP Require Import Lib.Base Gen.Consts.
Import ListNotations.
Local Open Scope N_scope.

Record Header := mkHeader { h_pad : bool; h_count : N; h_type : N; h_len : N }.
Definition Header_zero : Header := mkHeader false 0 0 0.

(* header.go: func (h Header) Marshal *)
Definition Header_marshal (h : Header) : res bytes :=
  let b0 := u8 (c_rtpVersion * 2 ^ c_versionShift) in
  let b0 := if h_pad h then N.lor b0 (u8 (1 * 2 ^ c_paddingShift)) else b0 in
  if 31 <? h_count h then Err else
  let b0 := N.lor b0 (u8 (h_count h * 2 ^ c_countShift)) in
  Ok (n2b b0 :: n2b (h_type h) :: be 2 (h_len h)).

(* header.go: func (h *Header) Unmarshal *)
Definition Header_unmarshal (b : bytes) : res Header :=
  if len b <? c_headerLength then Err else
  let* b0 := idx b 0 in
  let* b1 := idx b 1 in
  let version := N.land (b2n b0 / 2 ^ c_versionShift) c_versionMask in
  if negb (version =? c_rtpVersion) then Err else
  let* l := get_be_at 2 b 2 in
  Ok {| h_pad := 0 <? N.land (b2n b0 / 2 ^ c_paddingShift) c_paddingMask;
        h_count := N.land (b2n b0 / 2 ^ c_countShift) c_countMask;
        h_type := b2n b1;
        h_len := l |}.

(* ---- util.go ---- *)
(* setNBitsOfUint16(src, size, startIndex, val uint16) (uint16, error) *)
Definition setNBitsOfUint16 (src size startIndex val : N) : res N :=
  if 16 <? u16 (startIndex + size) then Err else
  let mask := sub16 (shl 16 1 size) 1 in
  let v := N.land val mask in
  Ok (N.lor src (shl 16 v (sub16 (sub16 16 size) startIndex))).

(* appendNBitsToUint32(src, n, val uint32) uint32 *)
Definition appendNBitsToUint32 (src n val : N) : N :=
  N.lor (shl 32 src n) (N.land val (shr 4294967295 (u32 (32 + 4294967296 - n mod 4294967296)))).

(* getNBitsFromByte(b byte, begin, n uint16) uint16 *)
Definition getNBitsFromByte (b begin n : N) : N :=
  let endShift := sub16 8 (u16 (begin + n)) in
  let mask := N.land (shr 255 begin) (shl 8 255 endShift) in
  shr (N.land b mask) endShift.

(* get24BitsFromBytes(b []byte) uint32 *)
Definition get24BitsFromBytes (b : bytes) : res N :=
  let* b0 := idx b 0 in let* b1 := idx b 1 in let* b2 := idx b 2 in
  Ok (u32 (u32 (b2n b0 * 65536 + b2n b1 * 256) + b2n b2)).
