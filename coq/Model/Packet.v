(* Model of packet.go, raw_packet.go, compound_packet.go *)
From Coq Require Import List NArith ZArith Bool String.
From Coq.Strings Require Import Byte.
From RTCP Require Import Lib.Base Lib.Reflect Gen.Consts Gen.Dispatch
  Model.Header Model.Reports Model.Sdes Model.ByeApp Model.Feedback Model.Twcc Model.Ccfb Model.Remb Model.Xr.
Import ListNotations.
Local Open Scope N_scope.

Inductive packet :=
| PSR (x : SR) | PRR (x : RR) | PSDES (x : SDES) | PBYE (x : BYE) | PAPP (x : APP)
| PNACK (x : NACK) | PRRR (x : RRR) | PTWCC (x : TWCC) | PCCFB (x : CCFB)
| PPLI (x : PLI) | PSLI (x : SLI) | PREMB (x : REMB) | PFIR (x : FIR)
| PXR (x : XR) | PRaw (b : bytes) | PCompound (l : list packet).

(* ---- raw_packet.go ---- *)
Definition Raw_unmarshal (b : bytes) : res bytes :=
  if len b <? c_headerLength then Err else
  let* _ := Header_unmarshal b in Ok b.
Definition Raw_header (b : bytes) : Header :=
  match Header_unmarshal b with Ok h => h | _ => Header_zero end.

(* ---- packet.go: the type switch of func unmarshal, as generated from the source ---- *)
Definition dispatch_name (pt cnt : N) : string :=
  let fix go (l : list (N * option N * string)) : string :=
    match l with
    | [] => dispatch_default
    | (p, None, n) :: r => if p =? pt then n else go r
    | (p, Some c, n) :: r => if (p =? pt) && (c =? cnt) then n else go r
    end in
  go dispatch_entries.

Inductive tag :=
| TSR | TRR | TSDES | TBYE | TAPP | TNACK | TRRR | TTWCC | TCCFB | TPLI | TSLI | TREMB | TFIR | TXR | TRaw | TCompound.
Definition tag_eqb (a b : tag) : bool :=
  match a, b with
  | TSR, TSR | TRR, TRR | TSDES, TSDES | TBYE, TBYE | TAPP, TAPP | TNACK, TNACK | TRRR, TRRR
  | TTWCC, TTWCC | TCCFB, TCCFB | TPLI, TPLI | TSLI, TSLI | TREMB, TREMB | TFIR, TFIR | TXR, TXR
  | TRaw, TRaw | TCompound, TCompound => true
  | _, _ => false
  end.

Local Open Scope string_scope.
Definition tag_names : list (string * tag) :=
  [("SenderReport", TSR); ("ReceiverReport", TRR); ("SourceDescription", TSDES); ("Goodbye", TBYE);
   ("ApplicationDefined", TAPP); ("TransportLayerNack", TNACK); ("RapidResynchronizationRequest", TRRR);
   ("TransportLayerCC", TTWCC); ("CCFeedbackReport", TCCFB); ("PictureLossIndication", TPLI);
   ("SliceLossIndication", TSLI); ("ReceiverEstimatedMaximumBitrate", TREMB); ("FullIntraRequest", TFIR);
   ("ExtendedReport", TXR); ("RawPacket", TRaw); ("CompoundPacket", TCompound)].
Local Close Scope string_scope.
Definition tag_of_name (s : string) : option tag :=
  let fix go (l : list (string * tag)) := match l with [] => None | (n, t) :: r => if String.eqb n s then Some t else go r end in
  go tag_names.
Definition name_of_tag (t : tag) : string :=
  let fix go (l : list (string * tag)) := match l with [] => EmptyString | (n, u) :: r => if tag_eqb t u then n else go r end in
  go tag_names.

Definition dispatch (pt cnt : N) : tag :=
  match tag_of_name (dispatch_name pt cnt) with Some t => t | None => TRaw end.

Definition tag_of_packet (p : packet) : tag :=
  match p with
  | PSR _ => TSR | PRR _ => TRR | PSDES _ => TSDES | PBYE _ => TBYE | PAPP _ => TAPP | PNACK _ => TNACK
  | PRRR _ => TRRR | PTWCC _ => TTWCC | PCCFB _ => TCCFB | PPLI _ => TPLI | PSLI _ => TSLI | PREMB _ => TREMB
  | PFIR _ => TFIR | PXR _ => TXR | PRaw _ => TRaw | PCompound _ => TCompound
  end.

(* the frame splitter shared by Unmarshal and CompoundPacket.Unmarshal *)
Section Splitter.
  (* new(T).Unmarshal(inPacket) for the dispatched T *)
  Definition decode_as (t : tag) (b : bytes) : res packet :=
    match t with
    | TSR => res_map PSR (SR_unmarshal b) | TRR => res_map PRR (RR_unmarshal b)
    | TSDES => res_map PSDES (SDES_unmarshal b) | TBYE => res_map PBYE (BYE_unmarshal b)
    | TAPP => res_map PAPP (APP_unmarshal b) | TNACK => res_map PNACK (NACK_unmarshal b)
    | TRRR => res_map PRRR (RRR_unmarshal b) | TTWCC => res_map PTWCC (TWCC_unmarshal b)
    | TCCFB => res_map PCCFB (CCFB_unmarshal b) | TPLI => res_map PPLI (PLI_unmarshal b)
    | TSLI => res_map PSLI (SLI_unmarshal b) | TREMB => res_map PREMB (REMB_unmarshal b)
    | TFIR => res_map PFIR (FIR_unmarshal b) | TXR => res_map PXR (XR_unmarshal b)
    | TRaw => res_map PRaw (Raw_unmarshal b)
    | TCompound => Err  (* never dispatched to *)
    end.

  (* func unmarshal(rawData) (packet, bytesprocessed, err) *)
  Definition unmarshal_one (raw : bytes) : res (packet * N) :=
    let* h := Header_unmarshal raw in
    let n := u16 (h_len h + 1) * 4 in
    if len raw <? n then Err else
    let* inPacket := slice raw 0 n in
    let* p := decode_as (dispatch (h_type h) (h_count h)) inPacket in
    Ok (p, n).

  (* for len(rawData) != 0 { p, processed, err := unmarshal(rawData); ...; rawData = rawData[processed:] } *)
  Fixpoint unmarshal_loop (fuel : nat) (raw : bytes) : res (list packet) :=
    match fuel with
    | O => Fuel
    | S f =>
        match raw with
        | [] => Ok []
        | _ =>
            let* (p, n) := unmarshal_one raw in
            let* rest := slice_from raw n in
            let* ps := unmarshal_loop f rest in
            Ok (p :: ps)
        end
    end.
End Splitter.

(* func Unmarshal(rawData []byte) ([]Packet, error) *)
Definition Unmarshal (raw : bytes) : res (list packet) :=
  let* ps := unmarshal_loop (S (List.length raw)) raw in
  match ps with [] => Err | _ => Ok ps end.

(* ---- compound_packet.go: Validate, CNAME ---- *)
Definition sdes_has_cname (s : SDES) : bool :=
  existsb (fun c => existsb (fun it => it_type it =? c_SDESCNAME) (ch_items c)) (sd_chunks s).

Fixpoint validate_rest (l : list packet) : res unit :=
  match l with
  | [] => Err                                   (* errMissingCNAME *)
  | PRR _ :: r => validate_rest r
  | PSDES s :: _ => if sdes_has_cname s then Ok tt else Err
  | _ :: _ => Err                               (* errPacketBeforeCNAME *)
  end.
Definition Compound_validate (c : list packet) : res unit :=
  match c with
  | [] => Err
  | PSR _ :: r | PRR _ :: r => validate_rest r
  | _ :: _ => Err
  end.

Definition sdes_first_cname (s : SDES) : option bytes :=
  let items := flat_map ch_items (sd_chunks s) in
  match filter (fun it => it_type it =? c_SDESCNAME) items with
  | it :: _ => Some (it_text it)
  | [] => None
  end.
(* CNAME(): returns (text, err-flag) — Go returns the text together with a possibly non-nil error *)
Fixpoint cname_rest (l : list packet) (err : bool) : res (bytes * bool) :=
  match l with
  | [] => Err
  | PSDES s :: r => match sdes_first_cname s with Some t => Ok (t, err) | None => cname_rest r err end
  | PRR _ :: r => cname_rest r err
  | _ :: r => cname_rest r true
  end.
Definition Compound_cname (c : list packet) : res (bytes * bool) :=
  match c with [] => Err | _ :: r => cname_rest r false end.

(* ---- Marshal / MarshalSize / DestinationSSRC over the packet sum ---- *)
Fixpoint marshal_packet (p : packet) : res bytes :=
  match p with
  | PSR x => SR_marshal x | PRR x => RR_marshal x | PSDES x => SDES_marshal x | PBYE x => BYE_marshal x
  | PAPP x => APP_marshal x | PNACK x => NACK_marshal x | PRRR x => RRR_marshal x | PTWCC x => TWCC_marshal x
  | PCCFB x => CCFB_marshal x | PPLI x => PLI_marshal x | PSLI x => SLI_marshal x | PREMB x => REMB_marshal x
  | PFIR x => FIR_marshal x | PXR x => XR_marshal x | PRaw b => Ok b
  | PCompound l =>
      let* _ := Compound_validate l in
      (fix go (l : list packet) : res bytes :=
         match l with [] => Ok [] | q :: r => let* d := marshal_packet q in let* ds := go r in Ok (d ++ ds) end) l
  end.

(* func Marshal(packets []Packet) ([]byte, error) *)
Fixpoint Marshal (ps : list packet) : res bytes :=
  match ps with
  | [] => Ok []
  | p :: r => let* d := marshal_packet p in let* ds := Marshal r in Ok (d ++ ds)
  end.

Fixpoint size_packet (p : packet) : N :=
  match p with
  | PSR x => SR_size x | PRR x => RR_size x | PSDES x => SDES_size x | PBYE x => BYE_size x
  | PAPP x => APP_size x | PNACK x => NACK_size x | PRRR x => RRR_size x | PTWCC x => TWCC_size x
  | PCCFB x => CCFB_size x | PPLI x => PLI_size x | PSLI x => SLI_size x | PREMB x => REMB_size x
  | PFIR x => FIR_size x | PXR x => XR_size x | PRaw b => len b
  | PCompound l => fold_right (fun q acc => size_packet q + acc) 0 l
  end.

Fixpoint dest_packet (p : packet) : list N :=
  match p with
  | PSR x => SR_dest x | PRR x => RR_dest x | PSDES x => SDES_dest x | PBYE x => BYE_dest x
  | PAPP x => APP_dest x | PNACK x => NACK_dest x | PRRR x => RRR_dest x | PTWCC x => TWCC_dest x
  | PCCFB x => CCFB_dest x | PPLI x => PLI_dest x | PSLI x => SLI_dest x | PREMB x => REMB_dest x
  | PFIR x => FIR_dest x | PXR x => XR_dest x | PRaw _ => []
  | PCompound l => match l with [] => [] | q :: _ => dest_packet q end
  end.

(* Header() accessor where the Go type offers one *)
Definition header_of_packet (p : packet) : option Header :=
  match p with
  | PSR x => Some (SR_header x) | PRR x => Some (RR_header x) | PSDES x => Some (SDES_header x)
  | PBYE x => Some (BYE_header x) | PNACK x => Some (NACK_header x) | PRRR x => Some (RRR_header x)
  | PCCFB x => Some (CCFB_header x) | PPLI x => Some (PLI_header x) | PSLI x => Some (SLI_header x)
  | PREMB x => Some (REMB_header x) | PFIR x => Some (FIR_header x) | PRaw b => Some (Raw_header b)
  | _ => None
  end.
(* Len() accessor: TransportLayerCC (uint16) and CCFeedbackReport (int) *)
Definition len_of_packet (p : packet) : option N :=
  match p with PTWCC x => Some (TWCC_len x) | PCCFB x => Some (CCFB_size x) | _ => None end.

(* func (c *CompoundPacket) Unmarshal *)
Definition Compound_unmarshal (raw : bytes) : res (list packet) :=
  let* ps := unmarshal_loop (S (List.length raw)) raw in
  let* _ := Compound_validate ps in
  Ok ps.
