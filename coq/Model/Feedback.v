(* Model of transport_layer_nack.go, picture_loss_indication.go,
   rapid_resynchronization_request.go, slice_loss_indication.go (repaired F1),
   full_intra_request.go (repaired F2). *)
From Coq Require Import List NArith ZArith Bool.
From Coq.Strings Require Import Byte.
From RTCP Require Import Lib.Base Gen.Consts Model.Header Model.Reports.
Import ListNotations.
Local Open Scope N_scope.

(* ---------- NACK helpers ---------- *)
Record NackPair := mkNackPair { np_id : N; np_bm : N }.

Definition shl16_1 (k : N) : N := if k <? 16 then 2 ^ k else 0.   (* uint16(1) << k *)

(* NackPairsFromSequenceNumbers: the loop body, [cur] is *nackPair *)
Fixpoint nack_go (cur : NackPair) (l : list N) : list NackPair :=
  match l with
  | [] => [cur]
  | m :: l' =>
      if 16 <? sub16 m (np_id cur) then cur :: nack_go {| np_id := m; np_bm := 0 |} l'
      else nack_go {| np_id := np_id cur;
                      np_bm := N.lor (np_bm cur) (shl16_1 (sub16 (sub16 m (np_id cur)) 1)) |} l'
  end.
Definition nack_pairs_from (l : list N) : list NackPair :=
  match l with [] => [] | x :: l' => nack_go {| np_id := x; np_bm := 0 |} l' end.

(* NackPair.Range: the callback is modelled by how many more calls it answers "true" to.
   [range_idx] yields the bit indices i for which f(PacketID+i+1) is called, in order;
   [budget] = number of further calls that return true (the call made when budget = 0 returns false). *)
Fixpoint range_idx (fuel : nat) (b i : N) (budget : nat) : list N :=
  match fuel with
  | O => []
  | S f =>
      if b =? 0 then [] else
      if N.testbit b i then
        match budget with
        | O => [i]                  (* this call returns false: stop *)
        | S bd => i :: range_idx f (N.clearbit b i) (i + 1) bd
        end
      else range_idx f b (i + 1) budget
  end.
(* stop_at = index (0-based) of the call that returns false; None = never *)
Definition nack_range (p : NackPair) (stop_at : option nat) : list N :=
  let seqno i := u16 (np_id p + i + 1) in
  match stop_at with
  | Some O => [np_id p]
  | Some (S k) => np_id p :: map seqno (range_idx 17 (np_bm p) 0 k)
  | None => np_id p :: map seqno (range_idx 17 (np_bm p) 0 17)
  end.
Definition packet_list (p : NackPair) : list N := nack_range p None.

(* ---------- TransportLayerNack ---------- *)
Record NACK := mkNACK { nack_sender : N; nack_media : N; nack_pairs : list NackPair }.

Definition NACK_size (p : NACK) : N := c_headerLength + c_nackOffset + nlen (nack_pairs p) * 4.
Definition NACK_header (p : NACK) : Header :=
  {| h_pad := false; h_count := c_FormatTLN; h_type := c_TypeTransportSpecificFeedback;
     h_len := u16 (NACK_size p / 4 - 1) |}.

Definition NACK_marshal (p : NACK) : res bytes :=
  if 255 <? nlen (nack_pairs p) + c_tlnLength then Err else
  let body := be 4 (nack_sender p) ++ be 4 (nack_media p)
              ++ concat (map (fun q => be 2 (np_id q) ++ be 2 (np_bm q)) (nack_pairs p)) in
  let* h := Header_marshal (NACK_header p) in
  Ok (h ++ body).

Fixpoint nack_read (fuel : nat) (raw : bytes) (i stop : N) : res (list NackPair) :=
  match fuel with
  | O => Fuel
  | S f =>
      if i <? stop then
        let* id := get_be_at 2 raw i in
        let* bm := get_be_at 2 raw (i + 2) in
        let* r := nack_read f raw (i + 4) stop in
        Ok ({| np_id := id; np_bm := bm |} :: r)
      else Ok []
  end.

Definition NACK_unmarshal (raw : bytes) : res NACK :=
  if len raw <? c_headerLength + c_ssrcLength then Err else
  let* h := Header_unmarshal raw in
  let l4 := u16 (4 * h_len h) in
  if len raw <? c_headerLength + l4 then Err else
  if negb (h_type h =? c_TypeTransportSpecificFeedback) || negb (h_count h =? c_FormatTLN) then Err else
  if l4 <=? c_nackOffset then Err else
  let* s := get_be_at 4 raw c_headerLength in
  let* m := get_be_at 4 raw (c_headerLength + c_ssrcLength) in
  let* ps := nack_read (S (length raw)) raw (c_headerLength + c_nackOffset) (c_headerLength + l4) in
  Ok {| nack_sender := s; nack_media := m; nack_pairs := ps |}.

Definition NACK_dest (p : NACK) : list N := [nack_media p].

(* ---------- PLI / RRR ---------- *)
Record PLI := mkPLI { pli_sender : N; pli_media : N }.
Record RRR := mkRRR { rrr_sender : N; rrr_media : N }.

Definition PLI_size (p : PLI) : N := c_headerLength + c_ssrcLength * 2.
Definition PLI_header (p : PLI) : Header :=
  {| h_pad := false; h_count := c_FormatPLI; h_type := c_TypePayloadSpecificFeedback; h_len := c_pliLength |}.
Definition PLI_marshal (p : PLI) : res bytes :=
  let raw := zeros (PLI_size p) in
  let* raw := put_be_at 4 raw c_headerLength (pli_sender p) in
  let* raw := put_be_at 4 raw (c_headerLength + 4) (pli_media p) in
  let* h := Header_marshal (PLI_header p) in
  copy_at raw 0 h.
Definition PLI_unmarshal (raw : bytes) : res PLI :=
  if len raw <? c_headerLength + c_ssrcLength * 2 then Err else
  let* h := Header_unmarshal raw in
  if negb (h_type h =? c_TypePayloadSpecificFeedback) || negb (h_count h =? c_FormatPLI) then Err else
  let* s := get_be_at 4 raw c_headerLength in
  let* m := get_be_at 4 raw (c_headerLength + c_ssrcLength) in
  Ok {| pli_sender := s; pli_media := m |}.
Definition PLI_dest (p : PLI) : list N := [pli_media p].

Definition RRR_size (p : RRR) : N := c_headerLength + c_rrrHeaderLength.
Definition RRR_header (p : RRR) : Header :=
  {| h_pad := false; h_count := c_FormatRRR; h_type := c_TypeTransportSpecificFeedback; h_len := c_rrrLength |}.
Definition RRR_marshal (p : RRR) : res bytes :=
  let raw := zeros (RRR_size p) in
  let* raw := put_be_at 4 raw c_headerLength (rrr_sender p) in
  let* raw := put_be_at 4 raw (c_headerLength + c_rrrMediaOffset) (rrr_media p) in
  let* h := Header_marshal (RRR_header p) in
  copy_at raw 0 h.
Definition RRR_unmarshal (raw : bytes) : res RRR :=
  if len raw <? c_headerLength + c_ssrcLength * 2 then Err else
  let* h := Header_unmarshal raw in
  if negb (h_type h =? c_TypeTransportSpecificFeedback) || negb (h_count h =? c_FormatRRR) then Err else
  let* s := get_be_at 4 raw c_headerLength in
  let* m := get_be_at 4 raw (c_headerLength + c_ssrcLength) in
  Ok {| rrr_sender := s; rrr_media := m |}.
Definition RRR_dest (p : RRR) : list N := [rrr_media p].

(* ---------- SLI ---------- *)
Record SLIEntry := mkSLIEntry { sli_first : N; sli_number : N; sli_picture : N }.
Record SLI := mkSLI { sli_sender : N; sli_media : N; sli_entries : list SLIEntry }.

Definition SLI_size (p : SLI) : N := c_headerLength + c_sliOffset + nlen (sli_entries p) * 4.
Definition SLI_header (p : SLI) : Header :=
  {| h_pad := false; h_count := c_FormatSLI; h_type := c_TypeTransportSpecificFeedback;
     h_len := u16 (SLI_size p / 4 - 1) |}.
Definition sli_word (e : SLIEntry) : N :=
  N.lor (N.lor (u32 (N.land (sli_first e) 8191 * 2 ^ 19)) (u32 (N.land (sli_number e) 8191 * 2 ^ 6)))
        (N.land (sli_picture e) 63).
Definition SLI_marshal (p : SLI) : res bytes :=
  if 255 <? nlen (sli_entries p) + c_sliLength then Err else
  let body := be 4 (sli_sender p) ++ be 4 (sli_media p)
              ++ concat (map (fun e => be 4 (sli_word e)) (sli_entries p)) in
  let* h := Header_marshal (SLI_header p) in
  Ok (h ++ body).
Definition sli_of_word (w : N) : SLIEntry :=
  {| sli_first := u16 (N.land (w / 2 ^ 19) 8191); sli_number := u16 (N.land (w / 2 ^ 6) 8191);
     sli_picture := u8 (N.land w 63) |}.
Fixpoint sli_read (fuel : nat) (raw : bytes) (i stop : N) : res (list SLIEntry) :=
  match fuel with
  | O => Fuel
  | S f =>
      if i <? stop then
        let* w := get_be_at 4 raw i in
        let* r := sli_read f raw (i + 4) stop in
        Ok (sli_of_word w :: r)
      else Ok []
  end.
Definition SLI_unmarshal (raw : bytes) : res SLI :=
  if len raw <? c_headerLength + c_sliOffset then Err else
  let* h := Header_unmarshal raw in
  let l4 := u16 (4 * h_len h) in
  if len raw <? c_headerLength + l4 then Err else
  if negb (h_type h =? c_TypeTransportSpecificFeedback) || negb (h_count h =? c_FormatSLI) then Err else
  let* s := get_be_at 4 raw c_headerLength in
  let* m := get_be_at 4 raw (c_headerLength + c_ssrcLength) in
  let* es := sli_read (S (length raw)) raw (c_headerLength + c_sliOffset) (c_headerLength + l4) in
  Ok {| sli_sender := s; sli_media := m; sli_entries := es |}.
Definition SLI_dest (p : SLI) : list N := [sli_media p].

(* ---------- FIR ---------- *)
Record FIREntry := mkFIREntry { fir_ssrc : N; fir_seq : N }.
Record FIR := mkFIR { fir_sender : N; fir_media : N; fir_entries : list FIREntry }.

Definition FIR_size (p : FIR) : N := c_headerLength + c_firOffset + nlen (fir_entries p) * 8.
Definition FIR_header (p : FIR) : Header :=
  {| h_pad := false; h_count := c_FormatFIR; h_type := c_TypePayloadSpecificFeedback;
     h_len := u16 (FIR_size p / 4 - 1) |}.
Definition FIR_marshal (p : FIR) : res bytes :=
  let body := be 4 (fir_sender p) ++ be 4 (fir_media p)
              ++ concat (map (fun e => be 4 (fir_ssrc e) ++ [n2b (fir_seq e); x00; x00; x00]) (fir_entries p)) in
  let* h := Header_marshal (FIR_header p) in
  Ok (h ++ body).
Fixpoint fir_read (fuel : nat) (raw : bytes) (i stop : N) : res (list FIREntry) :=
  match fuel with
  | O => Fuel
  | S f =>
      if i <? stop then
        let* s := get_be_at 4 raw i in
        let* q := idx raw (i + 4) in
        let* r := fir_read f raw (i + 8) stop in
        Ok ({| fir_ssrc := s; fir_seq := b2n q |} :: r)
      else Ok []
  end.
Definition FIR_unmarshal (raw : bytes) : res FIR :=
  if len raw <? c_headerLength + c_firOffset then Err else
  let* h := Header_unmarshal raw in
  let l4 := u16 (4 * h_len h) in
  if len raw <? c_headerLength + l4 then Err else
  if negb (h_type h =? c_TypePayloadSpecificFeedback) || negb (h_count h =? c_FormatFIR) then Err else
  if (sub16 l4 c_firOffset <=? 0) || negb (l4 mod 8 =? 0) then Err else
  let* s := get_be_at 4 raw c_headerLength in
  let* m := get_be_at 4 raw (c_headerLength + c_ssrcLength) in
  let* es := fir_read (S (length raw)) raw (c_headerLength + c_firOffset) (c_headerLength + l4) in
  Ok {| fir_sender := s; fir_media := m; fir_entries := es |}.
Definition FIR_dest (p : FIR) : list N := map fir_ssrc (fir_entries p).
