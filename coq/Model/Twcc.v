(* Model of transport_layer_cc.go (as repaired by the fix: commits for F3, F4, F15). *)
From Coq Require Import List NArith ZArith Bool.
From Coq.Strings Require Import Byte.
From RTCP Require Import Lib.Base Gen.Consts Model.Header Model.Reports.
Import ListNotations.
Local Open Scope N_scope.

Inductive TChunk :=
| RLC (ty sym run : N)                         (* RunLengthChunk{Type, PacketStatusSymbol, RunLength} *)
| SVC (ty symsize : N) (syms : list N).        (* StatusVectorChunk{Type, SymbolSize, SymbolList} *)
Record RecvDelta := mkRecvDelta { rd_type : N; rd_delta : Z }.
Record TWCC := mkTWCC {
  tw_hdr : Header; tw_sender : N; tw_media : N; tw_base : N; tw_count : N;
  tw_reftime : N; tw_fb : N; tw_chunks : list TChunk; tw_deltas : list RecvDelta }.

(* ---- chunk codecs ---- *)
Definition RLC_marshal (sym run : N) : res bytes :=
  let* dst := setNBitsOfUint16 0 1 0 0 in
  let* dst := setNBitsOfUint16 dst 2 1 sym in
  let* dst := setNBitsOfUint16 dst 13 3 run in
  Ok (be 2 dst).

Definition rlc_of_bytes (b0 b1 : N) : TChunk :=
  RLC c_TypeTCCRunLengthChunk (getNBitsFromByte b0 1 2) (u16 (shl 16 (getNBitsFromByte b0 3 5) 8 + b1)).

Definition RLC_unmarshal (raw : bytes) : res TChunk :=
  if negb (len raw =? c_packetStatusChunkLength) then Err else
  let* b0 := idx raw 0 in let* b1 := idx raw 1 in
  Ok (rlc_of_bytes (b2n b0) (b2n b1)).

Definition numOfBitsOfSymbolSize (s : N) : N :=
  if s =? c_TypeTCCSymbolSizeOneBit then 1 else if s =? c_TypeTCCSymbolSizeTwoBit then 2 else 0.

Fixpoint svc_put (dst numOfBits i : N) (syms : list N) : res N :=
  match syms with
  | [] => Ok dst
  | s :: r =>
      let index := u16 (u16 (numOfBits * u16 i) + 2) in
      let* dst := setNBitsOfUint16 dst numOfBits index s in
      svc_put dst numOfBits (i + 1) r
  end.
Definition SVC_marshal (symsize : N) (syms : list N) : res bytes :=
  let* dst := setNBitsOfUint16 0 1 0 1 in
  let* dst := setNBitsOfUint16 dst 1 1 symsize in
  let* dst := svc_put dst (numOfBitsOfSymbolSize symsize) 0 syms in
  Ok (be 2 dst).

Definition TChunk_marshal (c : TChunk) : res bytes :=
  match c with RLC _ sym run => RLC_marshal sym run | SVC _ ss syms => SVC_marshal ss syms end.

Definition svc_of_bytes (b0 b1 : N) : TChunk :=
  let ss := getNBitsFromByte b0 1 1 in
  if ss =? c_TypeTCCSymbolSizeOneBit then
    SVC c_TypeTCCStatusVectorChunk ss
      (map (fun i => getNBitsFromByte b0 (2 + i) 1) [0;1;2;3;4;5] ++
       map (fun i => getNBitsFromByte b1 i 1) [0;1;2;3;4;5;6;7])
  else if ss =? c_TypeTCCSymbolSizeTwoBit then
    SVC c_TypeTCCStatusVectorChunk ss
      (map (fun i => getNBitsFromByte b0 (2 + i * 2) 2) [0;1;2] ++
       map (fun i => getNBitsFromByte b1 (i * 2) 2) [0;1;2;3])
  else SVC c_TypeTCCStatusVectorChunk (u16 (shl 16 (getNBitsFromByte b0 2 6) 8 + b1)) [].

Definition SVC_unmarshal (raw : bytes) : res TChunk :=
  if negb (len raw =? c_packetStatusChunkLength) then Err else
  let* b0 := idx raw 0 in let* b1 := idx raw 1 in
  Ok (svc_of_bytes (b2n b0) (b2n b1)).

(* ---- RecvDelta ---- *)
Local Open Scope Z_scope.
Definition RecvDelta_marshal (d : RecvDelta) : res bytes :=
  let delta := Z.quot (rd_delta d) (Z.of_N c_TypeTCCDeltaScaleFactor) in
  if (rd_type d =? c_TypeTCCPacketReceivedSmallDelta)%N && (0 <=? delta) && (delta <=? 255) then
    Ok [n2b (Z.to_N delta)]
  else if (rd_type d =? c_TypeTCCPacketReceivedLargeDelta)%N && (-32768 <=? delta) && (delta <=? 32767) then
    Ok (be 2 (Z.to_N (delta mod 65536)))
  else Err.

Definition int16_of (x : N) : Z := if (x <? 32768)%N then Z.of_N x else Z.of_N x - 65536.

Definition RecvDelta_unmarshal (raw : bytes) : res RecvDelta :=
  let n := len raw in
  if negb (n =? 1)%N && negb (n =? 2)%N then Err else
  if (n =? 1)%N then
    let* b := idx raw 0 in
    Ok {| rd_type := c_TypeTCCPacketReceivedSmallDelta; rd_delta := Z.of_N c_TypeTCCDeltaScaleFactor * Z.of_N (b2n b) |}
  else
    let* w := get_be_at 2 raw 0 in
    Ok {| rd_type := c_TypeTCCPacketReceivedLargeDelta; rd_delta := Z.of_N c_TypeTCCDeltaScaleFactor * int16_of w |}.
Local Open Scope N_scope.

(* ---- sizes ---- *)
Fixpoint deltas_len (n : N) (ds : list RecvDelta) : N :=
  match ds with
  | [] => n
  | d :: r => deltas_len (if rd_type d =? c_TypeTCCPacketReceivedSmallDelta then u16 (n + 1) else u16 (n + 2)) r
  end.
(* func (t *TransportLayerCC) packetLen() uint16 *)
Definition TWCC_packetLen (t : TWCC) : N :=
  deltas_len (u16 (c_headerLength + c_packetChunkOffset + nlen (tw_chunks t) * 2)) (tw_deltas t).
(* func (t *TransportLayerCC) MarshalSize() int *)
Definition TWCC_size (t : TWCC) : N :=
  let n := TWCC_packetLen t in
  if negb (n mod 4 =? 0) then u16 (u16 (n / 4 + 1) * 4) else n.
Definition TWCC_len (t : TWCC) : N := u16 (TWCC_size t).

(* ---- Marshal ---- *)
Fixpoint put_tchunks (payload : bytes) (off : N) (cs : list TChunk) : res bytes :=
  match cs with
  | [] => Ok payload
  | c :: r =>
      let* b := TChunk_marshal c in
      if len payload <? off then Panic else
      let* payload := copy_at payload off b in
      put_tchunks payload (off + 2) r
  end.
Fixpoint put_deltas (payload : bytes) (off : N) (ds : list RecvDelta) : res bytes :=
  match ds with
  | [] => Ok payload
  | d :: r =>
      let* b := RecvDelta_marshal d in
      if len payload <? off then Panic else
      let* payload := copy_at payload off b in
      put_deltas payload (if rd_type d =? c_TypeTCCPacketReceivedLargeDelta then off + 2 else off + 1) r
  end.

(* the code, statement by statement (16-bit size arithmetic, absolute offsets, slice-bounds panics) *)
Definition TWCC_marshal_slow (t : TWCC) : res bytes :=
  let* header := Header_marshal (tw_hdr t) in
  if TWCC_size t <? c_headerLength then Panic else
  let payload := zeros (TWCC_size t - c_headerLength) in
  let* payload := put_be_at 4 payload 0 (tw_sender t) in
  let* payload := put_be_at 4 payload 4 (tw_media t) in
  let* payload := put_be_at 2 payload c_baseSequenceNumberOffset (tw_base t) in
  let* payload := put_be_at 2 payload c_packetStatusCountOffset (tw_count t) in
  let w := appendNBitsToUint32 (appendNBitsToUint32 0 24 (tw_reftime t)) 8 (tw_fb t) in
  let* payload := put_be_at 4 payload c_referenceTimeOffset w in
  let* payload := put_tchunks payload c_packetChunkOffset (tw_chunks t) in
  let* payload := put_deltas payload (c_packetChunkOffset + nlen (tw_chunks t) * 2) (tw_deltas t) in
  let* payload :=
    (if h_pad (tw_hdr t) then
       if len payload =? 0 then Panic else
       copy_at payload (len payload - 1) [n2b (TWCC_size t + 65536 - TWCC_packetLen t)]
     else Ok payload) in
  Ok (header ++ payload).

(* content size without 16-bit wrap *)
Definition twcc_exact_len (t : TWCC) : N :=
  c_headerLength + c_packetChunkOffset + nlen (tw_chunks t) * 2
  + fold_right (fun d acc => (if rd_type d =? c_TypeTCCPacketReceivedSmallDelta then 1 else 2) + acc) 0 (tw_deltas t).

Fixpoint tchunks_marshal (cs : list TChunk) : res bytes :=
  match cs with [] => Ok [] | c :: r => let* b := TChunk_marshal c in let* bs := tchunks_marshal r in Ok (b ++ bs) end.
Fixpoint deltas_marshal (ds : list RecvDelta) : res bytes :=
  match ds with [] => Ok [] | d :: r => let* b := RecvDelta_marshal d in let* bs := deltas_marshal r in Ok (b ++ bs) end.

(* When the content fits 16 bits nothing wraps and every write is in range, so the same bytes are
   obtained by concatenation; this linear form is what is evaluated (a packet may carry thousands
   of deltas) and what the theorems reason about.  Above that the statement-by-statement form is used. *)
Definition TWCC_marshal (t : TWCC) : res bytes :=
  if 65532 <? twcc_exact_len t then TWCC_marshal_slow t else
  let* header := Header_marshal (tw_hdr t) in
  let w := appendNBitsToUint32 (appendNBitsToUint32 0 24 (tw_reftime t)) 8 (tw_fb t) in
  let* cs := tchunks_marshal (tw_chunks t) in
  let* ds := deltas_marshal (tw_deltas t) in
  let body := be 4 (tw_sender t) ++ be 4 (tw_media t) ++ be 2 (tw_base t) ++ be 2 (tw_count t) ++ be 4 w ++ cs ++ ds in
  let payload := body ++ zeros (TWCC_size t - c_headerLength - len body) in
  let payload :=
    if h_pad (tw_hdr t) then removelast payload ++ [n2b (TWCC_size t + 65536 - TWCC_packetLen t)] else payload in
  Ok (header ++ payload).

(* ---- Unmarshal ---- *)
Definition is_recv_sym (s : N) : bool :=
  (s =? c_TypeTCCPacketReceivedSmallDelta) || (s =? c_TypeTCCPacketReceivedLargeDelta).

(* delta types appended for one chunk, given how many packets remain *)
Definition chunk_delta_types (c : TChunk) (remaining : N) : list N :=
  match c with
  | RLC _ sym run =>
      if is_recv_sym sym then repeat sym (N.to_nat (N.min remaining run)) else []
  | SVC _ ss syms =>
      if ss =? c_TypeTCCSymbolSizeOneBit then
        filter (fun s => s =? c_TypeTCCPacketReceivedSmallDelta) syms
      else if ss =? c_TypeTCCSymbolSizeTwoBit then filter is_recv_sym syms
      else []
  end.
Definition chunk_advance (c : TChunk) (remaining : N) : N :=
  match c with
  | RLC _ _ run => N.min remaining run
  | SVC _ _ syms => N.min remaining (u16 (nlen syms))
  end.

(* for processedPacketNum < t.PacketStatusCount { ... }
   [rest] is rawPacket[pos:] (kept alongside pos so that the model reads in constant time per chunk);
   a read past the end of the slice is a Panic, exactly where Go's index/slice expression panics. *)
Fixpoint status_loop (fuel : nat) (rest : bytes) (total count pos processed : N)
  : res (list TChunk * list N * N * bytes) :=
  match fuel with
  | O => Fuel
  | S f =>
      if processed <? count then
        if total <? u16 (pos + c_packetStatusChunkLength) then Err else
        match rest with
        | b0 :: b1 :: rest' =>
            let typ := getNBitsFromByte (b2n b0) 0 1 in
            let* c := (if typ =? c_TypeTCCRunLengthChunk then RLC_unmarshal [b0; b1] else SVC_unmarshal [b0; b1]) in
            let remaining := sub16 count processed in
            let dts := chunk_delta_types c remaining in
            let* (cs, ds, p, rest'') := status_loop f rest' total count (u16 (pos + c_packetStatusChunkLength))
                                                     (u16 (processed + chunk_advance c remaining)) in
            Ok (c :: cs, dts ++ ds, p, rest'')
        | _ => Panic
        end
      else Ok ([], [], pos, rest)
  end.

Fixpoint delta_pass (rest : bytes) (total pos : N) (dts : list N) : res (list RecvDelta) :=
  match dts with
  | [] => Ok []
  | t :: r =>
      if t =? c_TypeTCCPacketReceivedSmallDelta then
        if total <? u16 (pos + 1) then Err else
        match rest with
        | b0 :: rest' =>
            let* d := RecvDelta_unmarshal [b0] in
            let* ds := delta_pass rest' total (u16 (pos + 1)) r in
            Ok (d :: ds)
        | _ => Panic
        end
      else if t =? c_TypeTCCPacketReceivedLargeDelta then
        if total <? u16 (pos + 2) then Err else
        match rest with
        | b0 :: b1 :: rest' =>
            let* d := RecvDelta_unmarshal [b0; b1] in
            let* ds := delta_pass rest' total (u16 (pos + 2)) r in
            Ok (d :: ds)
        | _ => Panic
        end
      else
        let* ds := delta_pass rest total pos r in
        Ok ({| rd_type := t; rd_delta := 0%Z |} :: ds)
  end.

Definition TWCC_unmarshal (raw : bytes) : res TWCC :=
  if len raw <? c_headerLength + c_ssrcLength then Err else
  let* h := Header_unmarshal raw in
  let total := u16 (4 * u16 (h_len h + 1)) in
  if total <? c_headerLength + c_packetChunkOffset then Err else
  if len raw <? total then Err else
  if negb (h_type h =? c_TypeTransportSpecificFeedback) || negb (h_count h =? c_FormatTCC) then Err else
  let* sender := get_be_at 4 raw c_headerLength in
  let* media := get_be_at 4 raw (c_headerLength + c_ssrcLength) in
  let* base := get_be_at 2 raw (c_headerLength + c_baseSequenceNumberOffset) in
  let* count := get_be_at 2 raw (c_headerLength + c_packetStatusCountOffset) in
  let* rt := slice raw (c_headerLength + c_referenceTimeOffset) (c_headerLength + c_referenceTimeOffset + 3) in
  let* reftime := get24BitsFromBytes rt in
  let* fb := idx raw (c_headerLength + c_fbPktCountOffset) in
  let pos0 := u16 (c_headerLength + c_packetChunkOffset) in
  let* (chunks, dts, pos, rest) := status_loop (S (length raw)) (skipn (N.to_nat pos0) raw) total count pos0 0 in
  let* deltas := delta_pass rest total pos dts in
  Ok {| tw_hdr := h; tw_sender := sender; tw_media := media; tw_base := base; tw_count := count;
        tw_reftime := reftime; tw_fb := b2n fb; tw_chunks := chunks; tw_deltas := deltas |}.

Definition TWCC_dest (t : TWCC) : list N := [tw_media t].
