(* Model of goodbye.go and application_defined.go (APP as repaired by the fix for F11) *)
From Coq Require Import List NArith ZArith Bool.
From Coq.Strings Require Import Byte.
From RTCP Require Import Lib.Base Gen.Consts Model.Header Model.Reports.
Import ListNotations.
Local Open Scope N_scope.

Record BYE := mkBYE { bye_sources : list N; bye_reason : bytes }.

(* func (g *Goodbye) MarshalSize *)
Definition BYE_size (g : BYE) : N :=
  let srcs := nlen (bye_sources g) * c_ssrcLength in
  let rl := len (bye_reason g) in
  let rl := if 0 <? rl then rl + 1 else rl in
  let l := c_headerLength + srcs + rl in
  l + get_padding l.

Definition BYE_header (g : BYE) : Header :=
  {| h_pad := false; h_count := u8 (nlen (bye_sources g)); h_type := c_TypeGoodbye;
     h_len := u16 (BYE_size g / 4 - 1) |}.

Fixpoint put_u32s (raw : bytes) (off : N) (l : list N) : res bytes :=
  match l with
  | [] => Ok raw
  | x :: l' => let* raw := put_be_at 4 raw off x in put_u32s raw (off + 4) l'
  end.

(* func (g Goodbye) Marshal *)
Definition BYE_marshal (g : BYE) : res bytes :=
  let raw := zeros (BYE_size g) in
  if c_countMax <? nlen (bye_sources g) then Err else
  let* raw := put_u32s raw c_headerLength (bye_sources g) in
  let* raw :=
    (if 0 <? len (bye_reason g) then
       if c_sdesMaxOctetCount <? len (bye_reason g) then Err else
       let ro := c_headerLength + nlen (bye_sources g) * c_ssrcLength in
       let* raw := copy_at raw ro [n2b (len (bye_reason g))] in
       copy_at raw (ro + 1) (bye_reason g)
     else Ok raw) in
  let* h := Header_marshal (BYE_header g) in
  copy_at raw 0 h.

Fixpoint get_u32s (k : nat) (raw : bytes) (off : N) : res (list N) :=
  match k with
  | O => Ok []
  | S k' => let* x := get_be_at 4 raw off in let* r := get_u32s k' raw (off + 4) in Ok (x :: r)
  end.

(* func (g *Goodbye) Unmarshal *)
Definition BYE_unmarshal (raw : bytes) : res BYE :=
  let* h := Header_unmarshal raw in
  if negb (h_type h =? c_TypeGoodbye) then Err else
  if negb (get_padding (len raw) =? 0) then Err else
  let reasonOffset := u8 (c_headerLength + u8 (h_count h * c_ssrcLength)) in
  if len raw <? reasonOffset then Err else
  let* srcs := get_u32s (N.to_nat (h_count h)) raw c_headerLength in
  let* reason :=
    (if reasonOffset <? len raw then
       let* rl := idx raw reasonOffset in
       let reasonEnd := reasonOffset + 1 + b2n rl in
       if len raw <? reasonEnd then Err else
       slice raw (reasonOffset + 1) reasonEnd
     else Ok []) in
  Ok {| bye_sources := srcs; bye_reason := reason |}.

Definition BYE_dest (g : BYE) : list N := bye_sources g.

(* ---- application_defined.go ---- *)
Record APP := mkAPP { app_subtype : N; app_ssrc : N; app_name : bytes; app_data : bytes }.

Definition app_padding (dataLength : N) : N :=
  let p := 4 - dataLength mod 4 in if p =? 4 then 0 else p.

(* func (a *ApplicationDefined) MarshalSize *)
Definition APP_size (a : APP) : N := 12 + len (app_data a) + app_padding (len (app_data a)).

(* func (a ApplicationDefined) Marshal *)
Definition APP_marshal (a : APP) : res bytes :=
  let dataLength := len (app_data a) in
  if 65535 - 12 <? dataLength then Err else
  if negb (len (app_name a) =? 4) then Err else
  let paddingSize := app_padding dataLength in
  let packetSize := APP_size a in
  let* hb := Header_marshal {| h_pad := negb (paddingSize =? 0); h_count := app_subtype a;
                                h_type := c_TypeApplicationDefined; h_len := u16 (packetSize / 4 - 1) |} in
  let raw := zeros packetSize in
  let* raw := copy_at raw 0 hb in
  let* raw := put_be_at 4 raw 4 (app_ssrc a) in
  let* raw := copy_at raw 8 (app_name a) in
  let* raw := copy_at raw 12 (app_data a) in
  copy_at raw (12 + dataLength) (repeat (n2b paddingSize) (N.to_nat paddingSize)).

(* func (a *ApplicationDefined) Unmarshal *)
Definition APP_unmarshal (raw : bytes) : res APP :=
  let* h := Header_unmarshal raw in
  if len raw <? 12 then Err else
  if negb (h_type h =? c_TypeApplicationDefined) then Err else
  if negb (u16 (h_len h + 1) * 4 =? len raw) then Err else
  let* ssrc := get_be_at 4 raw 4 in
  let* name := slice raw 8 12 in
  let* paddingSize :=
    (if h_pad h then
       let* last := idx raw (len raw - 1) in
       if len raw - 12 <? b2n last then Err else Ok (b2n last)
     else Ok 0) in
  let* data := slice raw 12 (len raw - paddingSize) in
  Ok {| app_subtype := h_count h; app_ssrc := ssrc; app_name := name; app_data := data |}.

Definition APP_dest (a : APP) : list N := [app_ssrc a].
