(* Model of reception_report.go, sender_report.go, receiver_report.go
   (as repaired by the fix: commits for F7, F8, F13; see DESIGN.md section 6). *)
From Coq Require Import List NArith ZArith Bool.
From Coq.Strings Require Import Byte.
From RTCP Require Import Lib.Base Gen.Consts Model.Header.
Import ListNotations.
Local Open Scope N_scope.

Record RRep := mkRRep { rr_ssrc : N; rr_frac : N; rr_lost : N; rr_seq : N; rr_jit : N; rr_lsr : N; rr_delay : N }.
Record SR := mkSR { sr_ssrc : N; sr_ntp : N; sr_rtp : N; sr_pcount : N; sr_ocount : N; sr_reports : list RRep; sr_ext : bytes }.
Record RR := mkRR { rcv_ssrc : N; rcv_reports : list RRep; rcv_ext : bytes }.

(* reception_report.go: func (r ReceptionReport) Marshal *)
Definition RRep_marshal (r : RRep) : res bytes :=
  let b := zeros c_receptionReportLength in
  let* b := put_be_at 4 b 0 (rr_ssrc r) in
  let* b := copy_at b c_fractionLostOffset [n2b (rr_frac r)] in
  if 16777216 <=? rr_lost r then Err else
  let* b := copy_at b c_totalLostOffset [n2b (rr_lost r / 65536); n2b (rr_lost r / 256); n2b (rr_lost r)] in
  let* b := put_be_at 4 b c_lastSeqOffset (rr_seq r) in
  let* b := put_be_at 4 b c_jitterOffset (rr_jit r) in
  let* b := put_be_at 4 b c_lastSROffset (rr_lsr r) in
  let* b := put_be_at 4 b c_delayOffset (rr_delay r) in
  Ok b.

(* reception_report.go: func (r *ReceptionReport) Unmarshal *)
Definition RRep_unmarshal (b : bytes) : res RRep :=
  if len b <? c_receptionReportLength then Err else
  let* s := get_be_at 4 b 0 in
  let* f := idx b c_fractionLostOffset in
  let* t0 := idx b c_totalLostOffset in
  let* t1 := idx b (c_totalLostOffset + 1) in
  let* t2 := idx b (c_totalLostOffset + 2) in
  let* sq := get_be_at 4 b c_lastSeqOffset in
  let* j := get_be_at 4 b c_jitterOffset in
  let* l := get_be_at 4 b c_lastSROffset in
  let* d := get_be_at 4 b c_delayOffset in
  Ok {| rr_ssrc := s; rr_frac := b2n f;
        rr_lost := N.lor (N.lor (b2n t2) (b2n t1 * 256)) (b2n t0 * 65536);
        rr_seq := sq; rr_jit := j; rr_lsr := l; rr_delay := d |}.

(* ---- sender_report.go ---- *)
Definition nlen {A} (l : list A) : N := N.of_nat (length l).

Definition SR_size (s : SR) : N :=
  c_headerLength + c_srHeaderLength + c_receptionReportLength * nlen (sr_reports s)
  + (len (sr_ext s) + get_padding (len (sr_ext s))).

Definition SR_header (s : SR) : Header :=
  {| h_pad := false; h_count := u8 (nlen (sr_reports s)); h_type := c_TypeSenderReport;
     h_len := u16 (SR_size s / 4 - 1) |}.

(* the report loop of Marshal: data, err := rp.Marshal(); copy(packetBody[offset:], data); offset += 24.
   [off] is the absolute offset in rawPacket (packetBody = rawPacket[4:]). *)
Fixpoint put_reports (raw : bytes) (off : N) (rs : list RRep) : res (bytes * N) :=
  match rs with
  | [] => Ok (raw, off)
  | r :: rs' =>
      let* d := RRep_marshal r in
      let* raw := copy_at raw off d in
      put_reports raw (off + c_receptionReportLength) rs'
  end.

Definition SR_marshal (s : SR) : res bytes :=
  let raw := zeros (SR_size s) in
  let* raw := put_be_at 4 raw (c_headerLength + c_srSSRCOffset) (sr_ssrc s) in
  let* raw := put_be_at 8 raw (c_headerLength + c_srNTPOffset) (sr_ntp s) in
  let* raw := put_be_at 4 raw (c_headerLength + c_srRTPOffset) (sr_rtp s) in
  let* raw := put_be_at 4 raw (c_headerLength + c_srPacketCountOffset) (sr_pcount s) in
  let* raw := put_be_at 4 raw (c_headerLength + c_srOctetCountOffset) (sr_ocount s) in
  let* (raw, off) := put_reports raw (c_headerLength + c_srHeaderLength) (sr_reports s) in
  if c_countMax <? nlen (sr_reports s) then Err else
  let* raw := copy_at raw off (sr_ext s) in
  let* h := Header_marshal (SR_header s) in
  copy_at raw 0 h.

Fixpoint sr_reports_loop (k : nat) (body : bytes) (offset : N) : res (list RRep * N) :=
  match k with
  | O => Ok ([], offset)
  | S k' =>
      let rrEnd := offset + c_receptionReportLength in
      if len body <? rrEnd then Err else
      let* rrBody := slice body offset (offset + c_receptionReportLength) in
      let* rr := RRep_unmarshal rrBody in
      let* (rs, off') := sr_reports_loop k' body rrEnd in
      Ok (rr :: rs, off')
  end.

Definition SR_unmarshal (raw : bytes) : res SR :=
  if len raw <? c_headerLength + c_srHeaderLength then Err else
  let* h := Header_unmarshal raw in
  if negb (h_type h =? c_TypeSenderReport) then Err else
  let* body := slice_from raw c_headerLength in
  let* ssrc := get_be_at 4 body c_srSSRCOffset in
  let* ntp := get_be_at 8 body c_srNTPOffset in
  let* rtp := get_be_at 4 body c_srRTPOffset in
  let* pc := get_be_at 4 body c_srPacketCountOffset in
  let* oc := get_be_at 4 body c_srOctetCountOffset in
  let* (reports, offset) := sr_reports_loop (N.to_nat (h_count h)) body c_srReportOffset in
  let* ext := (if offset <? len body then slice_from body offset else Ok []) in
  if negb (u8 (nlen reports) =? h_count h) then Err else
  Ok {| sr_ssrc := ssrc; sr_ntp := ntp; sr_rtp := rtp; sr_pcount := pc; sr_ocount := oc;
        sr_reports := reports; sr_ext := ext |}.

Definition SR_dest (s : SR) : list N := map rr_ssrc (sr_reports s) ++ [sr_ssrc s].

(* ---- receiver_report.go ---- *)
Definition RR_size (r : RR) : N :=
  c_headerLength + c_ssrcLength + c_receptionReportLength * nlen (rcv_reports r)
  + (len (rcv_ext r) + get_padding (len (rcv_ext r))).

Definition RR_header (r : RR) : Header :=
  {| h_pad := false; h_count := u8 (nlen (rcv_reports r)); h_type := c_TypeReceiverReport;
     h_len := u16 (RR_size r / 4 - 1) |}.

Definition RR_marshal (r : RR) : res bytes :=
  let raw := zeros (RR_size r) in
  let* raw := put_be_at 4 raw c_headerLength (rcv_ssrc r) in
  let* (raw, off) := put_reports raw (c_headerLength + c_ssrcLength) (rcv_reports r) in
  if c_countMax <? nlen (rcv_reports r) then Err else
  let* raw := copy_at raw (c_headerLength + c_ssrcLength + c_receptionReportLength * nlen (rcv_reports r)) (rcv_ext r) in
  let* h := Header_marshal (RR_header r) in
  copy_at raw 0 h.

(* for i := 8; i < len(raw) && len(reports) < count; i += 24 *)
Fixpoint rr_reports_loop (k : nat) (raw : bytes) (i : N) : res (list RRep) :=
  match k with
  | O => Ok []
  | S k' =>
      if i <? len raw then
        let* sub := slice_from raw i in
        let* rr := RRep_unmarshal sub in
        let* rs := rr_reports_loop k' raw (i + c_receptionReportLength) in
        Ok (rr :: rs)
      else Ok []
  end.

Definition RR_unmarshal (raw : bytes) : res RR :=
  if len raw <? c_headerLength + c_ssrcLength then Err else
  let* h := Header_unmarshal raw in
  if negb (h_type h =? c_TypeReceiverReport) then Err else
  let* ssrc := get_be_at 4 raw c_rrSSRCOffset in
  let* reports := rr_reports_loop (N.to_nat (h_count h)) raw c_rrReportOffset in
  let* ext := slice_from raw (c_rrReportOffset + nlen reports * c_receptionReportLength) in
  if negb (u8 (nlen reports) =? h_count h) then Err else
  Ok {| rcv_ssrc := ssrc; rcv_reports := reports; rcv_ext := ext |}.

Definition RR_dest (r : RR) : list N := map rr_ssrc (rcv_reports r).
