(* Model of extended_report.go on top of the generic reflection walker and the
   generated layouts (repaired F9; finding F10 reproduced: odd chunk counts are emitted unaligned). *)
From Coq Require Import List NArith ZArith Bool String.
From Coq.Strings Require Import Byte.
From RTCP Require Import Lib.Base Lib.Reflect Gen.Consts Gen.Layouts Model.Header Model.Reports.
Import ListNotations.
Local Open Scope N_scope.

Inductive XRKind := KLossRLE | KDupRLE | KPRT | KRRT | KDLRR | KSS | KVoIP | KUnknown.
Record XRBlock := mkXRBlock { xb_kind : XRKind; xb_val : val }.
Record XR := mkXR { xr_sender : N; xr_blocks : list XRBlock }.

Definition layout_of (k : XRKind) : ty :=
  match k with
  | KLossRLE => ly_LossRLEReportBlock | KDupRLE => ly_DuplicateRLEReportBlock
  | KPRT => ly_PacketReceiptTimesReportBlock | KRRT => ly_ReceiverReferenceTimeReportBlock
  | KDLRR => ly_DLRRReportBlock | KSS => ly_StatisticsSummaryReportBlock
  | KVoIP => ly_VoIPMetricsReportBlock | KUnknown => ly_UnknownReportBlock
  end.

Definition kind_eqb (a b : XRKind) : bool :=
  match a, b with
  | KLossRLE, KLossRLE | KDupRLE, KDupRLE | KPRT, KPRT | KRRT, KRRT | KDLRR, KDLRR
  | KSS, KSS | KVoIP, KVoIP | KUnknown, KUnknown => true
  | _, _ => false
  end.

Definition blk_get (b : XRBlock) (name : string) : N := val_N (get_field (layout_of (xb_kind b)) (xb_val b) name).
Definition blk_hdr (b : XRBlock) : val :=
  match get_field (layout_of (xb_kind b)) (xb_val b) "XRHeader"%string with Some h => h | None => VStruct [] end.
Definition blk_hdr_get (b : XRBlock) (name : string) : N := val_N (get_field ly_XRHeader (blk_hdr b) name).
Definition blk_set (b : XRBlock) (name : string) (x : val) : XRBlock :=
  {| xb_kind := xb_kind b; xb_val := set_field (layout_of (xb_kind b)) (xb_val b) name x |}.
Definition blk_set_hdr (b : XRBlock) (bt ts : option N) (bl : N) : XRBlock :=
  let h := blk_hdr b in
  let h := match bt with Some x => set_field ly_XRHeader h "BlockType"%string (VU x) | None => h end in
  let h := match ts with Some x => set_field ly_XRHeader h "TypeSpecific"%string (VU x) | None => h end in
  let h := set_field ly_XRHeader h "BlockLength"%string (VU bl) in
  blk_set b "XRHeader"%string h.

Definition blk_wire_size (b : XRBlock) : N := wire_size (layout_of (xb_kind b)) (xb_val b).
Definition blk_length_field (b : XRBlock) : N := u16 (blk_wire_size b / 4 - 1).

(* setupBlockHeader of each block type *)
Definition setup_block (b : XRBlock) : XRBlock :=
  let bl := blk_length_field b in
  match xb_kind b with
  | KLossRLE => blk_set_hdr b (Some c_LossRLEReportBlockType) (Some (N.land (blk_get b "T"%string) 15)) bl
  | KDupRLE => blk_set_hdr b (Some c_DuplicateRLEReportBlockType) (Some (N.land (blk_get b "T"%string) 15)) bl
  | KPRT => blk_set_hdr b (Some c_PacketReceiptTimesReportBlockType) (Some (N.land (blk_get b "T"%string) 15)) bl
  | KRRT => blk_set_hdr b (Some c_ReceiverReferenceTimeReportBlockType) (Some 0) bl
  | KDLRR => blk_set_hdr b (Some c_DLRRReportBlockType) (Some 0) bl
  | KSS =>
      let ts := 0 in
      let ts := if 0 <? blk_get b "LossReports"%string then N.lor ts 128 else ts in
      let ts := if 0 <? blk_get b "DuplicateReports"%string then N.lor ts 64 else ts in
      let ts := if 0 <? blk_get b "JitterReports"%string then N.lor ts 32 else ts in
      let ts := N.lor ts (u8 (N.land (blk_get b "TTLorHopLimit"%string) 3 * 8)) in
      blk_set_hdr b (Some c_StatisticsSummaryReportBlockType) (Some ts) bl
  | KVoIP => blk_set_hdr b (Some c_VoIPMetricsReportBlockType) (Some 0) bl
  | KUnknown => blk_set_hdr b None None bl
  end.

(* unpackBlockHeader of each block type *)
Definition unpack_block (b : XRBlock) : XRBlock :=
  let ts := blk_hdr_get b "TypeSpecific"%string in
  match xb_kind b with
  | KLossRLE | KDupRLE | KPRT => blk_set b "T"%string (VU (N.land ts 15))
  | KSS =>
      let b := blk_set b "LossReports"%string (VU (if N.land ts 128 =? 0 then 0 else 1)) in
      let b := blk_set b "DuplicateReports"%string (VU (if N.land ts 64 =? 0 then 0 else 1)) in
      let b := blk_set b "JitterReports"%string (VU (if N.land ts 32 =? 0 then 0 else 1)) in
      blk_set b "TTLorHopLimit"%string (VU (N.land ts 24 / 8))
  | _ => b
  end.

Definition XR_wire_size (x : XR) : N :=
  4 + fold_right (fun b acc => blk_wire_size b + acc) 0 (xr_blocks x).

(* func (x ExtendedReport) MarshalSize  (after the repair of F9) *)
Definition XR_size (x : XR) : N := c_headerLength + XR_wire_size x.

Fixpoint write_blocks (bs : list XRBlock) (room : N) : res (bytes * N) :=
  match bs with
  | [] => Ok ([], room)
  | b :: r =>
      let* (o1, r1) := write (layout_of (xb_kind b)) (xb_val b) room in
      let* (o2, r2) := write_blocks r r1 in
      Ok (o1 ++ o2, r2)
  end.

(* func (x ExtendedReport) Marshal: returns the bytes and the blocks with their headers filled in *)
Definition XR_marshal_full (x : XR) : res (bytes * XR) :=
  let blocks := map setup_block (xr_blocks x) in
  let x' := {| xr_sender := xr_sender x; xr_blocks := blocks |} in
  let length := XR_wire_size x' in
  let* hb := Header_marshal {| h_pad := false; h_count := 0; h_type := c_TypeExtendedReport; h_len := u16 (length / 4) |} in
  let total := length + len hb in
  (* buffer.write(headerBuffer); buffer.write(x) *)
  if total <? len hb then Err else
  if total - len hb <? 4 then Err else
  let* (body, room) := write_blocks blocks (total - len hb - 4) in
  Ok (hb ++ be 4 (xr_sender x) ++ body ++ zeros room, x').
Definition XR_marshal (x : XR) : res bytes := res_map fst (XR_marshal_full x).

Definition kind_of_block_type (bt : N) : XRKind :=
  if bt =? c_LossRLEReportBlockType then KLossRLE
  else if bt =? c_DuplicateRLEReportBlockType then KDupRLE
  else if bt =? c_PacketReceiptTimesReportBlockType then KPRT
  else if bt =? c_ReceiverReferenceTimeReportBlockType then KRRT
  else if bt =? c_DLRRReportBlockType then KDLRR
  else if bt =? c_StatisticsSummaryReportBlockType then KSS
  else if bt =? c_VoIPMetricsReportBlockType then KVoIP
  else KUnknown.

Fixpoint xr_blocks_loop (fuel : nat) (buf : bytes) : res (list XRBlock) :=
  match fuel with
  | O => Fuel
  | S f =>
      match buf with
      | [] => Ok []
      | _ =>
          let* (hv, _) := read ly_XRHeader buf in
          let bt := val_N (get_field ly_XRHeader hv "BlockType"%string) in
          let bl := val_N (get_field ly_XRHeader hv "BlockLength"%string) in
          let kind := kind_of_block_type bt in
          let blockLength := (bl + 1) * 4 in
          let size := if len buf <? blockLength then len buf else blockLength in
          let window := firstn (N.to_nat size) buf in
          let rest := skipn (N.to_nat size) buf in
          let* (v, _) := read (layout_of kind) window in
          let blk := unpack_block {| xb_kind := kind; xb_val := v |} in
          let* r := xr_blocks_loop f rest in
          Ok (blk :: r)
      end
  end.

(* func (x *ExtendedReport) Unmarshal *)
Definition XR_unmarshal (b : bytes) : res XR :=
  let* h := Header_unmarshal b in
  if negb (h_type h =? c_TypeExtendedReport) then Err else
  let* body := slice_from b c_headerLength in
  let* (sv, rest) := read TU32 body in
  let sender := match sv with VU n => n | _ => 0 end in
  let* blocks := xr_blocks_loop (S (List.length b)) rest in
  Ok {| xr_sender := sender; xr_blocks := blocks |}.

Definition block_dest (b : XRBlock) : list N :=
  match xb_kind b with
  | KLossRLE | KDupRLE | KPRT | KSS | KVoIP => [blk_get b "SSRC"%string]
  | KRRT | KUnknown => []
  | KDLRR =>
      match get_field ly_DLRRReportBlock (xb_val b) "Reports"%string with
      | Some (VSlice rs) => map (fun r => val_N (get_field ly_DLRRReport r "SSRC"%string)) rs
      | _ => []
      end
  end.
Definition XR_dest (x : XR) : list N := xr_sender x :: flat_map block_dest (xr_blocks x).
