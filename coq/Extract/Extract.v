(* Extraction of the executable model for the correspondence harness.
   ExtrOcamlBasic only: bool, option, unit, list, prod, sumbool, sumor are mapped to OCaml's;
   positive, N, Z, nat, byte, ascii, string stay Coq inductives.  No Extract Constant of our own. *)
From Coq Require Extraction ExtrOcamlBasic.
From RTCP Require Import Lib.Base Lib.Sval Check.Ops Check.Verdict Extract.Glue.
Extraction Language OCaml.
Extraction "model.ml" run_case check_case decimal_to_N mk_SN mk_SZ mk_SB mk_SY mk_SL view n_zero n_succ small_to_nat.
