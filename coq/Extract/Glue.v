(* Helpers for the OCaml driver, so that it only handles machine ints below 256, lists and [sval]. *)
From Coq Require Import List NArith ZArith Bool String Ascii.
From Coq.Strings Require Import Byte.
From RTCP Require Import Lib.Base Lib.Sval.
Import ListNotations.
Local Open Scope N_scope.

Fixpoint decimal_aux (acc : N) (ds : list N) : N :=
  match ds with [] => acc | d :: r => decimal_aux (acc * 10 + d) r end.
Definition decimal_to_N (ds : list N) : N := decimal_aux 0 ds.

(* decimal digits, most significant first; fuel = bit size bound *)
Fixpoint digits_aux (fuel : nat) (n : N) (acc : list N) : list N :=
  match fuel with
  | O => acc
  | S f => if n <? 10 then n :: acc else digits_aux f (n / 10) (n mod 10 :: acc)
  end.
Definition digits_of_N (n : N) : list N := digits_aux (S (N.to_nat (N.size n))) n [].

Definition string_of_codes (l : list N) : string :=
  fold_right (fun c s => String (ascii_of_N c) s) EmptyString l.
Fixpoint codes_of_string (s : string) : list N :=
  match s with EmptyString => [] | String a r => N_of_ascii a :: codes_of_string r end.

Definition mk_SN (n : N) : sval := SN n.
Definition mk_SZ (neg : bool) (n : N) : sval := SZ (if neg then Z.opp (Z.of_N n) else Z.of_N n).
Definition mk_SB (l : list N) : sval := SB (map n2b l).
Definition mk_SY (l : list N) : sval := SY (string_of_codes l).
Definition mk_SL (l : list sval) : sval := SL l.

(* destructor used by the printer: kind 0..4 *)
Inductive sview :=
| VN (ds : list N) | VZ (neg : bool) (ds : list N) | VB (l : list N) | VY (l : list N) | VL (l : list sval).
Definition view (v : sval) : sview :=
  match v with
  | SN n => VN (digits_of_N n)
  | SZ z => VZ (Z.ltb z 0) (digits_of_N (Z.abs_N z))
  | SB b => VB (map b2n b)
  | SY s => VY (codes_of_string s)
  | SL l => VL l
  end.

(* small machine ints <-> N without relying on the names extraction gives to stdlib functions *)
Definition n_zero : N := 0.
Definition n_succ (n : N) : N := n + 1.
Fixpoint nat_of_small (fuel : nat) (n : N) : nat :=
  match fuel with O => O | S f => if n =? 0 then O else S (nat_of_small f (n - 1)) end.
Definition small_to_nat (n : N) : nat := nat_of_small 300 n.
