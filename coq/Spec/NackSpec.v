(* Reference semantics of the NACK helpers (RFC 4585 6.2.1): PID plus the 16-bit BLP bitmap. *)
From Coq Require Import List NArith Bool.
From RTCP Require Import Lib.Base Model.Feedback.
Import ListNotations.
Local Open Scope N_scope.

Definition idx16 : list N := [0;1;2;3;4;5;6;7;8;9;10;11;12;13;14;15].

(* the ID, then ID+i+1 mod 2^16 for each set bit i, ascending *)
Definition packet_list_spec (p : NackPair) : list N :=
  np_id p :: map (fun i => (np_id p + i + 1) mod 65536) (filter (fun i => N.testbit (np_bm p) i) idx16).

(* set equality of two lists of sequence numbers, decided without sorting *)
Definition subset (a b : list N) : bool := forallb (fun x => existsb (N.eqb x) b) a.
Definition same_set (a b : list N) : bool := subset a b && subset b a.
Definition covered (ps : list NackPair) : list N := flat_map packet_list_spec ps.
