(* RFC reference: well-formed domains D_T, reference encoders enc_T written from the RFC packet
   diagrams as plain concatenations (independently of the code-shaped model), the documented
   quantisations q_T, the documented DestinationSSRC lists, the PT/FMT registry and the RFC 3550
   compound grammar.  Literal numbers here are the RFC values, NOT the generated constants. *)
From Coq Require Import List NArith ZArith Bool String.
From Coq.Strings Require Import Byte.
From RTCP Require Import Lib.Base Lib.Reflect Gen.Layouts
  Model.Header Model.Reports Model.Sdes Model.ByeApp Model.Feedback Model.Twcc Model.Ccfb Model.Remb Model.Xr Model.Packet.
Import ListNotations.
Local Open Scope N_scope.

Definition fits (w x : N) : bool := x <? 2 ^ w.
Definition nl {A} (l : list A) : N := N.of_nat (List.length l).

(* RFC 3550 6.4.1: V=2, P, RC/FMT (5 bits), PT, length in 32-bit words minus one *)
Definition hdr (p : bool) (c t l : N) : bytes := [n2b (128 + (if p then 32 else 0) + c); n2b t] ++ be 2 l.
Definition frame (p : bool) (c t : N) (body : bytes) : bytes := hdr p c t ((4 + len body) / 4 - 1) ++ body.
Definition pad4 (b : bytes) : bytes := b ++ zeros (get_padding (len b)).
Definition fits16 (total : N) : bool := (total mod 4 =? 0) && (total / 4 - 1 <? 65536) && (4 <=? total).

(* ---- report block, SR, RR (RFC 3550 6.4) ---- *)
Definition D_rrep (r : RRep) : bool :=
  fits 32 (rr_ssrc r) && fits 8 (rr_frac r) && fits 24 (rr_lost r) && fits 32 (rr_seq r) && fits 32 (rr_jit r)
  && fits 32 (rr_lsr r) && fits 32 (rr_delay r).
Definition enc_rrep (r : RRep) : bytes :=
  be 4 (rr_ssrc r) ++ be 1 (rr_frac r) ++ be 3 (rr_lost r) ++ be 4 (rr_seq r) ++ be 4 (rr_jit r) ++ be 4 (rr_lsr r) ++ be 4 (rr_delay r).

Definition D_SR (s : SR) : bool :=
  fits 32 (sr_ssrc s) && fits 64 (sr_ntp s) && fits 32 (sr_rtp s) && fits 32 (sr_pcount s) && fits 32 (sr_ocount s)
  && (nl (sr_reports s) <=? 31) && forallb D_rrep (sr_reports s) && (len (sr_ext s) mod 4 =? 0).
Definition enc_SR (s : SR) : bytes :=
  frame false (nl (sr_reports s)) 200
    (be 4 (sr_ssrc s) ++ be 8 (sr_ntp s) ++ be 4 (sr_rtp s) ++ be 4 (sr_pcount s) ++ be 4 (sr_ocount s)
     ++ List.concat (map enc_rrep (sr_reports s)) ++ sr_ext s).

Definition D_RR (r : RR) : bool :=
  fits 32 (rcv_ssrc r) && (nl (rcv_reports r) <=? 31) && forallb D_rrep (rcv_reports r).
Definition enc_RR (r : RR) : bytes :=
  frame false (nl (rcv_reports r)) 201 (be 4 (rcv_ssrc r) ++ List.concat (map enc_rrep (rcv_reports r)) ++ pad4 (rcv_ext r)).
(* documented quantisation: profile extensions zero-padded to 32 bits *)
Definition q_RR (r : RR) : RR := {| rcv_ssrc := rcv_ssrc r; rcv_reports := rcv_reports r; rcv_ext := pad4 (rcv_ext r) |}.

(* ---- SDES (RFC 3550 6.5) ---- *)
Definition D_item (i : SItem) : bool := (0 <? it_type i) && fits 8 (it_type i) && (len (it_text i) <=? 255).
Definition enc_item (i : SItem) : bytes := [n2b (it_type i); n2b (len (it_text i))] ++ it_text i.
Definition D_chunk (c : SChunk) : bool := fits 32 (ch_src c) && forallb D_item (ch_items c).
(* items, then at least one null octet, padded with nulls to the next 32-bit boundary *)
Definition enc_chunk (c : SChunk) : bytes := pad4 (be 4 (ch_src c) ++ List.concat (map enc_item (ch_items c)) ++ [x00]).
Definition D_SDES (s : SDES) : bool := (nl (sd_chunks s) <=? 31) && forallb D_chunk (sd_chunks s).
Definition enc_SDES (s : SDES) : bytes := frame false (nl (sd_chunks s)) 202 (List.concat (map enc_chunk (sd_chunks s))).

(* ---- BYE (RFC 3550 6.6) ---- *)
Definition D_BYE (g : BYE) : bool := (nl (bye_sources g) <=? 31) && forallb (fits 32) (bye_sources g) && (len (bye_reason g) <=? 255).
Definition enc_BYE (g : BYE) : bytes :=
  frame false (nl (bye_sources g)) 203
    (pad4 (List.concat (map (be 4) (bye_sources g))
           ++ (match bye_reason g with [] => [] | r => n2b (len r) :: r end))).

(* ---- APP (RFC 3550 6.7) ---- *)
Definition D_APP (a : APP) : bool :=
  fits 5 (app_subtype a) && fits 32 (app_ssrc a) && (len (app_name a) =? 4) && (len (app_data a) <=? 65523).
(* data not a multiple of 4 is padded with the P bit set; the last padding octet holds the padding count;
   the value of the other padding octets is not specified (don't-care in comparisons: see app_mask) *)
Definition app_pad (a : APP) : N := get_padding (len (app_data a)).
Definition enc_APP (a : APP) : bytes :=
  frame (0 <? app_pad a) (app_subtype a) 204
    (be 4 (app_ssrc a) ++ app_name a ++ app_data a ++ repeat (n2b (app_pad a)) (N.to_nat (app_pad a))).

(* ---- RFC 4585 / 5104 / 6051 feedback ---- *)
Definition D_NACK (p : NACK) : bool :=
  fits 32 (nack_sender p) && fits 32 (nack_media p) && (1 <=? nl (nack_pairs p)) && (nl (nack_pairs p) <=? 253)
  && forallb (fun q => fits 16 (np_id q) && fits 16 (np_bm q)) (nack_pairs p).
Definition enc_NACK (p : NACK) : bytes :=
  frame false 1 205 (be 4 (nack_sender p) ++ be 4 (nack_media p) ++ List.concat (map (fun q => be 2 (np_id q) ++ be 2 (np_bm q)) (nack_pairs p))).
Definition D_PLI (p : PLI) : bool := fits 32 (pli_sender p) && fits 32 (pli_media p).
Definition enc_PLI (p : PLI) : bytes := frame false 1 206 (be 4 (pli_sender p) ++ be 4 (pli_media p)).
Definition D_RRR (p : RRR) : bool := fits 32 (rrr_sender p) && fits 32 (rrr_media p).
Definition enc_RRR (p : RRR) : bytes := frame false 5 205 (be 4 (rrr_sender p) ++ be 4 (rrr_media p)).
Definition D_SLI (p : SLI) : bool :=
  fits 32 (sli_sender p) && fits 32 (sli_media p) && (nl (sli_entries p) <=? 253)
  && forallb (fun e => fits 13 (sli_first e) && fits 13 (sli_number e) && fits 6 (sli_picture e)) (sli_entries p).
(* RFC 4585 6.3.2: PT = PSFB (206), FMT = 2; First (13) | Number (13) | PictureID (6) *)
Definition enc_SLI (p : SLI) : bytes :=
  frame false 2 206 (be 4 (sli_sender p) ++ be 4 (sli_media p)
                     ++ List.concat (map (fun e => be 4 (sli_first e * 2 ^ 19 + sli_number e * 2 ^ 6 + sli_picture e)) (sli_entries p))).
Definition D_FIR (p : FIR) : bool :=
  fits 32 (fir_sender p) && fits 32 (fir_media p) && (1 <=? nl (fir_entries p)) && (nl (fir_entries p) <=? 8000)
  && forallb (fun e => fits 32 (fir_ssrc e) && fits 8 (fir_seq e)) (fir_entries p).
Definition enc_FIR (p : FIR) : bytes :=
  frame false 4 206 (be 4 (fir_sender p) ++ be 4 (fir_media p)
                     ++ List.concat (map (fun e => be 4 (fir_ssrc e) ++ be 1 (fir_seq e) ++ be 3 0) (fir_entries p))).

(* ---- REMB (draft-alvestrand-rmcat-remb): exact arithmetic on the float32 value ---- *)
Local Open Scope Z_scope.
(* value of a finite non-negative float32 as (m, e) = m * 2^e; None for negative / NaN / Inf *)
Definition remb_value (bits : N) : option (Z * Z) :=
  match f32_of_bits (Z.of_N bits) with
  | Fin s m e => if s && (0 <? m) then None else Some (m, e)
  | _ => None
  end.
Definition remb_floor (bits : N) : option Z := option_map (fun '(m, e) => ifloor m e) (remb_value bits).
(* the largest representable value m*2^e (18-bit mantissa, minimal exponent) not exceeding x, saturating *)
Definition remb_ref (x : Z) : Z * Z :=
  if 0x3FFFF * 2 ^ 63 <=? x then (63, 0x3FFFF)
  else let e := Z.max 0 (Z.log2 x - 17) in (e, x / 2 ^ e).
Local Open Scope N_scope.
Definition D_REMB (p : REMB) : bool :=
  fits 32 (remb_sender p) && (nl (remb_ssrcs p) <=? 255) && forallb (fits 32) (remb_ssrcs p)
  && fits 32 (remb_bitrate p) && (match remb_value (remb_bitrate p) with Some _ => true | None => false end).
Definition enc_REMB (p : REMB) : bytes :=
  match remb_floor (remb_bitrate p) with
  | Some x =>
      let '(e, m) := remb_ref x in
      frame false 15 206 (be 4 (remb_sender p) ++ be 4 0 ++ [n2b 82; n2b 69; n2b 77; n2b 66]
                          ++ be 1 (nl (remb_ssrcs p)) ++ be 3 (Z.to_N e * 2 ^ 18 + Z.to_N m) ++ List.concat (map (be 4) (remb_ssrcs p)))
  | None => []
  end.
(* documented quantisation: bitrate rounded down to 18 significant bits.  The value decoded from
   (e, m) is m * 2^e exactly (as float32 bits, via the model's decoder arithmetic only for m > 0). *)

(* ---- CCFB (RFC 8888), under the reading pion's pinned vectors use: num_reports field = n - 1 (n >= 2), 0 for n = 0 ---- *)
Definition D_metric (m : CCMetric) : bool :=
  if mb_received m then fits 2 (mb_ecn m) && fits 13 (mb_offset m) else (mb_ecn m =? 0) && (mb_offset m =? 0).
Definition enc_metric (m : CCMetric) : bytes :=
  if mb_received m then be 2 (32768 + mb_ecn m * 8192 + mb_offset m) else be 2 0.
Definition D_ccblock (b : CCBlock) : bool :=
  let n := nl (cb_metrics b) in
  fits 32 (cb_ssrc b) && fits 16 (cb_begin b) && (n <=? 16384) && negb (n =? 1) && ((n =? 0) || (cb_begin b + n - 1 <=? 65535))
  && forallb D_metric (cb_metrics b).
Definition enc_ccblock (b : CCBlock) : bytes :=
  let n := nl (cb_metrics b) in
  pad4 (be 4 (cb_ssrc b) ++ be 2 (cb_begin b) ++ be 2 (if n =? 0 then 0 else n - 1) ++ List.concat (map enc_metric (cb_metrics b))).
Definition D_CCFB (p : CCFB) : bool := fits 32 (cc_sender p) && fits 32 (cc_timestamp p) && forallb D_ccblock (cc_blocks p).
Definition enc_CCFB (p : CCFB) : bytes :=
  frame false 11 205 (be 4 (cc_sender p) ++ List.concat (map enc_ccblock (cc_blocks p)) ++ be 4 (cc_timestamp p)).

(* ---- TWCC (draft-holmer-rmcat-transport-wide-cc-extensions-01) ---- *)
(* per-packet status symbols announced by a chunk *)
Definition chunk_syms (c : TChunk) : list N :=
  match c with RLC _ s r => repeat s (N.to_nat r) | SVC _ _ l => l end.
Definition chunk_ok (c : TChunk) : bool :=
  match c with
  | RLC t s r => (t =? 0) && fits 2 s && fits 13 r
  | SVC t ss l => (t =? 1) && (if ss =? 0 then (nl l =? 14) && forallb (fits 1) l
                               else (ss =? 1) && (nl l =? 7) && forallb (fits 2) l)
  end.
Definition chunk_word (c : TChunk) : N :=
  match c with
  | RLC _ s r => s * 8192 + r
  | SVC _ ss l =>
      if ss =? 0 then 32768 + fold_left (fun acc s => acc * 2 + s) l 0
      else 32768 + 16384 + fold_left (fun acc s => acc * 4 + s) l 0
  end.
(* statuses: run lengths clipped to the packet status count; a vector chunk contributes all its symbols
   to the delta list (pion's decoder, and C13's statement) *)
Fixpoint expand (cs : list TChunk) (remaining : N) : list N :=
  match cs with
  | [] => []
  | RLC _ s r :: rest => repeat s (N.to_nat (N.min remaining r)) ++ expand rest (remaining - N.min remaining r)
  | SVC _ _ l :: rest => l ++ expand rest (remaining - N.min remaining (nl l))
  end.
Definition is_recv (s : N) : bool := (s =? 1) || (s =? 2).
Fixpoint chunks_needed (cs : list TChunk) (remaining : N) : bool :=   (* the count is reached by the last chunk and not before *)
  match cs with
  | [] => remaining =? 0
  | c :: rest => (0 <? remaining) && chunks_needed rest (remaining - N.min remaining (nl (chunk_syms c)))
  end.
Local Open Scope Z_scope.
Definition delta_ok (d : RecvDelta) : bool :=
  (rd_delta d mod 250 =? 0) &&
  (if (rd_type d =? 1)%N then (0 <=? rd_delta d / 250) && (rd_delta d / 250 <=? 255)
   else (rd_type d =? 2)%N && (-32768 <=? rd_delta d / 250) && (rd_delta d / 250 <=? 32767)).
Definition enc_delta (d : RecvDelta) : bytes :=
  if (rd_type d =? 1)%N then be 1 (Z.to_N (rd_delta d / 250)) else be 2 (Z.to_N ((rd_delta d / 250) mod 65536)).
Local Open Scope N_scope.
Fixpoint list_eqb (a b : list N) : bool :=
  match a, b with [], [] => true | x :: a', y :: b' => (x =? y) && list_eqb a' b' | _, _ => false end.
Definition twcc_body (t : TWCC) : bytes :=
  be 4 (tw_sender t) ++ be 4 (tw_media t) ++ be 2 (tw_base t) ++ be 2 (tw_count t) ++ be 3 (tw_reftime t) ++ be 1 (tw_fb t)
  ++ List.concat (map (fun c => be 2 (chunk_word c)) (tw_chunks t)) ++ List.concat (map enc_delta (tw_deltas t)).
Definition twcc_padlen (t : TWCC) : N := get_padding (4 + len (twcc_body t)).
Definition D_TWCC (t : TWCC) : bool :=
  fits 32 (tw_sender t) && fits 32 (tw_media t) && fits 16 (tw_base t) && fits 16 (tw_count t) && fits 24 (tw_reftime t) && fits 8 (tw_fb t)
  && forallb chunk_ok (tw_chunks t) && chunks_needed (tw_chunks t) (tw_count t)
  && forallb delta_ok (tw_deltas t)
  && list_eqb (map rd_type (tw_deltas t)) (filter is_recv (expand (tw_chunks t) (tw_count t)))
  (* header consistent with the content: FMT 15, PT 205, length = size in words - 1, P only with padding octets *)
  && (h_count (tw_hdr t) =? 15) && (h_type (tw_hdr t) =? 205)
  && (h_len (tw_hdr t) =? (4 + len (twcc_body t) + twcc_padlen t) / 4 - 1)
  && (implb (h_pad (tw_hdr t)) (0 <? twcc_padlen t))
  && (4 + len (twcc_body t) + twcc_padlen t <=? 65532).
Definition enc_TWCC (t : TWCC) : bytes :=
  let pl := twcc_padlen t in
  let padding := if h_pad (tw_hdr t) then zeros (pl - 1) ++ [n2b pl] else zeros pl in
  hdr (h_pad (tw_hdr t)) 15 205 ((4 + len (twcc_body t) + pl) / 4 - 1) ++ twcc_body t ++ padding.

(* ---- registry of packet types (RFC 3550 / 4585 / 5104 / 6051 / 3611 / 8888, transport-cc, REMB) ---- *)
Definition registry (pt cnt : N) : tag :=
  if pt =? 200 then TSR else if pt =? 201 then TRR else if pt =? 202 then TSDES else if pt =? 203 then TBYE
  else if pt =? 204 then TAPP else if pt =? 207 then TXR
  else if pt =? 205 then (if cnt =? 1 then TNACK else if cnt =? 5 then TRRR else if cnt =? 11 then TCCFB else if cnt =? 15 then TTWCC else TRaw)
  else if pt =? 206 then (if cnt =? 1 then TPLI else if cnt =? 2 then TSLI else if cnt =? 4 then TFIR else if cnt =? 15 then TREMB else TRaw)
  else TRaw.

(* ---- Raw: a well-framed frame whose (PT, FMT) is unregistered ---- *)
Definition D_Raw (b : bytes) : bool :=
  match b with
  | b0 :: b1 :: b2 :: b3 :: _ =>
      (b2n b0 / 64 =? 2) && (len b =? 4 * (b2n b2 * 256 + b2n b3 + 1))
      && tag_eqb (registry (b2n b1) (b2n b0 mod 32)) TRaw
  | _ => false
  end.

(* ---- RFC 3550 6.1 compound packets ---- *)
Definition is_cname_sdes (p : packet) : bool := match p with PSDES s => sdes_has_cname s | _ => false end.
Fixpoint compound_rest_ok (l : list packet) : bool :=
  match l with
  | [] => false
  | PRR _ :: r => compound_rest_ok r
  | p :: _ => is_cname_sdes p
  end.
(* first packet SR or RR; the first later packet that is not an RR is an SDES containing a CNAME item *)
Definition compound_ok (c : list packet) : bool :=
  match c with
  | PSR _ :: r | PRR _ :: r => compound_rest_ok r
  | _ => false
  end.
Definition first_cname (c : list packet) : option bytes :=
  match c with
  | [] => None
  | _ :: r =>
      let fix go (l : list packet) : option bytes :=
        match l with
        | [] => None
        | PSDES s :: l' => match sdes_first_cname s with Some t => Some t | None => go l' end
        | _ :: l' => go l'
        end in go r
  end.
