(* Executable forms of the domains / reference encoders over the packet sum, the documented
   quantisations, the documented DestinationSSRC lists and the limits of C08. *)
From Coq Require Import List NArith ZArith Bool String.
From Coq.Strings Require Import Byte.
From RTCP Require Import Lib.Base Lib.Reflect
  Model.Header Model.Reports Model.Sdes Model.ByeApp Model.Feedback Model.Twcc Model.Ccfb Model.Remb Model.Xr Model.Packet
  Spec.Enc Spec.XrSpec.
Import ListNotations.
Local Open Scope N_scope.

Fixpoint in_D (p : packet) : bool :=
  match p with
  | PSR x => D_SR x | PRR x => D_RR x | PSDES x => D_SDES x | PBYE x => D_BYE x | PAPP x => D_APP x
  | PNACK x => D_NACK x | PRRR x => D_RRR x | PTWCC x => D_TWCC x | PCCFB x => D_CCFB x | PPLI x => D_PLI x
  | PSLI x => D_SLI x | PREMB x => D_REMB x | PFIR x => D_FIR x | PXR x => D_XR x | PRaw b => D_Raw b
  | PCompound l => compound_ok l && (fix all (l : list packet) : bool := match l with [] => true | q :: r => in_D q && all r end) l
  end.

Fixpoint enc_spec (p : packet) : bytes :=
  match p with
  | PSR x => enc_SR x | PRR x => enc_RR x | PSDES x => enc_SDES x | PBYE x => enc_BYE x | PAPP x => enc_APP x
  | PNACK x => enc_NACK x | PRRR x => enc_RRR x | PTWCC x => enc_TWCC x | PCCFB x => enc_CCFB x | PPLI x => enc_PLI x
  | PSLI x => enc_SLI x | PREMB x => enc_REMB x | PFIR x => enc_FIR x | PXR x => enc_XR x | PRaw b => b
  | PCompound l => (fix go (l : list packet) : bytes := match l with [] => [] | q :: r => enc_spec q ++ go r end) l
  end.

(* float32 bit pattern of m * 2^e for 0 < m < 2^24 (exact) *)
Local Open Scope Z_scope.
Definition f32_bits_exact (m e : Z) : Z :=
  if m =? 0 then 0 else
  let k := 23 - Z.log2 m in
  (e - k + 150) * 2 ^ 23 + (m * 2 ^ k - 2 ^ 23).
Local Open Scope N_scope.
(* documented quantisation of REMB: the bitrate rounded down to 18 significant bits *)
Definition q_REMB (p : REMB) : REMB :=
  match remb_floor (remb_bitrate p) with
  | Some x => let '(e, m) := remb_ref x in
              {| remb_sender := remb_sender p; remb_bitrate := Z.to_N (f32_bits_exact m e); remb_ssrcs := remb_ssrcs p |}
  | None => p
  end.
Fixpoint q (p : packet) : packet :=
  match p with
  | PRR x => PRR (q_RR x)
  | PREMB x => PREMB (q_REMB x)
  | PCompound l => PCompound (map q l)
  | _ => p
  end.

(* canonical form for comparisons: XR header bookkeeping recomputed from the content (known kinds) *)
Fixpoint canon (p : packet) : packet :=
  match p with
  | PXR x => PXR {| xr_sender := xr_sender x; xr_blocks := map setup_block (xr_blocks x) |}
  | PCompound l => PCompound (map canon l)
  | _ => p
  end.

(* documented DestinationSSRC *)
Fixpoint dest_spec (p : packet) : list N :=
  match p with
  | PSR x => map rr_ssrc (sr_reports x) ++ [sr_ssrc x]
  | PRR x => map rr_ssrc (rcv_reports x)
  | PSDES x => map ch_src (sd_chunks x)
  | PBYE x => bye_sources x
  | PAPP x => [app_ssrc x]
  | PNACK x => [nack_media x] | PPLI x => [pli_media x] | PRRR x => [rrr_media x] | PSLI x => [sli_media x] | PTWCC x => [tw_media x]
  | PFIR x => map fir_ssrc (fir_entries x)
  | PREMB x => remb_ssrcs x
  | PCCFB x => map cb_ssrc (cc_blocks x)
  | PXR x => xr_sender x :: flat_map (fun b => sblock_dest (abs_block b)) (xr_blocks x)
  | PRaw _ => []
  | PCompound l => match l with [] => [] | f :: _ => dest_spec f end
  end.

(* C08: the wire limits the statement enumerates *)
Local Open Scope Z_scope.
Definition delta_in_range (d : RecvDelta) : bool :=
  let v := Z.quot (rd_delta d) 250 in
  if (rd_type d =? 1)%N then (0 <=? v) && (v <=? 255)
  else if (rd_type d =? 2)%N then (-32768 <=? v) && (v <=? 32767) else false.
Local Open Scope N_scope.
Definition svc_len_ok (c : TChunk) : bool :=
  match c with RLC _ _ _ => true | SVC _ ss l => if ss =? 0 then nl l <=? 14 else if ss =? 1 then nl l <=? 7 else true end.
Fixpoint in_limits (p : packet) : bool :=
  match p with
  | PSR x => (nl (sr_reports x) <=? 31) && forallb (fun r => rr_lost r <? 16777216) (sr_reports x)
  | PRR x => (nl (rcv_reports x) <=? 31) && forallb (fun r => rr_lost r <? 16777216) (rcv_reports x)
  | PSDES x => (nl (sd_chunks x) <=? 31)
               && forallb (fun c => forallb (fun i => negb (it_type i =? 0) && (len (it_text i) <=? 255)) (ch_items c)) (sd_chunks x)
  | PBYE x => (nl (bye_sources x) <=? 31) && (len (bye_reason x) <=? 255)
  | PAPP x => (app_subtype x <=? 31) && (len (app_name x) =? 4) && (len (app_data x) <=? 65523)
  | PNACK x => nl (nack_pairs x) <=? 253
  | PSLI x => nl (sli_entries x) <=? 253
  | PREMB x => (nl (remb_ssrcs x) <=? 255)
               && (match f32_of_bits (Z.of_N (remb_bitrate x)) with Fin s m _ => negb (s && (0 <? m)%Z) | Inf s => negb s | NaN => true end)
  | PCCFB x => forallb (fun b => nl (cb_metrics b) <=? 16384) (cc_blocks x)
  | PTWCC x => (h_count (tw_hdr x) <=? 31) && forallb delta_in_range (tw_deltas x) && forallb svc_len_ok (tw_chunks x)
  | PCompound l => compound_ok l && (fix all (l : list packet) : bool := match l with [] => true | q :: r => in_limits q && all r end) l
  | _ => true
  end.

(* packet type / count the header of a marshalled packet must carry (C05); None = caller-supplied header *)
Definition expected_pt_count (p : packet) : option (N * N) :=
  match p with
  | PSR x => Some (200, nl (sr_reports x)) | PRR x => Some (201, nl (rcv_reports x)) | PSDES x => Some (202, nl (sd_chunks x))
  | PBYE x => Some (203, nl (bye_sources x)) | PAPP x => Some (204, app_subtype x)
  | PNACK _ => Some (205, 1) | PRRR _ => Some (205, 5) | PCCFB _ => Some (205, 11) | PTWCC _ => Some (205, 15)
  | PPLI _ => Some (206, 1) | PSLI _ => Some (206, 2) | PFIR _ => Some (206, 4) | PREMB _ => Some (206, 15)
  | PXR _ => Some (207, 0)
  | _ => None
  end.

(* TWCC header consistent with the content (hypothesis of C05 / C09) *)
Definition twcc_hdr_consistent (t : TWCC) : bool :=
  let exact := twcc_exact_len t in
  let padded := exact + get_padding exact in
  (exact <=? 65532) && (h_count (tw_hdr t) =? 15) && (h_type (tw_hdr t) =? 205)
  && (h_len (tw_hdr t) =? padded / 4 - 1) && implb (h_pad (tw_hdr t)) (0 <? get_padding exact).

(* split a datagram at its length fields, RFC 3550: None if a frame is incomplete, has the wrong version, or nothing is there *)
Fixpoint split_frames (fuel : nat) (b : bytes) : option (list bytes) :=
  match fuel with
  | O => None
  | S f =>
      match b with
      | [] => Some []
      | b0 :: b1 :: b2 :: b3 :: _ =>
          let n := N.to_nat (4 * (b2n b2 * 256 + b2n b3 + 1)) in
          if negb (b2n b0 / 64 =? 2) then None else
          if (List.length b <? n)%nat then None else
          match split_frames f (skipn n b) with Some r => Some (firstn n b :: r) | None => None end
      | _ => None
      end
  end.
Definition frame_tag (f : bytes) : tag :=
  match f with b0 :: b1 :: _ => registry (b2n b1) (b2n b0 mod 32) | _ => TRaw end.
