(* RFC 3611 reference: typed view of the report blocks, their layouts written out field by field
   (independently of the reflection walker and of the generated layouts), domains, encoder. *)
From Coq Require Import List NArith ZArith Bool String.
From Coq.Strings Require Import Byte.
From RTCP Require Import Lib.Base Lib.Reflect Gen.Layouts Model.Header Model.Xr Spec.Enc.
Import ListNotations.
Local Open Scope N_scope.

Inductive sblock :=
| SRLE (dup : bool) (t ssrc bs es : N) (chunks : list N)          (* 4.1 / 4.2 *)
| SPRT (t ssrc bs es : N) (times : list N)                        (* 4.3 *)
| SRRT (ntp : N)                                                  (* 4.4 *)
| SDLRR (reports : list (N * N * N))                              (* 4.5 *)
| SSS (l d j : bool) (toh : N) (fields : list N)                  (* 4.6: ssrc, begin, end, lost, dup, min/max/mean/dev jitter, min/max/mean/dev ttl *)
| SVoIP (fields : list N)                                         (* 4.7: 21 fields in wire order (the reserved octet excluded) *)
| SUnknown (bt ts : N) (content : bytes).

Definition fget (b : XRBlock) (n : string) : N := blk_get b n.
Definition fgets (b : XRBlock) (ns : list string) : list N := map (fget b) ns.
Local Open Scope string_scope.
Definition ss_names := ["SSRC"; "BeginSeq"; "EndSeq"; "LostPackets"; "DupPackets"; "MinJitter"; "MaxJitter"; "MeanJitter"; "DevJitter";
                        "MinTTLOrHL"; "MaxTTLOrHL"; "MeanTTLOrHL"; "DevTTLOrHL"].
Definition ss_widths : list nat := [4;2;2;4;4;4;4;4;4;1;1;1;1]%nat.
Definition voip_names := ["SSRC"; "LossRate"; "DiscardRate"; "BurstDensity"; "GapDensity"; "BurstDuration"; "GapDuration"; "RoundTripDelay";
                          "EndSystemDelay"; "SignalLevel"; "NoiseLevel"; "RERL"; "Gmin"; "RFactor"; "ExtRFactor"; "MOSLQ"; "MOSCQ"; "RXConfig";
                          "JBNominal"; "JBMaximum"; "JBAbsMax"].
Definition voip_widths : list nat := [4;1;1;1;1;2;2;2;2;1;1;1;1;1;1;1;1;1;2;2;2]%nat.

Definition slice_vals (v : option val) : list N :=
  match v with Some (VSlice l) => map (fun x => match x with VU n => n | _ => 0%N end) l | _ => [] end.

(* the typed view of a model block (header bookkeeping of known kinds is not part of it) *)
Definition abs_block (b : XRBlock) : sblock :=
  let ly := layout_of (xb_kind b) in
  match xb_kind b with
  | KLossRLE => SRLE false (fget b "T") (fget b "SSRC") (fget b "BeginSeq") (fget b "EndSeq") (slice_vals (get_field ly (xb_val b) "Chunks"))
  | KDupRLE => SRLE true (fget b "T") (fget b "SSRC") (fget b "BeginSeq") (fget b "EndSeq") (slice_vals (get_field ly (xb_val b) "Chunks"))
  | KPRT => SPRT (fget b "T") (fget b "SSRC") (fget b "BeginSeq") (fget b "EndSeq") (slice_vals (get_field ly (xb_val b) "ReceiptTime"))
  | KRRT => SRRT (fget b "NTPTimestamp")
  | KDLRR =>
      SDLRR (match get_field ly (xb_val b) "Reports" with
             | Some (VSlice rs) => map (fun r => (val_N (get_field ly_DLRRReport r "SSRC"), val_N (get_field ly_DLRRReport r "LastRR"),
                                                   val_N (get_field ly_DLRRReport r "DLRR"))) rs
             | _ => [] end)
  | KSS => SSS (0 <? fget b "LossReports")%N (0 <? fget b "DuplicateReports")%N (0 <? fget b "JitterReports")%N (fget b "TTLorHopLimit") (fgets b ss_names)
  | KVoIP => SVoIP (fgets b voip_names)
  | KUnknown => SUnknown (blk_hdr_get b "BlockType") (blk_hdr_get b "TypeSpecific")
                         (map n2b (slice_vals (get_field ly (xb_val b) "Bytes")))
  end.
Local Close Scope string_scope.

Fixpoint enc_fields (ws : list nat) (vs : list N) : bytes :=
  match ws, vs with w :: ws', v :: vs' => be w v ++ enc_fields ws' vs' | _, _ => [] end.
Fixpoint fields_fit (ws : list nat) (vs : list N) : bool :=
  match ws, vs with
  | w :: ws', v :: vs' => fits (8 * N.of_nat w) v && fields_fit ws' vs'
  | [], [] => true
  | _, _ => false
  end.

(* block header: BT, type-specific octet, block length = (4 + |body|)/4 - 1 *)
Definition xr_block (bt ts : N) (body : bytes) : bytes := [n2b bt; n2b ts] ++ be 2 ((4 + len body) / 4 - 1) ++ body.

Definition enc_sblock (b : sblock) : bytes :=
  match b with
  | SRLE dup t ssrc bs es cs => xr_block (if dup then 2 else 1) t (be 4 ssrc ++ be 2 bs ++ be 2 es ++ List.concat (map (be 2) cs))
  | SPRT t ssrc bs es ts => xr_block 3 t (be 4 ssrc ++ be 2 bs ++ be 2 es ++ List.concat (map (be 4) ts))
  | SRRT ntp => xr_block 4 0 (be 8 ntp)
  | SDLRR rs => xr_block 5 0 (List.concat (map (fun '(a, b, c) => be 4 a ++ be 4 b ++ be 4 c) rs))
  | SSS l d j toh fs => xr_block 6 ((if l then 128 else 0) + (if d then 64 else 0) + (if j then 32 else 0) + toh * 8) (enc_fields ss_widths fs)
  | SVoIP fs => xr_block 7 0 (enc_fields (firstn 18 voip_widths) (firstn 18 fs) ++ [x00] ++ enc_fields (skipn 18 voip_widths) (skipn 18 fs))
  | SUnknown bt ts c => xr_block bt ts c
  end.

Definition D_sblock (b : sblock) : bool :=
  match b with
  | SRLE _ t ssrc bs es cs => fits 4 t && fits 32 ssrc && fits 16 bs && fits 16 es && forallb (fits 16) cs && (nl cs mod 2 =? 0)
  | SPRT t ssrc bs es ts => fits 4 t && fits 32 ssrc && fits 16 bs && fits 16 es && forallb (fits 32) ts
  | SRRT ntp => fits 64 ntp
  | SDLRR rs => forallb (fun '(a, b, c) => fits 32 a && fits 32 b && fits 32 c) rs
  | SSS _ _ _ toh fs => fits 2 toh && fields_fit ss_widths fs
  | SVoIP fs => fields_fit voip_widths fs
  | SUnknown bt ts c => fits 8 bt && fits 8 ts && negb ((1 <=? bt) && (bt <=? 7)) && (len c mod 4 =? 0)
  end.

Definition D_XR (x : XR) : bool := fits 32 (xr_sender x) && forallb (fun b => D_sblock (abs_block b)) (xr_blocks x).
Definition enc_XR (x : XR) : bytes :=
  frame false 0 207 (be 4 (xr_sender x) ++ List.concat (map (fun b => enc_sblock (abs_block b)) (xr_blocks x))).

(* structural equality of typed blocks (what "equal packets" means for XR: header bookkeeping of known kinds excluded) *)
Definition lN_eqb := list_eqb.
Definition sblock_eqb (a b : sblock) : bool :=
  match a, b with
  | SRLE d1 t1 s1 b1 e1 c1, SRLE d2 t2 s2 b2 e2 c2 => Bool.eqb d1 d2 && (t1 =? t2) && (s1 =? s2) && (b1 =? b2) && (e1 =? e2) && lN_eqb c1 c2
  | SPRT t1 s1 b1 e1 c1, SPRT t2 s2 b2 e2 c2 => (t1 =? t2) && (s1 =? s2) && (b1 =? b2) && (e1 =? e2) && lN_eqb c1 c2
  | SRRT a, SRRT b => a =? b
  | SDLRR r1, SDLRR r2 => lN_eqb (flat_map (fun '(a, b, c) => [a; b; c]) r1) (flat_map (fun '(a, b, c) => [a; b; c]) r2) && (nl r1 =? nl r2)
  | SSS l1 d1 j1 t1 f1, SSS l2 d2 j2 t2 f2 => Bool.eqb l1 l2 && Bool.eqb d1 d2 && Bool.eqb j1 j2 && (t1 =? t2) && lN_eqb f1 f2
  | SVoIP f1, SVoIP f2 => lN_eqb f1 f2
  | SUnknown b1 t1 c1, SUnknown b2 t2 c2 => (b1 =? b2) && (t1 =? t2) && bytes_eqb c1 c2
  | _, _ => false
  end.
Fixpoint sblocks_eqb (a b : list sblock) : bool :=
  match a, b with [], [] => true | x :: a', y :: b' => sblock_eqb x y && sblocks_eqb a' b' | _, _ => false end.
Definition XR_eqb (x y : XR) : bool :=
  (xr_sender x =? xr_sender y) && sblocks_eqb (map abs_block (xr_blocks x)) (map abs_block (xr_blocks y)).

(* documented DestinationSSRC of a block *)
Definition sblock_dest (b : sblock) : list N :=
  match b with
  | SRLE _ _ ssrc _ _ _ | SPRT _ ssrc _ _ _ => [ssrc]
  | SRRT _ | SUnknown _ _ _ => []
  | SDLRR rs => map (fun '(a, _, _) => a) rs
  | SSS _ _ _ _ fs | SVoIP fs => firstn 1 fs
  end.

(* independent walker over the bytes of a marshalled XR body: (type, type-specific, content) per block *)
Fixpoint walk_blocks (fuel : nat) (b : bytes) : option (list (N * N * bytes)) :=
  match fuel with
  | O => None
  | S f =>
      match b with
      | [] => Some []
      | bt :: ts :: l1 :: l0 :: rest =>
          let n := N.to_nat (4 * (b2n l1 * 256 + b2n l0)) in
          if (List.length rest <? n)%nat then None else
          match walk_blocks f (skipn n rest) with
          | Some r => Some ((b2n bt, b2n ts, firstn n rest) :: r)
          | None => None
          end
      | _ => None
      end
  end.
