(* Generic model of packet_buffer.go: the reflection-driven wireSize / write / read,
   over type descriptors that srcgen generates from the Go struct declarations. *)
From Coq Require Import List NArith ZArith Bool String.
From Coq.Strings Require Import Byte.
From RTCP Require Import Lib.Base.
Import ListNotations.
Local Open Scope N_scope.

Inductive ty := TU8 | TU16 | TU32 | TU64 | TBool | TBad | TSlice (e : ty) | TStruct (fs : list field)
with field := Field (name : string) (t : ty) (omit exported : bool).

(* values, positional; omitted and unexported fields are present (they exist in the Go struct) *)
Inductive val := VU (n : N) | VSlice (vs : list val) | VStruct (vs : list val).

Definition scalar_size (t : ty) : option nat :=
  match t with TU8 => Some 1 | TU16 => Some 2 | TU32 => Some 4 | TU64 => Some 8 | _ => None end%nat.
(* reflect Type.Size(): scalars and bool (only these occur as unexported / default-case members) *)
Definition mem_size (t : ty) : N :=
  match t with TBool => 1 | _ => match scalar_size t with Some k => N.of_nat k | None => 0 end end.

(* packet_buffer.go: wireSize *)
Fixpoint wire_size (t : ty) (v : val) {struct v} : N :=
  match t, v with
  | TSlice e, VSlice vs => fold_right (fun x acc => wire_size e x + acc) 0 vs
  | TStruct fs, VStruct vs =>
      (fix go (vs : list val) (fs : list field) {struct vs} : N :=
         match vs, fs with
         | x :: vs', Field _ ft om ex :: fs' =>
             (if om then 0 else if ex then wire_size ft x else mem_size ft) + go vs' fs'
         | _, _ => 0
         end) vs fs
  | _, _ => mem_size t
  end.

(* packet_buffer.go: write.  Returns the bytes produced and the room left; Err = errWrongMarshalSize /
   errBadStructMemberType.  (The buffer is pre-sized by the caller; [room] is len(b.bytes).) *)
Fixpoint write (t : ty) (v : val) (room : N) {struct v} : res (bytes * N) :=
  match t, v with
  | TSlice e, VSlice vs =>
      (fix go (vs : list val) (room : N) {struct vs} : res (bytes * N) :=
         match vs with
         | [] => Ok ([], room)
         | x :: vs' =>
             let* (o1, r1) := write e x room in
             let* (o2, r2) := go vs' r1 in
             Ok (o1 ++ o2, r2)
         end) vs room
  | TStruct fs, VStruct vs =>
      (fix go (vs : list val) (fs : list field) (room : N) {struct vs} : res (bytes * N) :=
         match vs, fs with
         | x :: vs', Field _ ft om ex :: fs' =>
             if om then go vs' fs' room else
             if ex then
               let* (o1, r1) := write ft x room in
               let* (o2, r2) := go vs' fs' r1 in
               Ok (o1 ++ o2, r2)
             else
               let k := mem_size ft in
               if room <? k then Err else
               let* (o2, r2) := go vs' fs' (room - k) in
               Ok (zeros k ++ o2, r2)
         | _, _ => Ok ([], room)
         end) vs fs room
  | _, VU n =>
      match scalar_size t with
      | Some k => if room <? N.of_nat k then Err else Ok (be k n, room - N.of_nat k)
      | None => Err
      end
  | _, _ => Err
  end.

(* zero value of a type (what new(T) holds) *)
Fixpoint zero_of (t : ty) : val :=
  match t with
  | TSlice _ => VSlice []
  | TStruct fs => VStruct ((fix go (fs : list field) : list val :=
                              match fs with [] => [] | Field _ ft _ _ :: fs' => zero_of ft :: go fs' end) fs)
  | _ => VU 0
  end.

(* packet_buffer.go: read, into a fresh zero value.  Returns the value and the unread rest. *)
(* fewer than k octets left?  (= len b <? k, lemma short_len; walks at most k cells instead of measuring all of b) *)
Fixpoint short (k : nat) (b : bytes) : bool :=
  match k, b with
  | O, _ => false
  | S _, [] => true
  | S k', _ :: b' => short k' b'
  end.

Lemma short_len k b : short k b = (len b <? N.of_nat k).
Proof.
  unfold len. revert b. induction k as [|k IH]; intros [|x b]; cbn [short List.length].
  - reflexivity.
  - symmetry. apply N.ltb_ge. apply N.le_0_l.
  - symmetry. apply N.ltb_lt. rewrite Nat2N.inj_succ. apply N.lt_0_succ.
  - rewrite IH, !Nat2N.inj_succ.
    destruct (N.ltb_spec (N.of_nat (List.length b)) (N.of_nat k)) as [H|H];
      destruct (N.ltb_spec (N.succ (N.of_nat (List.length b))) (N.succ (N.of_nat k))) as [H'|H']; try reflexivity.
    + apply N.succ_le_mono in H'. exfalso. apply (N.lt_irrefl (N.of_nat k)). eapply N.le_lt_trans; eauto.
    + apply N.succ_lt_mono in H'. exfalso. apply (N.lt_irrefl (N.of_nat k)). eapply N.le_lt_trans; eauto.
Qed.

Fixpoint read (t : ty) (b : bytes) {struct t} : res (val * bytes) :=
  match t with
  | TSlice e =>
      (fix loop (fuel : nat) (b : bytes) {struct fuel} : res (val * bytes) :=
         match fuel with
         | O => Fuel
         | S f =>
             match b with
             | [] => Ok (VSlice [], [])
             | _ =>
                 let* (x, rest) := read e b in
                 let* (xs, rest') := loop f rest in
                 match xs with
                 | VSlice l => Ok (VSlice (x :: l), rest')
                 | _ => Err
                 end
             end
         end) (S (List.length b)) b
  | TStruct fs =>
      let* (vs, rest) :=
        (fix go (fs : list field) (b : bytes) {struct fs} : res (list val * bytes) :=
           match fs with
           | [] => Ok ([], b)
           | Field _ ft om ex :: fs' =>
               if om then
                 let* (vs, rest) := go fs' b in Ok (zero_of ft :: vs, rest)
               else if ex then
                 let* (x, rest) := read ft b in
                 let* (vs, rest') := go fs' rest in
                 Ok (x :: vs, rest')
               else
                 let k := mem_size ft in
                 if len b <? k then Err else
                 let* (vs, rest) := go fs' (skipn (N.to_nat k) b) in
                 Ok (zero_of ft :: vs, rest)
           end) fs b in
      Ok (VStruct vs, rest)
  | _ =>
      match scalar_size t with
      | Some k => if short k b then Err else Ok (VU (unbe (firstn k b)), skipn k b)
      | None => Err
      end
  end.

(* named field access on struct values *)
Fixpoint field_index (name : string) (fs : list field) : option nat :=
  match fs with
  | [] => None
  | Field n _ _ _ :: fs' => if String.eqb n name then Some O else option_map S (field_index name fs')
  end.
Definition get_field (t : ty) (v : val) (name : string) : option val :=
  match t, v with
  | TStruct fs, VStruct vs => match field_index name fs with Some i => nth_error vs i | None => None end
  | _, _ => None
  end.
Fixpoint set_nth {A} (i : nat) (x : A) (l : list A) : list A :=
  match i, l with
  | O, _ :: r => x :: r
  | S i', y :: r => y :: set_nth i' x r
  | _, [] => []
  end.
Definition set_field (t : ty) (v : val) (name : string) (x : val) : val :=
  match t, v with
  | TStruct fs, VStruct vs => match field_index name fs with Some i => VStruct (set_nth i x vs) | None => v end
  | _, _ => v
  end.
Definition field_ty (t : ty) (name : string) : ty :=
  match t with
  | TStruct fs =>
      (fix go (fs : list field) : ty :=
         match fs with [] => TBad | Field n ft _ _ :: fs' => if String.eqb n name then ft else go fs' end) fs
  | _ => TBad
  end.
Definition val_N (v : option val) : N := match v with Some (VU n) => n | _ => 0 end.
