(* float32 in the translated fragment (srcgen/trans.go): a value of type float32 is carried as its IEEE-754 binary32 bit
   pattern, an integer 0 <= b < 2^32.  math.Float32frombits / math.Float32bits are the identity; the operations below are
   the only float operations of the fragment (they are the ones receiver_estimated_maximum_bitrate.go uses):
     x < y, x <= y (and the mirrored forms)      gf32_ltb, gf32_leb      IEEE: false when either side is a NaN, -0 = +0
     x / c  with c a constant 2^k, k >= 0        gf32_scale x (-k)       IEEE round-to-nearest-even (exact unless subnormal)
     uint(math.Floor(float64(x)))                gf32_floor_uint         float32 -> float64 and Floor are exact; the final
                                                                          conversion is the one of Go on amd64 (see below)
   These definitions are part of the trusted reading of Go, like the integer primitives of GoSem.v. *)
From Coq Require Import ZArith Bool.
Local Open Scope Z_scope.

Definition f32_neg (b : Z) : bool := 2^31 <=? b.
Definition f32_E (b : Z) : Z := (b / 2^23) mod 256.
Definition f32_frac (b : Z) : Z := b mod 2^23.
Definition f32_nan (b : Z) : bool := (f32_E b =? 255) && negb (f32_frac b =? 0).
(* sign-magnitude to an integer with the same order (both zeros map to 0; infinities are the extremes) *)
Definition f32_key (b : Z) : Z := if f32_neg b then - (b mod 2^31) else b mod 2^31.
Definition gf32_ltb (a b : Z) : bool := negb (f32_nan a) && negb (f32_nan b) && (f32_key a <? f32_key b).
Definition gf32_leb (a b : Z) : bool := negb (f32_nan a) && negb (f32_nan b) && (f32_key a <=? f32_key b).

(* m / 2^sh rounded to the nearest integer, ties to even (sh >= 1) *)
Definition rne (m sh : Z) : Z :=
  let q := m / 2^sh in let r := m mod 2^sh in let half := 2^(sh - 1) in
  if r <? half then q else if half <? r then q + 1 else if Z.even q then q else q + 1.

(* b * 2^k for k <= 0.  Infinities, NaNs and zeros are unchanged; a result that stays normal only has its exponent field
   lowered; otherwise the significand is shifted right with round-to-nearest-even into the subnormal encoding (a carry
   into 2^23 is the smallest normal number, as in IEEE-754). *)
Definition gf32_scale (b k : Z) : Z :=
  let E := f32_E b in let frac := f32_frac b in
  if k =? 0 then b
  else if E =? 255 then b
  else if (E =? 0) && (frac =? 0) then b
  else if (0 <? E) && (0 <? E + k) then b + k * 2^23
  else let m := if E =? 0 then frac else 2^23 + frac in
       let sh := if E =? 0 then - k else 1 - (E + k) in
       (if f32_neg b then 2^31 else 0) + rne m sh.

(* uint(math.Floor(float64(x))).  The Go specification leaves the conversion of a value that does not fit the target type
   implementation-dependent; this is what the gc compiler does on amd64 (uint64(f) is int64(f) for f < 2^63 and
   int64(f - 2^63) xor 2^63 otherwise, with CVTTSD2SQ yielding 2^63 for NaN and out-of-range operands):
     NaN, +Inf, values >= 2^64 -> 0;   -Inf, values < -2^63 -> 2^63;   other negative values -> 2^64 - ceil|x|.
   In MarshalTo the operand is a NaN or lies in [0, 2^18) (or is -0) when this is reached. *)
Definition gf32_floor_uint (b : Z) : Z :=
  let E := f32_E b in let frac := f32_frac b in
  if E =? 255 then (if (frac =? 0) && f32_neg b then 2^63 else 0)
  else let m := if E =? 0 then frac else 2^23 + frac in
       let e := if E =? 0 then -149 else E - 150 in
       if f32_neg b then
         let c := if 0 <=? e then m * 2^e else (m + 2^(- e) - 1) / 2^(- e) in
         if c =? 0 then 0 else if c <=? 2^63 then 2^64 - c else 2^63
       else
         let fl := if 0 <=? e then m * 2^e else m / 2^(- e) in
         if fl <? 2^64 then fl else 0.
