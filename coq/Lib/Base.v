From Coq Require Import List NArith ZArith Lia Bool.
From Coq.Strings Require Import Byte.
From Coq Require Import ZifyN ZifyBool ZifyNat.
Import ListNotations.
Ltac Zify.zify_post_hook ::= Z.div_mod_to_equations.
Local Open Scope N_scope.

Definition bytes := list byte.
(* Outcome of a modelled Go call: a value, a returned error (identity not modelled),
   a run-time panic (index / slice bounds, make with negative size), or fuel exhaustion
   (a loop that did not terminate within the fuel the model gave it). *)
Inductive res (A : Type) := Ok (a : A) | Err | Panic | Fuel.
Arguments Ok {A} a. Arguments Err {A}. Arguments Panic {A}. Arguments Fuel {A}.
Definition bind {A B} (r : res A) (f : A -> res B) : res B :=
  match r with Ok a => f a | Err => Err | Panic => Panic | Fuel => Fuel end.
Notation "'let*' x ':=' r 'in' k" := (bind r (fun x => k)) (at level 200, x pattern, r at level 100, k at level 200).

Definition b2n (b : byte) : N := Byte.to_N b.
Definition n2b (n : N) : byte := match Byte.of_N (n mod 256) with Some b => b | None => x00 end.
Lemma b2n_lt b : b2n b < 256.
Proof. unfold b2n. pose proof (Byte.to_N_bounded b). lia. Qed.
Lemma b2n_n2b n : b2n (n2b n) = n mod 256.
Proof.
  unfold b2n, n2b. destruct (Byte.of_N (n mod 256)) eqn:E.
  - apply Byte.to_of_N in E. exact E.
  - apply Byte.of_N_None_iff in E. pose proof (N.mod_lt n 256). lia.
Qed.
Lemma n2b_b2n b : n2b (b2n b) = b.
Proof.
  unfold n2b, b2n. rewrite N.mod_small by (pose proof (Byte.to_N_bounded b); lia).
  rewrite Byte.of_to_N. reflexivity.
Qed.

Lemma n2b_mod a b : a mod 256 = b mod 256 -> n2b a = n2b b.
Proof. unfold n2b. intros ->. reflexivity. Qed.

(* big-endian: least significant byte last; only /256 and mod 256, so lia-friendly *)
Fixpoint be (k : nat) (x : N) : bytes :=
  match k with O => [] | S k' => be k' (x / 256) ++ [n2b x] end.
Definition unbe (b : bytes) : N := fold_left (fun acc x => acc * 256 + b2n x) b 0.
Lemma be_length k x : length (be k x) = k.
Proof. revert x; induction k; intros; cbn [be]; [reflexivity|]. rewrite app_length, IHk. cbn. lia. Qed.
Lemma unbe_snoc b x : unbe (b ++ [x]) = unbe b * 256 + b2n x.
Proof. unfold unbe. rewrite fold_left_app. reflexivity. Qed.
Lemma unbe_be k : forall x, x < 256 ^ N.of_nat k -> unbe (be k x) = x.
Proof.
  induction k as [|k IH]; intros x Hx; cbn [be].
  - cbn in Hx. cbn. lia.
  - rewrite unbe_snoc, b2n_n2b. rewrite IH.
    + pose proof (N.div_mod x 256). lia.
    + rewrite Nat2N.inj_succ, N.pow_succ_r' in Hx. apply N.div_lt_upper_bound; lia.
Qed.
Lemma unbe_lt b : unbe b < 256 ^ N.of_nat (length b).
Proof.
  induction b as [|x r IH] using rev_ind; [cbn; lia|].
  rewrite unbe_snoc, app_length. cbn [length]. rewrite Nat.add_1_r, Nat2N.inj_succ, N.pow_succ_r'.
  pose proof (b2n_lt x). lia.
Qed.
Lemma be_unbe b : be (length b) (unbe b) = b.
Proof.
  induction b as [|x r IH] using rev_ind; [reflexivity|].
  rewrite unbe_snoc, app_length. cbn [length]. rewrite Nat.add_1_r. cbn [be].
  pose proof (b2n_lt x).
  replace ((unbe r * 256 + b2n x) / 256) with (unbe r) by lia.
  rewrite IH. f_equal. f_equal.
  rewrite <- (n2b_b2n x) at 2. apply n2b_mod. lia.
Qed.

(* slices with Go semantics *)
Definition len (b : bytes) : N := N.of_nat (length b).
Definition slice_from (b : bytes) (i : N) : res bytes :=
  if len b <? i then Panic else Ok (skipn (N.to_nat i) b).
Definition slice (b : bytes) (i j : N) : res bytes :=
  if (len b <? j) || (j <? i) then Panic else Ok (firstn (N.to_nat (j - i)) (skipn (N.to_nat i) b)).
(* binary.BigEndian.UintK(b): panics if len b < k *)
Definition get_be (k : nat) (b : bytes) : res N :=
  if len b <? N.of_nat k then Panic else Ok (unbe (firstn k b)).
Definition zeros (n : N) : bytes := repeat x00 (N.to_nat n).
(* copy(dst[off:], src): panics if off > len dst; copies min *)
Definition copy_at (dst : bytes) (off : N) (src : bytes) : res bytes :=
  if len dst <? off then Panic else
  let o := N.to_nat off in
  let n := Nat.min (length src) (length dst - o) in
  Ok (firstn o dst ++ firstn n src ++ skipn (o + n) dst).
(* binary.BigEndian.PutUintK(dst[off:], x): panics if fewer than k bytes remain *)
Definition put_be_at (k : nat) (dst : bytes) (off : N) (x : N) : res bytes :=
  if len dst <? off + N.of_nat k then Panic else copy_at dst off (be k x).

Lemma skipn_repeat {A} (x : A) k n : skipn k (repeat x n) = repeat x (n - k).
Proof. revert k; induction n; intros [|k]; cbn; auto. Qed.
Lemma zeros_length n : length (zeros n) = N.to_nat n.
Proof. apply repeat_length. Qed.
Lemma zeros_add a b : zeros (a + b) = zeros a ++ zeros b.
Proof. unfold zeros. rewrite N2Nat.inj_add. apply repeat_app. Qed.

(* normal form: writing at the frontier of a zero tail *)
Lemma copy_at_frontier pre n src :
  N.of_nat (length src) <= n ->
  copy_at (pre ++ zeros n) (len pre) src = Ok (pre ++ src ++ zeros (n - N.of_nat (length src))).
Proof.
  intros H. unfold copy_at, len. rewrite app_length, zeros_length.
  destruct (N.ltb_spec (N.of_nat (length pre + N.to_nat n)) (N.of_nat (length pre))); [lia|].
  rewrite Nat2N.id. f_equal.
  rewrite firstn_app, firstn_all, Nat.sub_diag. cbn [firstn]. rewrite app_nil_r. f_equal.
  replace (length pre + N.to_nat n - length pre)%nat with (N.to_nat n) by lia.
  rewrite Nat.min_l by lia. rewrite firstn_all. f_equal.
  rewrite skipn_app. rewrite skipn_all2 by lia. cbn [app].
  replace (length pre + length src - length pre)%nat with (length src) by lia.
  unfold zeros. rewrite skipn_repeat. f_equal. lia.
Qed.
Lemma put_be_frontier k pre n x :
  N.of_nat k <= n ->
  put_be_at k (pre ++ zeros n) (len pre) x = Ok (pre ++ be k x ++ zeros (n - N.of_nat k)).
Proof.
  intros H. unfold put_be_at, len. rewrite app_length, zeros_length.
  destruct (N.ltb_spec (N.of_nat (length pre + N.to_nat n)) (N.of_nat (length pre) + N.of_nat k)); [lia|].
  fold (len pre). rewrite copy_at_frontier; rewrite be_length; auto.
Qed.
(* header overwrite at 0 *)
Lemma copy_at_head h rest : copy_at (zeros (len h) ++ rest) 0 h = Ok (h ++ rest).
Proof.
  unfold copy_at, len. destruct (N.ltb_spec (N.of_nat (length (zeros (N.of_nat (length h)) ++ rest))) 0); [lia|].
  cbn [N.to_nat firstn app]. rewrite app_length, zeros_length, Nat2N.id, Nat.sub_0_r.
  rewrite Nat.min_l by lia. rewrite firstn_all. f_equal. f_equal.
  cbn [Nat.add]. rewrite skipn_app, zeros_length, Nat2N.id, Nat.sub_diag. cbn [skipn].
  rewrite skipn_all2; [reflexivity| rewrite zeros_length, Nat2N.id; lia].
Qed.

Lemma copy_at_frontier' pre n src :
  N.of_nat (length src) <= n ->
  copy_at (pre ++ zeros n) (len pre) src = Ok ((pre ++ src) ++ zeros (n - N.of_nat (length src))).
Proof. intros. rewrite copy_at_frontier by auto. rewrite app_assoc. reflexivity. Qed.
Lemma put_be_frontier' k pre n x :
  N.of_nat k <= n ->
  put_be_at k (pre ++ zeros n) (len pre) x = Ok ((pre ++ be k x) ++ zeros (n - N.of_nat k)).
Proof. intros. rewrite put_be_frontier by auto. rewrite app_assoc. reflexivity. Qed.

Lemma lor_disjoint_add a b k : a mod 2^k = 0 -> b < 2^k -> N.lor a b = a + b.
Proof.
  intros Ha Hb. assert (L : N.land a b = 0); [| rewrite N.add_nocarry_lxor, N.lxor_lor by exact L; reflexivity].
  apply N.bits_inj_0. intro n. rewrite N.land_spec.
  destruct (N.lt_ge_cases n k) as [H|H].
  - assert (N.testbit a n = false).
    { rewrite <- (N.mod_pow2_bits_low a k n H). rewrite Ha. apply N.bits_0. }
    rewrite H0. reflexivity.
  - assert (N.testbit b n = false).
    { destruct (N.eq_dec b 0) as [->|Hne]; [apply N.bits_0|].
      apply N.bits_above_log2. apply N.log2_lt_pow2; [lia|].
      eapply N.lt_le_trans; [exact Hb|]. apply N.pow_le_mono_r; lia. }
    rewrite H0. apply andb_false_r.
Qed.
(* b | a with a a multiple of 2^k and b below it; k concrete so side goals are lia-able *)
Lemma lor_disjoint_add_r b a k : a mod 2^k = 0 -> b < 2^k -> N.lor b a = b + a.
Proof. intros. rewrite N.lor_comm, N.add_comm. apply lor_disjoint_add with k; auto. Qed.

(* read primitives mirroring Go: b[i] and binary.BigEndian.UintK(b[off:]) *)
Definition idx (b : bytes) (i : N) : res byte :=
  if len b <=? i then Panic else Ok (nth (N.to_nat i) b x00).
Definition get_be_at (k : nat) (b : bytes) (off : N) : res N :=
  if len b <? off + N.of_nat k then Panic else Ok (unbe (firstn k (skipn (N.to_nat off) b))).
Lemma idx_ok b i : i < len b -> idx b i = Ok (nth (N.to_nat i) b x00).
Proof. intros. unfold idx. destruct (N.leb_spec (len b) i); [lia|reflexivity]. Qed.
Lemma get_be_at_ok k b off : off + N.of_nat k <= len b -> get_be_at k b off = Ok (unbe (firstn k (skipn (N.to_nat off) b))).
Proof. intros. unfold get_be_at. destruct (N.ltb_spec (len b) (off + N.of_nat k)); [lia|reflexivity]. Qed.
Lemma len_app a b : len (a ++ b) = len a + len b.
Proof. unfold len. rewrite app_length. lia. Qed.
(* reading a field that sits right after a known prefix *)
Lemma get_be_at_app k pre x rest off : off = len pre -> x < 256 ^ N.of_nat k ->
  get_be_at k (pre ++ be k x ++ rest) off = Ok x.
Proof.
  intros -> Hx. rewrite get_be_at_ok by (unfold len; rewrite !app_length, be_length; lia).
  unfold len. rewrite Nat2N.id, skipn_app, skipn_all, Nat.sub_diag. cbn [app skipn].
  rewrite firstn_app, be_length, Nat.sub_diag, firstn_O, app_nil_r.
  rewrite <- (be_length k x) at 1. rewrite firstn_all. rewrite unbe_be by exact Hx. reflexivity.
Qed.
Lemma idx_app pre x rest i : i = len pre -> idx (pre ++ x :: rest) i = Ok x.
Proof.
  intros ->. rewrite idx_ok by (rewrite len_app; unfold len; cbn [length]; lia).
  unfold len. rewrite Nat2N.id, app_nth2, Nat.sub_diag by lia. reflexivity.
Qed.

Lemma idx_in_be k pre x rest i (j : nat) : i = len pre + N.of_nat j -> (j < k)%nat ->
  idx (pre ++ be k x ++ rest) i = Ok (nth j (be k x) x00).
Proof.
  intros -> Hj. rewrite idx_ok by (unfold len; rewrite !app_length, be_length; lia).
  unfold len. rewrite N2Nat.inj_add, !Nat2N.id, app_nth2 by lia.
  replace (length pre + j - length pre)%nat with j by lia.
  rewrite app_nth1 by (rewrite be_length; lia). reflexivity.
Qed.

Lemma copy_at_fr pre n src off : off = len pre -> N.of_nat (length src) <= n ->
  copy_at (pre ++ zeros n) off src = Ok ((pre ++ src) ++ zeros (n - N.of_nat (length src))).
Proof. intros ->. apply copy_at_frontier'. Qed.
Lemma put_be_fr k pre n x off : off = len pre -> N.of_nat k <= n ->
  put_be_at k (pre ++ zeros n) off x = Ok ((pre ++ be k x) ++ zeros (n - N.of_nat k)).
Proof. intros ->. apply put_be_frontier'. Qed.
Lemma len_zeros n : len (zeros n) = n.
Proof. unfold len. rewrite zeros_length. lia. Qed.
Lemma len_be k x : len (be k x) = N.of_nat k.
Proof. unfold len. rewrite be_length. reflexivity. Qed.
Ltac len_solve := rewrite ?len_app, ?len_be, ?len_zeros; unfold len; cbn [length N.of_nat Pos.of_succ_nat Pos.succ]; lia.
Ltac frontier :=
  repeat match goal with
  | |- context [put_be_at ?k (?pre ++ zeros ?n) ?off ?x] =>
      rewrite (put_be_fr k pre n x off) by len_solve; cbn [bind]
  | |- context [copy_at (?pre ++ zeros ?n) ?off ?src] =>
      rewrite (copy_at_fr pre n src off) by len_solve; cbn [bind]
  end.
Lemma copy_at_head' h n rest : len h = n -> copy_at (zeros n ++ rest) 0 h = Ok (h ++ rest).
Proof. intros <-. apply copy_at_head. Qed.
Lemma get_be_at_lt k b off x : get_be_at k b off = Ok x -> x < 256 ^ N.of_nat k.
Proof.
  unfold get_be_at. destruct (len b <? off + N.of_nat k); [discriminate|]. intros E. inversion E; subst. clear E.
  set (l := firstn k (skipn (N.to_nat off) b)).
  pose proof (unbe_lt l) as Hl. assert (length l <= k)%nat by (unfold l; rewrite firstn_length; lia).
  eapply N.lt_le_trans; [exact Hl|]. apply N.pow_le_mono_r; lia.
Qed.

(* ---- small additions used across the models ---- *)
Definition u8 (x : N) : N := x mod 256.
Definition u16 (x : N) : N := x mod 65536.
Definition u32 (x : N) : N := x mod 4294967296.
Definition u64 (x : N) : N := x mod 18446744073709551616.
Definition sub16 (a b : N) : N := (a + 65536 - b mod 65536) mod 65536.
Definition is_ok {A} (r : res A) : bool := match r with Ok _ => true | _ => false end.
Definition is_err {A} (r : res A) : bool := match r with Err => true | _ => false end.
Definition is_panic {A} (r : res A) : bool := match r with Panic => true | _ => false end.
Definition res_map {A B} (f : A -> B) (r : res A) : res B :=
  match r with Ok a => Ok (f a) | Err => Err | Panic => Panic | Fuel => Fuel end.
(* getPadding (util.go) *)
Definition get_padding (n : N) : N := if n mod 4 =? 0 then 0 else 4 - n mod 4.
Lemma get_padding_spec n : (n + get_padding n) mod 4 = 0 /\ get_padding n < 4.
Proof. unfold get_padding. destruct (N.eqb_spec (n mod 4) 0); lia. Qed.

Fixpoint mapM {A B} (f : A -> res B) (l : list A) : res (list B) :=
  match l with
  | [] => Ok []
  | x :: l' => let* y := f x in let* ys := mapM f l' in Ok (y :: ys)
  end.

Definition byte_eqb (a b : byte) : bool := N.eqb (b2n a) (b2n b).
Lemma byte_eqb_eq a b : byte_eqb a b = true <-> a = b.
Proof.
  unfold byte_eqb. rewrite N.eqb_eq. split; [|intros ->; reflexivity].
  intros H. rewrite <- (n2b_b2n a), <- (n2b_b2n b), H. reflexivity.
Qed.
Fixpoint bytes_eqb (a b : bytes) : bool :=
  match a, b with
  | [], [] => true
  | x :: a', y :: b' => byte_eqb x y && bytes_eqb a' b'
  | _, _ => false
  end.
Lemma bytes_eqb_eq a : forall b, bytes_eqb a b = true <-> a = b.
Proof.
  induction a as [|x a IH]; intros [|y b]; cbn [bytes_eqb]; try (split; [discriminate|discriminate]); [tauto|].
  rewrite andb_true_iff, byte_eqb_eq, IH. split; [intros [-> ->]; reflexivity | intros E; inversion E; auto].
Qed.

(* variable shifts on fixed-width unsigned values (x below 2^64): never build a huge power *)
Definition shr (x k : N) : N := if 64 <=? k then 0 else x / 2 ^ k.
Definition shl (w x k : N) : N := if w <=? k then 0 else (x * 2 ^ k) mod 2 ^ w.
