(* Semantics of the Go fragment the source translator (srcgen/trans.go) emits: fixed-width integer arithmetic on Z,
   byte slices as lists, the encoding/binary accessors, make/append.  Every integer of the source is a Z here:
   an unsigned w-bit value lives in [0, 2^w), a signed one in [-2^(w-1), 2^(w-1)); the translator inserts [uwrap]/[swrap]
   after every operation whose mathematical result may leave that interval, exactly where Go's static types make the
   machine wrap.  Go's [int] is treated as unbounded (64 bits in the build under test; no translated function comes
   near it).  Slices are bounded by len, not cap (as everywhere in this development): where Go would silently read or
   re-slice into spare capacity the model says Panic. *)
From Coq Require Import List ZArith Bool.
From Coq.Strings Require Import Byte.
From RTCP Require Import Lib.Base.
Import ListNotations.
Local Open Scope Z_scope.

Definition uwrap (w : Z) (x : Z) : Z := x mod 2 ^ w.
Definition swrap (w : Z) (x : Z) : Z := (x + 2 ^ (w - 1)) mod 2 ^ w - 2 ^ (w - 1).
(* x << s and x >> s; the count is an unsigned value (the translator rejects signed counts) *)
Definition gshl (x s : Z) : Z := Z.shiftl x s.
Definition gshr (x s : Z) : Z := Z.shiftr x s.
(* ^x on a w-bit unsigned value *)
Definition unot (w : Z) (x : Z) : Z := 2 ^ w - 1 - x.

Definition glen (b : bytes) : Z := Z.of_nat (length b).
Definition gidx (b : bytes) (i : Z) : res Z :=
  if (i <? 0) || (glen b <=? i) then Panic
  else match nth_error b (Z.to_nat i) with Some x => Ok (Z.of_N (b2n x)) | None => Panic end.
Fixpoint upd_nat (b : bytes) (i : nat) (v : byte) : bytes :=
  match b, i with
  | [], _ => []
  | _ :: r, O => v :: r
  | x :: r, S i' => x :: upd_nat r i' v
  end.
Definition byte_of_Z (v : Z) : byte := n2b (Z.to_N (v mod 256)).
Definition gupd (b : bytes) (i : Z) (v : Z) : res bytes :=
  if (i <? 0) || (glen b <=? i) then Panic else Ok (upd_nat b (Z.to_nat i) (byte_of_Z v)).
(* b[lo:hi], b[lo:], b[:hi] *)
Definition gslice (b : bytes) (lo hi : Z) : res bytes :=
  if (lo <? 0) || (hi <? lo) || (glen b <? hi) then Panic
  else Ok (firstn (Z.to_nat (hi - lo)) (skipn (Z.to_nat lo) b)).
Definition gslice_from (b : bytes) (lo : Z) : res bytes := gslice b lo (glen b).
Definition gslice_to (b : bytes) (hi : Z) : res bytes := gslice b 0 hi.
Definition gmake (n : Z) : res bytes := if n <? 0 then Panic else Ok (repeat x00 (Z.to_nat n)).
Definition gappend (a b : bytes) : bytes := a ++ b.

(* binary.BigEndian.UintK(b): panics unless len(b) >= K/8 *)
Definition gbe_get (k : nat) (b : bytes) : res Z :=
  if glen b <? Z.of_nat k then Panic else Ok (Z.of_N (unbe (firstn k b))).
(* binary.BigEndian.PutUintK(b[off:], v) on a buffer the function owns *)
Definition gbe_put (k : nat) (b : bytes) (off : Z) (v : Z) : res bytes :=
  if (off <? 0) || (glen b <? off + Z.of_nat k) then Panic
  else Ok (firstn (Z.to_nat off) b ++ be k (Z.to_N (v mod 2 ^ (8 * Z.of_nat k))) ++ skipn (Z.to_nat off + k) b).

Definition gdiv_u (x y : Z) : res Z := if y =? 0 then Panic else Ok (x / y).
Definition gmod_u (x y : Z) : res Z := if y =? 0 then Panic else Ok (x mod y).
Definition gdiv_s (x y : Z) : res Z := if y =? 0 then Panic else Ok (Z.quot x y).
Definition gmod_s (x y : Z) : res Z := if y =? 0 then Panic else Ok (Z.rem x y).

(* a view y := x[off:] of a buffer the function owns: reads and writes through y go to x *)
Definition gidx_v (b : bytes) (off i : Z) : res Z := if i <? 0 then Panic else gidx b (off + i).
Definition gupd_v (b : bytes) (off i v : Z) : res bytes := if i <? 0 then Panic else gupd b (off + i) v.

(* slices of other element types are lists; capacity is not observable in the translated fragment *)
Definition glenl {A} (l : list A) : Z := Z.of_nat (length l).
Definition gnth {A} (l : list A) (i : Z) : res A :=
  if (i <? 0) || (glenl l <=? i) then Panic
  else match nth_error l (Z.to_nat i) with Some x => Ok x | None => Panic end.
Definition gmakel {A} (zero : A) (n : Z) : res (list A) := if n <? 0 then Panic else Ok (repeat zero (Z.to_nat n)).
Fixpoint updl_nat {A} (l : list A) (i : nat) (v : A) : list A :=
  match l, i with
  | [], _ => []
  | _ :: r, O => v :: r
  | x :: r, S i' => x :: updl_nat r i' v
  end.
Definition gupdl {A} (l : list A) (i : Z) (v : A) : res (list A) :=
  if (i <? 0) || (glenl l <=? i) then Panic else Ok (updl_nat l (Z.to_nat i) v).
(* x[lo:] of a view (b, off): 0 <= lo <= len(b) - off *)
Definition gview (b : bytes) (off lo : Z) : res unit :=
  if (lo <? 0) || (glen b - off <? lo) then Panic else Ok tt.
(* copy(dst[off:], src) on a buffer the function owns: min(len(dst)-off, len(src)) octets *)
Definition gcopy (dst : bytes) (off : Z) (src : bytes) : res bytes :=
  if (off <? 0) || (glen dst <? off) then Panic
  else let n := Z.min (glen dst - off) (glen src) in
       Ok (firstn (Z.to_nat off) dst ++ firstn (Z.to_nat n) src ++ skipn (Z.to_nat (off + n)) dst).
(* x[lo:hi] of a view (b, off): 0 <= lo <= hi <= len(b) - off *)
Definition gview2 (b : bytes) (off lo hi : Z) : res unit :=
  if (lo <? 0) || (hi <? lo) || (glen b - off <? hi) then Panic else Ok tt.
Definition gcheck (c : bool) : res unit := if c then Ok tt else Panic.
(* copy(dst[off:off+lim], src) *)
Definition gcopy_lim (dst : bytes) (off lim : Z) (src : bytes) : res bytes :=
  if (off <? 0) || (lim <? 0) || (glen dst <? off + lim) then Panic
  else let n := Z.min lim (glen src) in
       Ok (firstn (Z.to_nat off) dst ++ firstn (Z.to_nat n) src ++ skipn (Z.to_nat (off + n)) dst).
(* copy(dst, src) on lists: the first min(len dst, len src) elements *)
Definition gcopyl {A} (dst src : list A) : list A :=
  firstn (length dst) src ++ skipn (length src) dst.
(* map[K]V of integers as an association list; a missing key reads as the zero value *)
Fixpoint gmapget (m : list (Z * Z)) (k : Z) : Z :=
  match m with
  | [] => 0
  | (k', v) :: r => if k' =? k then v else gmapget r k
  end.
(* l[lo:hi] on lists *)
Definition gslicel {A} (l : list A) (lo hi : Z) : res (list A) :=
  if (lo <? 0) || (hi <? lo) || (glenl l <? hi) then Panic
  else Ok (firstn (Z.to_nat (hi - lo)) (skipn (Z.to_nat lo) l)).
