(* S-expression values: the exchange format between the Go harness and the
   extracted model (DESIGN.md Appendix B).  The OCaml driver only tokenises
   text into [sval] and prints [sval]; every typed codec is Gallina. *)
From Coq Require Import List NArith ZArith Bool String.
From Coq.Strings Require Import Byte.
From RTCP Require Import Lib.Base.
Import ListNotations.
Local Open Scope N_scope.

Inductive sval :=
| SN (n : N)            (* 123 *)
| SZ (z : Z)            (* +5 / -5 : signed Go integers always carry a sign *)
| SB (b : bytes)        (* x0a1b.. *)
| SY (s : string)       (* symbol: ok err panic #t #f SR ... *)
| SL (l : list sval).   (* ( ... ) *)

Definition sym_is (v : sval) (s : string) : bool :=
  match v with SY t => String.eqb t s | _ => false end.

Definition sbool (b : bool) : sval := SY (if b then "#t" else "#f")%string.
Definition as_bool (v : sval) : option bool :=
  match v with
  | SY s => if String.eqb s "#t" then Some true else if String.eqb s "#f" then Some false else None
  | _ => None end.
Definition as_N (v : sval) : option N := match v with SN n => Some n | _ => None end.
Definition as_Z (v : sval) : option Z := match v with SZ z => Some z | SN n => Some (Z.of_N n) | _ => None end.
Definition as_B (v : sval) : option bytes := match v with SB b => Some b | _ => None end.
Definition as_L (v : sval) : option (list sval) := match v with SL l => Some l | _ => None end.

Definition obind {A B} (o : option A) (f : A -> option B) : option B :=
  match o with Some a => f a | None => None end.
Notation "'let?' x ':=' r 'in' k" := (obind r (fun x => k)) (at level 200, x pattern, r at level 100, k at level 200).

Fixpoint omap {A B} (f : A -> option B) (l : list A) : option (list B) :=
  match l with
  | [] => Some []
  | x :: l' => let? y := f x in let? ys := omap f l' in Some (y :: ys)
  end.

Definition as_Ns (v : sval) : option (list N) := let? l := as_L v in omap as_N l.
Definition sNs (l : list N) : sval := SL (map SN l).

(* result rendering: (ok v) | (err) | (panic) | (fuel) *)
Definition sres {A} (f : A -> sval) (r : res A) : sval :=
  match r with
  | Ok a => SL [SY "ok"%string; f a]
  | Err => SL [SY "err"%string]
  | Panic => SL [SY "panic"%string]
  | Fuel => SL [SY "fuel"%string]
  end.
Definition as_res {A} (f : sval -> option A) (v : sval) : option (res A) :=
  match v with
  | SL [t; x] => if sym_is t "ok" then let? a := f x in Some (Ok a) else None
  | SL [t] => if sym_is t "err" then Some Err else if sym_is t "panic" then Some Panic
              else if sym_is t "fuel" then Some Fuel else None
  | _ => None
  end.

(* structural equality *)
Fixpoint sval_eqb (a b : sval) {struct a} : bool :=
  match a, b with
  | SN x, SN y => N.eqb x y
  | SZ x, SZ y => Z.eqb x y
  | SB x, SB y => bytes_eqb x y
  | SY x, SY y => String.eqb x y
  | SL x, SL y =>
      (fix go (x y : list sval) {struct x} : bool :=
         match x, y with
         | [], [] => true
         | u :: x', v :: y' => sval_eqb u v && go x' y'
         | _, _ => false
         end) x y
  | _, _ => false
  end.
