(* Shared proof tactics *)
From Coq Require Export List NArith ZArith Lia Bool.
From Coq.Strings Require Export Byte.
From Coq Require Export ZifyN ZifyBool ZifyNat.
From RTCP Require Export Lib.Base Gen.Consts.
Export ListNotations.
Ltac Zify.zify_post_hook ::= Z.div_mod_to_equations.

(* unfold the generated constants (they are transparent definitions with a hint database) *)
Ltac consts := autounfold with consts in *.

(* case split on the next boolean guard of the goal, discharging impossible branches with lia *)
Ltac guard_lia :=
  match goal with
  | |- context [if ?x <? ?y then _ else _] => destruct (N.ltb_spec x y); try lia
  | |- context [if ?x <=? ?y then _ else _] => destruct (N.leb_spec x y); try lia
  | |- context [if ?x =? ?y then _ else _] => destruct (N.eqb_spec x y); try lia
  end.

(* reads that are dominated by a length fact in the context *)
Ltac reads_ok := repeat (first [rewrite get_be_at_ok by lia | rewrite idx_ok by lia]; cbn [bind]).

Ltac not_panic := split; (let X := fresh "X" in intro X; discriminate X).

Lemma len_nil : len (@nil byte) = 0%N. Proof. reflexivity. Qed.
Lemma len_cons x (l : bytes) : len (x :: l) = (1 + len l)%N.
Proof. unfold len. cbn [length]. lia. Qed.
Lemma len_skipn (b : bytes) n : len (skipn n b) = (len b - N.of_nat n)%N.
Proof. unfold len. rewrite skipn_length. lia. Qed.
Lemma len_firstn (b : bytes) n : len (firstn n b) = N.min (N.of_nat n) (len b).
Proof. unfold len. rewrite firstn_length. lia. Qed.
Lemma slice_from_ok (b : bytes) i : (i <= len b)%N -> slice_from b i = Ok (skipn (N.to_nat i) b).
Proof. intros. unfold slice_from. destruct (N.ltb_spec (len b) i); [lia|reflexivity]. Qed.
Lemma slice_ok (b : bytes) i j : (i <= j)%N -> (j <= len b)%N ->
  slice b i j = Ok (firstn (N.to_nat (j - i)) (skipn (N.to_nat i) b)).
Proof.
  intros. unfold slice. destruct (N.ltb_spec (len b) j); [lia|]. destruct (N.ltb_spec j i); [lia|]. reflexivity.
Qed.
Lemma bind_not_panic {A B} (r : res A) (f : A -> res B) :
  r <> Panic -> r <> Fuel -> (forall a, r = Ok a -> f a <> Panic /\ f a <> Fuel) -> bind r f <> Panic /\ bind r f <> Fuel.
Proof. intros H1 H2 H3. destruct r; cbn [bind]; try (split; congruence). apply H3. reflexivity. Qed.
