(* SourceSdes: the translated SourceDescription codec (Gen/Funcs.v, module GoSrc: the SourceDescriptionItem,
   SourceDescriptionChunk and SourceDescription functions) and the translated RawPacket methods compute what the model
   computes (Model/Sdes.v: SItem, SChunk, SDES functions; Model/Packet.v: the PRaw / TRaw cases).

   No [fits] hypothesis is needed anywhere: both sides truncate an over-wide field in the same way. *)
From RTCP Require Import Proofs.Tactics Lib.GoSem Gen.Funcs Proofs.GoSemFacts Proofs.HeaderProofs
  Model.Header Model.Reports Model.Sdes Model.Packet Proofs.SourceEquiv Proofs.SrcConv Proofs.SourceSR.
Local Open Scope Z_scope.

(* ================================================================================================ *)
(* More transfer lemmas (the general ones about gcopy, gview, glenl, gupdl, gmakel come from SourceSR) *)
(* ================================================================================================ *)
Section MoreGoSemFacts.

Lemma bind_assoc' {A B C} (r : res A) (f : A -> res B) (g : B -> res C) :
  bind (bind r f) g = bind r (fun x => bind (f x) g).
Proof. destruct r; reflexivity. Qed.

(* a [match] that propagates every failure is a bind *)
Lemma match_is_bind {A B} (r : res A) (f : A -> res B) :
  match r with Ok x => f x | Err => Err | Panic => Panic | Fuel => Fuel end = bind r f.
Proof. destruct r; reflexivity. Qed.

Lemma gidx_bind' {A} b (i : N) (F : Z -> res A) :
  bind (gidx b (Z.of_N i)) F = bind (idx b i) (fun x => F (Z.of_N (b2n x))).
Proof. rewrite gidx_idx. apply bind_res_map. Qed.

Lemma gappend_app a b : gappend a b = a ++ b.
Proof. reflexivity. Qed.

Lemma zeros_4 : zeros 4 = [x00; x00; x00; x00].
Proof. reflexivity. Qed.

(* PutUint32 on a fresh 4-octet buffer *)
Lemma gbe_put4_zeros4 x : gbe_put 4 (zeros 4) 0 (Z.of_N x) = Ok (be 4 x).
Proof.
  rewrite gbe_put_ok_N by (rewrite ?glen_zeros; lia).
  change (Z.to_nat 0) with O. cbn [firstn app Nat.add]. rewrite zeros_4. cbn [skipn]. rewrite app_nil_r. reflexivity.
Qed.

End MoreGoSemFacts.

(* ================================================================================================ *)
(* raw_packet.go                                                                                     *)
(* ================================================================================================ *)
Lemma src_RawPacket_Marshal : forall b, GoSrc.RawPacket_Marshal b = marshal_packet (PRaw b).
Proof. reflexivity. Qed.

Lemma src_RawPacket_MarshalSize : forall b, GoSrc.RawPacket_MarshalSize b = Z.of_N (size_packet (PRaw b)).
Proof. intros b. unfold GoSrc.RawPacket_MarshalSize. cbn [size_packet]. apply glen_len. Qed.

Lemma src_RawPacket_DestinationSSRC : forall b, GoSrc.RawPacket_DestinationSSRC b = zN (dest_packet (PRaw b)).
Proof. reflexivity. Qed.

(* the receiver is overwritten: any receiver *)
Lemma src_RawPacket_Unmarshal_gen : forall r0 b, GoSrc.RawPacket_Unmarshal r0 b = Raw_unmarshal b.
Proof.
  intros r0 b. unfold GoSrc.RawPacket_Unmarshal, Raw_unmarshal. consts.
  rewrite glen_len, Zltb_N_r. destruct (len b <? 4)%N; [reflexivity|].
  rewrite src_Header_Unmarshal. destruct (Header_unmarshal b); reflexivity.
Qed.
Lemma src_RawPacket_Unmarshal : forall b, GoSrc.RawPacket_Unmarshal [] b = Raw_unmarshal b.
Proof. intros b. apply src_RawPacket_Unmarshal_gen. Qed.
Lemma src_RawPacket_Unmarshal_decode_as : forall r0 b,
  res_map PRaw (GoSrc.RawPacket_Unmarshal r0 b) = decode_as TRaw b.
Proof. intros r0 b. rewrite src_RawPacket_Unmarshal_gen. reflexivity. Qed.

Lemma src_RawPacket_Header : forall b, GoSrc.RawPacket_Header b = Ok (src_header (Raw_header b)).
Proof.
  intros b. unfold GoSrc.RawPacket_Header, Raw_header. rewrite src_Header_Unmarshal.
  destruct (Header_unmarshal_total b) as [HP HF].
  destruct (Header_unmarshal b); cbn [res_map]; try reflexivity; congruence.
Qed.
Lemma src_RawPacket_Header_packet : forall b,
  Some (GoSrc.RawPacket_Header b) = option_map (fun h => Ok (src_header h)) (header_of_packet (PRaw b)).
Proof. intros b. rewrite src_RawPacket_Header. reflexivity. Qed.

(* ================================================================================================ *)
(* source_description.go: items                                                                      *)
(* ================================================================================================ *)
Ltac sdes_fields :=
  cbv [GoSrc.set_SourceDescriptionItem_Type GoSrc.set_SourceDescriptionItem_Text
       GoSrc.SourceDescriptionItem_Type GoSrc.SourceDescriptionItem_Text
       GoSrc.set_SourceDescriptionChunk_Source GoSrc.set_SourceDescriptionChunk_Items
       GoSrc.SourceDescriptionChunk_Source GoSrc.SourceDescriptionChunk_Items
       GoSrc.set_SourceDescription_Chunks GoSrc.SourceDescription_Chunks].

Lemma src_SourceDescriptionItem_Len : forall i, GoSrc.SourceDescriptionItem_Len (src_item i) = Z.of_N (SItem_len i).
Proof.
  intros i. unfold GoSrc.SourceDescriptionItem_Len, SItem_len, src_item. sdes_fields. rewrite glen_len. consts. lia.
Qed.

Lemma src_SourceDescriptionItem_Marshal : forall i, GoSrc.SourceDescriptionItem_Marshal (src_item i) = SItem_marshal i.
Proof.
  intros [t txt]. unfold GoSrc.SourceDescriptionItem_Marshal, SItem_marshal, src_item. sdes_fields. cbn [it_type it_text].
  consts. rewrite Zeqb_N_0r. destruct (t =? 0)%N; [reflexivity|].
  change (gmake 2) with (Ok [x00; x00]). cbn [bind].
  rewrite gupd_ok by (cbn; lia). change (Z.to_nat 0) with O. cbn [firstn skipn app bind].
  rewrite glen_len, Zltb_N_l. destruct (255 <? len txt)%N; [reflexivity|].
  rewrite gupd_ok by (cbn; lia). change (Z.to_nat 1) with 1%nat. cbn [firstn skipn app bind].
  rewrite gappend_app, byte_of_Z_N, uwrap8_N, byte_of_Z_N, n2b_u8. reflexivity.
Qed.

(* every field of the receiver is assigned: any receiver *)
Lemma src_SourceDescriptionItem_Unmarshal_gen : forall s0 b,
  GoSrc.SourceDescriptionItem_Unmarshal s0 b = res_map src_item (SItem_unmarshal b).
Proof.
  intros s0 b. unfold GoSrc.SourceDescriptionItem_Unmarshal, SItem_unmarshal. consts.
  change (1 + 1)%N with 2%N. rewrite glen_len, Zltb_N_r.
  destruct (N.ltb_spec (len b) 2) as [Hl|Hl]; [reflexivity|].
  change (gidx b 0) with (gidx b (Z.of_N 0)). rewrite gidx_bind'.
  destruct (idx b 0) as [t| | |]; cbn [bind res_map]; try reflexivity.
  change (gidx b 1) with (gidx b (Z.of_N 1)). rewrite gidx_bind'.
  destruct (idx b 1) as [n| | |]; cbn [bind res_map]; try reflexivity.
  rewrite Zadd_N_l, Zltb_N. destruct (len b <? 2 + b2n n)%N; [reflexivity|].
  change 2 with (Z.of_N 2) at 1. rewrite gslice_N.
  destruct (slice b 2 (2 + b2n n)) as [txt| | |]; cbn [bind res_map]; reflexivity.
Qed.
Lemma src_SourceDescriptionItem_Unmarshal : forall b,
  GoSrc.SourceDescriptionItem_Unmarshal GoSrc.zero_SourceDescriptionItem b = res_map src_item (SItem_unmarshal b).
Proof. intros b. apply src_SourceDescriptionItem_Unmarshal_gen. Qed.

(* ================================================================================================ *)
(* source_description.go: chunks                                                                     *)
(* ================================================================================================ *)
Definition items_len (its : list SItem) : N := fold_right (fun it acc => (SItem_len it + acc)%N) 0%N its.

(* ---------------- len ---------------- *)
Lemma SourceDescriptionChunk_len_loop1_eq s : forall its idx acc,
  GoSrc.SourceDescriptionChunk_len_loop1 (map src_item its) idx (Z.of_N acc) s
  = GoSrc.SourceDescriptionChunk_len_after1 (Z.of_N (acc + items_len its)) s.
Proof.
  induction its as [|it its IH]; intros idx acc; cbn [map GoSrc.SourceDescriptionChunk_len_loop1 items_len fold_right].
  - rewrite N.add_0_r. reflexivity.
  - rewrite src_SourceDescriptionItem_Len, Zadd_N, IH. fold (items_len its). rewrite N.add_assoc. reflexivity.
Qed.

Lemma src_SourceDescriptionChunk_len : forall c, GoSrc.SourceDescriptionChunk_len (src_chunk c) = Z.of_N (SChunk_len c).
Proof.
  intros c. unfold GoSrc.SourceDescriptionChunk_len.
  change (GoSrc.SourceDescriptionChunk_Items (src_chunk c)) with (map src_item (ch_items c)).
  change 4 with (Z.of_N 4). rewrite SourceDescriptionChunk_len_loop1_eq.
  unfold GoSrc.SourceDescriptionChunk_len_after1, SChunk_len. fold (items_len (ch_items c)). consts.
  rewrite Zadd_N_r, src_getPadding, Zadd_N. reflexivity.
Qed.

Lemma SChunk_len_ge c : (8 <= SChunk_len c)%N.
Proof.
  unfold SChunk_len. consts. set (l := (4 + _ + 1)%N). assert (5 <= l)%N by (unfold l; lia).
  pose proof (get_padding_spec l) as [Hm Hp]. lia.
Qed.

(* ---------------- Marshal ---------------- *)
Lemma SourceDescriptionChunk_Marshal_loop1_eq s : forall its idx raw,
  GoSrc.SourceDescriptionChunk_Marshal_loop1 (map src_item its) idx raw s
  = bind (items_marshal its) (fun d => GoSrc.SourceDescriptionChunk_Marshal_after1 (raw ++ d) s).
Proof.
  induction its as [|it its IH]; intros idx raw; cbn [map GoSrc.SourceDescriptionChunk_Marshal_loop1 items_marshal bind].
  - rewrite app_nil_r. reflexivity.
  - rewrite src_SourceDescriptionItem_Marshal.
    destruct (SItem_marshal it) as [d| | |]; cbn [bind]; try reflexivity.
    rewrite IH, gappend_app.
    destruct (items_marshal its) as [ds| | |]; cbn [bind]; try reflexivity.
    rewrite app_assoc. reflexivity.
Qed.

Lemma src_SourceDescriptionChunk_Marshal : forall c, GoSrc.SourceDescriptionChunk_Marshal (src_chunk c) = SChunk_marshal c.
Proof.
  intros c. unfold GoSrc.SourceDescriptionChunk_Marshal, SChunk_marshal.
  change (gmake 4) with (Ok (zeros 4)). cbn [bind].
  change (GoSrc.SourceDescriptionChunk_Items (src_chunk c)) with (map src_item (ch_items c)).
  change (GoSrc.SourceDescriptionChunk_Source (src_chunk c)) with (Z.of_N (ch_src c)).
  rewrite gbe_put4_zeros4. cbn [bind]. rewrite SourceDescriptionChunk_Marshal_loop1_eq.
  destruct (items_marshal (ch_items c)) as [its| | |]; cbn [bind]; try reflexivity.
  unfold GoSrc.SourceDescriptionChunk_Marshal_after1. rewrite !gappend_app.
  change (byte_of_Z 0) with (n2b c_SDESEnd).
  rewrite glen_len, src_getPadding, gmake_N. cbn [bind]. rewrite gappend_app, <- !app_assoc. reflexivity.
Qed.

(* ---------------- Unmarshal ---------------- *)
(* decoding onto a receiver: Source is assigned, the decoded items are APPENDED to the receiver's Items *)
Definition src_chunk_onto (s0 : GoSrc.SourceDescriptionChunk) (c : SChunk) : GoSrc.SourceDescriptionChunk :=
  GoSrc.mkSourceDescriptionChunk (Z.of_N (ch_src c)) (GoSrc.SourceDescriptionChunk_Items s0 ++ map src_item (ch_items c)).

Lemma SItem_len_ge it : (2 <= SItem_len it)%N.
Proof. unfold SItem_len. consts. lia. Qed.

(* the item loop is items_loop, step by step; each item advances i by at least 2, so either fuel suffices *)
Lemma SourceDescriptionChunk_Unmarshal_loop1_eq b : forall f g i src acc,
  (N.to_nat (len b - i) < f)%nat -> (N.to_nat (len b - i) < g)%nat ->
  GoSrc.SourceDescriptionChunk_Unmarshal_loop1 f (Z.of_N i) b (GoSrc.mkSourceDescriptionChunk src acc)
  = res_map (fun its => GoSrc.mkSourceDescriptionChunk src (acc ++ map src_item its)) (items_loop g b i).
Proof.
  induction f as [|f IH]; intros g i src acc Hf Hg; [lia|]. destruct g as [|g]; [lia|].
  cbn [GoSrc.SourceDescriptionChunk_Unmarshal_loop1 items_loop].
  rewrite glen_len, Zltb_N. destruct (N.ltb_spec i (len b)) as [Hi|Hi]; [|reflexivity].
  rewrite gidx_bind'. destruct (idx b i) as [t| | |]; cbn [bind res_map]; try reflexivity.
  rewrite Zeqb_N_0r. consts. destruct (b2n t =? 0)%N.
  { cbn [res_map map]. rewrite app_nil_r. reflexivity. }
  rewrite gslice_from_N. destruct (slice_from b i) as [sub| | |]; cbn [bind res_map]; try reflexivity.
  rewrite src_SourceDescriptionItem_Unmarshal_gen.
  destruct (SItem_unmarshal sub) as [it| | |]; cbn [bind res_map]; try reflexivity.
  rewrite src_SourceDescriptionItem_Len, Zadd_N. sdes_fields.
  pose proof (SItem_len_ge it) as Hit.
  rewrite (IH g) by lia.
  destruct (items_loop g b (i + SItem_len it)) as [its| | |]; cbn [bind res_map map]; try reflexivity.
  rewrite <- app_assoc. reflexivity.
Qed.

(* any receiver *)
Lemma src_SourceDescriptionChunk_Unmarshal_any : forall s0 b,
  GoSrc.SourceDescriptionChunk_Unmarshal s0 b = res_map (src_chunk_onto s0) (SChunk_unmarshal b).
Proof.
  intros [src0 its0] b. unfold GoSrc.SourceDescriptionChunk_Unmarshal, SChunk_unmarshal. consts.
  change (4 + 1)%N with 5%N. rewrite glen_len, Zltb_N_r.
  destruct (N.ltb_spec (len b) 5) as [Hl|Hl]; [reflexivity|].
  rewrite gbe_get_at0, bind_res_map.
  destruct (get_be_at 4 b 0) as [s| | |]; cbn [bind res_map]; try reflexivity.
  sdes_fields. change 4 with (Z.of_N 4) at 2.
  rewrite (SourceDescriptionChunk_Unmarshal_loop1_eq b _ (S (length b)) 4)
    by (rewrite ?glen_len; unfold len in *; lia).
  destruct (items_loop (S (length b)) b 4) as [its| | |]; cbn [bind res_map]; reflexivity.
Qed.

Lemma src_chunk_onto_nil s0 c : GoSrc.SourceDescriptionChunk_Items s0 = [] -> src_chunk_onto s0 c = src_chunk c.
Proof. intros E. unfold src_chunk_onto. rewrite E. reflexivity. Qed.

(* any receiver whose Items is empty *)
Lemma src_SourceDescriptionChunk_Unmarshal_gen : forall s0 b, GoSrc.SourceDescriptionChunk_Items s0 = [] ->
  GoSrc.SourceDescriptionChunk_Unmarshal s0 b = res_map src_chunk (SChunk_unmarshal b).
Proof.
  intros s0 b E. rewrite src_SourceDescriptionChunk_Unmarshal_any. apply res_map_ext. intros c.
  apply src_chunk_onto_nil. exact E.
Qed.
Lemma src_SourceDescriptionChunk_Unmarshal : forall b,
  GoSrc.SourceDescriptionChunk_Unmarshal GoSrc.zero_SourceDescriptionChunk b = res_map src_chunk (SChunk_unmarshal b).
Proof. intros b. apply src_SourceDescriptionChunk_Unmarshal_gen. reflexivity. Qed.

(* the hypothesis on the receiver cannot be dropped: the Go decoder appends to Items (behaviour of the source, which the
   model, describing decoding into a fresh value, does not cover) *)
Lemma src_SourceDescriptionChunk_Unmarshal_nonempty_receiver_refuted :
  exists s0 b, GoSrc.SourceDescriptionChunk_Unmarshal s0 b <> res_map src_chunk (SChunk_unmarshal b).
Proof.
  exists (GoSrc.mkSourceDescriptionChunk 0 [GoSrc.mkSourceDescriptionItem 1 []]), [x00; x00; x00; x01; x00; x00; x00; x00].
  vm_compute. intro E. discriminate E.
Qed.

(* ================================================================================================ *)
(* source_description.go: the packet                                                                 *)
(* ================================================================================================ *)
Definition chunks_len (cs : list SChunk) : N := fold_right (fun c acc => (SChunk_len c + acc)%N) 0%N cs.

(* ---------------- MarshalSize ---------------- *)
Lemma SourceDescription_MarshalSize_loop1_eq s : forall cs idx acc,
  GoSrc.SourceDescription_MarshalSize_loop1 (map src_chunk cs) idx (Z.of_N acc) s
  = GoSrc.SourceDescription_MarshalSize_after1 (Z.of_N (acc + chunks_len cs)) s.
Proof.
  induction cs as [|c cs IH]; intros idx acc; cbn [map GoSrc.SourceDescription_MarshalSize_loop1 chunks_len fold_right].
  - rewrite N.add_0_r. reflexivity.
  - rewrite src_SourceDescriptionChunk_len, Zadd_N, IH. fold (chunks_len cs). rewrite N.add_assoc. reflexivity.
Qed.

Lemma src_SourceDescription_MarshalSize : forall x, GoSrc.SourceDescription_MarshalSize (src_sdes x) = Z.of_N (SDES_size x).
Proof.
  intros x. unfold GoSrc.SourceDescription_MarshalSize.
  change (GoSrc.SourceDescription_Chunks (src_sdes x)) with (map src_chunk (sd_chunks x)).
  change 0 with (Z.of_N 0) at 2. rewrite SourceDescription_MarshalSize_loop1_eq.
  unfold GoSrc.SourceDescription_MarshalSize_after1, SDES_size. fold (chunks_len (sd_chunks x)). consts.
  rewrite Zadd_N_l. reflexivity.
Qed.
Lemma src_SourceDescription_MarshalSize_packet : forall x,
  GoSrc.SourceDescription_MarshalSize (src_sdes x) = Z.of_N (size_packet (PSDES x)).
Proof. exact src_SourceDescription_MarshalSize. Qed.

Lemma SDES_size_ge x : (4 <= SDES_size x)%N.
Proof. unfold SDES_size. consts. lia. Qed.

(* ---------------- Header ---------------- *)
Lemma src_SourceDescription_Header : forall x, GoSrc.SourceDescription_Header (src_sdes x) = src_header (SDES_header x).
Proof.
  intros x. unfold GoSrc.SourceDescription_Header. rewrite src_SourceDescription_MarshalSize.
  unfold src_header, SDES_header. cbn [h_pad h_count h_type h_len].
  pose proof (SDES_size_ge x) as Hs.
  unfold src_sdes at 1. sdes_fields. rewrite glenl_map, glenl_nlen, uwrap8_N.
  change 4 with (Z.of_N 4). rewrite Zquot_N.
  replace (Z.of_N (SDES_size x / 4) - 1) with (Z.of_N (SDES_size x / 4 - 1)) by lia.
  rewrite uwrap16_N. reflexivity.
Qed.
Lemma src_SourceDescription_Header_packet : forall x,
  Some (GoSrc.SourceDescription_Header (src_sdes x)) = option_map src_header (header_of_packet (PSDES x)).
Proof. intros x. rewrite src_SourceDescription_Header. reflexivity. Qed.

(* ---------------- DestinationSSRC ---------------- *)
(* invariant of the range loop: [pre] already written, the rest of the made list still zero *)
Lemma SourceDescription_DestinationSSRC_loop1_eq s : forall rest pre,
  GoSrc.SourceDescription_DestinationSSRC_loop1 rest (glenl pre) (pre ++ repeat 0 (length rest)) s
  = Ok (pre ++ map GoSrc.SourceDescriptionChunk_Source rest).
Proof.
  induction rest as [|c rest IH]; intros pre; cbn [GoSrc.SourceDescription_DestinationSSRC_loop1 length repeat map].
  - reflexivity.
  - rewrite gupdl_app_mid. cbn [bind].
    replace (glenl pre + 1) with (glenl (pre ++ [GoSrc.SourceDescriptionChunk_Source c]))
      by (rewrite glenl_app; unfold glenl; cbn [length]; lia).
    change (pre ++ GoSrc.SourceDescriptionChunk_Source c :: repeat 0 (length rest))
      with (pre ++ [GoSrc.SourceDescriptionChunk_Source c] ++ repeat 0 (length rest)).
    rewrite app_assoc, IH, <- app_assoc. reflexivity.
Qed.

Lemma src_SourceDescription_DestinationSSRC : forall x,
  GoSrc.SourceDescription_DestinationSSRC (src_sdes x) = Ok (zN (dest_packet (PSDES x))).
Proof.
  intros x. unfold GoSrc.SourceDescription_DestinationSSRC.
  unfold glenl at 1. rewrite gmakel_nat. cbn [bind].
  pose proof (SourceDescription_DestinationSSRC_loop1_eq (src_sdes x) (GoSrc.SourceDescription_Chunks (src_sdes x)) []) as K.
  cbn [app] in K. change (glenl (@nil Z)) with 0 in K. rewrite K. clear K.
  cbn [dest_packet]. unfold SDES_dest, zN, src_sdes. sdes_fields. rewrite !map_map. reflexivity.
Qed.

(* ---------------- Marshal ---------------- *)
(* what follows the chunk loop: the count guard and the header (the offset is no longer used) *)
Lemma SourceDescription_Marshal_after1_eq x o raw :
  GoSrc.SourceDescription_Marshal_after1 o raw (src_sdes x) =
  (if (c_countMax <? nlen (sd_chunks x))%N then Err else
   let* h := Header_marshal (SDES_header x) in
   copy_at raw 0 h).
Proof.
  unfold GoSrc.SourceDescription_Marshal_after1.
  rewrite src_SourceDescription_Header, src_Header_Marshal.
  unfold src_sdes. sdes_fields. rewrite glenl_map, glenl_nlen, Zltb_N_l. consts.
  destruct (31 <? nlen (sd_chunks x))%N; [reflexivity|].
  rewrite match_is_bind.
  destruct (Header_marshal (SDES_header x)) as [h| | |]; cbn [bind]; try reflexivity.
  rewrite gcopy_0. apply bind_Ok_r.
Qed.

(* the chunk loop is put_chunks, step by step ([o] is the offset in packetBody = rawPacket[4:]) *)
Lemma SourceDescription_Marshal_loop1_eq s : forall cs idx (o : N) raw,
  GoSrc.SourceDescription_Marshal_loop1 (map src_chunk cs) idx (Z.of_N o) raw s =
  bind (put_chunks raw (4 + o) cs) (fun raw' => GoSrc.SourceDescription_Marshal_after1 0 raw' s).
Proof.
  induction cs as [|c cs IH]; intros idx o raw; cbn [map GoSrc.SourceDescription_Marshal_loop1 put_chunks bind].
  - reflexivity.
  - rewrite src_SourceDescriptionChunk_Marshal.
    destruct (SChunk_marshal c) as [d| | |]; cbn [bind]; try reflexivity.
    rewrite gview_gcopy_copy_at_l.
    destruct (copy_at raw (4 + o) d) as [raw2| | |]; cbn [bind]; try reflexivity.
    rewrite glen_len, Zadd_N, IH, N.add_assoc. reflexivity.
Qed.

Lemma src_SourceDescription_Marshal : forall x, GoSrc.SourceDescription_Marshal (src_sdes x) = SDES_marshal x.
Proof.
  intros x. unfold GoSrc.SourceDescription_Marshal, SDES_marshal.
  rewrite src_SourceDescription_MarshalSize, gmake_N. cbn [bind].
  pose proof (SDES_size_ge x) as Hs.
  rewrite gslice_from_ok by (rewrite glen_zeros; lia). cbn [bind].
  change (GoSrc.SourceDescription_Chunks (src_sdes x)) with (map src_chunk (sd_chunks x)).
  change 0 with (Z.of_N 0) at 2. rewrite SourceDescription_Marshal_loop1_eq. consts.
  change (4 + 0)%N with 4%N.
  destruct (put_chunks (zeros (SDES_size x)) 4 (sd_chunks x)) as [raw| | |]; cbn [bind]; try reflexivity.
  rewrite SourceDescription_Marshal_after1_eq. consts. reflexivity.
Qed.
Lemma src_SourceDescription_Marshal_packet : forall x,
  GoSrc.SourceDescription_Marshal (src_sdes x) = marshal_packet (PSDES x).
Proof. exact src_SourceDescription_Marshal. Qed.

(* ---------------- Unmarshal ---------------- *)
(* the chunk loop is chunks_loop, step by step; each chunk advances i by at least 8, so either fuel suffices
   (i may run past the end of the buffer when the last chunk lacks its padding: both loops then stop) *)
Lemma SourceDescription_Unmarshal_loop1_eq h b : forall f g i acc,
  (N.to_nat (len b - i) < f)%nat -> (N.to_nat (len b - i) < g)%nat ->
  GoSrc.SourceDescription_Unmarshal_loop1 f h (Z.of_N i) b (GoSrc.mkSourceDescription acc)
  = bind (chunks_loop g b i) (fun cs =>
      GoSrc.SourceDescription_Unmarshal_after1 h 0 b (GoSrc.mkSourceDescription (acc ++ map src_chunk cs))).
Proof.
  induction f as [|f IH]; intros g i acc Hf Hg; [lia|]. destruct g as [|g]; [lia|].
  cbn [GoSrc.SourceDescription_Unmarshal_loop1 chunks_loop].
  rewrite glen_len, Zltb_N. destruct (N.ltb_spec i (len b)) as [Hi|Hi].
  2:{ cbn [bind map]. rewrite app_nil_r. reflexivity. }
  rewrite gslice_from_N. destruct (slice_from b i) as [sub| | |]; cbn [bind]; try reflexivity.
  rewrite src_SourceDescriptionChunk_Unmarshal_gen by reflexivity.
  destruct (SChunk_unmarshal sub) as [c| | |]; cbn [bind res_map]; try reflexivity.
  rewrite src_SourceDescriptionChunk_len, Zadd_N. sdes_fields.
  pose proof (SChunk_len_ge c) as Hc.
  rewrite (IH g) by lia.
  destruct (chunks_loop g b (i + SChunk_len c)) as [cs| | |]; cbn [bind map]; try reflexivity.
  rewrite <- app_assoc. reflexivity.
Qed.

(* Decoding onto an arbitrary receiver: the decoded chunks are APPENDED to the receiver's Chunks [pre], and the count
   check looks at the whole list.  With pre = [] this is SDES_unmarshal. *)
Definition SDES_unmarshal_onto (pre : list GoSrc.SourceDescriptionChunk) (raw : bytes) : res GoSrc.SourceDescription :=
  let* h := Header_unmarshal raw in
  if negb (h_type h =? c_TypeSourceDescription)%N then Err else
  let* cs := chunks_loop (S (length raw)) raw c_headerLength in
  if negb (nlen pre + nlen cs =? h_count h)%N then Err else
  Ok (GoSrc.mkSourceDescription (pre ++ map src_chunk cs)).

Lemma src_SourceDescription_Unmarshal_any : forall s0 b,
  GoSrc.SourceDescription_Unmarshal s0 b = SDES_unmarshal_onto (GoSrc.SourceDescription_Chunks s0) b.
Proof.
  intros [pre] b. cbn [GoSrc.SourceDescription_Chunks].
  unfold GoSrc.SourceDescription_Unmarshal, SDES_unmarshal_onto.
  rewrite src_Header_Unmarshal.
  destruct (Header_unmarshal b) as [h| | |]; cbn [res_map bind]; try reflexivity.
  change (GoSrc.Header_Type (src_header h)) with (Z.of_N (h_type h)).
  rewrite Zeqb_N_r. consts.
  destruct (negb (h_type h =? 202)%N); [reflexivity|].
  change 4 with (Z.of_N 4) at 2.
  rewrite (SourceDescription_Unmarshal_loop1_eq (src_header h) b _ (S (length b)) 4)
    by (rewrite ?glen_len; unfold len in *; lia).
  destruct (chunks_loop (S (length b)) b 4) as [cs| | |]; cbn [bind]; try reflexivity.
  unfold GoSrc.SourceDescription_Unmarshal_after1. sdes_fields.
  change (GoSrc.Header_Count (src_header h)) with (Z.of_N (h_count h)).
  rewrite glenl_app, glenl_map, !glenl_nlen, Zadd_N, Zeqb_N. reflexivity.
Qed.

Lemma SDES_unmarshal_onto_nil : forall b, SDES_unmarshal_onto [] b = res_map src_sdes (SDES_unmarshal b).
Proof.
  intros b. unfold SDES_unmarshal_onto, SDES_unmarshal.
  destruct (Header_unmarshal b) as [h| | |]; cbn [res_map bind]; try reflexivity.
  destruct (negb (h_type h =? c_TypeSourceDescription)%N); [reflexivity|].
  destruct (chunks_loop (S (length b)) b c_headerLength) as [cs| | |]; cbn [res_map bind]; try reflexivity.
  change (nlen (@nil GoSrc.SourceDescriptionChunk)) with 0%N. rewrite N.add_0_l.
  destruct (negb (nlen cs =? h_count h)%N); reflexivity.
Qed.

(* any receiver whose Chunks is empty *)
Lemma src_SourceDescription_Unmarshal_gen : forall s0 b, GoSrc.SourceDescription_Chunks s0 = [] ->
  GoSrc.SourceDescription_Unmarshal s0 b = res_map src_sdes (SDES_unmarshal b).
Proof. intros s0 b E. rewrite src_SourceDescription_Unmarshal_any, E. apply SDES_unmarshal_onto_nil. Qed.

Lemma src_SourceDescription_Unmarshal : forall b,
  GoSrc.SourceDescription_Unmarshal GoSrc.zero_SourceDescription b = res_map src_sdes (SDES_unmarshal b).
Proof. intros b. apply src_SourceDescription_Unmarshal_gen. reflexivity. Qed.

Lemma src_SourceDescription_Unmarshal_decode_as : forall b,
  res_map PSDES (SDES_unmarshal b) = decode_as TSDES b /\
  GoSrc.SourceDescription_Unmarshal GoSrc.zero_SourceDescription b = res_map src_sdes (SDES_unmarshal b).
Proof. intros b. split; [reflexivity|apply src_SourceDescription_Unmarshal]. Qed.

(* the hypothesis on the receiver cannot be dropped: the Go decoder appends to Chunks and counts the whole list
   (behaviour of the source, which the model, describing decoding into a fresh value, does not cover) *)
Lemma src_SourceDescription_Unmarshal_nonempty_receiver_refuted :
  exists s0 b, GoSrc.SourceDescription_Unmarshal s0 b <> res_map src_sdes (SDES_unmarshal b).
Proof.
  exists (GoSrc.mkSourceDescription [GoSrc.mkSourceDescriptionChunk 7 []]), [x80; xca; x00; x00].
  vm_compute. intro E. discriminate E.
Qed.

(* ---------------- totality corollaries ---------------- *)
(* with the model's totality theorems (Proofs/Total1.v, Total2.v): the translated decoders never panic and the fuel of
   their loops always suffices, on every input *)
From RTCP Require Proofs.Total1 Proofs.Total2.
Lemma res_map_total' {A B} (f : A -> B) (r : res A) :
  r <> Panic /\ r <> Fuel -> res_map f r <> Panic /\ res_map f r <> Fuel.
Proof. intros [H1 H2]. destruct r; cbn [res_map]; split; congruence. Qed.

Lemma src_SourceDescriptionItem_Unmarshal_total : forall s0 b,
  GoSrc.SourceDescriptionItem_Unmarshal s0 b <> Panic /\ GoSrc.SourceDescriptionItem_Unmarshal s0 b <> Fuel.
Proof.
  intros s0 b. rewrite src_SourceDescriptionItem_Unmarshal_gen. apply res_map_total', Total1.SItem_unmarshal_total.
Qed.
Lemma src_SourceDescriptionChunk_Unmarshal_total : forall s0 b,
  GoSrc.SourceDescriptionChunk_Unmarshal s0 b <> Panic /\ GoSrc.SourceDescriptionChunk_Unmarshal s0 b <> Fuel.
Proof.
  intros s0 b. rewrite src_SourceDescriptionChunk_Unmarshal_any. apply res_map_total', Total1.SChunk_unmarshal_total.
Qed.
Lemma src_SourceDescription_Unmarshal_total : forall b,
  GoSrc.SourceDescription_Unmarshal GoSrc.zero_SourceDescription b <> Panic /\
  GoSrc.SourceDescription_Unmarshal GoSrc.zero_SourceDescription b <> Fuel.
Proof.
  intros b. rewrite src_SourceDescription_Unmarshal. apply res_map_total', Total1.SDES_unmarshal_total.
Qed.
Lemma src_RawPacket_Unmarshal_total : forall r0 b,
  GoSrc.RawPacket_Unmarshal r0 b <> Panic /\ GoSrc.RawPacket_Unmarshal r0 b <> Fuel.
Proof. intros r0 b. rewrite src_RawPacket_Unmarshal_gen. apply Total2.Raw_unmarshal_total. Qed.

(* ---------------- the invariants of the Go types (not needed by any lemma above; for a uniform interface) ---------------- *)
Definition item_fits (i : SItem) : Prop := (it_type i < 256)%N.
Definition chunk_fits (c : SChunk) : Prop := (ch_src c < 4294967296)%N /\ Forall item_fits (ch_items c).
Definition sdes_fits (x : SDES) : Prop := Forall chunk_fits (sd_chunks x).
Lemma src_SourceDescriptionItem_Marshal_fits : forall i, item_fits i ->
  GoSrc.SourceDescriptionItem_Marshal (src_item i) = SItem_marshal i.
Proof. intros i _. apply src_SourceDescriptionItem_Marshal. Qed.
Lemma src_SourceDescriptionChunk_Marshal_fits : forall c, chunk_fits c ->
  GoSrc.SourceDescriptionChunk_Marshal (src_chunk c) = SChunk_marshal c.
Proof. intros c _. apply src_SourceDescriptionChunk_Marshal. Qed.
Lemma src_SourceDescription_Marshal_fits : forall x, sdes_fits x ->
  GoSrc.SourceDescription_Marshal (src_sdes x) = SDES_marshal x.
Proof. intros x _. apply src_SourceDescription_Marshal. Qed.

Print Assumptions src_RawPacket_Marshal.
Print Assumptions src_RawPacket_MarshalSize.
Print Assumptions src_RawPacket_DestinationSSRC.
Print Assumptions src_RawPacket_Unmarshal_gen.
Print Assumptions src_RawPacket_Unmarshal.
Print Assumptions src_RawPacket_Unmarshal_decode_as.
Print Assumptions src_RawPacket_Header.
Print Assumptions src_SourceDescriptionItem_Len.
Print Assumptions src_SourceDescriptionItem_Marshal.
Print Assumptions src_SourceDescriptionItem_Unmarshal_gen.
Print Assumptions src_SourceDescriptionItem_Unmarshal.
Print Assumptions src_SourceDescriptionChunk_len.
Print Assumptions src_SourceDescriptionChunk_Marshal.
Print Assumptions src_SourceDescriptionChunk_Unmarshal_any.
Print Assumptions src_SourceDescriptionChunk_Unmarshal_gen.
Print Assumptions src_SourceDescriptionChunk_Unmarshal.
Print Assumptions src_SourceDescriptionChunk_Unmarshal_nonempty_receiver_refuted.
Print Assumptions src_SourceDescription_MarshalSize.
Print Assumptions src_SourceDescription_Header.
Print Assumptions src_SourceDescription_DestinationSSRC.
Print Assumptions src_SourceDescription_Marshal.
Print Assumptions src_SourceDescription_Unmarshal_any.
Print Assumptions SDES_unmarshal_onto_nil.
Print Assumptions src_SourceDescription_Unmarshal_gen.
Print Assumptions src_SourceDescription_Unmarshal.
Print Assumptions src_SourceDescription_Unmarshal_nonempty_receiver_refuted.
Print Assumptions src_SourceDescriptionItem_Unmarshal_total.
Print Assumptions src_SourceDescriptionChunk_Unmarshal_total.
Print Assumptions src_SourceDescription_Unmarshal_total.
Print Assumptions src_RawPacket_Unmarshal_total.
