(* Reception report block, SR, RR: Marshal = RFC 3550 6.4 layout, Unmarshal inverts it, sizes, limits, headers
   (C02 / C03 / C05 / C08 / C16 for the report types). *)
From RTCP Require Import Proofs.Tactics Proofs.HeaderProofs Model.Header Model.Reports Spec.Enc.
Local Open Scope N_scope.

(* ---------- generic helpers ---------- *)
Lemma fits_lt w x : fits w x = true -> x < 2 ^ w.
Proof. unfold fits. intros H. apply N.ltb_lt in H. exact H. Qed.

Lemma nl_nlen {A} (l : list A) : nlen l = nl l.
Proof. reflexivity. Qed.

Ltac read_field :=
  match goal with
  | |- context [get_be_at ?k (?pre ++ be ?k ?x ++ ?rest) ?off] =>
      rewrite (get_be_at_app k pre x rest off) by (first [ len_solve | cbn; lia ]); cbn [bind]
  end.
Ltac advance :=
  match goal with
  | |- context [?pre ++ be ?k ?x ++ ?t] => rewrite (app_assoc pre (be k x) t)
  end.

(* ---------- reception report block ---------- *)
Lemma enc_rrep_length r : length (enc_rrep r) = 24%nat.
Proof. unfold enc_rrep. rewrite !app_length, !be_length. reflexivity. Qed.

Lemma len_enc_rrep r : len (enc_rrep r) = 24.
Proof. unfold len. rewrite enc_rrep_length. reflexivity. Qed.

Lemma RRep_marshal_spec r : rr_lost r < 2 ^ 24 -> RRep_marshal r = Ok (enc_rrep r).
Proof.
  intros H. change (2 ^ 24) with 16777216 in H. unfold RRep_marshal. consts. change (zeros 24) with ([] ++ zeros 24).
  frontier.
  destruct (N.leb_spec 16777216 (rr_lost r)); [lia|].
  frontier.
  match goal with |- context [zeros ?n] => let v := eval vm_compute in n in change n with v end.
  cbn [zeros N.to_nat repeat]. rewrite app_nil_r.
  unfold enc_rrep. cbn [be]. rewrite <- !app_assoc. cbn [app].
  apply f_equal.
  repeat match goal with
  | |- ?a :: _ = ?b :: _ => apply (f_equal2 (@cons byte)); [ first [reflexivity | apply n2b_mod; lia] | ]
  end; reflexivity.
Qed.

Lemma RRep_marshal_limit r : 2 ^ 24 <= rr_lost r -> RRep_marshal r = Err.
Proof.
  intros H. change (2 ^ 24) with 16777216 in H. unfold RRep_marshal. consts. change (zeros 24) with ([] ++ zeros 24).
  frontier.
  destruct (N.leb_spec 16777216 (rr_lost r)); [reflexivity|lia].
Qed.

(* Marshal succeeds exactly below the 24-bit limit, and then never truncates the cumulative loss *)
Lemma RRep_marshal_ok_iff r : (exists b, RRep_marshal r = Ok b) <-> rr_lost r < 2 ^ 24.
Proof.
  split.
  - intros [b Hb]. destruct (N.lt_ge_cases (rr_lost r) (2 ^ 24)) as [|Hge]; [assumption|].
    rewrite RRep_marshal_limit in Hb by exact Hge. discriminate.
  - intros H. eexists. apply RRep_marshal_spec. exact H.
Qed.

Lemma D_rrep_bounds r : D_rrep r = true ->
  rr_ssrc r < 4294967296 /\ rr_frac r < 256 /\ rr_lost r < 16777216 /\ rr_seq r < 4294967296 /\
  rr_jit r < 4294967296 /\ rr_lsr r < 4294967296 /\ rr_delay r < 4294967296.
Proof.
  unfold D_rrep. rewrite !andb_true_iff. intros [[[[[[H1 H2] H3] H4] H5] H6] H7].
  apply fits_lt in H1, H2, H3, H4, H5, H6, H7.
  change (2 ^ 32) with 4294967296 in *. change (2 ^ 8) with 256 in *. change (2 ^ 24) with 16777216 in *.
  repeat split; assumption.
Qed.

Lemma RRep_unmarshal_enc r rest : D_rrep r = true -> RRep_unmarshal (enc_rrep r ++ rest) = Ok r.
Proof.
  intros HD. apply D_rrep_bounds in HD as (H1 & H2 & H3 & H4 & H5 & H6 & H7).
  unfold RRep_unmarshal. consts.
  destruct (N.ltb_spec (len (enc_rrep r ++ rest)) 24) as [A|_].
  { exfalso. rewrite len_app, len_enc_rrep in A. lia. }
  unfold enc_rrep. rewrite <- !app_assoc.
  change (be 4 (rr_ssrc r) ++ ?t) with ([] ++ be 4 (rr_ssrc r) ++ t).
  read_field. advance.
  rewrite (idx_in_be 1 _ (rr_frac r) _ 4 0%nat) by (first [len_solve | lia]); cbn [bind]. advance.
  change (5 + 1) with 6. change (5 + 2) with 7.
  rewrite (idx_in_be 3 _ (rr_lost r) _ 5 0%nat) by (first [len_solve | lia]); cbn [bind].
  rewrite (idx_in_be 3 _ (rr_lost r) _ 6 1%nat) by (first [len_solve | lia]); cbn [bind].
  rewrite (idx_in_be 3 _ (rr_lost r) _ 7 2%nat) by (first [len_solve | lia]); cbn [bind]. advance.
  read_field. advance. read_field. advance. read_field. advance. read_field.
  cbn [be app nth]. rewrite !b2n_n2b.
  destruct r as [a f l s j q d]; cbn [rr_ssrc rr_frac rr_lost rr_seq rr_jit rr_lsr rr_delay] in *.
  f_equal. f_equal; try lia.
  rewrite (lor_disjoint_add_r (l mod 256) ((l / 256) mod 256 * 256) 8) by lia.
  rewrite (lor_disjoint_add_r _ ((l / 256 / 256) mod 256 * 65536) 16) by lia.
  lia.
Qed.

Lemma RRep_unmarshal_enc0 r : D_rrep r = true -> RRep_unmarshal (enc_rrep r) = Ok r.
Proof. intros H. rewrite <- (app_nil_r (enc_rrep r)). apply RRep_unmarshal_enc. exact H. Qed.

(* C16 for the report block: Marshal then Unmarshal is the identity on the RFC domain *)
Lemma RRep_roundtrip r b : D_rrep r = true -> RRep_marshal r = Ok b -> RRep_unmarshal b = Ok r.
Proof.
  intros HD Hm. pose proof (D_rrep_bounds r HD) as (_ & _ & Hl & _).
  rewrite RRep_marshal_spec in Hm by (change (2 ^ 24) with 16777216; exact Hl). injection Hm as <-.
  apply RRep_unmarshal_enc0. exact HD.
Qed.

(* ---------- list / slice helpers ---------- *)
Definition lost_ok (r : RRep) : bool := rr_lost r <? 16777216.

Lemma D_rrep_lost_ok rs : forallb D_rrep rs = true -> forallb lost_ok rs = true.
Proof.
  induction rs as [|r rs IH]; cbn [forallb]; [reflexivity|]. rewrite !andb_true_iff. intros [Hr Hrs].
  split; [|apply IH; exact Hrs]. apply D_rrep_bounds in Hr as (_ & _ & Hl & _). unfold lost_ok. apply N.ltb_lt. exact Hl.
Qed.

Lemma len_concat_enc rs : len (concat (map enc_rrep rs)) = 24 * nl rs.
Proof.
  induction rs as [|r rs IH]; [reflexivity|]. cbn [map concat]. rewrite len_app, IH, len_enc_rrep.
  unfold nl. cbn [length]. lia.
Qed.

Lemma len_pad4 b : len (pad4 b) = len b + get_padding (len b).
Proof. unfold pad4. rewrite len_app, len_zeros. reflexivity. Qed.

Lemma pad4_aligned b : len b mod 4 = 0 -> pad4 b = b.
Proof.
  intros H. unfold pad4, get_padding. destruct (N.eqb_spec (len b mod 4) 0); [|lia].
  cbn [zeros N.to_nat repeat]. apply app_nil_r.
Qed.

Lemma pad4_idem b : pad4 (pad4 b) = pad4 b.
Proof. apply pad4_aligned. rewrite len_pad4. apply get_padding_spec. Qed.

Lemma len_hdr p c t l : len (hdr p c t l) = 4.
Proof. reflexivity. Qed.

Lemma be2_u16 l : be 2 (u16 l) = be 2 l.
Proof. unfold u16. cbn [be app]. f_equal; [apply n2b_mod; lia|]. f_equal. apply n2b_mod; lia. Qed.

Lemma hdr_u16 p c t l : hdr p c t (u16 l) = hdr p c t l.
Proof. unfold hdr. rewrite be2_u16. reflexivity. Qed.

Lemma Header_unmarshal_hdr16 p c t l rest : c < 32 -> t < 256 ->
  Header_unmarshal (hdr p c t l ++ rest) = Ok (mkHeader p c t (u16 l)).
Proof.
  intros Hc Ht. rewrite <- hdr_u16. apply Header_unmarshal_hdr; [exact Hc|exact Ht|unfold u16; lia].
Qed.

Lemma skipn_len_app (pre rest : bytes) : skipn (N.to_nat (len pre)) (pre ++ rest) = rest.
Proof. unfold len. rewrite Nat2N.id, skipn_app, skipn_all, Nat.sub_diag. reflexivity. Qed.

Lemma slice_from_app (pre rest : bytes) i : i = len pre -> slice_from (pre ++ rest) i = Ok rest.
Proof. intros ->. rewrite slice_from_ok by (rewrite len_app; lia). rewrite skipn_len_app. reflexivity. Qed.

Lemma slice_mid (pre mid rest : bytes) i j : i = len pre -> j = len pre + len mid ->
  slice (pre ++ mid ++ rest) i j = Ok mid.
Proof.
  intros -> ->. rewrite slice_ok by (rewrite ?len_app; lia). rewrite skipn_len_app.
  replace (N.to_nat (len pre + len mid - len pre)) with (length mid) by (unfold len; lia).
  rewrite firstn_app, firstn_all, Nat.sub_diag, firstn_O, app_nil_r. reflexivity.
Qed.

Lemma len_0_nil (b : bytes) : len b = 0 -> b = [].
Proof. destruct b; [reflexivity|]. unfold len. cbn [length]. lia. Qed.

(* ---------- the report loop of both Marshal functions ---------- *)
Lemma put_reports_frontier rs : forall pre n, 24 * nl rs <= n ->
  put_reports (pre ++ zeros n) (len pre) rs =
  if forallb lost_ok rs
  then Ok ((pre ++ concat (map enc_rrep rs)) ++ zeros (n - 24 * nl rs), len pre + 24 * nl rs)
  else Err.
Proof.
  induction rs as [|r rs IH]; intros pre n Hn; cbn [put_reports map concat forallb]; unfold nl in *; cbn [length] in *.
  - rewrite app_nil_r. replace (n - 24 * N.of_nat 0) with n by lia. replace (len pre + 24 * N.of_nat 0) with (len pre) by lia. reflexivity.
  - unfold lost_ok at 1. destruct (N.ltb_spec (rr_lost r) 16777216) as [Hr|Hr]; cbn [andb].
    + rewrite RRep_marshal_spec by exact Hr. cbn [bind].
      rewrite copy_at_frontier' by (rewrite enc_rrep_length; lia). cbn [bind]. consts.
      replace (len pre + 24) with (len (pre ++ enc_rrep r)) by (rewrite len_app, len_enc_rrep; reflexivity).
      rewrite IH by (rewrite enc_rrep_length; lia).
      destruct (forallb lost_ok rs); [|reflexivity].
      rewrite enc_rrep_length, len_app, len_enc_rrep.
      rewrite <- !app_assoc.
      replace (n - N.of_nat 24 - 24 * N.of_nat (length rs)) with (n - 24 * N.of_nat (S (length rs))) by lia.
      replace (len pre + 24 + 24 * N.of_nat (length rs)) with (len pre + 24 * N.of_nat (S (length rs))) by lia.
      reflexivity.
    + rewrite RRep_marshal_limit by exact Hr. reflexivity.
Qed.

(* ---------- Sender report ---------- *)
Definition sr_body (s : SR) : bytes :=
  be 4 (sr_ssrc s) ++ be 8 (sr_ntp s) ++ be 4 (sr_rtp s) ++ be 4 (sr_pcount s) ++ be 4 (sr_ocount s)
  ++ concat (map enc_rrep (sr_reports s)) ++ pad4 (sr_ext s).

Lemma len_sr_body s : 4 + len (sr_body s) = SR_size s.
Proof.
  unfold sr_body, SR_size. consts. rewrite !len_app, !len_be, len_concat_enc, len_pad4. unfold nlen, nl. lia.
Qed.

(* complete characterisation of SR.Marshal on every Go value *)
Lemma SR_marshal_char s :
  SR_marshal s =
  if forallb lost_ok (sr_reports s) && (nl (sr_reports s) <=? 31)
  then Ok (frame false (nl (sr_reports s)) 200 (sr_body s)) else Err.
Proof.
  unfold SR_marshal. consts.
  pose proof (len_sr_body s) as Hsz. unfold sr_body in Hsz. rewrite !len_app, !len_be, len_concat_enc, len_pad4 in Hsz.
  unfold nlen, nl in *.
  replace (zeros (SR_size s)) with (zeros 4 ++ zeros (SR_size s - 4)) by (rewrite <- zeros_add; f_equal; lia).
  frontier.
  match goal with |- context [put_reports (?pre ++ zeros ?m) ?off _] =>
    replace off with (len pre) by len_solve;
    rewrite (put_reports_frontier (sr_reports s) pre m) by (unfold nl; lia) end.
  destruct (forallb lost_ok (sr_reports s)); [|reflexivity]. cbn [bind andb]. unfold nl.
  destruct (N.ltb_spec 31 (N.of_nat (length (sr_reports s)))) as [Hc|Hc];
    destruct (N.leb_spec (N.of_nat (length (sr_reports s))) 31) as [Hc'|Hc']; try lia; [reflexivity|].
  match goal with |- context [copy_at (?pre ++ zeros ?m) ?off ?src] =>
    rewrite (copy_at_fr pre m src off)
      by (first [rewrite !len_app, ?len_be, ?len_zeros, ?len_concat_enc; unfold nl, len in *; lia | unfold len in *; lia]) end.
  cbn [bind]. unfold SR_header. consts. unfold nlen.
  replace (u8 (N.of_nat (length (sr_reports s)))) with (N.of_nat (length (sr_reports s))) by (unfold u8; lia).
  rewrite Header_marshal_spec by lia. cbn [bind].
  rewrite <- !app_assoc.
  rewrite copy_at_head' by reflexivity.
  unfold frame. rewrite hdr_u16. f_equal. f_equal.
  - f_equal. unfold sr_body. rewrite !len_app, !len_be, len_concat_enc, len_pad4. unfold nl. lia.
  - unfold sr_body, pad4. do 8 f_equal. unfold len in *. lia.
Qed.

Lemma D_SR_bounds s : D_SR s = true ->
  sr_ssrc s < 4294967296 /\ sr_ntp s < 18446744073709551616 /\ sr_rtp s < 4294967296 /\ sr_pcount s < 4294967296 /\
  sr_ocount s < 4294967296 /\ nl (sr_reports s) <= 31 /\ forallb D_rrep (sr_reports s) = true /\ len (sr_ext s) mod 4 = 0.
Proof.
  unfold D_SR. rewrite !andb_true_iff. intros [[[[[[[H1 H2] H3] H4] H5] H6] H7] H8].
  apply fits_lt in H1, H2, H3, H4, H5.
  change (2 ^ 32) with 4294967296 in *. change (2 ^ 64) with 18446744073709551616 in *.
  apply N.leb_le in H6. apply N.eqb_eq in H8. repeat split; assumption.
Qed.

Lemma enc_SR_body s : len (sr_ext s) mod 4 = 0 -> enc_SR s = frame false (nl (sr_reports s)) 200 (sr_body s).
Proof. intros H. unfold enc_SR, sr_body. rewrite pad4_aligned by exact H. reflexivity. Qed.

(* C03 *)
Lemma SR_marshal_spec s : D_SR s = true -> SR_marshal s = Ok (enc_SR s).
Proof.
  intros HD. apply D_SR_bounds in HD as (_ & _ & _ & _ & _ & Hn & Hr & He).
  rewrite SR_marshal_char, (D_rrep_lost_ok _ Hr). apply N.leb_le in Hn. rewrite Hn. cbn [andb].
  rewrite enc_SR_body by exact He. reflexivity.
Qed.

(* C08: the two limits, each of which is reported as an error (never a silent truncation, never a panic) *)
Lemma SR_marshal_limit s : 31 < nl (sr_reports s) -> SR_marshal s = Err.
Proof.
  intros H. rewrite SR_marshal_char. destruct (N.leb_spec (nl (sr_reports s)) 31); [lia|]. rewrite andb_false_r. reflexivity.
Qed.

Lemma SR_marshal_limit_lost s : forallb lost_ok (sr_reports s) = false -> SR_marshal s = Err.
Proof. intros H. rewrite SR_marshal_char, H. reflexivity. Qed.

Lemma SR_marshal_ok_iff s :
  (exists b, SR_marshal s = Ok b) <-> (forallb lost_ok (sr_reports s) && (nl (sr_reports s) <=? 31) = true).
Proof.
  rewrite SR_marshal_char. destruct (forallb lost_ok (sr_reports s) && (nl (sr_reports s) <=? 31)).
  - split; [reflexivity|]. intros _. eexists. reflexivity.
  - split; [intros [b Hb]; discriminate|discriminate].
Qed.

Lemma SR_marshal_no_panic s : SR_marshal s <> Panic /\ SR_marshal s <> Fuel.
Proof. rewrite SR_marshal_char. destruct (_ && _); not_panic. Qed.

(* C05 on every Go value on which Marshal succeeds: length = MarshalSize, 32-bit aligned, and the first four octets
   decode to Header() (count, PT 200, no padding bit, length field = words - 1 reduced to 16 bits) *)
Lemma SR_size_aligned s : SR_size s mod 4 = 0.
Proof.
  unfold SR_size. consts. pose proof (get_padding_spec (len (sr_ext s))) as [Hp _]. lia.
Qed.

Lemma len_frame p c t body : len (frame p c t body) = 4 + len body.
Proof. unfold frame. rewrite len_app, len_hdr. reflexivity. Qed.

Lemma SR_framing s b : SR_marshal s = Ok b ->
  len b = SR_size s /\ SR_size s mod 4 = 0 /\ Header_unmarshal b = Ok (SR_header s) /\
  SR_header s = mkHeader false (nl (sr_reports s)) 200 (u16 (len b / 4 - 1)).
Proof.
  rewrite SR_marshal_char. destruct (forallb lost_ok (sr_reports s)); [|discriminate]. cbn [andb].
  destruct (N.leb_spec (nl (sr_reports s)) 31) as [Hn|]; [|discriminate]. intros E. injection E as <-.
  rewrite len_frame, len_sr_body.
  assert (HH : SR_header s = mkHeader false (nl (sr_reports s)) 200 (u16 (SR_size s / 4 - 1))).
  { unfold SR_header. consts. f_equal. unfold nlen, nl, u8 in *. lia. }
  repeat split; [apply SR_size_aligned| |exact HH].
  rewrite HH. unfold frame. rewrite Header_unmarshal_hdr16 by lia. rewrite len_sr_body. reflexivity.
Qed.

Lemma SR_size_spec s : D_SR s = true -> len (enc_SR s) = SR_size s /\ SR_size s mod 4 = 0.
Proof.
  intros HD. pose proof (SR_marshal_spec s HD) as Hm. apply SR_framing in Hm as (H1 & H2 & _). split; assumption.
Qed.

Lemma SR_header_spec s : nl (sr_reports s) <= 31 ->
  h_pad (SR_header s) = false /\ h_count (SR_header s) = nl (sr_reports s) /\ h_type (SR_header s) = 200 /\
  h_len (SR_header s) = u16 (SR_size s / 4 - 1) /\
  Header_marshal (SR_header s) = Ok (hdr false (nl (sr_reports s)) 200 (SR_size s / 4 - 1)).
Proof.
  intros Hn. unfold SR_header. consts. cbn [h_pad h_count h_type h_len].
  assert (Hu : u8 (nlen (sr_reports s)) = nl (sr_reports s)) by (unfold nlen, nl, u8 in *; lia).
  rewrite Hu. repeat split. rewrite Header_marshal_spec by lia. rewrite hdr_u16. reflexivity.
Qed.

(* ---------- SR.Unmarshal ---------- *)
Lemma sr_reports_loop_enc rs : forall pre rest, forallb D_rrep rs = true ->
  sr_reports_loop (length rs) (pre ++ concat (map enc_rrep rs) ++ rest) (len pre) = Ok (rs, len pre + 24 * nl rs).
Proof.
  induction rs as [|r rs IH]; intros pre rest HD; cbn [sr_reports_loop length map concat]; cbn [forallb] in HD.
  - unfold nl. cbn [length]. f_equal. f_equal. lia.
  - apply andb_true_iff in HD as [Hr Hrs]. consts. rewrite <- app_assoc.
    destruct (N.ltb_spec (len (pre ++ enc_rrep r ++ concat (map enc_rrep rs) ++ rest)) (len pre + 24)) as [A|_].
    { exfalso. rewrite !len_app, len_enc_rrep in A. lia. }
    rewrite (slice_mid pre (enc_rrep r)) by (rewrite ?len_enc_rrep; reflexivity). cbn [bind].
    rewrite RRep_unmarshal_enc0 by exact Hr. cbn [bind].
    rewrite (app_assoc pre (enc_rrep r)).
    replace (len pre + 24) with (len (pre ++ enc_rrep r)) by (rewrite len_app, len_enc_rrep; reflexivity).
    rewrite IH by exact Hrs. cbn [bind]. rewrite len_app, len_enc_rrep. unfold nl. cbn [length]. f_equal. f_equal. lia.
Qed.

(* C02 / C03 decoder side *)
Lemma SR_unmarshal_enc s : D_SR s = true -> SR_unmarshal (enc_SR s) = Ok s.
Proof.
  intros HD. apply D_SR_bounds in HD as (H1 & H2 & H3 & H4 & H5 & Hn & Hr & He).
  unfold SR_unmarshal, enc_SR, frame. consts.
  match goal with |- context [hdr false ?c ?t ?l] => set (hd := hdr false c t l); assert (Hhd : hd = hdr false c t l) by reflexivity end.
  assert (Lhd : len hd = 4) by reflexivity.
  destruct (N.ltb_spec (len (hd ++ be 4 (sr_ssrc s) ++ be 8 (sr_ntp s) ++ be 4 (sr_rtp s) ++ be 4 (sr_pcount s) ++ be 4 (sr_ocount s)
             ++ concat (map enc_rrep (sr_reports s)) ++ sr_ext s)) (4 + 24)) as [A|_].
  { exfalso. rewrite !len_app, !len_be, Lhd in A. lia. }
  rewrite Hhd at 1. rewrite Header_unmarshal_hdr16 by lia. cbn [bind h_type h_count].
  change (200 =? 200) with true. cbn [negb].
  rewrite slice_from_app by (rewrite Lhd; reflexivity). cbn [bind].
  change (be 4 (sr_ssrc s) ++ ?t) with ([] ++ be 4 (sr_ssrc s) ++ t).
  read_field. advance. read_field. advance. read_field. advance. read_field. advance. read_field. advance.
  unfold nl at 1. rewrite Nat2N.id.
  match goal with |- context [sr_reports_loop _ (?pre ++ _) ?off] => replace off with (len pre) by len_solve end.
  rewrite sr_reports_loop_enc by exact Hr. cbn [bind].
  match goal with |- context [slice_from (?pre ++ ?c ++ ?e) ?off] =>
    set (P := pre) in *; assert (LP : len P = 24) by (unfold P; len_solve);
    rewrite (app_assoc P c e) end.
  assert (Hu : u8 (nlen (sr_reports s)) = nl (sr_reports s)) by (unfold nlen, nl, u8 in *; lia).
  rewrite Hu, N.eqb_refl. cbn [negb].
  destruct (N.ltb_spec (len P + 24 * nl (sr_reports s)) (len ((P ++ concat (map enc_rrep (sr_reports s))) ++ sr_ext s))) as [B|B].
  - rewrite slice_from_app by (rewrite len_app, len_concat_enc; reflexivity). cbn [bind].
    destruct s as [a b c d e rs x]; reflexivity.
  - rewrite !len_app, len_concat_enc in B. assert (E0 : sr_ext s = []) by (apply len_0_nil; lia).
    cbn [bind]. destruct s as [a b c d e rs x]; cbn [sr_ext] in E0; subst x; reflexivity.
Qed.

(* C02 through the model's own decoder *)
Lemma SR_roundtrip s b : D_SR s = true -> SR_marshal s = Ok b -> SR_unmarshal b = Ok s.
Proof. intros HD Hm. rewrite SR_marshal_spec in Hm by exact HD. injection Hm as <-. apply SR_unmarshal_enc. exact HD. Qed.

(* ---------- Receiver report ---------- *)
Lemma len_rr_body r :
  4 + len (be 4 (rcv_ssrc r) ++ concat (map enc_rrep (rcv_reports r)) ++ pad4 (rcv_ext r)) = RR_size r.
Proof. unfold RR_size. consts. rewrite !len_app, !len_be, len_concat_enc, len_pad4. unfold nlen, nl. lia. Qed.

Lemma len_enc_RR r : len (enc_RR r) = RR_size r.
Proof. unfold enc_RR. rewrite len_frame. apply len_rr_body. Qed.

(* complete characterisation of RR.Marshal on every Go value: no domain restriction is needed, the
   reference encoder pads the profile extension exactly as the (repaired) code does *)
Lemma RR_marshal_char r :
  RR_marshal r =
  if forallb lost_ok (rcv_reports r) && (nl (rcv_reports r) <=? 31) then Ok (enc_RR r) else Err.
Proof.
  unfold RR_marshal. consts.
  pose proof (len_rr_body r) as Hsz. rewrite !len_app, !len_be, len_concat_enc, len_pad4 in Hsz.
  unfold nlen, nl in *.
  replace (zeros (RR_size r)) with (zeros 4 ++ zeros (RR_size r - 4)) by (rewrite <- zeros_add; f_equal; lia).
  frontier.
  match goal with |- context [put_reports (?pre ++ zeros ?m) ?off _] =>
    replace off with (len pre) by len_solve;
    rewrite (put_reports_frontier (rcv_reports r) pre m) by (unfold nl; lia) end.
  destruct (forallb lost_ok (rcv_reports r)); [|reflexivity]. cbn [bind andb]. unfold nl.
  destruct (N.ltb_spec 31 (N.of_nat (length (rcv_reports r)))) as [Hc|Hc];
    destruct (N.leb_spec (N.of_nat (length (rcv_reports r))) 31) as [Hc'|Hc']; try lia; [reflexivity|].
  match goal with |- context [copy_at (?pre ++ zeros ?m) ?off ?src] =>
    rewrite (copy_at_fr pre m src off)
      by (first [rewrite !len_app, ?len_be, ?len_zeros, ?len_concat_enc; unfold nl, len in *; lia | unfold len in *; lia]) end.
  cbn [bind]. unfold RR_header. consts. unfold nlen.
  replace (u8 (N.of_nat (length (rcv_reports r)))) with (N.of_nat (length (rcv_reports r))) by (unfold u8; lia).
  rewrite Header_marshal_spec by lia. cbn [bind].
  rewrite <- !app_assoc.
  rewrite copy_at_head' by reflexivity.
  unfold enc_RR, frame. rewrite hdr_u16. f_equal. f_equal.
  - f_equal. rewrite !len_app, !len_be, len_concat_enc, len_pad4. unfold nl. lia.
  - unfold pad4. do 4 f_equal. unfold len in *. lia.
Qed.

Lemma D_RR_bounds r : D_RR r = true ->
  rcv_ssrc r < 4294967296 /\ nl (rcv_reports r) <= 31 /\ forallb D_rrep (rcv_reports r) = true.
Proof.
  unfold D_RR. rewrite !andb_true_iff. intros [[H1 H2] H3]. apply fits_lt in H1. change (2 ^ 32) with 4294967296 in *.
  apply N.leb_le in H2. repeat split; assumption.
Qed.

(* C03 *)
Lemma RR_marshal_spec r : D_RR r = true -> RR_marshal r = Ok (enc_RR r).
Proof.
  intros HD. apply D_RR_bounds in HD as (_ & Hn & Hr).
  rewrite RR_marshal_char, (D_rrep_lost_ok _ Hr). apply N.leb_le in Hn. rewrite Hn. reflexivity.
Qed.

(* C08 *)
Lemma RR_marshal_limit r : 31 < nl (rcv_reports r) -> RR_marshal r = Err.
Proof.
  intros H. rewrite RR_marshal_char. destruct (N.leb_spec (nl (rcv_reports r)) 31); [lia|]. rewrite andb_false_r. reflexivity.
Qed.

Lemma RR_marshal_limit_lost r : forallb lost_ok (rcv_reports r) = false -> RR_marshal r = Err.
Proof. intros H. rewrite RR_marshal_char, H. reflexivity. Qed.

Lemma RR_marshal_ok_iff r :
  (exists b, RR_marshal r = Ok b) <-> (forallb lost_ok (rcv_reports r) && (nl (rcv_reports r) <=? 31) = true).
Proof.
  rewrite RR_marshal_char. destruct (forallb lost_ok (rcv_reports r) && (nl (rcv_reports r) <=? 31)).
  - split; [reflexivity|]. intros _. eexists. reflexivity.
  - split; [intros [b Hb]; discriminate|discriminate].
Qed.

Lemma RR_marshal_no_panic r : RR_marshal r <> Panic /\ RR_marshal r <> Fuel.
Proof. rewrite RR_marshal_char. destruct (_ && _); not_panic. Qed.

(* C05 *)
Lemma RR_size_aligned r : RR_size r mod 4 = 0.
Proof. unfold RR_size. consts. pose proof (get_padding_spec (len (rcv_ext r))) as [Hp _]. lia. Qed.

Lemma RR_framing r b : RR_marshal r = Ok b ->
  len b = RR_size r /\ RR_size r mod 4 = 0 /\ Header_unmarshal b = Ok (RR_header r) /\
  RR_header r = mkHeader false (nl (rcv_reports r)) 201 (u16 (len b / 4 - 1)).
Proof.
  rewrite RR_marshal_char. destruct (forallb lost_ok (rcv_reports r)); [|discriminate]. cbn [andb].
  destruct (N.leb_spec (nl (rcv_reports r)) 31) as [Hn|]; [|discriminate]. intros E. injection E as <-.
  rewrite len_enc_RR.
  assert (HH : RR_header r = mkHeader false (nl (rcv_reports r)) 201 (u16 (RR_size r / 4 - 1))).
  { unfold RR_header. consts. f_equal. unfold nlen, nl, u8 in *. lia. }
  repeat split; [apply RR_size_aligned| |exact HH].
  rewrite HH. unfold enc_RR, frame. rewrite Header_unmarshal_hdr16 by lia. rewrite len_rr_body. reflexivity.
Qed.

Lemma RR_size_spec r : D_RR r = true -> len (enc_RR r) = RR_size r /\ RR_size r mod 4 = 0.
Proof. intros _. split; [apply len_enc_RR|apply RR_size_aligned]. Qed.

Lemma RR_header_spec r : nl (rcv_reports r) <= 31 ->
  h_pad (RR_header r) = false /\ h_count (RR_header r) = nl (rcv_reports r) /\ h_type (RR_header r) = 201 /\
  h_len (RR_header r) = u16 (RR_size r / 4 - 1) /\
  Header_marshal (RR_header r) = Ok (hdr false (nl (rcv_reports r)) 201 (RR_size r / 4 - 1)).
Proof.
  intros Hn. unfold RR_header. consts. cbn [h_pad h_count h_type h_len].
  assert (Hu : u8 (nlen (rcv_reports r)) = nl (rcv_reports r)) by (unfold nlen, nl, u8 in *; lia).
  rewrite Hu. repeat split. rewrite Header_marshal_spec by lia. rewrite hdr_u16. reflexivity.
Qed.

(* ---------- RR.Unmarshal ---------- *)
Lemma rr_reports_loop_enc rs : forall pre rest, forallb D_rrep rs = true ->
  rr_reports_loop (length rs) (pre ++ concat (map enc_rrep rs) ++ rest) (len pre) = Ok rs.
Proof.
  induction rs as [|r rs IH]; intros pre rest HD; cbn [rr_reports_loop length map concat]; cbn [forallb] in HD; [reflexivity|].
  apply andb_true_iff in HD as [Hr Hrs]. consts. rewrite <- app_assoc.
  destruct (N.ltb_spec (len pre) (len (pre ++ enc_rrep r ++ concat (map enc_rrep rs) ++ rest))) as [_|A].
  2:{ exfalso. rewrite !len_app, len_enc_rrep in A. lia. }
  rewrite slice_from_app by reflexivity. cbn [bind].
  rewrite RRep_unmarshal_enc by exact Hr. cbn [bind].
  rewrite (app_assoc pre (enc_rrep r)).
  replace (len pre + 24) with (len (pre ++ enc_rrep r)) by (rewrite len_app, len_enc_rrep; reflexivity).
  rewrite IH by exact Hrs. reflexivity.
Qed.

Lemma q_RR_idem r : q_RR (q_RR r) = q_RR r.
Proof. unfold q_RR. cbn [rcv_ssrc rcv_reports rcv_ext]. rewrite pad4_idem. reflexivity. Qed.

Lemma q_RR_aligned r : len (rcv_ext r) mod 4 = 0 -> q_RR r = r.
Proof. intros H. unfold q_RR. rewrite pad4_aligned by exact H. destruct r as [a rs x]; reflexivity. Qed.

(* the quantisation only pads: encodings agree, domain preserved *)
Lemma enc_RR_q r : enc_RR (q_RR r) = enc_RR r.
Proof. unfold enc_RR, q_RR. cbn [rcv_ssrc rcv_reports rcv_ext]. rewrite pad4_idem. reflexivity. Qed.

Lemma D_RR_q r : D_RR (q_RR r) = D_RR r.
Proof. reflexivity. Qed.

(* C02 / C03 decoder side, modulo the documented quantisation *)
Lemma RR_unmarshal_enc r : D_RR r = true -> RR_unmarshal (enc_RR r) = Ok (q_RR r).
Proof.
  intros HD. apply D_RR_bounds in HD as (H1 & Hn & Hr).
  unfold RR_unmarshal, enc_RR, frame. consts.
  match goal with |- context [hdr false ?c ?t ?l] => set (hd := hdr false c t l); assert (Hhd : hd = hdr false c t l) by reflexivity end.
  assert (Lhd : len hd = 4) by reflexivity.
  destruct (N.ltb_spec (len (hd ++ be 4 (rcv_ssrc r) ++ concat (map enc_rrep (rcv_reports r)) ++ pad4 (rcv_ext r))) (4 + 4)) as [A|_].
  { exfalso. rewrite !len_app, !len_be, Lhd in A. lia. }
  rewrite Hhd at 1. rewrite Header_unmarshal_hdr16 by lia. cbn [bind h_type h_count].
  change (201 =? 201) with true. cbn [negb].
  rewrite (get_be_at_app 4 hd (rcv_ssrc r)) by (first [rewrite Lhd; reflexivity | exact H1]). cbn [bind].
  rewrite (app_assoc hd).
  unfold nl at 1. rewrite Nat2N.id.
  assert (LP : len (hd ++ be 4 (rcv_ssrc r)) = 8) by (rewrite len_app, len_be, Lhd; reflexivity).
  rewrite <- LP at 1.
  rewrite rr_reports_loop_enc by exact Hr. cbn [bind].
  rewrite (app_assoc (hd ++ be 4 (rcv_ssrc r))).
  rewrite slice_from_app by (rewrite len_app, len_concat_enc, LP; unfold nlen, nl; lia). cbn [bind].
  assert (Hu : u8 (nlen (rcv_reports r)) = nl (rcv_reports r)) by (unfold nlen, nl, u8 in *; lia).
  rewrite Hu, N.eqb_refl. reflexivity.
Qed.

Lemma RR_unmarshal_enc_aligned r : D_RR r = true -> len (rcv_ext r) mod 4 = 0 -> RR_unmarshal (enc_RR r) = Ok r.
Proof. intros HD He. rewrite RR_unmarshal_enc by exact HD. rewrite q_RR_aligned by exact He. reflexivity. Qed.

(* C02 through the model's own decoder *)
Lemma RR_roundtrip r b : D_RR r = true -> RR_marshal r = Ok b -> RR_unmarshal b = Ok (q_RR r).
Proof. intros HD Hm. rewrite RR_marshal_spec in Hm by exact HD. injection Hm as <-. apply RR_unmarshal_enc. exact HD. Qed.

(* the quantised value is a fixed point of encode-then-decode *)
Lemma RR_roundtrip_q r : D_RR r = true -> RR_unmarshal (enc_RR (q_RR r)) = Ok (q_RR r).
Proof. intros HD. rewrite enc_RR_q. apply RR_unmarshal_enc. exact HD. Qed.

Print Assumptions RRep_marshal_spec.
Print Assumptions RRep_marshal_limit.
Print Assumptions RRep_marshal_ok_iff.
Print Assumptions RRep_unmarshal_enc.
Print Assumptions RRep_roundtrip.
Print Assumptions enc_rrep_length.
Print Assumptions SR_marshal_char.
Print Assumptions SR_marshal_spec.
Print Assumptions SR_marshal_limit.
Print Assumptions SR_marshal_limit_lost.
Print Assumptions SR_marshal_ok_iff.
Print Assumptions SR_marshal_no_panic.
Print Assumptions SR_framing.
Print Assumptions SR_size_spec.
Print Assumptions SR_header_spec.
Print Assumptions SR_unmarshal_enc.
Print Assumptions SR_roundtrip.
Print Assumptions RR_marshal_char.
Print Assumptions RR_marshal_spec.
Print Assumptions RR_marshal_limit.
Print Assumptions RR_marshal_limit_lost.
Print Assumptions RR_marshal_ok_iff.
Print Assumptions RR_marshal_no_panic.
Print Assumptions RR_framing.
Print Assumptions RR_size_spec.
Print Assumptions RR_header_spec.
Print Assumptions RR_unmarshal_enc.
Print Assumptions RR_unmarshal_enc_aligned.
Print Assumptions RR_roundtrip.
Print Assumptions q_RR_idem.
