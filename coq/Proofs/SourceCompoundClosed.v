(* compound_packet.go: the lemmas of Proofs/SourceCompound.v with their premises about packet.go discharged by
   Proofs/SourcePacket.v. *)
From RTCP Require Import Proofs.Tactics Lib.GoSem Gen.Funcs Model.Packet Proofs.SourceEquiv Proofs.SrcConv
  Proofs.SourcePacket Proofs.SourceCompound.
Local Open Scope N_scope.

Lemma unmarshal1_fst_snd : forall b,
  GoSrc.unmarshal b = res_map (fun pn => (src_packet (fst pn), Z.of_N (snd pn))) (unmarshal_one b).
Proof.
  intro b. rewrite src_unmarshal. destruct (unmarshal_one b) as [[p n]| | |]; reflexivity.
Qed.

Theorem src_CompoundPacket_MarshalSize_closed : forall l, Forall not_compound l ->
  GoSrc.CompoundPacket_MarshalSize (map src_packet l) = Ok (Z.of_N (size_packet (PCompound l))).
Proof. exact (src_CompoundPacket_MarshalSize src_Packet_MarshalSize). Qed.

Theorem src_CompoundPacket_DestinationSSRC_closed : forall l, Forall not_compound l ->
  GoSrc.CompoundPacket_DestinationSSRC (map src_packet l) = Ok (zN (dest_packet (PCompound l))).
Proof. exact (src_CompoundPacket_DestinationSSRC src_Packet_DestinationSSRC). Qed.

Theorem src_CompoundPacket_Marshal_closed : forall l, Forall not_compound l -> Forall packet_fits l ->
  GoSrc.CompoundPacket_Marshal (map src_packet l) = marshal_packet (PCompound l).
Proof. exact (src_CompoundPacket_Marshal packet_fits src_Marshal). Qed.

Theorem src_CompoundPacket_Unmarshal_closed : forall c b,
  GoSrc.CompoundPacket_Unmarshal c b = res_map (map src_packet) (Compound_unmarshal b).
Proof. exact (src_CompoundPacket_Unmarshal_gen unmarshal1_fst_snd). Qed.
Print Assumptions src_CompoundPacket_MarshalSize_closed.
Print Assumptions src_CompoundPacket_DestinationSSRC_closed.
Print Assumptions src_CompoundPacket_Marshal_closed.
Print Assumptions src_CompoundPacket_Unmarshal_closed.
