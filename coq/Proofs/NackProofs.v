(* C12: NACK pair helpers, part 2 (see NackEnum.v for the complete enumeration over bitmaps) *)
From Coq Require Import List NArith ZArith Lia Bool.
From Coq Require Import ZifyN ZifyBool ZifyNat.
From RTCP Require Import Lib.Base Model.Feedback Spec.NackSpec Proofs.NackEnum.
Import ListNotations.
Ltac Zify.zify_post_hook ::= Z.div_mod_to_equations.
Local Open Scope N_scope.

(* PacketList: the ID followed by ID+i+1 mod 65536 for each set bit i in ascending i *)
Lemma packet_list_is_spec p : np_bm p < 65536 -> packet_list p = packet_list_spec p.
Proof.
  intros H. unfold packet_list, nack_range, packet_list_spec. rewrite range_idx_all by exact H.
  f_equal.
Qed.

(* Range visits the same numbers in the same order and stops as soon as the callback returns false:
   if the k-th call (0-based) is the first to return false, exactly the first k+1 numbers are visited *)
Lemma range_stops p k : np_bm p < 65536 -> (k <= 17)%nat ->
  nack_range p (Some k) = firstn (S k) (packet_list p).
Proof.
  intros Hb Hk. rewrite packet_list_is_spec by exact Hb. unfold nack_range, packet_list_spec.
  destruct k as [|k]; [reflexivity|].
  rewrite range_idx_prefix by (auto; lia). rewrite firstn_cons. f_equal.
  fold (bits_of (np_bm p)). rewrite firstn_map. reflexivity.
Qed.

Lemma range_never_stops p : nack_range p None = packet_list p.
Proof. reflexivity. Qed.

(* ---- pairs cover exactly the requested set ---- *)
Lemma In_idx16 i : In i idx16 <-> i < 16.
Proof.
  split.
  - cbn. intuition lia.
  - intros H. cbn.
    assert (i = 0 \/ i = 1 \/ i = 2 \/ i = 3 \/ i = 4 \/ i = 5 \/ i = 6 \/ i = 7 \/ i = 8 \/ i = 9 \/ i = 10 \/ i = 11 \/ i = 12 \/ i = 13 \/ i = 14 \/ i = 15) by lia.
    intuition.
Qed.

Lemma In_packet_list_spec p s :
  In s (packet_list_spec p) <-> s = np_id p \/ exists i, i < 16 /\ N.testbit (np_bm p) i = true /\ s = (np_id p + i + 1) mod 65536.
Proof.
  unfold packet_list_spec. cbn [In]. rewrite in_map_iff. split.
  - intros [H | (i & Hi & Hin)]; [left; auto|]. apply filter_In in Hin as [Hin Hb]. apply In_idx16 in Hin.
    right. exists i. auto.
  - intros [H | (i & Hi & Hb & Hs)]; [left; auto|]. right. exists i. split; [auto|].
    apply filter_In. split; [apply In_idx16; auto | auto].
Qed.

Lemma testbit_lor_pow2 b k i : N.testbit (N.lor b (2 ^ k)) i = N.testbit b i || (i =? k).
Proof. rewrite N.lor_spec, N.pow2_bits_eqb. f_equal. apply N.eqb_sym. Qed.

Lemma sub16_small a b : a < 65536 -> b < 65536 -> sub16 a b = (a + 65536 - b) mod 65536.
Proof. intros. unfold sub16. rewrite (N.mod_small b) by lia. reflexivity. Qed.

Lemma cover_step cur m s : np_id cur < 65536 -> m < 65536 -> sub16 m (np_id cur) <= 16 ->
  In s (packet_list_spec {| np_id := np_id cur; np_bm := N.lor (np_bm cur) (shl16_1 (sub16 (sub16 m (np_id cur)) 1)) |})
  <-> In s (packet_list_spec cur) \/ s = m.
Proof.
  intros Hp Hm Hd. rewrite !In_packet_list_spec. cbn [np_id np_bm].
  rewrite (sub16_small m (np_id cur)) in * by lia.
  set (d := (m + 65536 - np_id cur) mod 65536) in *.
  assert (Hd16 : d < 65536) by (subst d; lia).
  rewrite (sub16_small d 1) by lia.
  unfold shl16_1.
  destruct (N.eq_dec m (np_id cur)) as [->|Hne].
  - assert (Hd0 : d = 0) by (subst d; lia). rewrite Hd0.
    change ((0 + 65536 - 1) mod 65536 <? 16) with false. cbv iota. rewrite N.lor_0_r. intuition.
  - assert (Hd1 : 1 <= d) by (subst d; lia).
    replace ((d + 65536 - 1) mod 65536) with (d - 1) by lia.
    destruct (N.ltb_spec (d - 1) 16); [|lia].
    assert (Hm' : m = (np_id cur + (d - 1) + 1) mod 65536) by (subst d; lia).
    split.
    + intros [H0 | (i & Hi & Hb & Hs)]; [auto|].
      rewrite testbit_lor_pow2 in Hb. apply orb_true_iff in Hb as [Hb | Hb].
      * left. right. exists i. auto.
      * apply N.eqb_eq in Hb. subst i. right. lia.
    + intros [[H0 | (i & Hi & Hb & Hs)] | H0].
      * auto.
      * right. exists i. rewrite testbit_lor_pow2, Hb. auto.
      * right. exists (d - 1). rewrite testbit_lor_pow2, N.eqb_refl, orb_true_r. repeat split; [lia | lia].
Qed.

Lemma go_cover l : forall cur s, np_id cur < 65536 -> Forall (fun x => x < 65536) l ->
  In s (flat_map packet_list_spec (nack_go cur l)) <-> In s (packet_list_spec cur) \/ In s l.
Proof.
  induction l as [|m l IH]; intros cur s Hp Hl; cbn [nack_go].
  - cbn [flat_map In]. rewrite app_nil_r. intuition.
  - inversion Hl as [|? ? Hm Hl']; subst.
    destruct (N.ltb_spec 16 (sub16 m (np_id cur))) as [Hgap|Hgap].
    + cbn [flat_map]. rewrite in_app_iff, IH by (cbn; auto).
      rewrite (In_packet_list_spec {| np_id := m; np_bm := 0 |}). cbn [np_id np_bm In].
      split.
      * intros [H | [[H | (i & _ & Hb & _)] | H]]; auto. rewrite N.bits_0 in Hb. discriminate.
      * intros [H | [H | H]]; auto.
    + rewrite IH by (cbn; auto). rewrite cover_step by auto. cbn [In]. intuition.
Qed.

Lemma pairs_cover_spec l s : Forall (fun x => x < 65536) l ->
  In s (flat_map packet_list_spec (nack_pairs_from l)) <-> In s l.
Proof.
  intros Hl. destruct l as [|x l]; [cbn; intuition|].
  inversion Hl; subst. unfold nack_pairs_from. rewrite go_cover by (cbn; auto).
  rewrite In_packet_list_spec. cbn [np_id np_bm In]. split.
  - intros [[H | (i & _ & Hb & _)] | H]; auto. rewrite N.bits_0 in Hb. discriminate.
  - intros [H | H]; auto.
Qed.

(* every bitmap the builder produces stays a uint16 *)
Lemma shl16_1_lt k : shl16_1 k < 65536.
Proof.
  unfold shl16_1. destruct (N.ltb_spec k 16); [|lia].
  apply N.pow_lt_mono_r with (a := 2) in H; lia.
Qed.
Lemma lor_lt_65536 a b : a < 65536 -> b < 65536 -> N.lor a b < 65536.
Proof.
  intros Ha Hb. destruct (N.eq_dec (N.lor a b) 0) as [->|Hne]; [lia|].
  change 65536 with (2 ^ 16). apply N.log2_lt_pow2; [lia|].
  rewrite N.log2_lor.
  destruct (N.eq_dec a 0) as [->|Ha0]; destruct (N.eq_dec b 0) as [->|Hb0]; cbn [N.log2 N.max];
    try (apply N.max_lub_lt); try (apply N.log2_lt_pow2; lia); try lia.
  all: try (rewrite N.max_0_l || rewrite N.max_0_r); try (apply N.log2_lt_pow2; lia).
Qed.
Lemma go_bitmaps l : forall cur, np_bm cur < 65536 -> Forall (fun p => np_bm p < 65536) (nack_go cur l).
Proof.
  induction l as [|m l IH]; intros cur H; cbn [nack_go].
  - constructor; auto.
  - destruct (16 <? sub16 m (np_id cur)).
    + constructor; [auto|]. apply IH. cbn. lia.
    + apply IH. cbn [np_bm]. apply lor_lt_65536; [auto|apply shl16_1_lt].
Qed.
Lemma pairs_bitmaps l : Forall (fun p => np_bm p < 65536) (nack_pairs_from l).
Proof. destruct l as [|x l]; [constructor|]. apply go_bitmaps. cbn. lia. Qed.

Lemma flat_map_ext_Forall {A B} (f g : A -> list B) (P : A -> Prop) l :
  (forall x, P x -> f x = g x) -> Forall P l -> flat_map f l = flat_map g l.
Proof.
  intros H Hl. induction Hl as [|x l Hx Hl IH]; [reflexivity|]. cbn [flat_map]. rewrite H by auto. f_equal. exact IH.
Qed.

(* The covered set of the pairs built from l is exactly the set of l: none missing, none extra *)
Lemma pairs_cover l s : Forall (fun x => x < 65536) l ->
  In s (flat_map packet_list (nack_pairs_from l)) <-> In s l.
Proof.
  intros Hl. rewrite (flat_map_ext_Forall packet_list packet_list_spec (fun p => np_bm p < 65536)).
  - apply pairs_cover_spec. exact Hl.
  - intros p Hp. apply packet_list_is_spec. exact Hp.
  - apply pairs_bitmaps.
Qed.
