(* SourceTheorems: the headline theorems of the properties restated PURELY on the functions translated from the Go
   source (Gen/Funcs.v, module GoSrc): GoSrc.Unmarshal, GoSrc.Marshal, GoSrc.unmarshal, GoSrc.Packet_Marshal,
   GoSrc.Packet_MarshalSize, GoSrc.Packet_DestinationSSRC, GoSrc.CompoundPacket_*, GoSrc.T_Unmarshal.
   Each is a corollary of the model-level theorem (Proofs/*.v, listed in Props/Cxx.v) and of the proved equivalences
   translated source = model (Proofs/Source*.v).  Values are described through the model's types and [src_packet];
   model functions occur only in the description of the expected result (enc_spec, q, dest_spec, compound_ok, ...).

   Hypotheses added with respect to the model-level theorems:
   - [not_compound p] where a method is called on [src_packet p] (a CompoundPacket is not a member of the sum GoSrc.Packet);
     it follows from [supported p = true] / [supported_enc p] (lemmas supported_not_compound, supported_enc_not_compound)
     and holds for everything the datagram decoder returns (Unmarshal_src_ok);
   - [packet_fits p] (TransportLayerCC deltas are int64 values): it follows from [in_D p = true] (in_D_packet_fits) and
     holds for everything the decoders return (TWCC_unmarshal_fits, Unmarshal_src_ok), so no theorem below carries it
     as a hypothesis.
   Model functions in HYPOTHESES were replaced by source-level ones as well: [src_decode_frame] (what GoSrc.unmarshal makes
   of a frame) for decode_frame in C06, [src_stable_dgram] (no decoder at all) for stable_dgram in C09. *)
From RTCP Require Import Proofs.Tactics Lib.GoSem Gen.Funcs Check.GoOpaque Proofs.GoSemFacts Proofs.HeaderProofs
  Model.Header Model.Reports Model.Sdes Model.ByeApp Model.Feedback Model.Twcc Model.Ccfb Model.Remb Model.Xr Model.Packet
  Spec.Enc Spec.XrSpec Spec.Laws Proofs.Dgram Proofs.Assemble Proofs.Guards Proofs.PacketLevel Proofs.Reencode
  Proofs.Misc Proofs.Extras Proofs.EncFeedback Proofs.Image1 Proofs.Image2 Proofs.Image3 Proofs.EncTwcc Proofs.TwccCorollaries Proofs.Total1 Proofs.Total2 Proofs.Total3
  Proofs.SourceEquiv Proofs.SrcConv Proofs.SourceSR Proofs.SourceRR Proofs.SourceSdes Proofs.SourceByeApp
  Proofs.SourceFeedback1 Proofs.SourceFeedback2 Proofs.SourceCcfb Proofs.SourceTwccEnc Proofs.SourceTwccDec
  Proofs.SourcePacket Proofs.SourceCompound Proofs.SourceCompoundClosed.
Local Open Scope N_scope.

(* ================================================================================================ *)
(* Helpers                                                                                           *)
(* ================================================================================================ *)
Lemma res_map_ok_inv {A B} (f : A -> B) (r : res A) y : res_map f r = Ok y -> exists x, r = Ok x /\ y = f x.
Proof. destruct r; cbn [res_map]; intros E; try discriminate E. injection E as <-. eauto. Qed.

Lemma src_Unmarshal_ok b l : GoSrc.Unmarshal b = Ok l -> exists ps, Unmarshal b = Ok ps /\ l = map src_packet ps.
Proof. rewrite src_Unmarshal. apply res_map_ok_inv. Qed.

Lemma src_Unmarshal_of_ok b ps : Unmarshal b = Ok ps -> GoSrc.Unmarshal b = Ok (map src_packet ps).
Proof. intros H. rewrite src_Unmarshal, H. reflexivity. Qed.

Lemma src_Unmarshal_of_err b : Unmarshal b = Err -> GoSrc.Unmarshal b = Err.
Proof. intros H. rewrite src_Unmarshal, H. reflexivity. Qed.

(* ================================================================================================ *)
(* C11 - CompoundPacket enforces the RFC 3550 compound rules exactly                                  *)
(* ================================================================================================ *)

(* no hypothesis: a nested compound (nil interface value) is rejected by the type switch like any non-RR/SDES member *)
Theorem source_C11_validate_iff_grammar : forall l,
  GoSrc.CompoundPacket_Validate (map src_packet l) = Ok tt <-> compound_ok l = true.
Proof. intros l. rewrite src_CompoundPacket_Validate. apply validate_grammar. Qed.

Theorem source_C11_validate_total : forall l,
  GoSrc.CompoundPacket_Validate (map src_packet l) <> Panic /\ GoSrc.CompoundPacket_Validate (map src_packet l) <> Fuel.
Proof. intros l. rewrite src_CompoundPacket_Validate. apply validate_not_panic. Qed.

Lemma src_Validate_eq l : GoSrc.CompoundPacket_Validate (map src_packet l) = if compound_ok l then Ok tt else Err.
Proof. rewrite src_CompoundPacket_Validate. apply validate_eq. Qed.

(* Marshal succeeds exactly when the grammar holds and rtcp.Marshal of the members succeeds (no hypothesis) *)
Theorem source_C11_marshal_iff : forall c,
  (exists b, GoSrc.CompoundPacket_Marshal (map src_packet c) = Ok b) <->
  compound_ok c = true /\ (exists b, GoSrc.Marshal (map src_packet c) = Ok b).
Proof.
  intros c. unfold GoSrc.CompoundPacket_Marshal. rewrite src_Validate_eq. destruct (compound_ok c).
  - split.
    + intros [b H]. split; [reflexivity|]. destruct (GoSrc.Marshal (map src_packet c)) as [d| | |]; try discriminate H. eauto.
    + intros [_ [b H]]. rewrite H. eauto.
  - split; [intros [b H]; discriminate H | intros [H _]; discriminate H].
Qed.

(* ... and then its output is the output of rtcp.Marshal *)
Theorem source_C11_marshal_is_Marshal : forall c, compound_ok c = true ->
  GoSrc.CompoundPacket_Marshal (map src_packet c) = GoSrc.Marshal (map src_packet c).
Proof.
  intros c H. unfold GoSrc.CompoundPacket_Marshal. rewrite src_Validate_eq, H.
  destruct (GoSrc.Marshal (map src_packet c)); reflexivity.
Qed.

(* Unmarshal (any receiver) succeeds exactly when the datagram decodes and the result satisfies the grammar *)
Theorem source_C11_unmarshal_iff : forall c0 b,
  (exists l, GoSrc.CompoundPacket_Unmarshal c0 b = Ok l) <->
  exists ps, GoSrc.Unmarshal b = Ok (map src_packet ps) /\ compound_ok ps = true.
Proof.
  intros c0 b. rewrite src_CompoundPacket_Unmarshal_closed. split.
  - intros [l H]. apply res_map_ok_inv in H as (c & H & _).
    assert (Hex : exists c, Compound_unmarshal b = Ok c) by eauto.
    apply compound_unmarshal_iff in Hex as (ps & Hl & Hok). exists ps. split; [|exact Hok].
    apply src_Unmarshal_of_ok. unfold Unmarshal. rewrite Hl. cbn [bind]. destruct ps; [discriminate Hok|reflexivity].
  - intros (ps & Hu & Hok). apply src_Unmarshal_ok in Hu as (ps' & Hu & E).
    assert (Hok' : compound_ok ps' = true).
    { apply source_C11_validate_iff_grammar. rewrite <- E. apply source_C11_validate_iff_grammar. exact Hok. }
    assert (Hex : exists c, Compound_unmarshal b = Ok c).
    { apply compound_unmarshal_iff. exists ps'. split; [|exact Hok'].
      unfold Unmarshal in Hu. destruct (unmarshal_loop (S (length b)) b) as [r| | |]; cbn [bind] in Hu; try discriminate Hu.
      destruct r; [discriminate Hu|]. exact Hu. }
    destruct Hex as [c Hc]. rewrite Hc. cbn [res_map]. eauto.
Qed.

(* what a successful CompoundPacket.Unmarshal returns: the packets rtcp.Unmarshal returns, and they satisfy the grammar *)
Theorem source_C11_unmarshal_ok : forall c0 b l, GoSrc.CompoundPacket_Unmarshal c0 b = Ok l ->
  GoSrc.Unmarshal b = Ok l /\ exists ps, l = map src_packet ps /\ compound_ok ps = true.
Proof.
  intros c0 b l H. rewrite src_CompoundPacket_Unmarshal_closed in H. apply res_map_ok_inv in H as (c & H & ->).
  unfold Compound_unmarshal in H.
  destruct (unmarshal_loop (S (length b)) b) as [ps| | |] eqn:El; cbn [bind] in H; try discriminate H.
  rewrite validate_eq in H. destruct (compound_ok ps) eqn:Eok; cbn [bind] in H; try discriminate H.
  injection H as <-. split; [|eauto].
  apply src_Unmarshal_of_ok. unfold Unmarshal. rewrite El. cbn [bind]. destruct ps; [discriminate Eok|reflexivity].
Qed.

Theorem source_C11_unmarshal_total : forall c0 b,
  GoSrc.CompoundPacket_Unmarshal c0 b <> Panic /\ GoSrc.CompoundPacket_Unmarshal c0 b <> Fuel.
Proof.
  intros c0 b. rewrite src_CompoundPacket_Unmarshal_closed. apply res_map_total. apply Compound_unmarshal_never_panics.
Qed.

(* whenever the grammar holds CNAME() returns the text of the first CNAME item, without error *)
Theorem source_C11_cname : forall c, compound_ok c = true ->
  exists t, first_cname c = Some t /\ GoSrc.CompoundPacket_CNAME (map src_packet c) = Ok t.
Proof.
  intros c H. destruct (cname_of_valid c H) as (t & Hf & Hc). exists t. split; [exact Hf|].
  rewrite src_CompoundPacket_CNAME, Hc. reflexivity.
Qed.

(* ================================================================================================ *)
(* C06 - Datagram decoding splits at length fields, is local, and is all-or-nothing                  *)
(* ================================================================================================ *)

(* the packet the per-frame factory `unmarshal` of packet.go makes of the octets f (translated source only) *)
Definition src_decode_frame (f : bytes) : res GoSrc.Packet := res_map fst (GoSrc.unmarshal f).

Lemma src_unmarshal_framed f rest : framed16 f ->
  GoSrc.unmarshal (f ++ rest) = res_map (fun p => (src_packet p, glen f)) (decode_frame f).
Proof.
  intros Hf. rewrite src_unmarshal, (unmarshal_one_framed f rest Hf), glen_len.
  destruct (decode_frame f); reflexivity.
Qed.

Lemma src_decode_frame_framed f : framed16 f -> src_decode_frame f = res_map src_packet (decode_frame f).
Proof.
  intros Hf. unfold src_decode_frame. rewrite <- (app_nil_r f) at 1. rewrite (src_unmarshal_framed f [] Hf).
  destruct (decode_frame f); reflexivity.
Qed.

Lemma mapM_src_decode_frame fs : Forall framed16 fs ->
  mapM src_decode_frame fs = res_map (map src_packet) (mapM decode_frame fs).
Proof.
  induction 1 as [|f fs Hf _ IH]; [reflexivity|]. cbn [mapM]. rewrite (src_decode_frame_framed f Hf), IH.
  destruct (decode_frame f); cbn [res_map bind]; try reflexivity.
  destruct (mapM decode_frame fs); reflexivity.
Qed.

(* locality: on a frame followed by anything the factory sees exactly the frame, and consumes exactly the frame *)
Theorem source_C06_locality : forall f rest, framed16 f ->
  GoSrc.unmarshal (f ++ rest) = (let* p := src_decode_frame f in Ok (p, glen f)).
Proof.
  intros f rest Hf. rewrite (src_unmarshal_framed f rest Hf), (src_decode_frame_framed f Hf).
  destruct (decode_frame f); reflexivity.
Qed.

(* one packet per frame, in order; any frame that fails makes the whole datagram fail *)
Theorem source_C06_one_packet_per_frame : forall fs : list bytes, Forall framed16 fs -> fs <> [] ->
  GoSrc.Unmarshal (List.concat fs) = mapM src_decode_frame fs.
Proof.
  intros fs Hf Hne. rewrite src_Unmarshal, (Unmarshal_frames fs Hf Hne), (mapM_src_decode_frame fs Hf). reflexivity.
Qed.

Theorem source_C06_concatenation : forall a b pa pb,
  GoSrc.Unmarshal a = Ok pa -> GoSrc.Unmarshal b = Ok pb -> GoSrc.Unmarshal (a ++ b) = Ok (pa ++ pb).
Proof.
  intros a b pa pb Ha Hb. apply src_Unmarshal_ok in Ha as (qa & Ha & ->). apply src_Unmarshal_ok in Hb as (qb & Hb & ->).
  rewrite <- map_app. apply src_Unmarshal_of_ok. apply Unmarshal_app; assumption.
Qed.

(* a successful decode did split its input into well-framed frames *)
Theorem source_C06_success_means_framed : forall raw l, GoSrc.Unmarshal raw = Ok l ->
  exists fs, raw = List.concat fs /\ Forall framed16 fs /\ fs <> [] /\ mapM src_decode_frame fs = Ok l.
Proof.
  intros raw l H. apply src_Unmarshal_ok in H as (ps & H & ->).
  destruct (Unmarshal_ok_split raw ps H) as (fs & E & Hf & Hne & Hm). exists fs.
  split; [exact E|]. split; [exact Hf|]. split; [exact Hne|]. rewrite (mapM_src_decode_frame fs Hf), Hm. reflexivity.
Qed.

Theorem source_C06_empty : GoSrc.Unmarshal [] = Err.
Proof. apply src_Unmarshal_of_err. exact Unmarshal_nil. Qed.

(* trailing octets that do not form a complete packet (fewer than 4, wrong version, or shorter than declared) *)
Theorem source_C06_incomplete_tail : forall fs t, Forall framed16 fs -> incomplete t ->
  GoSrc.Unmarshal (List.concat fs ++ t) = Err.
Proof. intros fs t Hf Ht. apply src_Unmarshal_of_err. exact (Unmarshal_trailing_err decode_as_total fs t Hf Ht). Qed.

(* a malformed frame at any position *)
Theorem source_C06_bad_frame_anywhere : forall fs1 f fs2 ps1, Forall framed16 (fs1 ++ f :: fs2) ->
  mapM src_decode_frame fs1 = Ok ps1 -> GoSrc.unmarshal f = Err -> GoSrc.Unmarshal (List.concat (fs1 ++ f :: fs2)) = Err.
Proof.
  intros fs1 f fs2 ps1 Hf H1 He. apply src_Unmarshal_of_err.
  pose proof (proj1 (Forall_app _ _ _) Hf) as [Hf1 Hf2]. inversion Hf2 as [|? ? Hff _]; subst.
  rewrite (mapM_src_decode_frame fs1 Hf1) in H1. apply res_map_ok_inv in H1 as (qs & H1 & _).
  apply (Unmarshal_frame_err fs1 f fs2 qs Hf H1).
  rewrite <- (app_nil_r f), (src_unmarshal_framed f [] Hff) in He. destruct (decode_frame f); try discriminate He. reflexivity.
Qed.

(* the bound of framed16 is necessary: a frame with length field 65535 passes every per-frame check and is rejected *)
Theorem source_C06_length_field_65535_refuted : exists f, framed f /\ GoSrc.Unmarshal f = Err.
Proof.
  destruct unmarshal_one_framed_refuted as (f & Hf & _ & _ & He). exists f. split; [exact Hf|].
  apply src_Unmarshal_of_err. exact He.
Qed.

(* ================================================================================================ *)
(* The side conditions of the equivalences follow from the hypotheses of the property theorems        *)
(* ================================================================================================ *)
Lemma supported_not_compound p : supported p = true -> not_compound p.
Proof. destruct p; cbn [supported not_compound]; intros H; try exact I. discriminate H. Qed.

Lemma supported_enc_not_compound p : supported_enc p -> not_compound p.
Proof. intros [H|(x & -> & _)]; [apply supported_not_compound; exact H|exact I]. Qed.

Lemma delta_ok_fits d : delta_ok d = true -> delta_fits d.
Proof.
  unfold delta_ok, delta_fits. intros H. apply andb_true_iff in H as [Hm H]. apply Z.eqb_eq in Hm.
  destruct (rd_type d =? 1).
  - apply andb_true_iff in H as [H1 H2]. apply Z.leb_le in H1, H2. lia.
  - apply andb_true_iff in H as [H H2]. apply andb_true_iff in H as [_ H1]. apply Z.leb_le in H1, H2. lia.
Qed.

Lemma forallb_delta_ok_fits ds : forallb delta_ok ds = true -> Forall delta_fits ds.
Proof.
  intros H. apply Forall_forall. intros d Hd. apply delta_ok_fits. exact (proj1 (forallb_forall _ _) H d Hd).
Qed.

(* in_D for TransportLayerCC bounds every delta (a multiple of 250 us whose quotient fits 8 / 16 bits) *)
Lemma in_D_packet_fits p : in_D p = true -> packet_fits p.
Proof.
  destruct p; cbn [in_D packet_fits]; intros H; try exact I.
  unfold D_TWCC in H. andbs H. unfold twcc_fits. apply forallb_delta_ok_fits. assumption.
Qed.

Lemma ok_pkt_src p : ok_pkt p -> not_compound p /\ packet_fits p.
Proof. intros (Hs & HD & _). split; [apply supported_not_compound|apply in_D_packet_fits]; assumption. Qed.

Lemma Forall_ok_pkt_src ps : Forall ok_pkt ps -> Forall not_compound ps /\ Forall packet_fits ps.
Proof.
  induction 1 as [|p ps Hp _ [IH1 IH2]]; [split; constructor|]. destruct (ok_pkt_src p Hp). split; constructor; assumption.
Qed.

Lemma Forall_ok_pkt_q ps : Forall ok_pkt ps -> Forall ok_pkt (map q ps).
Proof. induction 1 as [|p ps Hp _ IH]; [constructor|]. cbn [map]. constructor; [apply ok_pkt_q; exact Hp|exact IH]. Qed.

(* ================================================================================================ *)
(* C02 - Encode-then-decode returns the original packet for every well-formed value                  *)
(* ================================================================================================ *)

(* through the datagram decoder: one packet, equal to q p; re-marshalling the decoded packet reproduces the same bytes.
   (not_compound and packet_fits follow from supported / in_D: no added hypothesis) *)
Theorem source_C02_datagram_roundtrip : forall p, supported p = true -> in_D p = true -> len (enc_spec p) < 262144 ->
  exists b, GoSrc.Packet_Marshal (src_packet p) = Ok b /\ GoSrc.Unmarshal b = Ok [src_packet (q p)] /\
            GoSrc.Packet_Marshal (src_packet (q p)) = Ok b /\ q (q p) = q p.
Proof.
  intros p Hs HD Hl. destruct (marshal_unmarshal_marshal p Hs HD Hl) as (b & Hm & Hu & Hm' & Hq).
  destruct (q_facts p Hs HD) as (Hs' & HD' & _). exists b.
  split; [rewrite src_Packet_Marshal; [exact Hm|apply supported_not_compound; exact Hs|apply in_D_packet_fits; exact HD]|].
  split; [exact (src_Unmarshal_of_ok b [q p] Hu)|].
  split; [rewrite src_Packet_Marshal; [exact Hm'|apply supported_not_compound; exact Hs'|apply in_D_packet_fits; exact HD']|].
  exact Hq.
Qed.

(* through the type's own decoder, reached by dynamic dispatch on the zero value of the packet's Go type *)
Theorem source_C02_own_decoder : forall p, supported p = true -> in_D p = true ->
  exists b, GoSrc.Packet_Marshal (src_packet p) = Ok b /\
            GoSrc.Packet_Unmarshal (zero_packet (tag_of_packet p)) b = Ok (src_packet (q p)).
Proof.
  intros p Hs HD. destruct (marshal_then_unmarshal p Hs HD) as (b & Hm & Hu). exists b.
  split; [rewrite src_Packet_Marshal; [exact Hm|apply supported_not_compound; exact Hs|apply in_D_packet_fits; exact HD]|].
  rewrite src_Packet_Unmarshal_zero, Hu; [reflexivity|]. destruct p; cbn [supported] in Hs; discriminate.
Qed.

(* lists: Unmarshal(Marshal(list)) returns an equal list in order, re-marshalling reproduces the bytes *)
Theorem source_C02_lists : forall ps, ps <> [] ->
  Forall (fun p => supported p = true /\ in_D p = true /\ len (enc_spec p) < 262144) ps ->
  exists b, GoSrc.Marshal (map src_packet ps) = Ok b /\ GoSrc.Unmarshal b = Ok (map src_packet (map q ps)) /\
            GoSrc.Marshal (map src_packet (map q ps)) = Ok b.
Proof.
  intros ps Hne Hall. destruct (list_roundtrip ps Hne Hall) as (b & Hm & Hu & Hm'). change (Forall ok_pkt ps) in Hall.
  destruct (Forall_ok_pkt_src ps Hall) as [Hn Hf].
  destruct (Forall_ok_pkt_src _ (Forall_ok_pkt_q ps Hall)) as [Hn' Hf']. exists b.
  split; [rewrite src_Marshal by assumption; exact Hm|].
  split; [exact (src_Unmarshal_of_ok _ _ Hu)|]. rewrite src_Marshal by assumption. exact Hm'.
Qed.

(* ================================================================================================ *)
(* C03 - Marshal emits exactly the RFC wire layout of each packet type                                *)
(* ================================================================================================ *)
Theorem source_C03_marshal_is_rfc_layout : forall p, supported p = true -> in_D p = true ->
  GoSrc.Packet_Marshal (src_packet p) = Ok (enc_spec p).
Proof.
  intros p Hs HD. rewrite src_Packet_Marshal; [apply marshal_is_rfc; assumption|apply supported_not_compound; exact Hs|
    apply in_D_packet_fits; exact HD].
Qed.

(* ... ExtendedReport included (blocks built from typed RFC 3611 blocks) *)
Theorem source_C03_marshal_is_rfc_layout_xr : forall p, supported_enc p -> in_D p = true ->
  GoSrc.Packet_Marshal (src_packet p) = Ok (enc_spec p).
Proof.
  intros p Hs HD. rewrite src_Packet_Marshal; [apply marshal_is_rfc_enc; assumption|apply supported_enc_not_compound; exact Hs|
    apply in_D_packet_fits; exact HD].
Qed.

(* a list of packets is the concatenation of the members' RFC encodings (rtcp.Marshal and CompoundPacket.Marshal) *)
Theorem source_C03_list_is_concatenation : forall ps,
  Forall (fun p => supported p = true /\ in_D p = true /\ len (enc_spec p) < 262144) ps ->
  GoSrc.Marshal (map src_packet ps) = Ok (List.concat (map enc_spec ps)).
Proof.
  intros ps Hall. change (Forall ok_pkt ps) in Hall. destruct (Forall_ok_pkt_src ps Hall) as [Hn Hf].
  rewrite src_Marshal by assumption. apply Marshal_enc. exact Hall.
Qed.

Theorem source_C03_compound_is_concatenation : forall ps, compound_ok ps = true ->
  Forall (fun p => supported p = true /\ in_D p = true /\ len (enc_spec p) < 262144) ps ->
  GoSrc.CompoundPacket_Marshal (map src_packet ps) = Ok (List.concat (map enc_spec ps)).
Proof.
  intros ps Hok Hall. rewrite (source_C11_marshal_is_Marshal ps Hok). apply source_C03_list_is_concatenation. exact Hall.
Qed.

(* the form of the model-level theorem: decoding the concatenation gives the quantised list, which re-encodes to the same octets *)
Theorem source_C03_list_roundtrip : forall ps, ps <> [] ->
  Forall (fun p => supported p = true /\ in_D p = true /\ len (enc_spec p) < 262144) ps ->
  GoSrc.Unmarshal (List.concat (map enc_spec ps)) = Ok (map src_packet (map q ps)) /\
  GoSrc.Marshal (map src_packet (map q ps)) = Ok (List.concat (map enc_spec ps)).
Proof.
  intros ps Hne Hall. destruct (source_C02_lists ps Hne Hall) as (b & Hm & Hu & Hm').
  rewrite (source_C03_list_is_concatenation ps Hall) in Hm. injection Hm as <-. split; assumption.
Qed.

(* finding F5 on the translated source: SliceLossIndication is never written as RFC 4585 prescribes (packet type 205, not 206) *)
Theorem source_C03_sli_never_rfc : forall p, D_SLI p = true ->
  GoSrc.Packet_Marshal (src_packet (PSLI p)) <> Ok (enc_SLI p) /\
  GoSrc.Packet_Marshal (src_packet (PSLI p)) = Ok (enc_SLI_pion p).
Proof.
  intros p HD. rewrite src_Packet_Marshal by exact I. cbn [marshal_packet].
  split; [apply SLI_marshal_never_rfc; exact HD|apply SLI_marshal_pion; exact HD].
Qed.

(* ================================================================================================ *)
(* C10 - DestinationSSRC lists exactly the SSRCs the packet refers to                                 *)
(* ================================================================================================ *)

(* every member of the Packet sum, no other hypothesis: the translated DestinationSSRC returns the documented list *)
Theorem source_C10_dest : forall p, not_compound p ->
  GoSrc.Packet_DestinationSSRC (src_packet p) = Ok (zN (dest_spec p)).
Proof. intros p Hn. rewrite (src_Packet_DestinationSSRC p Hn), dest_is_spec. reflexivity. Qed.

(* CompoundPacket.DestinationSSRC: the first member's list (only the first member is consulted) *)
Theorem source_C10_dest_compound : forall l, match l with [] => True | p :: _ => not_compound p end ->
  GoSrc.CompoundPacket_DestinationSSRC (map src_packet l) = Ok (zN (dest_spec (PCompound l))).
Proof.
  intros l Hl. rewrite (src_CompoundPacket_DestinationSSRC_hd src_Packet_DestinationSSRC l Hl), dest_is_spec. reflexivity.
Qed.

(* the same list after an encode/decode round trip through the datagram decoder *)
Theorem source_C10_roundtrip_datagram : forall p, supported p = true -> in_D p = true -> len (enc_spec p) < 262144 ->
  exists b p', GoSrc.Packet_Marshal (src_packet p) = Ok b /\ GoSrc.Unmarshal b = Ok [p'] /\
               GoSrc.Packet_DestinationSSRC p' = Ok (zN (dest_spec p)) /\
               GoSrc.Packet_DestinationSSRC (src_packet p) = Ok (zN (dest_spec p)).
Proof.
  intros p Hs HD Hl. destruct (source_C02_datagram_roundtrip p Hs HD Hl) as (b & Hm & Hu & _ & _).
  destruct (q_facts p Hs HD) as (Hs' & _ & _).
  exists b, (src_packet (q p)). split; [exact Hm|]. split; [exact Hu|]. split.
  - rewrite (src_Packet_DestinationSSRC _ (supported_not_compound _ Hs')), dest_q, dest_is_spec. reflexivity.
  - apply source_C10_dest, supported_not_compound, Hs.
Qed.

(* ================================================================================================ *)
(* C05 - Marshal output is well-framed and its length equals MarshalSize                              *)
(* ================================================================================================ *)
Theorem source_C05_size : forall p b, supported_enc p -> in_D p = true -> len (enc_spec p) < 262144 ->
  GoSrc.Packet_Marshal (src_packet p) = Ok b -> GoSrc.Packet_MarshalSize (src_packet p) = Ok (glen b).
Proof.
  intros p b Hs HD Hl Hm. pose proof (supported_enc_not_compound p Hs) as Hn.
  rewrite (src_Packet_Marshal p Hn (in_D_packet_fits p HD)) in Hm.
  destruct (marshal_framed_enc p b Hs HD Hl Hm) as (E & _).
  rewrite (src_Packet_MarshalSize p Hn), glen_len, E. reflexivity.
Qed.

(* ... and it is one RTCP frame: a multiple of 4 octets, version 2, length field = words - 1, and the header that
   Header.Unmarshal (any receiver) reads back carries the packet type and count of the packet's Go type *)
Theorem source_C05_framed : forall p b, supported_enc p -> in_D p = true -> len (enc_spec p) < 262144 ->
  GoSrc.Packet_Marshal (src_packet p) = Ok b ->
  GoSrc.Packet_MarshalSize (src_packet p) = Ok (glen b) /\ (glen b mod 4 = 0)%Z /\ framed16 b /\
  exists h, (forall h0, GoSrc.Header_Unmarshal h0 b = Ok h) /\ (GoSrc.Header_Length h = glen b / 4 - 1)%Z /\
            (forall pt c, expected_pt_count p = Some (pt, c) ->
                          GoSrc.Header_Type h = Z.of_N pt /\ GoSrc.Header_Count h = Z.of_N c).
Proof.
  intros p b Hs HD Hl Hm. split; [exact (source_C05_size p b Hs HD Hl Hm)|].
  pose proof (supported_enc_not_compound p Hs) as Hn.
  rewrite (src_Packet_Marshal p Hn (in_D_packet_fits p HD)) in Hm.
  destruct (marshal_framed_enc p b Hs HD Hl Hm) as (_ & M4 & F & h & Hh & Hlen & Hpc).
  pose proof (framed16_len b F) as H4.
  split; [rewrite glen_len; lia|]. split; [exact F|]. exists (src_header h).
  split; [intros h0; rewrite src_Header_Unmarshal, Hh; reflexivity|].
  cbn [src_header GoSrc.Header_Length GoSrc.Header_Type GoSrc.Header_Count].
  split; [rewrite glen_len, Hlen; lia|].
  intros pt c Hx. destruct (Hpc pt c Hx) as [-> ->]. split; reflexivity.
Qed.

(* CompoundPacket.MarshalSize is the sum of the members' MarshalSize *)
Lemma mapM_Packet_MarshalSize l : Forall not_compound l ->
  mapM GoSrc.Packet_MarshalSize (map src_packet l) = Ok (map (fun p => Z.of_N (size_packet p)) l) /\
  fold_right Z.add 0%Z (map (fun p => Z.of_N (size_packet p)) l) = Z.of_N (fold_right N.add 0 (map size_packet l)).
Proof.
  induction 1 as [|p l Hp _ [IH1 IH2]]; [split; reflexivity|]. cbn [map mapM fold_right].
  rewrite (src_Packet_MarshalSize p Hp), IH1, IH2. cbn [bind]. split; [reflexivity|lia].
Qed.

Theorem source_C05_compound_size : forall l, Forall not_compound l ->
  GoSrc.CompoundPacket_MarshalSize (map src_packet l) =
  (let* sizes := mapM GoSrc.Packet_MarshalSize (map src_packet l) in Ok (fold_right Z.add 0%Z sizes)).
Proof.
  intros l Hl. destruct (mapM_Packet_MarshalSize l Hl) as [E1 E2].
  rewrite (src_CompoundPacket_MarshalSize_closed l Hl), compound_size, E1. cbn [bind]. rewrite E2. reflexivity.
Qed.

(* ================================================================================================ *)
(* C07 - Packets are dispatched to the right Go type; decoders reject foreign types                   *)
(* ================================================================================================ *)
Lemma registry_not_compound pt cnt : registry pt cnt <> TCompound.
Proof. rewrite <- dispatch_table_all. apply dispatch_not_compound. Qed.

(* the type switch of `unmarshal` IS the RFC registry: a frame with packet type pt and count/FMT cnt is handed, whole and
   alone, to Unmarshal of the zero value of the Go type registered for (pt, cnt) (RawPacket when none is) *)
Theorem source_C07_dispatch_is_registry : forall f rest, framed16 f ->
  GoSrc.unmarshal (f ++ rest) =
  (let* x := GoSrc.Packet_Unmarshal (zero_packet (registry (b2n (nth 1 f x00)) (b2n (nth 0 f x00) mod 32))) f in
   Ok (x, glen f)).
Proof.
  intros f rest Hf. rewrite (src_unmarshal_framed f rest Hf). destruct Hf as [(Hl & Hv & _) _].
  rewrite (decode_frame_registry f Hl Hv), src_Packet_Unmarshal_zero by apply registry_not_compound.
  destruct (decode_as _ f); reflexivity.
Qed.

(* every unregistered combination comes back as a RawPacket holding the frame's bytes verbatim *)
Theorem source_C07_unregistered_is_raw : forall f, framed16 f ->
  registry (b2n (nth 1 f x00)) (b2n (nth 0 f x00) mod 32) = TRaw ->
  GoSrc.Unmarshal f = Ok [GoSrc.Packet_RawPacket f] /\
  forall rest, GoSrc.unmarshal (f ++ rest) = Ok (GoSrc.Packet_RawPacket f, glen f).
Proof.
  intros f Hf Hr. pose proof (dispatch_raw_verbatim f (proj1 Hf) Hr) as Hd. split.
  - assert (Hfs : Forall framed16 [f]) by (constructor; [exact Hf|constructor]).
    assert (Hne : [f] <> []) by discriminate.
    pose proof (source_C06_one_packet_per_frame [f] Hfs Hne) as U. cbn [List.concat mapM] in U.
    rewrite app_nil_r in U. rewrite U. rewrite (src_decode_frame_framed f Hf), Hd. reflexivity.
  - intros rest. rewrite (src_unmarshal_framed f rest Hf), Hd. reflexivity.
Qed.

(* every supported type's Marshal output is dispatched back to that same type's Unmarshal *)
Theorem source_C07_own_output_dispatch : forall p b rest, supported p = true -> in_D p = true -> len (enc_spec p) < 262144 ->
  GoSrc.Packet_Marshal (src_packet p) = Ok b ->
  GoSrc.unmarshal (b ++ rest) = (let* x := GoSrc.Packet_Unmarshal (zero_packet (tag_of_packet p)) b in Ok (x, glen b)).
Proof.
  intros p b rest Hs HD Hl Hm. rewrite (source_C03_marshal_is_rfc_layout p Hs HD) in Hm. injection Hm as <-.
  destruct (enc_framed p Hs HD Hl) as (F & h & _ & _ & _ & _ & Hd).
  rewrite (src_unmarshal_framed _ rest F), Hd, src_Packet_Unmarshal_zero.
  - destruct (decode_as _ (enc_spec p)); reflexivity.
  - destruct p; cbn [supported] in Hs; discriminate.
Qed.

(* a type's own decoder returns an error on a packet whose (packet type, count) its guard does not let through *)
Theorem source_C07_foreign_rejected : forall t b h0 h, GoSrc.Header_Unmarshal h0 b = Ok h -> t <> TRaw -> t <> TCompound ->
  accepts t (Z.to_N (GoSrc.Header_Type h)) (Z.to_N (GoSrc.Header_Count h)) = false ->
  GoSrc.Packet_Unmarshal (zero_packet t) b = Err.
Proof.
  intros t b h0 h Hh Hr Hc Ha. rewrite src_Header_Unmarshal in Hh. apply res_map_ok_inv in Hh as (hm & Hh & ->).
  cbn [src_header GoSrc.Header_Type GoSrc.Header_Count] in Ha. rewrite !N2Z.id in Ha.
  rewrite (src_Packet_Unmarshal_zero t b Hc), (foreign_rejected t b hm Hh Hr Hc Ha). reflexivity.
Qed.

(* ... and, except for CCFB and SLI, the guard lets through exactly the registered combination of that type *)
Theorem source_C07_foreign_rejected_by_registry : forall t b h0 h, GoSrc.Header_Unmarshal h0 b = Ok h ->
  registry (Z.to_N (GoSrc.Header_Type h)) (Z.to_N (GoSrc.Header_Count h)) <> t ->
  t <> TRaw -> t <> TCompound -> t <> TCCFB -> t <> TSLI -> GoSrc.Packet_Unmarshal (zero_packet t) b = Err.
Proof.
  intros t b h0 h Hh Hne H1 H2 H3 H4. apply (source_C07_foreign_rejected t b h0 h Hh H1 H2).
  destruct (accepts t _ _) eqn:E; [|reflexivity]. apply (accepts_vs_registry_all t _ _ H1 H2 H3 H4) in E. contradiction.
Qed.

(* finding F5 on the translated source: SliceLossIndication's own output comes back as a RawPacket *)
Theorem source_C07_sli_own_output_is_raw : forall v, D_SLI v = true -> len (enc_SLI_pion v) < 262144 ->
  exists b, GoSrc.Packet_Marshal (src_packet (PSLI v)) = Ok b /\ GoSrc.Unmarshal b = Ok [GoSrc.Packet_RawPacket b].
Proof.
  intros v HD Hl. exists (enc_SLI_pion v). destruct (source_C03_sli_never_rfc v HD) as [_ Hm]. split; [exact Hm|].
  pose proof (SLI_framing_any_value v _ (SLI_marshal_pion v HD)) as (_ & M4 & _).
  assert (F : framed16 (enc_SLI_pion v)).
  { unfold enc_SLI_pion in *. rewrite len_frame' in Hl, M4. apply frame_framed16; lia. }
  apply source_C07_unregistered_is_raw; [exact F|].
  unfold enc_SLI_pion. match goal with |- context [frame false 2 205 ?body] =>
    destruct (frame_octets false 2 205 body) as (E1 & E0 & _); [lia|lia|] end.
  rewrite E1, E0. reflexivity.
Qed.

(* ================================================================================================ *)
(* What the decoders return satisfies the side conditions of the encoders' equivalences               *)
(* ================================================================================================ *)
Lemma TWCC_unmarshal_fits b t : TWCC_unmarshal b = Ok t -> twcc_fits t.
Proof.
  intros H. destruct (TWCC_unmarshal_wire b t H) as (_ & ws & tail & _ & HF). unfold twcc_fits.
  induction HF as [|w d ws ds (_ & _ & Hd) _ IH]; constructor; [apply delta_ok_fits; exact Hd|exact IH].
Qed.

Lemma decode_frame_src_ok f p : decode_frame f = Ok p -> not_compound p /\ packet_fits p.
Proof.
  intros H. destruct (decode_frame_inv f p H) as (h & _ & _ & Hd).
  destruct p; cbn [decoded_by] in Hd; cbn [not_compound packet_fits]; try (split; exact I).
  - split; [exact I|]. destruct Hd as [_ Hd]. exact (TWCC_unmarshal_fits f x Hd).
  - contradiction.
Qed.

Lemma mapM_decode_frame_src_ok fs : forall ps, mapM decode_frame fs = Ok ps -> Forall not_compound ps /\ Forall packet_fits ps.
Proof.
  induction fs as [|f fs IH]; intros ps H.
  - cbn [mapM] in H. injection H as <-. split; constructor.
  - apply mapM_cons_ok in H as (p & qs & Hp & Hq & ->). destruct (decode_frame_src_ok f p Hp) as [A B].
    destruct (IH qs Hq) as [C D]. split; constructor; assumption.
Qed.

(* everything the datagram decoder returns is a member of the Packet sum whose TransportLayerCC deltas are int64 values *)
Lemma Unmarshal_src_ok b ps : Unmarshal b = Ok ps -> Forall not_compound ps /\ Forall packet_fits ps.
Proof.
  intros H. destruct (Unmarshal_ok_split b ps H) as (fs & _ & _ & _ & Hm). exact (mapM_decode_frame_src_ok fs ps Hm).
Qed.

Lemma src_Marshal_of_decoded b ps : Unmarshal b = Ok ps -> GoSrc.Marshal (map src_packet ps) = Marshal ps.
Proof. intros H. destruct (Unmarshal_src_ok b ps H) as [A B]. apply src_Marshal; assumption. Qed.

(* ================================================================================================ *)
(* C09 - Re-encoding a decoded datagram is stable                                                     *)
(* ================================================================================================ *)

(* marshalling the packets the translated decoder returned never panics (and never runs out of fuel) *)
Theorem source_C09_marshal_of_decoded_never_panics : forall b l, GoSrc.Unmarshal b = Ok l ->
  GoSrc.Marshal l <> Panic /\ GoSrc.Marshal l <> Fuel.
Proof.
  intros b l H. apply src_Unmarshal_ok in H as (ps & H & ->). rewrite (src_Marshal_of_decoded b ps H).
  exact (datagram_reencode_no_panic b ps H).
Qed.

(* the side conditions of the property, per frame of the input (Proofs/Reencode.v: stable_pkt names, per decoded packet,
   TransportLayerCC with a consistent header, REMB unless mantissa 0 with exponent >= 58, FIR with at least one entry,
   CCFB frames up to 262137 octets); no model function: the datagram splits into frames fs and each frame/packet pair
   is stable *)
Definition src_stable_dgram (b : bytes) (ps : list packet) : Prop :=
  exists fs, b = List.concat fs /\ Forall framed16 fs /\ Forall2 stable_pkt fs ps.

Lemma src_stable_dgram_stable b ps : Unmarshal b = Ok ps -> src_stable_dgram b ps -> stable_dgram b ps.
Proof.
  intros Hu (fs & -> & Hf & Hst). exists fs. split; [reflexivity|]. split; [exact Hf|]. split; [|exact Hst].
  rewrite <- Hu. symmetry. apply Unmarshal_frames; [exact Hf|]. intros ->. cbn [List.concat] in Hu.
  rewrite Unmarshal_nil in Hu. discriminate Hu.
Qed.

(* for EVERY byte string the translated Unmarshal accepts: the result is (the image of) a list ps of model packets; whenever
   the translated Marshal succeeds on it the new bytes are accepted again by the translated Unmarshal and decode to an equal
   packet list (ExtendedReport: same sender, same typed blocks) *)
Theorem source_C09_decode_encode_decode : forall b l, GoSrc.Unmarshal b = Ok l ->
  exists ps, l = map src_packet ps /\
    (src_stable_dgram b ps -> forall b', GoSrc.Marshal l = Ok b' ->
     exists ps', GoSrc.Unmarshal b' = Ok (map src_packet ps') /\ Forall2 pkt_equiv ps ps').
Proof.
  intros b l H. apply src_Unmarshal_ok in H as (ps & H & ->). exists ps. split; [reflexivity|].
  intros Hst b' Hm. rewrite (src_Marshal_of_decoded b ps H) in Hm.
  destruct (datagram_reencode b ps H (src_stable_dgram_stable b ps H Hst) b' Hm) as (ps' & Hu' & He).
  exists ps'. split; [exact (src_Unmarshal_of_ok b' ps' Hu')|exact He].
Qed.

(* without ExtendedReport among the decoded packets the second decode returns exactly the same Go values *)
Theorem source_C09_decode_encode_decode_eq : forall b l, GoSrc.Unmarshal b = Ok l ->
  exists ps, l = map src_packet ps /\
    (src_stable_dgram b ps -> Forall (fun p => forall x, p <> PXR x) ps ->
     forall b', GoSrc.Marshal l = Ok b' -> GoSrc.Unmarshal b' = Ok l).
Proof.
  intros b l H. destruct (source_C09_decode_encode_decode b l H) as (ps & -> & Hre). exists ps. split; [reflexivity|].
  intros Hst Hx b' Hm. destruct (Hre Hst b' Hm) as (ps' & Hu' & He). rewrite Hu'. f_equal. f_equal.
  clear - He Hx. induction He as [|p p' ps ps' Hp _ IH]; [reflexivity|].
  inversion Hx as [|? ? Hx1 Hx2]; subst. rewrite (pkt_equiv_eq p p' Hx1 Hp), (IH Hx2). reflexivity.
Qed.

(* SliceLossIndication never comes out of the translated datagram decoder (finding F5) *)
Theorem source_C09_datagram_never_yields_sli : forall b l x, GoSrc.Unmarshal b = Ok l ->
  ~ In (GoSrc.Packet_SliceLossIndication x) l.
Proof.
  intros b l x H Hin. apply src_Unmarshal_ok in H as (ps & H & ->).
  apply in_map_iff in Hin as (p & Hp & Hin).
  destruct (Unmarshal_ok_split b ps H) as (fs & _ & _ & _ & Hm).
  assert (Hall : forall fs ps, mapM decode_frame fs = Ok ps -> forall p, In p ps -> exists f, decode_frame f = Ok p).
  { clear. induction fs as [|f fs IH]; intros ps H p Hin.
    - cbn [mapM] in H. injection H as <-. destruct Hin.
    - apply mapM_cons_ok in H as (p0 & qs & Hp & Hq & ->). destruct Hin as [<-|Hin]; [eauto|exact (IH qs Hq p Hin)]. }
  destruct (Hall fs ps Hm p Hin) as [f Hf].
  destruct p; cbn [src_packet] in Hp; try discriminate Hp. exact (decode_frame_never_sli f _ Hf).
Qed.

(* ================================================================================================ *)
(* C01 - Decoding arbitrary bytes never panics, hangs or over-allocates                               *)
(* For EVERY byte string and every translated decode entry point the outcome is neither Panic (an index or slice          *)
(* expression out of range) nor Fuel (a translated loop that did not finish within the iterations its caller allots).      *)
(* Receivers: any receiver where the equivalence holds for any receiver, else the zero value (what new(T) gives).         *)
(* ================================================================================================ *)
Ltac src_total E T := intros; rewrite E; apply Assemble.res_map_total; apply T.

Theorem source_C01_Unmarshal_total : forall b : bytes, GoSrc.Unmarshal b <> Panic /\ GoSrc.Unmarshal b <> Fuel.
Proof. exact src_Unmarshal_total. Qed.

(* the per-frame factory *)
Theorem source_C01_unmarshal_total : forall b : bytes, GoSrc.unmarshal b <> Panic /\ GoSrc.unmarshal b <> Fuel.
Proof. src_total src_unmarshal (unmarshal_one_total decode_as_total). Qed.

Theorem source_C01_CompoundPacket_total : forall c0 (b : bytes),
  GoSrc.CompoundPacket_Unmarshal c0 b <> Panic /\ GoSrc.CompoundPacket_Unmarshal c0 b <> Fuel.
Proof. exact source_C11_unmarshal_total. Qed.

Theorem source_C01_Header_total : forall h0 (b : bytes),
  GoSrc.Header_Unmarshal h0 b <> Panic /\ GoSrc.Header_Unmarshal h0 b <> Fuel.
Proof. src_total src_Header_Unmarshal Header_unmarshal_total. Qed.

Theorem source_C01_ReceptionReport_total : forall r0 (b : bytes),
  GoSrc.ReceptionReport_Unmarshal r0 b <> Panic /\ GoSrc.ReceptionReport_Unmarshal r0 b <> Fuel.
Proof. src_total src_ReceptionReport_Unmarshal RRep_unmarshal_total. Qed.

Theorem source_C01_SenderReport_total : forall b : bytes,
  GoSrc.SenderReport_Unmarshal GoSrc.zero_SenderReport b <> Panic /\
  GoSrc.SenderReport_Unmarshal GoSrc.zero_SenderReport b <> Fuel.
Proof. src_total src_SenderReport_Unmarshal SR_unmarshal_total. Qed.

Theorem source_C01_ReceiverReport_total : forall b : bytes,
  GoSrc.ReceiverReport_Unmarshal GoSrc.zero_ReceiverReport b <> Panic /\
  GoSrc.ReceiverReport_Unmarshal GoSrc.zero_ReceiverReport b <> Fuel.
Proof. src_total src_ReceiverReport_Unmarshal RR_unmarshal_total. Qed.

Theorem source_C01_SourceDescription_total : forall b : bytes,
  GoSrc.SourceDescription_Unmarshal GoSrc.zero_SourceDescription b <> Panic /\
  GoSrc.SourceDescription_Unmarshal GoSrc.zero_SourceDescription b <> Fuel.
Proof. exact src_SourceDescription_Unmarshal_total. Qed.

Theorem source_C01_SourceDescriptionChunk_total : forall s0 (b : bytes),
  GoSrc.SourceDescriptionChunk_Unmarshal s0 b <> Panic /\ GoSrc.SourceDescriptionChunk_Unmarshal s0 b <> Fuel.
Proof. exact src_SourceDescriptionChunk_Unmarshal_total. Qed.

Theorem source_C01_SourceDescriptionItem_total : forall s0 (b : bytes),
  GoSrc.SourceDescriptionItem_Unmarshal s0 b <> Panic /\ GoSrc.SourceDescriptionItem_Unmarshal s0 b <> Fuel.
Proof. exact src_SourceDescriptionItem_Unmarshal_total. Qed.

Theorem source_C01_Goodbye_total : forall b : bytes,
  GoSrc.Goodbye_Unmarshal GoSrc.zero_Goodbye b <> Panic /\ GoSrc.Goodbye_Unmarshal GoSrc.zero_Goodbye b <> Fuel.
Proof. src_total src_Goodbye_Unmarshal BYE_unmarshal_total. Qed.

Theorem source_C01_ApplicationDefined_total : forall a0 (b : bytes),
  GoSrc.ApplicationDefined_Unmarshal a0 b <> Panic /\ GoSrc.ApplicationDefined_Unmarshal a0 b <> Fuel.
Proof. src_total src_ApplicationDefined_Unmarshal_gen APP_unmarshal_total. Qed.

Theorem source_C01_TransportLayerNack_total : forall p0 (b : bytes),
  GoSrc.TransportLayerNack_Unmarshal p0 b <> Panic /\ GoSrc.TransportLayerNack_Unmarshal p0 b <> Fuel.
Proof. src_total src_TransportLayerNack_Unmarshal_gen NACK_unmarshal_total. Qed.

Theorem source_C01_RapidResynchronizationRequest_total : forall p0 (b : bytes),
  GoSrc.RapidResynchronizationRequest_Unmarshal p0 b <> Panic /\ GoSrc.RapidResynchronizationRequest_Unmarshal p0 b <> Fuel.
Proof. src_total src_RapidResynchronizationRequest_Unmarshal_gen RRR_unmarshal_total. Qed.

Theorem source_C01_PictureLossIndication_total : forall p0 (b : bytes),
  GoSrc.PictureLossIndication_Unmarshal p0 b <> Panic /\ GoSrc.PictureLossIndication_Unmarshal p0 b <> Fuel.
Proof. src_total src_PictureLossIndication_Unmarshal_gen PLI_unmarshal_total. Qed.

Theorem source_C01_SliceLossIndication_total : forall p0 (b : bytes),
  GoSrc.SliceLossIndication_Unmarshal p0 b <> Panic /\ GoSrc.SliceLossIndication_Unmarshal p0 b <> Fuel.
Proof. exact src_SliceLossIndication_Unmarshal_total. Qed.

Theorem source_C01_FullIntraRequest_total : forall p0 (b : bytes),
  GoSrc.FullIntraRequest_Unmarshal p0 b <> Panic /\ GoSrc.FullIntraRequest_Unmarshal p0 b <> Fuel.
Proof. exact src_FullIntraRequest_Unmarshal_total. Qed.

Theorem source_C01_TransportLayerCC_total : forall b : bytes,
  GoSrc.TransportLayerCC_Unmarshal GoSrc.zero_TransportLayerCC b <> Panic /\
  GoSrc.TransportLayerCC_Unmarshal GoSrc.zero_TransportLayerCC b <> Fuel.
Proof. src_total src_TransportLayerCC_Unmarshal TWCC_unmarshal_total. Qed.

Theorem source_C01_RunLengthChunk_total : forall r0 (b : bytes),
  GoSrc.RunLengthChunk_Unmarshal r0 b <> Panic /\ GoSrc.RunLengthChunk_Unmarshal r0 b <> Fuel.
Proof. src_total src_RunLengthChunk_Unmarshal RLC_unmarshal_total. Qed.

Theorem source_C01_StatusVectorChunk_total : forall r0 (b : bytes),
  GoSrc.StatusVectorChunk_Unmarshal r0 b <> Panic /\ GoSrc.StatusVectorChunk_Unmarshal r0 b <> Fuel.
Proof. src_total src_StatusVectorChunk_Unmarshal_gen SVC_unmarshal_total. Qed.

Theorem source_C01_RecvDelta_total : forall r0 (b : bytes),
  GoSrc.RecvDelta_Unmarshal r0 b <> Panic /\ GoSrc.RecvDelta_Unmarshal r0 b <> Fuel.
Proof. src_total src_RecvDelta_Unmarshal RecvDelta_unmarshal_total. Qed.

Theorem source_C01_CCFeedbackReport_total : forall p0 (b : bytes),
  GoSrc.CCFeedbackReport_Unmarshal p0 b <> Panic /\ GoSrc.CCFeedbackReport_Unmarshal p0 b <> Fuel.
Proof. src_total src_CCFeedbackReport_Unmarshal_gen CCFB_unmarshal_total. Qed.

Theorem source_C01_CCFeedbackReportBlock_total : forall b : bytes,
  GoSrc.CCFeedbackReportBlock_unmarshal GoSrc.zero_CCFeedbackReportBlock b <> Panic /\
  GoSrc.CCFeedbackReportBlock_unmarshal GoSrc.zero_CCFeedbackReportBlock b <> Fuel.
Proof. src_total src_CCFeedbackReportBlock_unmarshal CCBlock_unmarshal_total. Qed.

Theorem source_C01_CCFeedbackMetricBlock_total : forall m0 (b : bytes),
  GoSrc.CCFeedbackMetricBlock_unmarshal m0 b <> Panic /\ GoSrc.CCFeedbackMetricBlock_unmarshal m0 b <> Fuel.
Proof. src_total src_CCFeedbackMetricBlock_unmarshal CCMetric_unmarshal_total. Qed.

Theorem source_C01_RawPacket_total : forall r0 (b : bytes),
  GoSrc.RawPacket_Unmarshal r0 b <> Panic /\ GoSrc.RawPacket_Unmarshal r0 b <> Fuel.
Proof. exact src_RawPacket_Unmarshal_total. Qed.

(* dynamic dispatch: Unmarshal on the zero value of any member type of the Packet sum (ExtendedReport and REMB included,
   whose decoders are the model's own: Check/GoOpaque.v) *)
Theorem source_C01_Packet_Unmarshal_total : forall t (b : bytes), t <> TCompound ->
  GoSrc.Packet_Unmarshal (zero_packet t) b <> Panic /\ GoSrc.Packet_Unmarshal (zero_packet t) b <> Fuel.
Proof. intros t b Ht. rewrite (src_Packet_Unmarshal_zero t b Ht). apply Assemble.res_map_total, decode_as_total. Qed.

(* ---- allocation: the elements the returned packets hold are bounded linearly in the input length ---- *)
Theorem source_C01_datagram_alloc : forall b l, GoSrc.Unmarshal b = Ok l ->
  exists ps, l = map src_packet ps /\
    fold_right (fun p acc => elems p + acc) 0 ps <= (65535 + 13) * N.of_nat (List.length l) + 2 * len b /\
    (4 * glenl l <= glen b)%Z /\
    fold_right (fun p acc => elems p + acc) 0 ps <= 16388 * len b.
Proof.
  intros b l H. apply src_Unmarshal_ok in H as (ps & H & ->). exists ps. split; [reflexivity|].
  destruct (Unmarshal_alloc b ps H) as [A B]. pose proof (Unmarshal_alloc_linear b ps H) as C.
  rewrite map_length. split; [exact A|]. split; [|exact C]. unfold glenl. rewrite map_length, glen_len. lia.
Qed.

(* TransportLayerCC: chunks bounded by the input, deltas by the 16-bit status count plus one vector chunk's surplus *)
Theorem source_C01_TransportLayerCC_alloc : forall b t, GoSrc.TransportLayerCC_Unmarshal GoSrc.zero_TransportLayerCC b = Ok t ->
  (20 + 2 * glenl (GoSrc.TransportLayerCC_PacketChunks t) <= glen b /\
   glenl (GoSrc.TransportLayerCC_RecvDeltas t) <= GoSrc.TransportLayerCC_PacketStatusCount t + 13 /\
   GoSrc.TransportLayerCC_PacketStatusCount t <= 65535)%Z.
Proof.
  intros b t H. rewrite src_TransportLayerCC_Unmarshal in H. apply res_map_ok_inv in H as (m & H & ->).
  destruct (TWCC_unmarshal_alloc_bound_sharp b m H) as (A & B & C).
  cbn [src_twcc GoSrc.TransportLayerCC_PacketChunks GoSrc.TransportLayerCC_RecvDeltas GoSrc.TransportLayerCC_PacketStatusCount].
  unfold glenl. rewrite !map_length, glen_len. lia.
Qed.

(* ================================================================================================ *)
(* C13 - Decoded TWCC feedback is internally consistent and chunking-invariant                        *)
(* Every statement is about a value t' accepted by the TRANSLATED decoder on the zero receiver; by the equivalence t' is    *)
(* [src_twcc t] for a model value t (its fields as Go integers, its chunks as the PacketStatusChunk sum), about which the   *)
(* fact is stated.                                                                                                         *)
(* ================================================================================================ *)
Lemma src_twcc_decoded b t' : GoSrc.TransportLayerCC_Unmarshal GoSrc.zero_TransportLayerCC b = Ok t' ->
  exists t, TWCC_unmarshal b = Ok t /\ t' = src_twcc t.
Proof. rewrite src_TransportLayerCC_Unmarshal. apply res_map_ok_inv. Qed.

(* the deltas correspond one-to-one and in order to the statuses marked received in the chunks (run lengths clipped to the
   status count), each with the size class its symbol announces; second form: on the Go fields themselves *)
Theorem source_C13_deltas_match_statuses : forall b t',
  GoSrc.TransportLayerCC_Unmarshal GoSrc.zero_TransportLayerCC b = Ok t' ->
  exists t, t' = src_twcc t /\
    map rd_type (tw_deltas t) = filter is_recv (expand (tw_chunks t) (tw_count t)) /\
    map GoSrc.RecvDelta_Type (GoSrc.TransportLayerCC_RecvDeltas t') =
    zN (filter is_recv (expand (tw_chunks t) (tw_count t))).
Proof.
  intros b t' H. destruct (src_twcc_decoded b t' H) as (t & Hu & ->). exists t. split; [reflexivity|].
  pose proof (TWCC_unmarshal_delta_types b t Hu) as E. split; [exact E|].
  cbn [src_twcc GoSrc.TransportLayerCC_RecvDeltas]. rewrite <- E. unfold zN. rewrite !map_map. reflexivity.
Qed.

Lemma Forall2_weaken {A B} (P Q : A -> B -> Prop) : (forall a b, P a b -> Q a b) ->
  forall l1 l2, Forall2 P l1 l2 -> Forall2 Q l1 l2.
Proof. intros HPQ l1 l2 H. induction H; constructor; auto. Qed.

(* the chunk words sit right after the 20 fixed octets, the deltas follow them; every delta is what the translated
   RecvDelta.Unmarshal (any receiver) makes of its own 1 or 2 wire octets *)
Theorem source_C13_deltas_follow_chunks_on_the_wire : forall b t',
  GoSrc.TransportLayerCC_Unmarshal GoSrc.zero_TransportLayerCC b = Ok t' ->
  exists t, t' = src_twcc t /\ forallb Enc.chunk_ok (tw_chunks t) = true /\
  exists ws tail, skipn 20 b = enc_chunks (tw_chunks t) ++ List.concat ws ++ tail /\
    Forall2 (fun w d => (forall r0, GoSrc.RecvDelta_Unmarshal r0 w = Ok (src_delta d)) /\ enc_delta d = w /\ delta_ok d = true)
            ws (tw_deltas t).
Proof.
  intros b t' H. destruct (src_twcc_decoded b t' H) as (t & Hu & ->). exists t. split; [reflexivity|].
  destruct (TWCC_unmarshal_wire b t Hu) as (Hc & ws & tail & Hs & HF). split; [exact Hc|]. exists ws, tail. split; [exact Hs|].
  revert HF. apply Forall2_weaken. intros w d (Hd & He & Hok). split; [|split; assumption].
  intros r0. rewrite src_RecvDelta_Unmarshal, Hd. reflexivity.
Qed.

(* 250 us times the (signed) wire value *)
Theorem source_C13_small_delta_value : forall r0 b0,
  GoSrc.RecvDelta_Unmarshal r0 [b0] = Ok (GoSrc.mkRecvDelta 1 (250 * Z.of_N (b2n b0))).
Proof. intros r0 b0. rewrite src_RecvDelta_Unmarshal, EncTwcc.RecvDelta_unmarshal_small. reflexivity. Qed.

Theorem source_C13_large_delta_value : forall r0 b0 b1,
  GoSrc.RecvDelta_Unmarshal r0 [b0; b1] = Ok (GoSrc.mkRecvDelta 2 (250 * int16_of (b2n b0 * 256 + b2n b1))).
Proof. intros r0 b0 b1. rewrite src_RecvDelta_Unmarshal, EncTwcc.RecvDelta_unmarshal_large. reflexivity. Qed.

(* all chunks and deltas lie inside the packet's declared length, which lies inside the input *)
Theorem source_C13_inside_declared_length : forall b t',
  GoSrc.TransportLayerCC_Unmarshal GoSrc.zero_TransportLayerCC b = Ok t' ->
  (GoSrc.Header_Length (GoSrc.TransportLayerCC_Header t') < 16383)%Z ->
  exists t, t' = src_twcc t /\
    20 + 2 * nl (tw_chunks t) + deltas_octets (tw_deltas t) <= 4 * (h_len (tw_hdr t) + 1) <= len b /\
    (20 + 2 * glenl (GoSrc.TransportLayerCC_PacketChunks t') + Z.of_N (deltas_octets (tw_deltas t))
       <= 4 * (GoSrc.Header_Length (GoSrc.TransportLayerCC_Header t') + 1) <= glen b)%Z.
Proof.
  intros b t' H Hlen. destruct (src_twcc_decoded b t' H) as (t & Hu & ->). exists t. split; [reflexivity|].
  cbn [src_twcc GoSrc.TransportLayerCC_Header GoSrc.TransportLayerCC_PacketChunks src_header GoSrc.Header_Length] in *.
  assert (Hl : h_len (tw_hdr t) < 16383) by lia.
  pose proof (TWCC_unmarshal_bound_nowrap b t Hu Hl) as [A B]. split; [split; assumption|].
  unfold glenl. rewrite map_length, glen_len. unfold nl in A. lia.
Qed.

(* ... and for length fields >= 16383, where Go's uint16 product 4*(Length+1) wraps, inside the wrapped total *)
Theorem source_C13_inside_declared_length_u16 : forall b t',
  GoSrc.TransportLayerCC_Unmarshal GoSrc.zero_TransportLayerCC b = Ok t' ->
  exists t, t' = src_twcc t /\
    twcc_exact_len t <= u16 (4 * u16 (h_len (tw_hdr t) + 1)) /\ u16 (4 * u16 (h_len (tw_hdr t) + 1)) <= len b.
Proof.
  intros b t' H. destruct (src_twcc_decoded b t' H) as (t & Hu & ->). exists t. split; [reflexivity|].
  exact (TWCC_unmarshal_bound b t Hu).
Qed.

(* any two valid chunkings of the same status sequence (with the same deltas): the translated Marshal writes them, and the
   translated Unmarshal reads both back to the same statuses and the same deltas *)
Theorem source_C13_chunking_invariant : forall t1 t2, D_TWCC t1 = true -> D_TWCC t2 = true ->
  statuses t1 = statuses t2 -> tw_deltas t1 = tw_deltas t2 ->
  exists b1 b2 d1 d2,
    GoSrc.TransportLayerCC_Marshal (src_twcc t1) = Ok b1 /\ GoSrc.TransportLayerCC_Marshal (src_twcc t2) = Ok b2 /\
    GoSrc.TransportLayerCC_Unmarshal GoSrc.zero_TransportLayerCC b1 = Ok (src_twcc d1) /\
    GoSrc.TransportLayerCC_Unmarshal GoSrc.zero_TransportLayerCC b2 = Ok (src_twcc d2) /\
    statuses d1 = statuses d2 /\ tw_deltas d1 = tw_deltas d2 /\
    GoSrc.TransportLayerCC_RecvDeltas (src_twcc d1) = GoSrc.TransportLayerCC_RecvDeltas (src_twcc d2).
Proof.
  intros t1 t2 D1 D2 Hs Hd. exists (enc_TWCC t1), (enc_TWCC t2), t1, t2.
  split; [rewrite src_TransportLayerCC_Marshal by (apply (in_D_packet_fits (PTWCC t1)); exact D1); apply TWCC_marshal_spec; exact D1|].
  split; [rewrite src_TransportLayerCC_Marshal by (apply (in_D_packet_fits (PTWCC t2)); exact D2); apply TWCC_marshal_spec; exact D2|].
  split; [rewrite src_TransportLayerCC_Unmarshal, (TWCC_unmarshal_enc t1 D1); reflexivity|].
  split; [rewrite src_TransportLayerCC_Unmarshal, (TWCC_unmarshal_enc t2 D2); reflexivity|].
  split; [exact Hs|]. split; [exact Hd|]. cbn [src_twcc GoSrc.TransportLayerCC_RecvDeltas]. rewrite Hd. reflexivity.
Qed.

(* ================================================================================================ *)
(* C09, per packet type: whatever a translated decoder returns on ARBITRARY bytes, if the translated Marshal succeeds     *)
(* on it the new bytes decode (translated decoder, zero receiver) to the same Go value                                    *)
(* ================================================================================================ *)
Section ReencodeTransfer.
  Context {M S : Type} (conv : M -> S) (dec : bytes -> res M) (enc : M -> res bytes)
          (sdec : bytes -> res S) (senc : S -> res bytes).
  Hypothesis Hdec : forall b, sdec b = res_map conv (dec b).
  Hypothesis Henc : forall b m, dec b = Ok m -> senc (conv m) = enc m.

  (* P: the side condition of the model-level theorem, as a predicate on the input bytes and the decoded model value *)
  Lemma reencode_transfer (P : bytes -> M -> Prop) :
    (forall b m, dec b = Ok m -> P b m -> forall b', enc m = Ok b' -> dec b' = Ok m) ->
    forall b s, sdec b = Ok s -> exists m, s = conv m /\ (P b m -> forall b', senc s = Ok b' -> sdec b' = Ok s).
  Proof using Hdec Henc.
    intros Hre b s Hs. rewrite Hdec in Hs. apply res_map_ok_inv in Hs as (m & Hm & ->). exists m. split; [reflexivity|].
    intros HP b' Hb'. rewrite (Henc b m Hm) in Hb'. rewrite Hdec, (Hre b m Hm HP b' Hb'). reflexivity.
  Qed.
End ReencodeTransfer.

Theorem source_C09_SenderReport : forall b s, GoSrc.SenderReport_Unmarshal GoSrc.zero_SenderReport b = Ok s ->
  (glen b mod 4 = 0)%Z -> forall b', GoSrc.SenderReport_Marshal s = Ok b' ->
  GoSrc.SenderReport_Unmarshal GoSrc.zero_SenderReport b' = Ok s.
Proof.
  intros b s Hs H4.
  destruct (reencode_transfer src_sr SR_unmarshal SR_marshal _ _ src_SenderReport_Unmarshal
              (fun _ m _ => src_SenderReport_Marshal m) (fun b _ => len b mod 4 = 0)
              (fun b m H P => SR_dec_enc_dec b m H P) b s Hs) as (m & _ & H).
  apply H. rewrite glen_len in H4. lia.
Qed.

Theorem source_C09_ReceiverReport : forall b s, GoSrc.ReceiverReport_Unmarshal GoSrc.zero_ReceiverReport b = Ok s ->
  (glen b mod 4 = 0)%Z -> forall b', GoSrc.ReceiverReport_Marshal s = Ok b' ->
  GoSrc.ReceiverReport_Unmarshal GoSrc.zero_ReceiverReport b' = Ok s.
Proof.
  intros b s Hs H4.
  destruct (reencode_transfer src_rr RR_unmarshal RR_marshal _ _ src_ReceiverReport_Unmarshal
              (fun _ m _ => src_ReceiverReport_Marshal m) (fun b _ => len b mod 4 = 0)
              (fun b m H P => RR_dec_enc_dec b m H P) b s Hs) as (m & _ & H).
  apply H. rewrite glen_len in H4. lia.
Qed.

Theorem source_C09_SourceDescription : forall b s, GoSrc.SourceDescription_Unmarshal GoSrc.zero_SourceDescription b = Ok s ->
  forall b', GoSrc.SourceDescription_Marshal s = Ok b' ->
  GoSrc.SourceDescription_Unmarshal GoSrc.zero_SourceDescription b' = Ok s.
Proof.
  intros b s Hs.
  destruct (reencode_transfer src_sdes SDES_unmarshal SDES_marshal _ _ src_SourceDescription_Unmarshal
              (fun _ m _ => src_SourceDescription_Marshal m) (fun _ _ => True)
              (fun b m H _ => SDES_dec_enc_dec b m H) b s Hs) as (m & _ & H).
  apply H. exact I.
Qed.

Theorem source_C09_Goodbye : forall b s, GoSrc.Goodbye_Unmarshal GoSrc.zero_Goodbye b = Ok s ->
  forall b', GoSrc.Goodbye_Marshal s = Ok b' -> GoSrc.Goodbye_Unmarshal GoSrc.zero_Goodbye b' = Ok s.
Proof.
  intros b s Hs.
  destruct (reencode_transfer src_bye BYE_unmarshal BYE_marshal _ _ src_Goodbye_Unmarshal
              (fun _ m _ => src_Goodbye_Marshal m) (fun _ _ => True)
              (fun b m H _ => BYE_dec_enc_dec b m H) b s Hs) as (m & _ & H).
  apply H. exact I.
Qed.

Theorem source_C09_ApplicationDefined : forall b s,
  GoSrc.ApplicationDefined_Unmarshal GoSrc.zero_ApplicationDefined b = Ok s ->
  forall b', GoSrc.ApplicationDefined_Marshal s = Ok b' ->
  GoSrc.ApplicationDefined_Unmarshal GoSrc.zero_ApplicationDefined b' = Ok s.
Proof.
  intros b s Hs.
  destruct (reencode_transfer src_app APP_unmarshal APP_marshal _ _ src_ApplicationDefined_Unmarshal
              (fun _ m _ => src_ApplicationDefined_Marshal m) (fun _ _ => True)
              (fun b m H _ => APP_dec_enc_dec b m H) b s Hs) as (m & _ & H).
  apply H. exact I.
Qed.

Theorem source_C09_PictureLossIndication : forall b s,
  GoSrc.PictureLossIndication_Unmarshal GoSrc.zero_PictureLossIndication b = Ok s ->
  forall b', GoSrc.PictureLossIndication_Marshal s = Ok b' ->
  GoSrc.PictureLossIndication_Unmarshal GoSrc.zero_PictureLossIndication b' = Ok s.
Proof.
  intros b s Hs.
  destruct (reencode_transfer src_pli PLI_unmarshal PLI_marshal _ _ src_PictureLossIndication_Unmarshal
              (fun _ m _ => src_PictureLossIndication_Marshal m) (fun _ _ => True)
              (fun b m H _ => PLI_dec_enc_dec b m H) b s Hs) as (m & _ & H).
  apply H. exact I.
Qed.

Theorem source_C09_RapidResynchronizationRequest : forall b s,
  GoSrc.RapidResynchronizationRequest_Unmarshal GoSrc.zero_RapidResynchronizationRequest b = Ok s ->
  forall b', GoSrc.RapidResynchronizationRequest_Marshal s = Ok b' ->
  GoSrc.RapidResynchronizationRequest_Unmarshal GoSrc.zero_RapidResynchronizationRequest b' = Ok s.
Proof.
  intros b s Hs.
  destruct (reencode_transfer src_rrr RRR_unmarshal RRR_marshal _ _ src_RapidResynchronizationRequest_Unmarshal
              (fun _ m _ => src_RapidResynchronizationRequest_Marshal m) (fun _ _ => True)
              (fun b m H _ => RRR_dec_enc_dec b m H) b s Hs) as (m & _ & H).
  apply H. exact I.
Qed.

Theorem source_C09_TransportLayerNack : forall b s,
  GoSrc.TransportLayerNack_Unmarshal GoSrc.zero_TransportLayerNack b = Ok s ->
  forall b', GoSrc.TransportLayerNack_Marshal s = Ok b' ->
  GoSrc.TransportLayerNack_Unmarshal GoSrc.zero_TransportLayerNack b' = Ok s.
Proof.
  intros b s Hs.
  destruct (reencode_transfer src_nack NACK_unmarshal NACK_marshal _ _ src_TransportLayerNack_Unmarshal
              (fun _ m _ => src_TransportLayerNack_Marshal m) (fun _ _ => True)
              (fun b m H _ => NACK_dec_enc_dec b m H) b s Hs) as (m & _ & H).
  apply H. exact I.
Qed.

Theorem source_C09_SliceLossIndication : forall b s,
  GoSrc.SliceLossIndication_Unmarshal GoSrc.zero_SliceLossIndication b = Ok s ->
  forall b', GoSrc.SliceLossIndication_Marshal s = Ok b' ->
  GoSrc.SliceLossIndication_Unmarshal GoSrc.zero_SliceLossIndication b' = Ok s.
Proof.
  intros b s Hs.
  destruct (reencode_transfer src_sli SLI_unmarshal SLI_marshal _ _ src_SliceLossIndication_Unmarshal
              (fun _ m _ => src_SliceLossIndication_Marshal m) (fun _ _ => True)
              (fun b m H _ => SLI_dec_enc_dec b m H) b s Hs) as (m & _ & H).
  apply H. exact I.
Qed.

(* FIR: with at least one entry (finding F20: a zero-entry FIR re-encodes to bytes the decoder rejects) *)
Theorem source_C09_FullIntraRequest : forall b s,
  GoSrc.FullIntraRequest_Unmarshal GoSrc.zero_FullIntraRequest b = Ok s -> (1 <= glenl (GoSrc.FullIntraRequest_FIR s))%Z ->
  forall b', GoSrc.FullIntraRequest_Marshal s = Ok b' ->
  GoSrc.FullIntraRequest_Unmarshal GoSrc.zero_FullIntraRequest b' = Ok s.
Proof.
  intros b s Hs H1.
  destruct (reencode_transfer src_fir FIR_unmarshal FIR_marshal _ _ src_FullIntraRequest_Unmarshal
              (fun _ m _ => src_FullIntraRequest_Marshal m) (fun _ m => 1 <= nl (fir_entries m))
              (fun b m H P => FIR_dec_enc_dec b m H P) b s Hs) as (m & -> & H).
  apply H. cbn [src_fir GoSrc.FullIntraRequest_FIR] in H1. unfold glenl in H1. rewrite map_length in H1. unfold nl. lia.
Qed.

Theorem source_C09_fir_zero_entries_refuted : exists b s b',
  GoSrc.FullIntraRequest_Unmarshal GoSrc.zero_FullIntraRequest b = Ok s /\ GoSrc.FullIntraRequest_Marshal s = Ok b' /\
  GoSrc.FullIntraRequest_Unmarshal GoSrc.zero_FullIntraRequest b' = Err.
Proof.
  destruct FIR_dec_enc_dec_refuted as (b & p & b' & Hu & Hm & He). exists b, (src_fir p), b'.
  rewrite !src_FullIntraRequest_Unmarshal, src_FullIntraRequest_Marshal, Hu, Hm, He. repeat split; reflexivity.
Qed.

(* CCFB: inputs up to 262137 octets (finding F18) *)
Theorem source_C09_CCFeedbackReport : forall b s,
  GoSrc.CCFeedbackReport_Unmarshal GoSrc.zero_CCFeedbackReport b = Ok s -> (glen b <= 262137)%Z ->
  forall b', GoSrc.CCFeedbackReport_Marshal s = Ok b' ->
  GoSrc.CCFeedbackReport_Unmarshal GoSrc.zero_CCFeedbackReport b' = Ok s.
Proof.
  intros b s Hs Hl.
  destruct (reencode_transfer src_ccfb CCFB_unmarshal CCFB_marshal _ _ src_CCFeedbackReport_Unmarshal
              (fun _ m _ => src_CCFeedbackReport_Marshal m) (fun b _ => len b <= 262137)
              (fun b m H P => CCFB_dec_enc_dec b m H P) b s Hs) as (m & _ & H).
  apply H. rewrite glen_len in Hl. lia.
Qed.

(* TransportLayerCC: whenever the decoded header is consistent with the content; the decoded deltas are int64 values, so the
   Marshal equivalence needs no hypothesis here *)
Theorem source_C09_TransportLayerCC : forall b s,
  GoSrc.TransportLayerCC_Unmarshal GoSrc.zero_TransportLayerCC b = Ok s ->
  exists t, s = src_twcc t /\
    (twcc_hdr_consistent t = true -> forall b', GoSrc.TransportLayerCC_Marshal s = Ok b' ->
     GoSrc.TransportLayerCC_Unmarshal GoSrc.zero_TransportLayerCC b' = Ok s).
Proof.
  intros b s Hs.
  exact (reencode_transfer src_twcc TWCC_unmarshal TWCC_marshal _ _ src_TransportLayerCC_Unmarshal
           (fun b m H => src_TransportLayerCC_Marshal m (TWCC_unmarshal_fits b m H)) (fun _ m => twcc_hdr_consistent m = true)
           (fun b m H P => TWCC_dec_enc_dec b m H P) b s Hs).
Qed.

Theorem source_C09_TransportLayerCC_marshal_never_panics : forall b s,
  GoSrc.TransportLayerCC_Unmarshal GoSrc.zero_TransportLayerCC b = Ok s -> GoSrc.TransportLayerCC_Marshal s <> Panic.
Proof.
  intros b s Hs. destruct (src_twcc_decoded b s Hs) as (t & Hu & ->).
  rewrite (src_TransportLayerCC_Marshal t (TWCC_unmarshal_fits b t Hu)). exact (TWCC_reencode_no_panic b t Hu).
Qed.

(* ================================================================================================ *)
(* Print Assumptions                                                                                 *)
(* ================================================================================================ *)
Print Assumptions source_C11_validate_iff_grammar.
Print Assumptions source_C11_validate_total.
Print Assumptions source_C11_marshal_iff.
Print Assumptions source_C11_marshal_is_Marshal.
Print Assumptions source_C11_unmarshal_iff.
Print Assumptions source_C11_unmarshal_ok.
Print Assumptions source_C11_unmarshal_total.
Print Assumptions source_C11_cname.
Print Assumptions source_C06_locality.
Print Assumptions source_C06_one_packet_per_frame.
Print Assumptions source_C06_concatenation.
Print Assumptions source_C06_success_means_framed.
Print Assumptions source_C06_empty.
Print Assumptions source_C06_incomplete_tail.
Print Assumptions source_C06_bad_frame_anywhere.
Print Assumptions source_C06_length_field_65535_refuted.
Print Assumptions source_C02_datagram_roundtrip.
Print Assumptions source_C02_own_decoder.
Print Assumptions source_C02_lists.
Print Assumptions source_C03_marshal_is_rfc_layout.
Print Assumptions source_C03_marshal_is_rfc_layout_xr.
Print Assumptions source_C03_list_is_concatenation.
Print Assumptions source_C03_compound_is_concatenation.
Print Assumptions source_C03_list_roundtrip.
Print Assumptions source_C03_sli_never_rfc.
Print Assumptions source_C10_dest.
Print Assumptions source_C10_dest_compound.
Print Assumptions source_C10_roundtrip_datagram.
Print Assumptions source_C05_size.
Print Assumptions source_C05_framed.
Print Assumptions source_C05_compound_size.
Print Assumptions source_C07_dispatch_is_registry.
Print Assumptions source_C07_unregistered_is_raw.
Print Assumptions source_C07_own_output_dispatch.
Print Assumptions source_C07_foreign_rejected.
Print Assumptions source_C07_foreign_rejected_by_registry.
Print Assumptions source_C07_sli_own_output_is_raw.
Print Assumptions source_C09_marshal_of_decoded_never_panics.
Print Assumptions source_C09_decode_encode_decode.
Print Assumptions source_C09_decode_encode_decode_eq.
Print Assumptions source_C09_datagram_never_yields_sli.
Print Assumptions source_C01_Unmarshal_total.
Print Assumptions source_C01_unmarshal_total.
Print Assumptions source_C01_CompoundPacket_total.
Print Assumptions source_C01_Header_total.
Print Assumptions source_C01_ReceptionReport_total.
Print Assumptions source_C01_SenderReport_total.
Print Assumptions source_C01_ReceiverReport_total.
Print Assumptions source_C01_SourceDescription_total.
Print Assumptions source_C01_SourceDescriptionChunk_total.
Print Assumptions source_C01_SourceDescriptionItem_total.
Print Assumptions source_C01_Goodbye_total.
Print Assumptions source_C01_ApplicationDefined_total.
Print Assumptions source_C01_TransportLayerNack_total.
Print Assumptions source_C01_RapidResynchronizationRequest_total.
Print Assumptions source_C01_PictureLossIndication_total.
Print Assumptions source_C01_SliceLossIndication_total.
Print Assumptions source_C01_FullIntraRequest_total.
Print Assumptions source_C01_TransportLayerCC_total.
Print Assumptions source_C01_RunLengthChunk_total.
Print Assumptions source_C01_StatusVectorChunk_total.
Print Assumptions source_C01_RecvDelta_total.
Print Assumptions source_C01_CCFeedbackReport_total.
Print Assumptions source_C01_CCFeedbackReportBlock_total.
Print Assumptions source_C01_CCFeedbackMetricBlock_total.
Print Assumptions source_C01_RawPacket_total.
Print Assumptions source_C01_Packet_Unmarshal_total.
Print Assumptions source_C01_datagram_alloc.
Print Assumptions source_C01_TransportLayerCC_alloc.
Print Assumptions source_C13_deltas_match_statuses.
Print Assumptions source_C13_deltas_follow_chunks_on_the_wire.
Print Assumptions source_C13_small_delta_value.
Print Assumptions source_C13_large_delta_value.
Print Assumptions source_C13_inside_declared_length.
Print Assumptions source_C13_inside_declared_length_u16.
Print Assumptions source_C13_chunking_invariant.
Print Assumptions source_C09_SenderReport.
Print Assumptions source_C09_ReceiverReport.
Print Assumptions source_C09_SourceDescription.
Print Assumptions source_C09_Goodbye.
Print Assumptions source_C09_ApplicationDefined.
Print Assumptions source_C09_PictureLossIndication.
Print Assumptions source_C09_RapidResynchronizationRequest.
Print Assumptions source_C09_TransportLayerNack.
Print Assumptions source_C09_SliceLossIndication.
Print Assumptions source_C09_FullIntraRequest.
Print Assumptions source_C09_fir_zero_entries_refuted.
Print Assumptions source_C09_CCFeedbackReport.
Print Assumptions source_C09_TransportLayerCC.
Print Assumptions source_C09_TransportLayerCC_marshal_never_panics.
