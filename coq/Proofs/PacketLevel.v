(* Packet-level lifting of the per-type results (C02, C03, C05, C09) to the sum type [packet].

   Constructors covered by [supported] (all results of this file):
     PSR, PRR, PSDES, PBYE, PAPP, PNACK, PPLI, PRRR, PFIR, PTWCC                 unconditionally,
     PCCFB x   when CCFB_size x <= 262140 (side condition of CCFB_marshal_spec / CCFB_unmarshal_enc),
     PREMB x   when the integer floor of the bitrate is at least 1 (side condition of REMB_unmarshal_enc;
               for 0 the round trip is refuted in EncCcfbRemb.remb_zero_roundtrip_refuted).
   Not covered: PSLI (finding F5: Marshal does not produce the RFC encoding, see EncFeedback.SLI_marshal_never_rfc),
     PRaw, PCompound, and PXR for the exact round trip.  PXR is covered for C03 / C05 under
     [Forall wf_block (xr_blocks x)] ([supported_enc]), and for C02 up to [canon] (XR_* lemmas at the end). *)
From RTCP Require Import Proofs.Tactics Lib.Reflect
  Model.Header Model.Reports Model.Sdes Model.ByeApp Model.Feedback Model.Twcc Model.Ccfb Model.Remb Model.Xr Model.Packet
  Spec.Enc Spec.XrSpec Spec.Laws
  Proofs.HeaderProofs Proofs.Dgram Proofs.EncFeedback Proofs.EncReports Proofs.EncSdesByeApp Proofs.EncTwcc
  Proofs.EncXr Proofs.XrRead Proofs.EncCcfbRemb Proofs.Guards Proofs.Assemble.
Local Open Scope N_scope.

(* ------------------------------------------------------------------------------------------------ *)
(* the covered constructors                                                                          *)
(* ------------------------------------------------------------------------------------------------ *)
Definition remb_floor_pos (x : REMB) : bool :=
  match remb_floor (remb_bitrate x) with Some v => (1 <=? v)%Z | None => false end.

Definition supported (p : packet) : bool :=
  match p with
  | PSR _ | PRR _ | PSDES _ | PBYE _ | PAPP _ | PNACK _ | PPLI _ | PRRR _ | PFIR _ | PTWCC _ => true
  | PCCFB x => CCFB_size x <=? 262140
  | PREMB x => remb_floor_pos x
  | PSLI _ | PXR _ | PRaw _ | PCompound _ => false
  end.

(* ------------------------------------------------------------------------------------------------ *)
(* generic facts about RFC frames                                                                    *)
(* ------------------------------------------------------------------------------------------------ *)
Lemma frame_header pd c t body : c < 32 -> t < 256 ->
  Header_unmarshal (frame pd c t body) =
  Ok {| h_pad := pd; h_count := c; h_type := t; h_len := u16 ((4 + len body) / 4 - 1) |}.
Proof. intros Hc Ht. unfold frame. apply Header_unmarshal_hdr16; assumption. Qed.

Lemma len_frame' pd c t body : len (frame pd c t body) = 4 + len body.
Proof. unfold frame. rewrite len_app, EncReports.len_hdr. reflexivity. Qed.

Lemma frame_framed16 pd c t body : c < 32 -> t < 256 -> len body mod 4 = 0 -> 4 + len body < 262144 ->
  framed16 (frame pd c t body).
Proof.
  intros Hc Ht Hm Hl. destruct (frame_octets pd c t body Hc Ht) as (_ & _ & Hv & H4).
  split; [|rewrite len_frame'; exact Hl]. split; [exact H4|]. split; [exact Hv|].
  rewrite len_frame'. unfold frame, hdr. rewrite EncTwcc.be2. cbn [app skipn firstn].
  rewrite unbe2, !b2n_n2b. lia.
Qed.

Lemma frame_decode pd c t body : c < 32 -> t < 256 ->
  decode_frame (frame pd c t body) = decode_as (registry t c) (frame pd c t body).
Proof. intros Hc Ht. destruct (frame_dispatches pd c t body Hc Ht) as (_ & _ & H). exact H. Qed.

(* ------------------------------------------------------------------------------------------------ *)
(* every covered reference encoding is a frame with the registered (PT, count)                       *)
(* ------------------------------------------------------------------------------------------------ *)
Definition shape (p : packet) (pd : bool) (c t : N) (body : bytes) : Prop :=
  enc_spec p = frame pd c t body /\ c < 32 /\ t < 256 /\ registry t c = tag_of_packet p /\
  expected_pt_count p = Some (t, c).

Lemma remb_D_floor x : D_REMB x = true -> exists v, remb_floor (remb_bitrate x) = Some v.
Proof.
  unfold D_REMB. rewrite !andb_true_iff. intros (_ & Hv). unfold remb_floor.
  destruct (remb_value (remb_bitrate x)) as [[m e]|]; [|discriminate]. eexists. reflexivity.
Qed.

Definition twcc_padding (t : TWCC) : bytes :=
  if h_pad (tw_hdr t) then zeros (twcc_padlen t - 1) ++ [n2b (twcc_padlen t)] else zeros (twcc_padlen t).

Lemma twcc_padding_len t : D_TWCC t = true -> len (twcc_padding t) = twcc_padlen t.
Proof.
  unfold D_TWCC, twcc_padding. rewrite !andb_true_iff. intros ((_ & Hp) & _).
  destruct (h_pad (tw_hdr t)); cbn [implb] in Hp.
  - apply N.ltb_lt in Hp. rewrite len_app, len_zeros, len_cons, len_nil. lia.
  - apply len_zeros.
Qed.

Lemma enc_TWCC_frame t : D_TWCC t = true ->
  enc_TWCC t = frame (h_pad (tw_hdr t)) 15 205 (twcc_body t ++ twcc_padding t).
Proof.
  intros HD. unfold frame. rewrite len_app, (twcc_padding_len t HD), N.add_assoc. reflexivity.
Qed.

Lemma enc_shape p : supported p = true -> in_D p = true -> exists pd c t body, shape p pd c t body.
Proof.
  intros Hs HD. unfold shape. destruct p as [x|x|x|x|x|x|x|x|x|x|x|x|x|x|b|l]; cbn [supported] in Hs; try discriminate Hs;
    cbn [in_D] in HD; cbn [enc_spec tag_of_packet expected_pt_count].
  - (* SR *) destruct (D_SR_bounds x HD) as (_ & _ & _ & _ & _ & Hn & _).
    do 4 eexists. split; [unfold enc_SR; reflexivity|]. repeat split; lia.
  - (* RR *) destruct (D_RR_bounds x HD) as (_ & Hn & _).
    do 4 eexists. split; [unfold enc_RR; reflexivity|]. repeat split; lia.
  - (* SDES *) destruct (D_SDES_inv x HD) as (Hn & _).
    do 4 eexists. split; [unfold enc_SDES; reflexivity|]. repeat split; lia.
  - (* BYE *) destruct (D_BYE_inv x HD) as (Hn & _).
    do 4 eexists. split; [unfold enc_BYE; reflexivity|]. repeat split; lia.
  - (* APP *) destruct (D_APP_inv x HD) as (Hn & _).
    do 4 eexists. split; [unfold enc_APP; reflexivity|]. repeat split; lia.
  - (* NACK *) do 4 eexists. split; [unfold enc_NACK; reflexivity|]. repeat split; lia.
  - (* RRR *) do 4 eexists. split; [unfold enc_RRR; reflexivity|]. repeat split; lia.
  - (* TWCC *) do 4 eexists. split; [apply enc_TWCC_frame, HD|]. repeat split; lia.
  - (* CCFB *) do 4 eexists. split; [unfold enc_CCFB; reflexivity|]. repeat split; lia.
  - (* PLI *) do 4 eexists. split; [unfold enc_PLI; reflexivity|]. repeat split; lia.
  - (* REMB *) destruct (remb_D_floor x HD) as (v & Hv). unfold enc_REMB. rewrite Hv.
    destruct (remb_ref v) as [e m]. do 4 eexists. split; [reflexivity|]. repeat split; lia.
  - (* FIR *) do 4 eexists. split; [unfold enc_FIR; reflexivity|]. repeat split; lia.
Qed.

(* ------------------------------------------------------------------------------------------------ *)
(* C03: Marshal produces the RFC encoding                                                            *)
(* ------------------------------------------------------------------------------------------------ *)
Theorem marshal_is_rfc : forall p, supported p = true -> in_D p = true -> marshal_packet p = Ok (enc_spec p).
Proof.
  intros p Hs HD. destruct p as [x|x|x|x|x|x|x|x|x|x|x|x|x|x|b|l]; cbn [supported] in Hs; try discriminate Hs;
    cbn [in_D] in HD; cbn [enc_spec marshal_packet].
  - apply SR_marshal_spec, HD.
  - apply RR_marshal_spec, HD.
  - apply SDES_marshal_spec, HD.
  - apply BYE_marshal_spec, HD.
  - apply APP_marshal_spec, HD.
  - apply NACK_marshal_spec, HD.
  - apply RRR_marshal_spec, HD.
  - apply TWCC_marshal_spec, HD.
  - apply CCFB_marshal_spec; [exact HD|]. apply N.leb_le, Hs.
  - apply PLI_marshal_spec, HD.
  - apply REMB_marshal_spec, HD.
  - apply FIR_marshal_spec, HD.
Qed.

(* ------------------------------------------------------------------------------------------------ *)
(* sizes: the RFC encoding has the length MarshalSize announces, a multiple of 4                     *)
(* ------------------------------------------------------------------------------------------------ *)
Lemma TWCC_size_spec t : D_TWCC t = true -> len (enc_TWCC t) = TWCC_size t /\ len (enc_TWCC t) mod 4 = 0.
Proof.
  intros HD. rewrite (enc_TWCC_frame t HD), len_frame', len_app, (twcc_padding_len t HD).
  assert (Hb : 4 + len (twcc_body t) + twcc_padlen t <= 65532).
  { revert HD. unfold D_TWCC. rewrite !andb_true_iff. intros (_ & H). apply N.leb_le, H. }
  unfold twcc_padlen in *. pose proof (get_padding_spec (4 + len (twcc_body t))) as [Hm Hl].
  rewrite TWCC_size_exact by (rewrite twcc_exact_len_eq; lia). rewrite twcc_exact_len_eq.
  split; [lia|]. rewrite N.add_assoc. exact Hm.
Qed.

Lemma CCFB_size_spec x : len (enc_CCFB x) = CCFB_size x /\ len (enc_CCFB x) mod 4 = 0.
Proof.
  unfold enc_CCFB. rewrite len_frame', !len_app, !len_be, enc_blocks_len, CCFB_size_blocks.
  pose proof (blocks_len_mod4 (cc_blocks x)). change (N.of_nat 4) with 4. lia.
Qed.

Lemma REMB_size_spec x : D_REMB x = true -> len (enc_REMB x) = REMB_size x /\ len (enc_REMB x) mod 4 = 0.
Proof.
  intros HD. destruct (remb_D_floor x HD) as (v & Hv). unfold enc_REMB. rewrite Hv. destruct (remb_ref v) as [e m].
  rewrite len_frame', !len_app, !len_be, concat_be4_len, !len_cons, len_nil. unfold REMB_size, nlen, nl.
  change (N.of_nat 4) with 4. change (N.of_nat 3) with 3. change (N.of_nat 1) with 1. lia.
Qed.

Lemma enc_size p : supported p = true -> in_D p = true ->
  len (enc_spec p) = size_packet p /\ len (enc_spec p) mod 4 = 0.
Proof.
  intros Hs HD. destruct p as [x|x|x|x|x|x|x|x|x|x|x|x|x|x|b|l]; cbn [supported] in Hs; try discriminate Hs;
    cbn [in_D] in HD; cbn [enc_spec size_packet].
  - destruct (SR_size_spec x HD) as [E M]. rewrite E. auto.
  - destruct (RR_size_spec x HD) as [E M]. rewrite E. auto.
  - destruct (SDES_size_spec x HD) as [E M]. rewrite E. auto.
  - destruct (BYE_size_spec x HD) as [E M]. rewrite E. auto.
  - destruct (APP_size_spec x HD) as [E M]. rewrite E. auto.
  - apply NACK_size_spec, HD.
  - apply RRR_size_spec, HD.
  - apply TWCC_size_spec, HD.
  - apply CCFB_size_spec.
  - apply PLI_size_spec, HD.
  - apply REMB_size_spec, HD.
  - apply FIR_size_spec, HD.
Qed.

(* ------------------------------------------------------------------------------------------------ *)
(* C02, own decoder: decoding the RFC encoding gives the packet back, up to the documented           *)
(* quantisation q (identity except RR: extension padding, REMB: 18-bit mantissa)                     *)
(* ------------------------------------------------------------------------------------------------ *)
Lemma remb_floor_pos_spec x : remb_floor_pos x = true ->
  forall v : Z, remb_floor (remb_bitrate x) = Some v -> (1 <= v)%Z.
Proof.
  unfold remb_floor_pos. intros H v Hv. rewrite Hv in H. apply Z.leb_le, H.
Qed.

Theorem own_roundtrip : forall p, supported p = true -> in_D p = true ->
  decode_as (tag_of_packet p) (enc_spec p) = Ok (q p).
Proof.
  intros p Hs HD. destruct p as [x|x|x|x|x|x|x|x|x|x|x|x|x|x|b|l]; cbn [supported] in Hs; try discriminate Hs;
    cbn [in_D] in HD; cbn [enc_spec tag_of_packet decode_as q].
  - rewrite SR_unmarshal_enc by exact HD. reflexivity.
  - rewrite RR_unmarshal_enc by exact HD. reflexivity.
  - rewrite SDES_unmarshal_enc by exact HD. reflexivity.
  - rewrite BYE_unmarshal_enc by exact HD. reflexivity.
  - rewrite APP_unmarshal_enc by exact HD. reflexivity.
  - rewrite NACK_unmarshal_enc by exact HD. reflexivity.
  - rewrite RRR_unmarshal_enc by exact HD. reflexivity.
  - rewrite TWCC_unmarshal_enc by exact HD. reflexivity.
  - rewrite CCFB_unmarshal_enc; [reflexivity|exact HD|apply N.leb_le, Hs].
  - rewrite PLI_unmarshal_enc by exact HD. reflexivity.
  - rewrite REMB_unmarshal_enc; [reflexivity|exact HD|apply remb_floor_pos_spec, Hs].
  - rewrite FIR_unmarshal_enc by exact HD. reflexivity.
Qed.

Theorem marshal_then_unmarshal : forall p, supported p = true -> in_D p = true ->
  exists b, marshal_packet p = Ok b /\ decode_as (tag_of_packet p) b = Ok (q p).
Proof.
  intros p Hs HD. exists (enc_spec p). split; [apply marshal_is_rfc|apply own_roundtrip]; assumption.
Qed.

(* ------------------------------------------------------------------------------------------------ *)
(* C05: framing of Marshal's output                                                                  *)
(* ------------------------------------------------------------------------------------------------ *)
Lemma enc_framed p : supported p = true -> in_D p = true -> len (enc_spec p) < 262144 ->
  framed16 (enc_spec p) /\
  exists h, Header_unmarshal (enc_spec p) = Ok h /\ h_len h = len (enc_spec p) / 4 - 1 /\
            (forall pt c, expected_pt_count p = Some (pt, c) -> h_type h = pt /\ h_count h = c) /\
            dispatch (h_type h) (h_count h) = tag_of_packet p /\
            decode_frame (enc_spec p) = decode_as (tag_of_packet p) (enc_spec p).
Proof.
  intros Hs HD Hl. destruct (enc_size p Hs HD) as [_ Hm].
  destruct (enc_shape p Hs HD) as (pd & c & t & body & E & Hc & Ht & Hr & Hx).
  rewrite E in *. rewrite len_frame' in Hl, Hm. split.
  - apply frame_framed16; try assumption. lia.
  - eexists. split; [apply frame_header; assumption|]. cbn [h_len h_type h_count]. rewrite len_frame'.
    split; [unfold u16; lia|]. split; [|split].
    + intros pt c' Hpc. rewrite Hx in Hpc. injection Hpc as <- <-. auto.
    + rewrite dispatch_table_all. exact Hr.
    + rewrite frame_decode by assumption. rewrite Hr. reflexivity.
Qed.

Theorem marshal_framed : forall p b, supported p = true -> in_D p = true -> len (enc_spec p) < 262144 ->
  marshal_packet p = Ok b ->
  len b = size_packet p /\ len b mod 4 = 0 /\ framed16 b /\
  exists h, Header_unmarshal b = Ok h /\ h_len h = len b / 4 - 1 /\
            (forall pt c, expected_pt_count p = Some (pt, c) -> h_type h = pt /\ h_count h = c).
Proof.
  intros p b Hs HD Hl Hm. rewrite (marshal_is_rfc p Hs HD) in Hm. injection Hm as <-.
  destruct (enc_size p Hs HD) as [E M]. destruct (enc_framed p Hs HD Hl) as (F & h & Hh & Hlen & Hpc & _).
  split; [exact E|]. split; [exact M|]. split; [exact F|]. exists h. auto.
Qed.

(* framing for ALL values on which Marshal succeeds (no in_D hypothesis): SR, RR, SDES, BYE, APP *)
Lemma frame_framing pd c t body : c < 32 -> t < 256 -> len (frame pd c t body) mod 4 = 0 -> len (frame pd c t body) < 262144 ->
  framed16 (frame pd c t body) /\
  exists h, Header_unmarshal (frame pd c t body) = Ok h /\ h_len h = len (frame pd c t body) / 4 - 1 /\
            h_type h = t /\ h_count h = c /\ h_pad h = pd.
Proof.
  intros Hc Ht Hm Hl. rewrite len_frame' in *. split; [apply frame_framed16; try assumption; lia|].
  eexists. split; [apply frame_header; assumption|]. cbn [h_len h_type h_count h_pad]. unfold u16. repeat split. lia.
Qed.

Definition framing_any (b : bytes) (size pt cnt : N) : Prop :=
  len b = size /\ len b mod 4 = 0 /\ framed16 b /\
  exists h, Header_unmarshal b = Ok h /\ h_len h = len b / 4 - 1 /\ h_type h = pt /\ h_count h = cnt.

Lemma framing_any_frame pd c t body size : c < 32 -> t < 256 -> len (frame pd c t body) = size -> size mod 4 = 0 ->
  size < 262144 -> framing_any (frame pd c t body) size t c.
Proof.
  intros Hc Ht E M L. rewrite <- E in M, L. destruct (frame_framing pd c t body Hc Ht M L) as (F & h & Hh & H1 & H2 & H3 & _).
  split; [exact E|]. split; [exact M|]. split; [exact F|]. exists h. auto.
Qed.

Theorem SR_framing_any_value : forall s b, SR_marshal s = Ok b -> len b < 262144 ->
  framing_any b (SR_size s) 200 (nl (sr_reports s)).
Proof.
  intros s b Hm Hl. rewrite SR_marshal_char in Hm.
  destruct (forallb lost_ok (sr_reports s) && (nl (sr_reports s) <=? 31)) eqn:G; [|discriminate Hm].
  injection Hm as <-. apply andb_true_iff in G as [_ G]. apply N.leb_le in G.
  assert (E : len (frame false (nl (sr_reports s)) 200 (sr_body s)) = SR_size s) by (rewrite len_frame'; apply len_sr_body).
  apply framing_any_frame; try lia; try exact E. apply SR_size_aligned.
Qed.

Theorem RR_framing_any_value : forall r b, RR_marshal r = Ok b -> len b < 262144 ->
  framing_any b (RR_size r) 201 (nl (rcv_reports r)).
Proof.
  intros r b Hm Hl. rewrite RR_marshal_char in Hm.
  destruct (forallb lost_ok (rcv_reports r) && (nl (rcv_reports r) <=? 31)) eqn:G; [|discriminate Hm].
  injection Hm as <-. apply andb_true_iff in G as [_ G]. apply N.leb_le in G.
  pose proof (len_enc_RR r) as E. rewrite E in Hl. unfold enc_RR in *.
  apply framing_any_frame; try lia; try exact E. apply RR_size_aligned.
Qed.

Theorem SDES_framing_any_value : forall s b, SDES_marshal s = Ok b -> len b < 262144 ->
  framing_any b (SDES_size s) 202 (nl (sd_chunks s)).
Proof.
  intros s b Hm Hl. rewrite SDES_marshal_char in Hm.
  destruct (forallb EncSdesByeApp.chunk_ok (sd_chunks s)); [|discriminate Hm].
  destruct (N.ltb_spec 31 (nl (sd_chunks s))) as [|G]; [discriminate Hm|]. injection Hm as <-.
  destruct (SDES_size_spec_gen s) as [E M]. rewrite E in Hl. unfold enc_SDES in *.
  apply framing_any_frame; try lia; assumption.
Qed.

Theorem BYE_framing_any_value : forall g b, BYE_marshal g = Ok b -> len b < 262144 ->
  framing_any b (BYE_size g) 203 (nl (bye_sources g)).
Proof.
  intros g b Hm Hl. rewrite BYE_marshal_char in Hm.
  destruct (N.ltb_spec 31 (nl (bye_sources g))) as [|G]; [discriminate Hm|].
  destruct (255 <? len (bye_reason g)); [discriminate Hm|]. injection Hm as <-.
  destruct (BYE_size_spec_gen g) as [E M]. rewrite E in Hl. unfold enc_BYE in *.
  apply framing_any_frame; try lia; assumption.
Qed.

(* APP: Marshal bounds the data by 65523 octets, so no length hypothesis is needed *)
Theorem APP_framing_any_value : forall a b, APP_marshal a = Ok b ->
  framing_any b (APP_size a) 204 (app_subtype a).
Proof.
  intros a b Hm. rewrite APP_marshal_char in Hm.
  destruct (N.ltb_spec 65523 (len (app_data a))) as [|Gd]; [discriminate Hm|].
  destruct (N.eqb_spec (len (app_name a)) 4) as [Gn|]; cbn [negb] in Hm; [|discriminate Hm].
  destruct (N.ltb_spec 31 (app_subtype a)) as [|G]; [discriminate Hm|]. injection Hm as <-.
  destruct (APP_size_spec_gen a Gn) as [E M].
  assert (L : APP_size a < 262144).
  { rewrite <- E. unfold enc_APP. rewrite len_frame', !len_app, len_be, Gn, len_repeat, N2Nat.id. unfold app_pad.
    pose proof (get_padding_spec (len (app_data a))). change (N.of_nat 4) with 4. lia. }
  unfold enc_APP in *. apply framing_any_frame; try lia; assumption.
Qed.

(* ------------------------------------------------------------------------------------------------ *)
(* the quantisation q stays inside the covered domain and does not change the encoding               *)
(* ------------------------------------------------------------------------------------------------ *)
Lemma q_REMB_facts x : D_REMB x = true -> remb_floor_pos x = true ->
  D_REMB (q_REMB x) = true /\ remb_floor_pos (q_REMB x) = true /\ enc_REMB (q_REMB x) = enc_REMB x.
Proof.
  intros HD Hp. destruct (remb_D_floor x HD) as (v & Hv). pose proof (remb_floor_pos_spec x Hp v Hv) as Hv1.
  assert (Hv0 : (0 <= v)%Z) by lia.
  pose proof (remb_ref_bounds v Hv0) as [Be Bm]. pose proof (remb_ref_mant_pos v Hv1) as Bm0.
  pose proof (remb_ref_minimal v Hv0) as Bmin.
  unfold q_REMB. rewrite Hv. destruct (remb_ref v) as [e m] eqn:Er. cbn [fst snd] in *.
  assert (He : (0 <= e < 64)%Z) by lia. assert (Hm : (0 < m < 2 ^ 18)%Z) by lia.
  rewrite <- (remb_dec_bits_exact e m He Hm).
  destruct (remb_decode_exact e m He Hm) as (m' & e' & Hval & _ & Hfl).
  destruct (remb_decode_bits e m He Hm) as (k & _ & Hk & Hmk & Hdec & _).
  assert (Hcan : remb_ref (m * 2 ^ e) = (e, m)).
  { apply remb_ref_canonical; lia. }
  split; [|split].
  - revert HD. unfold D_REMB. cbn [remb_sender remb_ssrcs remb_bitrate]. rewrite !andb_true_iff.
    intros ((((H1 & H2) & H3) & _) & _). rewrite Hval. repeat split; try assumption.
    unfold fits. apply N.ltb_lt. rewrite Hdec. change (2 ^ 23)%Z with 8388608%Z in *. change (2 ^ 24)%Z with 16777216%Z in *.
    change (2 ^ 32) with 4294967296. lia.
  - unfold remb_floor_pos. cbn [remb_bitrate]. rewrite Hfl. apply Z.leb_le.
    assert (0 < m * 2 ^ e)%Z by (apply Z.mul_pos_pos; [lia|apply pow2_pos; lia]). lia.
  - unfold enc_REMB. cbn [remb_bitrate remb_sender remb_ssrcs]. rewrite Hfl, Hv, Hcan, Er. reflexivity.
Qed.

Lemma q_facts p : supported p = true -> in_D p = true ->
  supported (q p) = true /\ in_D (q p) = true /\ enc_spec (q p) = enc_spec p.
Proof.
  intros Hs HD. destruct p as [x|x|x|x|x|x|x|x|x|x|x|x|x|x|b|l]; cbn [supported] in Hs; try discriminate Hs;
    cbn [in_D] in HD; cbn [q supported in_D enc_spec]; auto.
  - (* RR *) rewrite D_RR_q, enc_RR_q. auto.
  - (* REMB *) destruct (q_REMB_facts x HD Hs) as (A & B & C). auto.
Qed.

Lemma q_idem p : supported p = true -> in_D p = true -> q (q p) = q p.
Proof.
  intros Hs HD. pose proof (own_roundtrip p Hs HD) as H1.
  destruct (q_facts p Hs HD) as (Hs' & HD' & E). pose proof (own_roundtrip (q p) Hs' HD') as H2.
  rewrite E in H2.
  assert (T : tag_of_packet (q p) = tag_of_packet p) by (destruct p; reflexivity).
  rewrite T, H1 in H2. injection H2 as H2. symmetry. exact H2.
Qed.

(* ------------------------------------------------------------------------------------------------ *)
(* C02, datagram level: Unmarshal of Marshal's output                                                *)
(* ------------------------------------------------------------------------------------------------ *)
Definition ok_pkt (p : packet) : Prop := supported p = true /\ in_D p = true /\ len (enc_spec p) < 262144.

Lemma ok_pkt_q p : ok_pkt p -> ok_pkt (q p) /\ enc_spec (q p) = enc_spec p.
Proof.
  intros (Hs & HD & Hl). destruct (q_facts p Hs HD) as (Hs' & HD' & E). rewrite <- E in Hl. repeat split; assumption.
Qed.

Lemma decode_frame_enc p : ok_pkt p -> framed16 (enc_spec p) /\ decode_frame (enc_spec p) = Ok (q p).
Proof.
  intros (Hs & HD & Hl). destruct (enc_framed p Hs HD Hl) as (F & h & _ & _ & _ & _ & Hd).
  split; [exact F|]. rewrite Hd. apply own_roundtrip; assumption.
Qed.

Theorem datagram_roundtrip : forall p, supported p = true -> in_D p = true -> len (enc_spec p) < 262144 ->
  Unmarshal (enc_spec p) = Ok [q p].
Proof.
  intros p Hs HD Hl. destruct (decode_frame_enc p (conj Hs (conj HD Hl))) as [F Hd].
  pose proof (Unmarshal_frames [enc_spec p]) as U. cbn [List.concat mapM] in U. rewrite app_nil_r in U.
  rewrite U; [|constructor; [exact F|constructor]|discriminate]. rewrite Hd. reflexivity.
Qed.

Lemma Marshal_enc ps : Forall ok_pkt ps -> Marshal ps = Ok (List.concat (map enc_spec ps)).
Proof.
  induction 1 as [|p ps (Hs & HD & _) _ IH]; [reflexivity|]. cbn [Marshal map List.concat].
  rewrite (marshal_is_rfc p Hs HD), IH. reflexivity.
Qed.

Lemma mapM_decode_enc ps : Forall ok_pkt ps ->
  Forall framed16 (map enc_spec ps) /\ mapM decode_frame (map enc_spec ps) = Ok (map q ps).
Proof.
  induction 1 as [|p ps Hp _ [IHf IHm]]; [split; [constructor|reflexivity]|]. cbn [map mapM].
  destruct (decode_frame_enc p Hp) as [F Hd]. split; [constructor; assumption|]. rewrite Hd, IHm. reflexivity.
Qed.

Theorem list_roundtrip : forall ps, ps <> [] ->
  Forall (fun p => supported p = true /\ in_D p = true /\ len (enc_spec p) < 262144) ps ->
  exists b, Marshal ps = Ok b /\ Unmarshal b = Ok (map q ps) /\ Marshal (map q ps) = Ok b.
Proof.
  intros ps Hne Hall. change (Forall ok_pkt ps) in Hall. exists (List.concat (map enc_spec ps)).
  split; [apply Marshal_enc, Hall|]. destruct (mapM_decode_enc ps Hall) as [Ff Hm]. split.
  - rewrite Unmarshal_frames; [exact Hm|exact Ff|]. destruct ps; [congruence|discriminate].
  - assert (Hq : Forall ok_pkt (map q ps) /\ map enc_spec (map q ps) = map enc_spec ps).
    { clear Hne Ff Hm. induction Hall as [|p ps Hp _ [IH1 IH2]]; [split; [constructor|reflexivity]|].
      destruct (ok_pkt_q p Hp) as [Hq E]. cbn [map]. split; [constructor; assumption|]. rewrite E, IH2. reflexivity. }
    destruct Hq as [Hq E]. rewrite (Marshal_enc _ Hq), E. reflexivity.
Qed.

(* ------------------------------------------------------------------------------------------------ *)
(* C09: re-encoding the decoder's image is stable                                                    *)
(* ------------------------------------------------------------------------------------------------ *)
Theorem reencode_stable : forall p, supported p = true -> in_D p = true -> len (enc_spec p) < 262144 ->
  exists b, marshal_packet (q p) = Ok b /\ Unmarshal b = Ok [q p].
Proof.
  intros p Hs HD Hl. destruct (q_facts p Hs HD) as (Hs' & HD' & E). exists (enc_spec p). split.
  - rewrite <- E. apply marshal_is_rfc; assumption.
  - apply datagram_roundtrip; assumption.
Qed.

(* the full cycle: marshal, unmarshal, marshal again gives the same octets, and unmarshal again the same packet *)
Theorem marshal_unmarshal_marshal : forall p, supported p = true -> in_D p = true -> len (enc_spec p) < 262144 ->
  exists b, marshal_packet p = Ok b /\ Unmarshal b = Ok [q p] /\ marshal_packet (q p) = Ok b /\ q (q p) = q p.
Proof.
  intros p Hs HD Hl. destruct (q_facts p Hs HD) as (Hs' & HD' & E). exists (enc_spec p).
  split; [apply marshal_is_rfc; assumption|]. split; [apply datagram_roundtrip; assumption|].
  split; [rewrite <- E; apply marshal_is_rfc; assumption|apply q_idem; assumption].
Qed.

(* ------------------------------------------------------------------------------------------------ *)
(* XR (RFC 3611).  [wf_block] (EncXr) is a Prop, so XR is not part of the boolean [supported]:       *)
(* C03 and C05 hold under [Forall wf_block (xr_blocks x)]; the decoder recomputes the header         *)
(* bookkeeping of the blocks, so C02 / C09 hold up to [canon].                                       *)
(* ------------------------------------------------------------------------------------------------ *)
Definition supported_enc (p : packet) : Prop :=
  supported p = true \/ exists x, p = PXR x /\ Forall wf_block (xr_blocks x).

Lemma wf_blocks_size bs : Forall wf_block bs ->
  fold_right (fun b acc => blk_wire_size b + acc) 0 bs = len (enc_blocks bs).
Proof.
  induction 1 as [|b bs (a0 & b0 & c0 & sb & HD & ->) _ IH]; [reflexivity|].
  unfold enc_blocks. cbn [map List.concat fold_right]. fold (enc_blocks bs).
  rewrite len_app, IH, abs_blk_of, blk_wire_size_of, len_enc_sblock by exact HD. reflexivity.
Qed.

Lemma len_enc_XR x : len (enc_XR x) = 8 + len (enc_blocks (xr_blocks x)).
Proof.
  unfold enc_XR. fold (enc_blocks (xr_blocks x)). rewrite len_frame', len_app, len_be. change (N.of_nat 4) with 4. lia.
Qed.

Theorem XR_framing : forall x, Forall wf_block (xr_blocks x) -> len (enc_XR x) < 262144 ->
  framing_any (enc_XR x) (XR_size x) 207 0.
Proof.
  intros x Hwf Hl. pose proof (len_enc_XR x) as E. pose proof (enc_blocks_aligned _ Hwf) as M.
  assert (S : XR_size x = 8 + len (enc_blocks (xr_blocks x))).
  { unfold XR_size, XR_wire_size, c_headerLength. rewrite (wf_blocks_size _ Hwf). lia. }
  rewrite E in Hl. unfold enc_XR in *. apply framing_any_frame; try lia.
Qed.

Theorem marshal_is_rfc_enc : forall p, supported_enc p -> in_D p = true -> marshal_packet p = Ok (enc_spec p).
Proof.
  intros p [Hs|(x & -> & Hwf)] HD; [apply marshal_is_rfc; assumption|]. cbn [marshal_packet enc_spec].
  apply XR_marshal_spec, Hwf.
Qed.

Theorem marshal_framed_enc : forall p b, supported_enc p -> in_D p = true -> len (enc_spec p) < 262144 ->
  marshal_packet p = Ok b ->
  len b = size_packet p /\ len b mod 4 = 0 /\ framed16 b /\
  exists h, Header_unmarshal b = Ok h /\ h_len h = len b / 4 - 1 /\
            (forall pt c, expected_pt_count p = Some (pt, c) -> h_type h = pt /\ h_count h = c).
Proof.
  intros p b [Hs|(x & -> & Hwf)] HD Hl Hm; [apply marshal_framed; assumption|].
  cbn [marshal_packet enc_spec size_packet expected_pt_count] in *. rewrite (XR_marshal_spec x Hwf) in Hm. injection Hm as <-.
  destruct (XR_framing x Hwf Hl) as (E & M & F & h & Hh & H1 & H2 & H3).
  split; [exact E|]. split; [exact M|]. split; [exact F|]. exists h. split; [exact Hh|]. split; [exact H1|].
  intros pt c Hpc. injection Hpc as <- <-. auto.
Qed.

Lemma setup_wf_abs b b' : wf_block b -> wf_block b' -> abs_block b = abs_block b' -> setup_block b = setup_block b'.
Proof.
  intros (a0 & b0 & c0 & sb & HD & ->) (a1 & b1 & c1 & sb' & HD' & ->). rewrite !abs_blk_of by assumption. intros <-.
  rewrite !setup_blk_of by assumption. unfold blk_length_field. rewrite !blk_wire_size_of by assumption. reflexivity.
Qed.

Lemma setup_wf_abs_list bs : forall bs', Forall wf_block bs -> Forall wf_block bs' ->
  map abs_block bs = map abs_block bs' -> map setup_block bs = map setup_block bs'.
Proof.
  induction bs as [|b bs IH]; intros [|b' bs'] Hw Hw' E; cbn [map] in *; try discriminate E; [reflexivity|].
  inversion Hw; subst. inversion Hw'; subst. injection E as E1 E2. f_equal; [apply setup_wf_abs; assumption|apply IH; assumption].
Qed.

Lemma xr_canonical_list bs :
  map rsb (map canonical (map abs_block bs)) = map abs_block bs /\
  List.concat (map enc_res (map canonical (map abs_block bs))) = enc_blocks bs /\
  List.concat (map enc_sblock (map abs_block bs)) = enc_blocks bs.
Proof.
  unfold enc_blocks. induction bs as [|b bs (IH1 & IH2 & IH3)]; [repeat split|]. cbn [map List.concat].
  rewrite IH1, IH2, IH3, enc_res_canonical. repeat split.
Qed.

Theorem XR_roundtrip_canon : forall x, D_XR x = true -> Forall wf_block (xr_blocks x) -> len (enc_XR x) < 262144 ->
  exists x', XR_unmarshal (enc_XR x) = Ok x' /\
             canon (PXR x') = canon (PXR x) /\
             Forall wf_block (xr_blocks x') /\ D_XR x' = true /\ enc_XR x' = enc_XR x /\
             XR_marshal x' = Ok (enc_XR x) /\
             Unmarshal (enc_XR x) = Ok [PXR x'].
Proof.
  intros x HD Hwf Hl. pose proof (len_enc_XR x) as E. pose proof (enc_blocks_aligned _ Hwf) as M.
  destruct (xr_canonical_list (xr_blocks x)) as (L1 & L2 & L3).
  assert (Hs : fits 32 (xr_sender x) = true) by (revert HD; unfold D_XR; rewrite andb_true_iff; tauto).
  assert (Hok : Forall rblock_ok (map canonical (map abs_block (xr_blocks x)))).
  { rewrite map_map. apply Forall_forall. intros r Hr. apply in_map_iff in Hr as (b & <- & Hb).
    rewrite Forall_forall in Hwf. pose proof (wf_block_D b (Hwf b Hb)) as HDb.
    split; [exact HDb|apply ts_ok_canonical, HDb]. }
  destruct (XR_unmarshal_reserved (xr_sender x) _ Hs Hok) as (x' & Hu & Hse & Habs & Hwf' & Hm').
  { rewrite L2. lia. }
  rewrite L2 in Hu. rewrite L1 in Habs, Hm'. rewrite L3 in Hm'.
  assert (Eenc : enc_XR x' = enc_XR x).
  { unfold enc_XR. rewrite Hse. fold (enc_blocks (xr_blocks x')). fold (enc_blocks (xr_blocks x)).
    destruct (xr_canonical_list (xr_blocks x')) as (_ & _ & L3'). rewrite <- L3', Habs, L3. reflexivity. }
  change (frame false 0 207 (be 4 (xr_sender x) ++ enc_blocks (xr_blocks x))) with (enc_XR x) in Hu, Hm'.
  exists x'. split; [exact Hu|]. split.
  { cbn [canon]. rewrite Hse. f_equal. f_equal. apply setup_wf_abs_list; assumption. }
  split; [exact Hwf'|]. split; [apply wf_blocks_D_XR; [rewrite Hse; exact Hs|exact Hwf']|]. split; [exact Eenc|]. split; [exact Hm'|].
  destruct (XR_framing x Hwf Hl) as (_ & _ & F & _).
  pose proof (Unmarshal_frames [enc_XR x]) as U. cbn [List.concat mapM] in U. rewrite app_nil_r in U.
  rewrite U; [|constructor; [exact F|constructor]|discriminate].
  unfold enc_XR at 1. rewrite frame_decode by lia. change (registry 207 0) with TXR. cbn [decode_as].
  change (frame false 0 207 (be 4 (xr_sender x) ++ List.concat (map (fun b => enc_sblock (abs_block b)) (xr_blocks x)))) with (enc_XR x).
  rewrite Hu. reflexivity.
Qed.

(* ------------------------------------------------------------------------------------------------ *)
(* the length hypothesis [len (enc_spec p) < 262144] is automatic except for SR / RR (unbounded       *)
(* profile extensions) and SDES (unbounded number of items per chunk)                                 *)
(* ------------------------------------------------------------------------------------------------ *)
Definition len_unbounded (p : packet) : bool := match p with PSR _ | PRR _ | PSDES _ => true | _ => false end.

Lemma len_bound_auto p : supported p = true -> in_D p = true -> len_unbounded p = false -> len (enc_spec p) < 262144.
Proof.
  intros Hs HD Hu. destruct (enc_size p Hs HD) as [E _]. rewrite E. clear E.
  destruct p as [x|x|x|x|x|x|x|x|x|x|x|x|x|x|b|l]; cbn [supported] in Hs; try discriminate Hs; try discriminate Hu;
    cbn [in_D] in HD; cbn [size_packet].
  - (* BYE *) destruct (D_BYE_inv x HD) as (Hn & _ & Hr). unfold BYE_size, nlen, nl in *. consts.
    match goal with |- ?l + get_padding ?l < _ => pose proof (get_padding_spec l) end.
    destruct (0 <? len (bye_reason x)); lia.
  - (* APP *) destruct (D_APP_inv x HD) as (_ & _ & _ & Hd). unfold APP_size. rewrite app_padding_eq.
    pose proof (get_padding_spec (len (app_data x))). lia.
  - (* NACK *) destruct (D_NACK_inv x HD) as (_ & _ & _ & Hn & _). unfold NACK_size, nlen, nl in *. consts. lia.
  - (* RRR *) unfold RRR_size. consts. lia.
  - (* TWCC *) destruct (TWCC_size_spec x HD) as [E _]. rewrite <- E, (enc_TWCC_frame x HD), len_frame', len_app, (twcc_padding_len x HD).
    revert HD. unfold D_TWCC. rewrite !andb_true_iff. intros (_ & H). apply N.leb_le in H. lia.
  - (* CCFB *) apply N.leb_le in Hs. lia.
  - (* PLI *) unfold PLI_size. consts. lia.
  - (* REMB *) revert HD. unfold D_REMB. rewrite !andb_true_iff. intros ((((_ & Hn) & _) & _) & _). apply N.leb_le in Hn.
    unfold REMB_size, nlen, nl in *. lia.
  - (* FIR *) destruct (D_FIR_inv x HD) as (_ & _ & _ & Hn & _). unfold FIR_size, nlen, nl in *. consts. lia.
Qed.

Corollary datagram_roundtrip_bounded : forall p, supported p = true -> in_D p = true -> len_unbounded p = false ->
  Unmarshal (enc_spec p) = Ok [q p].
Proof. intros p Hs HD Hu. apply datagram_roundtrip; try assumption. apply len_bound_auto; assumption. Qed.

(* ------------------------------------------------------------------------------------------------ *)
Print Assumptions marshal_is_rfc.
Print Assumptions own_roundtrip.
Print Assumptions marshal_then_unmarshal.
Print Assumptions marshal_framed.
Print Assumptions SR_framing_any_value.
Print Assumptions RR_framing_any_value.
Print Assumptions SDES_framing_any_value.
Print Assumptions BYE_framing_any_value.
Print Assumptions APP_framing_any_value.
Print Assumptions q_facts.
Print Assumptions q_idem.
Print Assumptions datagram_roundtrip.
Print Assumptions list_roundtrip.
Print Assumptions reencode_stable.
Print Assumptions marshal_unmarshal_marshal.
Print Assumptions XR_framing.
Print Assumptions marshal_is_rfc_enc.
Print Assumptions marshal_framed_enc.
Print Assumptions XR_roundtrip_canon.
Print Assumptions len_bound_auto.
Print Assumptions datagram_roundtrip_bounded.
