(* Round-trip statements phrased ONLY in terms of the functions translated from the Go source (module GoSrc of
   Gen/Funcs.v): obtained from the model-level theorems through the equivalences of Proofs/SourceEquiv.v. *)
From RTCP Require Import Proofs.Tactics Lib.GoSem Gen.Funcs Model.Header Model.Reports Model.Twcc Model.Ccfb Spec.Enc
  Proofs.HeaderProofs Proofs.Units Proofs.EncReports Proofs.SourceEquiv.
Local Open Scope N_scope.

(* header.go: whatever the receiver held before, decoding what Marshal produced yields the value that was encoded *)
Theorem source_header_roundtrip : forall p c t l rest h0, c < 32 -> t < 256 -> l < 65536 ->
  exists b, GoSrc.Header_Marshal (src_header (mkHeader p c t l)) = Ok b /\
            GoSrc.Header_Unmarshal h0 (b ++ rest) = Ok (src_header (mkHeader p c t l)).
Proof.
  intros p c t l rest h0 Hc Ht Hl.
  exists (hdr p c t l). split.
  - rewrite src_Header_Marshal. apply Header_marshal_spec; assumption.
  - rewrite src_Header_Unmarshal. rewrite (Header_unmarshal_hdr p c t l rest Hc Ht Hl). reflexivity.
Qed.

(* header.go: a count above 31 is never encoded; fewer than four octets are never decoded *)
Theorem source_header_limits : forall h h0 b,
  (31 < h_count h -> GoSrc.Header_Marshal (src_header h) = Err) /\
  (len b < 4 -> GoSrc.Header_Unmarshal h0 b = Err).
Proof.
  intros h h0 b. split; intro H.
  - rewrite src_Header_Marshal. unfold Header_marshal.
    destruct (h_pad h); destruct (N.ltb_spec 31 (h_count h)); try reflexivity; lia.
  - rewrite src_Header_Unmarshal. unfold Header_unmarshal. consts.
    destruct (N.ltb_spec (len b) 4); [reflexivity | lia].
Qed.

(* transport_layer_cc.go: receive deltas *)
Theorem source_recv_delta_roundtrip : forall d r0, delta_ok d = true -> delta_fits d ->
  exists b, GoSrc.RecvDelta_Marshal (src_delta d) = Ok b /\ GoSrc.RecvDelta_Unmarshal r0 b = Ok (src_delta d).
Proof.
  intros d r0 Hok Hf. destruct (RecvDelta_value_roundtrip d Hok) as [Hm Hu].
  exists (enc_delta d). split.
  - rewrite (src_RecvDelta_Marshal d Hf). exact Hm.
  - rewrite src_RecvDelta_Unmarshal, Hu. reflexivity.
Qed.

(* rfc8888.go: metric blocks *)
Theorem source_metric_roundtrip : forall m m0, D_metric m = true ->
  exists b, GoSrc.CCFeedbackMetricBlock_marshal (src_metric m) = Ok b /\
            GoSrc.CCFeedbackMetricBlock_unmarshal m0 b = Ok (src_metric m).
Proof.
  intros m m0 H. destruct (CCMetric_value_roundtrip m H) as [Hm Hu].
  exists (enc_metric m). split.
  - rewrite src_CCFeedbackMetricBlock_marshal. exact Hm.
  - rewrite src_CCFeedbackMetricBlock_unmarshal, Hu. reflexivity.
Qed.

(* reception_report.go: the 24-octet report block, with anything after it *)
Theorem source_reception_report_roundtrip : forall r rest r0, D_rrep r = true ->
  exists b, GoSrc.ReceptionReport_Marshal (src_rrep r) = Ok b /\
            GoSrc.ReceptionReport_Unmarshal r0 (b ++ rest) = Ok (src_rrep r).
Proof.
  intros r rest r0 H. exists (enc_rrep r). split.
  - rewrite src_ReceptionReport_Marshal. apply RRep_marshal_spec.
    unfold D_rrep in H. repeat match goal with H : (_ && _) = true |- _ => apply andb_prop in H; destruct H end.
    match goal with H : fits 24 (rr_lost r) = true |- _ => unfold fits in H; apply N.ltb_lt in H; exact H end.
  - rewrite src_ReceptionReport_Unmarshal, (RRep_unmarshal_enc r rest H). reflexivity.
Qed.
Print Assumptions source_header_roundtrip.
Print Assumptions source_header_limits.
Print Assumptions source_recv_delta_roundtrip.
Print Assumptions source_metric_roundtrip.
Print Assumptions source_reception_report_roundtrip.
