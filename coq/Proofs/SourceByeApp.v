(* SourceEquiv, part 2, group B5: goodbye.go and application_defined.go.
   The functions translated from the Go source (Gen/Funcs.v, module GoSrc) compute what the model functions of
   Model/ByeApp.v compute, on every outcome (Ok / Err / Panic; Fuel never arises).

   Method.  Nothing is evaluated to explicit octet lists: every Go primitive is turned into the Base primitive the model
   uses (gcopy -> copy_at, gbe_put -> put_be_at, gupd -> copy_at of one octet, gslice -> slice, ...) by the transfer lemmas
   of GoSemFacts.v and of the first section below; the view checks (gview/gview2/gcheck), which have no counterpart in the
   model, are discharged from the buffer length, which is tracked through the writes ([copy_at_len'], [put_be_at_len'],
   [put_u32s_len]).  Loops are related to the model's recursion (put_u32s / get_u32s) or to one copy_at of a repeated
   octet (the APP padding loop) by an induction with the accumulators generalised.  No [fits] hypothesis is needed for
   any of the encoders: both sides truncate over-wide fields in the same way. *)
From RTCP Require Import Proofs.Tactics Lib.GoSem Gen.Funcs Proofs.GoSemFacts Proofs.SourceEquiv Proofs.SrcConv
  Model.Header Model.Reports Model.ByeApp Model.Packet.
Local Open Scope Z_scope.

(* ================================================================================================ *)
(* MoreGoSemFacts: general facts about the GoSem primitives not covered by GoSemFacts.v               *)
(* ================================================================================================ *)
Section MoreGoSemFacts.

Lemma bind_assoc {A B C} (r : res A) (f : A -> res B) (g : B -> res C) :
  bind (bind r f) g = bind r (fun x => bind (f x) g).
Proof. destruct r; reflexivity. Qed.
(* the translator renders "x, err := f(); if err != nil { return err }" as a match: it is a bind *)
Lemma match_bind {A B} (r : res A) (f : A -> res B) :
  match r with Ok a => f a | Err => Err | Panic => Panic | Fuel => Fuel end = bind r f.
Proof. reflexivity. Qed.

Lemma Znat_ofN n : Z.to_nat (Z.of_N n) = N.to_nat n.
Proof. lia. Qed.

(* ---- lists ---- *)
Lemma glenl_nlen {A} (l : list A) : glenl l = Z.of_N (nlen l).
Proof. unfold glenl, nlen. rewrite nat_N_Z. reflexivity. Qed.
Lemma glenl_map {A B} (f : A -> B) (l : list A) : glenl (map f l) = glenl l.
Proof. unfold glenl. rewrite map_length. reflexivity. Qed.
Lemma glenl_zN l : glenl (zN l) = Z.of_N (nlen l).
Proof. unfold zN. rewrite glenl_map. apply glenl_nlen. Qed.
Lemma glenl_nonneg {A} (l : list A) : 0 <= glenl l.
Proof. unfold glenl. lia. Qed.
Lemma gmakel_nat {A} (z : A) n : gmakel z (Z.of_nat n) = Ok (repeat z n).
Proof. unfold gmakel. destruct (Z.ltb_spec (Z.of_nat n) 0); [lia|]. rewrite Nat2Z.id. reflexivity. Qed.
Lemma gmakel_N {A} (z : A) n : gmakel z (Z.of_N n) = Ok (repeat z (N.to_nat n)).
Proof. unfold gmakel. destruct (Z.ltb_spec (Z.of_N n) 0); [lia|]. rewrite Znat_ofN. reflexivity. Qed.
Lemma gmakel_neg {A} (z : A) n : n < 0 -> gmakel z n = Panic.
Proof. intros. unfold gmakel. destruct (Z.ltb_spec n 0); [reflexivity|lia]. Qed.
(* out := make([]T, len(src)); copy(out, src) *)
Lemma gcopyl_same_length {A} (dst src : list A) : length dst = length src -> gcopyl dst src = src.
Proof.
  intros H. unfold gcopyl. rewrite H, firstn_all, skipn_all2 by lia. apply app_nil_r.
Qed.
Lemma updl_nat_app {A} (a : list A) x r v : updl_nat (a ++ x :: r) (length a) v = a ++ v :: r.
Proof. induction a as [|y a IH]; cbn [app length updl_nat]; [reflexivity|]. f_equal. exact IH. Qed.
Lemma updl_nat_length {A} (v : A) : forall l i, length (updl_nat l i v) = length l.
Proof. induction l as [|x r IH]; intros [|i]; cbn [updl_nat length]; auto. Qed.
Lemma gupdl_app {A} (a : list A) x r i v : i = Z.of_nat (length a) -> gupdl (a ++ x :: r) i v = Ok (a ++ v :: r).
Proof.
  intros ->. unfold gupdl, glenl. rewrite app_length. cbn [length].
  destruct (Z.ltb_spec (Z.of_nat (length a)) 0); [lia|].
  destruct (Z.leb_spec (Z.of_nat (length a + S (length r))) (Z.of_nat (length a))); [lia|].
  cbn [orb]. rewrite Nat2Z.id, updl_nat_app. reflexivity.
Qed.
Lemma gupdl_panic {A} (l : list A) i v : i < 0 \/ glenl l <= i -> gupdl l i v = Panic.
Proof.
  intros H. unfold gupdl. destruct (Z.ltb_spec i 0); [reflexivity|].
  destruct (Z.leb_spec (glenl l) i); [reflexivity|lia].
Qed.
Lemma gnth_ok {A} (d : A) (l : list A) i : 0 <= i < glenl l -> gnth l i = Ok (nth (Z.to_nat i) l d).
Proof.
  intros H. unfold gnth. destruct (Z.ltb_spec i 0); [lia|]. destruct (Z.leb_spec (glenl l) i); [lia|].
  cbn [orb]. rewrite (nth_error_nth' l d) by (unfold glenl in H; lia). reflexivity.
Qed.
Lemma gnth_panic {A} (l : list A) i : i < 0 \/ glenl l <= i -> gnth l i = Panic.
Proof.
  intros H. unfold gnth. destruct (Z.ltb_spec i 0); [reflexivity|].
  destruct (Z.leb_spec (glenl l) i); [reflexivity|lia].
Qed.

(* ---- views: x[lo:] and x[lo:hi] of a view (b, off) only check bounds ---- *)
Lemma gview_ok b off lo : 0 <= lo -> off + lo <= glen b -> gview b off lo = Ok tt.
Proof.
  intros H1 H2. unfold gview. destruct (Z.ltb_spec lo 0); [lia|]. destruct (Z.ltb_spec (glen b - off) lo); [lia|].
  reflexivity.
Qed.
Lemma gview_panic b off lo : lo < 0 \/ glen b < off + lo -> gview b off lo = Panic.
Proof.
  intros H. unfold gview. destruct (Z.ltb_spec lo 0); [reflexivity|].
  destruct (Z.ltb_spec (glen b - off) lo); [reflexivity|lia].
Qed.
(* a bounds check followed by something that panics anyway when the check fails *)
Lemma gview_absorb {A} b off lo (r : res A) :
  0 <= lo -> (glen b < off + lo -> r = Panic) -> bind (gview b off lo) (fun _ => r) = r.
Proof.
  intros H1 H2. destruct (Z.lt_ge_cases (glen b) (off + lo)) as [L|L].
  - rewrite gview_panic by lia. rewrite (H2 L). reflexivity.
  - rewrite gview_ok by lia. reflexivity.
Qed.
Lemma gview2_ok b off lo hi : 0 <= lo <= hi -> off + hi <= glen b -> gview2 b off lo hi = Ok tt.
Proof.
  intros H1 H2. unfold gview2. destruct (Z.ltb_spec lo 0); [lia|]. destruct (Z.ltb_spec hi lo); [lia|].
  destruct (Z.ltb_spec (glen b - off) hi); [lia|]. reflexivity.
Qed.
Lemma gview2_panic b off lo hi : lo < 0 \/ hi < lo \/ glen b < off + hi -> gview2 b off lo hi = Panic.
Proof.
  intros H. unfold gview2. destruct (Z.ltb_spec lo 0); [reflexivity|]. destruct (Z.ltb_spec hi lo); [reflexivity|].
  destruct (Z.ltb_spec (glen b - off) hi); [reflexivity|lia].
Qed.
Lemma gcheck_true : gcheck true = Ok tt.  Proof. reflexivity. Qed.

(* ---- copy(dst[off:], src) is Base's copy_at ---- *)
Lemma gcopy_N dst off src : gcopy dst (Z.of_N off) src = copy_at dst off src.
Proof.
  unfold gcopy, copy_at. rewrite !glen_len.
  destruct (Z.ltb_spec (Z.of_N off) 0); [lia|].
  destruct (Z.ltb_spec (Z.of_N (len dst)) (Z.of_N off)), (N.ltb_spec (len dst) off); try lia; cbn [orb]; [reflexivity|].
  assert (En : Z.to_nat (Z.min (Z.of_N (len dst) - Z.of_N off) (Z.of_N (len src))) =
               Nat.min (length src) (length dst - N.to_nat off)) by (unfold len in *; lia).
  assert (Eo : Z.to_nat (Z.of_N off + Z.min (Z.of_N (len dst) - Z.of_N off) (Z.of_N (len src))) =
               (N.to_nat off + Nat.min (length src) (length dst - N.to_nat off))%nat) by (unfold len in *; lia).
  rewrite En, Eo, Znat_ofN. reflexivity.
Qed.
Lemma gcopy_Z dst off src : 0 <= off -> gcopy dst off src = copy_at dst (Z.to_N off) src.
Proof. intros H. rewrite <- (Z2N.id off H) at 1. apply gcopy_N. Qed.
Lemma gcopy_0 dst src : gcopy dst 0 src = copy_at dst 0 src.
Proof. exact (gcopy_N dst 0 src). Qed.
Lemma gcopy_pos dst p src : gcopy dst (Z.pos p) src = copy_at dst (N.pos p) src.
Proof. exact (gcopy_N dst (N.pos p) src). Qed.
Lemma gcopy_panic dst off src : off < 0 \/ glen dst < off -> gcopy dst off src = Panic.
Proof.
  intros H. unfold gcopy. destruct (Z.ltb_spec off 0); [reflexivity|].
  destruct (Z.ltb_spec (glen dst) off); [reflexivity|lia].
Qed.
(* copy(dst[off:off+lim], src): the window is checked first, then at most lim octets are copied *)
Lemma gcopy_lim_N dst off lim src :
  gcopy_lim dst (Z.of_N off) (Z.of_N lim) src =
  if (len dst <? off + lim)%N then Panic else copy_at dst off (firstn (N.to_nat lim) src).
Proof.
  unfold gcopy_lim, copy_at. rewrite !glen_len.
  destruct (Z.ltb_spec (Z.of_N off) 0); [lia|]. destruct (Z.ltb_spec (Z.of_N lim) 0); [lia|].
  destruct (Z.ltb_spec (Z.of_N (len dst)) (Z.of_N off + Z.of_N lim)), (N.ltb_spec (len dst) (off + lim)); try lia;
    cbn [orb]; [reflexivity|].
  destruct (N.ltb_spec (len dst) off); [lia|].
  rewrite firstn_firstn, firstn_length.
  assert (En : Z.to_nat (Z.min (Z.of_N lim) (Z.of_N (len src))) =
               Nat.min (Nat.min (N.to_nat lim) (length src)) (length dst - N.to_nat off)) by (unfold len in *; lia).
  assert (Em : Nat.min (Nat.min (Nat.min (N.to_nat lim) (length src)) (length dst - N.to_nat off)) (N.to_nat lim) =
               Nat.min (Nat.min (N.to_nat lim) (length src)) (length dst - N.to_nat off)) by lia.
  assert (Eo : Z.to_nat (Z.of_N off + Z.min (Z.of_N lim) (Z.of_N (len src))) =
               (N.to_nat off + Nat.min (Nat.min (N.to_nat lim) (length src)) (length dst - N.to_nat off))%nat)
    by (unfold len in *; lia).
  rewrite Em, Eo, En, Znat_ofN. reflexivity.
Qed.
Lemma gcopy_lim_fit dst off lim src :
  0 <= off -> 0 <= lim -> off + lim <= glen dst -> glen src <= lim ->
  gcopy_lim dst off lim src = copy_at dst (Z.to_N off) src.
Proof.
  intros H1 H2 H3 H4. rewrite <- (Z2N.id off H1) at 1. rewrite <- (Z2N.id lim H2) at 1. rewrite gcopy_lim_N.
  rewrite glen_len in *. destruct (N.ltb_spec (len dst) (Z.to_N off + Z.to_N lim)); [lia|].
  rewrite firstn_all2 by (unfold len in *; lia). reflexivity.
Qed.

(* ---- binary.BigEndian.UintK(b[off:]) and UintK(b[i:i+k]) followed by the rest of the function ---- *)
Lemma gslice_from_be_get {A} k b off (F : Z -> res A) :
  bind (gslice_from b (Z.of_N off)) (fun t => bind (gbe_get k t) F) = bind (get_be_at k b off) (fun x => F (Z.of_N x)).
Proof.
  rewrite <- (bind_assoc (gslice_from b (Z.of_N off)) (gbe_get k) F). rewrite gbe_get_at. apply bind_res_map.
Qed.
Lemma gslice_be_get {A} k b i (F : Z -> res A) :
  bind (gslice b (Z.of_N i) (Z.of_N (i + N.of_nat k))) (fun t => bind (gbe_get k t) F) =
  bind (get_be_at k b i) (fun x => F (Z.of_N x)).
Proof.
  rewrite gslice_N. unfold slice, get_be_at.
  destruct (N.ltb_spec (len b) (i + N.of_nat k)); [reflexivity|].
  destruct (N.ltb_spec (i + N.of_nat k) i); [lia|]. cbn [orb bind].
  rewrite gbe_get_ok by (rewrite glen_firstn, glen_skipn, glen_len; lia). cbn [bind].
  rewrite firstn_firstn. replace (Nat.min k (N.to_nat (i + N.of_nat k - i))) with k by lia. reflexivity.
Qed.

(* ---- Base: writes keep the length; a copy is a sequence of one-octet copies ---- *)
Local Open Scope N_scope.
Lemma copy_at_len' dst off src r : copy_at dst off src = Ok r -> len r = len dst.
Proof.
  unfold copy_at. destruct (N.ltb_spec (len dst) off); [discriminate|]. intros E. inversion E. clear E.
  unfold len in *. rewrite !app_length, !firstn_length, skipn_length. lia.
Qed.
Lemma put_be_at_len' k dst off x r : put_be_at k dst off x = Ok r -> len r = len dst.
Proof. unfold put_be_at. destruct (len dst <? off + N.of_nat k); [discriminate|]. apply copy_at_len'. Qed.
Lemma copy_at_nil dst off : off <= len dst -> copy_at dst off [] = Ok dst.
Proof.
  intros H. unfold copy_at. destruct (N.ltb_spec (len dst) off); [lia|].
  cbn [length Nat.min firstn app]. rewrite Nat.add_0_r, firstn_skipn. reflexivity.
Qed.
Lemma copy_at_mid pre old post src : length old = length src ->
  copy_at (pre ++ old ++ post) (len pre) src = Ok (pre ++ src ++ post).
Proof.
  intros H. unfold copy_at, len. rewrite !app_length.
  destruct (N.ltb_spec (N.of_nat (length pre + (length old + length post))) (N.of_nat (length pre))); [lia|].
  rewrite Nat2N.id. rewrite Nat.min_l by lia. rewrite firstn_all.
  rewrite firstn_app, firstn_all, Nat.sub_diag. cbn [firstn]. rewrite app_nil_r.
  rewrite skipn_app, skipn_all2 by lia. cbn [app].
  replace (length pre + length src - length pre)%nat with (length old) by lia.
  rewrite skipn_app, skipn_all, Nat.sub_diag. reflexivity.
Qed.
Lemma split3 (b : bytes) (o n : nat) : (o + n <= length b)%nat ->
  exists pre old post, b = pre ++ old ++ post /\ length pre = o /\ length old = n.
Proof.
  intros H. exists (firstn o b), (firstn n (skipn o b)), (skipn n (skipn o b)).
  rewrite !firstn_skipn. rewrite !firstn_length, skipn_length. repeat split; lia.
Qed.
Lemma copy_at_cons dst off x rest : off + 1 + N.of_nat (length rest) <= len dst ->
  copy_at dst off (x :: rest) = bind (copy_at dst off [x]) (fun r => copy_at r (off + 1) rest).
Proof.
  intros H. destruct (split3 dst (N.to_nat off) (S (length rest))) as (pre & old & post & E & Lp & Lo);
    [unfold len in H; lia|].
  destruct old as [|y old]; [discriminate Lo|]. cbn [length] in Lo. subst dst.
  assert (Eoff : off = len pre) by (unfold len; lia). rewrite Eoff.
  rewrite (copy_at_mid pre (y :: old) post (x :: rest)) by (cbn [length]; lia).
  change (pre ++ (y :: old) ++ post) with (pre ++ [y] ++ (old ++ post)).
  rewrite (copy_at_mid pre [y] (old ++ post) [x]) by reflexivity. cbn [bind].
  replace (pre ++ [x] ++ old ++ post) with ((pre ++ [x]) ++ old ++ post) by (rewrite <- app_assoc; reflexivity).
  replace (len pre + 1) with (len (pre ++ [x])) by (unfold len; rewrite app_length; cbn [length]; lia).
  rewrite (copy_at_mid (pre ++ [x]) old post rest) by lia.
  rewrite <- app_assoc. reflexivity.
Qed.
Local Close Scope N_scope.

End MoreGoSemFacts.

(* shared: the Length field of the header, computed from a packet size of at least one word *)
Lemma hlen_eq s : (4 <= s)%N -> uwrap 16 (Z.quot (Z.of_N s) 4 - 1) = Z.of_N (u16 (s / 4 - 1)).
Proof.
  intros H. rewrite Z.quot_div_nonneg by lia. rewrite <- uwrap16_N. f_equal. lia.
Qed.

(* ================================================================================================ *)
(* goodbye.go                                                                                        *)
(* ================================================================================================ *)
Lemma BYE_size_bound g :
  (4 + nlen (bye_sources g) * 4 + (if 0 <? len (bye_reason g) then len (bye_reason g) + 1 else 0) <= BYE_size g)%N.
Proof. unfold BYE_size. consts. cbv zeta. destruct (0 <? len (bye_reason g))%N; lia. Qed.
Lemma BYE_size_ge4 g : (4 <= BYE_size g)%N.
Proof. pose proof (BYE_size_bound g). lia. Qed.

Lemma src_Goodbye_MarshalSize : forall g, GoSrc.Goodbye_MarshalSize (src_bye g) = Z.of_N (BYE_size g).
Proof.
  intros g. unfold GoSrc.Goodbye_MarshalSize, BYE_size, src_bye. cbn [GoSrc.Goodbye_Sources GoSrc.Goodbye_Reason].
  consts. rewrite glenl_zN, glen_len. cbv zeta. go2n.
  destruct (0 <? len (bye_reason g))%N; rewrite src_getPadding; go2n; reflexivity.
Qed.

Lemma src_Goodbye_Header : forall g, GoSrc.Goodbye_Header (src_bye g) = src_header (BYE_header g).
Proof.
  intros g. unfold GoSrc.Goodbye_Header, BYE_header, src_header. cbn [h_pad h_count h_type h_len].
  rewrite src_Goodbye_MarshalSize, hlen_eq by apply BYE_size_ge4.
  unfold src_bye. cbn [GoSrc.Goodbye_Sources]. rewrite glenl_zN, uwrap8_N. reflexivity.
Qed.

Lemma src_Goodbye_DestinationSSRC : forall g,
  GoSrc.Goodbye_DestinationSSRC (src_bye g) = Ok (zN (dest_packet (PBYE g))).
Proof.
  intros g. unfold GoSrc.Goodbye_DestinationSSRC, src_bye. cbn [GoSrc.Goodbye_Sources dest_packet]. unfold BYE_dest.
  unfold glenl. rewrite gmakel_nat. cbn [bind]. rewrite gcopyl_same_length by apply repeat_length. reflexivity.
Qed.

(* ---- Marshal ---- *)
Lemma put_u32s_len : forall l raw off r, put_u32s raw off l = Ok r -> len r = len raw.
Proof.
  induction l as [|x l IH]; intros raw off r E; cbn [put_u32s] in E.
  - inversion E. reflexivity.
  - destruct (put_be_at 4 raw off x) as [raw1| | |] eqn:E1; cbn [bind] in E; try discriminate E.
    apply put_be_at_len' in E1. rewrite <- E1. exact (IH _ _ _ E).
Qed.

(* the range loop over g.Sources: from index i, with any buffer, it is the model's put_u32s followed by the code after the
   loop.  No length hypothesis: where the view check rawPacket[headerLength:][i*4:] fails, PutUint32 panics as well. *)
Lemma Goodbye_Marshal_loop1_spec g : forall l i raw,
  GoSrc.Goodbye_Marshal_loop1 (zN l) (Z.of_N i) g raw =
  bind (put_u32s raw (4 + 4 * i) l) (GoSrc.Goodbye_Marshal_after1 g).
Proof.
  induction l as [|x l IH]; intros i raw.
  - reflexivity.
  - change (zN (x :: l)) with (Z.of_N x :: zN l). cbn [GoSrc.Goodbye_Marshal_loop1 put_u32s]. cbv zeta.
    replace (4 + Z.of_N i * 4) with (Z.of_N (4 + 4 * i)) by lia.
    replace (Z.of_N i + 1) with (Z.of_N (i + 1)) by lia.
    rewrite gbe_put_N. rewrite gview_absorb.
    + rewrite bind_assoc. apply bind_ext. intros raw1. rewrite IH.
      replace (4 + 4 * (i + 1))%N with (4 + 4 * i + 4)%N by lia. reflexivity.
    + lia.
    + intros L. unfold put_be_at. rewrite glen_len in L.
      destruct (N.ltb_spec (len raw) (4 + 4 * i + N.of_nat 4)); [reflexivity|lia].
Qed.

(* the model's code after the loop *)
Definition BYE_tail (g : BYE) (raw : bytes) : res bytes :=
  (let* raw :=
    (if 0 <? len (bye_reason g) then
       if c_sdesMaxOctetCount <? len (bye_reason g) then Err else
       let ro := c_headerLength + nlen (bye_sources g) * c_ssrcLength in
       let* raw := copy_at raw ro [n2b (len (bye_reason g))] in
       copy_at raw (ro + 1) (bye_reason g)
     else Ok raw) in
  let* h := Header_marshal (BYE_header g) in
  copy_at raw 0 h)%N.
Lemma BYE_marshal_tail g :
  BYE_marshal g =
  if (c_countMax <? nlen (bye_sources g))%N then Err
  else bind (put_u32s (zeros (BYE_size g)) c_headerLength (bye_sources g)) (BYE_tail g).
Proof. reflexivity. Qed.

Lemma Goodbye_Marshal_after1_spec g raw : len raw = BYE_size g ->
  GoSrc.Goodbye_Marshal_after1 (src_bye g) raw = BYE_tail g raw.
Proof.
  intros Hl. unfold GoSrc.Goodbye_Marshal_after1, BYE_tail. cbv zeta.
  rewrite src_Goodbye_Header, src_Header_Marshal. rewrite !match_bind.
  unfold src_bye. cbn [GoSrc.Goodbye_Reason GoSrc.Goodbye_Sources]. rewrite glenl_zN.
  pose proof (BYE_size_bound g) as Hb. consts.
  destruct (bye_reason g) as [|c rs] eqn:Er.
  - cbn [bytes_eqb negb]. change (0 <? len [])%N with false. cbn [bind].
    apply bind_ext. intros h. rewrite gcopy_0. apply bind_Ok_r.
  - cbn [bytes_eqb negb].
    destruct (N.ltb_spec 0 (len (c :: rs))) as [Hpos|Hpos]; [|rewrite len_cons in Hpos; lia].
    rewrite glen_len, Zltb_N_l.
    destruct (N.ltb_spec 255 (len (c :: rs))) as [Hbig|Hbig]; [reflexivity|].
    rewrite gupd_v_eq by lia.
    replace (4 + Z.of_N (nlen (bye_sources g)) * 4) with (Z.of_N (4 + nlen (bye_sources g) * 4)) by lia.
    rewrite gupd_copy_at by lia.
    rewrite byte_of_Z_uwrap by lia. rewrite byte_of_Z_N.
    destruct (copy_at raw (4 + nlen (bye_sources g) * 4) [n2b (len (c :: rs))]) as [raw1| | |] eqn:E1; cbn [bind];
      try reflexivity.
    apply copy_at_len' in E1.
    rewrite gview_ok by (rewrite ?glen_len; lia). cbn [bind].
    replace (4 + (Z.of_N (nlen (bye_sources g)) * 4 + 1)) with (Z.of_N (4 + nlen (bye_sources g) * 4 + 1)) by lia.
    rewrite gcopy_N.
    destruct (copy_at raw1 (4 + nlen (bye_sources g) * 4 + 1) (c :: rs)) as [raw2| | |]; cbn [bind]; try reflexivity.
    rewrite match_bind. apply bind_ext. intros h. rewrite gcopy_0. apply bind_Ok_r.
Qed.

Lemma src_Goodbye_Marshal : forall g, GoSrc.Goodbye_Marshal (src_bye g) = BYE_marshal g.
Proof.
  intros g. rewrite BYE_marshal_tail. unfold GoSrc.Goodbye_Marshal.
  rewrite src_Goodbye_MarshalSize, gmake_N. cbn [bind]. cbv zeta.
  pose proof (BYE_size_ge4 g) as H4.
  rewrite gslice_from_ok by (rewrite glen_zeros; lia). cbn [bind].
  replace (GoSrc.Goodbye_Sources (src_bye g)) with (zN (bye_sources g)) by reflexivity.
  rewrite glenl_zN. go2n. consts.
  destruct (31 <? nlen (bye_sources g))%N; [reflexivity|].
  rewrite (Goodbye_Marshal_loop1_spec (src_bye g) (bye_sources g) 0%N). change (4 + 4 * 0)%N with 4%N.
  destruct (put_u32s (zeros (BYE_size g)) 4 (bye_sources g)) as [raw1| | |] eqn:E1; cbn [bind]; try reflexivity.
  apply put_u32s_len in E1. rewrite len_zeros in E1.
  apply Goodbye_Marshal_after1_spec. exact E1.
Qed.

(* ---- Unmarshal ---- *)
Lemma zN_app a b : zN (a ++ b) = zN a ++ zN b.
Proof. apply map_app. Qed.
Lemma zN_length l : length (zN l) = length l.
Proof. apply map_length. Qed.

(* the code after the loop: the optional reason.  [r0] is the receiver's Reason, which the Go code leaves alone when the
   packet carries none. *)
Definition BYE_reason_of (raw : bytes) (reasonOffset : N) (r0 : bytes) : res bytes :=
  (if reasonOffset <? len raw then
     let* rl := idx raw reasonOffset in
     let reasonEnd := reasonOffset + 1 + b2n rl in
     if len raw <? reasonEnd then Err else
     slice raw (reasonOffset + 1) reasonEnd
   else Ok r0)%N.

Lemma Goodbye_Unmarshal_after1_spec srcs r0 h i raw ro :
  GoSrc.Goodbye_Unmarshal_after1 (GoSrc.mkGoodbye srcs r0) h i raw (Z.of_N ro) =
  bind (BYE_reason_of raw ro r0) (fun reason => Ok (GoSrc.mkGoodbye srcs reason)).
Proof.
  unfold GoSrc.Goodbye_Unmarshal_after1, BYE_reason_of. cbv zeta. rewrite glen_len, Zltb_N.
  destruct (ro <? len raw)%N; [|reflexivity].
  rewrite gidx_idx, bind_res_map. rewrite bind_assoc. apply bind_ext. intros rl.
  replace (Z.of_N ro + 1 + Z.of_N (b2n rl)) with (Z.of_N (ro + 1 + b2n rl)) by lia.
  replace (Z.of_N ro + 1) with (Z.of_N (ro + 1)) by lia.
  rewrite Zltb_N. destruct (len raw <? ro + 1 + b2n rl)%N; [reflexivity|].
  rewrite gslice_N. reflexivity.
Qed.

(* the counted loop over header.Count: with i sources already read ([done]) and k to go, it is the model's get_u32s k
   followed by the code after the loop; the fuel suffices when it exceeds k *)
Lemma Goodbye_Unmarshal_loop1_spec raw ro h r0 : forall k fuel i done,
  (k < fuel)%nat -> Z.of_N i + Z.of_nat k = GoSrc.Header_Count h -> length done = N.to_nat i ->
  GoSrc.Goodbye_Unmarshal_loop1 fuel (GoSrc.mkGoodbye (zN done ++ repeat 0 k) r0) h (Z.of_N i) raw ro =
  bind (get_u32s k raw (4 + 4 * i))
       (fun r => GoSrc.Goodbye_Unmarshal_after1 (GoSrc.mkGoodbye (zN (done ++ r)) r0) h 0 raw ro).
Proof.
  induction k as [|k IH]; intros fuel i done Hf Hc Hd; (destruct fuel as [|fuel]; [lia|]);
    cbn [GoSrc.Goodbye_Unmarshal_loop1 get_u32s repeat bind].
  - destruct (Z.ltb_spec (Z.of_N i) (GoSrc.Header_Count h)); [lia|].
    rewrite !app_nil_r. reflexivity.
  - destruct (Z.ltb_spec (Z.of_N i) (GoSrc.Header_Count h)); [|lia].
    cbv zeta. replace (4 + Z.of_N i * 4) with (Z.of_N (4 + 4 * i)) by lia.
    rewrite gslice_from_be_get. rewrite bind_assoc. apply bind_ext. intros x.
    cbn [GoSrc.Goodbye_Sources].
    rewrite gupdl_app by (rewrite zN_length; lia). cbn [bind].
    unfold GoSrc.set_Goodbye_Sources. cbn [GoSrc.Goodbye_Reason].
    replace (zN done ++ Z.of_N x :: repeat 0 k) with (zN (done ++ [x]) ++ repeat 0 k)
      by (rewrite zN_app, <- app_assoc; reflexivity).
    replace (Z.of_N i + 1) with (Z.of_N (i + 1)) by lia.
    rewrite IH by (rewrite ?app_length; cbn [length]; lia).
    replace (4 + 4 * (i + 1))%N with (4 + 4 * i + 4)%N by lia.
    rewrite bind_assoc. apply bind_ext. intros r. cbn [bind]. rewrite <- app_assoc. reflexivity.
Qed.

(* general receiver: Sources is rebuilt; Reason is assigned only when the packet carries one, so the receiver must start
   with an empty Reason for the result to be the model's *)
Lemma src_Goodbye_Unmarshal_gen : forall g0 b, GoSrc.Goodbye_Reason g0 = [] ->
  GoSrc.Goodbye_Unmarshal g0 b = res_map src_bye (BYE_unmarshal b).
Proof.
  intros g0 b Hr. unfold GoSrc.Goodbye_Unmarshal, BYE_unmarshal. cbv zeta.
  rewrite src_Header_Unmarshal.
  destruct (Header_unmarshal b) as [h| | |]; cbn [res_map bind]; try reflexivity.
  unfold src_header. src_fields. consts.
  rewrite Zeqb_N_r. destruct (h_type h =? 203)%N; cbn [negb]; [|reflexivity].
  rewrite glen_len, src_getPadding, Zeqb_N_0r. destruct (get_padding (len b) =? 0)%N; cbn [negb]; [|reflexivity].
  rewrite gmakel_N. cbn [bind].
  rewrite Zmul_N_r, uwrap8_N, Zadd_N_l, uwrap8_N.
  rewrite Zltb_N. destruct (len b <? u8 (4 + u8 (h_count h * 4)))%N; [reflexivity|].
  unfold GoSrc.set_Goodbye_Sources. rewrite Hr.
  rewrite (Goodbye_Unmarshal_loop1_spec b _ _ [] (N.to_nat (h_count h)) _ 0%N []);
    [|lia|cbn [GoSrc.Header_Count]; lia|reflexivity].
  change (4 + 4 * 0)%N with 4%N. rewrite res_map_bind. apply bind_ext. intros srcs.
  rewrite Goodbye_Unmarshal_after1_spec. fold (BYE_reason_of b (u8 (4 + u8 (h_count h * 4))) []).
  rewrite res_map_bind. reflexivity.
Qed.

Lemma src_Goodbye_Unmarshal : forall b,
  GoSrc.Goodbye_Unmarshal GoSrc.zero_Goodbye b = res_map src_bye (BYE_unmarshal b).
Proof. intros b. apply src_Goodbye_Unmarshal_gen. reflexivity. Qed.

(* the hypothesis of the general-receiver form is needed: Go's Unmarshal does not reset Reason when the packet has none *)
Lemma src_Goodbye_Unmarshal_gen_refuted_without_empty_reason :
  exists g0 b, GoSrc.Goodbye_Unmarshal g0 b <> res_map src_bye (BYE_unmarshal b).
Proof.
  exists (GoSrc.mkGoodbye [] [x41]), [x80; xcb; x00; x00]. vm_compute. discriminate.
Qed.

(* ================================================================================================ *)
(* application_defined.go                                                                            *)
(* ================================================================================================ *)
Lemma src_ApplicationDefined_MarshalSize : forall a,
  GoSrc.ApplicationDefined_MarshalSize (src_app a) = Z.of_N (APP_size a).
Proof.
  intros a. unfold GoSrc.ApplicationDefined_MarshalSize, APP_size, app_padding, src_app.
  cbn [GoSrc.ApplicationDefined_Data]. rewrite glen_len. cbv zeta. rewrite Z.rem_mod_nonneg by lia.
  destruct (Z.eqb_spec (4 - Z.of_N (len (app_data a)) mod 4) 4), (N.eqb_spec (4 - len (app_data a) mod 4) 4); lia.
Qed.

Lemma src_ApplicationDefined_DestinationSSRC : forall a,
  GoSrc.ApplicationDefined_DestinationSSRC (src_app a) = zN (dest_packet (PAPP a)).
Proof. reflexivity. Qed.

(* ---- Marshal ---- *)
Lemma APP_size_eq a : APP_size a = (12 + len (app_data a) + app_padding (len (app_data a)))%N.
Proof. reflexivity. Qed.
Lemma app_padding_Z d : (if 4 - Z.rem (Z.of_N d) 4 =? 4 then 0 else 4 - Z.rem (Z.of_N d) 4) = Z.of_N (app_padding d).
Proof.
  unfold app_padding. rewrite Z.rem_mod_nonneg by lia.
  destruct (Z.eqb_spec (4 - Z.of_N d mod 4) 4), (N.eqb_spec (4 - d mod 4) 4); lia.
Qed.
Lemma app_padding_lt d : (app_padding d < 4)%N.
Proof. unfold app_padding. destruct (N.eqb_spec (4 - d mod 4) 4); lia. Qed.

(* the padding loop (second copy, the one that is reached with paddingSize > 0): from index i, with k octets to go, it is
   one copy_at of k padding octets *)
Lemma ApplicationDefined_Marshal_loop2_spec a dl hb h size p : forall k fuel i raw,
  (k < fuel)%nat -> (i + N.of_nat k = p)%N -> (12 + dl + p <= len raw)%N ->
  GoSrc.ApplicationDefined_Marshal_loop2 fuel a (Z.of_N dl) hb h (Z.of_N i) size (Z.of_N p) raw =
  copy_at raw (12 + dl + i) (repeat (n2b p) k).
Proof.
  induction k as [|k IH]; intros fuel i raw Hf Hi Hl; (destruct fuel as [|fuel]; [lia|]);
    cbn [GoSrc.ApplicationDefined_Marshal_loop2 repeat].
  - destruct (Z.ltb_spec (Z.of_N i) (Z.of_N p)); [lia|].
    unfold GoSrc.ApplicationDefined_Marshal_after2. rewrite copy_at_nil by lia. reflexivity.
  - destruct (Z.ltb_spec (Z.of_N i) (Z.of_N p)); [|lia]. cbv zeta.
    replace (12 + Z.of_N dl + Z.of_N i) with (Z.of_N (12 + dl + i)) by lia.
    rewrite gupd_copy_at by lia. rewrite byte_of_Z_uwrap by lia. rewrite byte_of_Z_N.
    rewrite (copy_at_cons raw (12 + dl + i) (n2b p) (repeat (n2b p) k)) by (rewrite repeat_length; lia).
    destruct (copy_at raw (12 + dl + i) [n2b p]) as [raw1| | |] eqn:E1; cbn [bind]; try reflexivity.
    apply copy_at_len' in E1.
    replace (Z.of_N i + 1) with (Z.of_N (i + 1)) by lia.
    rewrite IH by lia. f_equal. lia.
Qed.
(* the first copy sits in the branch where paddingSize has been set to 0; it is never entered, but it satisfies the same
   statement *)
Lemma ApplicationDefined_Marshal_loop1_spec a dl hb h size p : forall k fuel i raw,
  (k < fuel)%nat -> (i + N.of_nat k = p)%N -> (12 + dl + p <= len raw)%N ->
  GoSrc.ApplicationDefined_Marshal_loop1 fuel a (Z.of_N dl) h hb (Z.of_N i) size (Z.of_N p) raw =
  copy_at raw (12 + dl + i) (repeat (n2b p) k).
Proof.
  induction k as [|k IH]; intros fuel i raw Hf Hi Hl; (destruct fuel as [|fuel]; [lia|]);
    cbn [GoSrc.ApplicationDefined_Marshal_loop1 repeat].
  - destruct (Z.ltb_spec (Z.of_N i) (Z.of_N p)); [lia|].
    unfold GoSrc.ApplicationDefined_Marshal_after1. rewrite copy_at_nil by lia. reflexivity.
  - destruct (Z.ltb_spec (Z.of_N i) (Z.of_N p)); [|lia]. cbv zeta.
    replace (12 + Z.of_N dl + Z.of_N i) with (Z.of_N (12 + dl + i)) by lia.
    rewrite gupd_copy_at by lia. rewrite byte_of_Z_uwrap by lia. rewrite byte_of_Z_N.
    rewrite (copy_at_cons raw (12 + dl + i) (n2b p) (repeat (n2b p) k)) by (rewrite repeat_length; lia).
    destruct (copy_at raw (12 + dl + i) [n2b p]) as [raw1| | |] eqn:E1; cbn [bind]; try reflexivity.
    apply copy_at_len' in E1.
    replace (Z.of_N i + 1) with (Z.of_N (i + 1)) by lia.
    rewrite IH by lia. f_equal. lia.
Qed.

Lemma app_header_eq pz pn st L : pz = Z.of_N pn ->
  GoSrc.mkHeader (negb (pz =? 0)) (Z.of_N st) 204 (Z.of_N L) =
  src_header {| h_pad := negb (pn =? 0)%N; h_count := st; h_type := c_TypeApplicationDefined; h_len := L |}.
Proof. intros ->. unfold src_header. cbn [h_pad h_count h_type h_len]. rewrite Zeqb_N_0r. reflexivity. Qed.

Lemma src_ApplicationDefined_Marshal : forall a, GoSrc.ApplicationDefined_Marshal (src_app a) = APP_marshal a.
Proof.
  intros a. unfold GoSrc.ApplicationDefined_Marshal, APP_marshal.
  rewrite !src_ApplicationDefined_MarshalSize.
  unfold src_app. cbn [GoSrc.ApplicationDefined_Data GoSrc.ApplicationDefined_Name GoSrc.ApplicationDefined_SubType
                       GoSrc.ApplicationDefined_SSRC].
  rewrite !glen_len. cbv zeta.
  change (65535 - 12)%N with 65523%N. rewrite Zltb_N_l.
  destruct (N.ltb_spec 65523 (len (app_data a))) as [Hbig|Hbig]; [reflexivity|].
  rewrite Zeqb_N_r. destruct (N.eqb_spec (len (app_name a)) 4) as [Hn|Hn]; cbn [negb]; [|reflexivity].
  pose proof (app_padding_Z (len (app_data a))) as HP.
  pose proof (app_padding_lt (len (app_data a))) as Hlt.
  pose proof (APP_size_eq a) as Hs.
  assert (Hrem : 0 <= Z.rem (Z.of_N (len (app_data a))) 4 < 4) by (rewrite Z.rem_mod_nonneg by lia; lia).
  rewrite hlen_eq by lia.
  destruct (4 - Z.rem (Z.of_N (len (app_data a))) 4 =? 4) eqn:E4; try rewrite E4 in HP;
    [rewrite (app_header_eq 0 (app_padding (len (app_data a)))) by lia
    |rewrite HP; rewrite (app_header_eq (Z.of_N (app_padding (len (app_data a)))) (app_padding (len (app_data a))))
       by reflexivity].
  all: rewrite src_Header_Marshal.
  all: destruct (Header_marshal _) as [hb| | |]; cbn [bind]; try reflexivity.
  all: rewrite gmake_N; cbn [bind]; rewrite gcopy_0.
  all: destruct (copy_at (zeros (APP_size a)) 0 hb) as [r1| | |] eqn:E1; cbn [bind]; try reflexivity.
  all: apply copy_at_len' in E1; rewrite len_zeros in E1.
  all: rewrite gview2_ok by (rewrite ?glen_len; lia); cbn [bind].
  all: change (gcheck (4 <=? 8 - 4)) with (Ok tt); cbn [bind].
  all: rewrite (gbe_put_N 4 r1 4%N).
  all: destruct (put_be_at 4 r1 4 (app_ssrc a)) as [r2| | |] eqn:E2; cbn [bind]; try reflexivity.
  all: apply put_be_at_len' in E2.
  all: rewrite gview2_ok by (rewrite ?glen_len; lia); cbn [bind].
  all: change (12 - 8) with 4.
  all: rewrite gcopy_lim_fit by (rewrite ?glen_len; lia); change (Z.to_N 8) with 8%N.
  all: destruct (copy_at r2 8 (app_name a)) as [r3| | |] eqn:E3; cbn [bind]; try reflexivity.
  all: apply copy_at_len' in E3.
  all: rewrite gcopy_pos.
  all: destruct (copy_at r3 12 (app_data a)) as [r4| | |] eqn:E5; cbn [bind]; try reflexivity.
  all: apply copy_at_len' in E5.
  - (* paddingSize == 4, reset to 0: the loop is not entered *)
    change (0 <? 0) with false. cbv iota.
    replace (app_padding (len (app_data a))) with 0%N by lia. change (N.to_nat 0) with O. cbn [repeat].
    rewrite copy_at_nil by lia. reflexivity.
  - (* 1 <= paddingSize <= 3 *)
    destruct (Z.ltb_spec 0 (Z.of_N (app_padding (len (app_data a))))) as [Hp|Hp]; [|lia].
    rewrite (ApplicationDefined_Marshal_loop2_spec _ (len (app_data a)) _ _ _ (app_padding (len (app_data a)))
               (N.to_nat (app_padding (len (app_data a)))) _ 0%N r4) by lia.
    rewrite N.add_0_r. reflexivity.
Qed.

(* ---- Unmarshal: every field is assigned, so the statement holds for any receiver ---- *)
Lemma src_ApplicationDefined_Unmarshal_gen : forall a0 b,
  GoSrc.ApplicationDefined_Unmarshal a0 b = res_map src_app (APP_unmarshal b).
Proof.
  intros a0 b. unfold GoSrc.ApplicationDefined_Unmarshal, APP_unmarshal. cbv zeta.
  rewrite src_Header_Unmarshal.
  destruct (Header_unmarshal b) as [h| | |]; cbn [res_map bind]; try reflexivity.
  unfold src_header. src_fields. consts. rewrite !glen_len.
  rewrite Zltb_N_r. destruct (N.ltb_spec (len b) 12) as [Hl|Hl]; [reflexivity|].
  rewrite Zeqb_N_r. destruct (h_type h =? 204)%N; cbn [negb]; [|reflexivity].
  rewrite Zadd_N_r, uwrap16_N, Zmul_N_r, Zeqb_N.
  destruct (u16 (h_len h + 1) * 4 =? len b)%N; cbn [negb]; [|reflexivity].
  rewrite (gslice_be_get 4 b 4%N). rewrite res_map_bind. apply bind_ext. intros ssrc.
  change (gslice b 8 12) with (gslice b (Z.of_N 8) (Z.of_N 12)). rewrite gslice_N, res_map_bind. apply bind_ext. intros name.
  unfold GoSrc.set_ApplicationDefined_Data, GoSrc.set_ApplicationDefined_Name, GoSrc.set_ApplicationDefined_SSRC,
    GoSrc.set_ApplicationDefined_SubType.
  cbn [GoSrc.ApplicationDefined_SubType GoSrc.ApplicationDefined_SSRC GoSrc.ApplicationDefined_Name
       GoSrc.ApplicationDefined_Data].
  destruct (h_pad h).
  - replace (Z.of_N (len b) - 1) with (Z.of_N (len b - 1)) by lia.
    rewrite gidx_idx, bind_res_map. rewrite bind_assoc, res_map_bind. apply bind_ext. intros last.
    replace (Z.of_N (len b) - 12) with (Z.of_N (len b - 12)) by lia. rewrite Zltb_N.
    destruct (N.ltb_spec (len b - 12) (b2n last)) as [Hp|Hp]; [reflexivity|]. cbn [bind].
    replace (Z.of_N (len b) - Z.of_N (b2n last)) with (Z.of_N (len b - b2n last)) by lia.
    rewrite (gslice_N b 12). rewrite res_map_bind. reflexivity.
  - cbn [bind]. replace (Z.of_N (len b) - 0) with (Z.of_N (len b - 0)) by lia.
    rewrite (gslice_N b 12). rewrite res_map_bind. reflexivity.
Qed.

Lemma src_ApplicationDefined_Unmarshal : forall b,
  GoSrc.ApplicationDefined_Unmarshal GoSrc.zero_ApplicationDefined b = res_map src_app (APP_unmarshal b).
Proof. intros b. apply src_ApplicationDefined_Unmarshal_gen. Qed.

(* ================================================================================================ *)
Print Assumptions src_Goodbye_MarshalSize.
Print Assumptions src_Goodbye_Header.
Print Assumptions src_Goodbye_DestinationSSRC.
Print Assumptions src_Goodbye_Marshal.
Print Assumptions src_Goodbye_Unmarshal_gen.
Print Assumptions src_Goodbye_Unmarshal.
Print Assumptions src_Goodbye_Unmarshal_gen_refuted_without_empty_reason.
Print Assumptions src_ApplicationDefined_MarshalSize.
Print Assumptions src_ApplicationDefined_DestinationSSRC.
Print Assumptions src_ApplicationDefined_Marshal.
Print Assumptions src_ApplicationDefined_Unmarshal_gen.
Print Assumptions src_ApplicationDefined_Unmarshal.
