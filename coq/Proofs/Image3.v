(* C09 ("re-encoding a decoded datagram is stable") for TransportLayerCC and ExtendedReport:
   the image of the decoders on ARBITRARY bytes lies in the domains D_TWCC / D_XR, hence
   decode - encode - decode is the identity (TWCC) / the identity on the typed view (XR). *)
From RTCP Require Import Proofs.Tactics Proofs.HeaderProofs Lib.Reflect Gen.Layouts
  Model.Header Model.Reports Model.Twcc Model.Xr Spec.Enc Spec.XrSpec Spec.Laws
  Proofs.Units Proofs.EncTwcc Proofs.EncXr Proofs.XrRead.
Local Open Scope N_scope.

(* ================================================================================================ *)
(* A. TransportLayerCC                                                                                *)
(* ================================================================================================ *)

Ltac split_all_andb :=
  repeat match goal with H : _ && _ = true |- _ => apply andb_true_iff in H; destruct H end.

(* new invariant of the status loop: a chunk is only read while processed < count, and the loop ends
   with processed >= count; i.e. the count is reached by the last chunk and not before *)
Lemma status_loop_needed : forall fuel rest total count pos processed cs dts p rest',
  status_loop fuel rest total count pos processed = Ok (cs, dts, p, rest') ->
  processed <= count -> count < 65536 -> pos <= total -> total <= 65532 ->
  chunks_needed cs (count - processed) = true.
Proof.
  induction fuel as [|f IH]; intros rest total count pos processed cs dts p rest' H Hp Hc Hpos Ht; [discriminate|].
  cbn [status_loop] in H.
  destruct (N.ltb_spec processed count) as [Hlt|Hge].
  2:{ injection H as <- <- <- <-. cbn [chunks_needed]. apply N.eqb_eq. lia. }
  consts. unfold u16 in H at 1. rewrite (N.mod_small (pos + 2)) in H by lia.
  destruct (N.ltb_spec total (pos + 2)) as [|Hroom]; [discriminate|].
  destruct rest as [|b0 [|b1 rest1]]; [discriminate|discriminate|].
  pose proof (chunk_read b0 b1) as Hr. consts. rewrite Hr in H. clear Hr. cbn [bind] in H.
  set (c := chunk_of_bytes (b2n b0) (b2n b1)) in *.
  destruct (chunk_of_bytes_enc b0 b1) as [Hok Henc]. fold c in Hok, Henc.
  assert (Hsub : sub16 count processed = count - processed) by (unfold sub16; lia).
  rewrite Hsub in H. set (rem := count - processed) in *.
  destruct (chunk_delta_types_spec c rem Hok) as [Hdt Hadv].
  set (adv := match c with RLC _ _ r => r | SVC _ _ l => nl l end) in *.
  rewrite Hadv in H. unfold u16 in H. rewrite (N.mod_small (pos + 2)) in H by lia.
  rewrite (N.mod_small (processed + N.min rem adv)) in H by lia.
  destruct (status_loop f rest1 total count (pos + 2) (processed + N.min rem adv)) as [[[[cs1 ds1] p1] r1]| | |] eqn:E;
    cbn [bind] in H; try discriminate.
  injection H as <- <- <- <-.
  pose proof E as E'. apply status_loop_spec in E'; try lia. destruct E' as (_ & _ & E3 & _).
  apply IH in E; try lia.
  cbn [chunks_needed]. rewrite nl_chunk_syms. fold adv.
  replace (count - (processed + N.min rem adv)) with (rem - N.min rem adv) in E by lia.
  rewrite E. destruct (N.ltb_spec 0 rem); [reflexivity|lia].
Qed.

(* the scalar fields a successful Unmarshal returns fit their wire widths, and the chunk list is exactly
   as long as the packet status count requires *)
Lemma TWCC_unmarshal_fields b t : TWCC_unmarshal b = Ok t ->
  tw_sender t < 4294967296 /\ tw_media t < 4294967296 /\ tw_base t < 65536 /\ tw_count t < 65536 /\
  tw_reftime t < 16777216 /\ tw_fb t < 256 /\ chunks_needed (tw_chunks t) (tw_count t) = true /\
  h_count (tw_hdr t) = 15 /\ h_type (tw_hdr t) = 205.
Proof.
  unfold TWCC_unmarshal. consts.
  destruct (N.ltb_spec (len b) (4 + 4)) as [|Hl8]; [discriminate|].
  destruct (Header_unmarshal b) as [h| | |] eqn:Eh; cbn [bind]; try discriminate.
  set (total := u16 (4 * u16 (h_len h + 1))).
  assert (Ht : total <= 65532) by (unfold total, u16; lia).
  destruct (N.ltb_spec total (4 + 16)) as [|Ht20]; [discriminate|].
  destruct (N.ltb_spec (len b) total) as [|Hlt]; [discriminate|].
  destruct (N.eqb_spec (h_type h) 205) as [Hty|]; cbn [negb orb]; [|discriminate].
  destruct (N.eqb_spec (h_count h) 15) as [Hcn|]; cbn [negb]; [|discriminate].
  destruct (get_be_at 4 b 4) as [sender| | |] eqn:E1; cbn [bind]; try discriminate.
  destruct (get_be_at 4 b (4 + 4)) as [media| | |] eqn:E2; cbn [bind]; try discriminate.
  destruct (get_be_at 2 b (4 + 8)) as [base| | |] eqn:E3; cbn [bind]; try discriminate.
  destruct (get_be_at 2 b (4 + 10)) as [count| | |] eqn:Ec; cbn [bind]; try discriminate.
  apply get_be_at_lt in E1, E2, E3, Ec.
  change (256 ^ N.of_nat 2) with 65536 in *. change (256 ^ N.of_nat 4) with 4294967296 in *.
  destruct (slice b (4 + 12) (4 + 12 + 3)) as [rt| | |]; cbn [bind]; try discriminate.
  destruct (get24BitsFromBytes rt) as [reftime| | |] eqn:Er; cbn [bind]; try discriminate.
  apply get24BitsFromBytes_lt in Er.
  destruct (idx b (4 + 15)) as [fb| | |]; cbn [bind]; try discriminate.
  change (u16 (4 + 16)) with 20. change (N.to_nat 20) with 20%nat.
  destruct (status_loop (S (List.length b)) (skipn 20 b) total count 20 0) as [[[[cs dts] p] rest]| | |] eqn:Es;
    cbn [bind]; try discriminate.
  destruct (delta_pass rest total p dts) as [ds| | |] eqn:Ed; cbn [bind]; try discriminate.
  intros E. injection E as <-. cbn [tw_hdr tw_sender tw_media tw_base tw_count tw_reftime tw_fb tw_chunks].
  apply status_loop_needed in Es; try lia. rewrite N.sub_0_r in Es.
  pose proof (b2n_lt fb). repeat split; assumption.
Qed.

(* twcc_hdr_consistent (Spec/Laws.v) is the header part of D_TWCC *)
Lemma twcc_hdr_consistent_D t : twcc_hdr_consistent t = true ->
  h_len (tw_hdr t) = (4 + len (twcc_body t) + twcc_padlen t) / 4 - 1 /\
  implb (h_pad (tw_hdr t)) (0 <? twcc_padlen t) = true /\
  4 + len (twcc_body t) + twcc_padlen t <= 65532.
Proof.
  unfold twcc_hdr_consistent. cbv zeta. rewrite twcc_exact_len_eq. fold (twcc_padlen t).
  intros H. split_all_andb.
  match goal with H : (h_len _ =? _) = true |- _ => apply N.eqb_eq in H; rename H into Hlen end.
  match goal with H : (_ <=? 65532) = true |- _ => apply N.leb_le in H; rename H into Hsz end.
  match goal with H : implb _ _ = true |- _ => rename H into Hpad end.
  pose proof (get_padding_spec (4 + len (twcc_body t))) as [Pm Pl]. fold (twcc_padlen t) in Pm, Pl.
  repeat split; [exact Hlen | exact Hpad | lia].
Qed.

Theorem TWCC_unmarshal_in_D b t : TWCC_unmarshal b = Ok t -> twcc_hdr_consistent t = true -> D_TWCC t = true.
Proof.
  intros Hu Hc.
  destruct (TWCC_unmarshal_fields b t Hu) as (F1 & F2 & F3 & F4 & F5 & F6 & Hneed & Hcn & Hty).
  pose proof (TWCC_unmarshal_image b t Hu) as Hi. cbv zeta in Hi. destruct Hi as (Hdt & _ & _ & Hcs & Hds & _).
  destruct (twcc_hdr_consistent_D t Hc) as (Hlen & Hpad & Hsz).
  unfold D_TWCC, fits.
  change (2 ^ 32) with 4294967296. change (2 ^ 16) with 65536. change (2 ^ 24) with 16777216. change (2 ^ 8) with 256.
  rewrite Hcs, Hneed, Hds, Hpad, Hdt, Hcn, Hty, <- Hlen, N.eqb_refl.
  change (15 =? 15) with true. change (205 =? 205) with true.
  assert (L : forall l, list_eqb l l = true).
  { induction l as [|x l IH]; [reflexivity|]. cbn [list_eqb]. rewrite N.eqb_refl, IH. reflexivity. }
  rewrite L.
  repeat match goal with |- context [?x <? ?y] => destruct (N.ltb_spec x y); [|lia] end.
  destruct (N.leb_spec (4 + len (twcc_body t) + twcc_padlen t) 65532); [|lia].
  rewrite !N.eqb_refl. reflexivity.
Qed.
Print Assumptions TWCC_unmarshal_in_D.

(* decode - encode - decode: under the consistency hypothesis of C09 the re-encoding decodes to the same value *)
Theorem TWCC_dec_enc_dec b t : TWCC_unmarshal b = Ok t -> twcc_hdr_consistent t = true ->
  forall b', TWCC_marshal t = Ok b' -> TWCC_unmarshal b' = Ok t.
Proof.
  intros Hu Hc b' Hm. pose proof (TWCC_unmarshal_in_D b t Hu Hc) as D.
  rewrite (TWCC_marshal_spec t D) in Hm. injection Hm as <-. apply TWCC_unmarshal_enc, D.
Qed.
Print Assumptions TWCC_dec_enc_dec.

(* ... and the re-encoding is the RFC layout of the decoded value (so it is canonical: a second re-encoding gives the same octets) *)
Corollary TWCC_dec_enc_canonical b t : TWCC_unmarshal b = Ok t -> twcc_hdr_consistent t = true ->
  TWCC_marshal t = Ok (enc_TWCC t).
Proof. intros Hu Hc. apply TWCC_marshal_spec, (TWCC_unmarshal_in_D b t Hu Hc). Qed.

(* without any hypothesis on the header: re-encoding a decoded value never panics (it is Ok or Err) *)
Theorem TWCC_reencode_total b t : TWCC_unmarshal b = Ok t -> TWCC_marshal t <> Panic /\ TWCC_marshal t <> Fuel.
Proof.
  intros Hu.
  pose proof (TWCC_unmarshal_bound b t Hu) as [Hb _].
  assert (Hx : twcc_exact_len t <= 65532) by (unfold u16 in Hb; lia).
  pose proof (TWCC_unmarshal_image b t Hu) as Hi. cbv zeta in Hi. destruct Hi as (_ & _ & _ & Hcs & Hds & _).
  unfold TWCC_marshal. destruct (N.ltb_spec 65532 (twcc_exact_len t)) as [|_]; [lia|].
  unfold Header_marshal. destruct (31 <? h_count (tw_hdr t)); cbn [bind]; [not_panic|].
  rewrite tchunks_marshal_spec by exact Hcs. cbn [bind].
  rewrite deltas_marshal_spec by exact Hds. cbn [bind]. not_panic.
Qed.
Corollary TWCC_reencode_no_panic b t : TWCC_unmarshal b = Ok t -> TWCC_marshal t <> Panic.
Proof. intros H. apply (TWCC_reencode_total b t H). Qed.
Print Assumptions TWCC_reencode_no_panic.

(* ================================================================================================ *)
(* B. ExtendedReport: the image of the reflection reader on arbitrary octets                          *)
(* ================================================================================================ *)
From Coq Require Import String.

(* ---- inversion of [read] / [read_fields] / [slice_loop] ---- *)
Lemma fits_of_256 k n : n < 256 ^ N.of_nat k -> fits (8 * N.of_nat k) n = true.
Proof. intros H. unfold fits. apply N.ltb_lt. rewrite N.pow_mul_r. change (2 ^ 8) with 256. exact H. Qed.

Lemma read_scalar_inv t k b v r : scalar_size t = Some k -> read t b = Ok (v, r) ->
  exists n, v = VU n /\ fits (8 * N.of_nat k) n = true /\ len b = N.of_nat k + len r.
Proof.
  intros Hk H.
  assert (E : read t b = match scalar_size t with
                         | Some k => if len b <? N.of_nat k then Err else Ok (VU (unbe (firstn k b)), skipn k b)
                         | None => Err end) by (destruct t; try discriminate; cbn [scalar_size]; rewrite <- short_len; reflexivity).
  rewrite E, Hk in H. clear E. destruct (N.ltb_spec (len b) (N.of_nat k)) as [|Hl]; [discriminate|].
  injection H as <- <-. exists (unbe (firstn k b)). split; [reflexivity|]. split.
  - apply fits_of_256. pose proof (unbe_lt (firstn k b)) as Hu. rewrite firstn_length in Hu.
    unfold len in Hl. replace (Nat.min k (List.length b)) with k in Hu by lia. exact Hu.
  - rewrite len_skipn. lia.
Qed.

Lemma read_struct_inv fs b v r : read (TStruct fs) b = Ok (v, r) ->
  exists vs, v = VStruct vs /\ read_fields fs b = Ok (vs, r).
Proof.
  rewrite read_struct. destruct (read_fields fs b) as [[vs r']| | |]; cbn [bind]; try discriminate.
  intros E. injection E as <- <-. exists vs. auto.
Qed.

Lemma rf_nil_inv b vs r : read_fields [] b = Ok (vs, r) -> vs = [] /\ r = b.
Proof. cbn [read_fields]. intros E. injection E as <- <-. auto. Qed.
Lemma rf_om_inv n ft ex fs b vs r : read_fields (Field n ft true ex :: fs) b = Ok (vs, r) ->
  exists vs', vs = zero_of ft :: vs' /\ read_fields fs b = Ok (vs', r).
Proof.
  cbn [read_fields]. destruct (read_fields fs b) as [[vs' r']| | |]; cbn [bind]; try discriminate.
  intros E. injection E as <- <-. exists vs'. auto.
Qed.
Lemma rf_ex_inv n ft fs b vs r : read_fields (Field n ft false true :: fs) b = Ok (vs, r) ->
  exists x r1 vs', vs = x :: vs' /\ read ft b = Ok (x, r1) /\ read_fields fs r1 = Ok (vs', r).
Proof.
  cbn [read_fields]. destruct (read ft b) as [[x r1]| | |] eqn:E1; cbn [bind]; try discriminate.
  destruct (read_fields fs r1) as [[vs' r']| | |] eqn:E2; cbn [bind]; try discriminate.
  intros E. injection E as <- <-. exists x, r1, vs'. auto.
Qed.
Lemma rf_un_inv n ft fs b vs r : read_fields (Field n ft false false :: fs) b = Ok (vs, r) ->
  exists vs', vs = zero_of ft :: vs' /\ mem_size ft <= len b /\
              read_fields fs (skipn (N.to_nat (mem_size ft)) b) = Ok (vs', r).
Proof.
  cbn [read_fields]. destruct (N.ltb_spec (len b) (mem_size ft)) as [|Hl]; [discriminate|].
  destruct (read_fields fs (skipn (N.to_nat (mem_size ft)) b)) as [[vs' r']| | |]; cbn [bind]; try discriminate.
  intros E. injection E as <- <-. exists vs'. auto.
Qed.

(* a run of exported scalar fields of widths ws *)
Fixpoint sfields (ws : list nat) (fs : list field) : Prop :=
  match ws, fs with
  | [], [] => True
  | w :: ws', Field _ t false true :: fs' => scalar_size t = Some w /\ sfields ws' fs'
  | _, _ => False
  end.
Fixpoint wsum (ws : list nat) : N := match ws with [] => 0 | w :: ws' => N.of_nat w + wsum ws' end.

Lemma read_fields_scalars_app ws : forall fs1 fs2 b vs r, sfields ws fs1 -> read_fields (fs1 ++ fs2) b = Ok (vs, r) ->
  exists ns vs2 r1, vs = map VU ns ++ vs2 /\ fields_fit ws ns = true /\ len b = wsum ws + len r1 /\
                    read_fields fs2 r1 = Ok (vs2, r).
Proof.
  induction ws as [|w ws IH]; intros fs1 fs2 b vs r Hs H.
  - destruct fs1; [|destruct Hs]. exists [], vs, b. cbn [map fields_fit wsum app] in *. repeat split; try lia. exact H.
  - destruct fs1 as [|[n t om ex] fs1]; [destruct Hs|]. cbn [sfields] in Hs.
    destruct om; [destruct Hs|]. destruct ex; [|destruct Hs]. destruct Hs as [Hk Hs].
    cbn [app] in H. apply rf_ex_inv in H as (x & r1 & vs' & -> & Hx & H).
    apply (read_scalar_inv t w) in Hx as (a & -> & Ha & Hl); [|exact Hk].
    destruct (IH fs1 fs2 r1 vs' r Hs H) as (ns & vs2 & r2 & -> & Hf & Hl' & H2).
    exists (a :: ns), vs2, r2. cbn [map fields_fit wsum app]. rewrite Ha, Hf. repeat split; try lia. exact H2.
Qed.

(* the same with the split of a literal field list computed *)
Lemma read_fields_scalars_pre ws fs b vs r : sfields ws (firstn (List.length ws) fs) -> read_fields fs b = Ok (vs, r) ->
  exists ns vs2 r1, vs = map VU ns ++ vs2 /\ fields_fit ws ns = true /\ len b = wsum ws + len r1 /\
                    read_fields (skipn (List.length ws) fs) r1 = Ok (vs2, r).
Proof.
  intros Hs H. rewrite <- (firstn_skipn (List.length ws) fs) in H. exact (read_fields_scalars_app ws _ _ b vs r Hs H).
Qed.

Lemma read_fields_scalars ws fs b vs r : sfields ws fs -> read_fields fs b = Ok (vs, r) ->
  exists ns, vs = map VU ns /\ fields_fit ws ns = true /\ len b = wsum ws + len r.
Proof.
  intros Hs H. rewrite <- (app_nil_r fs) in H.
  destruct (read_fields_scalars_app ws fs [] b vs r Hs H) as (ns & vs2 & r1 & -> & Hf & Hl & H2).
  apply rf_nil_inv in H2 as [-> ->]. exists ns. rewrite app_nil_r. auto.
Qed.

Lemma fields_fit_app ws1 : forall ns1 ws2 ns2, fields_fit ws1 ns1 = true -> fields_fit ws2 ns2 = true ->
  fields_fit (ws1 ++ ws2) (ns1 ++ ns2) = true.
Proof.
  induction ws1 as [|w ws1 IH]; intros [|n ns1] ws2 ns2 H1 H2; cbn [fields_fit app] in *; try discriminate; [exact H2|].
  apply andb_true_iff in H1 as [Ha H1]. rewrite Ha. cbn [andb]. apply IH; assumption.
Qed.

(* a slice read: elements until the window is empty *)
Lemma slice_loop_inv e (Q : val -> Prop) k :
  (forall b v r, read e b = Ok (v, r) -> Q v /\ len b = k + len r) ->
  forall fuel b v r, slice_loop e fuel b = Ok (v, r) ->
  exists l, v = VSlice l /\ Forall Q l /\ len b = k * N.of_nat (List.length l) /\ r = [].
Proof.
  intros HQ. induction fuel as [|f IH]; intros b v r H; [discriminate|].
  destruct b as [|x b].
  - rewrite slice_loop_nil in H. injection H as <- <-. exists []. repeat split; [constructor|cbn; lia].
  - rewrite slice_loop_cons in H.
    destruct (read e (x :: b)) as [[v1 r1]| | |] eqn:E1; cbn [bind] in H; try discriminate.
    destruct (slice_loop e f r1) as [[xs r2]| | |] eqn:E2; cbn [bind] in H; try discriminate.
    apply IH in E2 as (l & -> & Hl & Hn & ->). injection H as <- <-.
    apply HQ in E1 as [Hq Hlen]. exists (v1 :: l). repeat split; [constructor; assumption|].
    cbn [List.length]. lia.
Qed.

Lemma Forall_VU (w : N) l : Forall (fun v => exists n, v = VU n /\ fits w n = true) l ->
  exists cs, l = map VU cs /\ forallb (fits w) cs = true.
Proof.
  induction 1 as [|v l (n & -> & Hn) _ (cs & -> & Hcs)]; [exists []; auto|].
  exists (n :: cs). cbn [map forallb]. rewrite Hn, Hcs. auto.
Qed.

Lemma read_slice_scalar_inv e k b v r : scalar_size e = Some k -> read (TSlice e) b = Ok (v, r) ->
  exists cs, v = VSlice (map VU cs) /\ forallb (fits (8 * N.of_nat k)) cs = true /\ len b = N.of_nat k * nl cs.
Proof.
  intros Hk H. rewrite read_slice in H.
  apply (slice_loop_inv e (fun v => exists n, v = VU n /\ fits (8 * N.of_nat k) n = true) (N.of_nat k)) in H.
  - destruct H as (l & -> & Hl & Hn & _). apply Forall_VU in Hl as (cs & -> & Hcs).
    exists cs. rewrite map_length in Hn. auto.
  - intros b0 v0 r0 H0. apply (read_scalar_inv e k) in H0 as (n & -> & Hn & Hl); [|exact Hk]. eauto.
Qed.

(* ---- what one decoded block looks like ---- *)
(* blk is the model block of a typed block in the domain, whose RFC encoding is not longer than the window read *)
Definition img_ok (blk : XRBlock) (room : N) : Prop :=
  exists a0 b0 c0 sb, D_sblock sb = true /\ blk = blk_of a0 b0 c0 sb /\ len (enc_sblock sb) <= room.

Lemma read_block_hdr fs x0 x1 x2 x3 w v r :
  read (TStruct (F_hdr :: fs)) (x0 :: x1 :: x2 :: x3 :: w) = Ok (v, r) ->
  exists vs, v = VStruct (v_hdr (b2n x0) (b2n x1) (b2n x2 * 256 + b2n x3) :: vs) /\ read_fields fs w = Ok (vs, r).
Proof.
  intros H. apply read_struct_inv in H as (vs & -> & H). unfold F_hdr in H.
  apply rf_ex_inv in H as (x & r1 & vs' & -> & Hx & H).
  change rfc_XRHeader with ly_XRHeader in Hx. rewrite read_hdr in Hx. injection Hx as <- <-.
  exists vs'. auto.
Qed.

Ltac fit_conv H := unfold fits in H |- *; exact H.

(* 4.4 receiver reference time *)
Lemma img_rrt x0 x1 x2 x3 w v r : read rfc_RRT (x0 :: x1 :: x2 :: x3 :: w) = Ok (v, r) ->
  img_ok (unpack_block (mkXRBlock KRRT v)) (4 + len w).
Proof.
  intros H. unfold rfc_RRT in H. apply read_block_hdr in H as (vs & -> & H).
  apply (read_fields_scalars [8%nat]) in H as (ns & -> & Hf & Hl); [|cbn [sfields]; auto].
  pose proof (fields_fit_length _ _ Hf) as HL. destruct ns as [|ntp [|? ?]]; try discriminate HL.
  cbn [fields_fit] in Hf. rewrite andb_true_r in Hf. cbn [wsum] in Hl.
  exists (b2n x0), (b2n x1), (b2n x2 * 256 + b2n x3), (SRRT ntp).
  assert (HD : D_sblock (SRRT ntp) = true) by exact Hf.
  split; [exact HD|]. split; [reflexivity|]. rewrite (sblock_size _ HD). lia.
Qed.

(* 4.5 DLRR *)
Lemma dlrr_report_inv b v r : read rfc_DLRRReport b = Ok (v, r) ->
  (exists x, v = v_dlrr x /\ D_dlrr x = true) /\ len b = 12 + len r.
Proof.
  intros H. unfold rfc_DLRRReport in H. apply read_struct_inv in H as (vs & -> & H).
  apply (read_fields_scalars [4;4;4]%nat) in H as (ns & -> & Hf & Hl); [|cbn [sfields]; auto].
  pose proof (fields_fit_length _ _ Hf) as HL. destruct ns as [|a [|b' [|c [|? ?]]]]; try discriminate HL.
  cbn [fields_fit] in Hf. andb_split Hf. cbn [wsum] in Hl. split; [|lia].
  exists (a, b', c). split; [reflexivity|]. unfold D_dlrr.
  change (fits 32 a) with (fits (8 * N.of_nat 4) a). change (fits 32 b') with (fits (8 * N.of_nat 4) b').
  change (fits 32 c) with (fits (8 * N.of_nat 4) c). rewrite Hf, Hf0, Hf1. reflexivity.
Qed.

Lemma Forall_dlrr l : Forall (fun v => exists x, v = v_dlrr x /\ D_dlrr x = true) l ->
  exists rs, l = map v_dlrr rs /\ forallb D_dlrr rs = true.
Proof.
  induction 1 as [|v l (x & -> & Hx) _ (rs & -> & Hrs)]; [exists []; auto|].
  exists (x :: rs). cbn [map forallb]. rewrite Hx, Hrs. auto.
Qed.

Lemma img_dlrr x0 x1 x2 x3 w v r : read rfc_DLRR (x0 :: x1 :: x2 :: x3 :: w) = Ok (v, r) ->
  img_ok (unpack_block (mkXRBlock KDLRR v)) (4 + len w).
Proof.
  intros H. unfold rfc_DLRR in H. apply read_block_hdr in H as (vs & -> & H).
  apply rf_ex_inv in H as (x & r1 & vs' & -> & Hx & H). apply rf_nil_inv in H as [-> ->].
  rewrite read_slice in Hx.
  apply (slice_loop_inv rfc_DLRRReport (fun v => exists x, v = v_dlrr x /\ D_dlrr x = true) 12) in Hx;
    [|intros b0 v0 r0 H0; apply dlrr_report_inv, H0].
  destruct Hx as (l & -> & Hl & Hn & _). apply Forall_dlrr in Hl as (rs & -> & Hrs). rewrite map_length in Hn.
  exists (b2n x0), (b2n x1), (b2n x2 * 256 + b2n x3), (SDLRR rs).
  assert (HD : D_sblock (SDLRR rs) = true) by (cbn [D_sblock]; rewrite dlrr_D_eq; exact Hrs).
  split; [exact HD|]. split; [reflexivity|]. rewrite (sblock_size _ HD). unfold nl. lia.
Qed.

(* 4.7 VoIP metrics: the reserved octet is skipped *)
Lemma img_voip x0 x1 x2 x3 w v r : read rfc_VoIP (x0 :: x1 :: x2 :: x3 :: w) = Ok (v, r) ->
  img_ok (unpack_block (mkXRBlock KVoIP v)) (4 + len w).
Proof.
  intros H. unfold rfc_VoIP in H. apply read_block_hdr in H as (vs & -> & H).
  apply (read_fields_scalars_pre (firstn 18 voip_widths)) in H; [|cbn; repeat split].
  destruct H as (ns1 & vs2 & r1 & -> & Hf1 & Hl1 & H).
  cbn [voip_widths firstn List.length skipn] in H.
  apply rf_un_inv in H as (vs3 & -> & Hm & H).
  apply (read_fields_scalars (skipn 18 voip_widths)) in H; [|cbn; repeat split].
  destruct H as (ns2 & -> & Hf2 & Hl2).
  pose proof (fields_fit_length _ _ Hf1) as HL1. pose proof (fields_fit_length _ _ Hf2) as HL2.
  cbn [voip_widths firstn skipn List.length] in HL1, HL2.
  exists (b2n x0), (b2n x1), (b2n x2 * 256 + b2n x3), (SVoIP (ns1 ++ ns2)).
  assert (HD : D_sblock (SVoIP (ns1 ++ ns2)) = true).
  { cbn [D_sblock]. change voip_widths with (firstn 18 voip_widths ++ skipn 18 voip_widths).
    apply fields_fit_app; assumption. }
  split; [exact HD|]. split.
  - cbn [blk_of]. unfold mk_voip. rewrite firstn_app_exact, skipn_app_exact by exact HL1. reflexivity.
  - rewrite (sblock_size _ HD). cbn [mem_size scalar_size] in Hm. rewrite len_skipn in Hl2.
    cbn [voip_widths firstn skipn wsum] in Hl1, Hl2. cbn [mem_size scalar_size] in Hl2. lia.
Qed.

(* 4.6 statistics summary: L D J ToH come from the type-specific octet *)
Lemma if_negb {A} (x : bool) (u v : A) : (if negb x then u else v) = if x then v else u.
Proof. destruct x; reflexivity. Qed.

Lemma unpack_ss_img a b c fs : List.length fs = 13%nat ->
  unpack_block (mkXRBlock KSS (VStruct (v_hdr a b c :: VU 0 :: VU 0 :: VU 0 :: VU 0 :: map VU fs)))
  = mk_ss (v_hdr a b c) (negb (N.land b 128 =? 0)) (negb (N.land b 64 =? 0)) (negb (N.land b 32 =? 0)) (N.land b 24 / 8) fs.
Proof. intros HL. destruct_list fs HL. unfold mk_ss, vb. rewrite !if_negb. reflexivity. Qed.

Lemma img_ss x0 x1 x2 x3 w v r : read rfc_SS (x0 :: x1 :: x2 :: x3 :: w) = Ok (v, r) ->
  img_ok (unpack_block (mkXRBlock KSS v)) (4 + len w).
Proof.
  intros H. unfold rfc_SS in H. apply read_block_hdr in H as (vs & -> & H).
  apply rf_om_inv in H as (vs1 & -> & H). apply rf_om_inv in H as (vs2 & -> & H).
  apply rf_om_inv in H as (vs3 & -> & H). apply rf_om_inv in H as (vs4 & -> & H).
  apply (read_fields_scalars ss_widths) in H; [|cbn; repeat split].
  destruct H as (ns & -> & Hf & Hl).
  pose proof (fields_fit_length _ _ Hf) as HL. cbn [ss_widths List.length] in HL.
  change (zero_of TBool) with (VU 0). change (zero_of TU8) with (VU 0).
  rewrite unpack_ss_img by exact HL.
  set (ts := b2n x1). assert (Hts : ts < 256) by apply b2n_lt.
  exists (b2n x0), ts, (b2n x2 * 256 + b2n x3),
    (SSS (negb (N.land ts 128 =? 0)) (negb (N.land ts 64 =? 0)) (negb (N.land ts 32 =? 0)) (N.land ts 24 / 8) ns).
  assert (HD : D_sblock (SSS (negb (N.land ts 128 =? 0)) (negb (N.land ts 64 =? 0)) (negb (N.land ts 32 =? 0)) (N.land ts 24 / 8) ns) = true).
  { cbn [D_sblock]. rewrite Hf, andb_true_r. unfold fits. apply N.ltb_lt. change (2 ^ 2) with 4.
    pose proof (ss_chk_ok ts Hts) as C. unfold ss_chk in C. apply andb_true_iff in C as [_ C]. apply N.eqb_eq in C. lia. }
  split; [exact HD|]. split; [reflexivity|]. rewrite (sblock_size _ HD). cbn [ss_widths wsum] in Hl. lia.
Qed.

(* 4.1 / 4.2 loss / duplicate RLE: in a window that is a multiple of four octets the chunk count is even *)
Lemma img_rle (dup : bool) x0 x1 x2 x3 w v r : len w mod 4 = 0 ->
  read rfc_RLE (x0 :: x1 :: x2 :: x3 :: w) = Ok (v, r) ->
  img_ok (unpack_block (mkXRBlock (if dup then KDupRLE else KLossRLE) v)) (4 + len w).
Proof.
  intros Hw H. unfold rfc_RLE in H. apply read_block_hdr in H as (vs & -> & H).
  apply rf_om_inv in H as (vs1 & -> & H).
  apply (read_fields_scalars_pre [4;2;2]%nat) in H; [|cbn; repeat split].
  destruct H as (ns & vs2 & r1 & -> & Hf & Hl & H). cbn [List.length skipn] in H.
  apply rf_ex_inv in H as (x & r2 & vs' & -> & Hx & H). apply rf_nil_inv in H as [-> ->].
  apply (read_slice_scalar_inv TU16 2) in Hx as (cs & -> & Hcs & Hn); [|reflexivity].
  pose proof (fields_fit_length _ _ Hf) as HL. destruct ns as [|ssrc [|bs [|es [|? ?]]]]; try discriminate HL.
  cbn [fields_fit] in Hf. andb_split Hf. cbn [wsum] in Hl.
  change (zero_of TU8) with (VU 0). cbn [map app].
  rewrite unpack_rle.
  exists (b2n x0), (b2n x1), (b2n x2 * 256 + b2n x3), (SRLE dup (b2n x1 mod 16) ssrc bs es cs).
  assert (HD : D_sblock (SRLE dup (b2n x1 mod 16) ssrc bs es cs) = true).
  { cbn [D_sblock].
    change (fits 32 ssrc) with (fits (8 * N.of_nat 4) ssrc). change (fits 16 bs) with (fits (8 * N.of_nat 2) bs).
    change (fits 16 es) with (fits (8 * N.of_nat 2) es). change (fits 16) with (fits (8 * N.of_nat 2)).
    rewrite Hf, Hf0, Hf1, Hcs.
    assert (F : fits 4 (b2n x1 mod 16) = true) by (unfold fits; apply N.ltb_lt; change (2 ^ 4) with 16; lia).
    rewrite F. cbn [andb]. apply N.eqb_eq. lia. }
  split; [exact HD|]. split; [reflexivity|]. rewrite (sblock_size _ HD). lia.
Qed.

(* 4.3 packet receipt times *)
Lemma img_prt x0 x1 x2 x3 w v r : read rfc_PRT (x0 :: x1 :: x2 :: x3 :: w) = Ok (v, r) ->
  img_ok (unpack_block (mkXRBlock KPRT v)) (4 + len w).
Proof.
  intros H. unfold rfc_PRT in H. apply read_block_hdr in H as (vs & -> & H).
  apply rf_om_inv in H as (vs1 & -> & H).
  apply (read_fields_scalars_pre [4;2;2]%nat) in H; [|cbn; repeat split].
  destruct H as (ns & vs2 & r1 & -> & Hf & Hl & H). cbn [List.length skipn] in H.
  apply rf_ex_inv in H as (x & r2 & vs' & -> & Hx & H). apply rf_nil_inv in H as [-> ->].
  apply (read_slice_scalar_inv TU32 4) in Hx as (cs & -> & Hcs & Hn); [|reflexivity].
  pose proof (fields_fit_length _ _ Hf) as HL. destruct ns as [|ssrc [|bs [|es [|? ?]]]]; try discriminate HL.
  cbn [fields_fit] in Hf. andb_split Hf. cbn [wsum] in Hl.
  change (zero_of TU8) with (VU 0). cbn [map app].
  rewrite unpack_prt.
  exists (b2n x0), (b2n x1), (b2n x2 * 256 + b2n x3), (SPRT (b2n x1 mod 16) ssrc bs es cs).
  assert (HD : D_sblock (SPRT (b2n x1 mod 16) ssrc bs es cs) = true).
  { cbn [D_sblock].
    change (fits 32 ssrc) with (fits (8 * N.of_nat 4) ssrc). change (fits 16 bs) with (fits (8 * N.of_nat 2) bs).
    change (fits 16 es) with (fits (8 * N.of_nat 2) es). change (fits 32) with (fits (8 * N.of_nat 4)).
    rewrite Hf, Hf0, Hf1, Hcs.
    assert (F : fits 4 (b2n x1 mod 16) = true) by (unfold fits; apply N.ltb_lt; change (2 ^ 4) with 16; lia).
    rewrite F. reflexivity. }
  split; [exact HD|]. split; [reflexivity|]. rewrite (sblock_size _ HD). lia.
Qed.

(* unknown block types: the content is kept octet by octet *)
Lemma img_unknown x0 x1 x2 x3 w v r : len w mod 4 = 0 -> negb ((1 <=? b2n x0) && (b2n x0 <=? 7)) = true ->
  read ly_UnknownReportBlock (x0 :: x1 :: x2 :: x3 :: w) = Ok (v, r) ->
  img_ok (unpack_block (mkXRBlock KUnknown v)) (4 + len w).
Proof.
  intros Hw Hbt H. rewrite read_unknown in H. injection H as <- <-.
  exists 0, 0, (b2n x2 * 256 + b2n x3), (SUnknown (b2n x0) (b2n x1) w).
  assert (HD : D_sblock (SUnknown (b2n x0) (b2n x1) w) = true).
  { cbn [D_sblock]. rewrite Hbt. pose proof (b2n_lt x0). pose proof (b2n_lt x1).
    unfold fits. change (2 ^ 8) with 256.
    destruct (N.ltb_spec (b2n x0) 256); [|lia]. destruct (N.ltb_spec (b2n x1) 256); [|lia].
    cbn [andb]. apply N.eqb_eq. exact Hw. }
  split; [exact HD|]. split; [reflexivity|]. rewrite (sblock_size _ HD). lia.
Qed.

(* any block type: the dispatch on the block type octet *)
Lemma img_block x0 x1 x2 x3 w v r : len w mod 4 = 0 ->
  read (layout_of (kind_of_block_type (b2n x0))) (x0 :: x1 :: x2 :: x3 :: w) = Ok (v, r) ->
  img_ok (unpack_block (mkXRBlock (kind_of_block_type (b2n x0)) v)) (4 + len w).
Proof.
  intros Hw. unfold kind_of_block_type. consts.
  destruct (N.eqb_spec (b2n x0) 1) as [E1|N1]; [intros H; exact (img_rle false _ _ _ _ _ _ _ Hw H)|].
  destruct (N.eqb_spec (b2n x0) 2) as [E2|N2]; [intros H; exact (img_rle true _ _ _ _ _ _ _ Hw H)|].
  destruct (N.eqb_spec (b2n x0) 3) as [E3|N3]; [intros H; exact (img_prt _ _ _ _ _ _ _ H)|].
  destruct (N.eqb_spec (b2n x0) 4) as [E4|N4]; [intros H; exact (img_rrt _ _ _ _ _ _ _ H)|].
  destruct (N.eqb_spec (b2n x0) 5) as [E5|N5]; [intros H; exact (img_dlrr _ _ _ _ _ _ _ H)|].
  destruct (N.eqb_spec (b2n x0) 6) as [E6|N6]; [intros H; exact (img_ss _ _ _ _ _ _ _ H)|].
  destruct (N.eqb_spec (b2n x0) 7) as [E7|N7]; [intros H; exact (img_voip _ _ _ _ _ _ _ H)|].
  intros H. apply (img_unknown x0 x1 x2 x3 w v r Hw); [|exact H].
  destruct (N.leb_spec 1 (b2n x0)); [|reflexivity]. destruct (N.leb_spec (b2n x0) 7); [exfalso; lia|reflexivity].
Qed.

Lemma enc_blocks_cons b bs : enc_blocks (b :: bs) = enc_sblock (abs_block b) ++ enc_blocks bs.
Proof. reflexivity. Qed.

(* the block loop of ExtendedReport.Unmarshal on arbitrary octets (a multiple of four of them) *)
Lemma xr_blocks_loop_image : forall fuel buf bs, xr_blocks_loop fuel buf = Ok bs -> len buf mod 4 = 0 ->
  Forall wf_block bs /\ len (enc_blocks bs) <= len buf.
Proof.
  induction fuel as [|f IH]; intros buf bs H Hm; [discriminate|].
  destruct buf as [|x0 buf].
  { cbn [xr_blocks_loop] in H. injection H as <-. split; [constructor|]. unfold enc_blocks. cbn [map List.concat]. lia. }
  destruct buf as [|x1 [|x2 [|x3 t]]]; try (exfalso; rewrite ?len_cons, ?len_nil in Hm; lia).
  cbn [xr_blocks_loop] in H. rewrite read_hdr in H. cbn [bind] in H.
  destruct (hdr_get (b2n x0) (b2n x1) (b2n x2 * 256 + b2n x3)) as (E1 & _ & E3). rewrite E1, E3 in H. clear E1 E3.
  rewrite !len_cons in H, Hm.
  set (bl := b2n x2 * 256 + b2n x3) in *.
  set (size := if 1 + (1 + (1 + (1 + len t))) <? (bl + 1) * 4 then 1 + (1 + (1 + (1 + len t))) else (bl + 1) * 4) in *.
  assert (Hs : 4 <= size /\ size <= 4 + len t /\ size mod 4 = 0).
  { subst size. destruct (N.ltb_spec (1 + (1 + (1 + (1 + len t)))) ((bl + 1) * 4)); lia. }
  clearbody size. destruct Hs as (Hs1 & Hs2 & Hs3).
  replace (N.to_nat size) with (4 + N.to_nat (size - 4))%nat in H by lia.
  set (n := N.to_nat (size - 4)) in *. assert (Hn : N.of_nat n = size - 4) by (subst n; lia). clearbody n.
  cbn [Nat.add firstn skipn] in H.
  set (w := firstn n t) in *.
  assert (Hw : len w = size - 4) by (subst w; rewrite len_firstn; lia).
  destruct (read (layout_of (kind_of_block_type (b2n x0))) (x0 :: x1 :: x2 :: x3 :: w)) as [[v r]| | |] eqn:Er;
    cbn [bind] in H; try discriminate.
  destruct (xr_blocks_loop f (skipn n t)) as [bs'| | |] eqn:El; cbn [bind] in H; try discriminate.
  injection H as <-.
  assert (Ht : len t mod 4 = 0) by lia.
  apply IH in El; [|rewrite len_skipn, Hn; lia]. destruct El as [IH1 IH2]. rewrite len_skipn, Hn in IH2.
  apply img_block in Er; [|lia]. destruct Er as (a0 & b0 & c0 & sb & HD & Eb & Hl).
  split.
  - constructor; [|exact IH1]. exists a0, b0, c0, sb. auto.
  - rewrite enc_blocks_cons, len_app, Eb, (abs_blk_of _ _ _ _ HD), !len_cons. lia.
Qed.

(* ---- the image of ExtendedReport.Unmarshal ---- *)
Lemma XR_unmarshal_image_len b x : XR_unmarshal b = Ok x -> len b mod 4 = 0 ->
  Forall wf_block (xr_blocks x) /\ fits 32 (xr_sender x) = true /\ 8 + len (enc_blocks (xr_blocks x)) <= len b.
Proof.
  unfold XR_unmarshal. intros H Hm.
  destruct (Header_unmarshal b) as [h| | |] eqn:Eh; cbn [bind] in H; try discriminate.
  apply Header_unmarshal_ok in Eh as (Hl4 & _).
  destruct (negb (h_type h =? c_TypeExtendedReport)); [discriminate|].
  consts. rewrite slice_from_ok in H by lia. cbn [bind] in H. change (N.to_nat 4) with 4%nat in H.
  destruct (read TU32 (skipn 4 b)) as [[sv rest]| | |] eqn:Es; cbn [bind] in H; try discriminate.
  apply (read_scalar_inv TU32 4) in Es as (s & -> & Hs & Hl); [|reflexivity]. rewrite len_skipn in Hl.
  destruct (xr_blocks_loop (S (List.length b)) rest) as [bs| | |] eqn:El; cbn [bind] in H; try discriminate.
  injection H as <-. cbn [xr_sender xr_blocks].
  apply xr_blocks_loop_image in El; [|lia]. destruct El as [W L].
  split; [exact W|]. split; [exact Hs|]. lia.
Qed.

Theorem XR_unmarshal_image b x : XR_unmarshal b = Ok x -> len b mod 4 = 0 ->
  Forall wf_block (xr_blocks x) /\ D_XR x = true.
Proof.
  intros H Hm. destruct (XR_unmarshal_image_len b x H Hm) as (W & S & _).
  split; [exact W|]. apply wf_blocks_D_XR; assumption.
Qed.
Print Assumptions XR_unmarshal_image.

(* on decoder images Marshal is the RFC encoding of the typed view, and cannot fail *)
Corollary XR_reencode_spec b x : XR_unmarshal b = Ok x -> len b mod 4 = 0 -> XR_marshal x = Ok (enc_XR x).
Proof. intros H Hm. apply XR_marshal_spec. apply (XR_unmarshal_image b x H Hm). Qed.

(* decode - encode - decode: the second decoding gives the same typed blocks and sender *)
Theorem XR_dec_enc_dec b x : XR_unmarshal b = Ok x -> len b mod 4 = 0 -> len b < 262144 ->
  forall b', XR_marshal x = Ok b' ->
  exists x', XR_unmarshal b' = Ok x' /\ map abs_block (xr_blocks x') = map abs_block (xr_blocks x) /\ xr_sender x' = xr_sender x.
Proof.
  intros H Hm Hlt b' Hb'. destruct (XR_unmarshal_image_len b x H Hm) as (W & S & L).
  rewrite (XR_marshal_spec x W) in Hb'. injection Hb' as <-.
  assert (E : List.concat (map enc_sblock (map abs_block (xr_blocks x))) = enc_blocks (xr_blocks x))
    by (unfold enc_blocks; rewrite map_map; reflexivity).
  destruct (XR_roundtrip (xr_sender x) (map abs_block (xr_blocks x)) S) as (x' & Hu & Hs & Ha & _).
  - apply Forall_forall. intros sb Hin. apply in_map_iff in Hin as (blk & <- & Hin).
    rewrite Forall_forall in W. apply wf_block_D, W, Hin.
  - rewrite E. lia.
  - exists x'. unfold enc_XR. fold (enc_blocks (xr_blocks x)). rewrite E in Hu. auto.
Qed.
Print Assumptions XR_dec_enc_dec.

(* ================================================================================================ *)
(* the hypotheses are needed, and the theorems are not vacuous                                         *)
(* ================================================================================================ *)
Definition nb (l : list N) : bytes := map n2b l.

(* TWCC: a packet whose length field announces more than the content (five trailing octets after one chunk and
   one delta) decodes; the decoded header is NOT consistent; Marshal keeps the announced length, and the re-encoding
   (24 octets announcing 28) no longer decodes.  So the consistency hypothesis of C09 cannot be dropped. *)
Definition twcc_slack : bytes :=
  nb [143; 205; 0; 6;  0;0;0;1;  0;0;0;2;  0;100; 0;1;  0;0;7; 3;  32;1;  9;  0;0;0;0;0].
Theorem TWCC_dec_enc_dec_inconsistent_refuted :
  exists b t b', TWCC_unmarshal b = Ok t /\ twcc_hdr_consistent t = false /\ TWCC_marshal t = Ok b' /\ TWCC_unmarshal b' = Err.
Proof. exists twcc_slack. eexists. eexists. split; [vm_compute; reflexivity|]. split; [vm_compute; reflexivity|]. split; vm_compute; reflexivity. Qed.

(* ... and with a consistent header the theorem applies (the same packet with the length field 5 and no slack) *)
Definition twcc_tight : bytes :=
  nb [143; 205; 0; 5;  0;0;0;1;  0;0;0;2;  0;100; 0;1;  0;0;7; 3;  32;1;  9;  0].
Example TWCC_dec_enc_dec_inhabited :
  exists t, TWCC_unmarshal twcc_tight = Ok t /\ twcc_hdr_consistent t = true /\ TWCC_marshal t = Ok twcc_tight.
Proof. eexists. split; [vm_compute; reflexivity|]. split; vm_compute; reflexivity. Qed.

(* XR: without the alignment hypothesis the image leaves the domain: 22 octets holding a loss RLE block with one chunk
   decode to a block with an odd chunk count (this is the decoder side of finding F10) *)
Definition xr_unaligned : bytes :=
  nb [128; 207; 0; 5;  0;0;0;1;  1;0;0;3;  0;0;0;2; 0;3; 0;4;  0;5].
Theorem XR_unmarshal_image_unaligned_refuted :
  exists b x, XR_unmarshal b = Ok x /\ len b mod 4 <> 0 /\ D_XR x = false.
Proof. exists xr_unaligned. eexists. split; [vm_compute; reflexivity|]. split; [vm_compute; discriminate|vm_compute; reflexivity]. Qed.

(* an aligned packet with slack inside blocks (a receiver reference time block announcing 16 octets, a summary block
   announcing 44) and reserved bits set decodes, and re-encodes to different, shorter octets that decode to the same
   typed blocks: octet-level idempotence holds only from the first re-encoding on *)
Definition xr_slack : bytes :=
  nb ([128; 207; 0; 17;  0;0;0;1;  4;255;0;3;  1;2;3;4;5;6;7;8; 9;9;9;9;
       6;255;0;10] ++ repeat 7 36 ++ [1;1;1;1]).
Example XR_dec_enc_dec_inhabited :
  exists x b', XR_unmarshal xr_slack = Ok x /\ len xr_slack mod 4 = 0 /\ XR_marshal x = Ok b' /\ b' <> xr_slack /\
               exists x', XR_unmarshal b' = Ok x' /\ map abs_block (xr_blocks x') = map abs_block (xr_blocks x) /\
                          XR_marshal x' = Ok b'.
Proof.
  eexists. eexists. split; [vm_compute; reflexivity|]. split; [vm_compute; reflexivity|]. split; [vm_compute; reflexivity|].
  split; [vm_compute; discriminate|]. eexists. split; [vm_compute; reflexivity|]. split; vm_compute; reflexivity.
Qed.

Print Assumptions TWCC_dec_enc_dec_inconsistent_refuted.
Print Assumptions XR_unmarshal_image_unaligned_refuted.
Print Assumptions XR_dec_enc_dec_inhabited.
