(* SourceEquiv, part 2, group B8: transport_layer_cc.go, ENCODER side.
   The functions translated from the Go source (Gen/Funcs.v, module GoSrc: numOfBitsOfSymbolSize, localMin,
   StatusVectorChunk_Marshal, PacketStatusChunk_Marshal, TransportLayerCC_packetLen / _MarshalSize / _Len /
   _DestinationSSRC / _Marshal) compute what the model functions of Model/Twcc.v compute, on every outcome
   (Ok / Err / Panic; the translated encoders have no fuelled loop).

   The only hypothesis anywhere is [twcc_fits]: every RecvDelta.Delta is an int64 (needed by src_RecvDelta_Marshal;
   refuted without it at the end).  Every other over-wide field is truncated in the same way on both sides, and lists
   may have any length: the 16-bit size arithmetic wraps identically, so the equality covers the oversize regime where
   make() gets a too small (or negative) size and the writes panic.

   Structure of the Marshal proof:
     (A) translated code = TWCC_marshal_slow (the statement-by-statement model form), loop by loop:
         [gview; gcopy] of the translated loops is the guarded [copy_at] of put_tchunks / put_deltas;
     (B) TWCC_marshal_slow = the concatenation form of TWCC_marshal when twcc_exact_len t <= 65532 (a fact about the
         model only; it was not in Proofs/EncTwcc.v, so it is proved here), hence
         TWCC_marshal t = TWCC_marshal_slow t for every t (TWCC_marshal_eq_slow);
     (C) the two are chained. *)
From RTCP Require Import Proofs.Tactics Lib.GoSem Gen.Funcs Proofs.GoSemFacts
  Model.Header Model.Reports Model.Twcc Model.Packet Proofs.HeaderProofs Proofs.SourceEquiv Proofs.SrcConv
  Proofs.SourceSR Proofs.EncTwcc.
Local Open Scope Z_scope.

(* ================================================================================================ *)
Section MoreGoSemFacts.
(* ================================================================================================ *)

(* plumbing *)
Lemma bind_bind {A B C} (r : res A) (f : A -> res B) (g : B -> res C) :
  bind (bind r f) g = bind r (fun x => bind (f x) g).
Proof. destruct r; reflexivity. Qed.
Lemma match_res_bind {A B} (r : res A) (f : A -> res B) :
  match r with Ok x => f x | Err => Err | Panic => Panic | Fuel => Fuel end = bind r f.
Proof. destruct r; reflexivity. Qed.

(* copy(b[lo:], src) on the whole buffer (the view is b itself): the bounds check of the re-slice, then copy_at *)
Lemma gview0_gcopy {A} b (lo : N) src (k : bytes -> res A) :
  bind (gview b 0 (Z.of_N lo)) (fun _ => bind (gcopy b (Z.of_N lo) src) k)
  = if (len b <? lo)%N then Panic else bind (copy_at b lo src) k.
Proof.
  rewrite gcopy_N. destruct (N.ltb_spec (len b) lo) as [H|H].
  - rewrite gview_panic by (rewrite glen_len; lia). reflexivity.
  - rewrite gview_ok by (rewrite glen_len; lia). reflexivity.
Qed.

(* b[len(b)-1] = v *)
Lemma gupd_last b v :
  gupd b (glen b - 1) v = if (len b =? 0)%N then Panic else copy_at b (len b - 1) [byte_of_Z v].
Proof.
  destruct (N.eqb_spec (len b) 0) as [H|H].
  - apply gupd_panic. rewrite glen_len. lia.
  - rewrite <- gupd_copy_at by lia. f_equal. rewrite glen_len. lia.
Qed.

(* overwriting the last octet *)
Lemma copy_at_last (b : bytes) x : b <> [] -> copy_at b (len b - 1) [x] = Ok (removelast b ++ [x]).
Proof.
  intros Hb. destruct (exists_last Hb) as [pre [y E]]. subst b. rewrite removelast_last.
  assert (L : (len (pre ++ [y]) - 1 = len pre)%N) by (rewrite len_app; unfold len; cbn [length]; lia).
  rewrite L. unfold copy_at. rewrite len_app.
  destruct (N.ltb_spec (len pre + len [y]) (len pre)); [lia|].
  unfold len. rewrite Nat2N.id, app_length. cbn [length].
  replace (length pre + 1 - length pre)%nat with 1%nat by lia. cbn [Nat.min firstn].
  rewrite firstn_app, firstn_all, Nat.sub_diag. cbn [firstn]. rewrite app_nil_r.
  rewrite skipn_all2 by (rewrite app_length; cbn [length]; lia). reflexivity.
Qed.

(* a map[K]V literal read at a key *)
Lemma gmapget_cons k v r x : gmapget ((k, v) :: r) x = if k =? x then v else gmapget r x.
Proof. reflexivity. Qed.

(* Z's / and mod on images of N *)
Lemma Zdiv_N a b : Z.of_N a / Z.of_N b = Z.of_N (a / b).  Proof. symmetry. apply N2Z.inj_div. Qed.
Lemma Zmod_N a b : Z.of_N a mod Z.of_N b = Z.of_N (a mod b).  Proof. symmetry. apply N2Z.inj_mod. Qed.
Lemma Zdiv_N_r a p : Z.of_N a / Z.pos p = Z.of_N (a / N.pos p).  Proof. exact (Zdiv_N a (N.pos p)). Qed.
Lemma Zmod_N_r a p : Z.of_N a mod Z.pos p = Z.of_N (a mod N.pos p).  Proof. exact (Zmod_N a (N.pos p)). Qed.

End MoreGoSemFacts.

(* ================================================================================================ *)
(* numOfBitsOfSymbolSize, localMin                                                                   *)
(* ================================================================================================ *)
(* shape: the map literal is read key by key; any literal whose entries are those of the model's if-chain goes through *)
Lemma src_numOfBitsOfSymbolSize : forall s,
  gmapget GoSrc.numOfBitsOfSymbolSize (Z.of_N s) = Z.of_N (numOfBitsOfSymbolSize s).
Proof.
  intros s. unfold GoSrc.numOfBitsOfSymbolSize, numOfBitsOfSymbolSize. consts. rewrite !gmapget_cons. cbn [gmapget].
  destruct (Z.eqb_spec 0 (Z.of_N s)), (N.eqb_spec s 0); try lia.
  destruct (Z.eqb_spec 1 (Z.of_N s)), (N.eqb_spec s 1); try lia; reflexivity.
Qed.

Lemma src_localMin_Z : forall x y, GoSrc.localMin x y = Z.min x y.
Proof. intros x y. unfold GoSrc.localMin. destruct (Z.ltb_spec x y); lia. Qed.
Lemma src_localMin : forall x y, GoSrc.localMin (Z.of_N x) (Z.of_N y) = Z.of_N (N.min x y).
Proof. intros x y. rewrite src_localMin_Z. lia. Qed.

(* ================================================================================================ *)
(* StatusVectorChunk.Marshal                                                                         *)
(* ================================================================================================ *)
Ltac svc_fields :=
  cbv [GoSrc.StatusVectorChunk_Type GoSrc.StatusVectorChunk_SymbolSize GoSrc.StatusVectorChunk_SymbolList].

(* the range loop: index i, accumulator dst; setNBitsOfUint16 is a black box on both sides *)
Lemma StatusVectorChunk_Marshal_loop1_eq chunk nb r : forall syms i dst,
  GoSrc.StatusVectorChunk_Marshal_loop1 (zN syms) (Z.of_N i) chunk (Z.of_N dst) (Z.of_N nb) r =
  bind (svc_put dst nb i syms) (fun d => GoSrc.StatusVectorChunk_Marshal_after1 chunk (Z.of_N d) (Z.of_N nb) r).
Proof.
  induction syms as [|s syms IH]; intros i dst; cbn [zN map GoSrc.StatusVectorChunk_Marshal_loop1 svc_put bind];
    [reflexivity|].
  cbv zeta. rewrite match_res_bind. go2n. rewrite src_setNBitsOfUint16, bind_res_map, bind_bind.
  apply bind_ext. intros d. exact (IH (i + 1)%N d).
Qed.

Lemma src_StatusVectorChunk_Marshal : forall t ss l,
  GoSrc.StatusVectorChunk_Marshal (src_svc (SVC t ss l)) = TChunk_marshal (SVC t ss l).
Proof.
  intros t ss l. unfold GoSrc.StatusVectorChunk_Marshal, TChunk_marshal, SVC_marshal, src_svc. svc_fields.
  gmake_eval. cbn [bind]. setbits_chain.
  rewrite src_numOfBitsOfSymbolSize.
  etransitivity; [exact (StatusVectorChunk_Marshal_loop1_eq _ _ _ l 0%N _)|].
  apply bind_ext. intros d. unfold GoSrc.StatusVectorChunk_Marshal_after1.
  repeat gstep. reflexivity.
Qed.

(* ================================================================================================ *)
(* the dynamic dispatch PacketStatusChunk.Marshal                                                    *)
(* ================================================================================================ *)
Lemma src_PacketStatusChunk_Marshal : forall c, GoSrc.PacketStatusChunk_Marshal (src_tchunk c) = TChunk_marshal c.
Proof.
  intros [ty sym run|ty ss l]; unfold src_tchunk, GoSrc.PacketStatusChunk_Marshal.
  - apply src_RunLengthChunk_Marshal.
  - apply src_StatusVectorChunk_Marshal.
Qed.
(* the nil interface value (not the image of any model chunk) panics, as a nil method call does *)
Lemma src_PacketStatusChunk_Marshal_nil : GoSrc.PacketStatusChunk_Marshal GoSrc.PacketStatusChunk_nil = Panic.
Proof. reflexivity. Qed.

(* ================================================================================================ *)
(* TransportLayerCC: packetLen, MarshalSize, Len, DestinationSSRC                                    *)
(* ================================================================================================ *)
(* fields of the image of a model value *)
Lemma twcc_Header t : GoSrc.TransportLayerCC_Header (src_twcc t) = src_header (tw_hdr t).  Proof. reflexivity. Qed.
Lemma twcc_SenderSSRC t : GoSrc.TransportLayerCC_SenderSSRC (src_twcc t) = Z.of_N (tw_sender t).  Proof. reflexivity. Qed.
Lemma twcc_MediaSSRC t : GoSrc.TransportLayerCC_MediaSSRC (src_twcc t) = Z.of_N (tw_media t).  Proof. reflexivity. Qed.
Lemma twcc_BaseSequenceNumber t : GoSrc.TransportLayerCC_BaseSequenceNumber (src_twcc t) = Z.of_N (tw_base t).
Proof. reflexivity. Qed.
Lemma twcc_PacketStatusCount t : GoSrc.TransportLayerCC_PacketStatusCount (src_twcc t) = Z.of_N (tw_count t).
Proof. reflexivity. Qed.
Lemma twcc_ReferenceTime t : GoSrc.TransportLayerCC_ReferenceTime (src_twcc t) = Z.of_N (tw_reftime t).  Proof. reflexivity. Qed.
Lemma twcc_FbPktCount t : GoSrc.TransportLayerCC_FbPktCount (src_twcc t) = Z.of_N (tw_fb t).  Proof. reflexivity. Qed.
Lemma twcc_PacketChunks t : GoSrc.TransportLayerCC_PacketChunks (src_twcc t) = map src_tchunk (tw_chunks t).
Proof. reflexivity. Qed.
Lemma twcc_RecvDeltas t : GoSrc.TransportLayerCC_RecvDeltas (src_twcc t) = map src_delta (tw_deltas t).
Proof. reflexivity. Qed.
Ltac twcc_fields :=
  rewrite ?twcc_Header, ?twcc_SenderSSRC, ?twcc_MediaSSRC, ?twcc_BaseSequenceNumber, ?twcc_PacketStatusCount,
    ?twcc_ReferenceTime, ?twcc_FbPktCount, ?twcc_PacketChunks, ?twcc_RecvDeltas.

(* the range loop of packetLen: uint16 additions, one per delta *)
Lemma TransportLayerCC_packetLen_loop1_eq T : forall ds idx n,
  GoSrc.TransportLayerCC_packetLen_loop1 (map src_delta ds) idx (Z.of_N n) T = Z.of_N (deltas_len n ds).
Proof.
  induction ds as [|d ds IH]; intros idx n; cbn [map GoSrc.TransportLayerCC_packetLen_loop1 deltas_len]; [reflexivity|].
  cbv zeta. unfold src_delta at 1. delta_fields. consts. go2n.
  destruct (rd_type d =? 1)%N; apply IH.
Qed.

Lemma src_TransportLayerCC_packetLen : forall t,
  GoSrc.TransportLayerCC_packetLen (src_twcc t) = Z.of_N (TWCC_packetLen t).
Proof.
  intros t. unfold GoSrc.TransportLayerCC_packetLen, TWCC_packetLen. cbv zeta. twcc_fields.
  rewrite glenl_map, glenl_nlen. consts. go2n. change (4 + 16)%N with 20%N.
  apply TransportLayerCC_packetLen_loop1_eq.
Qed.

Lemma src_TransportLayerCC_MarshalSize : forall t,
  GoSrc.TransportLayerCC_MarshalSize (src_twcc t) = Z.of_N (TWCC_size t).
Proof.
  intros t. unfold GoSrc.TransportLayerCC_MarshalSize, TWCC_size. cbv zeta.
  rewrite src_TransportLayerCC_packetLen. rewrite Zmod_N_r, Zdiv_N_r. go2n.
  destruct (negb (TWCC_packetLen t mod 4 =? 0)%N); reflexivity.
Qed.

Lemma src_TransportLayerCC_Len : forall t, GoSrc.TransportLayerCC_Len (src_twcc t) = Z.of_N (TWCC_len t).
Proof.
  intros t. unfold GoSrc.TransportLayerCC_Len, TWCC_len. rewrite src_TransportLayerCC_MarshalSize. go2n. reflexivity.
Qed.

Lemma src_TransportLayerCC_DestinationSSRC : forall t,
  GoSrc.TransportLayerCC_DestinationSSRC (src_twcc t) = zN (TWCC_dest t).
Proof. reflexivity. Qed.
Lemma src_TransportLayerCC_DestinationSSRC_packet : forall t,
  GoSrc.TransportLayerCC_DestinationSSRC (src_twcc t) = zN (dest_packet (PTWCC t)).
Proof. reflexivity. Qed.

(* both sizes are uint16 values *)
Lemma deltas_len_lt ds : forall n, (n < 65536)%N -> (deltas_len n ds < 65536)%N.
Proof.
  induction ds as [|d ds IH]; intros n Hn; cbn [deltas_len]; [exact Hn|].
  apply IH. unfold u16. destruct (rd_type d =? c_TypeTCCPacketReceivedSmallDelta)%N; lia.
Qed.
Lemma TWCC_packetLen_lt t : (TWCC_packetLen t < 65536)%N.
Proof. unfold TWCC_packetLen. apply deltas_len_lt. unfold u16. lia. Qed.

(* ================================================================================================ *)
(* TransportLayerCC.Marshal (A): the translated code is the statement-by-statement model form        *)
(* ================================================================================================ *)
Definition twcc_fits (t : TWCC) : Prop := Forall delta_fits (tw_deltas t).

(* second range loop: the deltas, written at recvDeltaOffset + i, i advancing by the size of each *)
Lemma TransportLayerCC_Marshal_loop2_eq W hdr R T : forall ds idx i payload, Forall delta_fits ds ->
  GoSrc.TransportLayerCC_Marshal_loop2 (map src_delta ds) idx W hdr (Z.of_N i) payload (Z.of_N R) T =
  bind (put_deltas payload (R + i) ds) (fun p => GoSrc.TransportLayerCC_Marshal_after2 W hdr 0 p (Z.of_N R) T).
Proof.
  induction ds as [|d ds IH]; intros idx i payload Hf; cbn [map GoSrc.TransportLayerCC_Marshal_loop2 put_deltas bind];
    [reflexivity|].
  inversion Hf as [|d' ds' Hd Hds]; subst d' ds'.
  cbv zeta. rewrite match_res_bind, src_RecvDelta_Marshal by exact Hd. rewrite bind_bind.
  apply bind_ext. intros b.
  rewrite Zadd_N, gview0_gcopy.
  destruct (len payload <? R + i)%N; [reflexivity|]. rewrite bind_bind.
  apply bind_ext. intros p.
  unfold src_delta at 1. delta_fields. consts. rewrite Zeqb_N_r.
  destruct (rd_type d =? 2)%N.
  - replace (Z.of_N i + 1 + 1) with (Z.of_N (i + 2)) by lia. rewrite IH by exact Hds. f_equal. f_equal. lia.
  - replace (Z.of_N i + 1) with (Z.of_N (i + 1)) by lia. rewrite IH by exact Hds. f_equal. f_equal. lia.
Qed.

(* first range loop: the chunks, written at packetChunkOffset + 2 i *)
Lemma TransportLayerCC_Marshal_loop1_eq W hdr T : forall cs i payload,
  GoSrc.TransportLayerCC_Marshal_loop1 (map src_tchunk cs) (Z.of_N i) W hdr payload T =
  bind (put_tchunks payload (16 + 2 * i) cs) (fun p => GoSrc.TransportLayerCC_Marshal_after1 W hdr p T).
Proof.
  induction cs as [|c cs IH]; intros i payload; cbn [map GoSrc.TransportLayerCC_Marshal_loop1 put_tchunks bind];
    [reflexivity|].
  cbv zeta. rewrite match_res_bind, src_PacketStatusChunk_Marshal. rewrite bind_bind.
  apply bind_ext. intros b.
  replace (16 + Z.of_N i * 2) with (Z.of_N (16 + 2 * i)) by lia. rewrite gview0_gcopy.
  destruct (len payload <? 16 + 2 * i)%N; [reflexivity|]. rewrite bind_bind.
  apply bind_ext. intros p.
  replace (Z.of_N i + 1) with (Z.of_N (i + 1)) by lia. rewrite IH. f_equal. f_equal. lia.
Qed.

(* the padding octet *)
Lemma pad_octet_eq s p : (p < 65536)%N -> byte_of_Z (uwrap 8 (Z.of_N s - Z.of_N p)) = n2b (s + 65536 - p).
Proof.
  intros Hp. rewrite byte_of_Z_uwrap by lia. rewrite <- byte_of_Z_N. apply byte_of_Z_eq. lia.
Qed.

Theorem src_TransportLayerCC_Marshal_slow : forall t, twcc_fits t ->
  GoSrc.TransportLayerCC_Marshal (src_twcc t) = TWCC_marshal_slow t.
Proof.
  intros t Hf. unfold GoSrc.TransportLayerCC_Marshal, TWCC_marshal_slow. cbv zeta.
  rewrite match_res_bind. rewrite src_TransportLayerCC_MarshalSize. twcc_fields. rewrite src_Header_Marshal.
  apply bind_ext. intros hdr. consts.
  destruct (N.ltb_spec (TWCC_size t) 4) as [Hs|Hs].
  { rewrite gmake_neg by lia. reflexivity. }
  replace (Z.of_N (TWCC_size t) - 4) with (Z.of_N (TWCC_size t - 4)) by lia. rewrite gmake_N. cbn [bind].
  rewrite (gbe_put_N 4 _ 0%N). apply bind_ext. intros p1.
  rewrite (gbe_put_N 4 _ 4%N). apply bind_ext. intros p2.
  rewrite (gbe_put_N 2 _ 8%N). apply bind_ext. intros p3.
  rewrite (gbe_put_N 2 _ 10%N). apply bind_ext. intros p4.
  rewrite (src_appendNBitsToUint32 0 24), (src_appendNBitsToUint32 _ 8).
  rewrite (gbe_put_N 4 _ 12%N). apply bind_ext. intros p5.
  etransitivity; [exact (TransportLayerCC_Marshal_loop1_eq _ _ _ (tw_chunks t) 0%N p5)|].
  change (16 + 2 * 0)%N with 16%N. apply bind_ext. intros p6.
  unfold GoSrc.TransportLayerCC_Marshal_after1. cbv zeta. twcc_fields.
  rewrite glenl_map, glenl_nlen.
  replace (16 + Z.of_N (nlen (tw_chunks t)) * 2) with (Z.of_N (16 + nlen (tw_chunks t) * 2)) by lia.
  etransitivity; [exact (TransportLayerCC_Marshal_loop2_eq _ _ _ _ (tw_deltas t) 0 0%N p6 Hf)|].
  rewrite N.add_0_r. apply bind_ext. intros p7.
  unfold GoSrc.TransportLayerCC_Marshal_after2. twcc_fields.
  change (GoSrc.Header_Padding (src_header (tw_hdr t))) with (h_pad (tw_hdr t)).
  destruct (h_pad (tw_hdr t)); [|reflexivity].
  rewrite gupd_last, src_TransportLayerCC_MarshalSize, src_TransportLayerCC_packetLen.
  rewrite pad_octet_eq by apply TWCC_packetLen_lt.
  destruct (len p7 =? 0)%N; reflexivity.
Qed.

(* ================================================================================================ *)
(* TransportLayerCC.Marshal (B): the two model forms agree (a fact about Model/Twcc.v only)          *)
(* ================================================================================================ *)
Local Open Scope N_scope.

(* octets produced by the element encoders *)
Lemma TChunk_marshal_length c b : TChunk_marshal c = Ok b -> length b = 2%nat.
Proof.
  destruct c as [ty sym run|ty ss syms]; unfold TChunk_marshal, RLC_marshal, SVC_marshal; intros E.
  - destruct (setNBitsOfUint16 0 1 0 0) as [d1| | |]; cbn [bind] in E; try discriminate.
    destruct (setNBitsOfUint16 d1 2 1 sym) as [d2| | |]; cbn [bind] in E; try discriminate.
    destruct (setNBitsOfUint16 d2 13 3 run) as [d3| | |]; cbn [bind] in E; try discriminate.
    inversion E. reflexivity.
  - destruct (setNBitsOfUint16 0 1 0 1) as [d1| | |]; cbn [bind] in E; try discriminate.
    destruct (setNBitsOfUint16 d1 1 1 ss) as [d2| | |]; cbn [bind] in E; try discriminate.
    destruct (svc_put d2 (numOfBitsOfSymbolSize ss) 0 syms) as [d3| | |]; cbn [bind] in E; try discriminate.
    inversion E. reflexivity.
Qed.
Definition delta_octets (d : RecvDelta) : N := if rd_type d =? 1 then 1 else 2.
Lemma RecvDelta_marshal_length d b : RecvDelta_marshal d = Ok b ->
  N.of_nat (length b) = delta_octets d /\
  (if rd_type d =? c_TypeTCCPacketReceivedLargeDelta then 2 else 1) = delta_octets d.
Proof.
  unfold RecvDelta_marshal, delta_octets. consts. cbv zeta. intros E.
  destruct (N.eqb_spec (rd_type d) 1) as [H1|H1]; cbn [andb] in E.
  - rewrite H1 in E |- *. change (1 =? 2) with false in *. cbn [andb] in E.
    match type of E with (if ?c then _ else _) = _ => destruct c end; inversion E; split; reflexivity.
  - destruct (N.eqb_spec (rd_type d) 2) as [H2|H2]; cbn [andb] in E; [|discriminate].
    match type of E with (if ?c then _ else _) = _ => destruct c end; inversion E; split; reflexivity.
Qed.
Lemma deltas_octets_cons d ds : deltas_octets (d :: ds) = delta_octets d + deltas_octets ds.
Proof. reflexivity. Qed.

(* the write loops at the frontier of a zero tail are concatenations *)
Lemma put_tchunks_fr : forall cs pre n off, off = len pre -> 2 * nlen cs <= n ->
  put_tchunks (pre ++ zeros n) off cs =
  bind (tchunks_marshal cs) (fun bs => Ok ((pre ++ bs) ++ zeros (n - 2 * nlen cs))).
Proof.
  induction cs as [|c cs IH]; intros pre n off Hoff Hn; cbn [put_tchunks tchunks_marshal bind].
  - rewrite app_nil_r. f_equal. f_equal. f_equal. unfold nlen. cbn [length]. lia.
  - assert (Hl : nlen (c :: cs) = 1 + nlen cs) by (unfold nlen; cbn [length]; lia). rewrite Hl in *.
    destruct (TChunk_marshal c) as [b| | |] eqn:Eb; cbn [bind]; try reflexivity.
    apply TChunk_marshal_length in Eb.
    destruct (N.ltb_spec (len (pre ++ zeros n)) off) as [H|_]; [rewrite len_app, len_zeros in H; lia|].
    rewrite (copy_at_fr pre n b off) by (rewrite ?Eb; lia). cbn [bind].
    rewrite (IH (pre ++ b) (n - N.of_nat (length b)) (off + 2)) by (rewrite ?len_app; unfold len in *; rewrite Eb; lia).
    destruct (tchunks_marshal cs) as [bs| | |]; cbn [bind]; try reflexivity.
    rewrite <- !app_assoc. do 5 f_equal. rewrite Eb. lia.
Qed.
Lemma put_deltas_fr : forall ds pre n off, off = len pre -> deltas_octets ds <= n ->
  put_deltas (pre ++ zeros n) off ds =
  bind (deltas_marshal ds) (fun bs => Ok ((pre ++ bs) ++ zeros (n - deltas_octets ds))).
Proof.
  induction ds as [|d ds IH]; intros pre n off Hoff Hn; cbn [put_deltas deltas_marshal bind].
  - rewrite app_nil_r. f_equal. f_equal. f_equal. change (deltas_octets []) with 0. lia.
  - rewrite deltas_octets_cons in *.
    destruct (RecvDelta_marshal d) as [b| | |] eqn:Eb; cbn [bind]; try reflexivity.
    apply RecvDelta_marshal_length in Eb. destruct Eb as [Eb Eadv].
    destruct (N.ltb_spec (len (pre ++ zeros n)) off) as [H|_]; [rewrite len_app, len_zeros in H; lia|].
    rewrite (copy_at_fr pre n b off) by lia. cbn [bind].
    replace (if rd_type d =? c_TypeTCCPacketReceivedLargeDelta then off + 2 else off + 1) with (off + delta_octets d)
      by (rewrite <- Eadv; destruct (rd_type d =? c_TypeTCCPacketReceivedLargeDelta); reflexivity).
    rewrite (IH (pre ++ b) (n - N.of_nat (length b)) (off + delta_octets d)) by (rewrite ?len_app; unfold len in *; lia).
    destruct (deltas_marshal ds) as [bs| | |]; cbn [bind]; try reflexivity.
    rewrite <- !app_assoc. do 5 f_equal. lia.
Qed.
Lemma tchunks_marshal_len : forall cs bs, tchunks_marshal cs = Ok bs -> len bs = 2 * nlen cs.
Proof.
  induction cs as [|c cs IH]; intros bs E; cbn [tchunks_marshal] in E.
  - inversion E. reflexivity.
  - destruct (TChunk_marshal c) as [b| | |] eqn:Eb; cbn [bind] in E; try discriminate.
    destruct (tchunks_marshal cs) as [bs'| | |]; cbn [bind] in E; try discriminate. inversion E.
    apply TChunk_marshal_length in Eb. rewrite len_app, (IH bs' eq_refl). unfold len, nlen. rewrite Eb. cbn [length]. lia.
Qed.
Lemma deltas_marshal_len : forall ds bs, deltas_marshal ds = Ok bs -> len bs = deltas_octets ds.
Proof.
  induction ds as [|d ds IH]; intros bs E; cbn [deltas_marshal] in E.
  - inversion E. reflexivity.
  - destruct (RecvDelta_marshal d) as [b| | |] eqn:Eb; cbn [bind] in E; try discriminate.
    destruct (deltas_marshal ds) as [bs'| | |]; cbn [bind] in E; try discriminate. inversion E.
    apply RecvDelta_marshal_length in Eb. destruct Eb as [Eb _].
    rewrite len_app, (IH bs' eq_refl), deltas_octets_cons. unfold len. lia.
Qed.

(* when the content fits 16 bits (the condition under which TWCC_marshal takes its concatenation form) the
   statement-by-statement form computes the same result, on every outcome *)
Theorem TWCC_marshal_eq_slow : forall t, TWCC_marshal t = TWCC_marshal_slow t.
Proof.
  intros t. unfold TWCC_marshal. destruct (N.ltb_spec 65532 (twcc_exact_len t)) as [|Hx]; [reflexivity|].
  symmetry. unfold TWCC_marshal_slow. apply bind_ext. intros hdr. cbv zeta.
  pose proof (TWCC_size_exact t Hx) as Hsz.
  assert (HS : 20 + 2 * nlen (tw_chunks t) + deltas_octets (tw_deltas t) <= TWCC_size t).
  { rewrite Hsz. unfold twcc_exact_len. consts. fold (deltas_octets (tw_deltas t)). lia. }
  clear Hsz Hx. consts.
  destruct (N.ltb_spec (TWCC_size t) 4) as [|_]; [lia|].
  change (zeros (TWCC_size t - 4)) with ([] ++ zeros (TWCC_size t - 4)). frontier.
  match goal with |- context [put_tchunks (?pre ++ zeros ?n) ?off ?cs] =>
    rewrite (put_tchunks_fr cs pre n off) by (rewrite ?len_app, ?len_be; unfold len; cbn [length]; lia) end.
  rewrite bind_bind.
  destruct (tchunks_marshal (tw_chunks t)) as [cb| | |] eqn:Ec; cbn [bind]; try reflexivity.
  apply tchunks_marshal_len in Ec.
  match goal with |- context [put_deltas (?pre ++ zeros ?n) ?off ?ds] =>
    rewrite (put_deltas_fr ds pre n off) by (rewrite ?len_app, ?len_be; try rewrite Ec; unfold len; cbn [length]; lia) end.
  rewrite bind_bind.
  destruct (deltas_marshal (tw_deltas t)) as [db| | |] eqn:Ed; cbn [bind]; try reflexivity.
  apply deltas_marshal_len in Ed.
  match goal with
  | |- (let* payload := (if _ then if len ?P =? 0 then _ else _ else _) in _) = Ok (_ ++ (if _ then removelast ?P' ++ _ else _)) =>
      assert (EP : P = P'); [|rewrite EP; assert (HP : len P' <> 0)]
  end.
  - rewrite !len_app, !len_be, Ec, Ed. rewrite <- !app_assoc. cbn [app]. do 8 f_equal. lia.
  - rewrite !len_app, !len_be. lia.
  - destruct (h_pad (tw_hdr t)); cbn [bind]; [|reflexivity].
    match goal with |- context [(len ?P =? 0)%N] => destruct (N.eqb_spec (len P) 0) as [E0|_] end;
      [exfalso; exact (HP E0)|].
    rewrite copy_at_last; [reflexivity|]. intros Hnil. apply HP. rewrite Hnil. reflexivity.
Qed.
Local Open Scope Z_scope.

(* ================================================================================================ *)
(* TransportLayerCC.Marshal (C): the translated code is the model function, on every outcome         *)
(* ================================================================================================ *)
Theorem src_TransportLayerCC_Marshal : forall t, twcc_fits t ->
  GoSrc.TransportLayerCC_Marshal (src_twcc t) = TWCC_marshal t.
Proof.
  intros t Hf. rewrite TWCC_marshal_eq_slow. apply src_TransportLayerCC_Marshal_slow. exact Hf.
Qed.

(* the form with every field within its Go type (only the int64 Delta is used) *)
Definition twcc_fits_all (t : TWCC) : Prop :=
  header_fits (tw_hdr t) /\
  (tw_sender t < 4294967296 /\ tw_media t < 4294967296 /\ tw_base t < 65536 /\ tw_count t < 65536 /\
   tw_reftime t < 4294967296 /\ tw_fb t < 256)%N /\
  Forall (fun c => match c with
                   | RLC ty sym run => (ty < 65536 /\ sym < 65536 /\ run < 65536)%N
                   | SVC ty ss syms => (ty < 65536 /\ ss < 65536)%N /\ Forall (fun s => (s < 65536)%N) syms
                   end) (tw_chunks t) /\
  Forall (fun d => (rd_type d < 65536)%N /\ delta_fits d) (tw_deltas t).
Corollary src_TransportLayerCC_Marshal_fits : forall t, twcc_fits_all t ->
  GoSrc.TransportLayerCC_Marshal (src_twcc t) = TWCC_marshal t.
Proof.
  intros t [_ [_ [_ Hd]]]. apply src_TransportLayerCC_Marshal. unfold twcc_fits.
  eapply Forall_impl; [|exact Hd]. intros d [_ H]. exact H.
Qed.

(* the hypothesis is needed: a Delta outside int64 is divided as it is by the model, wrapped by the translated code *)
Lemma src_TransportLayerCC_Marshal_refuted_without_fits :
  exists t, GoSrc.TransportLayerCC_Marshal (src_twcc t) <> TWCC_marshal t.
Proof.
  exists (mkTWCC (mkHeader false 15 205 5) 1 2 3 1 4 5 [] [Model.Twcc.mkRecvDelta 1 (250 * 18446744073709551616)]).
  vm_compute. discriminate.
Qed.

(* the oversize regime is covered by the theorem; two instances: the 16-bit size wraps to 0 (make panics), and to 24
   (the fourth chunk is written beyond the 20-octet payload) *)
Lemma src_TransportLayerCC_Marshal_oversize_example :
  let t := mkTWCC (mkHeader false 15 205 5) 1 2 3 1 4 5 (repeat (RLC 0 0 1) (N.to_nat 32758)) [] in
  twcc_fits t /\ (65532 < twcc_exact_len t)%N /\ TWCC_size t = 0%N /\
  GoSrc.TransportLayerCC_Marshal (src_twcc t) = Panic /\ TWCC_marshal t = Panic.
Proof.
  cbv zeta. split; [constructor|]. split; [vm_compute; reflexivity|]. split; [vm_compute; reflexivity|].
  split; vm_compute; reflexivity.
Qed.
Lemma src_TransportLayerCC_Marshal_oversize_example2 :
  let t := mkTWCC (mkHeader false 15 205 5) 1 2 3 1 4 5 (repeat (RLC 0 0 1) (N.to_nat 32770)) [] in
  twcc_fits t /\ (65532 < twcc_exact_len t)%N /\ TWCC_size t = 24%N /\
  GoSrc.TransportLayerCC_Marshal (src_twcc t) = Panic /\ TWCC_marshal t = Panic.
Proof.
  cbv zeta. split; [constructor|]. split; [vm_compute; reflexivity|]. split; [vm_compute; reflexivity|].
  split; vm_compute; reflexivity.
Qed.

Print Assumptions src_numOfBitsOfSymbolSize.
Print Assumptions src_localMin.
Print Assumptions src_StatusVectorChunk_Marshal.
Print Assumptions src_PacketStatusChunk_Marshal.
Print Assumptions src_TransportLayerCC_packetLen.
Print Assumptions src_TransportLayerCC_MarshalSize.
Print Assumptions src_TransportLayerCC_Len.
Print Assumptions src_TransportLayerCC_DestinationSSRC.
Print Assumptions src_TransportLayerCC_DestinationSSRC_packet.
Print Assumptions src_TransportLayerCC_Marshal_slow.
Print Assumptions TWCC_marshal_eq_slow.
Print Assumptions src_TransportLayerCC_Marshal.
Print Assumptions src_TransportLayerCC_Marshal_fits.
Print Assumptions src_TransportLayerCC_Marshal_refuted_without_fits.
Print Assumptions src_TransportLayerCC_Marshal_oversize_example.
Print Assumptions src_TransportLayerCC_Marshal_oversize_example2.
