(* SourceFeedback2 (P22, group B2): the translated FullIntraRequest and SliceLossIndication codecs (Gen/Funcs.v, module
   GoSrc, with their loops) compute what the model functions FIR_* / SLI_* of Model/Feedback.v compute, on every outcome.

   No [fits] hypothesis is needed anywhere: the encoders truncate over-wide fields in the same way on both sides
   (PutUint32 keeps the low 32 bits, a byte store keeps the low 8 bits, the SLI fields are masked), and lists may have
   any length.  The decoders are proved for an arbitrary receiver (the Go code appends to the receiver's slice) and the
   zero-receiver form follows. *)
From RTCP Require Import Proofs.Tactics Lib.GoSem Gen.Funcs Proofs.GoSemFacts
  Model.Header Model.Reports Model.Feedback Model.Packet Proofs.SourceEquiv Proofs.SrcConv Proofs.HeaderProofs Proofs.Total2.
Local Open Scope Z_scope.

(* ================================================================================================ *)
Section MoreGoSemFacts.
(* ================================================================================================ *)

(* lists *)
Lemma glenl_nlen {A} (l : list A) : glenl l = Z.of_N (nlen l).
Proof. unfold glenl, nlen. rewrite nat_N_Z. reflexivity. Qed.
Lemma glenl_map {A B} (f : A -> B) (l : list A) : glenl (map f l) = Z.of_N (nlen l).
Proof. unfold glenl, nlen. rewrite map_length, nat_N_Z. reflexivity. Qed.
Lemma glenl_nonneg {A} (l : list A) : 0 <= glenl l.
Proof. unfold glenl. lia. Qed.
Lemma glenl_nil {A} : glenl (@nil A) = 0.  Proof. reflexivity. Qed.
Lemma glenl_cons {A} (x : A) l : glenl (x :: l) = 1 + glenl l.
Proof. unfold glenl. cbn [List.length]. lia. Qed.
Lemma glenl_app {A} (a b : list A) : glenl (a ++ b) = glenl a + glenl b.
Proof. unfold glenl. rewrite app_length. lia. Qed.
Lemma nlen_cons' {A} (x : A) l : nlen (x :: l) = (1 + nlen l)%N.
Proof. unfold nlen. cbn [List.length]. lia. Qed.

Lemma gmakel_0 {A} (z : A) : gmakel z 0 = Ok [].
Proof. reflexivity. Qed.
Lemma gmakel_ok {A} (z : A) n : 0 <= n -> gmakel z n = Ok (repeat z (Z.to_nat n)).
Proof. intros. unfold gmakel. destruct (Z.ltb_spec n 0); [lia|reflexivity]. Qed.
Lemma gmakel_neg {A} (z : A) n : n < 0 -> gmakel z n = Panic.
Proof. intros. unfold gmakel. destruct (Z.ltb_spec n 0); [reflexivity|lia]. Qed.
Lemma gnth_ok {A} (d : A) l i : 0 <= i < glenl l -> gnth l i = Ok (nth (Z.to_nat i) l d).
Proof.
  intros H. unfold gnth. destruct (Z.ltb_spec i 0); [lia|]. destruct (Z.leb_spec (glenl l) i); [lia|].
  cbn [orb]. rewrite (nth_error_nth' l d) by (unfold glenl in H; lia). reflexivity.
Qed.
Lemma gnth_panic {A} (l : list A) i : i < 0 \/ glenl l <= i -> gnth l i = Panic.
Proof.
  intros H. unfold gnth. destruct (Z.ltb_spec i 0); [reflexivity|]. destruct (Z.leb_spec (glenl l) i); [reflexivity|lia].
Qed.

(* views: the re-slicing x[lo:] of a view (b, off) only checks bounds *)
Lemma gview_ok b off lo : 0 <= lo <= glen b - off -> gview b off lo = Ok tt.
Proof.
  intros H. unfold gview. destruct (Z.ltb_spec lo 0); [lia|]. destruct (Z.ltb_spec (glen b - off) lo); [lia|]. reflexivity.
Qed.
Lemma gview_panic b off lo : lo < 0 \/ glen b - off < lo -> gview b off lo = Panic.
Proof.
  intros H. unfold gview. destruct (Z.ltb_spec lo 0); [reflexivity|].
  destruct (Z.ltb_spec (glen b - off) lo); [reflexivity|lia].
Qed.
Lemma gview2_ok b off lo hi : 0 <= lo <= hi -> hi <= glen b - off -> gview2 b off lo hi = Ok tt.
Proof.
  intros H1 H2. unfold gview2. destruct (Z.ltb_spec lo 0); [lia|]. destruct (Z.ltb_spec hi lo); [lia|].
  destruct (Z.ltb_spec (glen b - off) hi); [lia|]. reflexivity.
Qed.

(* copy(dst[off:], src) is Base's copy_at *)
Lemma gcopy_N dst off src : gcopy dst (Z.of_N off) src = copy_at dst off src.
Proof.
  unfold gcopy, copy_at. rewrite glen_len.
  destruct (Z.ltb_spec (Z.of_N off) 0); [lia|].
  destruct (Z.ltb_spec (Z.of_N (len dst)) (Z.of_N off)), (N.ltb_spec (len dst) off); try lia; cbn [orb]; [reflexivity|].
  rewrite <- Z_N_nat, N2Z.id. unfold glen.
  replace (Z.to_nat (Z.min (Z.of_N (len dst) - Z.of_N off) (Z.of_nat (List.length src))))
    with (Nat.min (List.length src) (List.length dst - N.to_nat off)) by (unfold len in *; lia).
  replace (Z.to_nat (Z.of_N off + Z.min (Z.of_N (len dst) - Z.of_N off) (Z.of_nat (List.length src))))
    with (N.to_nat off + Nat.min (List.length src) (List.length dst - N.to_nat off))%nat by (unfold len in *; lia).
  reflexivity.
Qed.
Lemma gcopy_ok dst off src : 0 <= off -> off + glen src <= glen dst ->
  gcopy dst off src = Ok (firstn (Z.to_nat off) dst ++ src ++ skipn (Z.to_nat off + List.length src) dst).
Proof.
  intros H1 H2. pose proof (glen_nonneg src). unfold gcopy. destruct (Z.ltb_spec off 0); [lia|]. destruct (Z.ltb_spec (glen dst) off); [lia|].
  cbn [orb]. rewrite Z.min_r by lia. unfold glen at 1. rewrite Nat2Z.id, firstn_all.
  replace (Z.to_nat (off + glen src)) with (Z.to_nat off + List.length src)%nat by (unfold glen; lia). reflexivity.
Qed.
Lemma gcopy_lim_ok dst off lim src : 0 <= off -> glen src <= lim -> off + lim <= glen dst ->
  gcopy_lim dst off lim src = Ok (firstn (Z.to_nat off) dst ++ src ++ skipn (Z.to_nat off + List.length src) dst).
Proof.
  intros H1 H2 H3. pose proof (glen_nonneg src). unfold gcopy_lim.
  destruct (Z.ltb_spec off 0); [lia|]. destruct (Z.ltb_spec lim 0); [lia|].
  destruct (Z.ltb_spec (glen dst) (off + lim)); [lia|].
  cbn [orb]. rewrite Z.min_r by lia. unfold glen at 1. rewrite Nat2Z.id, firstn_all.
  replace (Z.to_nat (off + glen src)) with (Z.to_nat off + List.length src)%nat by (unfold glen; lia). reflexivity.
Qed.
Lemma gcopyl_same_length {A} (dst src : list A) : List.length dst = List.length src -> gcopyl dst src = src.
Proof.
  intros H. unfold gcopyl. rewrite H, firstn_all, skipn_all2 by lia. apply app_nil_r.
Qed.
Lemma updl_nat_spec {A} (v : A) : forall l i, (i < List.length l)%nat -> updl_nat l i v = firstn i l ++ v :: skipn (S i) l.
Proof.
  induction l as [|x r IH]; intros i Hi; cbn [List.length] in Hi; [lia|].
  destruct i as [|i]; cbn [updl_nat firstn skipn app]; [reflexivity|]. f_equal. apply IH. lia.
Qed.
Lemma gupdl_ok {A} (l : list A) i v : 0 <= i < glenl l ->
  gupdl l i v = Ok (firstn (Z.to_nat i) l ++ v :: skipn (S (Z.to_nat i)) l).
Proof.
  intros H. unfold gupdl. destruct (Z.ltb_spec i 0); [lia|]. destruct (Z.leb_spec (glenl l) i); [lia|].
  cbn [orb]. rewrite updl_nat_spec by (unfold glenl in H; lia). reflexivity.
Qed.

(* writing at the frontier of a zero tail (the Z-offset counterparts of Base's put_be_fr / copy_at_fr) *)
Lemma gbe_put_fr k pre n x off : off = glen pre -> (N.of_nat k <= n)%N ->
  gbe_put k (pre ++ zeros n) off (Z.of_N x) = Ok ((pre ++ be k x) ++ zeros (n - N.of_nat k)).
Proof. intros -> H. rewrite glen_len, gbe_put_N. apply put_be_fr; [reflexivity|exact H]. Qed.
Lemma gbe_put_fr0 k n x : (N.of_nat k <= n)%N ->
  gbe_put k (zeros n) 0 (Z.of_N x) = Ok (be k x ++ zeros (n - N.of_nat k)).
Proof. intros H. exact (gbe_put_fr k [] n x 0 eq_refl H). Qed.
Lemma gupd_fr pre n v off : off = glen pre -> (1 <= n)%N ->
  gupd (pre ++ zeros n) off v = Ok ((pre ++ [byte_of_Z v]) ++ zeros (n - 1)).
Proof.
  intros -> H. rewrite glen_len, gupd_copy_at by (rewrite len_app, len_zeros; lia).
  apply copy_at_fr; [reflexivity|cbn [List.length]; lia].
Qed.
Lemma gview_fr pre n off lo : off = 0 -> lo = glen pre -> gview (pre ++ zeros n) off lo = Ok tt.
Proof. intros -> ->. apply gview_ok. rewrite glen_app, glen_zeros. pose proof (glen_nonneg pre). lia. Qed.

End MoreGoSemFacts.

Ltac fir_fields :=
  cbv [GoSrc.set_FullIntraRequest_SenderSSRC GoSrc.set_FullIntraRequest_MediaSSRC GoSrc.set_FullIntraRequest_FIR
       GoSrc.FullIntraRequest_SenderSSRC GoSrc.FullIntraRequest_MediaSSRC GoSrc.FullIntraRequest_FIR
       GoSrc.FIREntry_SSRC GoSrc.FIREntry_SequenceNumber].
Ltac sli_fields :=
  cbv [GoSrc.set_SliceLossIndication_SenderSSRC GoSrc.set_SliceLossIndication_MediaSSRC GoSrc.set_SliceLossIndication_SLI
       GoSrc.SliceLossIndication_SenderSSRC GoSrc.SliceLossIndication_MediaSSRC GoSrc.SliceLossIndication_SLI
       GoSrc.SLIEntry_First GoSrc.SLIEntry_Number GoSrc.SLIEntry_Picture].

(* ================================================================================================ *)
(* FullIntraRequest: MarshalSize, Header, DestinationSSRC                                            *)
(* ================================================================================================ *)
Lemma src_FullIntraRequest_MarshalSize : forall x, GoSrc.FullIntraRequest_MarshalSize (src_fir x) = Z.of_N (FIR_size x).
Proof.
  intros x. unfold GoSrc.FullIntraRequest_MarshalSize, FIR_size, src_fir. fir_fields. consts.
  rewrite glenl_map. lia.
Qed.

Lemma src_FullIntraRequest_Header : forall x, GoSrc.FullIntraRequest_Header (src_fir x) = src_header (FIR_header x).
Proof.
  intros x. unfold GoSrc.FullIntraRequest_Header. rewrite src_FullIntraRequest_MarshalSize.
  unfold FIR_header, src_header. cbn [h_pad h_count h_type h_len]. consts.
  f_equal. assert (12 <= FIR_size x)%N by (unfold FIR_size; consts; lia).
  change 4 with (Z.of_N 4). rewrite Zquot_N.
  replace (Z.of_N (FIR_size x / 4) - 1) with (Z.of_N (FIR_size x / 4 - 1)) by lia.
  apply uwrap16_N.
Qed.

Lemma FIR_dest_loop : forall rest idx p acc,
  GoSrc.FullIntraRequest_DestinationSSRC_loop1 rest idx p acc = Ok (acc ++ map GoSrc.FIREntry_SSRC rest).
Proof.
  induction rest as [|e rest IH]; intros idx p acc; cbn [GoSrc.FullIntraRequest_DestinationSSRC_loop1 map].
  - unfold GoSrc.FullIntraRequest_DestinationSSRC_after1. rewrite app_nil_r. reflexivity.
  - rewrite IH, <- app_assoc. reflexivity.
Qed.

Lemma src_FullIntraRequest_DestinationSSRC : forall x,
  GoSrc.FullIntraRequest_DestinationSSRC (src_fir x) = Ok (zN (dest_packet (PFIR x))).
Proof.
  intros x. unfold GoSrc.FullIntraRequest_DestinationSSRC. rewrite gmakel_0. cbn [bind].
  rewrite FIR_dest_loop. cbn [app dest_packet]. unfold FIR_dest, zN, src_fir. fir_fields.
  rewrite !map_map. reflexivity.
Qed.

(* ================================================================================================ *)
(* FullIntraRequest.Marshal                                                                          *)
(* ================================================================================================ *)
Definition fir_enc (e : FIREntry) : bytes := be 4 (fir_ssrc e) ++ [n2b (fir_seq e); x00; x00; x00].

(* shape: the loop writes entry idx at offsets 8+8*idx (PutUint32) and 8+8*idx+4 (one octet) of a buffer whose tail is still
   zero; invariant "buffer = written prefix ++ zeros (8 * entries left)" *)
Lemma FIR_marshal_loop : forall es idx p pre, glen pre = 8 + 8 * idx ->
  GoSrc.FullIntraRequest_Marshal_loop1 (map src_fire es) idx p (pre ++ zeros (8 * nlen es)) =
  GoSrc.FullIntraRequest_Marshal_after1 p (pre ++ concat (map fir_enc es)).
Proof.
  induction es as [|e es IH]; intros idx p pre Hpre; cbn [map GoSrc.FullIntraRequest_Marshal_loop1 concat].
  - change (zeros (8 * nlen (@nil FIREntry))) with (@nil byte). reflexivity.
  - rewrite nlen_cons'. unfold src_fire at 1 2. fir_fields.
    rewrite gview_fr by lia. cbn [bind].
    rewrite gbe_put_fr by lia. cbn [bind].
    rewrite gupd_fr by (rewrite ?glen_app, ?glen_be; lia). cbn [bind].
    rewrite byte_of_Z_N.
    replace (8 * (1 + nlen es) - N.of_nat 4 - 1)%N with (3 + 8 * nlen es)%N by lia.
    rewrite zeros_add. change (zeros 3) with [x00; x00; x00].
    replace (((pre ++ be 4 (fir_ssrc e)) ++ [n2b (fir_seq e)]) ++ [x00; x00; x00] ++ zeros (8 * nlen es))
      with ((pre ++ fir_enc e) ++ zeros (8 * nlen es))
      by (unfold fir_enc; rewrite <- !app_assoc; reflexivity).
    rewrite IH by (unfold fir_enc; rewrite !glen_app, glen_be, !glen_cons, glen_nil; lia).
    rewrite <- app_assoc. reflexivity.
Qed.

Lemma src_FullIntraRequest_Marshal : forall x, GoSrc.FullIntraRequest_Marshal (src_fir x) = FIR_marshal x.
Proof.
  intros x. unfold GoSrc.FullIntraRequest_Marshal, FIR_marshal.
  replace (GoSrc.FullIntraRequest_FIR (src_fir x)) with (map src_fire (fir_entries x)) by reflexivity.
  replace (GoSrc.FullIntraRequest_SenderSSRC (src_fir x)) with (Z.of_N (fir_sender x)) by reflexivity.
  replace (GoSrc.FullIntraRequest_MediaSSRC (src_fir x)) with (Z.of_N (fir_media x)) by reflexivity.
  rewrite glenl_map.
  replace (8 + Z.of_N (nlen (fir_entries x)) * 8) with (Z.of_N (8 + 8 * nlen (fir_entries x))) by lia.
  rewrite gmake_N. cbn [bind].
  rewrite gbe_put_fr0 by lia. cbn [bind].
  rewrite gbe_put_fr by (rewrite ?glen_be; lia). cbn [bind].
  replace (8 + 8 * nlen (fir_entries x) - N.of_nat 4 - N.of_nat 4)%N with (8 * nlen (fir_entries x))%N by lia.
  rewrite FIR_marshal_loop by (rewrite glen_app, !glen_be; lia).
  unfold GoSrc.FullIntraRequest_Marshal_after1. rewrite src_FullIntraRequest_Header, src_Header_Marshal.
  destruct (Header_marshal (FIR_header x)) as [h| | |]; cbn [bind]; [|reflexivity..].
  unfold gappend, fir_enc. rewrite <- ?app_assoc. reflexivity.
Qed.

(* ================================================================================================ *)
(* FullIntraRequest.Unmarshal                                                                        *)
(* ================================================================================================ *)
(* binary.BigEndian.UintK(b[off:]) followed by a continuation *)
Lemma gbe_get_at_bind {A} k b off (F : Z -> res A) :
  bind (gslice_from b (Z.of_N off)) (fun t => bind (gbe_get k t) F) = bind (get_be_at k b off) (fun x => F (Z.of_N x)).
Proof.
  rewrite <- bind_res_map, <- gbe_get_at. destruct (gslice_from b (Z.of_N off)); reflexivity.
Qed.
Lemma gidx_bind {A} b i (F : Z -> res A) : bind (gidx b (Z.of_N i)) F = bind (idx b i) (fun x => F (Z.of_N (b2n x))).
Proof. rewrite gidx_idx, bind_res_map. reflexivity. Qed.
Lemma Zleb_N_0r a : (Z.of_N a <=? 0) = (a <=? 0)%N.
Proof. exact (Zleb_N a 0). Qed.
Lemma Zmod_eqb0_N a p : (Z.of_N a mod Z.pos p =? 0) = (a mod N.pos p =? 0)%N.
Proof. change (Z.pos p) with (Z.of_N (N.pos p)). rewrite <- N2Z.inj_mod. apply Zeqb_N_0r. Qed.

(* the loop bound of the translated decoders: headerLength + int(h.Length*4) with the product in uint16 *)
Lemma src_loop_stop hm : 4 + uwrap 16 (GoSrc.Header_Length (src_header hm) * 4) = Z.of_N (4 + u16 (4 * h_len hm)).
Proof.
  unfold src_header. cbn [GoSrc.Header_Length]. rewrite Zmul_N_r, uwrap16_N, Zadd_N_l, N.mul_comm. reflexivity.
Qed.
Lemma src_l4 hm : uwrap 16 (4 * GoSrc.Header_Length (src_header hm)) = Z.of_N (u16 (4 * h_len hm)).
Proof. unfold src_header. cbn [GoSrc.Header_Length]. rewrite Zmul_N_l, uwrap16_N. reflexivity. Qed.

(* what Unmarshal leaves in a receiver p0 (the Go code appends to p0.FIR) *)
Definition fir_recv (p0 : GoSrc.FullIntraRequest) (x : FIR) : GoSrc.FullIntraRequest :=
  GoSrc.mkFullIntraRequest (Z.of_N (fir_sender x)) (Z.of_N (fir_media x))
    (GoSrc.FullIntraRequest_FIR p0 ++ map src_fire (fir_entries x)).

(* shape: both loops test i < stop, read UintK(raw[i:]) then raw[i+4], step by 8; the Go loop appends to the receiver, the
   model conses onto the result of the recursive call.  Any two fuels above stop - i agree. *)
Lemma FIR_unmarshal_loop raw hm : forall f g i p,
  (N.to_nat (4 + u16 (4 * h_len hm) - i) < f)%nat -> (N.to_nat (4 + u16 (4 * h_len hm) - i) < g)%nat ->
  GoSrc.FullIntraRequest_Unmarshal_loop1 f (src_header hm) (Z.of_N i) p raw =
  res_map (fun es => GoSrc.set_FullIntraRequest_FIR (GoSrc.FullIntraRequest_FIR p ++ map src_fire es) p)
          (fir_read g raw i (4 + u16 (4 * h_len hm))).
Proof.
  induction f as [|f IH]; intros g i p Hf Hg; [lia|]. destruct g as [|g]; [lia|].
  cbn [GoSrc.FullIntraRequest_Unmarshal_loop1 fir_read]. rewrite src_loop_stop, Zltb_N.
  destruct (N.ltb_spec i (4 + u16 (4 * h_len hm))) as [Hi|Hi].
  - rewrite gbe_get_at_bind.
    destruct (get_be_at 4 raw i) as [s| | |]; cbn [bind res_map]; try reflexivity.
    rewrite Zadd_N_r, gidx_bind.
    destruct (idx raw (i + 4)) as [q| | |]; cbn [bind res_map]; try reflexivity.
    rewrite Zadd_N_r. rewrite (IH g) by lia.
    destruct (fir_read g raw (i + 8) (4 + u16 (4 * h_len hm))) as [es| | |]; cbn [bind res_map]; try reflexivity.
    f_equal. destruct p as [a b l]. fir_fields. cbn [map]. unfold src_fire at 2. cbn [fir_ssrc fir_seq].
    rewrite <- app_assoc. reflexivity.
  - unfold GoSrc.FullIntraRequest_Unmarshal_after1. cbn [res_map map]. destruct p as [a b l]. fir_fields.
    rewrite app_nil_r. reflexivity.
Qed.

Lemma src_FullIntraRequest_Unmarshal_gen : forall p0 b,
  GoSrc.FullIntraRequest_Unmarshal p0 b = res_map (fir_recv p0) (FIR_unmarshal b).
Proof.
  intros p0 b. unfold GoSrc.FullIntraRequest_Unmarshal, FIR_unmarshal. consts. change (4 + 8)%N with 12%N.
  rewrite glen_len, Zltb_N_r.
  destruct (N.ltb_spec (len b) 12) as [Hl|Hl]; [reflexivity|].
  rewrite src_Header_Unmarshal.
  destruct (Header_unmarshal b) as [hm| | |]; cbn [res_map bind]; try reflexivity.
  rewrite src_l4, src_loop_stop, Zadd_N_l, Zltb_N.
  destruct (N.ltb_spec (len b) (4 + u16 (4 * h_len hm))) as [Hl4|Hl4]; [reflexivity|].
  unfold src_header at 1 2. cbn [GoSrc.Header_Type GoSrc.Header_Count]. rewrite !Zeqb_N_r.
  destruct (negb (h_type hm =? 206)%N || negb (h_count hm =? 4)%N); [reflexivity|].
  rewrite uwrap16_sub_r, Zleb_N_0r, Zmod_eqb0_N.
  destruct ((sub16 (u16 (4 * h_len hm)) 8 <=? 0)%N || negb (u16 (4 * h_len hm) mod 8 =? 0)%N); [reflexivity|].
  rewrite (gbe_get_at_bind 4 b 4).
  destruct (get_be_at 4 b 4) as [s| | |]; cbn [bind res_map]; try reflexivity.
  rewrite (gbe_get_at_bind 4 b 8). change (4 + 4)%N with 8%N.
  destruct (get_be_at 4 b 8) as [m| | |]; cbn [bind res_map]; try reflexivity.
  rewrite (FIR_unmarshal_loop b hm _ (S (List.length b)) 12) by (unfold len in *; lia).
  destruct (fir_read (S (List.length b)) b 12 (4 + u16 (4 * h_len hm))) as [es| | |]; cbn [bind res_map]; try reflexivity.
Qed.

Lemma src_FullIntraRequest_Unmarshal : forall b,
  GoSrc.FullIntraRequest_Unmarshal GoSrc.zero_FullIntraRequest b = res_map src_fir (FIR_unmarshal b).
Proof.
  intros b. rewrite src_FullIntraRequest_Unmarshal_gen. apply res_map_ext. intros x. reflexivity.
Qed.

(* ================================================================================================ *)
(* SliceLossIndication: MarshalSize, Header, DestinationSSRC                                         *)
(* ================================================================================================ *)
Lemma src_SliceLossIndication_MarshalSize : forall x,
  GoSrc.SliceLossIndication_MarshalSize (src_sli x) = Z.of_N (SLI_size x).
Proof.
  intros x. unfold GoSrc.SliceLossIndication_MarshalSize, SLI_size, src_sli. sli_fields. consts.
  rewrite glenl_map. lia.
Qed.

Lemma src_SliceLossIndication_Header : forall x,
  GoSrc.SliceLossIndication_Header (src_sli x) = src_header (SLI_header x).
Proof.
  intros x. unfold GoSrc.SliceLossIndication_Header. rewrite src_SliceLossIndication_MarshalSize.
  unfold SLI_header, src_header. cbn [h_pad h_count h_type h_len]. consts.
  f_equal. assert (12 <= SLI_size x)%N by (unfold SLI_size; consts; lia).
  change 4 with (Z.of_N 4). rewrite Zquot_N.
  replace (Z.of_N (SLI_size x / 4) - 1) with (Z.of_N (SLI_size x / 4 - 1)) by lia.
  apply uwrap16_N.
Qed.

Lemma src_SliceLossIndication_DestinationSSRC : forall x,
  GoSrc.SliceLossIndication_DestinationSSRC (src_sli x) = zN (dest_packet (PSLI x)).
Proof. intros x. reflexivity. Qed.

(* ================================================================================================ *)
(* SliceLossIndication.Marshal                                                                       *)
(* ================================================================================================ *)
(* shape: the packed word is any combination of & | << and uint32 truncations that go2n can push Z.of_N through *)
Lemma src_sli_word e :
  Z.lor (Z.lor (uwrap 32 (gshl (Z.land (Z.of_N (sli_first e)) 8191) 19))
               (uwrap 32 (gshl (Z.land (Z.of_N (sli_number e)) 8191) 6)))
        (Z.land (Z.of_N (sli_picture e)) 63) = Z.of_N (sli_word e).
Proof. go2n. unfold sli_word. rewrite !N.shiftl_mul_pow2. reflexivity. Qed.

Lemma SLI_marshal_loop : forall es idx p pre, glen pre = 8 + 4 * idx ->
  GoSrc.SliceLossIndication_Marshal_loop1 (map src_slie es) idx p (pre ++ zeros (4 * nlen es)) =
  GoSrc.SliceLossIndication_Marshal_after1 p (pre ++ concat (map (fun e => be 4 (sli_word e)) es)).
Proof.
  induction es as [|e es IH]; intros idx p pre Hpre; cbn [map GoSrc.SliceLossIndication_Marshal_loop1 concat].
  - change (zeros (4 * nlen (@nil SLIEntry))) with (@nil byte). reflexivity.
  - rewrite nlen_cons'. unfold src_slie at 1 2 3. sli_fields. rewrite src_sli_word.
    rewrite gview_fr by lia. cbn [bind].
    rewrite gbe_put_fr by lia. cbn [bind].
    replace (4 * (1 + nlen es) - N.of_nat 4)%N with (4 * nlen es)%N by lia.
    rewrite IH by (rewrite glen_app, glen_be; lia).
    rewrite <- app_assoc. reflexivity.
Qed.

Lemma src_SliceLossIndication_Marshal : forall x, GoSrc.SliceLossIndication_Marshal (src_sli x) = SLI_marshal x.
Proof.
  intros x. unfold GoSrc.SliceLossIndication_Marshal, SLI_marshal. consts.
  replace (GoSrc.SliceLossIndication_SLI (src_sli x)) with (map src_slie (sli_entries x)) by reflexivity.
  replace (GoSrc.SliceLossIndication_SenderSSRC (src_sli x)) with (Z.of_N (sli_sender x)) by reflexivity.
  replace (GoSrc.SliceLossIndication_MediaSSRC (src_sli x)) with (Z.of_N (sli_media x)) by reflexivity.
  rewrite glenl_map. rewrite Zadd_N_r, Zltb_N_l.
  destruct (255 <? nlen (sli_entries x) + 2)%N; [reflexivity|].
  replace (8 + Z.of_N (nlen (sli_entries x)) * 4) with (Z.of_N (8 + 4 * nlen (sli_entries x))) by lia.
  rewrite gmake_N. cbn [bind].
  rewrite gbe_put_fr0 by lia. cbn [bind].
  rewrite gbe_put_fr by (rewrite ?glen_be; lia). cbn [bind].
  replace (8 + 4 * nlen (sli_entries x) - N.of_nat 4 - N.of_nat 4)%N with (4 * nlen (sli_entries x))%N by lia.
  rewrite SLI_marshal_loop by (rewrite glen_app, !glen_be; lia).
  unfold GoSrc.SliceLossIndication_Marshal_after1. rewrite src_SliceLossIndication_Header, src_Header_Marshal.
  destruct (Header_marshal (SLI_header x)) as [h| | |]; cbn [bind]; [|reflexivity..].
  unfold gappend. rewrite <- ?app_assoc. reflexivity.
Qed.

(* ================================================================================================ *)
(* SliceLossIndication.Unmarshal                                                                     *)
(* ================================================================================================ *)
Lemma src_sli_of_word w :
  GoSrc.mkSLIEntry (uwrap 16 (Z.land (gshr (Z.of_N w) 19) 8191)) (uwrap 16 (Z.land (gshr (Z.of_N w) 6) 8191))
                   (uwrap 8 (Z.land (Z.of_N w) 63)) = src_slie (sli_of_word w).
Proof.
  go2n. unfold src_slie, sli_of_word. cbn [sli_first sli_number sli_picture]. rewrite !N.shiftr_div_pow2. reflexivity.
Qed.

Definition sli_recv (p0 : GoSrc.SliceLossIndication) (x : SLI) : GoSrc.SliceLossIndication :=
  GoSrc.mkSliceLossIndication (Z.of_N (sli_sender x)) (Z.of_N (sli_media x))
    (GoSrc.SliceLossIndication_SLI p0 ++ map src_slie (sli_entries x)).

Lemma SLI_unmarshal_loop raw hm : forall f g i p,
  (N.to_nat (4 + u16 (4 * h_len hm) - i) < f)%nat -> (N.to_nat (4 + u16 (4 * h_len hm) - i) < g)%nat ->
  GoSrc.SliceLossIndication_Unmarshal_loop1 f (src_header hm) (Z.of_N i) p raw =
  res_map (fun es => GoSrc.set_SliceLossIndication_SLI (GoSrc.SliceLossIndication_SLI p ++ map src_slie es) p)
          (sli_read g raw i (4 + u16 (4 * h_len hm))).
Proof.
  induction f as [|f IH]; intros g i p Hf Hg; [lia|]. destruct g as [|g]; [lia|].
  cbn [GoSrc.SliceLossIndication_Unmarshal_loop1 sli_read]. rewrite src_loop_stop, Zltb_N.
  destruct (N.ltb_spec i (4 + u16 (4 * h_len hm))) as [Hi|Hi].
  - rewrite gbe_get_at_bind.
    destruct (get_be_at 4 raw i) as [w| | |]; cbn [bind res_map]; try reflexivity.
    rewrite Zadd_N_r. rewrite (IH g) by lia.
    destruct (sli_read g raw (i + 4) (4 + u16 (4 * h_len hm))) as [es| | |]; cbn [bind res_map]; try reflexivity.
    f_equal. rewrite src_sli_of_word. destruct p as [a b l]. sli_fields. cbn [map].
    rewrite <- app_assoc. reflexivity.
  - unfold GoSrc.SliceLossIndication_Unmarshal_after1. cbn [res_map map]. destruct p as [a b l]. sli_fields.
    rewrite app_nil_r. reflexivity.
Qed.

Lemma src_SliceLossIndication_Unmarshal_gen : forall p0 b,
  GoSrc.SliceLossIndication_Unmarshal p0 b = res_map (sli_recv p0) (SLI_unmarshal b).
Proof.
  intros p0 b. unfold GoSrc.SliceLossIndication_Unmarshal, SLI_unmarshal. consts. change (4 + 8)%N with 12%N.
  rewrite glen_len, Zltb_N_r.
  destruct (N.ltb_spec (len b) 12) as [Hl|Hl]; [reflexivity|].
  rewrite src_Header_Unmarshal.
  destruct (Header_unmarshal b) as [hm| | |]; cbn [res_map bind]; try reflexivity.
  rewrite src_l4, src_loop_stop, Zadd_N_l, Zltb_N.
  destruct (N.ltb_spec (len b) (4 + u16 (4 * h_len hm))) as [Hl4|Hl4]; [reflexivity|].
  unfold src_header at 1 2. cbn [GoSrc.Header_Type GoSrc.Header_Count]. rewrite !Zeqb_N_r.
  destruct (negb (h_type hm =? 205)%N || negb (h_count hm =? 2)%N); [reflexivity|].
  rewrite (gbe_get_at_bind 4 b 4).
  destruct (get_be_at 4 b 4) as [s| | |]; cbn [bind res_map]; try reflexivity.
  rewrite (gbe_get_at_bind 4 b 8). change (4 + 4)%N with 8%N.
  destruct (get_be_at 4 b 8) as [m| | |]; cbn [bind res_map]; try reflexivity.
  rewrite (SLI_unmarshal_loop b hm _ (S (List.length b)) 12) by (unfold len in *; lia).
  destruct (sli_read (S (List.length b)) b 12 (4 + u16 (4 * h_len hm))) as [es| | |]; cbn [bind res_map]; reflexivity.
Qed.

Lemma src_SliceLossIndication_Unmarshal : forall b,
  GoSrc.SliceLossIndication_Unmarshal GoSrc.zero_SliceLossIndication b = res_map src_sli (SLI_unmarshal b).
Proof.
  intros b. rewrite src_SliceLossIndication_Unmarshal_gen. apply res_map_ext. intros x. reflexivity.
Qed.

(* ================================================================================================ *)
(* Corollaries                                                                                       *)
(* ================================================================================================ *)
(* the invariants of the Go types; the encoder lemmas above hold WITHOUT them (both sides truncate alike), the forms
   with the hypothesis are the special cases asked for *)
Definition fire_fits (e : FIREntry) : Prop := (fir_ssrc e < 4294967296 /\ fir_seq e < 256)%N.
Definition fir_fits (x : FIR) : Prop :=
  (fir_sender x < 4294967296 /\ fir_media x < 4294967296)%N /\ Forall fire_fits (fir_entries x).
Definition slie_fits (e : SLIEntry) : Prop := (sli_first e < 65536 /\ sli_number e < 65536 /\ sli_picture e < 256)%N.
Definition sli_fits (x : SLI) : Prop :=
  (sli_sender x < 4294967296 /\ sli_media x < 4294967296)%N /\ Forall slie_fits (sli_entries x).
Lemma src_FullIntraRequest_Marshal_fits : forall x, fir_fits x -> GoSrc.FullIntraRequest_Marshal (src_fir x) = FIR_marshal x.
Proof. intros x _. apply src_FullIntraRequest_Marshal. Qed.
Lemma src_SliceLossIndication_Marshal_fits : forall x, sli_fits x -> GoSrc.SliceLossIndication_Marshal (src_sli x) = SLI_marshal x.
Proof. intros x _. apply src_SliceLossIndication_Marshal. Qed.

(* the translated decoders never panic and their loop fuel always suffices, whatever the receiver and the input *)
Lemma res_map_total {A B} (f : A -> B) (r : res A) : r <> Panic /\ r <> Fuel -> res_map f r <> Panic /\ res_map f r <> Fuel.
Proof. intros [H1 H2]. destruct r; cbn [res_map]; split; congruence. Qed.
Lemma src_FullIntraRequest_Unmarshal_total : forall p0 b,
  GoSrc.FullIntraRequest_Unmarshal p0 b <> Panic /\ GoSrc.FullIntraRequest_Unmarshal p0 b <> Fuel.
Proof. intros. rewrite src_FullIntraRequest_Unmarshal_gen. apply res_map_total, FIR_unmarshal_total. Qed.
Lemma src_SliceLossIndication_Unmarshal_total : forall p0 b,
  GoSrc.SliceLossIndication_Unmarshal p0 b <> Panic /\ GoSrc.SliceLossIndication_Unmarshal p0 b <> Fuel.
Proof. intros. rewrite src_SliceLossIndication_Unmarshal_gen. apply res_map_total, SLI_unmarshal_total. Qed.
(* FullIntraRequest.Marshal always succeeds *)
Lemma src_FullIntraRequest_Marshal_ok : forall x, exists b, GoSrc.FullIntraRequest_Marshal (src_fir x) = Ok b.
Proof.
  intros x. rewrite src_FullIntraRequest_Marshal. unfold FIR_marshal, FIR_header. consts.
  rewrite Header_marshal_spec by lia. cbn [bind]. eexists. reflexivity.
Qed.

Print Assumptions src_FullIntraRequest_MarshalSize.
Print Assumptions src_FullIntraRequest_Header.
Print Assumptions src_FullIntraRequest_DestinationSSRC.
Print Assumptions src_FullIntraRequest_Marshal.
Print Assumptions src_FullIntraRequest_Unmarshal_gen.
Print Assumptions src_FullIntraRequest_Unmarshal.
Print Assumptions src_SliceLossIndication_MarshalSize.
Print Assumptions src_SliceLossIndication_Header.
Print Assumptions src_SliceLossIndication_DestinationSSRC.
Print Assumptions src_SliceLossIndication_Marshal.
Print Assumptions src_SliceLossIndication_Unmarshal_gen.
Print Assumptions src_SliceLossIndication_Unmarshal.
Print Assumptions src_FullIntraRequest_Unmarshal_total.
Print Assumptions src_SliceLossIndication_Unmarshal_total.
Print Assumptions src_FullIntraRequest_Marshal_ok.
Print Assumptions gcopy_N.
Print Assumptions gbe_put_fr.
Print Assumptions gupd_fr.
