(* Datagram layer (packet.go, raw_packet.go, compound_packet.go): C06 frame splitting, C07 dispatch table,
   C11 compound grammar, plus totality of the splitter relative to totality of the per-type decoders. *)
From RTCP Require Import Proofs.Tactics Proofs.HeaderProofs Model.Header Model.Sdes Model.Packet Spec.Enc.
Local Open Scope N_scope.

(* ------------------------------------------------------------------------------------------ *)
(* generic helpers                                                                             *)
(* ------------------------------------------------------------------------------------------ *)

Lemma mapM_app {A B} (f : A -> res B) l1 l2 :
  mapM f (l1 ++ l2) = (let* a := mapM f l1 in let* b := mapM f l2 in Ok (a ++ b)).
Proof.
  induction l1 as [|x l1 IH]; cbn [mapM app bind].
  - destruct (mapM f l2); reflexivity.
  - destruct (f x); cbn [bind]; try reflexivity. rewrite IH.
    destruct (mapM f l1); cbn [bind]; try reflexivity.
    destruct (mapM f l2); cbn [bind app]; reflexivity.
Qed.

Lemma mapM_ok_length {A B} (f : A -> res B) l r : mapM f l = Ok r -> length r = length l.
Proof.
  revert r; induction l as [|x l IH]; intros r; cbn [mapM].
  - intros E; inversion E; reflexivity.
  - destruct (f x); cbn [bind]; try discriminate. destruct (mapM f l); cbn [bind]; try discriminate.
    intros E; inversion E; subst. cbn [length]. f_equal. apply IH. reflexivity.
Qed.

Lemma len_0_nil (b : bytes) : len b = 0 -> b = [].
Proof. destruct b; [reflexivity|]. rewrite len_cons. lia. Qed.

(* every per-type decoder rejects the empty frame (it is what the splitter hands over when the
   16-bit length field is 65535 and uint16(Length+1) wraps to 0) *)
Lemma decode_empty t : decode_as t [] = Err.
Proof. destruct t; vm_compute; reflexivity. Qed.

(* ------------------------------------------------------------------------------------------ *)
(* header of a prefix                                                                          *)
(* ------------------------------------------------------------------------------------------ *)

Lemma Header_unmarshal_app f rest : 4 <= len f -> Header_unmarshal (f ++ rest) = Header_unmarshal f.
Proof.
  intros Hl. unfold Header_unmarshal. consts. rewrite len_app.
  destruct (N.ltb_spec (len f + len rest) 4); [lia|]. destruct (N.ltb_spec (len f) 4); [lia|].
  rewrite !idx_ok by (rewrite ?len_app; lia). cbn [bind].
  assert (Hn : (4 <= length f)%nat) by (unfold len in Hl; lia).
  rewrite !app_nth1 by (change (N.to_nat 0) with 0%nat; change (N.to_nat 1) with 1%nat; lia).
  rewrite !get_be_at_ok by (rewrite ?len_app; cbn; lia).
  change (N.to_nat 2) with 2%nat.
  rewrite skipn_app, firstn_app, skipn_length.
  replace (2 - (length f - 2))%nat with 0%nat by lia. rewrite firstn_O, app_nil_r. reflexivity.
Qed.

Lemma Header_unmarshal_v2 f : 4 <= len f -> b2n (nth 0 f x00) / 64 = 2 -> exists h, Header_unmarshal f = Ok h.
Proof.
  intros Hl Hv. unfold Header_unmarshal. consts. destruct (N.ltb_spec (len f) 4); [lia|].
  rewrite !idx_ok by lia. cbn [bind]. change (N.to_nat 0) with 0%nat.
  rewrite land_3. change (2 ^ 6) with 64. rewrite Hv. change (2 mod 4 =? 2) with true. cbn [negb].
  rewrite get_be_at_ok by (cbn; lia). cbn [bind]. eexists. reflexivity.
Qed.

(* ------------------------------------------------------------------------------------------ *)
(* C06: frames                                                                                 *)
(* ------------------------------------------------------------------------------------------ *)

Definition framed (f : bytes) : Prop :=
  4 <= len f /\ b2n (nth 0 f x00) / 64 = 2 /\ len f = 4 * (unbe (firstn 2 (skipn 2 f)) + 1).
(* the length field 65535 is not usable: uint16(65535+1)*4 = 0 octets are handed to the decoder *)
Definition framed16 (f : bytes) : Prop := framed f /\ len f < 262144.

Definition decode_frame (f : bytes) : res packet :=
  let* h := Header_unmarshal f in decode_as (dispatch (h_type h) (h_count h)) f.

Lemma framed16_len f : framed16 f -> 4 <= len f.
Proof. intros [[H _] _]. exact H. Qed.

Lemma firstn_len_app (f rest : bytes) : firstn (N.to_nat (len f)) (f ++ rest) = f.
Proof.
  unfold len. rewrite Nat2N.id, firstn_app, Nat.sub_diag, firstn_O, app_nil_r. apply firstn_all.
Qed.
Lemma skipn_len_app (f rest : bytes) : skipn (N.to_nat (len f)) (f ++ rest) = rest.
Proof.
  unfold len. rewrite Nat2N.id, skipn_app, Nat.sub_diag, skipn_all. reflexivity.
Qed.

(* locality: the splitter sees exactly the frame *)
Lemma unmarshal_one_framed f rest : framed16 f ->
  unmarshal_one (f ++ rest) = (let* p := decode_frame f in Ok (p, len f)).
Proof.
  intros [(Hl & Hv & Hn) Hb]. unfold unmarshal_one, decode_frame.
  rewrite Header_unmarshal_app by exact Hl.
  destruct (Header_unmarshal f) as [h| | |] eqn:Hh; cbn [bind]; try reflexivity.
  apply Header_unmarshal_ok in Hh as (_ & _ & _ & _ & _ & Hlen).
  rewrite <- Hlen in Hn.
  assert (En : u16 (h_len h + 1) * 4 = len f) by (unfold u16; lia).
  rewrite En. rewrite len_app. destruct (N.ltb_spec (len f + len rest) (len f)); [lia|].
  rewrite slice_ok by (rewrite ?len_app; lia). cbn [bind].
  rewrite N.sub_0_r. change (N.to_nat 0) with 0%nat. cbn [skipn]. rewrite firstn_len_app. reflexivity.
Qed.

(* converse: whatever the splitter accepts is a frame, and it has been decoded in isolation *)
Lemma unmarshal_one_ok raw p n : unmarshal_one raw = Ok (p, n) ->
  4 <= n /\ n <= len raw /\ framed16 (firstn (N.to_nat n) raw) /\ decode_frame (firstn (N.to_nat n) raw) = Ok p.
Proof.
  unfold unmarshal_one. destruct (Header_unmarshal raw) as [h| | |] eqn:Hh; cbn [bind]; try discriminate.
  pose proof (Header_unmarshal_bounds _ _ Hh) as (_ & _ & Hb).
  destruct (N.ltb_spec (len raw) (u16 (h_len h + 1) * 4)) as [|Hle]; [discriminate|].
  rewrite slice_ok by lia. cbn [bind]. rewrite N.sub_0_r. change (N.to_nat 0) with 0%nat. cbn [skipn].
  destruct (N.eq_dec (h_len h) 65535) as [E|NE].
  { rewrite E. change (u16 (65535 + 1) * 4) with 0. change (N.to_nat 0) with 0%nat. rewrite firstn_O.
    rewrite decode_empty. cbn [bind]. discriminate. }
  assert (En : u16 (h_len h + 1) * 4 = 4 * (h_len h + 1)) by (unfold u16; lia).
  rewrite En in *. set (m := 4 * (h_len h + 1)) in *.
  set (f := firstn (N.to_nat m) raw).
  assert (Hlf : len f = m) by (unfold f; rewrite len_firstn; lia).
  assert (Hraw : raw = f ++ skipn (N.to_nat m) raw) by (unfold f; symmetry; apply firstn_skipn).
  assert (Hhf : Header_unmarshal f = Ok h).
  { transitivity (Header_unmarshal (f ++ skipn (N.to_nat m) raw)).
    - symmetry. apply Header_unmarshal_app. subst m. lia.
    - rewrite <- Hraw. exact Hh. }
  destruct (decode_as (dispatch (h_type h) (h_count h)) f) as [q| | |] eqn:Hd; cbn [bind]; try discriminate.
  intros E. inversion E; subst p n. clear E. fold f.
  pose proof (Header_unmarshal_ok _ _ Hhf) as (H4 & Hv & _ & _ & _ & Hlen).
  split; [subst m; lia|]. split; [exact Hle|]. split.
  - split; [split; [exact H4|split; [exact Hv|]]|].
    + rewrite <- Hlen, Hlf. reflexivity.
    + rewrite Hlf. subst m. lia.
  - unfold decode_frame. rewrite Hhf. cbn [bind]. exact Hd.
Qed.

Lemma unmarshal_loop_S fuel raw : raw <> [] ->
  unmarshal_loop (S fuel) raw =
  (let* (p, n) := unmarshal_one raw in let* rest := slice_from raw n in let* ps := unmarshal_loop fuel rest in Ok (p :: ps)).
Proof. destruct raw; [congruence|reflexivity]. Qed.

(* enough fuel is enough: the result does not depend on it *)
Lemma unmarshal_loop_fuel f1 : forall f2 raw, (length raw < f1)%nat -> (length raw < f2)%nat ->
  unmarshal_loop f1 raw = unmarshal_loop f2 raw.
Proof.
  induction f1 as [|f1 IH]; intros f2 raw H1 H2; [lia|]. destruct f2 as [|f2]; [lia|].
  destruct raw as [|x raw']; [reflexivity|]. set (raw := x :: raw') in *.
  rewrite !unmarshal_loop_S by (subst raw; discriminate).
  destruct (unmarshal_one raw) as [[p n]| | |] eqn:Hu; cbn [bind]; try reflexivity.
  apply unmarshal_one_ok in Hu as (H4 & Hn & _ & _).
  rewrite slice_from_ok by exact Hn. cbn [bind].
  assert (Hs : (length (skipn (N.to_nat n) raw) < length raw)%nat).
  { rewrite skipn_length. unfold len in Hn. lia. }
  rewrite (IH f2) by lia. reflexivity.
Qed.

Definition uloop (raw : bytes) : res (list packet) := unmarshal_loop (S (length raw)) raw.

Lemma uloop_nil : uloop [] = Ok [].
Proof. reflexivity. Qed.

Lemma uloop_frame f rest : framed16 f ->
  uloop (f ++ rest) = (let* p := decode_frame f in let* ps := uloop rest in Ok (p :: ps)).
Proof.
  intros Hf. pose proof (framed16_len _ Hf) as H4. unfold uloop.
  rewrite unmarshal_loop_S by (intro E; apply (f_equal len) in E; rewrite len_app, len_nil in E; lia).
  rewrite unmarshal_one_framed by exact Hf.
  destruct (decode_frame f) as [p| | |]; cbn [bind]; try reflexivity.
  rewrite slice_from_ok by (rewrite len_app; lia). cbn [bind]. rewrite skipn_len_app.
  rewrite (unmarshal_loop_fuel _ (S (length rest)) rest); [reflexivity| |lia].
  rewrite app_length. unfold len in H4. lia.
Qed.

(* the splitter on a sequence of frames followed by anything *)
Lemma uloop_frames_app fs t : Forall framed16 fs ->
  uloop (List.concat fs ++ t) = (let* ps := mapM decode_frame fs in let* ts := uloop t in Ok (ps ++ ts)).
Proof.
  induction 1 as [|f fs Hf Hfs IH]; cbn [List.concat mapM bind app].
  - destruct (uloop t); reflexivity.
  - rewrite <- app_assoc, uloop_frame by exact Hf.
    destruct (decode_frame f) as [p| | |]; cbn [bind]; try reflexivity.
    rewrite IH. destruct (mapM decode_frame fs); cbn [bind]; try reflexivity.
    destruct (uloop t); cbn [bind app]; reflexivity.
Qed.

Lemma uloop_frames fs : Forall framed16 fs -> uloop (List.concat fs) = mapM decode_frame fs.
Proof.
  intros H. rewrite <- (app_nil_r (List.concat fs)), uloop_frames_app by exact H. rewrite uloop_nil.
  destruct (mapM decode_frame fs); cbn [bind]; try reflexivity. rewrite app_nil_r. reflexivity.
Qed.

(* a successful run of the splitter cuts its input into frames *)
Lemma unmarshal_loop_split fuel : forall raw ps, unmarshal_loop fuel raw = Ok ps ->
  exists fs, raw = List.concat fs /\ Forall framed16 fs /\ mapM decode_frame fs = Ok ps.
Proof.
  induction fuel as [|fuel IH]; intros raw ps; [discriminate|].
  destruct raw as [|x raw'].
  { cbn [unmarshal_loop]. intros E; inversion E; subst. exists []. repeat split. constructor. }
  set (raw := x :: raw') in *. rewrite unmarshal_loop_S by (subst raw; discriminate).
  destruct (unmarshal_one raw) as [[p n]| | |] eqn:Hu; cbn [bind]; try discriminate.
  apply unmarshal_one_ok in Hu as (H4 & Hn & Hf & Hd).
  rewrite slice_from_ok by exact Hn. cbn [bind].
  destruct (unmarshal_loop fuel (skipn (N.to_nat n) raw)) as [qs| | |] eqn:Hl; cbn [bind]; try discriminate.
  intros E; inversion E; subst ps; clear E.
  destruct (IH _ _ Hl) as (fs & Hc & Hfs & Hm).
  exists (firstn (N.to_nat n) raw :: fs). split; [|split].
  - cbn [List.concat]. rewrite <- Hc. symmetry. apply firstn_skipn.
  - constructor; assumption.
  - cbn [mapM]. rewrite Hd, Hm. reflexivity.
Qed.

Lemma Unmarshal_uloop raw : Unmarshal raw = (let* ps := uloop raw in match ps with [] => Err | _ => Ok ps end).
Proof. reflexivity. Qed.

Theorem Unmarshal_frames fs : Forall framed16 fs -> fs <> [] -> Unmarshal (List.concat fs) = mapM decode_frame fs.
Proof.
  intros H Hne. rewrite Unmarshal_uloop, uloop_frames by exact H.
  destruct (mapM decode_frame fs) as [ps| | |] eqn:E; cbn [bind]; try reflexivity.
  apply mapM_ok_length in E. destruct ps; [|reflexivity]. destruct fs; [congruence|discriminate].
Qed.

Lemma Unmarshal_ok_split raw ps : Unmarshal raw = Ok ps ->
  exists fs, raw = List.concat fs /\ Forall framed16 fs /\ fs <> [] /\ mapM decode_frame fs = Ok ps.
Proof.
  unfold Unmarshal. destruct (unmarshal_loop _ raw) as [qs| | |] eqn:E; cbn [bind]; try discriminate.
  destruct qs as [|q qs]; [discriminate|]. intros E'; inversion E'; subst ps; clear E'.
  destruct (unmarshal_loop_split _ _ _ E) as (fs & Hc & Hf & Hm). exists fs. repeat split; try assumption.
  intros ->. discriminate.
Qed.

Theorem Unmarshal_app a b pa pb : Unmarshal a = Ok pa -> Unmarshal b = Ok pb -> Unmarshal (a ++ b) = Ok (pa ++ pb).
Proof.
  intros Ha Hb.
  apply Unmarshal_ok_split in Ha as (fa & -> & Hfa & Hna & Hma).
  apply Unmarshal_ok_split in Hb as (fb & -> & Hfb & Hnb & Hmb).
  rewrite <- concat_app, Unmarshal_frames.
  - rewrite mapM_app, Hma, Hmb. reflexivity.
  - apply Forall_app; split; assumption.
  - destruct fa; [congruence|discriminate].
Qed.

Theorem Unmarshal_nil : Unmarshal [] = Err.
Proof. reflexivity. Qed.

(* a tail that is not a complete frame *)
Definition incomplete (t : bytes) : Prop :=
  0 < len t /\ (len t < 4 \/ b2n (nth 0 t x00) / 64 <> 2 \/ len t < 4 * (unbe (firstn 2 (skipn 2 t)) + 1)).

Lemma unmarshal_one_incomplete t : incomplete t -> unmarshal_one t = Err.
Proof.
  intros [H0 H]. unfold unmarshal_one.
  destruct (Header_unmarshal t) as [h| | |] eqn:Hh; cbn [bind]; try reflexivity;
    try (destruct (Header_unmarshal_total t) as [A B]; congruence).
  pose proof (Header_unmarshal_bounds _ _ Hh) as (_ & _ & Hb).
  apply Header_unmarshal_ok in Hh as (H4 & Hv & _ & _ & _ & Hlen).
  destruct H as [H|[H|H]]; [lia|congruence|]. rewrite <- Hlen in H.
  destruct (N.eq_dec (h_len h) 65535) as [E|NE].
  - rewrite E. change (u16 (65535 + 1) * 4) with 0. destruct (N.ltb_spec (len t) 0); [reflexivity|].
    rewrite slice_ok by lia. cbn [bind]. change (N.to_nat (0 - 0)) with 0%nat. rewrite firstn_O, decode_empty. reflexivity.
  - assert (En : u16 (h_len h + 1) * 4 = 4 * (h_len h + 1)) by (unfold u16; lia).
    rewrite En. destruct (N.ltb_spec (len t) (4 * (h_len h + 1))); [reflexivity|lia].
Qed.

Lemma uloop_incomplete t : incomplete t -> uloop t = Err.
Proof.
  intros H. unfold uloop. rewrite unmarshal_loop_S by (intros ->; destruct H as [H _]; rewrite len_nil in H; lia).
  rewrite unmarshal_one_incomplete by exact H. reflexivity.
Qed.

(* all or nothing: frames followed by an incomplete tail never yield packets *)
Theorem Unmarshal_trailing fs t : Forall framed16 fs -> incomplete t ->
  Unmarshal (List.concat fs ++ t) = (let* _ := mapM decode_frame fs in Err).
Proof.
  intros Hf Ht. rewrite Unmarshal_uloop, uloop_frames_app by exact Hf. rewrite uloop_incomplete by exact Ht.
  destruct (mapM decode_frame fs); reflexivity.
Qed.

Corollary Unmarshal_trailing_short fs t : Forall framed16 fs -> 0 < len t -> len t < 4 ->
  Unmarshal (List.concat fs ++ t) = (let* _ := mapM decode_frame fs in Err).
Proof. intros Hf H0 H4. apply Unmarshal_trailing; [exact Hf|]. split; [exact H0|left; exact H4]. Qed.

Corollary Unmarshal_trailing_truncated fs t : Forall framed16 fs -> 0 < len t ->
  len t < 4 * (unbe (firstn 2 (skipn 2 t)) + 1) ->
  Unmarshal (List.concat fs ++ t) = (let* _ := mapM decode_frame fs in Err).
Proof. intros Hf H0 H4. apply Unmarshal_trailing; [exact Hf|]. split; [exact H0|right; right; exact H4]. Qed.

Corollary Unmarshal_trailing_never_ok fs t ps : Forall framed16 fs -> incomplete t ->
  Unmarshal (List.concat fs ++ t) <> Ok ps.
Proof.
  intros Hf Ht. rewrite Unmarshal_trailing by assumption. destruct (mapM decode_frame fs); discriminate.
Qed.

(* any frame that fails makes the whole datagram fail *)
Corollary Unmarshal_frame_err fs1 f fs2 ps1 : Forall framed16 (fs1 ++ f :: fs2) ->
  mapM decode_frame fs1 = Ok ps1 -> decode_frame f = Err -> Unmarshal (List.concat (fs1 ++ f :: fs2)) = Err.
Proof.
  intros Hf H1 He. rewrite Unmarshal_frames; [|exact Hf|destruct fs1; discriminate].
  rewrite mapM_app, H1. cbn [bind mapM]. rewrite He. reflexivity.
Qed.

(* The bound in framed16 is necessary: with the length field at 65535 the frame is 262144 octets long, every
   per-frame check passes, yet the splitter hands the decoder an empty slice (uint16(Length+1)*4 = 0). *)
Definition wrap_hdr : bytes := [x80; xc0; xff; xff].
Definition wrap_frame : bytes := wrap_hdr ++ zeros 262140.
Lemma wrap_len : len wrap_frame = 262144.
Proof. unfold wrap_frame. rewrite len_app, len_zeros. reflexivity. Qed.
Lemma wrap_header : Header_unmarshal wrap_frame = Ok (mkHeader false 0 192 65535).
Proof.
  unfold wrap_frame. rewrite Header_unmarshal_app by (change (len wrap_hdr) with 4; lia). vm_compute. reflexivity.
Qed.
Lemma wrap_framed : framed wrap_frame.
Proof.
  unfold framed. rewrite wrap_len. unfold wrap_frame, wrap_hdr. cbn [app nth skipn firstn].
  split; [lia|]. split; vm_compute; reflexivity.
Qed.
Lemma wrap_decode : decode_frame wrap_frame = Ok (PRaw wrap_frame).
Proof.
  unfold decode_frame. rewrite wrap_header. cbn [bind h_type h_count].
  assert (E : dispatch 192 0 = TRaw) by (vm_compute; reflexivity). rewrite E. cbn [decode_as].
  unfold Raw_unmarshal. consts. rewrite wrap_len. change (262144 <? 4) with false. cbv iota.
  rewrite wrap_header. reflexivity.
Qed.
Lemma wrap_one : unmarshal_one wrap_frame = Err.
Proof.
  unfold unmarshal_one. rewrite wrap_header. cbn [bind h_len h_type h_count].
  change (u16 (65535 + 1) * 4) with 0. rewrite wrap_len. change (262144 <? 0) with false. cbv iota.
  rewrite slice_ok by (rewrite ?wrap_len; lia). cbn [bind]. change (N.to_nat (0 - 0)) with 0%nat.
  rewrite firstn_O, decode_empty. reflexivity.
Qed.
Lemma unmarshal_one_framed_refuted :
  exists f, framed f /\ decode_frame f = Ok (PRaw f) /\
            unmarshal_one (f ++ []) <> (let* p := decode_frame f in Ok (p, len f)) /\ Unmarshal f = Err.
Proof.
  exists wrap_frame. split; [exact wrap_framed|]. split; [exact wrap_decode|]. split.
  - rewrite app_nil_r, wrap_one, wrap_decode. discriminate.
  - unfold Unmarshal. rewrite unmarshal_loop_S.
    + rewrite wrap_one. reflexivity.
    + intros E. apply (f_equal len) in E. rewrite wrap_len in E. discriminate E.
Qed.

(* ------------------------------------------------------------------------------------------ *)
(* C07: the type switch is the registry                                                        *)
(* ------------------------------------------------------------------------------------------ *)

Fixpoint nrange (k : nat) (from : N) : list N :=
  match k with O => [] | S k' => from :: nrange k' (from + 1) end.
Lemma In_nrange k : forall from x, from <= x < from + N.of_nat k -> In x (nrange k from).
Proof.
  induction k as [|k IH]; intros from x H; [lia|]. cbn [nrange In].
  destruct (N.eq_dec from x) as [->|Hne]; [left; reflexivity|right; apply IH; lia].
Qed.

Lemma tag_eqb_eq a b : tag_eqb a b = true <-> a = b.
Proof. split; [destruct a, b; cbn [tag_eqb]; intros E; try discriminate E; reflexivity | intros ->; destruct b; reflexivity]. Qed.

Definition dispatch_row_ok (pt : N) : bool :=
  forallb (fun cnt => tag_eqb (dispatch pt cnt) (registry pt cnt)) (nrange 32 0).
Lemma dispatch_rows_ok : forallb dispatch_row_ok (nrange 256 0) = true.
Proof. vm_compute. reflexivity. Qed.

(* complete enumeration of the 256 * 32 (PT, FMT) pairs *)
Theorem dispatch_table pt cnt : pt < 256 -> cnt < 32 -> dispatch pt cnt = registry pt cnt.
Proof.
  intros Hp Hc. pose proof dispatch_rows_ok as H. rewrite forallb_forall in H.
  specialize (H pt (In_nrange 256 0 pt ltac:(lia))). unfold dispatch_row_ok in H. rewrite forallb_forall in H.
  apply tag_eqb_eq. apply H. apply In_nrange. lia.
Qed.

(* and without the bounds, by case analysis on the comparisons of the generated switch *)
Ltac neq_false :=
  repeat match goal with
         | H : ?v <> ?k |- _ =>
             rewrite ?(proj2 (N.eqb_neq v k) H), ?(proj2 (N.eqb_neq k v) (not_eq_sym H)); clear H
         end.
Ltac dispatch_open := cbv [dispatch dispatch_name Gen.Dispatch.dispatch_entries Gen.Dispatch.dispatch_default registry].
Theorem dispatch_table_all pt cnt : dispatch pt cnt = registry pt cnt.
Proof.
  destruct (N.eqb_spec pt 200) as [->|P0]; [reflexivity|].
  destruct (N.eqb_spec pt 201) as [->|P1]; [reflexivity|].
  destruct (N.eqb_spec pt 202) as [->|P2]; [reflexivity|].
  destruct (N.eqb_spec pt 203) as [->|P3]; [reflexivity|].
  destruct (N.eqb_spec pt 204) as [->|P4]; [reflexivity|].
  destruct (N.eqb_spec pt 207) as [->|P7]; [reflexivity|].
  destruct (N.eqb_spec pt 205) as [->|P5].
  { clear. destruct (N.eqb_spec cnt 1) as [->|C1]; [reflexivity|].
    destruct (N.eqb_spec cnt 5) as [->|C5]; [reflexivity|].
    destruct (N.eqb_spec cnt 11) as [->|C11]; [reflexivity|].
    destruct (N.eqb_spec cnt 15) as [->|C15]; [reflexivity|].
    dispatch_open. neq_false. reflexivity. }
  destruct (N.eqb_spec pt 206) as [->|P6].
  { clear. destruct (N.eqb_spec cnt 1) as [->|C1]; [reflexivity|].
    destruct (N.eqb_spec cnt 2) as [->|C2]; [reflexivity|].
    destruct (N.eqb_spec cnt 4) as [->|C4]; [reflexivity|].
    destruct (N.eqb_spec cnt 15) as [->|C15]; [reflexivity|].
    dispatch_open. neq_false. reflexivity. }
  dispatch_open. neq_false. reflexivity.
Qed.

Lemma decode_as_tag t b p : decode_as t b = Ok p -> tag_of_packet p = t.
Proof.
  destruct t; cbn [decode_as]; try discriminate;
    match goal with |- res_map _ ?r = _ -> _ => destruct r; cbn [res_map]; intros E; inversion E; reflexivity end.
Qed.

(* the decoder applied to a frame is determined by (PT, FMT) through the registry alone *)
Theorem decode_frame_registry f : 4 <= len f -> b2n (nth 0 f x00) / 64 = 2 ->
  decode_frame f = decode_as (registry (b2n (nth 1 f x00)) (b2n (nth 0 f x00) mod 32)) f.
Proof.
  intros Hl Hv. destruct (Header_unmarshal_v2 f Hl Hv) as [h Hh]. unfold decode_frame. rewrite Hh. cbn [bind].
  apply Header_unmarshal_ok in Hh as (_ & _ & _ & Hc & Ht & _). rewrite Hc, Ht, dispatch_table_all. reflexivity.
Qed.

Corollary decode_frame_tag f p : 4 <= len f -> b2n (nth 0 f x00) / 64 = 2 -> decode_frame f = Ok p ->
  tag_of_packet p = registry (b2n (nth 1 f x00)) (b2n (nth 0 f x00) mod 32).
Proof. intros Hl Hv. rewrite decode_frame_registry by assumption. apply decode_as_tag. Qed.

(* unregistered (PT, FMT): the frame is returned verbatim as a RawPacket *)
Theorem dispatch_raw_verbatim f : framed f ->
  registry (b2n (nth 1 f x00)) (b2n (nth 0 f x00) mod 32) = TRaw -> decode_frame f = Ok (PRaw f).
Proof.
  intros (Hl & Hv & _) Hr. rewrite decode_frame_registry, Hr by assumption. cbn [decode_as]. unfold Raw_unmarshal. consts.
  destruct (N.ltb_spec (len f) 4); [lia|]. destruct (Header_unmarshal_v2 f Hl Hv) as [h Hh]. rewrite Hh. reflexivity.
Qed.

(* ------------------------------------------------------------------------------------------ *)
(* C11: compound packets                                                                       *)
(* ------------------------------------------------------------------------------------------ *)

Lemma validate_rest_eq l : validate_rest l = if compound_rest_ok l then Ok tt else Err.
Proof.
  induction l as [|p l IH]; [reflexivity|].
  destruct p; cbn [validate_rest compound_rest_ok is_cname_sdes]; try reflexivity. exact IH.
Qed.

Lemma validate_eq c : Compound_validate c = if compound_ok c then Ok tt else Err.
Proof.
  destruct c as [|p l]; [reflexivity|]. destruct p; cbn [Compound_validate compound_ok]; try reflexivity; apply validate_rest_eq.
Qed.

Theorem validate_grammar c : Compound_validate c = Ok tt <-> compound_ok c = true.
Proof. rewrite validate_eq. destruct (compound_ok c); split; congruence. Qed.

Theorem validate_not_panic c : Compound_validate c <> Panic /\ Compound_validate c <> Fuel.
Proof. rewrite validate_eq. destruct (compound_ok c); not_panic. Qed.

Lemma marshal_compound_eq c : marshal_packet (PCompound c) = (let* _ := Compound_validate c in Marshal c).
Proof.
  cbn [marshal_packet]. destruct (Compound_validate c); cbn [bind]; reflexivity.
Qed.

Theorem compound_marshal_iff c :
  (exists b, marshal_packet (PCompound c) = Ok b) <-> compound_ok c = true /\ (exists b, Marshal c = Ok b).
Proof.
  rewrite marshal_compound_eq, validate_eq. destruct (compound_ok c); cbn [bind].
  - split; [intros H; split; [reflexivity|exact H] | intros [_ H]; exact H].
  - split; [intros [b H]; discriminate | intros [H _]; discriminate].
Qed.

Theorem compound_unmarshal_iff b :
  (exists c, Compound_unmarshal b = Ok c) <->
  exists ps, unmarshal_loop (S (length b)) b = Ok ps /\ compound_ok ps = true.
Proof.
  unfold Compound_unmarshal. destruct (unmarshal_loop (S (length b)) b) as [ps| | |]; cbn [bind].
  - rewrite validate_eq. destruct (compound_ok ps) eqn:E; cbn [bind].
    + split; [intros _; exists ps; split; [reflexivity|exact E] | intros _; exists ps; reflexivity].
    + split; [intros [c H]; discriminate | intros (ps' & H & H'); inversion H; subst; congruence].
  - split; [intros [c H]; discriminate | intros (ps' & H & _); discriminate].
  - split; [intros [c H]; discriminate | intros (ps' & H & _); discriminate].
  - split; [intros [c H]; discriminate | intros (ps' & H & _); discriminate].
Qed.

(* what a successful CompoundPacket.Unmarshal returns *)
Theorem compound_unmarshal_ok b c : Compound_unmarshal b = Ok c ->
  compound_ok c = true /\ exists fs, b = List.concat fs /\ Forall framed16 fs /\ mapM decode_frame fs = Ok c.
Proof.
  unfold Compound_unmarshal. destruct (unmarshal_loop (S (length b)) b) as [ps| | |] eqn:E; cbn [bind]; try discriminate.
  rewrite validate_eq. destruct (compound_ok ps) eqn:Ec; cbn [bind]; try discriminate.
  intros H; inversion H; subst. split; [exact Ec|]. eapply unmarshal_loop_split. exact E.
Qed.

Lemma sdes_has_first_cname s : sdes_has_cname s = true -> exists t, sdes_first_cname s = Some t.
Proof.
  unfold sdes_has_cname, sdes_first_cname. intros H.
  apply existsb_exists in H as (c & Hc & H). apply existsb_exists in H as (it & Hi & Hit).
  assert (Hin : In it (filter (fun it => it_type it =? c_SDESCNAME) (flat_map ch_items (sd_chunks s)))).
  { apply filter_In. split; [|exact Hit]. apply in_flat_map. exists c. split; assumption. }
  destruct (filter _ _) as [|i0 l]; [destruct Hin|]. eexists. reflexivity.
Qed.

Fixpoint fc_go (l : list packet) : option bytes :=
  match l with
  | [] => None
  | PSDES s :: l' => match sdes_first_cname s with Some t => Some t | None => fc_go l' end
  | _ :: l' => fc_go l'
  end.
Lemma first_cname_cons p r : first_cname (p :: r) = fc_go r.
Proof. reflexivity. Qed.

Lemma cname_rest_valid r : compound_rest_ok r = true -> exists t, fc_go r = Some t /\ cname_rest r false = Ok (t, false).
Proof.
  induction r as [|p r IH]; [discriminate|].
  destruct p; cbn [compound_rest_ok is_cname_sdes]; try discriminate.
  - exact IH.
  - intros H. apply sdes_has_first_cname in H as [t Ht]. exists t. cbn [fc_go cname_rest]. rewrite Ht. split; reflexivity.
Qed.

Theorem cname_of_valid c : compound_ok c = true -> exists t, first_cname c = Some t /\ Compound_cname c = Ok (t, false).
Proof.
  destruct c as [|p r]; [discriminate|]. rewrite first_cname_cons.
  destruct p; cbn [compound_ok Compound_cname]; try discriminate; apply cname_rest_valid.
Qed.

Theorem compound_dest c : dest_packet (PCompound c) = match c with [] => [] | f :: _ => dest_packet f end.
Proof. reflexivity. Qed.

Theorem compound_size c : size_packet (PCompound c) = fold_right N.add 0 (map size_packet c).
Proof.
  cbn [size_packet]. induction c as [|q r IH]; [reflexivity|]. cbn [fold_right map]. rewrite IH. reflexivity.
Qed.

(* ------------------------------------------------------------------------------------------ *)
(* totality of the datagram layer, relative to totality of the per-type decoders               *)
(* ------------------------------------------------------------------------------------------ *)

Section Totality.
  Hypothesis Htot : forall t b, decode_as t b <> Panic /\ decode_as t b <> Fuel.

  Lemma decode_frame_total f : decode_frame f <> Panic /\ decode_frame f <> Fuel.
  Proof.
    unfold decode_frame. destruct (Header_unmarshal_total f) as [A B].
    destruct (Header_unmarshal f); cbn [bind]; try congruence; [apply Htot|not_panic].
  Qed.

  Lemma unmarshal_one_total raw : unmarshal_one raw <> Panic /\ unmarshal_one raw <> Fuel.
  Proof.
    unfold unmarshal_one. destruct (Header_unmarshal_total raw) as [A B].
    destruct (Header_unmarshal raw) as [h| | |]; cbn [bind]; try congruence; [|not_panic].
    destruct (N.ltb_spec (len raw) (u16 (h_len h + 1) * 4)); [not_panic|].
    rewrite slice_ok by lia. cbn [bind].
    destruct (Htot (dispatch (h_type h) (h_count h)) (firstn (N.to_nat (u16 (h_len h + 1) * 4 - 0)) (skipn (N.to_nat 0) raw))) as [C D].
    destruct (decode_as _ _); cbn [bind]; try congruence; not_panic.
  Qed.

  Lemma unmarshal_loop_total fuel : forall raw, (length raw < fuel)%nat ->
    unmarshal_loop fuel raw <> Panic /\ unmarshal_loop fuel raw <> Fuel.
  Proof.
    induction fuel as [|fuel IH]; intros raw Hf; [lia|].
    destruct raw as [|x raw']; [cbn [unmarshal_loop]; not_panic|]. set (raw := x :: raw') in *.
    rewrite unmarshal_loop_S by (subst raw; discriminate).
    destruct (unmarshal_one_total raw) as [A B].
    destruct (unmarshal_one raw) as [[p n]| | |] eqn:Hu; cbn [bind]; try congruence; [|not_panic].
    apply unmarshal_one_ok in Hu as (H4 & Hn & _ & _).
    rewrite slice_from_ok by exact Hn. cbn [bind].
    destruct (IH (skipn (N.to_nat n) raw)) as [C D].
    { rewrite skipn_length. unfold len in Hn. lia. }
    destruct (unmarshal_loop fuel _); cbn [bind]; try congruence; not_panic.
  Qed.

  Theorem Unmarshal_total raw : Unmarshal raw <> Panic /\ Unmarshal raw <> Fuel.
  Proof.
    unfold Unmarshal. destruct (unmarshal_loop_total (S (length raw)) raw ltac:(lia)) as [A B].
    destruct (unmarshal_loop _ raw) as [ps| | |]; cbn [bind]; try congruence; [|not_panic].
    destruct ps; not_panic.
  Qed.

  Theorem Compound_unmarshal_total raw : Compound_unmarshal raw <> Panic /\ Compound_unmarshal raw <> Fuel.
  Proof.
    unfold Compound_unmarshal. destruct (unmarshal_loop_total (S (length raw)) raw ltac:(lia)) as [A B].
    destruct (unmarshal_loop _ raw) as [ps| | |]; cbn [bind]; try congruence; [|not_panic].
    rewrite validate_eq. destruct (compound_ok ps); cbn [bind]; not_panic.
  Qed.

  (* with total decoders an incomplete tail is a plain error *)
  Theorem Unmarshal_trailing_err fs t : Forall framed16 fs -> incomplete t -> Unmarshal (List.concat fs ++ t) = Err.
  Proof.
    intros Hf Ht. destruct (Unmarshal_total (List.concat fs ++ t)) as [A B].
    rewrite Unmarshal_trailing in * by assumption. destruct (mapM decode_frame fs); cbn [bind] in *; congruence.
  Qed.
End Totality.

Print Assumptions decode_empty.
Print Assumptions unmarshal_one_framed.
Print Assumptions unmarshal_one_ok.
Print Assumptions unmarshal_one_framed_refuted.
Print Assumptions uloop_frames_app.
Print Assumptions Unmarshal_frames.
Print Assumptions Unmarshal_app.
Print Assumptions Unmarshal_nil.
Print Assumptions Unmarshal_trailing.
Print Assumptions Unmarshal_trailing_short.
Print Assumptions Unmarshal_trailing_truncated.
Print Assumptions Unmarshal_frame_err.
Print Assumptions dispatch_table.
Print Assumptions dispatch_table_all.
Print Assumptions decode_frame_registry.
Print Assumptions dispatch_raw_verbatim.
Print Assumptions validate_grammar.
Print Assumptions validate_not_panic.
Print Assumptions compound_marshal_iff.
Print Assumptions compound_unmarshal_iff.
Print Assumptions compound_unmarshal_ok.
Print Assumptions cname_of_valid.
Print Assumptions compound_dest.
Print Assumptions compound_size.
Print Assumptions unmarshal_one_total.
Print Assumptions unmarshal_loop_total.
Print Assumptions Unmarshal_total.
Print Assumptions Compound_unmarshal_total.
Print Assumptions Unmarshal_trailing_err.
