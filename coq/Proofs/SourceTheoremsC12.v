(* C12 restated on NackPairsFromSequenceNumbers as translated from the Go source (a file of its own: a rewrite of that one
   helper only touches the obligations of C12). *)
From RTCP Require Import Proofs.Tactics Lib.GoSem Gen.Funcs Proofs.GoSemFacts
  Model.Header Model.Feedback Spec.NackSpec Proofs.NackEnum Proofs.NackProofs
  Proofs.SourceEquiv Proofs.SrcConv Proofs.SourceFeedback1 Proofs.SourceNackPairs.
Local Open Scope N_scope.

(* ================================================================================================ *)
(* C12 - NACK pair helpers cover exactly the requested sequence numbers                              *)
(* ================================================================================================ *)

(* the form of C12_pairs_cover: the translated builder returns (the image of) pairs whose PacketList's cover the input set *)
Theorem source_C12_pairs_cover : forall (l : list N), Forall (fun x => x < 65536) l ->
  exists ps, GoSrc.NackPairsFromSequenceNumbers (zN l) = Ok (map src_pair ps) /\
             forall s, In s (flat_map packet_list ps) <-> In s l.
Proof.
  intros l Hl. exists (nack_pairs_from l). split; [apply src_NackPairsFromSequenceNumbers|].
  intros s. apply pairs_cover. exact Hl.
Qed.

(* the same without any model function: which sequence numbers a Go NackPair value stands for (RFC 4585 6.2.1: the packet
   ID, and ID + i + 1 modulo 2^16 for every set bit i of the 16-bit bitmap of following lost packets) *)
Definition src_pair_covers (q : GoSrc.NackPair) (s : Z) : Prop :=
  s = GoSrc.NackPair_PacketID q \/
  exists i, (0 <= i < 16)%Z /\ Z.testbit (GoSrc.NackPair_LostPackets q) i = true /\
            s = ((GoSrc.NackPair_PacketID q + i + 1) mod 65536)%Z.

Lemma src_pair_covers_iff p s : np_bm p < 65536 -> (src_pair_covers (src_pair p) (Z.of_N s) <-> In s (packet_list p)).
Proof.
  intros Hb. rewrite (packet_list_is_spec p Hb), In_packet_list_spec. unfold src_pair_covers, src_pair.
  cbn [GoSrc.NackPair_PacketID GoSrc.NackPair_LostPackets]. split.
  - intros [H|(i & Hi & Ht & Hs)]; [left; lia|]. right. exists (Z.to_N i). split; [lia|].
    rewrite <- (Z2N.id i), N2Z.inj_testbit in Ht by lia. split; [exact Ht|]. lia.
  - intros [H|(i & Hi & Ht & Hs)]; [left; lia|]. right. exists (Z.of_N i). split; [lia|].
    rewrite N2Z.inj_testbit. split; [exact Ht|]. lia.
Qed.

Theorem source_C12_pairs_cover_bits : forall (l : list N), Forall (fun x => x < 65536) l ->
  exists ps, GoSrc.NackPairsFromSequenceNumbers (zN l) = Ok ps /\
             forall s : Z, (exists q, In q ps /\ src_pair_covers q s) <-> In s (zN l).
Proof.
  intros l Hl. exists (map src_pair (nack_pairs_from l)). split; [apply src_NackPairsFromSequenceNumbers|].
  pose proof (pairs_bitmaps l) as Hbm. rewrite Forall_forall in Hbm. intros s. split.
  - intros (q & Hin & Hc). apply in_map_iff in Hin as (p & <- & Hin).
    assert (Hs : s = Z.of_N (Z.to_N s)).
    { destruct Hc as [->|(i & _ & _ & ->)]; unfold src_pair; cbn [GoSrc.NackPair_PacketID]; lia. }
    rewrite Hs in Hc |- *. apply (src_pair_covers_iff p _ (Hbm p Hin)) in Hc.
    unfold zN. apply in_map. apply (pairs_cover l _ Hl). apply in_flat_map. exists p. split; assumption.
  - intros Hin. unfold zN in Hin. apply in_map_iff in Hin as (n & <- & Hin).
    apply (pairs_cover l n Hl) in Hin. apply in_flat_map in Hin as (p & Hp & Hn).
    exists (src_pair p). split; [apply in_map; exact Hp|]. apply (src_pair_covers_iff p n (Hbm p Hp)). exact Hn.
Qed.


Print Assumptions source_C12_pairs_cover.
Print Assumptions source_C12_pairs_cover_bits.
