(* header.go: Marshal = RFC layout; Unmarshal inverts it; Unmarshal is total (C16, and used everywhere) *)
From RTCP Require Import Proofs.Tactics Model.Header Spec.Enc.
Local Open Scope N_scope.

Lemma land_ones_small x k : N.land x (N.ones k) = x mod 2 ^ k.
Proof. apply N.land_ones. Qed.
Lemma land_1 x : N.land x 1 = x mod 2. Proof. change 1 with (N.ones 1). rewrite N.land_ones. reflexivity. Qed.
Lemma land_3 x : N.land x 3 = x mod 4. Proof. change 3 with (N.ones 2). rewrite N.land_ones. reflexivity. Qed.
Lemma land_31 x : N.land x 31 = x mod 32. Proof. change 31 with (N.ones 5). rewrite N.land_ones. reflexivity. Qed.

Lemma Header_marshal_spec p c t l : c < 32 ->
  Header_marshal (mkHeader p c t l) = Ok (hdr p c t l).
Proof.
  intros Hc. unfold Header_marshal, hdr. consts. cbn [h_pad h_count h_type h_len].
  destruct (N.ltb_spec 31 c); [lia|].
  cbn [app]. f_equal. f_equal. f_equal.
  assert (E1 : u8 (2 * 2 ^ 6) = 128) by reflexivity.
  assert (E2 : u8 (1 * 2 ^ 5) = 32) by reflexivity.
  assert (E3 : u8 (c * 2 ^ 0) = c) by (unfold u8; change (2 ^ 0) with 1; lia).
  rewrite E1, E2, E3.
  destruct p.
  - rewrite (lor_disjoint_add 128 32 6) by (cbn; lia). rewrite (lor_disjoint_add (128 + 32) c 5) by (cbn; lia). reflexivity.
  - rewrite (lor_disjoint_add 128 c 5) by (cbn; lia). lia.
Qed.

Lemma Header_marshal_err h : 31 < h_count h -> Header_marshal h = Err.
Proof. intros. unfold Header_marshal. destruct (N.ltb_spec 31 (h_count h)); [reflexivity|lia]. Qed.

Lemma Header_marshal_ok_iff h : (exists b, Header_marshal h = Ok b) <-> h_count h <= 31.
Proof.
  split.
  - intros [b Hb]. unfold Header_marshal in Hb. destruct (N.ltb_spec 31 (h_count h)); [discriminate|lia].
  - intros H. destruct h as [p c t l]. cbn in H. eexists. apply Header_marshal_spec. lia.
Qed.

Lemma Header_marshal_length h b : Header_marshal h = Ok b -> length b = 4%nat.
Proof.
  unfold Header_marshal. destruct (31 <? h_count h); [discriminate|]. intros E. injection E as <-.
  reflexivity.
Qed.

Lemma Header_unmarshal_total b : Header_unmarshal b <> Panic /\ Header_unmarshal b <> Fuel.
Proof.
  unfold Header_unmarshal. consts. destruct (N.ltb_spec (len b) 4); [not_panic|].
  reads_ok. destruct (negb _); [not_panic|]. reads_ok. not_panic.
Qed.

Lemma Header_unmarshal_short b : len b < 4 -> Header_unmarshal b = Err.
Proof. intros. unfold Header_unmarshal. consts. destruct (N.ltb_spec (len b) 4); [reflexivity|lia]. Qed.

Lemma nth_b2n_lt (b : bytes) i : b2n (nth i b x00) < 256.
Proof. apply b2n_lt. Qed.

(* the fields a successful Unmarshal returns, as arithmetic on the first four octets *)
Lemma Header_unmarshal_ok b h : Header_unmarshal b = Ok h ->
  4 <= len b /\ b2n (nth 0 b x00) / 64 = 2 /\
  h_pad h = (0 <? (b2n (nth 0 b x00) / 32) mod 2) /\ h_count h = b2n (nth 0 b x00) mod 32 /\
  h_type h = b2n (nth 1 b x00) /\ h_len h = unbe (firstn 2 (skipn 2 b)).
Proof.
  unfold Header_unmarshal. consts. destruct (N.ltb_spec (len b) 4) as [|Hl]; [discriminate|].
  rewrite !idx_ok by lia. cbn [bind].
  change (N.to_nat 0) with 0%nat. change (N.to_nat 1) with 1%nat.
  set (b0 := b2n (nth 0 b x00)). assert (Hb0 : b0 < 256) by apply b2n_lt.
  rewrite land_3, land_1, land_31. change (2 ^ 6) with 64. change (2 ^ 5) with 32. change (2 ^ 0) with 1.
  rewrite N.div_1_r.
  destruct (N.eqb_spec ((b0 / 64) mod 4) 2) as [Hv|Hv]; cbn [negb]; [|discriminate].
  rewrite get_be_at_ok by (cbn; lia). cbn [bind]. intros E. inversion E; subst; clear E. cbn [h_pad h_count h_type h_len].
  change (N.to_nat 2) with 2%nat.
  repeat split; try lia.
Qed.

Lemma Header_unmarshal_bounds b h : Header_unmarshal b = Ok h -> h_count h < 32 /\ h_type h < 256 /\ h_len h < 65536.
Proof.
  intros H. apply Header_unmarshal_ok in H as (Hl & _ & _ & Hc & Ht & Hn).
  rewrite Hc, Ht, Hn. repeat split; try (pose proof (b2n_lt (nth 1 b x00)); lia); try lia.
  pose proof (unbe_lt (firstn 2 (skipn 2 b))) as Hu. rewrite firstn_length, skipn_length in Hu.
  unfold len in Hl. replace (Nat.min 2 (length b - 2)) with 2%nat in Hu by lia. exact Hu.
Qed.

(* decoding what the RFC layout prescribes *)
Lemma Header_unmarshal_hdr p c t l rest : c < 32 -> t < 256 -> l < 65536 ->
  Header_unmarshal (hdr p c t l ++ rest) = Ok (mkHeader p c t l).
Proof.
  intros Hc Ht Hl. unfold Header_unmarshal, hdr. consts.
  destruct (N.ltb_spec (len (([n2b (128 + (if p then 32 else 0) + c); n2b t] ++ be 2 l) ++ rest)) 4) as [A|_].
  { exfalso. unfold len in A. rewrite !app_length, be_length in A. cbn [length] in A. lia. }
  cbn [app be]. rewrite !idx_ok by (unfold len; cbn [length]; lia). cbn [bind N.to_nat nth Pos.to_nat Pos.iter_op Nat.add].
  change (Pos.to_nat 1) with 1%nat. cbv iota.
  rewrite !b2n_n2b. rewrite land_3, land_1, land_31.
  change (2 ^ 6) with 64. change (2 ^ 5) with 32. change (2 ^ 0) with 1. rewrite N.div_1_r.
  assert (Hb : (128 + (if p then 32 else 0) + c) mod 256 = 128 + (if p then 32 else 0) + c) by (destruct p; lia).
  rewrite Hb.
  destruct (N.eqb_spec (((128 + (if p then 32 else 0) + c) / 64) mod 4) 2) as [_|Hv]; [|exfalso; destruct p; lia].
  cbn [negb].
  rewrite get_be_at_ok by (unfold len; cbn [length]; lia). cbn [bind].
  change (N.to_nat 2) with 2%nat. cbn [skipn firstn]. unfold unbe. cbn [fold_left]. rewrite !b2n_n2b.
  f_equal. f_equal.
  - destruct p.
    + replace (((128 + 32 + c) / 32) mod 2) with 1 by lia. reflexivity.
    + replace (((128 + 0 + c) / 32) mod 2) with 0 by lia. reflexivity.
  - destruct p; lia.
  - lia.
  - lia.
Qed.
