(* SourceRR: the functions translated from receiver_report.go (Gen/Funcs.v, module GoSrc) compute what the model
   functions RR_* of Model/Reports.v compute (and RR_dest = dest_packet (PRR _) of Model/Packet.v).

   No encoder needs a "fits" hypothesis: both sides truncate an over-wide field in the same way; the statements with the
   hypothesis are given as corollaries.  The decoder is proved against RR_unmarshal for every receiver whose Reports
   slice is empty (the Go loop appends to it and counts its length), in particular for the zero receiver, and in an
   explicit form for an arbitrary receiver (src_ReceiverReport_Unmarshal_any).  The fuel of the translated loop is shown
   sufficient (Fuel never arises). *)
From RTCP Require Import Proofs.Tactics Lib.GoSem Gen.Funcs Proofs.GoSemFacts
  Model.Header Model.Reports Model.Packet Proofs.SourceEquiv Proofs.SrcConv.
Local Open Scope Z_scope.

(* ================================================================================================ *)
Section MoreGoSemFacts.

Lemma glenl_nlen {A} (l : list A) : glenl l = Z.of_N (nlen l).
Proof. unfold glenl, nlen. lia. Qed.
Lemma glenl_map {A B} (f : A -> B) (l : list A) : glenl (map f l) = glenl l.
Proof. unfold glenl. rewrite map_length. reflexivity. Qed.
Lemma glenl_app {A} (a b : list A) : glenl (a ++ b) = glenl a + glenl b.
Proof. unfold glenl. rewrite app_length. lia. Qed.
Lemma glenl_cons {A} (x : A) (l : list A) : glenl (x :: l) = 1 + glenl l.
Proof. unfold glenl. cbn [length]. lia. Qed.
Lemma glenl_nonneg {A} (l : list A) : 0 <= glenl l.
Proof. unfold glenl. lia. Qed.

(* copy(dst[off:], src) is the model's copy_at, for every offset and every pair of slices *)
Lemma gcopy_N dst off src : gcopy dst (Z.of_N off) src = copy_at dst off src.
Proof.
  unfold gcopy, copy_at, glen, len.
  destruct (Z.ltb_spec (Z.of_N off) 0) as [H0|H0]; [lia|]. cbn [orb].
  destruct (Z.ltb_spec (Z.of_nat (length dst)) (Z.of_N off)) as [H1|H1],
           (N.ltb_spec (N.of_nat (length dst)) off) as [H2|H2]; try lia; [reflexivity|].
  cbv zeta. f_equal. f_equal; [f_equal; lia|]. f_equal; f_equal; lia.
Qed.
Lemma gcopy_Z dst off src : 0 <= off -> gcopy dst off src = copy_at dst (Z.to_N off) src.
Proof. intros H. rewrite <- gcopy_N. rewrite Z2N.id by exact H. reflexivity. Qed.
Lemma gcopy_neg dst off src : off < 0 -> gcopy dst off src = Panic.
Proof. intros H. unfold gcopy. destruct (Z.ltb_spec off 0); [reflexivity|lia]. Qed.

(* y := x[off:]; copy(y[lo:], src): the re-slice y[lo:] panics exactly when the copy into x at off+lo does *)
Lemma gview_gcopy {B} b off lo src (k : bytes -> res B) : 0 <= off -> 0 <= lo ->
  bind (gview b off lo) (fun _ => bind (gcopy b (off + lo) src) k) = bind (gcopy b (off + lo) src) k.
Proof.
  intros Ho Hl. unfold gview, gcopy.
  destruct (Z.ltb_spec lo 0) as [H0|H0]; [lia|]. destruct (Z.ltb_spec (off + lo) 0) as [H1|H1]; [lia|]. cbn [orb].
  destruct (Z.ltb_spec (glen b - off) lo) as [H2|H2], (Z.ltb_spec (glen b) (off + lo)) as [H3|H3]; try lia; reflexivity.
Qed.
Lemma gview_ok b off lo : 0 <= lo <= glen b - off -> gview b off lo = Ok tt.
Proof.
  intros H. unfold gview. destruct (Z.ltb_spec lo 0); [lia|]. destruct (Z.ltb_spec (glen b - off) lo); [lia|]. reflexivity.
Qed.

Lemma gmakel_ok {A} (z : A) n : 0 <= n -> gmakel z n = Ok (repeat z (Z.to_nat n)).
Proof. intros H. unfold gmakel. destruct (Z.ltb_spec n 0); [lia|reflexivity]. Qed.
Lemma updl_nat_app {A} (v : A) : forall (a : list A) x t, updl_nat (a ++ x :: t) (length a) v = a ++ v :: t.
Proof. induction a as [|y a IH]; intros x t; cbn [app length updl_nat]; [reflexivity|]. rewrite IH. reflexivity. Qed.
Lemma gupdl_app {A} (a : list A) x t v : gupdl (a ++ x :: t) (glenl a) v = Ok (a ++ v :: t).
Proof.
  unfold gupdl. rewrite glenl_app, glenl_cons. pose proof (glenl_nonneg a). pose proof (glenl_nonneg t).
  destruct (Z.ltb_spec (glenl a) 0); [lia|]. destruct (Z.leb_spec (glenl a + (1 + glenl t)) (glenl a)); [lia|].
  cbn [orb]. unfold glenl. rewrite Nat2Z.id. rewrite updl_nat_app. reflexivity.
Qed.

(* a match on a res that propagates the three failures is a bind *)
Lemma match_bind {A B} (r : res A) (f : A -> res B) :
  match r with Ok a => f a | Err => Err | Panic => Panic | Fuel => Fuel end = bind r f.
Proof. reflexivity. Qed.

End MoreGoSemFacts.

(* ================================================================================================ *)
(* receiver_report.go                                                                               *)
(* ================================================================================================ *)
Definition rr_fits (r : RR) : Prop := (rcv_ssrc r < 4294967296)%N /\ Forall rrep_fits (rcv_reports r).

Ltac rr_fields :=
  cbv [GoSrc.set_ReceiverReport_SSRC GoSrc.set_ReceiverReport_Reports GoSrc.set_ReceiverReport_ProfileExtensions
       GoSrc.ReceiverReport_SSRC GoSrc.ReceiverReport_Reports GoSrc.ReceiverReport_ProfileExtensions].

(* ---------------- MarshalSize ---------------- *)
(* shape: a range loop adding ReceptionReport_len (a constant, unfolded) to an accumulator *)
Lemma MarshalSize_loop1_eq : forall (rest : list GoSrc.ReceptionReport) i r acc,
  GoSrc.ReceiverReport_MarshalSize_loop1 rest i r acc = GoSrc.ReceiverReport_MarshalSize_after1 r (acc + 24 * glenl rest).
Proof.
  induction rest as [|x rest IH]; intros i r acc; cbn [GoSrc.ReceiverReport_MarshalSize_loop1].
  - f_equal. unfold glenl. cbn [length]. lia.
  - cbv zeta. rewrite IH. f_equal. unfold GoSrc.ReceptionReport_len. rewrite glenl_cons. lia.
Qed.

Lemma src_ReceiverReport_MarshalSize : forall x, GoSrc.ReceiverReport_MarshalSize (src_rr x) = Z.of_N (RR_size x).
Proof.
  intros x. unfold GoSrc.ReceiverReport_MarshalSize. cbv zeta. rewrite MarshalSize_loop1_eq.
  unfold GoSrc.ReceiverReport_MarshalSize_after1, src_rr, RR_size. rr_fields. cbv zeta. consts.
  rewrite glenl_map, glenl_nlen, glen_len, src_getPadding. lia.
Qed.

(* ---------------- Header ---------------- *)
Lemma RR_size_ge8 x : (8 <= RR_size x)%N.
Proof. unfold RR_size. consts. lia. Qed.

Lemma src_ReceiverReport_Header : forall x, GoSrc.ReceiverReport_Header (src_rr x) = src_header (RR_header x).
Proof.
  intros x. unfold GoSrc.ReceiverReport_Header. rewrite src_ReceiverReport_MarshalSize.
  unfold src_header, RR_header. cbn [h_pad h_count h_type h_len]. consts.
  unfold src_rr at 1. rr_fields. rewrite glenl_map, glenl_nlen, uwrap8_N.
  pose proof (RR_size_ge8 x) as H8.
  change 4 with (Z.of_N 4). rewrite Zquot_N.
  replace (Z.of_N (RR_size x / 4) - 1) with (Z.of_N (RR_size x / 4 - 1)) by lia.
  rewrite uwrap16_N. reflexivity.
Qed.

(* ---------------- DestinationSSRC ---------------- *)
(* shape: out := make([]uint32, len(Reports)); for i, v := range Reports { out[i] = v.SSRC } *)
Lemma DestinationSSRC_loop1_eq : forall (rest : list GoSrc.ReceptionReport) (done tail : list Z) r,
  length tail = length rest ->
  GoSrc.ReceiverReport_DestinationSSRC_loop1 rest (glenl done) (done ++ tail) r
  = Ok (done ++ map GoSrc.ReceptionReport_SSRC rest).
Proof.
  induction rest as [|x rest IH]; intros done tail r Hl; cbn [GoSrc.ReceiverReport_DestinationSSRC_loop1 map].
  - destruct tail; [|discriminate Hl]. reflexivity.
  - destruct tail as [|t tail]; [discriminate Hl|]. cbv zeta. rewrite gupdl_app. cbn [bind].
    replace (glenl done + 1) with (glenl (done ++ [GoSrc.ReceptionReport_SSRC x])) by (rewrite glenl_app; reflexivity).
    replace (done ++ GoSrc.ReceptionReport_SSRC x :: tail) with ((done ++ [GoSrc.ReceptionReport_SSRC x]) ++ tail)
      by (rewrite <- app_assoc; reflexivity).
    rewrite IH by (cbn [length] in Hl; lia). rewrite <- app_assoc. reflexivity.
Qed.

Lemma src_ReceiverReport_DestinationSSRC : forall x,
  GoSrc.ReceiverReport_DestinationSSRC (src_rr x) = Ok (zN (dest_packet (PRR x))).
Proof.
  intros x. unfold GoSrc.ReceiverReport_DestinationSSRC. rewrite gmakel_ok by apply glenl_nonneg. cbn [bind]. cbv zeta.
  assert (Hl : length (repeat 0 (Z.to_nat (glenl (GoSrc.ReceiverReport_Reports (src_rr x)))))
               = length (GoSrc.ReceiverReport_Reports (src_rr x))) by (rewrite repeat_length; unfold glenl; lia).
  pose proof (DestinationSSRC_loop1_eq _ [] _ (src_rr x) Hl) as E. cbn [app] in E. change (glenl (@nil Z)) with 0 in E.
  rewrite E. cbn [dest_packet]. unfold RR_dest, zN, src_rr. rr_fields. rewrite !map_map. reflexivity.
Qed.

(* ---------------- Marshal ---------------- *)
(* shape: for i, rp := range Reports { data, err := rp.Marshal(); offset := 4 + 24*i; copy(packetBody[offset:], data) }
   where packetBody = rawPacket[4:] is a view.  Each iteration is one step of the model's put_reports: the re-slice
   panics exactly when the model's copy_at does. *)
Lemma Marshal_loop1_eq : forall rs i r raw,
  GoSrc.ReceiverReport_Marshal_loop1 (map src_rrep rs) (Z.of_N i) r raw
  = bind (put_reports raw (8 + 24 * i) rs) (fun p => GoSrc.ReceiverReport_Marshal_after1 r (fst p)).
Proof.
  induction rs as [|a rs IH]; intros i r raw; cbn [map GoSrc.ReceiverReport_Marshal_loop1 put_reports].
  - reflexivity.
  - cbv zeta. rewrite src_ReceptionReport_Marshal.
    destruct (RRep_marshal a) as [d| | |]; cbn [bind]; try reflexivity.
    rewrite gview_gcopy by lia.
    replace (4 + (4 + 24 * Z.of_N i)) with (Z.of_N (8 + 24 * i)) by lia. rewrite gcopy_N.
    destruct (copy_at raw (8 + 24 * i) d) as [raw'| | |]; cbn [bind]; try reflexivity.
    replace (Z.of_N i + 1) with (Z.of_N (i + 1)) by lia. rewrite IH. consts.
    replace (8 + 24 * i + 24)%N with (8 + 24 * (i + 1))%N by lia. reflexivity.
Qed.

Lemma src_ReceiverReport_Marshal : forall x, GoSrc.ReceiverReport_Marshal (src_rr x) = RR_marshal x.
Proof.
  intros x. unfold GoSrc.ReceiverReport_Marshal, RR_marshal.
  rewrite src_ReceiverReport_MarshalSize, gmake_N. cbn [bind]. cbv zeta.
  pose proof (RR_size_ge8 x) as H8.
  rewrite gslice_from_ok by (rewrite glen_zeros; lia). cbn [bind].
  change (GoSrc.ReceiverReport_SSRC (src_rr x)) with (Z.of_N (rcv_ssrc x)).
  change (GoSrc.ReceiverReport_Reports (src_rr x)) with (map src_rrep (rcv_reports x)).
  change (gbe_put 4 (zeros (RR_size x)) 4 (Z.of_N (rcv_ssrc x)))
    with (gbe_put 4 (zeros (RR_size x)) (Z.of_N 4) (Z.of_N (rcv_ssrc x))).
  rewrite gbe_put_N. consts.
  destruct (put_be_at 4 (zeros (RR_size x)) 4 (rcv_ssrc x)) as [raw1| | |]; cbn [bind]; try reflexivity.
  change 0 with (Z.of_N 0). rewrite Marshal_loop1_eq.
  change (8 + 24 * 0)%N with 8%N. change (4 + 4)%N with 8%N.
  destruct (put_reports raw1 8 (rcv_reports x)) as [[raw2 off]| | |]; cbn [bind fst]; try reflexivity.
  unfold GoSrc.ReceiverReport_Marshal_after1.
  change (GoSrc.ReceiverReport_Reports (src_rr x)) with (map src_rrep (rcv_reports x)).
  change (GoSrc.ReceiverReport_ProfileExtensions (src_rr x)) with (rcv_ext x).
  rewrite glenl_map, glenl_nlen. rewrite Zltb_N_l.
  destruct (31 <? nlen (rcv_reports x))%N; [reflexivity|].
  rewrite gview_gcopy by lia.
  replace (4 + (4 + 24 * Z.of_N (nlen (rcv_reports x)))) with (Z.of_N (8 + 24 * nlen (rcv_reports x))) by lia.
  rewrite gcopy_N.
  destruct (copy_at raw2 (8 + 24 * nlen (rcv_reports x)) (rcv_ext x)) as [raw3| | |]; cbn [bind]; try reflexivity.
  rewrite src_ReceiverReport_Header, src_Header_Marshal.
  destruct (Header_marshal (RR_header x)) as [h| | |]; cbn [bind]; try reflexivity.
  change (gcopy raw3 0 h) with (gcopy raw3 (Z.of_N 0) h). rewrite gcopy_N. apply bind_Ok_r.
Qed.

Corollary src_ReceiverReport_Marshal_fits : forall x, rr_fits x -> GoSrc.ReceiverReport_Marshal (src_rr x) = RR_marshal x.
Proof. intros x _. apply src_ReceiverReport_Marshal. Qed.

(* ---------------- Unmarshal ---------------- *)
(* the code after the loop does not mention the loop index *)
Lemma Unmarshal_after1_idx h i j r raw :
  GoSrc.ReceiverReport_Unmarshal_after1 h i r raw = GoSrc.ReceiverReport_Unmarshal_after1 h j r raw.
Proof. reflexivity. Qed.

(* shape: for i := 8; i < len(raw) && len(r.Reports) < int(h.Count); i += 24 { rr.Unmarshal(raw[i:]); append }.
   The model's loop counts down k = max 0 (Count - len(r.Reports)); the Go loop is fuelled by len(raw) - i, which decreases by 24
   per iteration and is positive whenever the body runs. *)
Lemma Unmarshal_loop1_eq : forall fuel k i ssrc acc ext h raw,
  (Z.to_nat (glen raw - Z.of_N i) < fuel)%nat ->
  Z.of_nat k = Z.max 0 (GoSrc.Header_Count h - glenl acc) ->
  GoSrc.ReceiverReport_Unmarshal_loop1 fuel h (Z.of_N i) (GoSrc.mkReceiverReport ssrc acc ext) raw
  = bind (rr_reports_loop k raw i)
      (fun rs => GoSrc.ReceiverReport_Unmarshal_after1 h 0 (GoSrc.mkReceiverReport ssrc (acc ++ map src_rrep rs) ext) raw).
Proof.
  induction fuel as [|fuel IH]; intros k i ssrc acc ext h raw Hf Hk; [lia|].
  cbn [GoSrc.ReceiverReport_Unmarshal_loop1]. rr_fields.
  destruct k as [|k].
  - assert (E : (glenl acc <? GoSrc.Header_Count h) = false) by (apply Z.ltb_ge; lia).
    rewrite E, andb_false_r. cbn [rr_reports_loop bind map]. rewrite app_nil_r. apply Unmarshal_after1_idx.
  - assert (E : (glenl acc <? GoSrc.Header_Count h) = true) by (apply Z.ltb_lt; lia).
    rewrite E, andb_true_r. cbn [rr_reports_loop]. rewrite glen_len in *. rewrite Zltb_N.
    destruct (N.ltb_spec i (len raw)) as [Hi|Hi].
    + rewrite gslice_from_N.
      destruct (slice_from raw i) as [sub| | |]; cbn [bind]; try reflexivity.
      rewrite src_ReceptionReport_Unmarshal.
      destruct (RRep_unmarshal sub) as [rr| | |]; cbn [res_map bind]; try reflexivity.
      rr_fields. replace (Z.of_N i + 24) with (Z.of_N (i + 24)) by lia.
      rewrite (IH k) by (rewrite ?glen_len, ?glenl_app, ?glenl_cons; unfold glenl in *; cbn [length]; lia).
      consts.
      destruct (rr_reports_loop k raw (i + 24)) as [rs| | |]; cbn [bind map]; try reflexivity.
      rewrite <- app_assoc. reflexivity.
    + cbn [bind map]. rewrite app_nil_r. apply Unmarshal_after1_idx.
Qed.

(* an arbitrary receiver: the reports already held are kept and counted (both by the loop condition and by the final
   check against Count), and shift the start of the profile extensions; SSRC and ProfileExtensions are overwritten *)
Lemma src_ReceiverReport_Unmarshal_any : forall r0 b,
  GoSrc.ReceiverReport_Unmarshal r0 b =
  if (len b <? 8)%N then Err else
  let* h := Header_unmarshal b in
  if negb (h_type h =? c_TypeReceiverReport)%N then Err else
  let* ssrc := get_be_at 4 b c_rrSSRCOffset in
  let* rs := rr_reports_loop (N.to_nat (h_count h) - length (GoSrc.ReceiverReport_Reports r0)) b c_rrReportOffset in
  let n := (nlen (GoSrc.ReceiverReport_Reports r0) + nlen rs)%N in
  let* ext := slice_from b (c_rrReportOffset + n * c_receptionReportLength) in
  if negb (u8 n =? h_count h)%N then Err else
  Ok (GoSrc.mkReceiverReport (Z.of_N ssrc) (GoSrc.ReceiverReport_Reports r0 ++ map src_rrep rs) ext).
Proof.
  intros [s0 rep0 ext0] b. cbn [GoSrc.ReceiverReport_Reports].
  unfold GoSrc.ReceiverReport_Unmarshal. consts.
  assert (Hlt : (glen b <? 8) = (len b <? 8)%N) by (rewrite glen_len; apply Zltb_N_r).
  rewrite Hlt. destruct (N.ltb_spec (len b) 8) as [Hl|Hl]; [reflexivity|].
  assert (Hg : 8 <= glen b) by (rewrite glen_len; lia).
  rewrite src_Header_Unmarshal.
  destruct (Header_unmarshal b) as [h| | |]; cbn [res_map bind]; try reflexivity.
  change (GoSrc.Header_Type (src_header h)) with (Z.of_N (h_type h)). rewrite Zeqb_N_r.
  destruct (h_type h =? 201)%N; cbn [negb]; [|reflexivity].
  rewrite gslice_from_ok by lia. cbn [bind]. rewrite gbe_get_ok by glen_solve. cbn [bind].
  rewrite get_be_at_ok by lia. cbn [bind]. nat_lits. rr_fields.
  etransitivity.
  { apply (Unmarshal_loop1_eq _ (N.to_nat (h_count h) - length rep0) 8 _ rep0 _ (src_header h) b).
    - lia.
    - unfold src_header, glenl. cbn [GoSrc.Header_Count]. lia. }
  destruct (rr_reports_loop (N.to_nat (h_count h) - length rep0) b 8) as [rs| | |]; cbn [bind]; try reflexivity.
  unfold GoSrc.ReceiverReport_Unmarshal_after1. rr_fields. cbv zeta. rewrite glenl_app, glenl_map, !glenl_nlen.
  replace (8 + (Z.of_N (nlen rep0) + Z.of_N (nlen rs)) * 24) with (Z.of_N (8 + (nlen rep0 + nlen rs) * 24)) by lia.
  rewrite gslice_from_N.
  destruct (slice_from b (8 + (nlen rep0 + nlen rs) * 24)) as [e| | |]; cbn [bind]; try reflexivity.
  change (GoSrc.Header_Count (src_header h)) with (Z.of_N (h_count h)). rewrite Zadd_N, uwrap8_N, Zeqb_N.
  destruct (negb (u8 (nlen rep0 + nlen rs) =? h_count h)%N); reflexivity.
Qed.

(* any receiver whose Reports slice is empty (the loop appends to it and counts its length); SSRC and ProfileExtensions
   are overwritten *)
Lemma src_ReceiverReport_Unmarshal_gen : forall r0 b, GoSrc.ReceiverReport_Reports r0 = [] ->
  GoSrc.ReceiverReport_Unmarshal r0 b = res_map src_rr (RR_unmarshal b).
Proof.
  intros [s0 rep0 ext0] b H0. cbn [GoSrc.ReceiverReport_Reports] in H0. subst rep0.
  unfold GoSrc.ReceiverReport_Unmarshal, RR_unmarshal. consts. change (4 + 4)%N with 8%N.
  assert (Hlt : (glen b <? 8) = (len b <? 8)%N) by (rewrite glen_len; apply Zltb_N_r).
  rewrite Hlt. destruct (N.ltb_spec (len b) 8) as [Hl|Hl]; [reflexivity|].
  assert (Hg : 8 <= glen b) by (rewrite glen_len; lia).
  rewrite src_Header_Unmarshal.
  destruct (Header_unmarshal b) as [h| | |]; cbn [res_map bind]; try reflexivity.
  change (GoSrc.Header_Type (src_header h)) with (Z.of_N (h_type h)). rewrite Zeqb_N_r.
  destruct (h_type h =? 201)%N; cbn [negb]; [|reflexivity].
  rewrite gslice_from_ok by lia. cbn [bind]. rewrite gbe_get_ok by glen_solve. cbn [bind].
  rewrite get_be_at_ok by lia. cbn [bind]. nat_lits. rr_fields.
  etransitivity.
  { apply (Unmarshal_loop1_eq _ (N.to_nat (h_count h)) 8 _ [] _ (src_header h) b).
    - lia.
    - unfold src_header, glenl. cbn [GoSrc.Header_Count length]. lia. }
  destruct (rr_reports_loop (N.to_nat (h_count h)) b 8) as [rs| | |]; cbn [bind res_map app]; try reflexivity.
  unfold GoSrc.ReceiverReport_Unmarshal_after1. rr_fields. rewrite glenl_map, glenl_nlen.
  replace (8 + Z.of_N (nlen rs) * 24) with (Z.of_N (8 + nlen rs * 24)) by lia. rewrite gslice_from_N.
  destruct (slice_from b (8 + nlen rs * 24)) as [e| | |]; cbn [bind res_map]; try reflexivity.
  change (GoSrc.Header_Count (src_header h)) with (Z.of_N (h_count h)). rewrite uwrap8_N, Zeqb_N.
  destruct (negb (u8 (nlen rs) =? h_count h)%N); reflexivity.
Qed.

Lemma src_ReceiverReport_Unmarshal : forall b,
  GoSrc.ReceiverReport_Unmarshal GoSrc.zero_ReceiverReport b = res_map src_rr (RR_unmarshal b).
Proof. intros b. apply src_ReceiverReport_Unmarshal_gen. reflexivity. Qed.

(* the hypothesis on the receiver is needed: a receiver that already holds a report keeps it, reads one report fewer, and
   takes the profile extensions from further on *)
Lemma src_ReceiverReport_Unmarshal_nonempty_receiver_refuted :
  exists r0 b, GoSrc.ReceiverReport_Unmarshal r0 b <> res_map src_rr (RR_unmarshal b).
Proof.
  exists (GoSrc.mkReceiverReport 0 [GoSrc.zero_ReceptionReport] []).
  exists (x81 :: xc9 :: x00 :: x07 :: repeat x01 28).
  vm_compute. discriminate.
Qed.

Print Assumptions src_ReceiverReport_MarshalSize.
Print Assumptions src_ReceiverReport_Header.
Print Assumptions src_ReceiverReport_DestinationSSRC.
Print Assumptions src_ReceiverReport_Marshal.
Print Assumptions src_ReceiverReport_Marshal_fits.
Print Assumptions src_ReceiverReport_Unmarshal_any.
Print Assumptions src_ReceiverReport_Unmarshal_gen.
Print Assumptions src_ReceiverReport_Unmarshal.
Print Assumptions src_ReceiverReport_Unmarshal_nonempty_receiver_refuted.
