(* C09: re-encoding a decoded datagram is stable.
   1. per frame   (frame_reencode, one lemma per packet type)
   2. per datagram (datagram_reencode)
   3. Marshal of decoded packets never panics (datagram_reencode_no_panic) *)
From RTCP Require Import Proofs.Tactics Lib.Reflect
  Model.Header Model.Reports Model.Sdes Model.ByeApp Model.Feedback Model.Twcc Model.Ccfb Model.Remb Model.Xr Model.Packet
  Spec.Enc Spec.XrSpec Spec.Laws
  Proofs.HeaderProofs Proofs.Total1 Proofs.Total2 Proofs.Dgram Proofs.EncFeedback Proofs.EncReports Proofs.EncSdesByeApp
  Proofs.EncTwcc Proofs.EncXr Proofs.XrRead Proofs.EncCcfbRemb Proofs.Guards Proofs.Assemble Proofs.Units
  Proofs.PacketLevel Proofs.Image1 Proofs.Image2 Proofs.Image3.
Local Open Scope N_scope.

(* ------------------------------------------------------------------------------------------------ *)
(* definitions                                                                                       *)
(* ------------------------------------------------------------------------------------------------ *)

(* the side condition under which re-encoding the packet p decoded from the frame f is stable *)
Definition stable_pkt (f : bytes) (p : packet) : Prop :=
  match p with
  | PTWCC t => twcc_hdr_consistent t = true
  | PREMB _ => remb_mant_field f <> 0 \/ remb_exp_field f < 58            (* finding F16 *)
  | PFIR x => 1 <= nl (fir_entries x)                                      (* finding F20 *)
  | PCCFB _ => len f <= 262137
  | _ => True
  end.

(* equality, except for ExtendedReport: same sender, same typed blocks, same canonical form *)
Definition pkt_equiv (p p' : packet) : Prop :=
  match p with
  | PXR x => exists x', p' = PXR x' /\ xr_sender x' = xr_sender x /\
                        map abs_block (xr_blocks x') = map abs_block (xr_blocks x) /\ canon p' = canon p
  | _ => p' = p
  end.

Lemma pkt_equiv_canon p p' : pkt_equiv p p' -> canon p' = canon p.
Proof.
  destruct p; cbn [pkt_equiv]; try (intros ->; reflexivity).
  intros (x' & _ & _ & _ & H). exact H.
Qed.

Lemma pkt_equiv_eq p p' : (forall x, p <> PXR x) -> pkt_equiv p p' -> p' = p.
Proof. destruct p; cbn [pkt_equiv]; intros Hx H; try exact H. exfalso. apply (Hx x). reflexivity. Qed.

(* ------------------------------------------------------------------------------------------------ *)
(* inversion of decode_frame                                                                         *)
(* ------------------------------------------------------------------------------------------------ *)
Lemma res_map_ok {A B} (f : A -> B) r y : res_map f r = Ok y -> exists x, r = Ok x /\ y = f x.
Proof. destruct r; cbn [res_map]; intros E; try discriminate E. injection E as <-. eauto. Qed.

Definition decoded_by (t : tag) (f : bytes) (p : packet) : Prop :=
  match p with
  | PSR x => t = TSR /\ SR_unmarshal f = Ok x | PRR x => t = TRR /\ RR_unmarshal f = Ok x
  | PSDES x => t = TSDES /\ SDES_unmarshal f = Ok x | PBYE x => t = TBYE /\ BYE_unmarshal f = Ok x
  | PAPP x => t = TAPP /\ APP_unmarshal f = Ok x | PNACK x => t = TNACK /\ NACK_unmarshal f = Ok x
  | PRRR x => t = TRRR /\ RRR_unmarshal f = Ok x | PTWCC x => t = TTWCC /\ TWCC_unmarshal f = Ok x
  | PCCFB x => t = TCCFB /\ CCFB_unmarshal f = Ok x | PPLI x => t = TPLI /\ PLI_unmarshal f = Ok x
  | PSLI x => t = TSLI /\ SLI_unmarshal f = Ok x | PREMB x => t = TREMB /\ REMB_unmarshal f = Ok x
  | PFIR x => t = TFIR /\ FIR_unmarshal f = Ok x | PXR x => t = TXR /\ XR_unmarshal f = Ok x
  | PRaw b => t = TRaw /\ Raw_unmarshal f = Ok b
  | PCompound _ => False
  end.

Lemma decode_as_inv t f p : decode_as t f = Ok p -> decoded_by t f p.
Proof.
  destruct t; cbn [decode_as]; intros H; try discriminate H;
    apply res_map_ok in H as (x & Hx & ->); cbn [decoded_by]; auto.
Qed.

Lemma decode_frame_inv f p : decode_frame f = Ok p ->
  exists h, Header_unmarshal f = Ok h /\ decode_as (dispatch (h_type h) (h_count h)) f = Ok p /\
            decoded_by (dispatch (h_type h) (h_count h)) f p.
Proof.
  unfold decode_frame. destruct (Header_unmarshal f) as [h| | |] eqn:Hh; cbn [bind]; try discriminate.
  intros H. exists h. split; [reflexivity|]. split; [exact H|]. apply decode_as_inv, H.
Qed.

Lemma framed16_mod4 f : framed16 f -> len f mod 4 = 0 /\ len f <= 262140.
Proof. intros [(H4 & _ & Hn) Hl]. lia. Qed.

(* SLI (finding F5): the registry sends 206/2 to the SLI decoder, which insists on 205/2: nothing decodes to an SLI *)
Lemma decode_frame_never_sli f x : decode_frame f <> Ok (PSLI x).
Proof.
  intros H. apply decode_frame_inv in H as (h & Hh & Hd & Ht & _).
  rewrite dispatch_table_all in Ht.
  pose proof (SLI_rejects_registered f h Hh Ht) as E. rewrite dispatch_table_all, Ht, E in Hd. discriminate Hd.
Qed.

Lemma decode_frame_never_compound f l : decode_frame f <> Ok (PCompound l).
Proof. intros H. apply decode_frame_inv in H as (h & _ & _ & []). Qed.

(* ------------------------------------------------------------------------------------------------ *)
(* generic re-encoding steps                                                                         *)
(* ------------------------------------------------------------------------------------------------ *)

(* a covered packet in its domain whose own decoder returns it from whatever Marshal produces *)
Lemma reenc_supported p : supported p = true -> in_D p = true -> len (enc_spec p) < 262144 ->
  (forall b', marshal_packet p = Ok b' -> decode_as (tag_of_packet p) b' = Ok p) ->
  forall b', marshal_packet p = Ok b' -> decode_frame b' = Ok p /\ framed16 b'.
Proof.
  intros Hs HD Hl Hdec b' Hm. pose proof (Hdec b' Hm) as Hd.
  rewrite (marshal_is_rfc p Hs HD) in Hm. injection Hm as <-.
  destruct (enc_framed p Hs HD Hl) as (F & h & _ & _ & _ & _ & E). split; [|exact F]. rewrite E. exact Hd.
Qed.

(* an RFC frame with a registered (PT, count) *)
Lemma reenc_frame pd c t body p : c < 32 -> t < 256 -> len body mod 4 = 0 -> 4 + len body < 262144 ->
  decode_as (registry t c) (frame pd c t body) = Ok p ->
  decode_frame (frame pd c t body) = Ok p /\ framed16 (frame pd c t body).
Proof.
  intros Hc Ht Hm Hl Hd. split; [rewrite frame_decode by assumption; exact Hd|]. apply frame_framed16; assumption.
Qed.

(* ------------------------------------------------------------------------------------------------ *)
(* SR, RR, SDES, BYE, APP                                                                            *)
(* ------------------------------------------------------------------------------------------------ *)
Lemma SR_frame_reencode f s : framed16 f -> SR_unmarshal f = Ok s ->
  forall b', SR_marshal s = Ok b' -> decode_frame b' = Ok (PSR s) /\ framed16 b'.
Proof.
  intros Hf Hu. destruct (framed16_mod4 f Hf) as [Hm Hl].
  pose proof (SR_unmarshal_image f s Hu Hm) as HD.
  apply (reenc_supported (PSR s)); [reflexivity|exact HD| |].
  - cbn [enc_spec]. destruct (SR_size_spec s HD) as [E _]. rewrite E.
    apply SR_unmarshal_alloc_N in Hu. destruct (D_SR_bounds s HD) as (_ & _ & _ & _ & _ & _ & _ & He).
    unfold SR_size. consts. unfold get_padding. rewrite He. cbn [N.eqb]. lia.
  - intros b' Hm'. cbn [marshal_packet tag_of_packet decode_as] in *.
    rewrite (SR_dec_enc_dec f s Hu Hm b' Hm'). reflexivity.
Qed.

Lemma RR_frame_reencode f r : framed16 f -> RR_unmarshal f = Ok r ->
  forall b', RR_marshal r = Ok b' -> decode_frame b' = Ok (PRR r) /\ framed16 b'.
Proof.
  intros Hf Hu. destruct (framed16_mod4 f Hf) as [Hm Hl].
  pose proof (RR_unmarshal_image f r Hu) as HD.
  apply (reenc_supported (PRR r)); [reflexivity|exact HD| |].
  - cbn [enc_spec]. rewrite len_enc_RR. apply RR_unmarshal_alloc_N in Hu.
    unfold RR_size. consts. pose proof (get_padding_spec (len (rcv_ext r))). lia.
  - intros b' Hm'. cbn [marshal_packet tag_of_packet decode_as] in *.
    rewrite (RR_dec_enc_dec f r Hu Hm b' Hm'). reflexivity.
Qed.

Lemma SChunk_len_lt4 c : SChunk_len c < 4 + items_wire (ch_items c) + 1 + 4.
Proof.
  unfold SChunk_len. rewrite items_wire_fold. consts.
  pose proof (get_padding_spec (4 + items_wire (ch_items c) + 1)). lia.
Qed.

(* the padded chunks a successful chunk loop returns overshoot the input by less than one word *)
Lemma chunks_loop_size : forall fuel raw i cs, chunks_loop fuel raw i = Ok cs -> i <= len raw ->
  i + fold_right (fun c acc => SChunk_len c + acc) 0 cs <= len raw + 3.
Proof.
  induction fuel as [|f IH]; intros raw i cs; cbn [chunks_loop]; [discriminate|].
  destruct (N.ltb_spec i (len raw)).
  - rewrite slice_from_ok by lia. cbn [bind].
    destruct (SChunk_unmarshal _) as [c| | |] eqn:EC; cbn [bind]; try discriminate.
    apply SChunk_unmarshal_ok in EC. rewrite len_skipn in EC.
    pose proof (SChunk_len_lt4 c) as G.
    destruct (chunks_loop f raw (i + SChunk_len c)) as [cs1| | |] eqn:EL; cbn [bind]; try discriminate.
    intros E Hi. inversion E; subst. cbn [fold_right].
    destruct (N.le_gt_cases (i + SChunk_len c) (len raw)) as [L|L].
    + apply IH in EL; lia.
    + destruct f as [|f']; cbn [chunks_loop] in EL; [discriminate|].
      destruct (N.ltb_spec (i + SChunk_len c) (len raw)); [lia|].
      inversion EL; subst. cbn [fold_right]. lia.
  - intros E Hi. inversion E; subst. cbn [fold_right]. lia.
Qed.

Lemma SDES_unmarshal_size b s : SDES_unmarshal b = Ok s -> SDES_size s <= len b + 3.
Proof.
  unfold SDES_unmarshal, SDES_size.
  destruct (Header_unmarshal b) as [h| | |] eqn:EH; cbn [bind]; try discriminate.
  apply Header_unmarshal_ok in EH as (Hl & _).
  destruct (negb _); [discriminate|].
  destruct (chunks_loop (S (length b)) b c_headerLength) as [cs| | |] eqn:EL; cbn [bind]; try discriminate.
  apply chunks_loop_size in EL; [|consts; lia]. consts.
  destruct (negb _); [discriminate|]. intros E. inversion E; subst s. cbn [sd_chunks]. exact EL.
Qed.

Lemma SDES_frame_reencode f s : framed16 f -> SDES_unmarshal f = Ok s ->
  forall b', SDES_marshal s = Ok b' -> decode_frame b' = Ok (PSDES s) /\ framed16 b'.
Proof.
  intros Hf Hu. destruct (framed16_mod4 f Hf) as [Hm Hl].
  pose proof (SDES_unmarshal_image f s Hu) as HD.
  apply (reenc_supported (PSDES s)); [reflexivity|exact HD| |].
  - cbn [enc_spec]. destruct (SDES_size_spec_gen s) as [E _]. rewrite E. apply SDES_unmarshal_size in Hu. lia.
  - intros b' Hm'. cbn [marshal_packet tag_of_packet decode_as] in *.
    rewrite (SDES_dec_enc_dec f s Hu b' Hm'). reflexivity.
Qed.

Lemma BYE_frame_reencode f g : BYE_unmarshal f = Ok g ->
  forall b', BYE_marshal g = Ok b' -> decode_frame b' = Ok (PBYE g) /\ framed16 b'.
Proof.
  intros Hu. pose proof (BYE_unmarshal_image f g Hu) as HD.
  apply (reenc_supported (PBYE g)); [reflexivity|exact HD| |].
  - apply len_bound_auto; [reflexivity|exact HD|reflexivity].
  - intros b' Hm'. cbn [marshal_packet tag_of_packet decode_as] in *.
    rewrite (BYE_dec_enc_dec f g Hu b' Hm'). reflexivity.
Qed.

Lemma APP_frame_reencode f a : APP_unmarshal f = Ok a ->
  forall b', APP_marshal a = Ok b' -> decode_frame b' = Ok (PAPP a) /\ framed16 b'.
Proof.
  intros Hu b' Hm. pose proof (APP_unmarshal_image_gen f a Hu) as (H1 & H2 & H3 & _).
  assert (Hok : exists x, APP_marshal a = Ok x) by (exists b'; exact Hm).
  apply APP_marshal_ok_iff in Hok as (_ & _ & Hd).
  assert (HD : D_APP a = true).
  { unfold D_APP. rewrite H1, H2, H3. cbn [andb N.eqb Pos.eqb]. apply N.leb_le. exact Hd. }
  revert b' Hm. apply (reenc_supported (PAPP a)); [reflexivity|exact HD| |].
  - apply len_bound_auto; [reflexivity|exact HD|reflexivity].
  - intros b' Hm'. cbn [marshal_packet tag_of_packet decode_as] in *.
    rewrite (APP_dec_enc_dec f a Hu b' Hm'). reflexivity.
Qed.

(* ------------------------------------------------------------------------------------------------ *)
(* feedback: NACK, PLI, RRR, FIR, CCFB, REMB, TWCC                                                   *)
(* ------------------------------------------------------------------------------------------------ *)
Lemma NACK_frame_reencode f p : NACK_unmarshal f = Ok p ->
  forall b', NACK_marshal p = Ok b' -> decode_frame b' = Ok (PNACK p) /\ framed16 b'.
Proof.
  intros Hu b' Hm. pose proof (NACK_unmarshal_image f p Hu) as (Hs & Hme & H1 & Hd).
  destruct (N.le_gt_cases (nl (nack_pairs p)) 253) as [Hn|Hn];
    [|rewrite NACK_marshal_limit in Hm by exact Hn; discriminate Hm].
  pose proof (NACK_image_D p Hs Hme H1 Hn Hd) as HD.
  revert b' Hm. apply (reenc_supported (PNACK p)); [reflexivity|exact HD| |].
  - apply len_bound_auto; [reflexivity|exact HD|reflexivity].
  - intros b' Hm'. cbn [marshal_packet tag_of_packet decode_as] in *.
    rewrite (NACK_dec_enc_dec f p Hu b' Hm'). reflexivity.
Qed.

Lemma PLI_frame_reencode f p : PLI_unmarshal f = Ok p ->
  forall b', PLI_marshal p = Ok b' -> decode_frame b' = Ok (PPLI p) /\ framed16 b'.
Proof.
  intros Hu. pose proof (PLI_unmarshal_image f p Hu) as HD.
  apply (reenc_supported (PPLI p)); [reflexivity|exact HD| |].
  - apply len_bound_auto; [reflexivity|exact HD|reflexivity].
  - intros b' Hm'. cbn [marshal_packet tag_of_packet decode_as] in *.
    rewrite (PLI_dec_enc_dec f p Hu b' Hm'). reflexivity.
Qed.

Lemma RRR_frame_reencode f p : RRR_unmarshal f = Ok p ->
  forall b', RRR_marshal p = Ok b' -> decode_frame b' = Ok (PRRR p) /\ framed16 b'.
Proof.
  intros Hu. pose proof (RRR_unmarshal_image f p Hu) as HD.
  apply (reenc_supported (PRRR p)); [reflexivity|exact HD| |].
  - apply len_bound_auto; [reflexivity|exact HD|reflexivity].
  - intros b' Hm'. cbn [marshal_packet tag_of_packet decode_as] in *.
    rewrite (RRR_dec_enc_dec f p Hu b' Hm'). reflexivity.
Qed.

(* FIR: the image holds up to 8190 entries (D_FIR stops at 8000), so the frame is handled directly *)
Lemma FIR_frame_reencode f p : FIR_unmarshal f = Ok p -> 1 <= nl (fir_entries p) ->
  forall b', FIR_marshal p = Ok b' -> decode_frame b' = Ok (PFIR p) /\ framed16 b'.
Proof.
  intros Hu H1 b' Hm. pose proof (FIR_unmarshal_image f p Hu) as (Hs & Hme & Hn & Hd).
  rewrite FIR_marshal_wide in Hm by exact Hn. injection Hm as <-.
  pose proof (FIR_unmarshal_enc_wide p Hs Hme H1 Hn Hd) as He.
  unfold enc_FIR in *.
  change (fun e : FIREntry => be 4 (fir_ssrc e) ++ be 1 (fir_seq e) ++ be 3 0) with enc_fir in *.
  match type of He with FIR_unmarshal (frame false 4 206 ?b) = _ =>
    assert (Hb : len b = 8 + 8 * nl (fir_entries p)) end.
  { rewrite !len_app, !len_be, (len_concat_const enc_fir 8) by apply len_enc_fir.
    change (N.of_nat 4) with 4. lia. }
  apply reenc_frame; [lia|lia|rewrite Hb; lia|rewrite Hb; lia|].
  change (registry 206 4) with TFIR. cbn [decode_as]. rewrite He. reflexivity.
Qed.

Lemma CCFB_image_D f p b' : CCFB_unmarshal f = Ok p -> CCFB_marshal p = Ok b' ->
  D_CCFB p = true /\ CCFB_size p <= len f + 6 /\ CCFB_size p mod 4 = 0.
Proof.
  intros Hu Hm. apply CCFB_unmarshal_image in Hu as [HI Hsz].
  pose proof (CCFB_marshal_ok_limit _ _ Hm) as HL. split; [|split; [exact Hsz|]].
  - unfold D_CCFB_img in HI. apply andb_true_iff in HI as [HI HB]. unfold D_CCFB. rewrite HI. cbn [andb].
    apply D_ccblocks_of_img; assumption.
  - pose proof (blocks_len_mod4 (cc_blocks p)) as M4. rewrite CCFB_size_blocks. lia.
Qed.

Lemma CCFB_frame_reencode f p : CCFB_unmarshal f = Ok p -> len f <= 262137 ->
  forall b', CCFB_marshal p = Ok b' -> decode_frame b' = Ok (PCCFB p) /\ framed16 b'.
Proof.
  intros Hu Hlen b' Hm. destruct (CCFB_image_D f p b' Hu Hm) as (HD & Hsz & M4).
  assert (Hs : supported (PCCFB p) = true) by (cbn [supported]; apply N.leb_le; lia).
  revert b' Hm. apply (reenc_supported (PCCFB p)); [exact Hs|exact HD| |].
  - apply len_bound_auto; [exact Hs|exact HD|reflexivity].
  - intros b' Hm'. cbn [marshal_packet tag_of_packet decode_as] in *.
    rewrite (CCFB_dec_enc_dec f p Hu Hlen b' Hm'). reflexivity.
Qed.

(* REMB: a bitrate that is the decoding of a pair with a non-zero mantissa is in the domain, with integer part >= 1 *)
Lemma REMB_stable_D p e m : fits 32 (remb_sender p) = true -> nl (remb_ssrcs p) <= 255 ->
  forallb (fits 32) (remb_ssrcs p) = true -> (0 <= e < 64)%Z -> (0 < m < 2 ^ 18)%Z ->
  remb_bitrate p = Z.to_N (remb_dec e m) -> D_REMB p = true /\ remb_floor_pos p = true.
Proof.
  intros Hs Hn Hss He Hm Hb. destruct (remb_dec_props e m He Hm) as (Hlt & HF & v & HV). split.
  - unfold D_REMB. rewrite Hs, Hss, Hb, HV. destruct (N.leb_spec (nl (remb_ssrcs p)) 255); [|lia].
    unfold fits. change (2 ^ 32) with 4294967296. destruct (N.ltb_spec (Z.to_N (remb_dec e m)) 4294967296); [reflexivity|lia].
  - unfold remb_floor_pos. rewrite Hb, HF. apply Z.leb_le.
    assert (HP : (0 < 2 ^ e)%Z) by (apply pow2_pos; lia).
    assert (HQ : (m * 1 <= m * 2 ^ e)%Z) by (apply Z.mul_le_mono_nonneg_l; lia). lia.
Qed.

Lemma REMB_image_D f p : REMB_unmarshal f = Ok p -> (remb_mant_field f <> 0 \/ remb_exp_field f < 58) ->
  D_REMB p = true /\ remb_floor_pos p = true.
Proof.
  intros H Hc. apply REMB_unmarshal_fields in H as (Hs & Hn & Hss & He & Hm & Hb).
  destruct (N.eq_dec (remb_mant_field f) 0) as [Z0|NZ].
  - assert (He58 : remb_exp_field f < 58) by (destruct Hc as [A|A]; [congruence|exact A]).
    rewrite Z0 in Hb. change (Z.of_N 0) with 0%Z in Hb. rewrite remb_dec_zero_alt in Hb by lia.
    apply (REMB_stable_D p (Z.of_N (remb_exp_field f) + 6)%Z (2 ^ 17)%Z); try assumption; [lia|].
    change (2 ^ 17)%Z with 131072%Z. change (2 ^ 18)%Z with 262144%Z. lia.
  - apply (REMB_stable_D p (Z.of_N (remb_exp_field f)) (Z.of_N (remb_mant_field f))); try assumption; [lia|].
    change (2 ^ 18)%Z with 262144%Z. lia.
Qed.

Lemma REMB_frame_reencode f p : REMB_unmarshal f = Ok p -> (remb_mant_field f <> 0 \/ remb_exp_field f < 58) ->
  forall b', REMB_marshal p = Ok b' -> decode_frame b' = Ok (PREMB p) /\ framed16 b'.
Proof.
  intros Hu Hc. destruct (REMB_image_D f p Hu Hc) as [HD Hs].
  apply (reenc_supported (PREMB p)); [exact Hs|exact HD| |].
  - apply len_bound_auto; [exact Hs|exact HD|reflexivity].
  - intros b' Hm'. cbn [marshal_packet tag_of_packet decode_as] in *.
    rewrite (REMB_dec_enc_dec f p Hu Hc b' Hm'). reflexivity.
Qed.

Lemma TWCC_frame_reencode f t : TWCC_unmarshal f = Ok t -> twcc_hdr_consistent t = true ->
  forall b', TWCC_marshal t = Ok b' -> decode_frame b' = Ok (PTWCC t) /\ framed16 b'.
Proof.
  intros Hu Hc. pose proof (TWCC_unmarshal_in_D f t Hu Hc) as HD.
  apply (reenc_supported (PTWCC t)); [reflexivity|exact HD| |].
  - apply len_bound_auto; [reflexivity|exact HD|reflexivity].
  - intros b' Hm'. cbn [marshal_packet tag_of_packet decode_as] in *.
    rewrite (TWCC_dec_enc_dec f t Hu Hc b' Hm'). reflexivity.
Qed.

(* ------------------------------------------------------------------------------------------------ *)
(* XR (up to the header bookkeeping of the blocks), Raw                                              *)
(* ------------------------------------------------------------------------------------------------ *)
Lemma XR_frame_reencode f x : framed16 f -> XR_unmarshal f = Ok x ->
  forall b', XR_marshal x = Ok b' ->
  exists x', decode_frame b' = Ok (PXR x') /\ framed16 b' /\ pkt_equiv (PXR x) (PXR x').
Proof.
  intros Hf Hu b' Hb'. destruct (framed16_mod4 f Hf) as [Hm Hl].
  destruct (XR_unmarshal_image_len f x Hu Hm) as (W & S & L).
  pose proof (XR_unmarshal_image f x Hu Hm) as [_ HD].
  pose proof (XR_marshal_spec x W) as Hspec.
  rewrite Hspec in Hb'. injection Hb' as <-.
  assert (Hlen : len (enc_XR x) < 262144) by (rewrite len_enc_XR; lia).
  destruct (XR_roundtrip_canon x HD W Hlen) as (x' & Hu' & Hcan & _).
  destruct (XR_dec_enc_dec f x Hu Hm ltac:(lia) (enc_XR x) Hspec) as (x'' & Hu'' & Habs & Hse).
  rewrite Hu' in Hu''. injection Hu'' as <-.
  destruct (XR_framing x W Hlen) as (_ & _ & F & _).
  assert (E : decode_frame (enc_XR x) = decode_as TXR (enc_XR x)).
  { unfold enc_XR. rewrite frame_decode by lia. reflexivity. }
  exists x'. split; [|split; [exact F|]].
  - rewrite E. cbn [decode_as]. rewrite Hu'. reflexivity.
  - cbn [pkt_equiv]. exists x'. split; [reflexivity|]. split; [exact Hse|]. split; [exact Habs|exact Hcan].
Qed.

Lemma Raw_frame_reencode f b : framed16 f -> decode_frame f = Ok (PRaw b) ->
  forall b', marshal_packet (PRaw b) = Ok b' -> decode_frame b' = Ok (PRaw b) /\ framed16 b'.
Proof.
  intros Hf Hd b' Hm. cbn [marshal_packet] in Hm. injection Hm as <-.
  pose proof Hd as Hd'. apply decode_frame_inv in Hd' as (h & _ & _ & _ & Hr).
  assert (E : b = f).
  { revert Hr. unfold Raw_unmarshal. destruct (len f <? c_headerLength); [discriminate|].
    destruct (Header_unmarshal f); cbn [bind]; intros X; try discriminate X. injection X as <-. reflexivity. }
  subst b. split; assumption.
Qed.

(* ------------------------------------------------------------------------------------------------ *)
(* 1. per frame                                                                                      *)
(* ------------------------------------------------------------------------------------------------ *)
Theorem frame_reencode f p : framed16 f -> decode_frame f = Ok p -> stable_pkt f p ->
  forall b', marshal_packet p = Ok b' ->
  exists p', decode_frame b' = Ok p' /\ framed16 b' /\ pkt_equiv p p'.
Proof.
  intros Hf Hd Hst b' Hm. pose proof Hd as Hd'. apply decode_frame_inv in Hd' as (h & Hh & _ & Hby).
  destruct p as [x|x|x|x|x|x|x|x|x|x|x|x|x|x|b|l]; cbn [decoded_by] in Hby; cbn [stable_pkt] in Hst;
    cbn [marshal_packet] in Hm; try destruct Hby as [_ Hu].
  - destruct (SR_frame_reencode f x Hf Hu b' Hm) as [A B]. exists (PSR x). split; [exact A|split; [exact B|reflexivity]].
  - destruct (RR_frame_reencode f x Hf Hu b' Hm) as [A B]. exists (PRR x). split; [exact A|split; [exact B|reflexivity]].
  - destruct (SDES_frame_reencode f x Hf Hu b' Hm) as [A B]. exists (PSDES x). split; [exact A|split; [exact B|reflexivity]].
  - destruct (BYE_frame_reencode f x Hu b' Hm) as [A B]. exists (PBYE x). split; [exact A|split; [exact B|reflexivity]].
  - destruct (APP_frame_reencode f x Hu b' Hm) as [A B]. exists (PAPP x). split; [exact A|split; [exact B|reflexivity]].
  - destruct (NACK_frame_reencode f x Hu b' Hm) as [A B]. exists (PNACK x). split; [exact A|split; [exact B|reflexivity]].
  - destruct (RRR_frame_reencode f x Hu b' Hm) as [A B]. exists (PRRR x). split; [exact A|split; [exact B|reflexivity]].
  - destruct (TWCC_frame_reencode f x Hu Hst b' Hm) as [A B]. exists (PTWCC x). split; [exact A|split; [exact B|reflexivity]].
  - destruct (CCFB_frame_reencode f x Hu Hst b' Hm) as [A B]. exists (PCCFB x). split; [exact A|split; [exact B|reflexivity]].
  - destruct (PLI_frame_reencode f x Hu b' Hm) as [A B]. exists (PPLI x).  split; [exact A|split; [exact B|reflexivity]].
  - exfalso. exact (decode_frame_never_sli f x Hd).
  - destruct (REMB_frame_reencode f x Hu Hst b' Hm) as [A B]. exists (PREMB x). split; [exact A|split; [exact B|reflexivity]].
  - destruct (FIR_frame_reencode f x Hu Hst b' Hm) as [A B]. exists (PFIR x). split; [exact A|split; [exact B|reflexivity]].
  - destruct (XR_frame_reencode f x Hf Hu b' Hm) as (x' & A & B & C). exists (PXR x'). split; [exact A|split; [exact B|exact C]].
  - destruct (Raw_frame_reencode f b Hf Hd b' Hm) as [A B]. exists (PRaw b). split; [exact A|split; [exact B|reflexivity]].
  - destruct Hby.
Qed.

(* ------------------------------------------------------------------------------------------------ *)
(* 2. per datagram                                                                                   *)
(* ------------------------------------------------------------------------------------------------ *)
Lemma Marshal_cons_ok p ps b' : Marshal (p :: ps) = Ok b' ->
  exists d ds, marshal_packet p = Ok d /\ Marshal ps = Ok ds /\ b' = d ++ ds.
Proof.
  cbn [Marshal]. destruct (marshal_packet p) as [d| | |]; cbn [bind]; try discriminate.
  destruct (Marshal ps) as [ds| | |]; cbn [bind]; try discriminate.
  intros E. injection E as <-. exists d, ds. auto.
Qed.

Lemma mapM_cons_ok {A B} (g : A -> res B) x l r : mapM g (x :: l) = Ok r ->
  exists y ys, g x = Ok y /\ mapM g l = Ok ys /\ r = y :: ys.
Proof.
  cbn [mapM]. destruct (g x) as [y| | |]; cbn [bind]; try discriminate.
  destruct (mapM g l) as [ys| | |]; cbn [bind]; try discriminate.
  intros E. injection E as <-. exists y, ys. auto.
Qed.

(* frame by frame: the re-encoding is again a sequence of as many frames, decoding to equivalent packets *)
Lemma frames_reencode : forall fs ps, Forall framed16 fs -> mapM decode_frame fs = Ok ps -> Forall2 stable_pkt fs ps ->
  forall b', Marshal ps = Ok b' ->
  exists fs' ps', b' = List.concat fs' /\ Forall framed16 fs' /\ mapM decode_frame fs' = Ok ps' /\
                  Forall2 pkt_equiv ps ps' /\ List.length fs' = List.length fs.
Proof.
  induction fs as [|f fs IH]; intros ps Hf Hm Hst b' Hb'.
  - cbn [mapM] in Hm. injection Hm as <-. cbn [Marshal] in Hb'. injection Hb' as <-.
    exists [], []. repeat split; constructor.
  - apply mapM_cons_ok in Hm as (p & ps0 & Hd & Hm & ->).
    inversion Hf as [|? ? Hf1 Hf2]; subst. inversion Hst as [|? ? ? ? Hs1 Hs2]; subst.
    apply Marshal_cons_ok in Hb' as (d & ds & Hmp & Hms & ->).
    destruct (frame_reencode f p Hf1 Hd Hs1 d Hmp) as (p' & Hd' & Hfd & He).
    destruct (IH ps0 Hf2 Hm Hs2 ds Hms) as (fs' & ps' & -> & Hff & Hmm & Hee & Hl).
    exists (d :: fs'), (p' :: ps'). cbn [List.concat mapM List.length]. rewrite Hd', Hmm, Hl.
    repeat split; try constructor; assumption.
Qed.

(* the side conditions of a datagram, along its (unique, see frames_unique) split into frames *)
Definition stable_dgram (b : bytes) (ps : list packet) : Prop :=
  exists fs, b = List.concat fs /\ Forall framed16 fs /\ mapM decode_frame fs = Ok ps /\ Forall2 stable_pkt fs ps.

Theorem datagram_reencode b ps : Unmarshal b = Ok ps -> stable_dgram b ps ->
  forall b', Marshal ps = Ok b' -> exists ps', Unmarshal b' = Ok ps' /\ Forall2 pkt_equiv ps ps'.
Proof.
  intros Hu (fs & -> & Hf & Hm & Hst) b' Hb'.
  destruct (frames_reencode fs ps Hf Hm Hst b' Hb') as (fs' & ps' & -> & Hf' & Hm' & He & Hl).
  exists ps'. split; [|exact He]. rewrite Unmarshal_frames; [exact Hm'|exact Hf'|].
  intros ->. destruct fs; [|discriminate Hl]. cbn [mapM] in Hm. injection Hm as <-.
  unfold Unmarshal in Hu. cbn in Hu. discriminate Hu.
Qed.

(* the same with the hypothesis stated over every split Unmarshal_ok_split may return *)
Corollary datagram_reencode_split b ps : Unmarshal b = Ok ps ->
  (forall fs, b = List.concat fs -> Forall framed16 fs -> mapM decode_frame fs = Ok ps -> Forall2 stable_pkt fs ps) ->
  forall b', Marshal ps = Ok b' -> exists ps', Unmarshal b' = Ok ps' /\ Forall2 pkt_equiv ps ps'.
Proof.
  intros Hu Hall. apply (datagram_reencode b ps Hu).
  destruct (Unmarshal_ok_split b ps Hu) as (fs & Hc & Hf & _ & Hm). exists fs. auto.
Qed.

(* the split is unique: a frame announces its own length *)
Lemma framed_prefix_len f r : framed f -> len f = 4 * (unbe (firstn 2 (skipn 2 (f ++ r))) + 1).
Proof.
  intros (H4 & _ & Hn). rewrite Hn. f_equal. f_equal. f_equal.
  assert (Hl : (4 <= List.length f)%nat) by (unfold len in H4; lia).
  rewrite skipn_app, firstn_app, skipn_length.
  replace (2 - (List.length f - 2))%nat with 0%nat by lia. rewrite firstn_O, app_nil_r. reflexivity.
Qed.

Lemma frames_unique : forall fs1 fs2, Forall framed16 fs1 -> Forall framed16 fs2 ->
  List.concat fs1 = List.concat fs2 -> fs1 = fs2.
Proof.
  induction fs1 as [|f1 fs1 IH]; intros fs2 H1 H2 E.
  - destruct fs2 as [|f2 fs2]; [reflexivity|]. inversion H2 as [|? ? Hf _]; subst.
    apply framed16_len in Hf. cbn [List.concat] in E. apply (f_equal len) in E. rewrite len_app, len_nil in E. lia.
  - inversion H1 as [|? ? Hf1 Hr1]; subst. destruct fs2 as [|f2 fs2].
    + apply framed16_len in Hf1. cbn [List.concat] in E. apply (f_equal len) in E. rewrite len_app, len_nil in E. lia.
    + inversion H2 as [|? ? Hf2 Hr2]; subst. cbn [List.concat] in E.
      assert (El : len f1 = len f2).
      { rewrite (framed_prefix_len f1 (List.concat fs1) (proj1 Hf1)), (framed_prefix_len f2 (List.concat fs2) (proj1 Hf2)), E.
        reflexivity. }
      assert (E1 : f1 = f2).
      { rewrite <- (firstn_len_app f1 (List.concat fs1)), <- (firstn_len_app f2 (List.concat fs2)), E, El. reflexivity. }
      subst f2. apply app_inv_head in E. f_equal. apply IH; assumption.
Qed.

Corollary stable_dgram_unique b ps fs : stable_dgram b ps ->
  b = List.concat fs -> Forall framed16 fs -> Forall2 stable_pkt fs ps.
Proof.
  intros (fs0 & -> & Hf0 & _ & Hst) E Hf. rewrite <- (frames_unique fs0 fs Hf0 Hf E). exact Hst.
Qed.

(* ------------------------------------------------------------------------------------------------ *)
(* 3. Marshal of decoded packets never panics                                                        *)
(* ------------------------------------------------------------------------------------------------ *)

(* CCFB_marshal_spec up to the largest size whose length field does not wrap (262144 octets, length field 65535):
   a 262140-octet frame can decode to a value of that size (the last report block may reach into the timestamp) *)
Lemma CCFB_marshal_wide p : D_CCFB p = true -> CCFB_size p <= 262144 -> CCFB_marshal p = Ok (enc_CCFB p).
Proof.
  intros HD Hsz. apply D_CCFB_inv in HD as (Hs & Ht & Hb).
  rewrite CCFB_size_blocks in Hsz. pose proof (blocks_len_mod4 (cc_blocks p)) as Hm4.
  unfold CCFB_marshal, CCFB_header. rewrite CCFB_size_blocks. consts. cbn [h_len].
  rewrite Header_marshal_spec by lia. cbn [bind].
  set (S := blocks_len (cc_blocks p)) in *.
  assert (EL : 4 * (u16 ((12 + S) / 4 - 1) + 1) = 4 + (4 + (S + 4))) by (unfold u16; lia).
  rewrite EL. rewrite (zeros_add 4 (4 + (S + 4))).
  rewrite slice_ok by (rewrite ?len_app, ?len_zeros; lia). cbn [bind].
  rewrite copy_at_head' by reflexivity. cbn [bind].
  rewrite (put_be_fr 4 (hdr false 11 205 (u16 ((12 + S) / 4 - 1))) (4 + (S + 4)) (cc_sender p) 4)
    by (first [reflexivity | lia]). cbn [bind].
  replace (4 + (S + 4) - N.of_nat 4) with (S + 4) by lia.
  rewrite put_blocks_spec; [| exact Hb | rewrite len_app, len_be; reflexivity | fold S; lia ].
  cbn [bind]. fold S.
  rewrite put_be_fr; [| rewrite !len_app, len_be, enc_blocks_len; fold S; reflexivity | lia].
  replace (S + 4 - S - N.of_nat 4) with 0 by lia. change (zeros 0) with (@nil byte). rewrite app_nil_r.
  unfold enc_CCFB, frame. rewrite <- !app_assoc. f_equal. f_equal. f_equal.
  rewrite !len_app, !len_be, enc_blocks_len. fold S. cbn [N.of_nat Pos.of_succ_nat Pos.succ]. unfold u16. lia.
Qed.

Lemma CCFB_reencode_no_panic f p : framed16 f -> CCFB_unmarshal f = Ok p -> CCFB_marshal p <> Panic.
Proof.
  intros Hf Hu. destruct (framed16_mod4 f Hf) as [Hm Hl].
  apply CCFB_unmarshal_image in Hu as [HI Hsz].
  pose proof (blocks_len_mod4 (cc_blocks p)) as M4. rewrite CCFB_size_blocks in Hsz.
  assert (Hsize : CCFB_size p <= 262144) by (rewrite CCFB_size_blocks; lia).
  destruct (in_limits (PCCFB p)) eqn:HL.
  - cbn [in_limits] in HL.
    assert (HD : D_CCFB p = true).
    { unfold D_CCFB_img in HI. apply andb_true_iff in HI as [HI HB]. unfold D_CCFB. rewrite HI. cbn [andb].
      apply D_ccblocks_of_img; assumption. }
    rewrite (CCFB_marshal_wide p HD Hsize). discriminate.
  - rewrite (CCFB_limits_nowrap p); [discriminate| |exact HL]. rewrite CCFB_size_blocks. lia.
Qed.

Lemma frame_marshal_no_panic f p : framed16 f -> decode_frame f = Ok p ->
  marshal_packet p <> Panic /\ marshal_packet p <> Fuel.
Proof.
  intros Hf Hd. split; [|apply marshal_packet_nf].
  destruct (framed16_mod4 f Hf) as [Hm4 Hl].
  pose proof Hd as Hd'. apply decode_frame_inv in Hd' as (h & Hh & _ & Hby).
  destruct p as [x|x|x|x|x|x|x|x|x|x|x|x|x|x|b|l]; cbn [decoded_by] in Hby; cbn [marshal_packet];
    try destruct Hby as [_ Hu].
  - apply SR_marshal_no_panic.
  - apply RR_marshal_no_panic.
  - rewrite SDES_marshal_char. destruct (forallb _ _); [|discriminate]. destruct (31 <? _); discriminate.
  - rewrite BYE_marshal_char. destruct (31 <? _); [discriminate|]. destruct (255 <? _); discriminate.
  - rewrite APP_marshal_char. destruct (65523 <? _); [discriminate|]. destruct (negb _); [discriminate|].
    destruct (31 <? _); discriminate.
  - pose proof (NACK_unmarshal_image f x Hu) as (Hs & Hme & H1 & Hdd).
    destruct (N.le_gt_cases (nl (nack_pairs x)) 253) as [Hn|Hn].
    + rewrite (NACK_marshal_spec x (NACK_image_D x Hs Hme H1 Hn Hdd)). discriminate.
    + rewrite NACK_marshal_limit by exact Hn. discriminate.
  - rewrite (RRR_marshal_spec x (RRR_unmarshal_image f x Hu)). discriminate.
  - apply (TWCC_reencode_no_panic f x Hu).
  - apply (CCFB_reencode_no_panic f x Hf Hu).
  - rewrite (PLI_marshal_spec x (PLI_unmarshal_image f x Hu)). discriminate.
  - exfalso. exact (decode_frame_never_sli f x Hd).
  - unfold REMB_marshal. destruct (255 <? _); [discriminate|].
    destruct (remb_enc _) as [[e m]|]; discriminate.
  - pose proof (FIR_unmarshal_image f x Hu) as (_ & _ & Hn & _). rewrite (FIR_marshal_wide x Hn). discriminate.
  - rewrite (XR_reencode_spec f x Hu Hm4). discriminate.
  - discriminate.
  - destruct Hby.
Qed.

Lemma frames_marshal_no_panic : forall fs ps, Forall framed16 fs -> mapM decode_frame fs = Ok ps ->
  Marshal ps <> Panic /\ Marshal ps <> Fuel.
Proof.
  induction fs as [|f fs IH]; intros ps Hf Hm.
  - cbn [mapM] in Hm. injection Hm as <-. cbn [Marshal]. not_panic.
  - apply mapM_cons_ok in Hm as (p & ps0 & Hd & Hm & ->). inversion Hf as [|? ? Hf1 Hf2]; subst.
    destruct (frame_marshal_no_panic f p Hf1 Hd) as [A B]. destruct (IH ps0 Hf2 Hm) as [C D].
    cbn [Marshal]. destruct (marshal_packet p) as [d| | |]; cbn [bind]; try congruence; [|not_panic].
    destruct (Marshal ps0) as [ds| | |]; cbn [bind]; try congruence; not_panic.
Qed.

Theorem datagram_reencode_no_panic b ps : Unmarshal b = Ok ps -> Marshal ps <> Panic /\ Marshal ps <> Fuel.
Proof.
  intros Hu. destruct (Unmarshal_ok_split b ps Hu) as (fs & _ & Hf & _ & Hm).
  exact (frames_marshal_no_panic fs ps Hf Hm).
Qed.

(* ------------------------------------------------------------------------------------------------ *)
(* the side conditions of stable_pkt are needed (frame level witnesses)                              *)
(* ------------------------------------------------------------------------------------------------ *)
Ltac framed16_conc :=
  split; [split; [|split]|]; vm_compute; first [reflexivity | discriminate].

Definition reencode_fails (f : bytes) : Prop :=
  exists p b', framed16 f /\ decode_frame f = Ok p /\ marshal_packet p = Ok b' /\
               ~ (exists p', decode_frame b' = Ok p' /\ framed16 b' /\ pkt_equiv p p').

(* stated over a variable so that checking the statements below does not evaluate the decoder *)
Definition unstable (f : bytes) : Prop := match decode_frame f with Ok p => ~ stable_pkt f p | _ => False end.
Definition ccfb_reencode_overflows (f : bytes) : Prop :=
  match decode_frame f with
  | Ok (PCCFB p) => match CCFB_marshal p with Ok b' => len b' = 262144 /\ Unmarshal b' = Err /\ ~ framed16 b' | _ => False end
  | _ => False
  end.

(* TWCC with an inconsistent header (length field announcing more than the content): the re-encoding no longer decodes *)
Lemma frame_reencode_twcc_refuted : reencode_fails twcc_slack /\ unstable twcc_slack.
Proof.
  split.
  - eexists. eexists. split; [framed16_conc|]. split; [vm_compute; reflexivity|]. split; [vm_compute; reflexivity|].
    intros (p' & Hd & _). vm_compute in Hd. discriminate Hd.
  - vm_compute. intros X. discriminate X.
Qed.

(* REMB, finding F16: mantissa field 0 with exponent field 58: the second decoding yields another bitrate *)
Lemma frame_reencode_remb_refuted : reencode_fails remb_zero_packet /\ unstable remb_zero_packet.
Proof.
  split.
  - eexists. eexists. split; [framed16_conc|]. split; [vm_compute; reflexivity|]. split; [vm_compute; reflexivity|].
    intros (p' & Hd & _ & He). vm_compute in Hd. injection Hd as <-. cbn [pkt_equiv] in He. discriminate He.
  - vm_compute. intros [X|X]; [apply X; reflexivity|discriminate X].
Qed.

(* FIR, finding F20: a 65540-octet frame (length field 16384, which wraps to 0 in the decoder's uint16 arithmetic)
   decodes to a FIR without entries, whose 12-octet re-encoding is rejected *)
Definition fir_wrap_frame : bytes := [n2b 132; n2b 206; n2b 64; x00] ++ zeros 65536.
Lemma frame_reencode_fir_refuted : reencode_fails fir_wrap_frame /\ unstable fir_wrap_frame.
Proof.
  split.
  - eexists. eexists. split; [framed16_conc|]. split; [vm_compute; reflexivity|]. split; [vm_compute; reflexivity|].
    intros (p' & Hd & _). vm_compute in Hd. discriminate Hd.
  - vm_compute. intros X. apply X. reflexivity.
Qed.

(* CCFB: a frame of the maximal size 262140 whose last report block reaches into the timestamp decodes to a value of
   262144 octets; Marshal succeeds (length field 65535), and Unmarshal rejects the result (finding F18) *)
Definition ccfb_blk (nrf pad : N) : bytes := be 4 0 ++ be 2 0 ++ be 2 nrf ++ zeros pad.
Definition ccfb_max_frame : bytes :=
  [n2b 139; n2b 205; n2b 255; n2b 254] ++ be 4 1 ++ List.concat (repeat (ccfb_blk 16383 32768) 7) ++ ccfb_blk 16345 32692.
Lemma frame_reencode_ccfb_refuted : framed16 ccfb_max_frame /\ len ccfb_max_frame = 262140 /\
  ccfb_reencode_overflows ccfb_max_frame.
Proof.
  split; [framed16_conc|]. split; [vm_compute; reflexivity|].
  vm_compute. split; [reflexivity|]. split; [reflexivity|]. intros [_ X]. discriminate X.
Qed.

(* ------------------------------------------------------------------------------------------------ *)
Print Assumptions decode_frame_never_sli.
Print Assumptions frame_reencode.
Print Assumptions datagram_reencode.
Print Assumptions datagram_reencode_split.
Print Assumptions stable_dgram_unique.
Print Assumptions frame_marshal_no_panic.
Print Assumptions datagram_reencode_no_panic.
Print Assumptions frame_reencode_twcc_refuted.
Print Assumptions frame_reencode_remb_refuted.
Print Assumptions frame_reencode_fir_refuted.
Print Assumptions frame_reencode_ccfb_refuted.
