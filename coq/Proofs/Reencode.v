(* C09: re-encoding a decoded datagram is stable.
   1. per frame   (frame_reencode, one lemma per packet type)
   2. per datagram (datagram_reencode)
   3. Marshal of decoded packets never panics (datagram_reencode_no_panic) *)
From RTCP Require Import Proofs.Tactics Lib.Reflect
  Model.Header Model.Reports Model.Sdes Model.ByeApp Model.Feedback Model.Twcc Model.Ccfb Model.Remb Model.Xr Model.Packet
  Spec.Enc Spec.XrSpec Spec.Laws
  Proofs.HeaderProofs Proofs.Total1 Proofs.Total2 Proofs.Dgram Proofs.EncFeedback Proofs.EncReports Proofs.EncSdesByeApp
  Proofs.EncTwcc Proofs.EncXr Proofs.XrRead Proofs.EncCcfbRemb Proofs.Guards Proofs.Assemble Proofs.Units
  Proofs.PacketLevel Proofs.Image1 Proofs.Image2 Proofs.Image3.
Local Open Scope N_scope.

(* ------------------------------------------------------------------------------------------------ *)
(* definitions                                                                                       *)
(* ------------------------------------------------------------------------------------------------ *)

(* the side condition under which re-encoding the packet p decoded from the frame f is stable *)
Definition stable_pkt (f : bytes) (p : packet) : Prop :=
  match p with
  | PTWCC t => twcc_hdr_consistent t = true
  | PREMB _ => remb_mant_field f <> 0 \/ remb_exp_field f < 58            (* finding F16 *)
  | PFIR x => 1 <= nl (fir_entries x)                                      (* finding F20 *)
  | PCCFB _ => len f <= 262137
  | _ => True
  end.

(* equality, except for ExtendedReport: same sender, same typed blocks, same canonical form *)
Definition pkt_equiv (p p' : packet) : Prop :=
  match p with
  | PXR x => exists x', p' = PXR x' /\ xr_sender x' = xr_sender x /\
                        map abs_block (xr_blocks x') = map abs_block (xr_blocks x) /\ canon p' = canon p
  | _ => p' = p
  end.

Lemma pkt_equiv_canon p p' : pkt_equiv p p' -> canon p' = canon p.
Proof.
  destruct p; cbn [pkt_equiv]; try (intros ->; reflexivity).
  intros (x' & _ & _ & _ & H). exact H.
Qed.

Lemma pkt_equiv_eq p p' : (forall x, p <> PXR x) -> pkt_equiv p p' -> p' = p.
Proof. destruct p; cbn [pkt_equiv]; intros Hx H; try exact H. exfalso. apply (Hx x). reflexivity. Qed.

(* ------------------------------------------------------------------------------------------------ *)
(* inversion of decode_frame                                                                         *)
(* ------------------------------------------------------------------------------------------------ *)
Lemma res_map_ok {A B} (f : A -> B) r y : res_map f r = Ok y -> exists x, r = Ok x /\ y = f x.
Proof. destruct r; cbn [res_map]; intros E; try discriminate E. injection E as <-. eauto. Qed.

Definition decoded_by (t : tag) (f : bytes) (p : packet) : Prop :=
  match p with
  | PSR x => t = TSR /\ SR_unmarshal f = Ok x | PRR x => t = TRR /\ RR_unmarshal f = Ok x
  | PSDES x => t = TSDES /\ SDES_unmarshal f = Ok x | PBYE x => t = TBYE /\ BYE_unmarshal f = Ok x
  | PAPP x => t = TAPP /\ APP_unmarshal f = Ok x | PNACK x => t = TNACK /\ NACK_unmarshal f = Ok x
  | PRRR x => t = TRRR /\ RRR_unmarshal f = Ok x | PTWCC x => t = TTWCC /\ TWCC_unmarshal f = Ok x
  | PCCFB x => t = TCCFB /\ CCFB_unmarshal f = Ok x | PPLI x => t = TPLI /\ PLI_unmarshal f = Ok x
  | PSLI x => t = TSLI /\ SLI_unmarshal f = Ok x | PREMB x => t = TREMB /\ REMB_unmarshal f = Ok x
  | PFIR x => t = TFIR /\ FIR_unmarshal f = Ok x | PXR x => t = TXR /\ XR_unmarshal f = Ok x
  | PRaw b => t = TRaw /\ Raw_unmarshal f = Ok b
  | PCompound _ => False
  end.

Lemma decode_as_inv t f p : decode_as t f = Ok p -> decoded_by t f p.
Proof.
  destruct t; cbn [decode_as]; intros H; try discriminate H;
    apply res_map_ok in H as (x & Hx & ->); cbn [decoded_by]; auto.
Qed.

Lemma decode_frame_inv f p : decode_frame f = Ok p ->
  exists h, Header_unmarshal f = Ok h /\ decode_as (dispatch (h_type h) (h_count h)) f = Ok p /\
            decoded_by (dispatch (h_type h) (h_count h)) f p.
Proof.
  unfold decode_frame. destruct (Header_unmarshal f) as [h| | |] eqn:Hh; cbn [bind]; try discriminate.
  intros H. exists h. split; [reflexivity|]. split; [exact H|]. apply decode_as_inv, H.
Qed.

Lemma framed16_mod4 f : framed16 f -> len f mod 4 = 0 /\ len f <= 262140.
Proof. intros [(H4 & _ & Hn) Hl]. lia. Qed.

(* SLI (finding F5): the registry sends 206/2 to the SLI decoder, which insists on 205/2: nothing decodes to an SLI *)
Lemma decode_frame_never_sli f x : decode_frame f <> Ok (PSLI x).
Proof.
  intros H. apply decode_frame_inv in H as (h & Hh & Hd & Ht & _).
  rewrite dispatch_table_all in Ht.
  pose proof (SLI_rejects_registered f h Hh Ht) as E. rewrite dispatch_table_all, Ht, E in Hd. discriminate Hd.
Qed.

Lemma decode_frame_never_compound f l : decode_frame f <> Ok (PCompound l).
Proof. intros H. apply decode_frame_inv in H as (h & _ & _ & []). Qed.

(* ------------------------------------------------------------------------------------------------ *)
(* generic re-encoding steps                                                                         *)
(* ------------------------------------------------------------------------------------------------ *)

(* a covered packet in its domain whose own decoder returns it from whatever Marshal produces *)
Lemma reenc_supported p : supported p = true -> in_D p = true -> len (enc_spec p) < 262144 ->
  (forall b', marshal_packet p = Ok b' -> decode_as (tag_of_packet p) b' = Ok p) ->
  forall b', marshal_packet p = Ok b' -> decode_frame b' = Ok p /\ framed16 b'.
Proof.
  intros Hs HD Hl Hdec b' Hm. pose proof (Hdec b' Hm) as Hd.
  rewrite (marshal_is_rfc p Hs HD) in Hm. injection Hm as <-.
  destruct (enc_framed p Hs HD Hl) as (F & h & _ & _ & _ & _ & E). split; [|exact F]. rewrite E. exact Hd.
Qed.

(* an RFC frame with a registered (PT, count) *)
Lemma reenc_frame pd c t body p : c < 32 -> t < 256 -> len body mod 4 = 0 -> 4 + len body < 262144 ->
  decode_as (registry t c) (frame pd c t body) = Ok p ->
  decode_frame (frame pd c t body) = Ok p /\ framed16 (frame pd c t body).
Proof.
  intros Hc Ht Hm Hl Hd. split; [rewrite frame_decode by assumption; exact Hd|]. apply frame_framed16; assumption.
Qed.

(* ------------------------------------------------------------------------------------------------ *)
(* SR, RR, SDES, BYE, APP                                                                            *)
(* ------------------------------------------------------------------------------------------------ *)
Lemma SR_frame_reencode f s : framed16 f -> SR_unmarshal f = Ok s ->
  forall b', SR_marshal s = Ok b' -> decode_frame b' = Ok (PSR s) /\ framed16 b'.
Proof.
  intros Hf Hu. destruct (framed16_mod4 f Hf) as [Hm Hl].
  pose proof (SR_unmarshal_image f s Hu Hm) as HD.
  apply (reenc_supported (PSR s)); [reflexivity|exact HD| |].
  - cbn [enc_spec]. destruct (SR_size_spec s HD) as [E _]. rewrite E.
    apply SR_unmarshal_alloc_N in Hu. destruct (D_SR_bounds s HD) as (_ & _ & _ & _ & _ & _ & _ & He).
    unfold SR_size. consts. unfold get_padding. rewrite He. cbn [N.eqb]. lia.
  - intros b' Hm'. cbn [marshal_packet tag_of_packet decode_as] in *.
    rewrite (SR_dec_enc_dec f s Hu Hm b' Hm'). reflexivity.
Qed.
