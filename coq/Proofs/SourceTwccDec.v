(* SourceEquiv, part 2, group B9: transport_layer_cc.go, the decoder TransportLayerCC.Unmarshal.
   The function translated from the Go source (Gen/Funcs.v, module GoSrc) computes what TWCC_unmarshal of Model/Twcc.v
   computes, on every outcome (Ok / Err / Panic; Fuel never arises on either side). *)
From RTCP Require Import Proofs.Tactics Lib.GoSem Gen.Funcs Proofs.GoSemFacts
  Model.Header Model.Reports Model.Twcc Proofs.HeaderProofs Proofs.SourceEquiv Proofs.SrcConv Proofs.SourceCcfb.
Local Open Scope Z_scope.

(* ================================================================================================ *)
Section MoreGoSemFacts.
(* ================================================================================================ *)

Lemma skipn_nth_cons {A} (d : A) : forall n (l : list A), (n < length l)%nat -> skipn n l = nth n l d :: skipn (S n) l.
Proof.
  induction n as [|n IH]; intros l H; destruct l as [|x l]; cbn [length] in H; try lia; [reflexivity|].
  cbn [skipn nth]. rewrite IH by lia. reflexivity.
Qed.

Lemma filter_map_comm {A B} (f : A -> B) (p : B -> bool) : forall l, filter p (map f l) = map f (filter (fun x => p (f x)) l).
Proof.
  induction l as [|x l IH]; cbn [map filter]; [reflexivity|]. destruct (p (f x)); cbn [map]; rewrite IH; reflexivity.
Qed.

Lemma filter_ext' {A} (p q : A -> bool) : (forall x, p x = q x) -> forall l, filter p l = filter q l.
Proof. intros H. induction l as [|x l IH]; cbn [filter]; [reflexivity|]. rewrite H, IH. reflexivity. Qed.

Lemma map_repeat' {A B} (f : A -> B) x : forall n, map f (repeat x n) = repeat (f x) n.
Proof. induction n as [|n IH]; cbn [repeat map]; [reflexivity|]. rewrite IH. reflexivity. Qed.

Lemma repeat_snoc {A} (x : A) : forall n, repeat x n ++ [x] = x :: repeat x n.
Proof. induction n as [|n IH]; cbn [repeat app]; [reflexivity|]. rewrite IH. reflexivity. Qed.

(* b[pos:pos+k] when the window rawPacket[pos:] is known *)
Lemma gslice_window raw pos hi k rest : skipn (N.to_nat pos) raw = rest -> (1 <= k <= length rest)%nat ->
  hi = Z.of_N pos + Z.of_nat k -> gslice raw (Z.of_N pos) hi = Ok (firstn k rest).
Proof.
  intros Hs Hk ->. pose proof (f_equal (@length _) Hs) as L. rewrite skipn_length in L.
  rewrite gslice_ok by (unfold glen; lia).
  replace (Z.to_nat (Z.of_N pos + Z.of_nat k - Z.of_N pos)) with k by lia.
  replace (Z.to_nat (Z.of_N pos)) with (N.to_nat pos) by lia. rewrite Hs. reflexivity.
Qed.

Lemma skipn_window_step {A} (raw : list A) pos k rest rest' pre : skipn (N.to_nat pos) raw = rest ->
  rest = pre ++ rest' -> length pre = k -> skipn (N.to_nat (pos + N.of_nat k)) raw = rest'.
Proof.
  intros Hs Hr Hk. replace (N.to_nat (pos + N.of_nat k)) with (N.to_nat pos + k)%nat by lia.
  rewrite <- skipn_skipn_add, Hs, Hr. subst k. rewrite skipn_app, skipn_all, Nat.sub_diag. reflexivity.
Qed.

Lemma localMin_N a b : GoSrc.localMin (Z.of_N a) (Z.of_N b) = Z.of_N (N.min a b).
Proof. unfold GoSrc.localMin. destruct (Z.ltb_spec (Z.of_N a) (Z.of_N b)); lia. Qed.

End MoreGoSemFacts.

Ltac twcc_fields :=
  cbv [GoSrc.set_TransportLayerCC_Header GoSrc.set_TransportLayerCC_SenderSSRC GoSrc.set_TransportLayerCC_MediaSSRC
       GoSrc.set_TransportLayerCC_BaseSequenceNumber GoSrc.set_TransportLayerCC_PacketStatusCount
       GoSrc.set_TransportLayerCC_ReferenceTime GoSrc.set_TransportLayerCC_FbPktCount
       GoSrc.set_TransportLayerCC_PacketChunks GoSrc.set_TransportLayerCC_RecvDeltas
       GoSrc.TransportLayerCC_Header GoSrc.TransportLayerCC_SenderSSRC GoSrc.TransportLayerCC_MediaSSRC
       GoSrc.TransportLayerCC_BaseSequenceNumber GoSrc.TransportLayerCC_PacketStatusCount
       GoSrc.TransportLayerCC_ReferenceTime GoSrc.TransportLayerCC_FbPktCount
       GoSrc.TransportLayerCC_PacketChunks GoSrc.TransportLayerCC_RecvDeltas].

Ltac twcc_cbn :=
  cbn [GoSrc.set_TransportLayerCC_Header GoSrc.set_TransportLayerCC_SenderSSRC GoSrc.set_TransportLayerCC_MediaSSRC
       GoSrc.set_TransportLayerCC_BaseSequenceNumber GoSrc.set_TransportLayerCC_PacketStatusCount
       GoSrc.set_TransportLayerCC_ReferenceTime GoSrc.set_TransportLayerCC_FbPktCount
       GoSrc.set_TransportLayerCC_PacketChunks GoSrc.set_TransportLayerCC_RecvDeltas
       GoSrc.TransportLayerCC_Header GoSrc.TransportLayerCC_SenderSSRC GoSrc.TransportLayerCC_MediaSSRC
       GoSrc.TransportLayerCC_BaseSequenceNumber GoSrc.TransportLayerCC_PacketStatusCount
       GoSrc.TransportLayerCC_ReferenceTime GoSrc.TransportLayerCC_FbPktCount
       GoSrc.TransportLayerCC_PacketChunks GoSrc.TransportLayerCC_RecvDeltas].

(* the entry the status loops append for an announced delta of type [ty] (Delta is filled in by the delta loop) *)
Definition mkd (ty : N) : GoSrc.RecvDelta := GoSrc.mkRecvDelta (Z.of_N ty) 0.
Definition mkdz (ty : Z) : GoSrc.RecvDelta := GoSrc.mkRecvDelta ty 0.
Definition add_deltas (l : list GoSrc.RecvDelta) (t : GoSrc.TransportLayerCC) : GoSrc.TransportLayerCC :=
  GoSrc.set_TransportLayerCC_RecvDeltas (GoSrc.TransportLayerCC_RecvDeltas t ++ l) t.

Lemma add_deltas_add a l t : add_deltas l (add_deltas [a] t) = add_deltas (a :: l) t.
Proof. destruct t. unfold add_deltas. twcc_fields. rewrite <- app_assoc. reflexivity. Qed.
Lemma add_deltas_nil t : add_deltas [] t = t.
Proof. destruct t. unfold add_deltas. twcc_fields. rewrite app_nil_r. reflexivity. Qed.

(* ================================================================================================ *)
(* (1) the four inner loops (direct style): they append and exit normally                            *)
(* ================================================================================================ *)
(* run-length chunk: [k] more entries of the chunk's symbol *)
Lemma loop3_spec : forall k fuel j n psp ps ppn raw t total typ,
  0 <= j -> j + Z.of_nat k = n -> n < 65536 -> (k < fuel)%nat ->
  GoSrc.TransportLayerCC_Unmarshal_loop3 fuel j n psp ps ppn raw t total typ =
  Ok (inl (n, n, psp, ps, ppn, raw,
           add_deltas (repeat (mkdz (GoSrc.RunLengthChunk_PacketStatusSymbol ps)) k) t, total, typ)).
Proof.
  induction k as [|k IH]; intros fuel j n psp ps ppn raw t total typ Hj Hn Hb Hf;
    (destruct fuel as [|fuel]; [lia|]); cbn [GoSrc.TransportLayerCC_Unmarshal_loop3].
  - destruct (Z.ltb_spec j n); [lia|]. cbn [repeat]. rewrite add_deltas_nil. replace j with n by lia. reflexivity.
  - destruct (Z.ltb_spec j n); [|lia]. cbv zeta.
    rewrite (uwrap_small 16 (j + 1)) by (change (2 ^ 16) with 65536; lia).
    fold (mkdz (GoSrc.RunLengthChunk_PacketStatusSymbol ps)).
    fold (add_deltas [mkdz (GoSrc.RunLengthChunk_PacketStatusSymbol ps)] t).
    rewrite (IH fuel) by lia. rewrite add_deltas_add. reflexivity.
Qed.

(* status vector chunk, one-bit symbols: an entry per symbol equal to 1 *)
Lemma loop4_spec : forall k fuel j psp ps ppn raw t total typ,
  0 <= j -> j + Z.of_nat k = glenl (GoSrc.StatusVectorChunk_SymbolList ps) -> (k < fuel)%nat ->
  GoSrc.TransportLayerCC_Unmarshal_loop4 fuel j psp ps ppn raw t total typ =
  Ok (inl (glenl (GoSrc.StatusVectorChunk_SymbolList ps), psp, ps, ppn, raw,
           add_deltas (map mkdz (filter (fun s => s =? 1) (skipn (Z.to_nat j) (GoSrc.StatusVectorChunk_SymbolList ps)))) t,
           total, typ)).
Proof.
  induction k as [|k IH]; intros fuel j psp ps ppn raw t total typ Hj Hn Hf;
    (destruct fuel as [|fuel]; [lia|]); cbn [GoSrc.TransportLayerCC_Unmarshal_loop4];
    remember (GoSrc.StatusVectorChunk_SymbolList ps) as l eqn:El.
  - destruct (Z.ltb_spec j (glenl l)); [lia|]. rewrite skipn_all2 by (unfold glenl in *; lia).
    cbn [filter map]. rewrite add_deltas_nil. replace j with (glenl l) by lia. reflexivity.
  - destruct (Z.ltb_spec j (glenl l)); [|lia].
    rewrite (gnth_ok 0) by lia. cbn [bind].
    rewrite (skipn_nth_cons 0 (Z.to_nat j) l) by (unfold glenl in *; lia). cbn [filter].
    replace (S (Z.to_nat j)) with (Z.to_nat (j + 1)) by lia.
    destruct (Z.eqb_spec (nth (Z.to_nat j) l 0) 1) as [E|E]; cbv zeta.
    + fold (mkdz 1). fold (add_deltas [mkdz 1] t). rewrite (IH fuel) by (rewrite <- ?El; lia). rewrite <- ?El.
      rewrite add_deltas_add. cbn [map]. rewrite E. reflexivity.
    + rewrite (IH fuel) by (rewrite <- ?El; lia). rewrite <- ?El. reflexivity.
Qed.

(* two-bit symbols: an entry per symbol equal to 1 or 2, carrying that symbol (two copies of the loop in the generated text) *)
Lemma loop6_spec : forall k fuel j psp ps ppn raw t total typ,
  0 <= j -> j + Z.of_nat k = glenl (GoSrc.StatusVectorChunk_SymbolList ps) -> (k < fuel)%nat ->
  GoSrc.TransportLayerCC_Unmarshal_loop6 fuel j psp ps ppn raw t total typ =
  Ok (inl (glenl (GoSrc.StatusVectorChunk_SymbolList ps), psp, ps, ppn, raw,
           add_deltas (map mkdz (filter (fun s => (s =? 1) || (s =? 2)) (skipn (Z.to_nat j) (GoSrc.StatusVectorChunk_SymbolList ps)))) t,
           total, typ)).
Proof.
  induction k as [|k IH]; intros fuel j psp ps ppn raw t total typ Hj Hn Hf;
    (destruct fuel as [|fuel]; [lia|]); cbn [GoSrc.TransportLayerCC_Unmarshal_loop6];
    remember (GoSrc.StatusVectorChunk_SymbolList ps) as l eqn:El.
  - destruct (Z.ltb_spec j (glenl l)); [lia|]. rewrite skipn_all2 by (unfold glenl in *; lia).
    cbn [filter map]. rewrite add_deltas_nil. replace j with (glenl l) by lia. reflexivity.
  - destruct (Z.ltb_spec j (glenl l)); [|lia].
    rewrite (gnth_ok 0) by lia. cbn [bind].
    rewrite (skipn_nth_cons 0 (Z.to_nat j) l) by (unfold glenl in *; lia). cbn [filter].
    replace (S (Z.to_nat j)) with (Z.to_nat (j + 1)) by lia.
    set (s := nth (Z.to_nat j) l 0).
    destruct (s =? 1); cbn [bind orb]; cbv zeta.
    + fold (mkdz s). fold (add_deltas [mkdz s] t). rewrite (IH fuel) by (rewrite <- ?El; lia). rewrite <- ?El.
      rewrite add_deltas_add. reflexivity.
    + destruct (s =? 2).
      * fold (mkdz s). fold (add_deltas [mkdz s] t). rewrite (IH fuel) by (rewrite <- ?El; lia). rewrite <- ?El.
        rewrite add_deltas_add. reflexivity.
      * rewrite (IH fuel) by (rewrite <- ?El; lia). rewrite <- ?El. reflexivity.
Qed.

Lemma loop5_spec : forall k fuel j0 j psp ps ppn raw t total typ,
  0 <= j -> j + Z.of_nat k = glenl (GoSrc.StatusVectorChunk_SymbolList ps) -> (k < fuel)%nat ->
  GoSrc.TransportLayerCC_Unmarshal_loop5 fuel j0 j psp ps ppn raw t total typ =
  Ok (inl (j0, glenl (GoSrc.StatusVectorChunk_SymbolList ps), psp, ps, ppn, raw,
           add_deltas (map mkdz (filter (fun s => (s =? 1) || (s =? 2)) (skipn (Z.to_nat j) (GoSrc.StatusVectorChunk_SymbolList ps)))) t,
           total, typ)).
Proof.
  induction k as [|k IH]; intros fuel j0 j psp ps ppn raw t total typ Hj Hn Hf;
    (destruct fuel as [|fuel]; [lia|]); cbn [GoSrc.TransportLayerCC_Unmarshal_loop5];
    remember (GoSrc.StatusVectorChunk_SymbolList ps) as l eqn:El.
  - destruct (Z.ltb_spec j (glenl l)); [lia|]. rewrite skipn_all2 by (unfold glenl in *; lia).
    cbn [filter map]. rewrite add_deltas_nil. replace j with (glenl l) by lia. reflexivity.
  - destruct (Z.ltb_spec j (glenl l)); [|lia].
    rewrite (gnth_ok 0) by lia. cbn [bind].
    rewrite (skipn_nth_cons 0 (Z.to_nat j) l) by (unfold glenl in *; lia). cbn [filter].
    replace (S (Z.to_nat j)) with (Z.to_nat (j + 1)) by lia.
    set (s := nth (Z.to_nat j) l 0).
    destruct (s =? 1); cbn [bind orb]; cbv zeta.
    + fold (mkdz s). fold (add_deltas [mkdz s] t). rewrite (IH fuel) by (rewrite <- ?El; lia). rewrite <- ?El.
      rewrite add_deltas_add. reflexivity.
    + destruct (s =? 2).
      * fold (mkdz s). fold (add_deltas [mkdz s] t). rewrite (IH fuel) by (rewrite <- ?El; lia). rewrite <- ?El.
        rewrite add_deltas_add. reflexivity.
      * rewrite (IH fuel) by (rewrite <- ?El; lia). rewrite <- ?El. reflexivity.
Qed.

(* ================================================================================================ *)
(* (3) the delta loop against delta_pass                                                             *)
(* ================================================================================================ *)
Lemma RecvDelta_unmarshal_small b0 : exists D, RecvDelta_unmarshal [b0] = Ok {| rd_type := 1; rd_delta := D |}.
Proof. eexists. reflexivity. Qed.
Lemma RecvDelta_unmarshal_large b0 b1 : exists D, RecvDelta_unmarshal [b0; b1] = Ok {| rd_type := 2; rd_delta := D |}.
Proof. eexists. reflexivity. Qed.

Lemma u16_small' x : (x < 65536)%N -> u16 x = x.
Proof. intros. unfold u16. apply N.mod_small. assumption. Qed.

Lemma loop2_spec : forall raw total hdr s m b cnt rt fb chs psp ppn dts done pos rest idx,
  (total <= 65532)%N -> (pos <= total)%N -> (total <= len raw)%N -> skipn (N.to_nat pos) raw = rest ->
  idx = Z.of_nat (length done) ->
  GoSrc.TransportLayerCC_Unmarshal_loop2 (map mkd dts) idx psp ppn raw (Z.of_N pos)
    (GoSrc.mkTransportLayerCC hdr s m b cnt rt fb chs (done ++ map mkd dts)) (Z.of_N total)
  = res_map (fun ds => GoSrc.mkTransportLayerCC hdr s m b cnt rt fb chs (done ++ map src_delta ds))
      (delta_pass rest total pos dts).
Proof.
  intros raw total hdr s m b cnt rt fb chs psp ppn dts.
  induction dts as [|t dts IH]; intros done pos rest idx Ht Hp Hl Hs Hi;
    cbn [map GoSrc.TransportLayerCC_Unmarshal_loop2 delta_pass].
  - reflexivity.
  - cbv zeta. change (GoSrc.RecvDelta_Type (mkd t)) with (Z.of_N t). consts. rewrite !Zeqb_N_r.
    pose proof (f_equal (@length _) Hs) as L. rewrite skipn_length in L. pose proof Hl as Hl'. unfold len in Hl'.
    destruct (N.eqb_spec t 1) as [E1|E1].
    + rewrite (uwrap_small 16 (Z.of_N pos + 1)) by (change (2 ^ 16) with 65536; lia).
      rewrite (u16_small' (pos + 1)) by lia.
      replace (Z.of_N pos + 1) with (Z.of_N (pos + 1)) by lia. rewrite Zltb_N.
      destruct (N.ltb_spec total (pos + 1)) as [Hr|Hr]; [reflexivity|].
      destruct rest as [|b0 rest']; [cbn [length] in L; lia|].
      rewrite (gslice_window raw pos _ 1 (b0 :: rest')) by (cbn [length]; try assumption; lia).
      cbn [firstn bind]. rewrite src_RecvDelta_Unmarshal.
      destruct (RecvDelta_unmarshal_small b0) as [D ->]. cbn [res_map bind].
      change (GoSrc.RecvDelta_Type (src_delta {| rd_type := 1; rd_delta := D |}) =? 2) with false. cbv iota.
      twcc_fields. rewrite gupdl_app by exact Hi. cbn [bind].
      replace (done ++ src_delta {| rd_type := 1; rd_delta := D |} :: map mkd dts)
        with ((done ++ [src_delta {| rd_type := 1; rd_delta := D |}]) ++ map mkd dts) by (rewrite <- app_assoc; reflexivity).
      assert (Hs' : skipn (N.to_nat (pos + N.of_nat 1)) raw = rest')
        by (apply (skipn_window_step raw pos 1 (b0 :: rest') rest' [b0]); [assumption|reflexivity|reflexivity]).
      rewrite (IH (done ++ [src_delta {| rd_type := 1; rd_delta := D |}]) (pos + 1)%N rest' (idx + 1) Ht ltac:(lia) Hl Hs' ltac:(rewrite app_length; cbn [length]; lia)).
      destruct (delta_pass rest' total (pos + 1) dts) as [ds| | |]; cbn [bind res_map]; try reflexivity.
      rewrite <- app_assoc. reflexivity.
    + destruct (N.eqb_spec t 2) as [E2|E2].
      * rewrite (uwrap_small 16 (Z.of_N pos + 2)) by (change (2 ^ 16) with 65536; lia).
        rewrite (u16_small' (pos + 2)) by lia.
        replace (Z.of_N pos + 2) with (Z.of_N (pos + 2)) by lia. rewrite Zltb_N.
        destruct (N.ltb_spec total (pos + 2)) as [Hr|Hr]; [reflexivity|].
        destruct rest as [|b0 [|b1 rest']]; [cbn [length] in L; lia|cbn [length] in L; lia|].
        rewrite (gslice_window raw pos _ 2 (b0 :: b1 :: rest')) by (cbn [length]; try assumption; lia).
        cbn [firstn bind]. rewrite src_RecvDelta_Unmarshal.
        destruct (RecvDelta_unmarshal_large b0 b1) as [D ->]. cbn [res_map bind].
        twcc_fields. rewrite gupdl_app by exact Hi. cbn [bind].
        replace (done ++ src_delta {| rd_type := 2; rd_delta := D |} :: map mkd dts)
          with ((done ++ [src_delta {| rd_type := 2; rd_delta := D |}]) ++ map mkd dts) by (rewrite <- app_assoc; reflexivity).
        assert (Hs' : skipn (N.to_nat (pos + N.of_nat 2)) raw = rest')
          by (apply (skipn_window_step raw pos 2 (b0 :: b1 :: rest') rest' [b0; b1]); [assumption|reflexivity|reflexivity]).
        rewrite (IH (done ++ [src_delta {| rd_type := 2; rd_delta := D |}]) (pos + 2)%N rest' (idx + 1) Ht ltac:(lia) Hl Hs' ltac:(rewrite app_length; cbn [length]; lia)).
        destruct (delta_pass rest' total (pos + 2) dts) as [ds| | |]; cbn [bind res_map]; try reflexivity.
        rewrite <- app_assoc. reflexivity.
      * twcc_fields. rewrite gupdl_app by exact Hi. cbn [bind].
        replace (done ++ mkd t :: map mkd dts) with ((done ++ [mkd t]) ++ map mkd dts) by (rewrite <- app_assoc; reflexivity).
        rewrite (IH (done ++ [mkd t]) pos rest (idx + 1) Ht Hp Hl Hs ltac:(rewrite app_length; cbn [length]; lia)).
        destruct (delta_pass rest total pos dts) as [ds| | |]; cbn [bind res_map]; try reflexivity.
        rewrite <- app_assoc. reflexivity.
Qed.

(* ================================================================================================ *)
(* (2) the status-chunk loop against status_loop, with the delta loop as its exit                    *)
(* ================================================================================================ *)
Lemma RLC_unmarshal_two b0 b1 : RLC_unmarshal [b0; b1] = Ok (rlc_of_bytes (b2n b0) (b2n b1)).
Proof. reflexivity. Qed.
Lemma SVC_unmarshal_two b0 b1 : SVC_unmarshal [b0; b1] = Ok (svc_of_bytes (b2n b0) (b2n b1)).
Proof. reflexivity. Qed.
Lemma svc_of_bytes_SVC x y : exists ss syms, svc_of_bytes x y = SVC c_TypeTCCStatusVectorChunk ss syms.
Proof. unfold svc_of_bytes. cbv zeta. destruct (_ =? _)%N; [eauto|]. destruct (_ =? _)%N; eauto. Qed.
Lemma typ_01 : forall x, (x < 256)%N -> getNBitsFromByte x 0 1 = 0%N \/ getNBitsFromByte x 0 1 = 1%N.
Proof.
  intros x Hx.
  assert (K : forall x, (x < 256)%N -> (getNBitsFromByte x 0 1 <? 2)%N = true) by sweep.
  specialize (K x Hx). apply N.ltb_lt in K. lia.
Qed.

(* what happens once the status loop has returned: the delta pass over the announced types, then the record *)
Definition finish hdr s m b (count : N) rt fb chs dts0 total (x : list TChunk * list N * N * bytes)
  : res GoSrc.TransportLayerCC :=
  let '(cs, ds, p, r) := x in
  res_map (fun deltas => GoSrc.mkTransportLayerCC hdr s m b (Z.of_N count) rt fb (chs ++ map src_tchunk cs) (map src_delta deltas))
          (delta_pass r total p (dts0 ++ ds)).

Lemma finish_step hdr s m b count rt fb chs dts0 total X c dts :
  bind (bind X (fun '(cs, ds, p, r) => Ok (c :: cs, dts ++ ds, p, r))) (finish hdr s m b count rt fb chs dts0 total)
  = bind X (finish hdr s m b count rt fb (chs ++ [src_tchunk c]) (dts0 ++ dts) total).
Proof.
  destruct X as [[[[cs ds] p] r]| | |]; cbn [bind finish]; try reflexivity.
  cbn [map]. rewrite <- !app_assoc. reflexivity.
Qed.

Lemma loop1_spec : forall raw total count hdr s m b rt fb f1 f2 pos processed rest chs dts0,
  (total <= 65532)%N -> (pos <= total)%N -> (total <= len raw)%N -> skipn (N.to_nat pos) raw = rest ->
  (count < 65536)%N -> (processed < 65536)%N ->
  (N.to_nat (total - pos) / 2 < f1)%nat -> (N.to_nat (total - pos) / 2 < f2)%nat ->
  GoSrc.TransportLayerCC_Unmarshal_loop1 f1 (Z.of_N pos) (Z.of_N processed) raw
    (GoSrc.mkTransportLayerCC hdr s m b (Z.of_N count) rt fb chs (map mkd dts0)) (Z.of_N total)
  = bind (status_loop f2 rest total count pos processed) (finish hdr s m b count rt fb chs dts0 total).
Proof.
  intros raw total count hdr s m b rt fb.
  induction f1 as [|f1 IH]; intros f2 pos processed rest chs dts0 Ht Hp Hl Hs Hc Hpr Hf1 Hf2; [lia|].
  destruct f2 as [|f2]; [lia|].
  cbn [GoSrc.TransportLayerCC_Unmarshal_loop1 status_loop]. twcc_cbn.
  rewrite Zltb_N. destruct (N.ltb_spec processed count) as [Hpc|Hpc].
  2: { unfold GoSrc.TransportLayerCC_Unmarshal_after1. twcc_fields. cbn [bind finish map]. rewrite !app_nil_r.
       apply (loop2_spec raw total hdr s m b (Z.of_N count) rt fb chs (Z.of_N pos) (Z.of_N processed) dts0 [] pos rest 0);
         try assumption. reflexivity. }
  consts.
  assert (Epos2 : uwrap 16 (Z.of_N pos + 2) = Z.of_N (pos + 2)) by (rewrite uwrap_small; [lia|change (2 ^ 16) with 65536; lia]).
  rewrite !Epos2.
  replace (uwrap 16 (Z.of_N pos + 1)) with (Z.of_N (pos + 1)) by (rewrite uwrap_small; [lia|change (2 ^ 16) with 65536; lia]).
  rewrite (u16_small' (pos + 2)) by lia.
  rewrite Zltb_N. destruct (N.ltb_spec total (pos + 2)) as [Hr|Hr]; [reflexivity|].
  pose proof (f_equal (@length _) Hs) as L. rewrite skipn_length in L. pose proof Hl as Hl'. unfold len in Hl'.
  destruct rest as [|b0 [|b1 rest']]; [cbn [length] in L; lia|cbn [length] in L; lia|].
  rewrite (gslice_window raw pos _ 1 (b0 :: b1 :: rest')) by (cbn [length]; try assumption; lia).
  rewrite (gslice_window raw pos _ 2 (b0 :: b1 :: rest')) by (cbn [length]; try assumption; lia).
  cbn [firstn bind].
  rewrite (gidx_ok [b0] 0) by (unfold glen; cbn [length]; lia). change (Z.to_nat 0) with O. cbn [nth bind].
  assert (Etyp : GoSrc.getNBitsFromByte (Z.of_N (b2n b0)) 0 1 = Z.of_N (getNBitsFromByte (b2n b0) 0 1))
    by (apply (src_getNBitsFromByte (b2n b0) 0 1); [apply b2n_lt|lia]).
  rewrite Etyp. clear Etyp.
  assert (Hs' : skipn (N.to_nat (pos + 2)) raw = rest')
    by (apply (skipn_window_step raw pos 2 (b0 :: b1 :: rest') rest' [b0; b1]); [assumption|reflexivity|reflexivity]).
  assert (Hf1' : (N.to_nat (total - (pos + 2)) / 2 < f1)%nat) by lia.
  assert (Hf2' : (N.to_nat (total - (pos + 2)) / 2 < f2)%nat) by lia.
  assert (Hp' : (pos + 2 <= total)%N) by lia.
  destruct (typ_01 (b2n b0) (b2n_lt b0)) as [E|E]; rewrite E.
  - (* run-length chunk *)
    change (Z.of_N 0 =? 0) with true. change ((0 =? 0)%N) with true. cbv iota.
    rewrite src_RunLengthChunk_Unmarshal, RLC_unmarshal_two. cbn [res_map bind].
    unfold rlc_of_bytes. cbn [src_rlc]. rlc_fields. consts.
    remember (getNBitsFromByte (b2n b0) 1 2) as sym eqn:Esym. clear Esym.
    remember (u16 (shl 16 (getNBitsFromByte (b2n b0) 3 5) 8 + b2n b1)) as run eqn:Erun.
    assert (Hrun : (run < 65536)%N) by (subst run; unfold u16; lia). clear Erun.
    rewrite uwrap16_sub, localMin_N. rewrite !Zeqb_N_r.
    unfold chunk_delta_types, chunk_advance, is_recv_sym. consts.
    remember (N.min (sub16 count processed) run) as n eqn:En.
    assert (Hn : (n < 65536)%N) by lia. clear En.
    destruct ((sym =? 1)%N || (sym =? 2)%N).
    + rewrite (loop3_spec (N.to_nat n)) by lia. cbv beta iota.
      unfold add_deltas. twcc_fields. rlc_fields.
      rewrite Zadd_N, uwrap16_N, finish_step.
      rewrite Epos2. change (mkdz (Z.of_N sym)) with (mkd sym). rewrite <- (map_repeat' mkd), <- map_app.
      apply (IH f2 (pos + 2)%N (u16 (processed + n)) rest' (chs ++ [src_tchunk (RLC 0 sym run)]) (dts0 ++ repeat sym (N.to_nat n)));
        try assumption; unfold u16; lia.
    + twcc_fields. rewrite Zadd_N, uwrap16_N, finish_step. rewrite app_nil_r.
      apply (IH f2 (pos + 2)%N (u16 (processed + n)) rest' (chs ++ [src_tchunk (RLC 0 sym run)]) dts0);
        try assumption; unfold u16; lia.
  - (* status vector chunk *)
    change (Z.of_N 1 =? 0) with false. change (Z.of_N 1 =? 1) with true. change ((1 =? 0)%N) with false. cbv iota.
    rewrite src_StatusVectorChunk_Unmarshal_gen, SVC_unmarshal_two.
    destruct (svc_of_bytes_SVC (b2n b0) (b2n b1)) as (ss & syms & ->). cbn [res_map bind].
    unfold svc_prepend. cbn [src_svc]. svc_fields. cbn [app]. consts.
    rewrite Zeqb_N_0r, Zeqb_N_r.
    unfold chunk_delta_types, chunk_advance. consts.
    assert (Eadv : uwrap 16 (Z.of_N processed + GoSrc.localMin (uwrap 16 (Z.of_N count - Z.of_N processed)) (uwrap 16 (glenl (zN syms))))
                   = Z.of_N (u16 (processed + N.min (sub16 count processed) (u16 (nlen syms))))).
    { unfold zN. rewrite glenl_map, glenl_nlen, uwrap16_N, uwrap16_sub, localMin_N, Zadd_N, uwrap16_N. reflexivity. }
    remember (u16 (processed + N.min (sub16 count processed) (u16 (nlen syms)))) as proc' eqn:Eproc.
    assert (Hproc : (proc' < 65536)%N) by (subst proc'; unfold u16; lia). clear Eproc.
    destruct (N.eqb_spec ss 0) as [E0|E0]; [|destruct (N.eqb_spec ss 1) as [E1|E1]].
    + subst ss.
      rewrite (loop4_spec (length (zN syms))) by (svc_fields; unfold glenl; lia). cbv beta iota. svc_fields.
      change (Z.of_N 0 =? 1) with false. cbv iota.
      unfold add_deltas. twcc_fields. rewrite Epos2, Eadv, finish_step.
      change (Z.to_nat 0) with O. cbn [skipn]. unfold zN. rewrite filter_map_comm, map_map.
      rewrite (filter_ext' _ (fun s => (s =? 1)%N)) by (intros x; apply Zeqb_N_r).
      change (fun x => mkdz (Z.of_N x)) with mkd. rewrite <- map_app.
      apply (IH f2 (pos + 2)%N proc' rest' (chs ++ [src_tchunk (SVC 1 0 syms)]) (dts0 ++ filter (fun s => (s =? 1)%N) syms));
        assumption.
    + subst ss.
      rewrite (loop6_spec (length (zN syms))) by (svc_fields; unfold glenl; lia). cbv beta iota. svc_fields.
      unfold add_deltas. twcc_fields. rewrite Epos2, Eadv, finish_step.
      change (Z.to_nat 0) with O. cbn [skipn]. unfold zN. rewrite filter_map_comm, map_map.
      rewrite (filter_ext' _ is_recv_sym) by (intros x; unfold is_recv_sym; consts; rewrite !Zeqb_N_r; reflexivity).
      change (fun x => mkdz (Z.of_N x)) with mkd. rewrite <- map_app.
      apply (IH f2 (pos + 2)%N proc' rest' (chs ++ [src_tchunk (SVC 1 1 syms)]) (dts0 ++ filter is_recv_sym syms));
        assumption.
    + twcc_fields. rewrite Eadv, finish_step, app_nil_r.
      apply (IH f2 (pos + 2)%N proc' rest' (chs ++ [src_tchunk (SVC 1 ss syms)]) dts0); assumption.
Qed.

(* ================================================================================================ *)
(* (4) TransportLayerCC.Unmarshal                                                                    *)
(* ================================================================================================ *)
(* a receiver that already holds chunks keeps them in front (the Go code appends); its RecvDeltas must be empty, since
   the delta loop runs over the whole slice *)
Definition twcc_prepend (chs : list GoSrc.PacketStatusChunk) (t : GoSrc.TransportLayerCC) : GoSrc.TransportLayerCC :=
  GoSrc.set_TransportLayerCC_PacketChunks (chs ++ GoSrc.TransportLayerCC_PacketChunks t) t.

Theorem src_TransportLayerCC_Unmarshal_gen : forall t0 raw, GoSrc.TransportLayerCC_RecvDeltas t0 = [] ->
  GoSrc.TransportLayerCC_Unmarshal t0 raw =
  res_map (fun t => twcc_prepend (GoSrc.TransportLayerCC_PacketChunks t0) (src_twcc t)) (TWCC_unmarshal raw).
Proof.
  intros [h0 s0 m0 b0 c0 r0 f0 chs0 ds0] raw Hd. cbn [GoSrc.TransportLayerCC_RecvDeltas] in Hd. subst ds0.
  unfold GoSrc.TransportLayerCC_Unmarshal, TWCC_unmarshal. consts.
  remember (Z.to_nat 32800) as fuel1 eqn:Efuel.
  change (4 + 4)%N with 8%N. change (4 + 16)%N with 20%N. change (4 + 8)%N with 12%N. change (4 + 10)%N with 14%N.
  change (4 + 12 + 3)%N with 19%N. change (4 + 12)%N with 16%N. change (4 + 15)%N with 19%N.
  rewrite glen_len, Zltb_N_r.
  destruct (N.ltb_spec (len raw) 8) as [Hl8|Hl8]; [reflexivity|].
  twcc_cbn. rewrite src_Header_Unmarshal.
  destruct (Header_unmarshal raw) as [h| | |]; cbn [res_map bind]; try reflexivity.
  twcc_cbn.
  change (GoSrc.Header_Length (src_header h)) with (Z.of_N (h_len h)).
  change (GoSrc.Header_Type (src_header h)) with (Z.of_N (h_type h)).
  change (GoSrc.Header_Count (src_header h)) with (Z.of_N (h_count h)).
  rewrite Zadd_N_r, uwrap16_N, Zmul_N_l, uwrap16_N.
  remember (u16 (4 * u16 (h_len h + 1))) as total eqn:Etot.
  assert (Ht : (total <= 65532)%N) by (subst total; unfold u16; lia). clear Etot.
  rewrite Zltb_N_r. destruct (N.ltb_spec total 20) as [H20|H20]; [reflexivity|].
  rewrite Zltb_N. destruct (N.ltb_spec (len raw) total) as [Hlt|Hlt]; [reflexivity|].
  rewrite !Zeqb_N_r. change (u16 20) with 20%N.
  destruct (negb (h_type h =? 205)%N || negb (h_count h =? 15)%N); [reflexivity|].
  assert (Hg : 20 <= glen raw) by (rewrite glen_len; lia).
  rewrite !gslice_from_ok by lia. cbn [bind].
  rewrite !gbe_get_ok by (rewrite glen_skipn; lia). cbn [bind].
  reads_ok. nat_lits.
  assert (Hc : (unbe (firstn 2 (skipn 14 raw)) < 65536)%N).
  { apply (get_be_at_lt 2 raw 14). apply get_be_at_ok. lia. }
  remember (unbe (firstn 2 (skipn 14 raw))) as count eqn:Ec. clear Ec.
  generalize (unbe (firstn 4 (skipn 4 raw))) as sender. generalize (unbe (firstn 4 (skipn 8 raw))) as media.
  generalize (unbe (firstn 2 (skipn 12 raw))) as base. intros base media sender.
  change (gslice raw 16 19) with (gslice raw (Z.of_N 16) (Z.of_N 19)). rewrite gslice_N.
  destruct (slice raw 16 19) as [rt| | |]; cbn [bind]; try reflexivity.
  rewrite src_get24BitsFromBytes, bind_res_map.
  destruct (get24BitsFromBytes rt) as [reftime| | |]; cbn [bind]; try reflexivity.
  rewrite gidx_ok by lia. cbn [bind]. nat_lits. twcc_fields.
  etransitivity.
  { apply (loop1_spec raw total count (src_header h) (Z.of_N sender) (Z.of_N media) (Z.of_N base) (Z.of_N reftime)
             (Z.of_N (b2n (nth 19 raw x00))) fuel1 (S (length raw)) 20 0 (skipn 20 raw) chs0 []);
      try assumption; try reflexivity; unfold len in *; lia. }
  destruct (status_loop (S (length raw)) (skipn 20 raw) total count 20 0) as [[[[cs ds] p] r]| | |];
    cbn [bind finish res_map]; try reflexivity.
  cbn [app]. destruct (delta_pass r total p ds) as [deltas| | |]; cbn [bind res_map]; reflexivity.
Qed.

Theorem src_TransportLayerCC_Unmarshal : forall b,
  GoSrc.TransportLayerCC_Unmarshal GoSrc.zero_TransportLayerCC b = res_map src_twcc (TWCC_unmarshal b).
Proof.
  intros b. rewrite src_TransportLayerCC_Unmarshal_gen by reflexivity. apply res_map_ext.
  intros t. reflexivity.
Qed.

(* the hypothesis of the general-receiver form is needed: entries already in the receiver's RecvDeltas are decoded too *)
Lemma src_TransportLayerCC_Unmarshal_general_receiver_refuted :
  exists t0 raw, GoSrc.TransportLayerCC_Unmarshal t0 raw <>
    res_map (fun t => twcc_prepend (GoSrc.TransportLayerCC_PacketChunks t0) (src_twcc t)) (TWCC_unmarshal raw).
Proof.
  exists (GoSrc.mkTransportLayerCC (GoSrc.mkHeader false 0 0 0) 0 0 0 0 0 0 [] [GoSrc.mkRecvDelta 1 0]),
         ([x8f; xcd; x00; x04] ++ zeros 16)%list.
  vm_compute. discriminate.
Qed.

Print Assumptions loop3_spec.
Print Assumptions loop4_spec.
Print Assumptions loop5_spec.
Print Assumptions loop6_spec.
Print Assumptions loop2_spec.
Print Assumptions loop1_spec.
Print Assumptions src_TransportLayerCC_Unmarshal_gen.
Print Assumptions src_TransportLayerCC_Unmarshal.
Print Assumptions src_TransportLayerCC_Unmarshal_general_receiver_refuted.
