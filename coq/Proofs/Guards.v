(* C07, second half: a type's own decoder returns an error when given a well-formed packet of any other type.
   1. per-decoder type guards   2. the guard sets against the registry   3. own output dispatches to own type *)
From RTCP Require Import Proofs.Tactics Proofs.HeaderProofs Proofs.Dgram Proofs.EncFeedback
  Model.Header Model.Reports Model.Sdes Model.ByeApp Model.Feedback Model.Twcc Model.Ccfb Model.Remb Model.Xr Model.Packet
  Spec.Enc.
Local Open Scope N_scope.

(* ------------------------------------------------------------------------------------------ *)
(* 1. type guards of the decoders not covered in EncFeedback.v                                 *)
(* ------------------------------------------------------------------------------------------ *)

Lemma SR_wrong_type b h : Header_unmarshal b = Ok h -> h_type h <> 200 -> SR_unmarshal b = Err.
Proof.
  intros Hh Hne. unfold SR_unmarshal. consts.
  destruct (len b <? 4 + 24); [reflexivity|]. rewrite Hh. cbn [bind].
  destruct (N.eqb_spec (h_type h) 200) as [Et|Et]; [contradiction|reflexivity].
Qed.

Lemma RR_wrong_type b h : Header_unmarshal b = Ok h -> h_type h <> 201 -> RR_unmarshal b = Err.
Proof.
  intros Hh Hne. unfold RR_unmarshal. consts.
  destruct (len b <? 4 + 4); [reflexivity|]. rewrite Hh. cbn [bind].
  destruct (N.eqb_spec (h_type h) 201) as [Et|Et]; [contradiction|reflexivity].
Qed.

Lemma SDES_wrong_type b h : Header_unmarshal b = Ok h -> h_type h <> 202 -> SDES_unmarshal b = Err.
Proof.
  intros Hh Hne. unfold SDES_unmarshal. consts. rewrite Hh. cbn [bind].
  destruct (N.eqb_spec (h_type h) 202) as [Et|Et]; [contradiction|reflexivity].
Qed.

Lemma BYE_wrong_type b h : Header_unmarshal b = Ok h -> h_type h <> 203 -> BYE_unmarshal b = Err.
Proof.
  intros Hh Hne. unfold BYE_unmarshal. consts. rewrite Hh. cbn [bind].
  destruct (N.eqb_spec (h_type h) 203) as [Et|Et]; [contradiction|reflexivity].
Qed.

Lemma APP_wrong_type b h : Header_unmarshal b = Ok h -> h_type h <> 204 -> APP_unmarshal b = Err.
Proof.
  intros Hh Hne. unfold APP_unmarshal. consts. rewrite Hh. cbn [bind].
  destruct (len b <? 12); [reflexivity|].
  destruct (N.eqb_spec (h_type h) 204) as [Et|Et]; [contradiction|reflexivity].
Qed.

Lemma XR_wrong_type b h : Header_unmarshal b = Ok h -> h_type h <> 207 -> XR_unmarshal b = Err.
Proof.
  intros Hh Hne. unfold XR_unmarshal. consts. rewrite Hh. cbn [bind].
  destruct (N.eqb_spec (h_type h) 207) as [Et|Et]; [contradiction|reflexivity].
Qed.

Lemma TWCC_wrong_type b h : Header_unmarshal b = Ok h -> (h_type h, h_count h) <> (205, 15) -> TWCC_unmarshal b = Err.
Proof.
  intros Hh Hne. unfold TWCC_unmarshal. consts.
  destruct (len b <? 4 + 4); [reflexivity|]. rewrite Hh. cbn [bind].
  destruct (u16 (4 * u16 (h_len h + 1)) <? 4 + 16); [reflexivity|].
  destruct (len b <? u16 (4 * u16 (h_len h + 1))); [reflexivity|].
  destruct (N.eqb_spec (h_type h) 205) as [Et|Et]; [|reflexivity].
  destruct (N.eqb_spec (h_count h) 15) as [Ec|Ec]; [|reflexivity].
  exfalso. apply Hne. rewrite Et, Ec. reflexivity.
Qed.

(* REMB parses the first two octets itself *)
Lemma REMB_wrong_octets b : b2n (nth 1 b x00) <> 206 \/ b2n (nth 0 b x00) mod 32 <> 15 -> REMB_unmarshal b = Err.
Proof.
  intros Hne. unfold REMB_unmarshal.
  destruct (N.ltb_spec (len b) 20) as [|Hl]; [reflexivity|].
  rewrite (idx_ok b 0) by lia. cbn [bind]. change (N.to_nat 0) with 0%nat.
  destruct (negb (b2n (nth 0 b x00) / 64 =? 2)); [reflexivity|].
  destruct (negb (N.land (b2n (nth 0 b x00) / 32) 1 =? 0)); [reflexivity|].
  rewrite land_31.
  destruct (N.eqb_spec (b2n (nth 0 b x00) mod 32) 15) as [Ec|Ec]; cbn [negb]; [|reflexivity].
  rewrite (idx_ok b 1) by lia. cbn [bind]. change (N.to_nat 1) with 1%nat.
  destruct (N.eqb_spec (b2n (nth 1 b x00)) 206) as [Et|Et]; cbn [negb]; [|reflexivity].
  exfalso. destruct Hne as [Hne|Hne]; contradiction.
Qed.

Lemma REMB_wrong_type b h : Header_unmarshal b = Ok h -> (h_type h, h_count h) <> (206, 15) -> REMB_unmarshal b = Err.
Proof.
  intros Hh Hne. apply Header_unmarshal_ok in Hh as (_ & _ & _ & Hc & Ht & _).
  apply REMB_wrong_octets. rewrite <- Hc, <- Ht.
  destruct (N.eq_dec (h_type h) 206) as [Et|Et]; [|left; exact Et].
  destruct (N.eq_dec (h_count h) 15) as [Ec|Ec]; [|right; exact Ec].
  exfalso. apply Hne. rewrite Et, Ec. reflexivity.
Qed.

(* CCFB: only the packet type is checked; the feedback format (11) is not -- finding F12 *)
Lemma CCFB_wrong_type b h : Header_unmarshal b = Ok h -> h_type h <> 205 -> CCFB_unmarshal b = Err.
Proof.
  intros Hh Hne. unfold CCFB_unmarshal. consts.
  destruct (len b <? 4 + 4 + 4); [reflexivity|]. rewrite Hh. cbn [bind].
  destruct (N.eqb_spec (h_type h) 205) as [Et|Et]; [contradiction|reflexivity].
Qed.

(* a 12-octet RRR packet (PT 205, FMT 5) *)
Definition ccfb_foreign : bytes := [x85; xcd; x00; x02; x00; x00; x00; x01; x00; x00; x00; x02].

Lemma CCFB_accepts_any_fmt_refuted :
  exists b h, Header_unmarshal b = Ok h /\ h_count h <> 11 /\ exists p, CCFB_unmarshal b = Ok p.
Proof.
  exists ccfb_foreign, (mkHeader false 5 205 2). split; [vm_compute; reflexivity|].
  split; [cbn [h_count]; lia|]. eexists. vm_compute. reflexivity.
Qed.

(* the same octets are a well-formed RRR packet for the RRR decoder *)
Lemma ccfb_foreign_is_RRR : RRR_unmarshal ccfb_foreign = Ok (mkRRR 1 2).
Proof. vm_compute. reflexivity. Qed.

(* ------------------------------------------------------------------------------------------ *)
(* 2. the guard sets of the decoders, and the registry                                         *)
(* ------------------------------------------------------------------------------------------ *)

(* the (packet type, count/format) pairs that the decoder of t lets through its type guard (the code's, not the RFC's) *)
Definition accepts (t : tag) (pt cnt : N) : bool :=
  match t with
  | TSR => pt =? 200 | TRR => pt =? 201 | TSDES => pt =? 202 | TBYE => pt =? 203 | TAPP => pt =? 204 | TXR => pt =? 207
  | TNACK => (pt =? 205) && (cnt =? 1)
  | TRRR => (pt =? 205) && (cnt =? 5)
  | TTWCC => (pt =? 205) && (cnt =? 15)
  | TCCFB => pt =? 205                       (* F12: any format *)
  | TPLI => (pt =? 206) && (cnt =? 1)
  | TSLI => (pt =? 205) && (cnt =? 2)        (* F5: 205, where RFC 4585 says 206 *)
  | TFIR => (pt =? 206) && (cnt =? 4)
  | TREMB => (pt =? 206) && (cnt =? 15)
  | TRaw => true                             (* RawPacket: any header *)
  | TCompound => false                       (* never dispatched to *)
  end.

Lemma pair_guard pt cnt a b : (pt =? a) && (cnt =? b) = false -> (pt, cnt) <> (a, b).
Proof. intros H E. injection E as -> ->. rewrite !N.eqb_refl in H. discriminate H. Qed.

Theorem foreign_rejected t b h : Header_unmarshal b = Ok h -> t <> TRaw -> t <> TCompound ->
  accepts t (h_type h) (h_count h) = false -> decode_as t b = Err.
Proof.
  intros Hh Hraw Hcomp Ha. destruct t; cbn [accepts] in Ha; cbn [decode_as];
    try (apply N.eqb_neq in Ha); try (apply pair_guard in Ha).
  - rewrite (SR_wrong_type b h Hh Ha). reflexivity.
  - rewrite (RR_wrong_type b h Hh Ha). reflexivity.
  - rewrite (SDES_wrong_type b h Hh Ha). reflexivity.
  - rewrite (BYE_wrong_type b h Hh Ha). reflexivity.
  - rewrite (APP_wrong_type b h Hh Ha). reflexivity.
  - rewrite (NACK_wrong_type b h Hh Ha). reflexivity.
  - rewrite (RRR_wrong_type b h Hh Ha). reflexivity.
  - rewrite (TWCC_wrong_type b h Hh Ha). reflexivity.
  - rewrite (CCFB_wrong_type b h Hh Ha). reflexivity.
  - rewrite (PLI_wrong_type b h Hh Ha). reflexivity.
  - rewrite (SLI_wrong_type b h Hh Ha). reflexivity.
  - rewrite (REMB_wrong_type b h Hh Ha). reflexivity.
  - rewrite (FIR_wrong_type b h Hh Ha). reflexivity.
  - rewrite (XR_wrong_type b h Hh Ha). reflexivity.
  - contradiction.
  - reflexivity.
Qed.

Ltac split_eqb :=
  repeat match goal with |- context [N.eqb ?a ?b] => destruct (N.eqb_spec a b); try lia end.

(* for twelve of the fourteen decoders the guard set is exactly the registry's (no bound on pt, cnt needed) *)
Theorem accepts_vs_registry_all t pt cnt : t <> TRaw -> t <> TCompound -> t <> TCCFB -> t <> TSLI ->
  (accepts t pt cnt = true <-> registry pt cnt = t).
Proof.
  intros H1 H2 H3 H4. destruct t; try contradiction; clear H1 H2 H3 H4; unfold accepts, registry; split_eqb;
    cbn [andb]; split; intros E; try discriminate E; reflexivity.
Qed.

Theorem accepts_vs_registry t pt cnt : pt < 256 -> cnt < 32 -> t <> TRaw -> t <> TCompound -> t <> TCCFB -> t <> TSLI ->
  (accepts t pt cnt = true <-> registry pt cnt = t).
Proof. intros _ _. apply accepts_vs_registry_all. Qed.

(* the two exceptions, exactly *)
Lemma accepts_CCFB pt cnt : accepts TCCFB pt cnt = true <-> pt = 205.
Proof. cbn [accepts]. apply N.eqb_eq. Qed.

Lemma accepts_SLI pt cnt : accepts TSLI pt cnt = true <-> (pt = 205 /\ cnt = 2).
Proof. cbn [accepts]. rewrite andb_true_iff, !N.eqb_eq. reflexivity. Qed.

Lemma registry_SLI : registry 206 2 = TSLI.
Proof. reflexivity. Qed.

(* SLI (F5): the guard set and the registry entry are disjoint; what the guard lets through is unregistered *)
Lemma accepts_SLI_unregistered pt cnt : accepts TSLI pt cnt = true -> registry pt cnt = TRaw.
Proof. intros H. apply accepts_SLI in H as [-> ->]. reflexivity. Qed.

Lemma SLI_rejects_registered b h : Header_unmarshal b = Ok h -> registry (h_type h) (h_count h) = TSLI -> decode_as TSLI b = Err.
Proof.
  intros Hh Hr. apply (foreign_rejected TSLI b h Hh); try discriminate.
  destruct (accepts TSLI (h_type h) (h_count h)) eqn:E; [|reflexivity].
  apply accepts_SLI_unregistered in E. rewrite E in Hr. discriminate Hr.
Qed.

(* CCFB (F12): the guard set is a strict superset of the registry entry *)
Lemma accepts_CCFB_superset pt cnt : registry pt cnt = TCCFB -> accepts TCCFB pt cnt = true.
Proof.
  intros H. apply accepts_CCFB. revert H. unfold registry. split_eqb; intros E; try discriminate E; reflexivity.
Qed.

Lemma accepts_CCFB_foreign :
  accepts TCCFB 205 1 = true /\ registry 205 1 = TNACK /\
  accepts TCCFB 205 5 = true /\ registry 205 5 = TRRR /\
  accepts TCCFB 205 15 = true /\ registry 205 15 = TTWCC /\
  accepts TCCFB 205 2 = true /\ registry 205 2 = TRaw.
Proof. repeat split. Qed.

Corollary foreign_rejected_registry t u b h : Header_unmarshal b = Ok h ->
  registry (h_type h) (h_count h) = u -> u <> t ->
  t <> TRaw -> t <> TCompound -> t <> TCCFB -> t <> TSLI -> decode_as t b = Err.
Proof.
  intros Hh Hr Hne H1 H2 H3 H4. apply (foreign_rejected t b h Hh H1 H2).
  destruct (accepts t (h_type h) (h_count h)) eqn:E; [|reflexivity].
  apply accepts_vs_registry_all in E; try assumption. exfalso. apply Hne. rewrite <- Hr. exact E.
Qed.

(* the same for the two exceptions, with their own (weaker / shifted) side conditions *)
Corollary foreign_rejected_CCFB b h : Header_unmarshal b = Ok h -> h_type h <> 205 -> decode_as TCCFB b = Err.
Proof.
  intros Hh Hne. apply (foreign_rejected TCCFB b h Hh); try discriminate. cbn [accepts]. apply N.eqb_neq. exact Hne.
Qed.

Corollary foreign_rejected_SLI b h : Header_unmarshal b = Ok h -> (h_type h, h_count h) <> (205, 2) -> decode_as TSLI b = Err.
Proof. intros Hh Hne. cbn [decode_as]. rewrite (SLI_wrong_type b h Hh Hne). reflexivity. Qed.

(* ------------------------------------------------------------------------------------------ *)
(* 3. a decoder's own output dispatches back to it                                             *)
(* ------------------------------------------------------------------------------------------ *)

(* the tag selected by the first two octets of a frame *)
Definition wire_tag (f : bytes) : tag := dispatch (b2n (nth 1 f x00)) (b2n (nth 0 f x00) mod 32).

Lemma wire_tag_header f h : Header_unmarshal f = Ok h -> dispatch (h_type h) (h_count h) = wire_tag f.
Proof. intros H. apply Header_unmarshal_ok in H as (_ & _ & _ & Hc & Ht & _). unfold wire_tag. rewrite Hc, Ht. reflexivity. Qed.

Definition dispatches_to (f : bytes) (t : tag) : Prop :=
  wire_tag f = t /\ (exists h, Header_unmarshal f = Ok h /\ dispatch (h_type h) (h_count h) = t) /\
  decode_frame f = decode_as t f.

Lemma frame_octets p c t body : c < 32 -> t < 256 ->
  b2n (nth 1 (frame p c t body) x00) = t /\ b2n (nth 0 (frame p c t body) x00) mod 32 = c /\
  b2n (nth 0 (frame p c t body) x00) / 64 = 2 /\ 4 <= len (frame p c t body).
Proof.
  intros Hc Ht. unfold frame. rewrite len_app, len_hdr. unfold hdr. cbn [app nth]. rewrite !b2n_n2b.
  destruct p; repeat split; lia.
Qed.

Lemma frame_dispatches p c t body : c < 32 -> t < 256 -> dispatches_to (frame p c t body) (registry t c).
Proof.
  intros Hc Ht. destruct (frame_octets p c t body Hc Ht) as (E1 & E0 & Ev & Hl).
  assert (Hw : wire_tag (frame p c t body) = registry t c).
  { unfold wire_tag. rewrite E1, E0. apply dispatch_table_all. }
  destruct (Header_unmarshal_v2 _ Hl Ev) as [h Hh].
  pose proof (wire_tag_header _ _ Hh) as Hd. rewrite Hw in Hd.
  split; [exact Hw|]. split; [exists h; split; [exact Hh|exact Hd]|].
  unfold decode_frame. rewrite Hh. cbn [bind]. rewrite Hd. reflexivity.
Qed.

Ltac andbs H := repeat (let H' := fresh "H" in apply andb_true_iff in H as [H H']).
Ltac leb_hyps := repeat match goal with H : (_ <=? _) = true |- _ => apply N.leb_le in H end.

Lemma own_output_dispatch_PLI v : D_PLI v = true -> dispatches_to (enc_PLI v) TPLI.
Proof. intros _. unfold enc_PLI. apply (frame_dispatches false 1 206); lia. Qed.

Lemma own_output_dispatch_RRR v : D_RRR v = true -> dispatches_to (enc_RRR v) TRRR.
Proof. intros _. unfold enc_RRR. apply (frame_dispatches false 5 205); lia. Qed.

Lemma own_output_dispatch_NACK v : D_NACK v = true -> dispatches_to (enc_NACK v) TNACK.
Proof. intros _. unfold enc_NACK. apply (frame_dispatches false 1 205); lia. Qed.

Lemma own_output_dispatch_FIR v : D_FIR v = true -> dispatches_to (enc_FIR v) TFIR.
Proof. intros _. unfold enc_FIR. apply (frame_dispatches false 4 206); lia. Qed.

Lemma registry_200 c : registry 200 c = TSR. Proof. reflexivity. Qed.
Lemma registry_201 c : registry 201 c = TRR. Proof. reflexivity. Qed.
Lemma registry_202 c : registry 202 c = TSDES. Proof. reflexivity. Qed.
Lemma registry_203 c : registry 203 c = TBYE. Proof. reflexivity. Qed.
Lemma registry_204 c : registry 204 c = TAPP. Proof. reflexivity. Qed.

Lemma own_output_dispatch_SR v : D_SR v = true -> dispatches_to (enc_SR v) TSR.
Proof.
  intros H. unfold D_SR in H. andbs H. leb_hyps. unfold enc_SR.
  rewrite <- (registry_200 (nl (sr_reports v))). apply frame_dispatches; lia.
Qed.

Lemma own_output_dispatch_RR v : D_RR v = true -> dispatches_to (enc_RR v) TRR.
Proof.
  intros H. unfold D_RR in H. andbs H. leb_hyps. unfold enc_RR.
  rewrite <- (registry_201 (nl (rcv_reports v))). apply frame_dispatches; lia.
Qed.

Lemma own_output_dispatch_SDES v : D_SDES v = true -> dispatches_to (enc_SDES v) TSDES.
Proof.
  intros H. unfold D_SDES in H. andbs H. leb_hyps. unfold enc_SDES.
  rewrite <- (registry_202 (nl (sd_chunks v))). apply frame_dispatches; lia.
Qed.

Lemma own_output_dispatch_BYE v : D_BYE v = true -> dispatches_to (enc_BYE v) TBYE.
Proof.
  intros H. unfold D_BYE in H. andbs H. leb_hyps. unfold enc_BYE.
  rewrite <- (registry_203 (nl (bye_sources v))). apply frame_dispatches; lia.
Qed.

Lemma own_output_dispatch_APP v : D_APP v = true -> dispatches_to (enc_APP v) TAPP.
Proof.
  intros H. unfold D_APP in H. andbs H.
  match goal with Hs : fits 5 (app_subtype v) = true |- _ => apply fits_lt in Hs; change (2 ^ 5) with 32 in Hs end.
  unfold enc_APP. rewrite <- (registry_204 (app_subtype v)). apply frame_dispatches; lia.
Qed.

Theorem own_output_dispatch :
  (forall v, D_PLI v = true -> dispatches_to (enc_PLI v) TPLI) /\
  (forall v, D_RRR v = true -> dispatches_to (enc_RRR v) TRRR) /\
  (forall v, D_NACK v = true -> dispatches_to (enc_NACK v) TNACK) /\
  (forall v, D_FIR v = true -> dispatches_to (enc_FIR v) TFIR) /\
  (forall v, D_SR v = true -> dispatches_to (enc_SR v) TSR) /\
  (forall v, D_RR v = true -> dispatches_to (enc_RR v) TRR) /\
  (forall v, D_SDES v = true -> dispatches_to (enc_SDES v) TSDES) /\
  (forall v, D_BYE v = true -> dispatches_to (enc_BYE v) TBYE) /\
  (forall v, D_APP v = true -> dispatches_to (enc_APP v) TAPP).
Proof.
  exact (conj own_output_dispatch_PLI (conj own_output_dispatch_RRR (conj own_output_dispatch_NACK
    (conj own_output_dispatch_FIR (conj own_output_dispatch_SR (conj own_output_dispatch_RR
    (conj own_output_dispatch_SDES (conj own_output_dispatch_BYE own_output_dispatch_APP)))))))).
Qed.

(* SLI (F5): what the code emits (PT 205, FMT 2) does not come back to the SLI decoder: it dispatches to RawPacket;
   what the RFC prescribes (206/2) does dispatch to the SLI decoder, which then rejects it (SLI_rejects_rfc_encoding_all) *)
Lemma SLI_pion_dispatches_raw v : dispatches_to (enc_SLI_pion v) TRaw.
Proof. unfold enc_SLI_pion. apply (frame_dispatches false 2 205); lia. Qed.

Lemma SLI_rfc_dispatches_sli v : dispatches_to (enc_SLI v) TSLI.
Proof. unfold enc_SLI. apply (frame_dispatches false 2 206); lia. Qed.

Lemma own_output_dispatch_SLI_refuted :
  exists v, D_SLI v = true /\ SLI_marshal v = Ok (enc_SLI_pion v) /\ dispatches_to (enc_SLI_pion v) TRaw /\
            ~ dispatches_to (enc_SLI_pion v) TSLI.
Proof.
  exists sli_example. split; [reflexivity|]. split; [apply SLI_marshal_pion; reflexivity|].
  split; [apply SLI_pion_dispatches_raw|].
  intros (Hw & _). destruct (SLI_pion_dispatches_raw sli_example) as (Hr & _). rewrite Hr in Hw. discriminate Hw.
Qed.

(* universally: no well-formed SLI value survives Marshal followed by the dispatching decoder as an SLI *)
Theorem SLI_own_output_is_raw v : D_SLI v = true ->
  exists b, SLI_marshal v = Ok b /\ wire_tag b = TRaw /\ decode_frame b = res_map PRaw (Raw_unmarshal b).
Proof.
  intros H. exists (enc_SLI_pion v). split; [apply SLI_marshal_pion; exact H|].
  destruct (SLI_pion_dispatches_raw v) as (Hw & _ & Hd). split; [exact Hw|]. rewrite Hd. reflexivity.
Qed.

Print Assumptions SR_wrong_type.
Print Assumptions RR_wrong_type.
Print Assumptions SDES_wrong_type.
Print Assumptions BYE_wrong_type.
Print Assumptions APP_wrong_type.
Print Assumptions XR_wrong_type.
Print Assumptions TWCC_wrong_type.
Print Assumptions REMB_wrong_octets.
Print Assumptions REMB_wrong_type.
Print Assumptions CCFB_wrong_type.
Print Assumptions CCFB_accepts_any_fmt_refuted.
Print Assumptions foreign_rejected.
Print Assumptions accepts_vs_registry_all.
Print Assumptions accepts_vs_registry.
Print Assumptions accepts_CCFB.
Print Assumptions accepts_SLI.
Print Assumptions registry_SLI.
Print Assumptions SLI_rejects_registered.
Print Assumptions accepts_CCFB_superset.
Print Assumptions accepts_CCFB_foreign.
Print Assumptions foreign_rejected_registry.
Print Assumptions foreign_rejected_CCFB.
Print Assumptions foreign_rejected_SLI.
Print Assumptions frame_dispatches.
Print Assumptions own_output_dispatch.
Print Assumptions SLI_pion_dispatches_raw.
Print Assumptions SLI_rfc_dispatches_sli.
Print Assumptions own_output_dispatch_SLI_refuted.
Print Assumptions SLI_own_output_is_raw.
