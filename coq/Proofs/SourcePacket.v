(* SourcePacket: packet.go as translated from the source (Gen/Funcs.v, module GoSrc: the generated dynamic-dispatch
   functions Packet_Marshal / Packet_Unmarshal / Packet_MarshalSize / Packet_DestinationSSRC over the closed sum
   GoSrc.Packet, the per-frame factory [unmarshal], the datagram decoder [Unmarshal] and the list encoder [Marshal])
   computes what the model computes (Model/Packet.v: marshal_packet, size_packet, dest_packet, decode_as, dispatch,
   unmarshal_one, unmarshal_loop, Unmarshal, Marshal).

   Every member-level equivalence is imported (Proofs/Source*.v) and used as a black box.  Hypotheses:
   - [not_compound p]: a CompoundPacket is not a member of the sum GoSrc.Packet ([src_packet] maps it to the nil interface
     value, on which every method panics), so it is excluded wherever a method is called on [src_packet p];
   - [packet_fits p]: for a TransportLayerCC every RecvDelta.Delta is an int64 ([twcc_fits]); True for every other member.
   The decoders take raw bytes and need no hypothesis; both sides agree on Ok / Err / Panic / Fuel for EVERY fuel. *)
From RTCP Require Import Proofs.Tactics Lib.GoSem Gen.Funcs Check.GoOpaque Proofs.GoSemFacts Proofs.HeaderProofs
  Model.Header Model.Reports Model.Sdes Model.ByeApp Model.Feedback Model.Twcc Model.Ccfb Model.Remb Model.Xr Model.Packet
  Spec.Enc Proofs.Dgram Proofs.Assemble
  Proofs.SourceEquiv Proofs.SrcConv Proofs.SourceSR Proofs.SourceRR Proofs.SourceSdes Proofs.SourceByeApp
  Proofs.SourceFeedback1 Proofs.SourceFeedback2 Proofs.SourceCcfb Proofs.SourceTwccEnc Proofs.SourceTwccDec.
Local Open Scope Z_scope.

(* ================================================================================================ *)
(* More transfer lemmas                                                                              *)
(* ================================================================================================ *)
Section MoreGoSemFacts.

Lemma res_map_res_map {A B C} (f : A -> B) (g : B -> C) (r : res A) :
  res_map g (res_map f r) = res_map (fun x => g (f x)) r.
Proof. destruct r; reflexivity. Qed.

Lemma res_map_ext {A B} (f g : A -> B) (r : res A) : (forall x, f x = g x) -> res_map f r = res_map g r.
Proof. intros H. destruct r; cbn [res_map]; rewrite ?H; reflexivity. Qed.

Lemma gmake_0 : gmake 0 = Ok [].
Proof. reflexivity. Qed.

Lemma glen_eqb0_nil : (glen [] =? 0) = true.
Proof. reflexivity. Qed.

Lemma glen_eqb0_cons x b : (glen (x :: b) =? 0) = false.
Proof. apply Z.eqb_neq. unfold glen. cbn [length]. lia. Qed.

Lemma glenl_eqb0_nil {A} : (glenl (@nil A) =? 0) = true.
Proof. reflexivity. Qed.

Lemma glenl_eqb0_cons {A} (x : A) l : (glenl (x :: l) =? 0) = false.
Proof. apply Z.eqb_neq. unfold glenl. cbn [length]. lia. Qed.

Lemma to_nat_glen b : Z.to_nat (glen b) = length b.
Proof. unfold glen. apply Nat2Z.id. Qed.

End MoreGoSemFacts.

(* ================================================================================================ *)
(* 1. The generated dynamic-dispatch functions                                                       *)
(* ================================================================================================ *)

(* the only numeric side condition of any member encoder: TransportLayerCC deltas are int64 values *)
Definition packet_fits (p : packet) : Prop :=
  match p with PTWCC t => twcc_fits t | _ => True end.

Theorem src_Packet_Marshal : forall p, not_compound p -> packet_fits p ->
  GoSrc.Packet_Marshal (src_packet p) = marshal_packet p.
Proof.
  intros p Hn Hf. destruct p; cbn [src_packet GoSrc.Packet_Marshal marshal_packet]; try contradiction.
  - apply src_SenderReport_Marshal.
  - apply src_ReceiverReport_Marshal.
  - apply src_SourceDescription_Marshal.
  - apply src_Goodbye_Marshal.
  - apply src_ApplicationDefined_Marshal.
  - apply src_TransportLayerNack_Marshal.
  - apply src_RapidResynchronizationRequest_Marshal.
  - apply src_TransportLayerCC_Marshal. exact Hf.
  - apply src_CCFeedbackReport_Marshal.
  - apply src_PictureLossIndication_Marshal.
  - apply src_SliceLossIndication_Marshal.
  - reflexivity.
  - apply src_FullIntraRequest_Marshal.
  - reflexivity.
  - apply (src_RawPacket_Marshal b).
Qed.

Theorem src_Packet_MarshalSize : forall p, not_compound p ->
  GoSrc.Packet_MarshalSize (src_packet p) = Ok (Z.of_N (size_packet p)).
Proof.
  intros p Hn. destruct p; cbn [src_packet GoSrc.Packet_MarshalSize size_packet]; try contradiction; f_equal;
    first [ apply src_SenderReport_MarshalSize | apply src_ReceiverReport_MarshalSize
          | apply src_SourceDescription_MarshalSize | apply src_Goodbye_MarshalSize
          | apply src_ApplicationDefined_MarshalSize | apply src_TransportLayerNack_MarshalSize
          | apply src_RapidResynchronizationRequest_MarshalSize | apply src_TransportLayerCC_MarshalSize
          | apply src_CCFeedbackReport_MarshalSize | apply src_PictureLossIndication_MarshalSize
          | apply src_SliceLossIndication_MarshalSize | apply src_FullIntraRequest_MarshalSize
          | apply (src_RawPacket_MarshalSize b) | reflexivity ].
Qed.

Theorem src_Packet_DestinationSSRC : forall p, not_compound p ->
  GoSrc.Packet_DestinationSSRC (src_packet p) = Ok (zN (dest_packet p)).
Proof.
  intros p Hn. destruct p; cbn [src_packet GoSrc.Packet_DestinationSSRC]; try contradiction;
    first [ apply src_SenderReport_DestinationSSRC | apply src_ReceiverReport_DestinationSSRC
          | apply src_SourceDescription_DestinationSSRC | apply src_Goodbye_DestinationSSRC
          | apply src_CCFeedbackReport_DestinationSSRC | apply src_FullIntraRequest_DestinationSSRC
          | apply (f_equal Ok);
            first [ apply src_ApplicationDefined_DestinationSSRC | apply src_TransportLayerNack_DestinationSSRC
                  | apply src_RapidResynchronizationRequest_DestinationSSRC
                  | apply src_TransportLayerCC_DestinationSSRC_packet
                  | apply src_PictureLossIndication_DestinationSSRC | apply src_SliceLossIndication_DestinationSSRC
                  | apply (src_RawPacket_DestinationSSRC b) | reflexivity ] ].
Qed.

(* the nil interface value: every method panics; the model encodes / measures a compound packet instead *)
Lemma src_Packet_methods_compound : forall l,
  GoSrc.Packet_Marshal (src_packet (PCompound l)) = Panic /\
  GoSrc.Packet_MarshalSize (src_packet (PCompound l)) = Panic /\
  GoSrc.Packet_DestinationSSRC (src_packet (PCompound l)) = Panic /\
  forall b, GoSrc.Packet_Unmarshal (src_packet (PCompound l)) b = Panic.
Proof. intros l. repeat split. Qed.

Lemma src_Packet_Marshal_compound_refuted :
  exists p, packet_fits p /\ GoSrc.Packet_Marshal (src_packet p) <> marshal_packet p.
Proof. exists (PCompound []). split; [exact I|]. cbn. discriminate. Qed.

Lemma src_Packet_Marshal_refuted_without_fits :
  exists p, not_compound p /\ GoSrc.Packet_Marshal (src_packet p) <> marshal_packet p.
Proof.
  destruct src_TransportLayerCC_Marshal_refuted_without_fits as [t Ht].
  exists (PTWCC t). split; [exact I|]. exact Ht.
Qed.

(* Packet.Unmarshal on the zero value that [unmarshal] creates with new(T) for the dispatched tag *)
Definition zero_packet (t : tag) : GoSrc.Packet :=
  match t with
  | TSR => GoSrc.Packet_SenderReport GoSrc.zero_SenderReport
  | TRR => GoSrc.Packet_ReceiverReport GoSrc.zero_ReceiverReport
  | TSDES => GoSrc.Packet_SourceDescription GoSrc.zero_SourceDescription
  | TBYE => GoSrc.Packet_Goodbye GoSrc.zero_Goodbye
  | TAPP => GoSrc.Packet_ApplicationDefined GoSrc.zero_ApplicationDefined
  | TNACK => GoSrc.Packet_TransportLayerNack GoSrc.zero_TransportLayerNack
  | TRRR => GoSrc.Packet_RapidResynchronizationRequest GoSrc.zero_RapidResynchronizationRequest
  | TTWCC => GoSrc.Packet_TransportLayerCC GoSrc.zero_TransportLayerCC
  | TCCFB => GoSrc.Packet_CCFeedbackReport GoSrc.zero_CCFeedbackReport
  | TPLI => GoSrc.Packet_PictureLossIndication GoSrc.zero_PictureLossIndication
  | TSLI => GoSrc.Packet_SliceLossIndication GoSrc.zero_SliceLossIndication
  | TREMB => GoSrc.Packet_ReceiverEstimatedMaximumBitrate GoSrc.zero_ReceiverEstimatedMaximumBitrate
  | TFIR => GoSrc.Packet_FullIntraRequest GoSrc.zero_FullIntraRequest
  | TXR => GoSrc.Packet_ExtendedReport GoSrc.zero_ExtendedReport
  | TRaw => GoSrc.Packet_RawPacket []
  | TCompound => GoSrc.Packet_nil
  end.

Theorem src_Packet_Unmarshal_zero : forall t b, t <> TCompound ->
  GoSrc.Packet_Unmarshal (zero_packet t) b = res_map src_packet (decode_as t b).
Proof.
  intros t b Ht. destruct t; cbn [zero_packet GoSrc.Packet_Unmarshal decode_as]; try congruence;
    rewrite res_map_res_map.
  - rewrite src_SenderReport_Unmarshal, res_map_res_map. reflexivity.
  - rewrite src_ReceiverReport_Unmarshal, res_map_res_map. reflexivity.
  - rewrite src_SourceDescription_Unmarshal, res_map_res_map. reflexivity.
  - rewrite src_Goodbye_Unmarshal, res_map_res_map. reflexivity.
  - rewrite src_ApplicationDefined_Unmarshal, res_map_res_map. reflexivity.
  - rewrite src_TransportLayerNack_Unmarshal, res_map_res_map. reflexivity.
  - rewrite src_RapidResynchronizationRequest_Unmarshal, res_map_res_map. reflexivity.
  - rewrite src_TransportLayerCC_Unmarshal, res_map_res_map. reflexivity.
  - rewrite src_CCFeedbackReport_Unmarshal, res_map_res_map. reflexivity.
  - rewrite src_PictureLossIndication_Unmarshal, res_map_res_map. reflexivity.
  - rewrite src_SliceLossIndication_Unmarshal, res_map_res_map. reflexivity.
  - unfold GoOpaque.ReceiverEstimatedMaximumBitrate_Unmarshal. rewrite res_map_res_map.
    apply res_map_ext. intros [s br l]. reflexivity.
  - rewrite src_FullIntraRequest_Unmarshal, res_map_res_map. reflexivity.
  - unfold GoOpaque.ExtendedReport_Unmarshal. rewrite res_map_res_map.
    apply res_map_ext. intros [s l]. reflexivity.
  - rewrite src_RawPacket_Unmarshal. reflexivity.
Qed.

(* ================================================================================================ *)
(* 2. func unmarshal: header, size check, dispatch switch, new(T).Unmarshal                          *)
(* ================================================================================================ *)

Definition src_frame (pn : packet * N) : GoSrc.Packet * Z := let '(p, n) := pn in (src_packet p, Z.of_N n).

Lemma dispatch_not_compound pt cnt : dispatch pt cnt <> TCompound.
Proof.
  rewrite dispatch_table_all. unfold registry.
  repeat match goal with |- context [if ?c then _ else _] => destruct c end; discriminate.
Qed.

(* what every arm of the switch does with its fresh value *)
Lemma switch_arm t inP n : t <> TCompound ->
  match GoSrc.Packet_Unmarshal (zero_packet t) inP with
  | Ok q => Ok (q, Z.of_N n) | Err => Err | Panic => Panic | Fuel => Fuel end =
  res_map src_frame (let* p := decode_as t inP in Ok (p, n)).
Proof.
  intros Ht. rewrite src_Packet_Unmarshal_zero by exact Ht. destruct (decode_as t inP); reflexivity.
Qed.

Ltac eval_lit_eqb :=
  repeat match goal with
  | |- context [N.eqb (N.pos ?a) (N.pos ?b)] =>
      let v := eval vm_compute in (N.eqb (N.pos a) (N.pos b)) in change (N.eqb (N.pos a) (N.pos b)) with v
  end.
Ltac split_on x k :=
  destruct (N.eqb_spec x k) as [->|?]; [eval_lit_eqb; cbv iota|].
Ltac arm T := apply (switch_arm T); discriminate.

Theorem src_unmarshal : forall b, GoSrc.unmarshal b = res_map src_frame (unmarshal_one b).
Proof.
  intros b. unfold GoSrc.unmarshal, unmarshal_one. cbv zeta. rewrite src_Header_Unmarshal.
  destruct (Header_unmarshal b) as [h| | |]; cbn [res_map bind]; try reflexivity.
  cbn [GoSrc.Header_Length GoSrc.Header_Type GoSrc.Header_Count src_header].
  replace (uwrap 16 (Z.of_N (h_len h) + 1) * 4) with (Z.of_N (u16 (h_len h + 1) * 4))
    by (rewrite N2Z.inj_mul, <- uwrap16_N, N2Z.inj_add; reflexivity).
  rewrite glen_len, Zltb_N.
  destruct (len b <? u16 (h_len h + 1) * 4)%N; [reflexivity|].
  rewrite gslice_to_N.
  destruct (slice b 0 (u16 (h_len h + 1) * 4)) as [inP| | |]; cbn [res_map bind]; try reflexivity.
  rewrite dispatch_table_all. unfold registry.
  generalize (u16 (h_len h + 1) * 4)%N as n, (h_type h) as pt, (h_count h) as cnt. clear. intros n pt cnt.
  rewrite !Zeqb_N_r.
  change (GoSrc.mkSenderReport 0 0 0 0 0 [] []) with GoSrc.zero_SenderReport.
  change (GoSrc.Packet_SenderReport GoSrc.zero_SenderReport) with (zero_packet TSR).
  change (GoSrc.Packet_ReceiverReport (GoSrc.mkReceiverReport 0 [] [])) with (zero_packet TRR).
  change (GoSrc.Packet_SourceDescription (GoSrc.mkSourceDescription [])) with (zero_packet TSDES).
  change (GoSrc.Packet_Goodbye (GoSrc.mkGoodbye [] [])) with (zero_packet TBYE).
  change (GoSrc.Packet_ApplicationDefined (GoSrc.mkApplicationDefined 0 0 [] [])) with (zero_packet TAPP).
  change (GoSrc.Packet_TransportLayerNack (GoSrc.mkTransportLayerNack 0 0 [])) with (zero_packet TNACK).
  change (GoSrc.Packet_RapidResynchronizationRequest (GoSrc.mkRapidResynchronizationRequest 0 0)) with (zero_packet TRRR).
  change (GoSrc.Packet_TransportLayerCC (GoSrc.mkTransportLayerCC (GoSrc.mkHeader false 0 0 0) 0 0 0 0 0 0 [] []))
    with (zero_packet TTWCC).
  change (GoSrc.Packet_CCFeedbackReport (GoSrc.mkCCFeedbackReport 0 [] 0)) with (zero_packet TCCFB).
  change (GoSrc.Packet_PictureLossIndication (GoSrc.mkPictureLossIndication 0 0)) with (zero_packet TPLI).
  change (GoSrc.Packet_SliceLossIndication (GoSrc.mkSliceLossIndication 0 0 [])) with (zero_packet TSLI).
  change (GoSrc.Packet_ReceiverEstimatedMaximumBitrate GoSrc.zero_ReceiverEstimatedMaximumBitrate) with (zero_packet TREMB).
  change (GoSrc.Packet_FullIntraRequest (GoSrc.mkFullIntraRequest 0 0 [])) with (zero_packet TFIR).
  change (GoSrc.Packet_ExtendedReport GoSrc.zero_ExtendedReport) with (zero_packet TXR).
  change (GoSrc.Packet_RawPacket []) with (zero_packet TRaw).
  split_on pt 200%N; [arm TSR|].
  split_on pt 201%N; [arm TRR|].
  split_on pt 202%N; [arm TSDES|].
  split_on pt 203%N; [arm TBYE|].
  split_on pt 204%N; [arm TAPP|].
  split_on pt 207%N; [arm TXR|].
  split_on pt 205%N.
  { split_on cnt 1%N; [arm TNACK|].
    split_on cnt 5%N; [arm TRRR|].
    split_on cnt 11%N; [arm TCCFB|].
    split_on cnt 15%N; [arm TTWCC|].
    neq_false. arm TRaw. }
  split_on pt 206%N.
  { split_on cnt 1%N; [arm TPLI|].
    split_on cnt 2%N; [arm TSLI|].
    split_on cnt 4%N; [arm TFIR|].
    split_on cnt 15%N; [arm TREMB|].
    neq_false. arm TRaw. }
  neq_false. arm TRaw.
Qed.

(* ================================================================================================ *)
(* 3. func Unmarshal: for len(rawData) != 0 { p, processed, err := unmarshal(rawData); ... }         *)
(* ================================================================================================ *)

(* The two loops consume the same fuel in the same way: they agree for EVERY fuel (Fuel included), with the packets
   decoded so far as the accumulator of the translated loop. *)
Lemma Unmarshal_loop1_eq : forall fuel acc raw,
  GoSrc.Unmarshal_loop1 fuel acc raw =
  let* ps := unmarshal_loop fuel raw in
  GoSrc.Unmarshal_after1 (acc ++ map src_packet ps) [].
Proof.
  induction fuel as [|f IH]; intros acc raw; [reflexivity|].
  cbn [GoSrc.Unmarshal_loop1 unmarshal_loop].
  destruct raw as [|x raw].
  - rewrite glen_eqb0_nil. cbn [negb bind map]. rewrite app_nil_r. reflexivity.
  - rewrite glen_eqb0_cons. cbn [negb]. rewrite src_unmarshal.
    destruct (unmarshal_one (x :: raw)) as [[p n]| | |]; cbn [res_map bind src_frame]; try reflexivity.
    rewrite gslice_from_N.
    destruct (slice_from (x :: raw) n) as [rest| | |]; cbn [bind]; try reflexivity.
    rewrite IH. destruct (unmarshal_loop f rest) as [ps| | |]; cbn [bind map]; try reflexivity.
    rewrite <- app_assoc. reflexivity.
Qed.

Theorem src_Unmarshal_loop : forall fuel raw,
  GoSrc.Unmarshal_loop1 fuel [] raw =
  let* ps := res_map (map src_packet) (unmarshal_loop fuel raw) in
  match ps with [] => Err | _ => Ok ps end.
Proof.
  intros fuel raw. rewrite Unmarshal_loop1_eq.
  destruct (unmarshal_loop fuel raw) as [ps| | |]; cbn [res_map bind app]; try reflexivity.
  unfold GoSrc.Unmarshal_after1. destruct ps as [|p ps]; cbn [map].
  - reflexivity.
  - rewrite glenl_eqb0_cons. reflexivity.
Qed.

Theorem src_Unmarshal : forall b, GoSrc.Unmarshal b = res_map (map src_packet) (Unmarshal b).
Proof.
  intros b. unfold GoSrc.Unmarshal, Unmarshal. cbv zeta. rewrite to_nat_glen, src_Unmarshal_loop.
  destruct (unmarshal_loop (S (length b)) b) as [ps| | |]; cbn [res_map bind]; try reflexivity.
  destruct ps; reflexivity.
Qed.

(* the fuel the translated caller passes is never exhausted, and the translated decoder never panics *)
Corollary src_Unmarshal_total : forall b, GoSrc.Unmarshal b <> Panic /\ GoSrc.Unmarshal b <> Fuel.
Proof.
  intros b. rewrite src_Unmarshal. destruct (Unmarshal_never_panics b) as [A B].
  destruct (Unmarshal b); cbn [res_map]; split; congruence.
Qed.

(* ================================================================================================ *)
(* 4. func Marshal: for _, p := range packets { data, err := p.Marshal(); out = append(out, data...) } *)
(* ================================================================================================ *)

Lemma Marshal_loop1_eq : forall ps idx out pk, Forall not_compound ps -> Forall packet_fits ps ->
  GoSrc.Marshal_loop1 (map src_packet ps) idx out pk = let* d := Marshal ps in Ok (out ++ d).
Proof.
  induction ps as [|p ps IH]; intros idx out pk Hn Hf; cbn [map GoSrc.Marshal_loop1 Marshal].
  - unfold GoSrc.Marshal_after1. cbn [bind]. rewrite app_nil_r. reflexivity.
  - inversion Hn as [|? ? Hn1 Hn2]; subst. inversion Hf as [|? ? Hf1 Hf2]; subst.
    rewrite src_Packet_Marshal by assumption.
    destruct (marshal_packet p) as [d| | |]; cbn [bind]; try reflexivity.
    rewrite IH by assumption. unfold gappend.
    destruct (Marshal ps) as [ds| | |]; cbn [bind]; try reflexivity.
    rewrite app_assoc. reflexivity.
Qed.

Theorem src_Marshal : forall ps, Forall not_compound ps -> Forall packet_fits ps ->
  GoSrc.Marshal (map src_packet ps) = Marshal ps.
Proof.
  intros ps Hn Hf. unfold GoSrc.Marshal. rewrite gmake_0. cbn [bind]. cbv zeta.
  rewrite Marshal_loop1_eq by assumption.
  destruct (Marshal ps); reflexivity.
Qed.

(* a compound packet in the list: the nil interface value panics where the model validates and encodes *)
Lemma src_Marshal_compound_refuted :
  exists ps, Forall packet_fits ps /\ GoSrc.Marshal (map src_packet ps) <> Marshal ps.
Proof. exists [PCompound []]. split; [repeat constructor|]. cbn. discriminate. Qed.

Print Assumptions src_Packet_Marshal.
Print Assumptions src_Packet_MarshalSize.
Print Assumptions src_Packet_DestinationSSRC.
Print Assumptions src_Packet_methods_compound.
Print Assumptions src_Packet_Marshal_compound_refuted.
Print Assumptions src_Packet_Marshal_refuted_without_fits.
Print Assumptions src_Packet_Unmarshal_zero.
Print Assumptions dispatch_not_compound.
Print Assumptions src_unmarshal.
Print Assumptions Unmarshal_loop1_eq.
Print Assumptions src_Unmarshal_loop.
Print Assumptions src_Unmarshal.
Print Assumptions src_Unmarshal_total.
Print Assumptions Marshal_loop1_eq.
Print Assumptions src_Marshal.
Print Assumptions src_Marshal_compound_refuted.
