(* NackPairsFromSequenceNumbers as translated from the Go source equals the model function (kept in a file of its own so
   that a rewrite of that one helper only touches the obligations of C12). *)

From RTCP Require Import Proofs.Tactics Lib.GoSem Gen.Funcs Proofs.GoSemFacts
  Model.Header Model.Reports Model.Feedback Model.Packet Proofs.SourceEquiv Proofs.SrcConv Proofs.SourceFeedback1.
Local Open Scope Z_scope.

(* ================================================================================================ *)

(* ---------------- NackPairsFromSequenceNumbers ---------------- *)
Lemma shl16_1_shl k : shl 16 1 k = shl16_1 k.
Proof.
  unfold shl, shl16_1. destruct (N.leb_spec 16 k), (N.ltb_spec k 16); try lia.
  rewrite N.mul_1_l. apply N.mod_small. apply N.pow_lt_mono_r; lia.
Qed.

(* the loop, from index |pre| on, with the pair under construction [cur] and the finished pairs [pairs] *)
Lemma NackPairs_loop : forall rest pre cur pairs fuel, (length rest < fuel)%nat ->
  GoSrc.NackPairsFromSequenceNumbers_loop1 fuel (glenl pre) (src_pair cur) pairs (zN (pre ++ rest))
  = Ok (pairs ++ map src_pair (nack_go cur rest)).
Proof.
  induction rest as [|m rest IH]; intros pre cur pairs fuel Hf; (destruct fuel as [|fuel]; [cbn [length] in Hf; lia|]);
    cbn [GoSrc.NackPairsFromSequenceNumbers_loop1].
  - rewrite app_nil_r. unfold zN. rewrite glenl_map. rewrite Z.ltb_irrefl. reflexivity.
  - unfold zN. rewrite glenl_map, glenl_app, glenl_cons.
    destruct (Z.ltb_spec (glenl pre) (glenl pre + (1 + glenl rest))) as [_|H]; [|pose proof (glenl_nonneg rest); lia].
    rewrite map_app. cbn [map]. rewrite gnth_app_mid by (rewrite glenl_map; reflexivity). cbn [bind].
    unfold src_pair. pair_fields. rewrite !uwrap16_sub. rewrite Zltb_N_l.
    cbn [nack_go]. cbn [length] in Hf.
    assert (E : map Z.of_N pre ++ Z.of_N m :: map Z.of_N rest = zN ((pre ++ [m]) ++ rest)).
    { unfold zN. rewrite <- app_assoc, map_app. reflexivity. }
    assert (Ei : glenl pre + 1 = glenl (pre ++ [m])).
    { rewrite glenl_app. reflexivity. }
    rewrite E, Ei.
    destruct (16 <? sub16 m (np_id cur))%N.
    + change (GoSrc.mkNackPair (Z.of_N m) 0) with (src_pair {| np_id := m; np_bm := 0 |}).
      rewrite IH by lia. cbn [map]. rewrite <- app_assoc. reflexivity.
    + cbn [np_id np_bm].
      rewrite uwrap16_sub_r, uwrap16_gshl_l, Zlor_N, shl16_1_shl.
      change (GoSrc.mkNackPair (Z.of_N (np_id cur)) (Z.of_N (N.lor (np_bm cur) (shl16_1 (sub16 (sub16 m (np_id cur)) 1)))))
        with (src_pair {| np_id := np_id cur; np_bm := N.lor (np_bm cur) (shl16_1 (sub16 (sub16 m (np_id cur)) 1)) |}).
      rewrite IH by lia. reflexivity.
Qed.

(* no bound on the sequence numbers is needed: both sides reduce the differences modulo 2^16 in the same way *)
Lemma src_NackPairsFromSequenceNumbers : forall l,
  GoSrc.NackPairsFromSequenceNumbers (zN l) = Ok (map src_pair (nack_pairs_from l)).
Proof.
  intros [|x l]; [reflexivity|].
  unfold GoSrc.NackPairsFromSequenceNumbers, nack_pairs_from.
  destruct (Z.eqb_spec (glenl (zN (x :: l))) 0) as [H|_]; [unfold glenl in H; cbn [zN map length] in H; lia|].
  change (gnth (zN (x :: l)) 0) with (gnth (Z.of_N x :: zN l) 0). rewrite gnth_0. cbn [bind].
  apply (NackPairs_loop l [x] {| np_id := x; np_bm := 0 |} []).
  unfold zN, glenl. rewrite map_length. cbn [length]. lia.
Qed.
Corollary src_NackPairsFromSequenceNumbers_fits : forall l, Forall (fun v => (v < 65536)%N) l ->
  GoSrc.NackPairsFromSequenceNumbers (zN l) = Ok (map src_pair (nack_pairs_from l)).
Proof. intros l _. apply src_NackPairsFromSequenceNumbers. Qed.


Print Assumptions src_NackPairsFromSequenceNumbers.
Print Assumptions src_NackPairsFromSequenceNumbers_fits.
