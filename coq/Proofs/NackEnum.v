(* C12: NACK pair helpers.  pairs_cover is an invariant over the fold; the Range/PacketList facts
   are complete enumerations of the 2^16 bitmaps (bound stated in the lemma), lifted with forallb_forall. *)
From Coq Require Import List NArith ZArith Lia Bool.
From Coq Require Import ZifyN ZifyBool ZifyNat.
From RTCP Require Import Lib.Base Model.Feedback Spec.NackSpec.
Import ListNotations.
Ltac Zify.zify_post_hook ::= Z.div_mod_to_equations.
Local Open Scope N_scope.

(* ---- complete enumeration over all bitmaps ---- *)
Fixpoint N_range (k : nat) (from : N) : list N :=
  match k with O => [] | S k' => from :: N_range k' (from + 1) end.
Lemma In_N_range k : forall from x, from <= x < from + N.of_nat k -> In x (N_range k from).
Proof.
  induction k as [|k IH]; intros from x H; [lia|]. cbn [N_range In].
  destruct (N.eq_dec from x) as [->|Hne]; [left; reflexivity|right; apply IH; lia].
Qed.
Definition all_bitmaps : list N := N_range (N.to_nat 65536) 0.
Lemma In_all_bitmaps b : b < 65536 -> In b all_bitmaps.
Proof. intros H. apply In_N_range. lia. Qed.

Fixpoint list_N_eqb (a b : list N) : bool :=
  match a, b with
  | [], [] => true
  | x :: a', y :: b' => (x =? y) && list_N_eqb a' b'
  | _, _ => false
  end.
Lemma list_N_eqb_eq a : forall b, list_N_eqb a b = true -> a = b.
Proof.
  induction a as [|x a IH]; intros [|y b] H; cbn in H; try discriminate; [reflexivity|].
  apply andb_true_iff in H as [H1 H2]. apply N.eqb_eq in H1. subst. f_equal. auto.
Qed.

Definition bits_of (bm : N) : list N := filter (fun i => N.testbit bm i) idx16.
Definition budgets : list nat := [0;1;2;3;4;5;6;7;8;9;10;11;12;13;14;15;16;17]%nat.

Definition range_ok (bm : N) : bool :=
  forallb (fun k => list_N_eqb (range_idx 17 bm 0 k) (firstn (S k) (bits_of bm))) budgets.

Lemma range_ok_all : forallb range_ok all_bitmaps = true.
Proof. vm_compute. reflexivity. Qed.

Lemma range_idx_prefix bm k : bm < 65536 -> (k <= 17)%nat ->
  range_idx 17 bm 0 k = firstn (S k) (bits_of bm).
Proof.
  intros Hb Hk. pose proof range_ok_all as H. rewrite forallb_forall in H.
  specialize (H bm (In_all_bitmaps bm Hb)). unfold range_ok in H. rewrite forallb_forall in H.
  apply list_N_eqb_eq. apply H. unfold budgets.
  do 18 (destruct k as [|k]; [cbn; tauto|]). lia.
Qed.

Lemma filter_length_le' {A} (f : A -> bool) l : (length (filter f l) <= length l)%nat.
Proof. induction l as [|x l IH]; cbn [filter length]; [lia|]. destruct (f x); cbn [length]; lia. Qed.
Lemma bits_of_length bm : (length (bits_of bm) <= 16)%nat.
Proof. unfold bits_of. etransitivity; [apply filter_length_le'|]. reflexivity. Qed.

Lemma range_idx_all bm : bm < 65536 -> range_idx 17 bm 0 17 = bits_of bm.
Proof.
  intros H. rewrite range_idx_prefix by (auto; lia). apply firstn_all2. pose proof (bits_of_length bm). lia.
Qed.

