(* C04: Unmarshal extracts the RFC-specified fields from valid encodings this library's own encoder never
   produces (FIR with non-zero reserved octets, BYE with an empty reason / extra padding words, SDES PRIV items),
   and SR / RR / SDES / BYE packets whose header count claims more elements than the packet holds are rejected. *)
From RTCP Require Import Proofs.Tactics Proofs.HeaderProofs Model.Header Model.Reports Model.Sdes Model.ByeApp
  Model.Feedback Spec.Enc Proofs.Total1 Proofs.EncFeedback Proofs.EncSdesByeApp.
Local Open Scope N_scope.

(* ================================================================ 1. FIR, reserved octets *)
Definition res3 : Type := (byte * byte * byte)%type.
(* RFC 5104 4.3.1.1: SSRC (32) | Seq nr. (8) | Reserved (24) *)
Definition enc_fir_res (er : FIREntry * res3) : bytes :=
  be 4 (fir_ssrc (fst er)) ++ [n2b (fir_seq (fst er)); fst (fst (snd er)); snd (fst (snd er)); snd (snd er)].
Definition enc_FIR_res (p : FIR) (rs : list res3) : bytes :=
  frame false 4 206 (be 4 (fir_sender p) ++ be 4 (fir_media p)
                     ++ List.concat (map enc_fir_res (combine (fir_entries p) rs))).

Lemma len_enc_fir_res er : len (enc_fir_res er) = 8.
Proof. unfold enc_fir_res. rewrite len_app, !len_be. reflexivity. Qed.

(* with all-zero reserved octets this is the reference encoding *)
Lemma enc_FIR_res_zero p : enc_FIR_res p (repeat (x00, x00, x00) (length (fir_entries p))) = enc_FIR p.
Proof.
  unfold enc_FIR_res, enc_FIR. do 4 f_equal.
  induction (fir_entries p) as [|e es IH]; [reflexivity|].
  cbn [length repeat combine map]. rewrite IH. reflexivity.
Qed.

Lemma fir_step_res pre s q r1 r2 r3 rest : s < 256 ^ N.of_nat 4 ->
  get_be_at 4 (pre ++ (be 4 s ++ [q; r1; r2; r3]) ++ rest) (len pre) = Ok s /\
  idx (pre ++ (be 4 s ++ [q; r1; r2; r3]) ++ rest) (len pre + 4) = Ok q.
Proof.
  intros Hs. rewrite <- app_assoc. split.
  - apply get_be_at_app; [reflexivity | exact Hs].
  - rewrite (app_assoc pre). cbn [app]. apply idx_app. rewrite len_app, len_be. reflexivity.
Qed.

Lemma fir_read_enc_res ers : forall pre fuel, forallb D_fir (map fst ers) = true -> (length ers < fuel)%nat ->
  fir_read fuel (pre ++ List.concat (map enc_fir_res ers)) (len pre) (len pre + 8 * nl ers) = Ok (map fst ers).
Proof.
  unfold nl. induction ers as [|er ers IH]; intros pre fuel Hd Hf.
  - destruct fuel as [|f]; [cbn [length] in Hf; lia|]. cbn [fir_read length].
    destruct (N.ltb_spec (len pre) (len pre + 8 * N.of_nat 0)) as [A|_]; [lia|reflexivity].
  - destruct fuel as [|f]; [lia|]. cbn [length] in Hf.
    cbn [map forallb] in Hd. apply andb_true_iff in Hd as [He Hd]. unfold D_fir in He. apply andb_true_iff in He as [Hs Hq].
    destruct er as [e [[r1 r2] r3]]. cbn [fst] in Hs, Hq.
    cbn [map List.concat]. unfold enc_fir_res at 1. cbn [fst snd]. cbn [fir_read length].
    destruct (N.ltb_spec (len pre) (len pre + 8 * N.of_nat (S (length ers)))) as [_|A]; [|lia].
    destruct (fir_step_res pre (fir_ssrc e) (n2b (fir_seq e)) r1 r2 r3 (List.concat (map enc_fir_res ers)) (fits32_be _ Hs)) as [E1 E2].
    rewrite E1. cbn [bind]. rewrite E2. cbn [bind].
    rewrite (app_assoc pre).
    set (pre' := pre ++ be 4 (fir_ssrc e) ++ [n2b (fir_seq e); r1; r2; r3]).
    assert (Hpre : len pre' = len pre + 8) by (unfold pre'; rewrite !len_app, len_be; reflexivity).
    rewrite <- Hpre.
    replace (len pre + 8 * N.of_nat (S (length ers))) with (len pre' + 8 * N.of_nat (length ers)) by lia.
    rewrite IH by (first [exact Hd | lia]). cbn [bind].
    rewrite b2n_n2b. apply fits8_lt in Hq. rewrite N.mod_small by exact Hq. destruct e; reflexivity.
Qed.

Lemma map_fst_combine {A B} (l : list A) : forall (r : list B), length r = length l -> map fst (combine l r) = l.
Proof.
  induction l as [|x l IH]; intros [|y r] H; cbn [length] in H; try discriminate; [reflexivity|].
  cbn [combine map fst]. rewrite IH by lia. reflexivity.
Qed.

Theorem FIR_unmarshal_reserved p rs : D_FIR p = true -> length rs = length (fir_entries p) ->
  FIR_unmarshal (enc_FIR_res p rs) = Ok p.
Proof.
  intros H Hrs. apply D_FIR_inv in H as (Hs & Hm & Hn1 & Hn & Hd).
  unfold enc_FIR_res. rewrite frame_fb.
  set (ers := combine (fir_entries p) rs).
  assert (Hfst : map fst ers = fir_entries p) by (apply map_fst_combine; exact Hrs).
  assert (Hnl : nl ers = nl (fir_entries p)) by (unfold nl; rewrite <- Hfst, map_length; reflexivity).
  unfold FIR_unmarshal. consts.
  rewrite len_fb, (len_concat_const enc_fir_res 8) by apply len_enc_fir_res. rewrite Hnl.
  set (n := nl (fir_entries p)) in *.
  destruct (N.ltb_spec (12 + 8 * n) (4 + 8)) as [A|_]; [lia|].
  rewrite fb_header by lia. cbn [bind h_type h_count h_len].
  replace (u16 (4 * ((12 + 8 * n) / 4 - 1))) with (8 + 8 * n) by (unfold u16; lia).
  destruct (N.ltb_spec (12 + 8 * n) (4 + (8 + 8 * n))) as [A|_]; [lia|].
  change (negb (206 =? 206) || negb (4 =? 4)) with false. cbv iota.
  replace (sub16 (8 + 8 * n) 8) with (8 * n) by (unfold sub16; lia).
  destruct (N.leb_spec (8 * n) 0) as [A|_]; [lia|].
  destruct (N.eqb_spec ((8 + 8 * n) mod 8) 0) as [_|A]; [|lia].
  cbn [orb negb].
  rewrite fb_sender by exact Hs. cbn [bind].
  change (4 + 4) with 8. rewrite fb_media by exact Hm. cbn [bind].
  unfold fb. rewrite (app_assoc (hdr _ _ _ _)), (app_assoc (_ ++ _) (be 4 (fir_media p))).
  set (pre := (hdr false 4 206 ((12 + 8 * n) / 4 - 1) ++ be 4 (fir_sender p)) ++ be 4 (fir_media p)).
  assert (Hpre : len pre = 12) by (unfold pre; rewrite !len_app, !len_be, len_hdr; reflexivity).
  replace (4 + 8) with (len pre) by exact Hpre.
  replace (4 + (8 + 8 * n)) with (len pre + 8 * nl ers) by (rewrite Hpre, Hnl; lia).
  rewrite fir_read_enc_res.
  - cbn [bind]. rewrite Hfst. destruct p; reflexivity.
  - rewrite Hfst. exact Hd.
  - pose proof (len_concat_const enc_fir_res 8 ers len_enc_fir_res) as Hc. unfold len, nl in Hc.
    rewrite app_length. lia.
Qed.

Print Assumptions FIR_unmarshal_reserved.

(* ================================================================ 2. BYE variants *)
(* one lemma: the reason length octet is present (possibly 0), followed by the reason and by any tail
   that brings the packet to a 32-bit boundary; the tail is ignored *)
Lemma BYE_unmarshal_gen g tail :
  D_BYE g = true -> (len (bye_reason g) + 1 + len tail) mod 4 = 0 ->
  BYE_unmarshal (frame false (nl (bye_sources g)) 203
                   (concat (map (be 4) (bye_sources g)) ++ n2b (len (bye_reason g)) :: bye_reason g ++ tail)) = Ok g.
Proof.
  intros H Hmod. apply D_BYE_inv in H as (Hn & Hs & Hr). unfold nl in Hn.
  unfold BYE_unmarshal, frame.
  rewrite Header_unmarshal_hdr_u16 by (unfold nl; lia). cbn [bind h_type h_count]. consts.
  change (203 =? 203) with true. cbn [negb].
  set (h := hdr _ _ _ _). assert (Hh : len h = 4) by reflexivity.
  set (C := concat (map (be 4) (bye_sources g))).
  set (r := bye_reason g) in *.
  set (n := N.of_nat (length (bye_sources g))) in *.
  assert (HC : len C = 4 * n) by apply len_concat_be4.
  assert (Hm : len (h ++ C ++ n2b (len r) :: r ++ tail) = 4 + 4 * n + 1 + len r + len tail)
    by (rewrite !len_app, len_cons, len_app; lia).
  rewrite Hm.
  replace (get_padding (4 + 4 * n + 1 + len r + len tail)) with 0
    by (unfold get_padding; replace ((4 + 4 * n + 1 + len r + len tail) mod 4) with 0 by lia; reflexivity).
  change (0 =? 0) with true. cbn [negb]. unfold nl, u8. fold n.
  replace ((4 + (n * 4) mod 256) mod 256) with (4 + 4 * n) by lia.
  destruct (N.ltb_spec (4 + 4 * n + 1 + len r + len tail) (4 + 4 * n)) as [A|_]; [lia|].
  unfold n at 1. rewrite Nat2N.id.
  rewrite (get_u32s_enc (bye_sources g) h _ 4) by (auto; reflexivity). cbn [bind].
  destruct (N.ltb_spec (4 + 4 * n) (4 + 4 * n + 1 + len r + len tail)) as [_|A]; [|lia].
  replace (idx (h ++ C ++ n2b (len r) :: r ++ tail) (4 + 4 * n)) with (Ok (n2b (len r)))
    by (symmetry; rewrite app_assoc; apply idx_app; rewrite len_app; lia).
  cbn [bind]. rewrite b2n_n2b, N.mod_small by lia.
  destruct (N.ltb_spec (4 + 4 * n + 1 + len r + len tail) (4 + 4 * n + 1 + len r)) as [A|_]; [lia|].
  replace (slice (h ++ C ++ n2b (len r) :: r ++ tail) (4 + 4 * n + 1) (4 + 4 * n + 1 + len r)) with (Ok r).
  - cbn [bind]. unfold r. destruct g; reflexivity.
  - symmetry. change (h ++ C ++ ?x :: ?t) with (h ++ C ++ [x] ++ t). rewrite !app_assoc. rewrite <- (app_assoc _ r).
    apply slice_mid; rewrite !len_app, len_cons, len_nil; lia.
Qed.

(* (a) reason length octet 0 followed by three null octets ("empty reason") *)
Theorem BYE_unmarshal_empty_reason g : D_BYE g = true -> bye_reason g = [] ->
  BYE_unmarshal (frame false (nl (bye_sources g)) 203
                   (concat (map (be 4) (bye_sources g)) ++ [x00; x00; x00; x00])) = Ok g.
Proof.
  intros H Hr. pose proof (BYE_unmarshal_gen g [x00; x00; x00] H) as G.
  rewrite Hr in G. apply G. reflexivity.
Qed.

(* the three octets after a zero length octet need not be null *)
Theorem BYE_unmarshal_empty_reason_any g t1 t2 t3 : D_BYE g = true -> bye_reason g = [] ->
  BYE_unmarshal (frame false (nl (bye_sources g)) 203
                   (concat (map (be 4) (bye_sources g)) ++ [x00; t1; t2; t3])) = Ok g.
Proof.
  intros H Hr. pose proof (BYE_unmarshal_gen g [t1; t2; t3] H) as G.
  rewrite Hr in G. apply G. reflexivity.
Qed.

(* (b) the reference encoding followed by k extra all-zero padding words *)
Theorem BYE_unmarshal_extra_padding_words g k : D_BYE g = true ->
  BYE_unmarshal (frame false (nl (bye_sources g)) 203 (pad4 (bye_body g) ++ zeros (4 * k))) = Ok g.
Proof.
  intros H. destruct (N.eq_dec k 0) as [->|Hk].
  { change (zeros (4 * 0)) with (@nil byte). rewrite app_nil_r, <- enc_BYE_unfold. apply BYE_unmarshal_enc. exact H. }
  destruct (N.ltb_spec 0 (len (bye_reason g))) as [Hr0|Hr0].
  - pose proof (get_padding_spec (len (bye_body g))) as [Hp4 Hp].
    unfold pad4. set (p := get_padding (len (bye_body g))) in *. clearbody p.
    unfold bye_body in *. rewrite bye_rpart_pos in * by exact Hr0.
    rewrite len_app, len_concat_be4, len_cons in Hp4.
    rewrite <- !app_assoc. cbn [app]. rewrite <- zeros_add.
    apply BYE_unmarshal_gen; [exact H|]. rewrite len_zeros. lia.
  - apply len_0_nil in Hr0. pose proof (BYE_unmarshal_gen g (zeros (4 * k - 1)) H) as G.
    unfold pad4, bye_body. rewrite Hr0 in *. cbn [bye_rpart]. change (len []) with 0 in G.
    rewrite !app_nil_r, len_concat_be4.
    replace (get_padding (4 * N.of_nat (length (bye_sources g)))) with 0
      by (unfold get_padding; replace ((4 * N.of_nat (length (bye_sources g))) mod 4) with 0 by lia; reflexivity).
    rewrite zeros_0, app_nil_r.
    replace (zeros (4 * k)) with (x00 :: zeros (4 * k - 1)).
    + apply G. rewrite len_zeros. lia.
    + replace (4 * k) with (1 + (4 * k - 1)) at 2 by lia. rewrite zeros_add. reflexivity.
Qed.

Theorem BYE_unmarshal_extra_padding g : D_BYE g = true ->
  BYE_unmarshal (frame false (nl (bye_sources g)) 203 (pad4 (bye_body g) ++ [x00; x00; x00; x00])) = Ok g.
Proof. intros H. apply (BYE_unmarshal_extra_padding_words g 1 H). Qed.

Print Assumptions BYE_unmarshal_gen.
Print Assumptions BYE_unmarshal_empty_reason.
Print Assumptions BYE_unmarshal_extra_padding_words.
Print Assumptions BYE_unmarshal_extra_padding.

(* ================================================================ 3. count-inflated packets are rejected *)
(* the 5-bit count field of the first octet *)
Definition cnt (b : bytes) : N := b2n (nth 0 b x00) mod 32.

Lemma Header_unmarshal_cnt b h : Header_unmarshal b = Ok h -> h_count h = cnt b /\ cnt b < 32.
Proof. intros H. apply Header_unmarshal_ok in H as (_ & _ & _ & Hc & _). unfold cnt. split; [exact Hc|lia]. Qed.

Lemma res_err_by_total {A} (r : res A) : r <> Panic /\ r <> Fuel -> (forall a, r <> Ok a) -> r = Err.
Proof. intros [P F] O. destruct r as [a| | |]; [exfalso; apply (O a); reflexivity | reflexivity | contradiction | contradiction]. Qed.

(* ---- SR ---- *)
Lemma SR_unmarshal_count b s : SR_unmarshal b = Ok s -> nlen (sr_reports s) = cnt b.
Proof.
  unfold SR_unmarshal. consts.
  destruct (N.ltb_spec (len b) (4 + 24)); [discriminate|].
  destruct (Header_unmarshal b) as [h| | |] eqn:EH; cbn [bind]; try discriminate.
  apply Header_unmarshal_cnt in EH as [Hc Hc32].
  destruct (negb _); [discriminate|].
  rewrite slice_from_ok by lia. cbn [bind].
  set (body := skipn (N.to_nat 4) b).
  assert (Hb : len body = len b - 4) by (unfold body; rewrite len_skipn; lia).
  reads_ok.
  destruct (sr_reports_loop (N.to_nat (h_count h)) body 24) as [[rs off']| | |] eqn:EL; cbn [bind]; try discriminate.
  apply sr_reports_loop_ok in EL as (_ & _ & E3).
  destruct (off' <? len body).
  - destruct (slice_from body off') as [ext| | |]; cbn [bind]; try discriminate.
    destruct (negb _); [discriminate|].
    intros E. inversion E; subst s. cbn [sr_reports]. unfold nlen. lia.
  - cbn [bind]. destruct (negb _); [discriminate|].
    intros E. inversion E; subst s. cbn [sr_reports]. unfold nlen. lia.
Qed.

Theorem SR_count_exceeds_rejected b : (len b - 28) / 24 < cnt b -> SR_unmarshal b = Err.
Proof.
  intros H. apply res_err_by_total; [apply SR_unmarshal_total|].
  intros s E. pose proof (SR_unmarshal_count b s E) as Hc. apply SR_unmarshal_alloc_N in E. lia.
Qed.

(* ---- RR ---- *)
Lemma RR_unmarshal_count b r : RR_unmarshal b = Ok r -> nlen (rcv_reports r) = cnt b.
Proof.
  unfold RR_unmarshal. consts.
  destruct (N.ltb_spec (len b) (4 + 4)); [discriminate|].
  destruct (Header_unmarshal b) as [h| | |] eqn:EH; cbn [bind]; try discriminate.
  apply Header_unmarshal_cnt in EH as [Hc Hc32].
  destruct (negb _); [discriminate|].
  reads_ok.
  destruct (rr_reports_loop (N.to_nat (h_count h)) b 8) as [rs| | |] eqn:EL; cbn [bind]; try discriminate.
  apply rr_reports_loop_ok in EL as [_ E2]; [|lia].
  destruct (slice_from b _) as [ext| | |]; cbn [bind]; try discriminate.
  unfold u8.
  destruct (N.eqb_spec (nlen rs mod 256) (h_count h)) as [Eq|Ne]; cbn [negb]; [|discriminate].
  intros E. inversion E; subst r. cbn [rcv_reports]. unfold nlen in *. lia.
Qed.

Theorem RR_count_exceeds_rejected b : (len b - 8) / 24 < cnt b -> RR_unmarshal b = Err.
Proof.
  intros H. apply res_err_by_total; [apply RR_unmarshal_total|].
  intros r E. pose proof (RR_unmarshal_count b r E) as Hc. apply RR_unmarshal_alloc_N in E. lia.
Qed.

(* ---- BYE ---- *)
Lemma BYE_unmarshal_count b g : BYE_unmarshal b = Ok g -> nlen (bye_sources g) = cnt b.
Proof.
  unfold BYE_unmarshal.
  destruct (Header_unmarshal b) as [h| | |] eqn:EH; cbn [bind]; try discriminate.
  apply Header_unmarshal_cnt in EH as [Hc Hc32].
  destruct (negb _); [discriminate|].
  destruct (negb _); [discriminate|].
  rewrite (BYE_reason_offset h) by lia. consts.
  destruct (N.ltb_spec (len b) (4 + 4 * h_count h)); [discriminate|].
  destruct (get_u32s_ok (N.to_nat (h_count h)) b 4) as (l & E & Hl); [lia|].
  rewrite E. cbn [bind].
  destruct (if 4 + 4 * h_count h <? len b then _ else _) as [rs| | |]; cbn [bind]; try discriminate.
  intros [= <-]. cbn [bye_sources]. unfold nlen. lia.
Qed.

Theorem BYE_count_exceeds_rejected b : (len b - 4) / 4 < cnt b -> BYE_unmarshal b = Err.
Proof.
  intros H. apply res_err_by_total; [apply BYE_unmarshal_total|].
  intros g E. pose proof (BYE_unmarshal_count b g E) as Hc. apply BYE_unmarshal_alloc_N in E. lia.
Qed.

Print Assumptions SR_count_exceeds_rejected.
Print Assumptions RR_count_exceeds_rejected.
Print Assumptions BYE_count_exceeds_rejected.

(* ---- SDES ---- *)
Lemma SChunk_len_lt c : SChunk_len c < 4 + items_wire (ch_items c) + 1 + 4.
Proof.
  set (w := items_wire (ch_items c)). unfold SChunk_len. rewrite items_wire_fold. fold w. consts.
  pose proof (get_padding_spec (4 + w + 1)). lia.
Qed.

(* every decoded chunk advanced the cursor by at least 8 octets; only the padding of the last one
   (at most 3 octets) may lie beyond the end of the packet *)
Lemma chunks_loop_count : forall fuel raw i cs, chunks_loop fuel raw i = Ok cs -> i <= len raw ->
  i + 8 * nlen cs <= len raw + 3.
Proof.
  induction fuel as [|f IH]; intros raw i cs; cbn [chunks_loop]; [discriminate|].
  destruct (N.ltb_spec i (len raw)).
  - rewrite slice_from_ok by lia. cbn [bind].
    destruct (SChunk_unmarshal _) as [c| | |] eqn:EC; cbn [bind]; try discriminate.
    apply SChunk_unmarshal_ok in EC. rewrite len_skipn in EC.
    pose proof (SChunk_len_ge c) as [G1 G2]. pose proof (SChunk_len_lt c) as G3.
    destruct (chunks_loop f raw (i + SChunk_len c)) as [cs1| | |] eqn:EL; cbn [bind]; try discriminate.
    intros E Hi. inversion E; subst. rewrite nlen_cons.
    destruct (N.le_gt_cases (i + SChunk_len c) (len raw)) as [L|L].
    + apply IH in EL; lia.
    + destruct f as [|f']; cbn [chunks_loop] in EL; [discriminate|].
      destruct (N.ltb_spec (i + SChunk_len c) (len raw)); [lia|].
      inversion EL; subst. rewrite (@nlen_nil SChunk). lia.
  - intros E Hi. inversion E; subst. rewrite (@nlen_nil SChunk). lia.
Qed.

Lemma SDES_unmarshal_count b s : SDES_unmarshal b = Ok s ->
  nlen (sd_chunks s) = cnt b /\ 4 + 8 * nlen (sd_chunks s) <= len b + 3.
Proof.
  unfold SDES_unmarshal.
  destruct (Header_unmarshal b) as [h| | |] eqn:EH; cbn [bind]; try discriminate.
  pose proof (Header_unmarshal_cnt _ _ EH) as [Hc Hc32].
  apply Header_unmarshal_ok in EH as (Hl & _).
  destruct (negb _); [discriminate|].
  destruct (chunks_loop (S (length b)) b c_headerLength) as [cs| | |] eqn:EL; cbn [bind]; try discriminate.
  apply chunks_loop_count in EL; [|consts; lia]. consts.
  destruct (N.eqb_spec (nlen cs) (h_count h)) as [Eq|Ne]; cbn [negb]; [|discriminate].
  intros E. inversion E; subst s. cbn [sd_chunks]. split; lia.
Qed.

(* the bound that holds for ALL byte strings: the padded length of the last chunk may overshoot by up to 3 *)
Theorem SDES_count_exceeds_rejected b : (len b - 4 + 3) / 8 < cnt b -> SDES_unmarshal b = Err.
Proof.
  intros H. apply res_err_by_total; [apply SDES_unmarshal_total|].
  intros s E. apply SDES_unmarshal_count in E as [Hc Hb].
  destruct (N.le_gt_cases 4 (len b)); lia.
Qed.

(* for packets whose length is a multiple of 4 (every packet a compound-packet reader hands over) the
   clean bound holds *)
Theorem SDES_count_exceeds_rejected_aligned b : len b mod 4 = 0 -> (len b - 4) / 8 < cnt b -> SDES_unmarshal b = Err.
Proof.
  intros Hm H. apply res_err_by_total; [apply SDES_unmarshal_total|].
  intros s E. pose proof E as E'. apply SDES_unmarshal_count in E as [Hc Hb].
  unfold SDES_unmarshal in E'. destruct (Header_unmarshal b) as [h| | |] eqn:EH; cbn [bind] in E'; try discriminate.
  apply Header_unmarshal_ok in EH as (Hl & _). lia.
Qed.

(* the clean bound (len b - 4) / 8 is FALSE for unaligned input: 9 octets, count 1, one chunk
   (SSRC + terminating null octet, whose padding would lie beyond the packet) is accepted *)
Definition sdes_short : bytes := [x81; xca; x00; x01; x00; x00; x00; x01; x00].
Lemma SDES_count_exceeds_rejected_refuted :
  exists b, (len b - 4) / 8 < cnt b /\ SDES_unmarshal b = Ok (mkSDES [mkSChunk 1 []]).
Proof. exists sdes_short. split; vm_compute; reflexivity. Qed.

Print Assumptions SDES_count_exceeds_rejected.
Print Assumptions SDES_count_exceeds_rejected_aligned.
Print Assumptions SDES_count_exceeds_rejected_refuted.

(* ================================================================ 4. SDES: PRIV and unregistered item types *)
(* RFC 3550 6.5.8 PRIV (type 8): prefix length 2, prefix "ab", value "cd"; and an unregistered item type 255.
   D_item only asks for type in 1..255, so SDES_unmarshal_enc covers them; the decoder returns them as is. *)
Definition sdes_priv : SDES :=
  mkSDES [mkSChunk 305419896 [mkSItem 8 [x02; x61; x62; x63; x64]; mkSItem 255 [x7a]]].
Example SDES_priv_domain : D_SDES sdes_priv = true.
Proof. vm_compute. reflexivity. Qed.
Example SDES_priv_bytes : enc_SDES sdes_priv =
  [x81; xca; x00; x04;  x12; x34; x56; x78;  x08; x05; x02; x61; x62; x63; x64;  xff; x01; x7a;  x00; x00].
Proof. vm_compute. reflexivity. Qed.
Example SDES_priv_item : SDES_unmarshal (enc_SDES sdes_priv) = Ok sdes_priv.
Proof. vm_compute. reflexivity. Qed.
Example SDES_priv_item_by_theorem : SDES_unmarshal (enc_SDES sdes_priv) = Ok sdes_priv.
Proof. apply SDES_unmarshal_enc. exact SDES_priv_domain. Qed.

Print Assumptions SDES_priv_item.
