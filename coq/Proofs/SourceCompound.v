(* SourceCompound: the translated compound_packet.go (Gen/Funcs.v, module GoSrc: CompoundPacket_Validate, _CNAME, _Marshal,
   _MarshalSize, _Unmarshal, _DestinationSSRC) computes what the model computes (Model/Packet.v: Compound_validate,
   Compound_cname, marshal_packet / size_packet / dest_packet of PCompound, Compound_unmarshal).

   Validate and CNAME only inspect the sum and the SDES items: they need no hypothesis at all (a nested compound maps to the
   nil interface value, which falls in the default arm of every type switch exactly as PCompound does in the model).
   The facts about packet.go (GoSrc.Marshal, GoSrc.unmarshal, GoSrc.Packet_MarshalSize, GoSrc.Packet_DestinationSSRC) are
   hypotheses of the section PacketFacts; after End they are explicit premises of the lemmas that use them. *)
From RTCP Require Import Proofs.Tactics Lib.GoSem Gen.Funcs Proofs.GoSemFacts
  Model.Header Model.Reports Model.Sdes Model.Packet Proofs.SourceEquiv Proofs.SrcConv Proofs.Dgram.
Local Open Scope Z_scope.

(* ================================================================================================ *)
(* More transfer lemmas: lists as Go slices                                                          *)
(* ================================================================================================ *)
Section MoreGoSemFacts.

Lemma glenl_nil_eqb0 {A} : (glenl (@nil A) =? 0) = true.
Proof. reflexivity. Qed.
Lemma glenl_cons_eqb0 {A} (x : A) l : (glenl (x :: l) =? 0) = false.
Proof. unfold glenl. cbn [length]. destruct (Z.eqb_spec (Z.of_nat (S (length l))) 0); [lia|reflexivity]. Qed.
Lemma glenl_nil_ltb1 {A} : (glenl (@nil A) <? 1) = true.
Proof. reflexivity. Qed.
Lemma glenl_cons_ltb1 {A} (x : A) l : (glenl (x :: l) <? 1) = false.
Proof. unfold glenl. cbn [length]. destruct (Z.ltb_spec (Z.of_nat (S (length l))) 1); [lia|reflexivity]. Qed.

(* c[0] *)
Lemma gnth_cons0 {A} (x : A) l : gnth (x :: l) 0 = Ok x.
Proof.
  unfold gnth, glenl. cbn [length].
  destruct (Z.ltb_spec 0 0); [lia|]. destruct (Z.leb_spec (Z.of_nat (S (length l))) 0); [lia|]. reflexivity.
Qed.

(* c[1:] written c[1:len(c)] *)
Lemma gslicel_tail {A} (x : A) l : gslicel (x :: l) 1 (glenl (x :: l)) = Ok l.
Proof.
  unfold gslicel, glenl. cbn [length].
  destruct (Z.ltb_spec 1 0); [lia|]. destruct (Z.ltb_spec (Z.of_nat (S (length l))) 1); [lia|].
  destruct (Z.ltb_spec (Z.of_nat (S (length l))) (Z.of_nat (S (length l)))); [lia|]. cbn [orb].
  change (Z.to_nat 1) with 1%nat. cbn [skipn]. f_equal. apply firstn_all2. lia.
Qed.

Lemma Zeqb1_N x : (Z.of_N x =? 1) = (x =? c_SDESCNAME)%N.
Proof. unfold c_SDESCNAME. destruct (Z.eqb_spec (Z.of_N x) 1), (N.eqb_spec x 1); try reflexivity; lia. Qed.

Lemma to_nat_glen b : Z.to_nat (glen b) = length b.
Proof. unfold glen. apply Nat2Z.id. Qed.

End MoreGoSemFacts.

(* ================================================================================================ *)
(* Validate                                                                                          *)
(* ================================================================================================ *)
Definition is_cname (it : SItem) : bool := (it_type it =? c_SDESCNAME)%N.

Lemma Validate_loop3_eq items : forall idx c c1 h p pkt,
  GoSrc.CompoundPacket_Validate_loop3 (map src_item items) idx c c1 h p pkt =
  Ok (inl (c, c1, h || existsb is_cname items, p, pkt)).
Proof.
  induction items as [|it items IH]; intros idx c c1 h p pkt; cbn [map GoSrc.CompoundPacket_Validate_loop3 existsb].
  - rewrite orb_false_r. reflexivity.
  - unfold src_item at 1. cbn [GoSrc.SourceDescriptionItem_Type]. rewrite Zeqb1_N. unfold is_cname at 1.
    destruct (it_type it =? c_SDESCNAME)%N; rewrite IH; cbn [orb].
    + rewrite orb_true_r. reflexivity.
    + reflexivity.
Qed.

Lemma Validate_loop2_eq chunks : forall idx c h p pkt,
  GoSrc.CompoundPacket_Validate_loop2 (map src_chunk chunks) idx c h p pkt =
  Ok (inl (c, h || existsb (fun ch => existsb is_cname (ch_items ch)) chunks, p, pkt)).
Proof.
  induction chunks as [|ch chunks IH]; intros idx c h p pkt; cbn [map GoSrc.CompoundPacket_Validate_loop2 existsb].
  - rewrite orb_false_r. reflexivity.
  - unfold src_chunk at 1. cbn [GoSrc.SourceDescriptionChunk_Items]. rewrite Validate_loop3_eq, IH, orb_assoc. reflexivity.
Qed.

Lemma Validate_loop6_eq items : forall idx c c1 h p pkt,
  GoSrc.CompoundPacket_Validate_loop6 (map src_item items) idx c c1 h p pkt =
  Ok (inl (c, c1, h || existsb is_cname items, p, pkt)).
Proof.
  induction items as [|it items IH]; intros idx c c1 h p pkt; cbn [map GoSrc.CompoundPacket_Validate_loop6 existsb].
  - rewrite orb_false_r. reflexivity.
  - unfold src_item at 1. cbn [GoSrc.SourceDescriptionItem_Type]. rewrite Zeqb1_N. unfold is_cname at 1.
    destruct (it_type it =? c_SDESCNAME)%N; rewrite IH; cbn [orb].
    + rewrite orb_true_r. reflexivity.
    + reflexivity.
Qed.

Lemma Validate_loop5_eq chunks : forall idx c h p pkt,
  GoSrc.CompoundPacket_Validate_loop5 (map src_chunk chunks) idx c h p pkt =
  Ok (inl (c, h || existsb (fun ch => existsb is_cname (ch_items ch)) chunks, p, pkt)).
Proof.
  induction chunks as [|ch chunks IH]; intros idx c h p pkt; cbn [map GoSrc.CompoundPacket_Validate_loop5 existsb].
  - rewrite orb_false_r. reflexivity.
  - unfold src_chunk at 1. cbn [GoSrc.SourceDescriptionChunk_Items]. rewrite Validate_loop6_eq, IH, orb_assoc. reflexivity.
Qed.

Lemma sdes_has_cname_eq s : sdes_has_cname s = existsb (fun ch => existsb is_cname (ch_items ch)) (sd_chunks s).
Proof. reflexivity. Qed.

Lemma Validate_loop1_eq l : forall idx c,
  GoSrc.CompoundPacket_Validate_loop1 (map src_packet l) idx c = validate_rest l.
Proof.
  induction l as [|p l IH]; intros idx c; [reflexivity|].
  destruct p; cbn [map src_packet GoSrc.CompoundPacket_Validate_loop1 validate_rest]; try reflexivity.
  - apply IH.
  - unfold src_sdes. cbn [GoSrc.SourceDescription_Chunks]. rewrite Validate_loop2_eq, sdes_has_cname_eq. cbn [orb].
    destruct (existsb _ (sd_chunks x)); reflexivity.
Qed.

Lemma Validate_loop4_eq l : forall idx c,
  GoSrc.CompoundPacket_Validate_loop4 (map src_packet l) idx c = validate_rest l.
Proof.
  induction l as [|p l IH]; intros idx c; [reflexivity|].
  destruct p; cbn [map src_packet GoSrc.CompoundPacket_Validate_loop4 validate_rest]; try reflexivity.
  - apply IH.
  - unfold src_sdes. cbn [GoSrc.SourceDescription_Chunks]. rewrite Validate_loop5_eq, sdes_has_cname_eq. cbn [orb].
    destruct (existsb _ (sd_chunks x)); reflexivity.
Qed.

(* no hypothesis: a nested compound (the nil interface value) is rejected by both sides *)
Theorem src_CompoundPacket_Validate : forall l,
  GoSrc.CompoundPacket_Validate (map src_packet l) = Compound_validate l.
Proof.
  intros [|p l]; [reflexivity|]. unfold GoSrc.CompoundPacket_Validate. cbn [map].
  rewrite glenl_cons_eqb0, gnth_cons0, gslicel_tail. cbn [bind].
  destruct p; cbn [src_packet Compound_validate]; try reflexivity.
  - apply Validate_loop1_eq.
  - apply Validate_loop4_eq.
Qed.

(* the form asked for in the task: same statement through res_map, with the (unneeded) hypothesis *)
Corollary src_CompoundPacket_Validate_nc : forall l, Forall not_compound l ->
  GoSrc.CompoundPacket_Validate (map src_packet l) = res_map (fun _ => tt) (Compound_validate l).
Proof.
  intros l _. rewrite src_CompoundPacket_Validate. destruct (Compound_validate l) as [[]| | |]; reflexivity.
Qed.

(* ================================================================================================ *)
(* CNAME                                                                                             *)
(* ================================================================================================ *)
Lemma CNAME_loop3_eq items : forall idx c c1 err ok pkt sdes,
  GoSrc.CompoundPacket_CNAME_loop3 (map src_item items) idx c c1 err ok pkt sdes =
  match filter is_cname items with
  | it :: _ => if err then Err else Ok (inr (it_text it))
  | [] => Ok (inl (c, c1, err, ok, pkt, sdes))
  end.
Proof.
  induction items as [|it items IH]; intros idx c c1 err ok pkt sdes; cbn [map GoSrc.CompoundPacket_CNAME_loop3 filter].
  - reflexivity.
  - unfold src_item at 1 2. cbn [GoSrc.SourceDescriptionItem_Type GoSrc.SourceDescriptionItem_Text].
    rewrite Zeqb1_N. unfold is_cname at 1.
    destruct (it_type it =? c_SDESCNAME)%N; [reflexivity|apply IH].
Qed.

Lemma CNAME_loop5_eq items : forall idx c c1 err ok pkt sdes,
  GoSrc.CompoundPacket_CNAME_loop5 (map src_item items) idx c c1 err ok pkt sdes =
  match filter is_cname items with
  | it :: _ => if err then Err else Ok (inr (it_text it))
  | [] => Ok (inl (c, c1, err, ok, pkt, sdes))
  end.
Proof.
  induction items as [|it items IH]; intros idx c c1 err ok pkt sdes; cbn [map GoSrc.CompoundPacket_CNAME_loop5 filter].
  - reflexivity.
  - unfold src_item at 1 2. cbn [GoSrc.SourceDescriptionItem_Type GoSrc.SourceDescriptionItem_Text].
    rewrite Zeqb1_N. unfold is_cname at 1.
    destruct (it_type it =? c_SDESCNAME)%N; [reflexivity|apply IH].
Qed.

Lemma CNAME_loop2_eq chunks : forall idx c err ok pkt sdes,
  GoSrc.CompoundPacket_CNAME_loop2 (map src_chunk chunks) idx c err ok pkt sdes =
  match filter is_cname (flat_map ch_items chunks) with
  | it :: _ => if err then Err else Ok (inr (it_text it))
  | [] => Ok (inl (c, err, ok, pkt, sdes))
  end.
Proof.
  induction chunks as [|ch chunks IH]; intros idx c err ok pkt sdes; cbn [map GoSrc.CompoundPacket_CNAME_loop2 flat_map].
  - reflexivity.
  - unfold src_chunk at 1. cbn [GoSrc.SourceDescriptionChunk_Items]. rewrite CNAME_loop3_eq, filter_app.
    destruct (filter is_cname (ch_items ch)) as [|it r]; cbn [app].
    + apply IH.
    + destruct err; reflexivity.
Qed.

Lemma CNAME_loop4_eq chunks : forall idx c err ok pkt sdes,
  GoSrc.CompoundPacket_CNAME_loop4 (map src_chunk chunks) idx c err ok pkt sdes =
  match filter is_cname (flat_map ch_items chunks) with
  | it :: _ => if err then Err else Ok (inr (it_text it))
  | [] => Ok (inl (c, err, ok, pkt, sdes))
  end.
Proof.
  induction chunks as [|ch chunks IH]; intros idx c err ok pkt sdes; cbn [map GoSrc.CompoundPacket_CNAME_loop4 flat_map].
  - reflexivity.
  - unfold src_chunk at 1. cbn [GoSrc.SourceDescriptionChunk_Items]. rewrite CNAME_loop5_eq, filter_app.
    destruct (filter is_cname (ch_items ch)) as [|it r]; cbn [app].
    + apply IH.
    + destruct err; reflexivity.
Qed.

Lemma sdes_first_cname_eq s :
  sdes_first_cname s = match filter is_cname (flat_map ch_items (sd_chunks s)) with it :: _ => Some (it_text it) | [] => None end.
Proof. reflexivity. Qed.

(* what the Go caller sees of (text, err): the translated function returns Err when err != nil *)
Definition cname_view (r : res (bytes * bool)) : res bytes :=
  match r with Ok (t, false) => Ok t | Ok (_, true) => Err | Err => Err | Panic => Panic | Fuel => Fuel end.

Lemma CNAME_loop1_eq l : forall idx c err,
  GoSrc.CompoundPacket_CNAME_loop1 (map src_packet l) idx c err = cname_view (cname_rest l err).
Proof.
  induction l as [|p l IH]; intros idx c err; [reflexivity|].
  destruct p; cbn [map src_packet GoSrc.CompoundPacket_CNAME_loop1 cname_rest negb]; try apply IH.
  unfold src_sdes. cbn [GoSrc.SourceDescription_Chunks]. rewrite CNAME_loop2_eq, sdes_first_cname_eq.
  destruct (filter is_cname (flat_map ch_items (sd_chunks x))) as [|it r].
  - apply IH.
  - destruct err; reflexivity.
Qed.

(* no hypothesis: a nested compound counts as "a packet that is neither RR nor SDES" on both sides *)
Theorem src_CompoundPacket_CNAME : forall l,
  GoSrc.CompoundPacket_CNAME (map src_packet l) =
  match Compound_cname l with Ok (t, false) => Ok t | Ok (_, true) => Err | Err => Err | Panic => Panic | Fuel => Fuel end.
Proof.
  intros [|p l]; [reflexivity|]. unfold GoSrc.CompoundPacket_CNAME. cbn [map].
  rewrite glenl_cons_ltb1, gslicel_tail. cbn [bind Compound_cname]. apply CNAME_loop1_eq.
Qed.

(* ================================================================================================ *)
(* Marshal, MarshalSize, DestinationSSRC, Unmarshal: relative to the packet.go facts                 *)
(* ================================================================================================ *)
Section PacketFacts.

Variable packet_fits : packet -> Prop.

Hypothesis H_Marshal : forall ps, Forall not_compound ps -> Forall packet_fits ps ->
  GoSrc.Marshal (map src_packet ps) = Marshal ps.
Hypothesis H_unmarshal_loop : forall b, GoSrc.Unmarshal b = res_map (map src_packet) (Unmarshal b).
Hypothesis H_unmarshal1 : forall b,
  GoSrc.unmarshal b = res_map (fun pn => (src_packet (fst pn), Z.of_N (snd pn))) (unmarshal_one b).
Hypothesis H_size : forall p, not_compound p -> GoSrc.Packet_MarshalSize (src_packet p) = Ok (Z.of_N (size_packet p)).
Hypothesis H_dest : forall p, not_compound p -> GoSrc.Packet_DestinationSSRC (src_packet p) = Ok (zN (dest_packet p)).

(* ---- MarshalSize ---- *)
Definition sum_sizes (l : list packet) : N := fold_right (fun q acc => (size_packet q + acc)%N) 0%N l.

Lemma size_compound_eq l : size_packet (PCompound l) = sum_sizes l.
Proof. reflexivity. Qed.

Lemma MarshalSize_loop1_eq l : Forall not_compound l -> forall idx c acc,
  GoSrc.CompoundPacket_MarshalSize_loop1 (map src_packet l) idx c acc = Ok (acc + Z.of_N (sum_sizes l)).
Proof using H_size.
  clear H_Marshal H_unmarshal_loop H_unmarshal1 H_dest packet_fits.   (* lia would pull them into the proof term *)
  induction 1 as [|p l Hp _ IH]; intros idx c acc; cbn [map GoSrc.CompoundPacket_MarshalSize_loop1].
  - unfold GoSrc.CompoundPacket_MarshalSize_after1, sum_sizes. cbn [fold_right]. f_equal. lia.
  - rewrite (H_size p Hp). cbn [bind]. rewrite IH. f_equal. unfold sum_sizes. cbn [fold_right]. lia.
Qed.

Theorem src_CompoundPacket_MarshalSize : forall l, Forall not_compound l ->
  GoSrc.CompoundPacket_MarshalSize (map src_packet l) = Ok (Z.of_N (size_packet (PCompound l))).
Proof using H_size.
  intros l Hl. unfold GoSrc.CompoundPacket_MarshalSize. rewrite (MarshalSize_loop1_eq l Hl), size_compound_eq.
  reflexivity.
Qed.

(* ---- DestinationSSRC: only the first member is consulted ---- *)
Theorem src_CompoundPacket_DestinationSSRC_hd : forall l,
  match l with [] => True | p :: _ => not_compound p end ->
  GoSrc.CompoundPacket_DestinationSSRC (map src_packet l) = Ok (zN (dest_packet (PCompound l))).
Proof using H_dest.
  intros [|p l] Hp; [reflexivity|]. unfold GoSrc.CompoundPacket_DestinationSSRC. cbn [map].
  rewrite glenl_cons_eqb0, gnth_cons0. cbn [bind]. rewrite (H_dest p Hp). reflexivity.
Qed.

Theorem src_CompoundPacket_DestinationSSRC : forall l, Forall not_compound l ->
  GoSrc.CompoundPacket_DestinationSSRC (map src_packet l) = Ok (zN (dest_packet (PCompound l))).
Proof using H_dest.
  intros l Hl. apply src_CompoundPacket_DestinationSSRC_hd. destruct Hl; [exact I|assumption].
Qed.

(* ---- Marshal ---- *)
Theorem src_CompoundPacket_Marshal : forall l, Forall not_compound l -> Forall packet_fits l ->
  GoSrc.CompoundPacket_Marshal (map src_packet l) = marshal_packet (PCompound l).
Proof using H_Marshal.
  intros l Hn Hf. unfold GoSrc.CompoundPacket_Marshal.
  rewrite src_CompoundPacket_Validate, marshal_compound_eq.
  destruct (Compound_validate l); cbn [bind]; try reflexivity.
  rewrite (H_Marshal l Hn Hf). destruct (Marshal l); reflexivity.
Qed.

(* ---- Unmarshal ---- *)
Lemma Unmarshal_loop1_eq fuel : forall raw c out,
  GoSrc.CompoundPacket_Unmarshal_loop1 fuel c out raw =
  bind (unmarshal_loop fuel raw) (fun ps => GoSrc.CompoundPacket_Unmarshal_after1 c (out ++ map src_packet ps) []).
Proof using H_unmarshal1.
  clear H_Marshal H_unmarshal_loop H_size H_dest packet_fits.
  induction fuel as [|fuel IH]; intros raw c out; [reflexivity|].
  cbn [GoSrc.CompoundPacket_Unmarshal_loop1 unmarshal_loop]. destruct raw as [|x raw].
  - rewrite glen_nil. cbn [Z.eqb negb bind map]. rewrite app_nil_r. reflexivity.
  - rewrite glen_cons. destruct (Z.eqb_spec (1 + glen raw) 0) as [E|_]; [pose proof (glen_nonneg raw); lia|].
    cbn [negb]. rewrite H_unmarshal1.
    destruct (unmarshal_one (x :: raw)) as [[p n]| | |]; cbn [res_map bind fst snd]; try reflexivity.
    rewrite gslice_from_N. destruct (slice_from (x :: raw) n) as [rest| | |]; cbn [bind]; try reflexivity.
    rewrite IH. destruct (unmarshal_loop fuel rest) as [ps| | |]; cbn [bind map]; try reflexivity.
    rewrite <- app_assoc. reflexivity.
Qed.

Theorem src_CompoundPacket_Unmarshal_gen : forall c b,
  GoSrc.CompoundPacket_Unmarshal c b = res_map (map src_packet) (Compound_unmarshal b).
Proof using H_unmarshal1.
  intros c b. unfold GoSrc.CompoundPacket_Unmarshal, Compound_unmarshal.
  change (gmakel GoSrc.Packet_nil 0) with (Ok (@nil GoSrc.Packet)). cbn [bind].
  rewrite to_nat_glen, Unmarshal_loop1_eq.
  destruct (unmarshal_loop (S (length b)) b) as [ps| | |]; cbn [bind app res_map]; try reflexivity.
  unfold GoSrc.CompoundPacket_Unmarshal_after1. rewrite src_CompoundPacket_Validate.
  destruct (Compound_validate ps) as [[]| | |]; reflexivity.
Qed.

Theorem src_CompoundPacket_Unmarshal : forall b,
  GoSrc.CompoundPacket_Unmarshal [] b = res_map (map src_packet) (Compound_unmarshal b).
Proof using H_unmarshal1. intros b. apply src_CompoundPacket_Unmarshal_gen. Qed.

End PacketFacts.

Check src_CompoundPacket_MarshalSize.
Check src_CompoundPacket_DestinationSSRC_hd.
Check src_CompoundPacket_DestinationSSRC.
Check src_CompoundPacket_Marshal.
Check src_CompoundPacket_Unmarshal_gen.
Check src_CompoundPacket_Unmarshal.

Print Assumptions src_CompoundPacket_Validate.
Print Assumptions src_CompoundPacket_Validate_nc.
Print Assumptions src_CompoundPacket_CNAME.
Print Assumptions src_CompoundPacket_MarshalSize.
Print Assumptions src_CompoundPacket_DestinationSSRC_hd.
Print Assumptions src_CompoundPacket_DestinationSSRC.
Print Assumptions src_CompoundPacket_Marshal.
Print Assumptions src_CompoundPacket_Unmarshal_gen.
Print Assumptions src_CompoundPacket_Unmarshal.
